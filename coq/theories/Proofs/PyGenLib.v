(* Proofs/PyGenLib.v -- lemmas and the rewrite-tolerant tactics used to connect the REGENERATED definitions
   of Generated/PyFuncs.v to the hand-written models.  The proofs of Proofs/PyGenSatP.v / PyGenTieP.v try the
   generic tactic [py_auto] first (unfold the vocabulary of Model/PyPrims.v, normalise loops into sums,
   split on every condition, decide the arithmetic) and fall back to a specific script only then, so that a
   behaviour-preserving rewrite of the Python source (which changes the shape of the generated term) still
   goes through. *)
From Coq Require Import String.
From PB Require Import Model.PyPrims Proofs.InstanceP Proofs.SatisfactionP.
From Coq Require Import Qround.
From Coq Require Import Setoid Morphisms.
Open Scope Q_scope.

(* ---------- the vocabulary, as an unfolding database ---------- *)
Global Hint Unfold py_int_of_bool py_truth py_eq py_ne py_lt py_le py_gt py_ge frac py_min2 py_max2
  py_sum py_any py_all py_len py_cost py_name py_budget_limit py_instance_iter py_in_instance py_len_instance
  py_total_cost py_max_budget_allocation_cardinality py_max_budget_allocation_cost
  py_ballot_iter py_in_ballot py_len_ballot py_ballot_get py_ballot_getitem py_ballot_position
  py_profile_iter py_in_pballot py_pballot_iter py_multiplicity py_len_profile py_approval_score
  py_dict_get py_dict_get_default py_sorted_by_key py_sorted_projects py_in_list py_proj_eq py_index
  py_inst py_proj py_ballot py_profile py_pballot py_aprofile
  py_chain py_combinations py_enumerate py_sorted_nums py_np_median py_float py_len_pballot py_num_ballots
  py_profile_approval_score py_profile_total_score py_as_sat_profile py_satprofile_iter py_satprofile_multiplicity
  py_satobj py_satclass py_satentry py_satprofile py_is_empty py_pay_row py_row_get py_relaxed_cost
  py_payments py_relax : pyprims.

Global Hint Unfold cardinality_p cost_p rel_card_p rel_card_norm rel_by rel_cost_p approx_norm rel_cost_approx_p
  effort_p add_card_p add_card_rel_p borda_p cc_app cc_card ind sat_add bcosts rel_cost_norm add_card_rel_norm
  tcost nproj is_feasible is_exhaustive budget_allocations is_trivial : pymodel.

(* ---------- comparisons respect == ---------- *)
Global Instance Qeqb_proper : Proper (Qeq ==> Qeq ==> eq) Qeqb.
Proof.
  intros a a' Ha b b' Hb. destruct (Qeqb a b) eqn:E1, (Qeqb a' b') eqn:E2; try reflexivity.
  - apply Qeqb_iff in E1. apply Qeqb_false_iff in E2. exfalso. apply E2. rewrite <- Ha, <- Hb. exact E1.
  - apply Qeqb_iff in E2. apply Qeqb_false_iff in E1. exfalso. apply E1. rewrite Ha, Hb. exact E2.
Qed.
Global Instance Qleb_proper : Proper (Qeq ==> Qeq ==> eq) Qleb.
Proof.
  intros a a' Ha b b' Hb. destruct (Qleb a b) eqn:E1, (Qleb a' b') eqn:E2; try reflexivity.
  - apply Qleb_iff in E1. apply Qleb_false_iff in E2. exfalso. rewrite Ha, Hb in E1. lra.
  - apply Qleb_iff in E2. apply Qleb_false_iff in E1. exfalso. rewrite <- Ha, <- Hb in E2. lra.
Qed.
Global Instance Qltb_proper : Proper (Qeq ==> Qeq ==> eq) Qltb.
Proof. intros a a' Ha b b' Hb. unfold Qltb. fold (Qleb b a). fold (Qleb b' a'). rewrite Ha, Hb. reflexivity. Qed.

(* ---------- loops are sums ---------- *)
Lemma fold_sum {A} (f : A -> Q) l : forall a,
  fold_left (fun acc x => acc + f x) l a == a + Qsum (map f l).
Proof. induction l as [|x l IH]; intro a; simpl; [ring|]. rewrite IH. ring. Qed.

Lemma fold_sum_l {A} (f : A -> Q) l : forall a,
  fold_left (fun acc x => f x + acc) l a == a + Qsum (map f l).
Proof. induction l as [|x l IH]; intro a; simpl; [ring|]. rewrite IH. ring. Qed.

Lemma fold_sum_if {A} (c : A -> bool) (f : A -> Q) l : forall a,
  fold_left (fun acc x => if c x then acc + f x else acc) l a == a + Qsum (map f (filter c l)).
Proof.
  induction l as [|x l IH]; intro a; simpl; [ring|]. rewrite IH. destruct (c x); simpl; ring.
Qed.

Lemma Qsum_map_ext {A} (f g : A -> Q) l :
  (forall x, In x l -> f x == g x) -> Qsum (map f l) == Qsum (map g l).
Proof.
  induction l as [|x l IH]; intro H; simpl; [reflexivity|].
  rewrite (H x (or_introl eq_refl)), IH; [reflexivity|]. intros y Hy. apply H. right. exact Hy.
Qed.

Lemma Qsum_map_filter {A} (c : A -> bool) (f : A -> Q) l :
  Qsum (map f (filter c l)) == Qsum (map (fun x => if c x then f x else 0) l).
Proof. induction l as [|x l IH]; simpl; [reflexivity|]. destruct (c x); simpl; rewrite IH; ring. Qed.

Lemma existsb_map {A B} (f : A -> B) (g : B -> bool) l : existsb g (map f l) = existsb (fun x => g (f x)) l.
Proof. induction l as [|x l IH]; simpl; [reflexivity|]. rewrite IH. reflexivity. Qed.

Lemma existsb_flat_map {A B} (f : A -> list B) (g : B -> bool) l :
  existsb g (flat_map f l) = existsb (fun x => existsb g (f x)) l.
Proof. induction l as [|x l IH]; simpl; [reflexivity|]. rewrite existsb_app, IH. reflexivity. Qed.
Lemma forallb_flat_map {A B} (f : A -> list B) (g : B -> bool) l :
  forallb g (flat_map f l) = forallb (fun x => forallb g (f x)) l.
Proof. induction l as [|x l IH]; simpl; [reflexivity|]. rewrite forallb_app, IH. reflexivity. Qed.
Lemma Qsum_flat_map {A} (f : A -> list Q) l : Qsum (flat_map f l) == Qsum (map (fun x => Qsum (f x)) l).
Proof. induction l as [|x l IH]; simpl; [reflexivity|]. rewrite Qsum_app, IH. reflexivity. Qed.
Lemma existsb_filter {A} (c g : A -> bool) l : existsb g (filter c l) = existsb (fun x => c x && g x) l.
Proof. induction l as [|x l IH]; simpl; [reflexivity|]. destruct (c x); simpl; rewrite IH; reflexivity. Qed.

Lemma existsb_ext' {A} (f g : A -> bool) l : (forall x, f x = g x) -> existsb f l = existsb g l.
Proof. intro H. induction l as [|x l IH]; simpl; [reflexivity|]. rewrite H, IH. reflexivity. Qed.

Lemma fold_left_ext {A B} (f g : A -> B -> A) (l : list B) : forall a : A,
  (forall (a : A) (x : B), f a x = g a x) -> fold_left f l a = fold_left g l a.
Proof. induction l as [|x l IH]; intros a H; simpl; [reflexivity|]. rewrite H. apply IH. exact H. Qed.

(* loops over a comprehension = loops over the underlying sequence *)
Lemma fold_left_map {A B C} (f : A -> B -> A) (g : C -> B) (l : list C) : forall a : A,
  fold_left f (map g l) a = fold_left (fun a x => f a (g x)) l a.
Proof. induction l as [|x l IH]; intro a; simpl; [reflexivity|apply IH]. Qed.

Lemma fold_left_filter {A B} (f : A -> B -> A) (c : B -> bool) (l : list B) : forall a : A,
  fold_left f (filter c l) a = fold_left (fun a x => if c x then f a x else a) l a.
Proof. induction l as [|x l IH]; intro a; simpl; [reflexivity|]. destruct (c x); simpl; apply IH. Qed.

(* two loops over the same sequence whose bodies agree (up to ==) on equal states *)
Lemma fold_left_Qeq {B} (f g : Q -> B -> Q) (l : list B) : forall a b : Q,
  (forall a a' x, a == a' -> f a x == g a' x) -> a == b -> fold_left f l a == fold_left g l b.
Proof.
  induction l as [|x l IH]; intros a b H Hab; simpl; [exact Hab|]. apply IH; [exact H|]. apply H. exact Hab.
Qed.

(* ... and the same when the bodies only agree on non-negative states (running maxima starting at 0) *)
Lemma fold_left_Qeq_nonneg {B} (f g : Q -> B -> Q) (l : list B) : forall a b : Q,
  (forall a a' x, a == a' /\ 0 <= a' -> f a x == g a' x /\ 0 <= g a' x) ->
  a == b /\ 0 <= b -> fold_left f l a == fold_left g l b.
Proof.
  induction l as [|x l IH]; intros a b H Hab; simpl; [exact (proj1 Hab)|]. apply IH; [exact H|]. apply H. exact Hab.
Qed.

(* an accumulator loop whose body adds something to the accumulator = the sum of what it adds *)
Lemma fold_additive {A} (F : Q -> A -> Q) (l : list A) : forall a,
  (forall a x, F a x == a + F 0 x) -> fold_left F l a == a + Qsum (map (F 0) l).
Proof.
  induction l as [|x l IH]; intros a H; simpl; [ring|]. rewrite IH by exact H. rewrite (H a x). ring.
Qed.

(* counting idioms for "some element satisfies c" *)
Lemma existsb_length_filter {A} (c : A -> bool) (l : list A) :
  Qltb 0 (Qnat (length (filter c l))) = existsb c l.
Proof.
  induction l as [|x l IH]; simpl; [reflexivity|]. destruct (c x); simpl; [|exact IH].
  apply Qltb_iff. apply Qnat_pos. lia.
Qed.
Lemma existsb_length_filter_ne {A} (c : A -> bool) (l : list A) :
  negb (Qeqb (Qnat (length (filter c l))) 0) = existsb c l.
Proof.
  rewrite <- existsb_length_filter. rewrite Qnat_eqb0. destruct (length (filter c l)) eqn:E; simpl.
  - reflexivity.
  - symmetry. apply Qltb_iff. apply Qnat_pos. lia.
Qed.
Lemma existsb_is_empty_filter {A} (c : A -> bool) (l : list A) :
  negb (py_is_empty (filter c l)) = existsb c l.
Proof. induction l as [|x l IH]; simpl; [reflexivity|]. destruct (c x); simpl; [reflexivity|exact IH]. Qed.

(* Python ints as counts *)
Lemma py_nat_Qnat n : py_nat (Qnat n) = n.
Proof. unfold py_nat, Qnat. rewrite Qfloor_Z. apply Nat2Z.id. Qed.
Lemma Qnat_succ n : Qnat n + 1 == Qnat (S n).
Proof. unfold Qnat. rewrite Nat2Z.inj_succ. unfold Z.succ. rewrite inject_Z_plus. reflexivity. Qed.
Lemma py_nat_Qnat_succ n : py_nat (Qnat n + 1) = S n.
Proof. unfold py_nat. rewrite (Qfloor_comp _ _ (Qnat_succ n)). apply py_nat_Qnat. Qed.
Lemma py_range_Qnat n : py_range (Qnat n) = map Qnat (seq 0 n).
Proof. unfold py_range. rewrite py_nat_Qnat. reflexivity. Qed.
Lemma py_range_Qnat_succ n : py_range (Qnat n + 1) = map Qnat (seq 0 (S n)).
Proof. unfold py_range. rewrite py_nat_Qnat_succ. reflexivity. Qed.
Lemma py_range_length n : length (py_range (Qnat n)) = n.
Proof. rewrite py_range_Qnat, map_length, seq_length. reflexivity. Qed.
Lemma map_py_nat_Qnat {A} (f : nat -> A) (s : list nat) : map (fun r : Q => f (py_nat r)) (map Qnat s) = map f s.
Proof. rewrite map_map. apply map_ext. intro x. rewrite py_nat_Qnat. reflexivity. Qed.
Lemma concat_map_flat_map {A B} (f : A -> list B) l : concat (map f l) = flat_map f l.
Proof. symmetry. apply flat_map_concat_map. Qed.

(* the instance's projects in rank order carry the instance's costs *)
Lemma map_nth_seq (cs : list Q) : map (fun p => nth p cs 0) (seq 0 (length cs)) = cs.
Proof.
  induction cs as [|c cs IH]; simpl; [reflexivity|]. f_equal.
  rewrite <- seq_shift, map_map. simpl. exact IH.
Qed.
Lemma map_cost_all_projects I : map (cost I) (all_projects I) = costs I.
Proof. unfold all_projects, nproj, cost. apply map_nth_seq. Qed.
Lemma all_projects_length I : length (all_projects I) = nproj I.
Proof. unfold all_projects. apply seq_length. Qed.

(* min(...) of a non-empty sequence: the running minimum of Model/InstanceM.v *)
Lemma py_min_fold_Qmin_list r : forall c c', c == c' -> fold_left py_min2 r c == Qmin_list c' r.
Proof.
  induction r as [|x r IH]; intros c c' H; simpl; [exact H|]. apply IH.
  unfold py_min2. destruct (Qltb x c) eqn:E1, (Qleb c' x) eqn:E2;
    try apply Qltb_iff in E1; try apply Qltb_false_iff in E1; try apply Qleb_iff in E2; try apply Qleb_false_iff in E2;
    lra.
Qed.
Lemma py_min_list_Qmin_list c r d : py_min_list (c :: r) d == Qmin_list c r.
Proof. simpl. apply py_min_fold_Qmin_list. reflexivity. Qed.

(* enumerate(l) is indexed by the positions 0 .. len(l)-1 *)
Lemma enumerate_seq {A} (l : list A) (d : A) :
  combine (map Qnat (seq 0 (length l))) l = map (fun k => (Qnat k, nth k l d)) (seq 0 (length l)).
Proof.
  assert (K : forall (l : list A) s, combine (map Qnat (seq s (length l))) l
                = map (fun k => (Qnat k, nth (k - s) l d)) (seq s (length l))).
  { induction l0 as [|x l0 IH]; intro s; simpl; [reflexivity|]. rewrite Nat.sub_diag. f_equal.
    rewrite IH. apply map_ext_in. intros k Hk. apply in_seq in Hk.
    replace (k - s)%nat with (S (k - S s)) by lia. reflexivity. }
  rewrite K. apply map_ext. intro k. rewrite Nat.sub_0_r. reflexivity.
Qed.
Lemma nth_map_seq {B} (G : nat -> B) n k d : (k < n)%nat -> nth k (map G (seq 0 n)) d = G k.
Proof.
  intro H. rewrite (nth_indep _ d (G 0%nat)) by (rewrite map_length, seq_length; exact H).
  rewrite map_nth, seq_nth by exact H. reflexivity.
Qed.
Lemma py_list_get_seq (G : nat -> Q) n k : In k (seq 0 n) -> py_list_get (map G (seq 0 n)) (Qnat k) = G k.
Proof. intro H. apply in_seq in H. unfold py_list_get. rewrite py_nat_Qnat. apply nth_map_seq. lia. Qed.

Lemma py_repeat_single {A} (v : A) n : py_repeat [v] (Qnat n) = repeat v n.
Proof. unfold py_repeat. rewrite py_nat_Qnat. induction n as [|n IH]; simpl; [reflexivity|]. rewrite IH. reflexivity. Qed.

(* loops that collect values (yield / append) *)
Lemma fold_collect_if {A} (c : A -> bool) (l : list A) : forall acc,
  fold_left (fun (acc : list A) x => if c x then acc ++ [x] else acc) l acc = acc ++ filter c l.
Proof.
  induction l as [|x l IH]; intro acc; simpl; [rewrite app_nil_r; reflexivity|].
  rewrite IH. destruct (c x); simpl; [rewrite <- app_assoc; reflexivity|reflexivity].
Qed.
Lemma fold_collect {A B} (h : A -> list B) (l : list A) : forall acc,
  fold_left (fun (acc : list B) x => acc ++ h x) l acc = acc ++ flat_map h l.
Proof.
  induction l as [|x l IH]; intro acc; simpl; [rewrite app_nil_r; reflexivity|].
  rewrite IH, app_assoc. reflexivity.
Qed.
Lemma fold_collect_const {A B} (v : B) (l : list A) : forall acc,
  fold_left (fun (acc : list B) _ => acc ++ [v]) l acc = acc ++ repeat v (length l).
Proof.
  induction l as [|x l IH]; intro acc; simpl; [rewrite app_nil_r; reflexivity|].
  rewrite IH, <- app_assoc. reflexivity.
Qed.

(* a loop that returns at the first element satisfying c = find *)
Lemma fold_first {A B} (c : A -> bool) (v : A -> B) (l : list A) :
  fold_left (fun (r : option B) x => match r with Some _ => r | None => if c x then Some (v x) else r end) l None
  = option_map v (find c l).
Proof.
  assert (K : forall r0 : B, fold_left (fun (r : option B) x => match r with Some _ => r | None => if c x then Some (v x) else r end) l (Some r0) = Some r0).
  { induction l as [|x l IH]; intro r0; simpl; [reflexivity|apply IH]. }
  clear K. induction l as [|x l IH]; simpl; [reflexivity|].
  destruct (c x); simpl; [|exact IH].
  generalize (v x). clear IH. induction l as [|y l IH]; intro r0; simpl; [reflexivity|apply IH].
Qed.

Lemma existsb_find {A} (c : A -> bool) (l : list A) :
  existsb c l = match find c l with Some _ => true | None => false end.
Proof. induction l as [|x l IH]; simpl; [reflexivity|]. destruct (c x); simpl; [reflexivity|exact IH]. Qed.

(* `flag = f0; for x in l: if c x: flag = v; break` : the state is (stop flag, flag) *)
Lemma fold_break_flag {A} (c : A -> bool) (v : bool) (l : list A) : forall f0 : bool,
  fold_left (fun (st : bool * bool) x => let '(stop, f) := st in
               if stop then st else if c x then (true, v) else (stop, f)) l (false, f0)
  = (existsb c l, if existsb c l then v else f0).
Proof.
  assert (K : forall (l : list A) f, fold_left (fun (st : bool * bool) x => let '(stop, f) := st in
               if stop then st else if c x then (true, v) else (stop, f)) l (true, f) = (true, f)).
  { intro l0. induction l0 as [|x l0 IH]; intro f; simpl; [reflexivity|apply IH]. }
  induction l as [|x l IH]; intro f0; simpl; [reflexivity|].
  destruct (c x); simpl; [rewrite K; reflexivity|apply IH].
Qed.

Lemma forallb_map {A B} (f : A -> B) (g : B -> bool) l : forallb g (map f l) = forallb (fun x => g (f x)) l.
Proof. induction l as [|x l IH]; simpl; [reflexivity|]. rewrite IH. reflexivity. Qed.
Lemma forallb_filter {A} (c g : A -> bool) l : forallb g (filter c l) = forallb (fun x => negb (c x) || g x) l.
Proof. induction l as [|x l IH]; simpl; [reflexivity|]. destruct (c x); simpl; rewrite IH; reflexivity. Qed.

Lemma flat_map_py_nat_Qnat {B} (f : nat -> list B) (s : list nat) :
  flat_map (fun x : nat => f (py_nat (Qnat x))) s = flat_map f s.
Proof. induction s as [|x s IH]; simpl; [reflexivity|]. rewrite IH, py_nat_Qnat. reflexivity. Qed.
Lemma map_py_nat_Qnat' {B} (f : nat -> B) (s : list nat) : map (fun x : nat => f (py_nat (Qnat x))) s = map f s.
Proof. apply map_ext. intro x. rewrite py_nat_Qnat. reflexivity. Qed.
Lemma filter_map_comm {A B} (c : B -> bool) (g : A -> B) l : filter c (map g l) = map g (filter (fun x => c (g x)) l).
Proof. induction l as [|x l IH]; simpl; [reflexivity|]. destruct (c (g x)); simpl; rewrite IH; reflexivity. Qed.
Lemma filter_ext' {A} (f g : A -> bool) l : (forall x, f x = g x) -> filter f l = filter g l.
Proof. intro H. induction l as [|x l IH]; simpl; [reflexivity|]. rewrite H, IH. reflexivity. Qed.

(* nested collecting loops: for x in l: for c in h(x): yield c *)
Lemma fold_collect_nested {A B} (h : A -> list B) (l : list A) : forall acc,
  fold_left (fun (acc : list B) x => fold_left (fun (acc : list B) c => acc ++ [c]) (h x) acc) l acc
  = acc ++ flat_map h l.
Proof.
  assert (K : forall (s : list B) acc, fold_left (fun (acc : list B) c => acc ++ [c]) s acc = acc ++ s).
  { induction s as [|c s IH]; intro acc; simpl; [rewrite app_nil_r; reflexivity|]. rewrite IH, <- app_assoc. reflexivity. }
  induction l as [|x l IH]; intro acc; simpl; [rewrite app_nil_r; reflexivity|].
  rewrite K, IH, app_assoc. reflexivity.
Qed.
Lemma flat_map_py_nat {B} (f : nat -> list B) (s : list nat) :
  flat_map (fun r : Q => f (py_nat r)) (map Qnat s) = flat_map f s.
Proof. induction s as [|x s IH]; simpl; [reflexivity|]. rewrite IH, py_nat_Qnat. reflexivity. Qed.

(* a loop that only ever SETS a flag (error collectors, `found = True` without break): flag || exists *)
Lemma fold_flag {A} (F : bool -> A -> bool) (l : list A) :
  (forall e x, F e x = (e || F false x)%bool) -> forall e, fold_left F l e = (e || existsb (F false) l)%bool.
Proof.
  intro H. induction l as [|x l IH]; intro e; simpl; [rewrite orb_false_r; reflexivity|].
  rewrite IH, (H e x). rewrite orb_assoc. reflexivity.
Qed.

Lemma fold_flag_nested {A B} (G : A -> bool -> B -> bool) (L : A -> list B) (l : list A) :
  (forall x e y, G x e y = (e || G x false y)%bool) ->
  forall e, fold_left (fun e x => fold_left (G x) (L x) e) l e
            = (e || existsb (fun x => existsb (G x false) (L x)) l)%bool.
Proof.
  intro H. induction l as [|x l IH]; intro e; simpl; [rewrite orb_false_r; reflexivity|].
  rewrite IH, (fold_flag (G x) (L x) (H x)). rewrite orb_assoc. reflexivity.
Qed.

(* a loop with a `found` flag / early return = existsb *)
Lemma fold_any {A} (c : A -> bool) l : forall a,
  fold_left (fun (acc : bool) x => if acc then acc else c x) l a = (a || existsb c l)%bool.
Proof.
  induction l as [|x l IH]; intro a; simpl; [rewrite orb_false_r; reflexivity|].
  rewrite IH. destruct a; simpl; reflexivity.
Qed.

(* ---------- bridging facts between the Python-level vocabulary and the models ---------- *)
Lemma inb_false_bget b p : inb b p = false -> bget b p = 0.
Proof.
  intro H. apply bget_notin. intro Hin. apply inb_In in Hin. congruence.
Qed.

Lemma Qnat_sub a b : (b <= a)%nat -> Qnat (a - b) == Qnat a - Qnat b.
Proof.
  intro H. unfold Qnat. rewrite Nat2Z.inj_sub by exact H. unfold Zminus. rewrite inject_Z_plus, inject_Z_opp. ring.
Qed.

Lemma Qnat_1 : Qnat 1 == 1.  Proof. reflexivity. Qed.

Lemma borda_bridge b p : inb b p = true ->
  Qnat (length b - bpos b p - 1) == Qnat (length b) - Qnat (bpos b p) - 1.
Proof.
  intro H. apply inb_In in H. apply bpos_lt in H.
  rewrite !Qnat_sub by lia. rewrite Qnat_1. reflexivity.
Qed.

Lemma Qnat_plus a b : Qnat (a + b) == Qnat a + Qnat b.
Proof. unfold Qnat. rewrite Nat2Z.inj_add, inject_Z_plus. reflexivity. Qed.

(* the denominator of Effort_Sat, as the sum the source writes *)
Lemma supporters_sum (P : profile) p :
  Qsum (map (fun bm : ballot * nat => Qnat (snd bm)) (filter (fun bm => inb (fst bm) p) P)) == Qnat (supporters P p).
Proof.
  induction P as [|[b m] P IH]; simpl; [reflexivity|].
  destruct (inb b p); simpl; [rewrite IH, Qnat_plus; reflexivity|exact IH].
Qed.

Lemma supporters_sum_ext (h : ballot * nat -> Q) (P : profile) p :
  (forall bm, h bm == if inb (fst bm) p then Qnat (snd bm) else 0) -> Qsum (map h P) == Qnat (supporters P p).
Proof.
  intro H. rewrite <- supporters_sum, Qsum_map_filter. apply Qsum_map_ext. intros bm _. apply H.
Qed.

Lemma Qnat_0_iff n : Qnat n == 0 <-> n = O.
Proof.
  split; intro H; [|subst; reflexivity].
  destruct n; [reflexivity|]. pose proof (Qnat_pos (S n) (Nat.lt_0_succ n)) as Hp. rewrite H in Hp. lra.
Qed.

Lemma Qnat_lt_1 n : Qnat n < 1 -> n = 0%nat.
Proof. intro H. destruct n; [reflexivity|]. rewrite Qnat_S in H. pose proof (Qnat_nonneg n). lra. Qed.
Lemma Qnat_ge_1 n : 1 <= Qnat n -> n <> 0%nat.
Proof. intros H E. subst. change (Qnat 0) with 0 in H. lra. Qed.
Lemma Qnat_le_0 n : Qnat n <= 0 -> n = 0%nat.
Proof. intro H. destruct n; [reflexivity|]. rewrite Qnat_S in H. pose proof (Qnat_nonneg n). lra. Qed.
Lemma Qnat_gt_0 n : 0 < Qnat n -> n <> 0%nat.
Proof. intros H E. subst. change (Qnat 0) with 0 in H. lra. Qed.

Lemma Qnat_eqb0' n : Qeqb (Qnat n) 0 = Nat.eqb n 0.
Proof. apply Qnat_eqb0. Qed.

(* names of the generated definitions that belong to tie-breaking (the others belong to the satisfaction modules) *)
Definition is_tie_name (s : string) : bool :=
  (String.eqb (substring (String.length s - 4) 4 s) "_key"
   || String.eqb (substring 0 20 s) "gen_TieBreakingRule_" || String.eqb (substring (String.length s - 6) 6 s) "_order"
   || String.eqb (substring (String.length s - 6) 6 s) "_untie" || String.eqb s "gen_refuse_to_break_ties")%string.

(* ---------- tactics ---------- *)
(* split on the innermost atomic condition of a boolean expression *)
Ltac py_case c :=
  lazymatch c with
  | negb ?a => py_case a
  | andb ?a _ => py_case a
  | orb ?a _ => py_case a
  | (if ?a then _ else _) => py_case a
  | context [if ?a then _ else _] => py_case a
  | _ =>
      (* a condition that computes (a test on a literal list, say) is replaced by its value *)
      let r := eval lazy in c in
      lazymatch r with
      | true => change c with true in *
      | false => change c with false in *
      | _ => let E := fresh "E" in destruct c eqn:E
      end
  end.

Ltac py_split_step :=
  match goal with
  | |- context [find ?c ?l] => rewrite ?(existsb_find c l); let E := fresh "E" in destruct (find c l) eqn:E; cbn [option_map]
  | |- context [if ?c then _ else _] => py_case c
  | H : context [if ?c then _ else _] |- _ => py_case c
  | |- context [match ?c with [] => _ | _ :: _ => _ end] =>
      lazymatch c with
      | [] => fail | _ :: _ => fail
      | _ => let E := fresh "E" in destruct c eqn:E; try rewrite E in *
      end
  | |- context [match ?c with Some _ => _ | None => _ end] =>
      lazymatch c with | Some _ => fail | None => fail | _ => let E := fresh "E" in destruct c eqn:E end
  end.

Ltac py_simpl := cbn [andb orb negb fst snd map filter app fold_left Qsum existsb forallb py_max_list option_map length] in *.

Ltac py_bool_to_prop :=
  repeat match goal with
  | H : Qeqb _ _ = true |- _ => apply Qeqb_iff in H
  | H : Qeqb _ _ = false |- _ => apply Qeqb_false_iff in H
  | H : Qleb _ _ = true |- _ => apply Qleb_iff in H
  | H : Qleb _ _ = false |- _ => apply Qleb_false_iff in H
  | H : Qltb _ _ = true |- _ => apply Qltb_iff in H
  | H : Qltb _ _ = false |- _ => apply Qltb_false_iff in H
  | H : Nat.eqb _ _ = true |- _ => apply Nat.eqb_eq in H
  | H : Nat.eqb _ _ = false |- _ => apply Nat.eqb_neq in H
  | H : negb _ = true |- _ => apply negb_true_iff in H
  | H : negb _ = false |- _ => apply negb_false_iff in H
  | H : andb _ _ = true |- _ => apply andb_true_iff in H; destruct H
  | H : orb _ _ = false |- _ => apply orb_false_iff in H; destruct H
  | H : andb _ _ = false |- _ => apply andb_false_iff in H; destruct H
  | H : orb _ _ = true |- _ => apply orb_true_iff in H; destruct H
  | H : true = false |- _ => discriminate H
  | H : false = true |- _ => discriminate H
  end.

(* bridging facts, added as hypotheses for the arithmetic to use *)
Ltac py_bridge :=
  repeat match goal with
  | H : inb ?b ?p = false |- _ =>
      lazymatch goal with
      | _ : bget b p = 0 |- _ => fail
      | _ => pose proof (inb_false_bget b p H)
      end
  | H : inb ?b ?p = true |- _ =>
      lazymatch goal with
      | _ : Qnat (length b - bpos b p - 1) == _ |- _ => fail
      | _ => pose proof (borda_bridge b p H)
      end
  end;
  repeat match goal with
  | H : Qnat ?n == 0 |- _ => apply Qnat_0_iff in H
  | H : ~ Qnat ?n == 0 |- _ => rewrite Qnat_0_iff in H
  end;
  repeat match goal with
  | H : Qnat ?n < 1 |- _ => apply Qnat_lt_1 in H
  | H : 1 <= Qnat ?n |- _ => apply Qnat_ge_1 in H
  | H : Qnat ?n <= 0 |- _ => apply Qnat_le_0 in H
  | H : 0 < Qnat ?n |- _ => lazymatch goal with _ : n <> 0%nat |- _ => fail | _ => pose proof (Qnat_gt_0 n H) end
  end;
  repeat match goal with
  | H : ?n <> 0%nat |- _ =>
      lazymatch goal with
      | _ : 0 < Qnat n |- _ => fail
      | _ => pose proof (Qnat_pos n (proj1 (Nat.neq_0_lt_0 n) H))
      end
  | H : ?n = 0%nat |- _ =>
      lazymatch goal with
      | _ : Qnat n == 0 |- _ => fail
      | _ => pose proof (proj2 (Qnat_0_iff n) H)
      end
  end.

Ltac py_rewrite_bget :=
  repeat match goal with
  | H : bget ?b ?p = 0 |- _ => rewrite H in *; clear H
  end.

Ltac py_arith :=
  first
  [ reflexivity
  | congruence
  | lia
  | lra
  | ring
  | solve [field; first [assumption | lra | (intro; lra)]]
  | solve [apply Qdiv_comp; lra]
  | solve [exfalso; lra]
  | solve [exfalso; lia]
  | solve [exfalso; congruence]
  | solve [subst; first [reflexivity | lra | ring]]
  | solve [ repeat match goal with H : ?a == ?b |- _ => is_var a; rewrite H; clear H end;
            first [reflexivity | ring | lra | unfold Qdiv; ring] ]
  | solve [ unfold Qdiv; ring ]
  | timeout 5 nra ].

(* comparisons of literal dictionary keys are computed *)
Ltac py_strings :=
  repeat match goal with
  | |- context [String.eqb ?a ?b] =>
      let r := eval vm_compute in (String.eqb a b) in
      lazymatch r with
      | true => change (String.eqb a b) with true
      | false => change (String.eqb a b) with false
      end
  end.

Ltac py_unfold :=
  autounfold with pyprims pymodel in *; unfold py_dict_of in *; cbn [fold_right fst snd] in *;
  cbv zeta beta in *; py_strings; cbv iota beta in *;
  cbn [map Qsum existsb forallb fold_left filter app] in *.

(* the decision procedure without loop normalisation (used for the side conditions of the loop lemmas) *)
Ltac py_cases_in_loops :=
  cbv beta;
  repeat (py_split_step; py_simpl; unfold py_max2, py_min2 in * );
  py_bool_to_prop; py_bridge; py_rewrite_bget;
  py_arith.

(* loops written with an accumulator -> the comprehension form *)
Ltac py_loops :=
  repeat first
  [ rewrite fold_sum_if
  | rewrite fold_sum
  | rewrite fold_sum_l
  | rewrite fold_any
  | rewrite existsb_map
  | rewrite existsb_filter
  | rewrite existsb_flat_map
  | rewrite forallb_flat_map
  | rewrite Qsum_flat_map
  | rewrite fold_left_map
  | rewrite fold_left_filter
  | rewrite fold_first
  | rewrite py_range_Qnat_succ
  | rewrite py_range_Qnat
  | rewrite py_nat_Qnat
  | rewrite (map_py_nat_Qnat (fun r => combs _ r))
  | rewrite concat_map_flat_map
  | rewrite fold_collect_if
  | rewrite fold_collect_const
  | rewrite fold_collect
  | rewrite app_nil_l
  | rewrite map_cost_all_projects
  | rewrite py_min_list_Qmin_list
  | rewrite fold_break_flag
  | rewrite forallb_map
  | rewrite forallb_filter
  | rewrite fold_collect_nested
  | rewrite (flat_map_py_nat (fun r => combs _ r))
  | rewrite (flat_map_py_nat_Qnat (fun r => combs _ r))
  | rewrite (map_py_nat_Qnat' (fun r => combs _ r))
  | rewrite existsb_length_filter
  | rewrite existsb_length_filter_ne
  | rewrite existsb_is_empty_filter
  | rewrite fold_additive by (intros; py_cases_in_loops)
  | match goal with
    | |- context [supporters ?P ?p] =>
        match goal with
        | |- context [Qsum (map ?h P)] => rewrite (supporters_sum_ext h P p) by (intro; cbv beta; py_cases_in_loops)
        end
    end
  | rewrite filter_map_comm
  | rewrite map_map
  | rewrite map_id
  | rewrite supporters_sum
  | rewrite Qnat_eqb0'
  | rewrite Qplus_0_l
  | rewrite Qplus_0_r ].

(* the pointwise decision procedure: everything unfolded, every condition split *)
Ltac py_cases :=
  py_loops;
  repeat (py_split_step; py_simpl; unfold py_max2, py_min2 in * );
  py_loops;
  py_bool_to_prop; py_bridge; py_rewrite_bget;
  try py_arith.

Ltac py_pointwise := timeout 25 (intros; py_unfold; py_loops; py_cases).

(* sums over the same list: compare the summands *)
Ltac py_sum_ext :=
  intros; py_unfold; py_loops;
  repeat rewrite Qsum_map_filter;
  first [ apply Qsum_map_ext; intros | idtac ].

(* two accumulator loops over the same sequence: compare the bodies *)
Ltac py_fold :=
  intros; py_unfold; py_loops;
  cbn [app py_max_list py_min_list] in *; py_unfold; py_loops;
  first [ solve [ apply fold_left_Qeq; [ intros; py_unfold; py_cases | py_arith ] ]
        | apply fold_left_Qeq_nonneg;
          [ let a := fresh "a" in let a' := fresh "a" in let x := fresh "x" in let H1 := fresh "H" in
            let H2 := fresh "H" in intros a a' x [H1 H2]; py_unfold; split; py_cases
          | split; py_arith ] ].


(* loops with an early return / quantifiers: [find] on the generated side, [forallb]/[existsb] on the model side.
   Every [find], [forallb], [existsb] is replaced by its meaning (a witness or a universal fact), the universal
   facts are instantiated with the witnesses, and the pointwise procedure decides the rest. *)
Lemma forallb_false_ex {A} (f : A -> bool) l : forallb f l = false -> exists x, In x l /\ f x = false.
Proof.
  induction l as [|x l IH]; simpl; [discriminate|]. destruct (f x) eqn:E; simpl.
  - intro H. destruct (IH H) as [y [Hy Hf]]. exists y. split; [right; exact Hy|exact Hf].
  - intros _. exists x. split; [left; reflexivity|exact E].
Qed.
Lemma existsb_false_all {A} (f : A -> bool) l : existsb f l = false -> forall x, In x l -> f x = false.
Proof.
  intros H x Hx. destruct (f x) eqn:E; [|reflexivity].
  assert (existsb f l = true) by (apply existsb_exists; exists x; split; assumption). congruence.
Qed.

Ltac py_quant_facts :=
  repeat match goal with
  | |- context [find ?c ?l] =>
      let E := fresh "E" in destruct (find c l) eqn:E; cbn [option_map];
      [ apply find_some in E; destruct E | pose proof (find_none _ _ E); clear E ]
  end;
  repeat match goal with
  | |- context [forallb ?g ?l] =>
      let F := fresh "F" in destruct (forallb g l) eqn:F;
      [ rewrite forallb_forall in F | apply forallb_false_ex in F; destruct F as [? [? ?]] ]
  | |- context [existsb ?g ?l] =>
      let F := fresh "F" in destruct (existsb g l) eqn:F;
      [ apply existsb_exists in F; destruct F as [? [? ?]] | pose proof (existsb_false_all _ _ F); clear F ]
  end;
  repeat match goal with
  | H : forall x, In x ?l -> _ |- _ =>
      repeat match goal with Hin : In ?y l |- _ => pose proof (H y Hin); revert Hin end;
      intros; clear H
  end;
  cbv beta in *.

Ltac py_quant := timeout 20 solve [ intros; py_unfold; py_loops; py_quant_facts; py_cases ].


(* ---------- loops with a compound state: compare with a canonical loop, component by component ---------- *)
Create HintDb pycanon.

Lemma fold_left_rel {S T B} (R : S -> T -> Prop) (f : S -> B -> S) (g : T -> B -> T) (l : list B) : forall s t,
  (forall s t x, R s t -> R (f s x) (g t x)) -> R s t -> R (fold_left f l s) (fold_left g l t).
Proof. induction l as [|x l IH]; intros s t H Hst; simpl; [exact Hst|]. apply IH; [exact H|]. apply H. exact Hst. Qed.

Definition opt_rel {A} (R : A -> A -> Prop) (a b : option A) : Prop :=
  match a, b with Some x, Some y => R x y | None, None => True | _, _ => False end.

Lemma opt_Qeq_trans (a b c : option Q) : opt_rel Qeq a b -> opt_rel Qeq b c -> opt_rel Qeq a c.
Proof. destruct a, b, c; cbn [opt_rel]; try tauto. intros H1 H2. rewrite H1. exact H2. Qed.
Lemma opt_Qeq_refl (a : option Q) : opt_rel Qeq a a.
Proof. destruct a; cbn [opt_rel]; [reflexivity|exact I]. Qed.

(* the componentwise relation of a state type: == on numbers, = on everything else *)
Ltac rel_of T :=
  lazymatch T with
  | (?A * ?B)%type =>
      let ra := rel_of A in let rb := rel_of B in
      constr:(fun (s t : A * B) => ra (fst s) (fst t) /\ rb (snd s) (snd t))
  | Q => constr:(Qeq)
  | option ?A => let ra := rel_of A in constr:(@opt_rel A ra)
  | _ => constr:(@eq T)
  end.

Ltac py_destruct_tuples :=
  repeat match goal with
  | p : (_ * _)%type |- _ => destruct p
  | H : _ /\ _ |- _ => destruct H
  end.

Ltac py_opt_rel :=
  repeat match goal with
  | H : opt_rel _ ?a ?b |- _ => destruct a, b; cbn [opt_rel] in H; try contradiction
  | |- opt_rel _ ?a ?b => cbn [opt_rel]
  end.

(* [py_fold_rel]: the goal mentions two loops over the same sequence with the same state type *)
Ltac py_fold_rel_rec := fail.     (* tied below: loops nested in the body / a second loop after the first *)

(* two sums over the same sequence whose summands agree *)
Ltac py_sum_rel :=
  match goal with
  | |- context [Qsum (map ?f ?l)] =>
      match goal with
      | |- context [Qsum (map ?g l)] =>
          lazymatch f with
          | g => fail
          | _ =>
              let H := fresh "Hsum" in
              assert (H : Qsum (map f l) == Qsum (map g l));
              [ apply Qsum_map_ext; intros; py_destruct_tuples; cbv beta iota zeta; cbn [fst snd]; py_cases
              | rewrite H; clear H; first [ reflexivity | py_arith ] ]
          end
      end
  end.

Ltac py_rel_finish :=
  cbn [fst snd opt_rel]; repeat split;
  first [ apply opt_Qeq_refl | exact I | py_arith | py_fold_rel_rec | py_sum_rel
        | py_loops; first [ py_arith | py_sum_rel ] ].

Ltac py_fold_rel_with F l s0 G t0 :=
  let T := type of s0 in
  let R := rel_of T in
  let H := fresh "Hrel" in
  assert (H : R (fold_left F l s0) (fold_left G l t0));
  [ apply (fold_left_rel R F G l s0 t0);
    [ let s := fresh "s" in let t := fresh "t" in let x := fresh "x" in let Hst := fresh "Hst" in
      intros s t x Hst; cbv beta in *; py_destruct_tuples; cbn [fst snd] in *; py_destruct_tuples; subst;
      py_opt_rel; cbv beta iota zeta; py_unfold; autounfold with pycanon; cbv beta iota zeta; cbn [fst snd];
      py_cases; py_rel_finish
    | cbv beta; cbn [fst snd opt_rel]; repeat split; py_arith ]
  | cbv beta in H;
    let a := fresh "a" in let b := fresh "b" in
    generalize dependent (fold_left F l s0); intro a; generalize dependent (fold_left G l t0); intro b; intro H;
    py_destruct_tuples; cbn [fst snd] in *; py_destruct_tuples; subst; py_opt_rel; cbv beta iota zeta;
    cbn [fst snd opt_rel]; py_cases; try py_rel_finish ].

(* the same loop on both sides (only what follows it differs) *)
Ltac py_fold_same :=
  match goal with
  | |- context [fold_left ?F ?l ?s0] =>
      let a := fresh "a" in
      generalize (fold_left F l s0); intro a; py_destruct_tuples; cbv beta iota zeta; cbn [fst snd opt_rel];
      py_cases; try py_rel_finish
  end.

Ltac py_fold_rel :=
  first
  [ timeout 40 (match goal with
    | |- context [fold_left ?F ?l ?s0] =>
        match goal with
        | |- context [fold_left ?G l ?t0] =>
            lazymatch constr:((F, s0)) with
            | (G, t0) => fail
            | _ => solve [ py_fold_rel_with F l s0 G t0 ]
            end
        end
    end)
  | timeout 30 solve [ py_fold_same ] ].

Ltac py_fold_rel_rec ::= py_fold_rel.

(* max_budget_allocation_cardinality: the canonical loop (stop flag, cost so far, number selected) *)
Definition mc_step (cost : proj -> Q) (B : Q) (st : bool * Q * Q) (p : proj) : bool * Q * Q :=
  let '(stop, c, k) := st in
  if stop then st else if Qltb B (cost p + c) then (true, c, k) else (stop, cost p + c, k + 1).

Global Hint Unfold mc_step : pycanon.

Lemma isort_map_key {A} (f : A -> Q) (l : list A) :
  map f (isort (fun x y => Qleb (f x) (f y)) l) = isort Qleb (map f l).
Proof.
  induction l as [|x l IH]; simpl; [reflexivity|]. rewrite <- IH.
  generalize (isort (fun x0 y : A => Qleb (f x0) (f y)) l). intro s.
  induction s as [|y s IHs]; simpl; [reflexivity|].
  destruct (Qleb (f x) (f y)); simpl; [reflexivity|]. rewrite IHs. reflexivity.
Qed.

Lemma mc_fold_stopped cost B s : forall c k, fold_left (mc_step cost B) s (true, c, k) = (true, c, k).
Proof. induction s as [|p s IH]; intros c k; simpl; [reflexivity|apply IH]. Qed.

Lemma mc_fold_count cost B s : forall c k,
  snd (fold_left (mc_step cost B) s (false, c, k)) == k + Qnat (count_fit (map cost s) c B).
Proof.
  induction s as [|p s IH]; intros c k; simpl; [unfold Qnat; simpl; ring|].
  unfold Qltb. fold (Qleb (cost p + c) B). destruct (Qleb (cost p + c) B) eqn:E; simpl.
  - rewrite IH. rewrite Qnat_S. ring.
  - rewrite mc_fold_stopped. simpl. unfold Qnat. simpl. ring.
Qed.

Lemma mc_canonical cost B l :
  snd (fold_left (mc_step cost B) (isort (fun x y => Qleb (cost x) (cost y)) l) (false, 0, 0))
  == Qnat (max_card (map cost l) B).
Proof.
  rewrite mc_fold_count. unfold max_card. rewrite isort_map_key. ring.
Qed.

(* the same function written with enumerate and an early return: state (pending return value, cost so far);
   over any sequence of things that have a cost (projects sorted by cost, or the sorted costs themselves) *)
Definition mc2_step {A} (cost : A -> Q) (B : Q) (st : option Q * Q) (it : Q * A) : option Q * Q :=
  let '(ret, c) := st in
  match ret with
  | Some _ => st
  | None => if Qltb B (cost (snd it) + c) then (Some (fst it), c) else (ret, cost (snd it) + c)
  end.
Definition mc2_result (n : Q) (st : option Q * Q) : Q := match fst st with Some r => r | None => n end.
Global Hint Unfold mc2_step mc2_result : pycanon.

Lemma mc2_fold_stuck {A} (cost : A -> Q) B L : forall r c, fold_left (mc2_step cost B) L (Some r, c) = (Some r, c).
Proof. induction L as [|x L IH]; intros r c; simpl; [reflexivity|apply IH]. Qed.

Lemma mc2_fold_count {A} (cost : A -> Q) B (s : list A) : forall k c,
  mc2_result (Qnat (k + length s)) (fold_left (mc2_step cost B) (combine (map Qnat (seq k (length s))) s) (None, c))
  == Qnat (k + count_fit (map cost s) c B).
Proof.
  induction s as [|p s IH]; intros k c; cbn [length seq map combine fold_left count_fit].
  - unfold mc2_result. cbn [fst]. reflexivity.
  - unfold mc2_step at 2. cbn [fst snd]. unfold Qltb. fold (Qleb (cost p + c) B).
    destruct (Qleb (cost p + c) B) eqn:E; cbn [negb].
    + replace (k + S (length s))%nat with (S k + length s)%nat by lia. rewrite IH.
      replace (S k + count_fit (map cost s) (cost p + c) B)%nat with (k + S (count_fit (map cost s) (cost p + c) B))%nat by lia.
      reflexivity.
    + rewrite mc2_fold_stuck. unfold mc2_result. cbn [fst]. rewrite Nat.add_0_r. reflexivity.
Qed.

Lemma mc2_canonical (cost : proj -> Q) B l :
  mc2_result (Qnat (length (isort (fun x y => Qleb (cost x) (cost y)) l)))
    (fold_left (mc2_step cost B) (py_enumerate (isort (fun x y => Qleb (cost x) (cost y)) l)) (None, 0))
  == Qnat (max_card (map cost l) B).
Proof.
  unfold py_enumerate. pose proof (mc2_fold_count cost B (isort (fun x y => Qleb (cost x) (cost y)) l) 0 0) as H.
  cbn [plus] in H. rewrite H. unfold max_card. rewrite isort_map_key. reflexivity.
Qed.

(* ... over the sorted costs *)
Lemma mc2_canonical_costs (cs : list Q) B :
  mc2_result (Qnat (length (isort Qleb cs)))
    (fold_left (mc2_step (fun c : Q => c) B) (py_enumerate (isort Qleb cs)) (None, 0))
  == Qnat (max_card cs B).
Proof.
  unfold py_enumerate. pose proof (mc2_fold_count (fun c : Q => c) B (isort Qleb cs) 0 0) as H.
  cbn [plus] in H. rewrite H. unfold max_card. rewrite map_id. reflexivity.
Qed.

(* ---------- descent into quantifiers: compare the bodies for an element of the list ---------- *)
Lemma negb_existsb_forallb_in {A} (f g : A -> bool) (l : list A) :
  (forall x, In x l -> negb (f x) = g x) -> negb (existsb f l) = forallb g l.
Proof.
  intro H. induction l as [|x l IH]; simpl; [reflexivity|].
  rewrite negb_orb, (H x (or_introl eq_refl)), IH; [reflexivity|]. intros y Hy. apply H. right. exact Hy.
Qed.
Lemma existsb_ext_in {A} (f g : A -> bool) (l : list A) :
  (forall x, In x l -> f x = g x) -> existsb f l = existsb g l.
Proof.
  intro H. induction l as [|x l IH]; simpl; [reflexivity|].
  rewrite (H x (or_introl eq_refl)), IH; [reflexivity|]. intros y Hy. apply H. right. exact Hy.
Qed.
Lemma forallb_ext_in {A} (f g : A -> bool) (l : list A) :
  (forall x, In x l -> f x = g x) -> forallb f l = forallb g l.
Proof.
  intro H. induction l as [|x l IH]; simpl; [reflexivity|].
  rewrite (H x (or_introl eq_refl)), IH; [reflexivity|]. intros y Hy. apply H. right. exact Hy.
Qed.
Lemma negb_forallb_existsb_in {A} (f g : A -> bool) (l : list A) :
  (forall x, In x l -> negb (f x) = g x) -> negb (forallb f l) = existsb g l.
Proof.
  intro H. induction l as [|x l IH]; simpl; [reflexivity|].
  rewrite negb_andb, (H x (or_introl eq_refl)), IH; [reflexivity|]. intros y Hy. apply H. right. exact Hy.
Qed.

(* round(x, p) respects == *)
Global Instance round_half_even_proper : Proper (Qeq ==> eq) Priceability.round_half_even.
Proof.
  intros x y H. unfold Priceability.round_half_even. rewrite (Qfloor_comp _ _ H).
  assert (E : 2 * (x - inject_Z (Qfloor y)) == 2 * (y - inject_Z (Qfloor y))) by (rewrite H; reflexivity).
  rewrite (Qcompare_comp _ _ E 1 1 (Qeq_refl 1)). reflexivity.
Qed.
Global Instance py_round_proper : Proper (Qeq ==> eq ==> Qeq) py_round.
Proof.
  intros x y H p p' <-. unfold py_round. cbv zeta. rewrite !Qred_correct.
  assert (E : x * inject_Z (10 ^ Qfloor p) == y * inject_Z (10 ^ Qfloor p)) by (rewrite H; reflexivity).
  rewrite (round_half_even_proper _ _ E). reflexivity.
Qed.

(* side condition of [fold_flag], also for nested flag loops *)
Ltac py_flag_side :=
  intros;
  repeat match goal with p : (_ * _)%type |- _ => destruct p end;
  cbv beta iota zeta;
  repeat (rewrite fold_flag by py_flag_side);
  repeat match goal with
  | |- context [if ?c then _ else _] => destruct c
  | |- context [let '(_, _) := ?p in _] => destruct p
  end;
  cbn [orb andb negb];
  repeat match goal with
  | b : bool |- _ => destruct b
  end;
  cbn [orb andb negb]; try reflexivity;
  repeat match goal with |- context [existsb ?f ?l] => destruct (existsb f l) end; reflexivity.

Ltac py_flags := repeat first [ rewrite fold_flag_nested by py_flag_side | rewrite fold_flag by py_flag_side ]; cbn [orb].

(* comparison with [mc2_step] when the accumulated cost may differ once the result is fixed (the cost updated
   before the test instead of after it): the costs only have to agree while nothing has been returned *)
Definition mc2_rel (s t : option Q * Q) : Prop :=
  opt_rel Qeq (fst s) (fst t) /\ (fst t = None -> snd s == snd t).

(* "no ZeroDivisionError": a boolean that must be true on every path *)
Ltac py_safe_atoms :=
  repeat match goal with
  | |- context [Qeqb ?a ?b] => let E := fresh "E" in destruct (Qeqb a b) eqn:E
  | |- context [Qleb ?a ?b] => let E := fresh "E" in destruct (Qleb a b) eqn:E
  | |- context [Qltb ?a ?b] => let E := fresh "E" in destruct (Qltb a b) eqn:E
  | |- context [Nat.eqb ?a ?b] => let E := fresh "E" in destruct (Nat.eqb a b) eqn:E
  | |- context [inb ?a ?b] => let E := fresh "E" in destruct (inb a b) eqn:E
  | |- context [memb ?a ?b] => let E := fresh "E" in destruct (memb a b) eqn:E
  end.
Ltac py_safe :=
  timeout 20 solve [ intros; py_unfold; py_loops; py_safe_atoms; py_simpl; py_bool_to_prop; py_bridge;
          first [ reflexivity | exfalso; lra | exfalso; lia | exfalso; congruence | py_cases ] ].

(* two lists built from the same list by filters / maps whose functions agree pointwise *)
Ltac py_list_ext :=
  intros; py_unfold; py_loops;
  first [ apply filter_ext' | apply map_ext | apply flat_map_ext ];
  intros; py_unfold; py_safe_atoms; py_simpl; py_bool_to_prop; py_bridge;
  first [ reflexivity | exfalso; lra | exfalso; lia | exfalso; congruence ].

Ltac py_auto_core := solve [ py_pointwise | py_sum_ext; py_cases | py_fold | py_quant | py_list_ext ].

(* the generic tactic: values, sums, loops, quantifiers, boolean equations *)
(* every alternative is bounded: a proof that is going to fail must fail quickly *)
Ltac py_auto := first [ timeout 25 py_auto_core | timeout 15 py_safe ].
