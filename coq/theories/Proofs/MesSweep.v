(* Proofs/MesSweep.v -- the sorted sweep of mes_inner_algo computes the least price-per-utility
   whose capped payments cover the cost (DESIGN.md §4 C02, Appendix A.2). *)
From PB Require Export Model.MesRule.
Open Scope Q_scope.

(* what the supporters in [l] pay at price-per-utility rho; total utility; total money *)
Fixpoint paidl (rho : Q) (l : list sup) : Q :=
  match l with
  | [] => 0
  | s :: r => sm s * Qmin (sb s) (rho * su s) + paidl rho r
  end.
Fixpoint tu (l : list sup) : Q :=
  match l with [] => 0 | s :: r => sm s * su s + tu r end.
Fixpoint tbud (l : list sup) : Q :=
  match l with [] => 0 | s :: r => sm s * sb s + tbud r end.

Definition wfs (s : sup) : Prop := 0 <= sb s /\ 0 < su s /\ 0 < sm s.
(* the order produced by sorting on budget / utility, cross-multiplied *)
Definition kle (s t : sup) : Prop := sb s * su t <= sb t * su s.
Definition rich (rho : Q) (s : sup) : Prop := rho * su s <= sb s.

Lemma paidl_cons rho s r : paidl rho (s :: r) = sm s * Qmin (sb s) (rho * su s) + paidl rho r.
Proof. reflexivity. Qed.
Lemma tu_cons s r : tu (s :: r) = sm s * su s + tu r.
Proof. reflexivity. Qed.
Lemma tbud_cons s r : tbud (s :: r) = sm s * sb s + tbud r.
Proof. reflexivity. Qed.

Lemma tu_nonneg l : Forall wfs l -> 0 <= tu l.
Proof.
  induction 1 as [|s r [_ [Hu Hm]] _ IH]; simpl; [lra|]. nra.
Qed.

Lemma tbud_nonneg l : Forall wfs l -> 0 <= tbud l.
Proof.
  induction 1 as [|s r [Hb [_ Hm]] _ IH]; simpl; [lra|]. nra.
Qed.

Lemma Qmin_le_l' a b : Qmin a b <= a.
Proof. apply Q.le_min_l. Qed.
Lemma Qmin_le_r' a b : Qmin a b <= b.
Proof. apply Q.le_min_r. Qed.
Lemma Qmin_case_eq a b : Qmin a b == a \/ Qmin a b == b.
Proof.
  destruct (Qlt_le_dec b a) as [H|H].
  - right. apply Q.min_r. lra.
  - left. apply Q.min_l. exact H.
Qed.

Lemma rich_sorted rho s t : wfs s -> wfs t -> kle s t -> rich rho s -> rich rho t.
Proof.
  unfold wfs, kle, rich. intros [_ [Hus _]] [_ [Hut _]] Hk Hr.
  assert (H1 : rho * su s * su t <= sb s * su t) by nra.
  assert (H2 : (rho * su t - sb t) * su s <= 0) by nra.
  nra.
Qed.

Lemma paidl_all_rich rho l : Forall (rich rho) l -> paidl rho l == rho * tu l.
Proof.
  induction 1 as [|s r Hs _ IH]; simpl; [ring|].
  unfold rich in Hs. rewrite (Q.min_r _ _ Hs), IH. ring.
Qed.

Lemma paidl_le_tbud rho l : Forall wfs l -> paidl rho l <= tbud l.
Proof.
  induction 1 as [|s r [_ [_ Hm]] _ IH]; simpl; [lra|].
  pose proof (Qmin_le_l' (sb s) (rho * su s)). nra.
Qed.

(* payments are monotone in rho ... *)
Lemma paidl_mono rho rho' l : Forall wfs l -> rho' <= rho -> paidl rho' l <= paidl rho l.
Proof.
  intros Hwf Hle. induction Hwf as [|s r [_ [Hu Hm]] _ IH]; simpl; [lra|].
  assert (Qmin (sb s) (rho' * su s) <= Qmin (sb s) (rho * su s)).
  { apply Q.min_glb; [apply Q.le_min_l|].
    eapply Qle_trans; [apply Q.le_min_r|]. nra. }
  nra.
Qed.

(* ... and strictly so below a rho at which somebody is still rich *)
Lemma paidl_strict rho rho' l s :
  Forall wfs l -> In s l -> rich rho s -> rho' < rho -> paidl rho' l < paidl rho l.
Proof.
  intros Hwf Hin Hr Hlt. induction Hwf as [|t r Ht Hwf IH]; simpl; [contradiction|].
  destruct Ht as [Hb [Hu Hm]].
  destruct Hin as [->|Hin].
  - pose proof (paidl_mono rho rho' r Hwf (Qlt_le_weak _ _ Hlt)) as Hmono.
    unfold rich in Hr. rewrite (Q.min_r _ _ Hr).
    assert (H1 : Qmin (sb s) (rho' * su s) <= rho' * su s) by apply Q.le_min_r.
    assert (H2 : rho' * su s < rho * su s) by nra.
    assert (H3 : sm s * Qmin (sb s) (rho' * su s) < sm s * (rho * su s)) by nra.
    lra.
  - specialize (IH Hin).
    assert (Qmin (sb t) (rho' * su t) <= Qmin (sb t) (rho * su t)).
    { apply Q.min_glb; [apply Q.le_min_l|].
      eapply Qle_trans; [apply Q.le_min_r|]. nra. }
    nra.
Qed.

(* ---------- the sweep ---------- *)

Lemma sweep_cons cost contrib denom s r :
  sweep cost contrib denom (s :: r) =
  if Qleb ((cost - contrib) / denom * su s) (sb s) then Some ((cost - contrib) / denom)
  else sweep cost (contrib + sm s * sb s) (denom - sm s * su s) r.
Proof. reflexivity. Qed.

(* Generalised invariant of the sweep (running contribution / denominator as parameters). *)
Theorem sweep_inv cost : 0 < cost -> forall l contrib denom,
  Forall wfs l -> StronglySorted kle l -> denom == tu l ->
  0 <= contrib -> contrib < cost -> cost <= contrib + tbud l ->
  exists rho, sweep cost contrib denom l = Some rho /\ 0 < rho
           /\ contrib + paidl rho l == cost
           /\ cost - contrib <= rho * denom
           /\ exists s, In s l /\ rich rho s.
Proof.
  intros Hc. induction l as [|s r IH]; intros contrib denom Hwf Hs Hd H0 Hlt Hcov.
  - simpl in Hcov. lra.
  - inversion Hwf as [|? ? Hws Hwr]; subst. inversion Hs as [|? ? Hsr Hall]; subst.
    destruct Hws as [Hb [Hu Hm]].
    pose proof (tu_nonneg r Hwr) as Htr.
    rewrite tu_cons in Hd. rewrite tbud_cons in Hcov.
    assert (Hdpos : 0 < denom) by nra.
    set (a := (cost - contrib) / denom).
    assert (Ha : a * denom == cost - contrib).
    { unfold a. field. lra. }
    assert (Hapos : 0 < a) by nra.
    rewrite sweep_cons. fold a.
    destruct (Qleb (a * su s) (sb s)) eqn:E.
    + (* the first supporter is rich at a: so is everybody after him *)
      apply Qleb_iff in E. exists a. split; [reflexivity|]. split; [exact Hapos|].
      assert (Hrich : Forall (rich a) (s :: r)).
      { constructor; [exact E|]. rewrite Forall_forall in *. intros t Ht.
        apply (rich_sorted a s t); [repeat split; assumption|apply Hwr; exact Ht|apply Hall; exact Ht|exact E]. }
      split; [rewrite (paidl_all_rich a _ Hrich), tu_cons; rewrite <- Hd; lra|].
      split; [lra|]. exists s. split; [left; reflexivity|exact E].
    + (* poor at a: he pays everything, the candidate grows *)
      apply Qleb_false_iff in E.
      assert (Hmb : sm s * sb s < sm s * (a * su s)) by nra.
      assert (Hnext : contrib + sm s * sb s < cost) by nra.
      destruct (IH (contrib + sm s * sb s) (denom - sm s * su s) Hwr Hsr) as [rho [Hsw [Hrp [Hpaid [Hge [t [Hint Hrt]]]]]]].
      * lra.
      * nra.
      * exact Hnext.
      * lra.
      * exists rho. split; [exact Hsw|]. split; [exact Hrp|].
        (* the new candidate is above the old one, hence a <= rho *)
        assert (Hd' : 0 < denom - sm s * su s).
        { destruct r as [|t' r'].
          - simpl in Hint. contradiction.
          - inversion Hwr as [|? ? [_ [Hu' Hm']] Hwr']; subst.
            pose proof (tu_nonneg r' Hwr'). rewrite tu_cons in Hd. nra. }
        assert (Har : a <= rho).
        { assert (a * (denom - sm s * su s) <= rho * (denom - sm s * su s)) by nra.
          nra. }
        assert (Hpoor : sb s <= rho * su s) by nra.
        split; [rewrite paidl_cons, (Q.min_l _ _ Hpoor); lra|].
        split; [nra|].
        exists t. split; [right; exact Hint|exact Hrt].
Qed.

(* The statement about a whole project: contribution 0, denominator = total utility. *)
Theorem sweep_spec cost l :
  0 < cost -> Forall wfs l -> StronglySorted kle l -> cost <= tbud l ->
  exists rho, sweep cost 0 (tu l) l = Some rho /\ 0 < rho /\ paidl rho l == cost
           /\ exists s, In s l /\ rich rho s.
Proof.
  intros Hc Hwf Hs Hcov.
  destruct (sweep_inv cost Hc l 0 (tu l) Hwf Hs) as [rho [H1 [H2 [H3 [_ H5]]]]]; try lra.
  exists rho. repeat split; try assumption. lra.
Qed.

(* ... and that rho is the LEAST one covering the cost *)
Theorem sweep_least cost l :
  0 < cost -> Forall wfs l -> StronglySorted kle l -> cost <= tbud l ->
  exists rho, sweep cost 0 (tu l) l = Some rho /\ 0 < rho /\ paidl rho l == cost
           /\ forall rho', cost <= paidl rho' l -> rho <= rho'.
Proof.
  intros Hc Hwf Hs Hcov.
  destruct (sweep_spec cost l Hc Hwf Hs Hcov) as [rho [H1 [H2 [H3 [s [Hin Hr]]]]]].
  exists rho. repeat split; try assumption.
  intros rho' Hcover. apply Qnot_lt_le. intro Hlt.
  pose proof (paidl_strict rho rho' l s Hwf Hin Hr Hlt). lra.
Qed.

(* if the supporters cannot afford the project no rho covers the cost *)
Lemma unaffordable_no_rho cost l rho : Forall wfs l -> tbud l < cost -> paidl rho l < cost.
Proof. intros Hwf H. pose proof (paidl_le_tbud rho l Hwf). lra. Qed.

(* ---------- order of the supporters does not matter ---------- *)

Theorem paid_perm rho l l' : Permutation l l' -> paidl rho l == paidl rho l'.
Proof.
  induction 1 as [|x l l' _ IH|x y l|l l' l'' _ IH1 _ IH2]; simpl.
  - reflexivity.
  - rewrite IH. reflexivity.
  - ring.
  - rewrite IH1. exact IH2.
Qed.

Lemma tu_perm l l' : Permutation l l' -> tu l == tu l'.
Proof.
  induction 1 as [|x l l' _ IH|x y l|l l' l'' _ IH1 _ IH2]; simpl;
    [reflexivity|rewrite IH; reflexivity|ring|rewrite IH1; exact IH2].
Qed.

Lemma tbud_perm l l' : Permutation l l' -> tbud l == tbud l'.
Proof.
  induction 1 as [|x l l' _ IH|x y l|l l' l'' _ IH1 _ IH2]; simpl;
    [reflexivity|rewrite IH; reflexivity|ring|rewrite IH1; exact IH2].
Qed.

(* least rho as a relation on supporter lists *)
Definition is_rho_l (cost : Q) (l : list sup) (rho : Q) : Prop :=
  cost <= paidl rho l /\ forall rho', cost <= paidl rho' l -> rho <= rho'.

Lemma is_rho_l_unique cost l r1 r2 : is_rho_l cost l r1 -> is_rho_l cost l r2 -> r1 == r2.
Proof. intros [H1 L1] [H2 L2]. apply Qle_antisym; [apply L1; exact H2|apply L2; exact H1]. Qed.

Lemma is_rho_l_perm cost l l' rho : Permutation l l' -> is_rho_l cost l rho -> is_rho_l cost l' rho.
Proof.
  intros HP [H1 H2]. split.
  - rewrite <- (paid_perm rho l l' HP). exact H1.
  - intros rho' H. apply H2. rewrite (paid_perm rho' l l' HP). exact H.
Qed.

(* the sweep on any two sorted arrangements of the same supporters gives the same rho *)
Corollary sweep_perm cost l l' :
  0 < cost -> Forall wfs l -> StronglySorted kle l -> StronglySorted kle l' -> Permutation l l' ->
  cost <= tbud l ->
  exists r r', sweep cost 0 (tu l) l = Some r /\ sweep cost 0 (tu l') l' = Some r' /\ r == r'.
Proof.
  intros Hc Hwf Hs Hs' HP Hcov.
  assert (Hwf' : Forall wfs l').
  { rewrite Forall_forall in *. intros x Hx. apply Hwf. eapply Permutation_in; [symmetry; exact HP|exact Hx]. }
  assert (Hcov' : cost <= tbud l') by (rewrite <- (tbud_perm l l' HP); exact Hcov).
  destruct (sweep_least cost l Hc Hwf Hs Hcov) as [r [E [_ [P L]]]].
  destruct (sweep_least cost l' Hc Hwf' Hs' Hcov') as [r' [E' [_ [P' L']]]].
  exists r, r'. repeat split; try assumption.
  apply (is_rho_l_unique cost l).
  - split; [lra|exact L].
  - apply (is_rho_l_perm cost l' l r'); [symmetry; exact HP|]. split; [lra|exact L'].
Qed.

(* ---------- monotonicity in the budgets ---------- *)

(* pointwise: same utilities and multiplicities, less money *)
Inductive poorer : list sup -> list sup -> Prop :=
| poorer_nil : poorer [] []
| poorer_cons s s' r r' : sb s' <= sb s -> su s' == su s -> sm s' == sm s ->
    poorer r' r -> poorer (s' :: r') (s :: r).

Lemma paidl_poorer rho l' l : Forall wfs l -> 0 <= rho -> poorer l' l -> paidl rho l' <= paidl rho l.
Proof.
  intros Hwf Hr HP. induction HP as [|s s' r r' Hb Hu Hm _ IH]; simpl; [lra|].
  inversion Hwf as [|? ? [Hb0 [Hu0 Hm0]] Hwr]; subst. specialize (IH Hwr).
  assert (Qmin (sb s') (rho * su s') <= Qmin (sb s) (rho * su s)).
  { apply Q.min_glb.
    - eapply Qle_trans; [apply Q.le_min_l|exact Hb].
    - eapply Qle_trans; [apply Q.le_min_r|]. rewrite Hu. lra. }
  rewrite Hm. nra.
Qed.

(* with less money the least rho can only go up: the cached affordability of a project is a
   lower bound for its current one *)
Theorem rho_monotone cost l' l r' r :
  0 < cost -> Forall wfs l -> poorer l' l -> is_rho_l cost l' r' -> is_rho_l cost l r -> r <= r'.
Proof.
  intros Hc Hwf HP [H1' _] [_ L].
  apply L.
  destruct (Qlt_le_dec r' 0) as [Hneg|Hpos].
  - (* a negative rho pays nothing positive: impossible as cost > 0 *)
    exfalso.
    assert (Hle : paidl r' l' <= 0).
    { clear H1' L. induction HP as [|s s' t t' Hb Hu Hm _ IH]; simpl; [lra|].
      inversion Hwf as [|? ? [Hb0 [Hu0 Hm0]] Hwr]; subst. specialize (IH Hwr).
      assert (A1 : Qmin (sb s') (r' * su s') <= r' * su s') by apply Q.le_min_r.
      assert (A2 : 0 < su s') by lra. assert (A3 : 0 < sm s') by lra.
      assert (A4 : r' * su s' < 0) by nra.
      assert (A5 : sm s' * Qmin (sb s') (r' * su s') <= 0) by nra.
      lra. }
    lra.
  - eapply Qle_trans; [exact H1'|]. apply paidl_poorer; assumption.
Qed.

(* initial affordability cost/total_sat is a lower bound of every later rho *)
Lemma rho_ge_initial cost l rho : Forall wfs l -> cost <= paidl rho l -> cost <= rho * tu l.
Proof.
  intros Hwf H. eapply Qle_trans; [exact H|]. clear H.
  induction Hwf as [|s r [_ [Hu Hm]] _ IH]; simpl; [lra|].
  assert (Qmin (sb s) (rho * su s) <= rho * su s) by apply Q.le_min_r. nra.
Qed.
