(* Proofs/MesInterp.v -- C02 rho_interp_is_rho: the executable least-rho computation of the
   textbook spec (Spec/MesSpec.v [rho_interp]: linear interpolation of the piecewise-linear function
   [paid] between two adjacent breakpoints) returns the least rho of the declarative definition
   [is_rho], for every affordable project of positive cost.
   The argument is about  F t = sum_{i in S} m_i * min(b_i, t * u_i)  with m_i, u_i > 0, b_i >= 0:
   monotone, 0 at 0, equal to the supporters' money from the largest breakpoint on, and linear
   between two breakpoints that have no breakpoint strictly between them. *)
From PB Require Export Proofs.MesSpecRun.
Open Scope Q_scope.

(* ---------- min / max of a list by folding ---------- *)

Lemma Qmin_leibniz a b : Qmin a b = a \/ Qmin a b = b.
Proof. unfold Qmin, GenericMinMax.gmin. destruct (a ?= b); auto. Qed.
Lemma Qmax_leibniz a b : Qmax a b = a \/ Qmax a b = b.
Proof. unfold Qmax, GenericMinMax.gmax. destruct (a ?= b); auto. Qed.

Lemma fold_Qmin_spec : forall l x,
  In (fold_left Qmin l x) (x :: l) /\ forall y, In y (x :: l) -> fold_left Qmin l x <= y.
Proof.
  induction l as [|z r IH]; intros x; simpl.
  - split; [left; reflexivity|]. intros y [<-|[]]. lra.
  - destruct (IH (Qmin x z)) as [I1 I2]. split.
    + destruct I1 as [E|Hin]; [|right; right; exact Hin].
      destruct (Qmin_leibniz x z) as [E2|E2]; [left|right; left]; (transitivity (Qmin x z); [symmetry; exact E2|exact E]).
    + intros y Hy. pose proof (I2 (Qmin x z) (or_introl eq_refl)) as H0.
      destruct Hy as [<-|[<-|Hy]].
      * pose proof (Q.le_min_l x z). lra.
      * pose proof (Q.le_min_r x z). lra.
      * apply I2. right. exact Hy.
Qed.

Lemma fold_Qmax_spec : forall l x,
  In (fold_left Qmax l x) (x :: l) /\ forall y, In y (x :: l) -> y <= fold_left Qmax l x.
Proof.
  induction l as [|z r IH]; intros x; simpl.
  - split; [left; reflexivity|]. intros y [<-|[]]. lra.
  - destruct (IH (Qmax x z)) as [I1 I2]. split.
    + destruct I1 as [E|Hin]; [|right; right; exact Hin].
      destruct (Qmax_leibniz x z) as [E2|E2]; [left|right; left]; (transitivity (Qmax x z); [symmetry; exact E2|exact E]).
    + intros y Hy. pose proof (I2 (Qmax x z) (or_introl eq_refl)) as H0.
      destruct Hy as [<-|[<-|Hy]].
      * pose proof (Q.le_max_l x z). lra.
      * pose proof (Q.le_max_r x z). lra.
      * apply I2. right. exact Hy.
Qed.

Lemma list_max_exists (l : list Q) : l <> [] -> exists x, In x l /\ forall y, In y l -> y <= x.
Proof.
  destruct l as [|x r]; [congruence|]. intros _.
  destruct (fold_Qmax_spec r x) as [H1 H2]. exists (fold_left Qmax r x). split; assumption.
Qed.

(* ---------- the piecewise-linear function ---------- *)

Definition F (m u bb : nat -> Q) (S : list nat) (t : Q) : Q :=
  Qsum (map (fun i => m i * Qmin (bb i) (t * u i)) S).
Definition okS (m u bb : nat -> Q) (S : list nat) : Prop :=
  forall i, In i S -> 0 < m i /\ 0 < u i /\ 0 <= bb i.
Definition slope (m u bb : nat -> Q) (S : list nat) (lo : Q) : Q :=
  Qsum (map (fun i => if Qleb (bb i) (lo * u i) then 0 else m i * u i) S).

Lemma F_mono m u bb S t t' : okS m u bb S -> t <= t' -> F m u bb S t <= F m u bb S t'.
Proof.
  intros Hok Hle. unfold F. apply Qsum_map_le. intros i Hi. destruct (Hok i Hi) as [Hm [Hu Hb]].
  assert (Qmin (bb i) (t * u i) <= Qmin (bb i) (t' * u i)).
  { apply Q.min_glb; [apply Q.le_min_l|]. eapply Qle_trans; [apply Q.le_min_r|]. nra. }
  nra.
Qed.

Lemma F_zero m u bb S : okS m u bb S -> F m u bb S 0 == 0.
Proof.
  intro Hok. unfold F. apply Qsum_map_zero. intros i Hi. destruct (Hok i Hi) as [_ [_ Hb]].
  rewrite Q.min_r by lra. ring.
Qed.

Lemma F_top m u bb S t : (forall i, In i S -> bb i <= t * u i) ->
  F m u bb S t == Qsum (map (fun i => m i * bb i) S).
Proof.
  intro H. unfold F. apply Qsum_map_ext. intros i Hi. rewrite Q.min_l by (apply H; exact Hi). reflexivity.
Qed.

Lemma F_linear m u bb S lo hi t :
  okS m u bb S -> lo <= t -> t <= hi ->
  (forall i, In i S -> bb i <= lo * u i \/ hi * u i <= bb i) ->
  F m u bb S t == F m u bb S lo + (t - lo) * slope m u bb S lo.
Proof.
  intros Hok H1 H2 Hgap. unfold F, slope. induction S as [|i r IH]; simpl; [ring|].
  rewrite IH.
  2:{ intros j Hj. apply Hok. right. exact Hj. }
  2:{ intros j Hj. apply Hgap. right. exact Hj. }
  destruct (Hok i (or_introl eq_refl)) as [Hm [Hu Hb]].
  assert (Et : Qmin (bb i) (t * u i) ==
               Qmin (bb i) (lo * u i) + (t - lo) * (if Qleb (bb i) (lo * u i) then 0 else u i)).
  { destruct (Qleb (bb i) (lo * u i)) eqn:E.
    - apply Qleb_iff in E. rewrite (Q.min_l (bb i) (lo * u i)) by exact E.
      rewrite Q.min_l by nra. ring.
    - apply Qleb_false_iff in E. destruct (Hgap i (or_introl eq_refl)) as [G|G]; [lra|].
      rewrite (Q.min_r (bb i) (lo * u i)) by lra. rewrite Q.min_r by nra. ring. }
  rewrite Et. destruct (Qleb (bb i) (lo * u i)); ring.
Qed.

(* ---------- interpolation between adjacent breakpoints hits the least root ---------- *)

Lemma interp_root m u bb S c lo hi :
  okS m u bb S ->
  F m u bb S lo < c -> c <= F m u bb S hi ->
  (forall i, In i S -> bb i <= lo * u i \/ hi * u i <= bb i) ->
  let r := lo + (c - F m u bb S lo) * (hi - lo) / (F m u bb S hi - F m u bb S lo) in
  c <= F m u bb S r /\ forall t, c <= F m u bb S t -> r <= t.
Proof.
  intros Hok Hlo Hhi Hgap.
  set (flo := F m u bb S lo) in *. set (fhi := F m u bb S hi) in *.
  assert (Hlt : lo < hi).
  { apply Qnot_le_lt. intro H. pose proof (F_mono m u bb S hi lo Hok H). fold flo fhi in H0. lra. }
  set (U := slope m u bb S lo).
  assert (Ehi : fhi == flo + (hi - lo) * U).
  { unfold fhi, flo, U. apply (F_linear m u bb S lo hi hi Hok); [lra|lra|exact Hgap]. }
  assert (HU : 0 < U) by nra.
  set (d := (c - flo) * (hi - lo) / (fhi - flo)).
  assert (Ed : d * (fhi - flo) == (c - flo) * (hi - lo)) by (unfold d; field; lra).
  assert (EdU : d * U == c - flo).
  { apply (Qmult_inj_r _ _ (hi - lo)); [lra|].
    setoid_replace (d * U * (hi - lo)) with (d * ((hi - lo) * U)) by ring.
    setoid_replace ((hi - lo) * U) with (fhi - flo) by lra. exact Ed. }
  assert (Hd0 : 0 < d) by nra.
  assert (Hd1 : d <= hi - lo) by nra.
  cbv zeta. fold d.
  assert (Er : F m u bb S (lo + d) == flo + d * U).
  { rewrite (F_linear m u bb S lo hi (lo + d) Hok); [fold flo; fold U; ring|lra|lra|exact Hgap]. }
  split; [rewrite Er; lra|].
  intros t Ht. apply Qnot_lt_le. intro Hc.
  destruct (Qlt_le_dec t lo) as [Hl|Hl].
  - pose proof (F_mono m u bb S t lo Hok (Qlt_le_weak _ _ Hl)). fold flo in H. lra.
  - assert (Et : F m u bb S t == flo + (t - lo) * U).
    { apply (F_linear m u bb S lo hi t Hok); [exact Hl|lra|exact Hgap]. }
    assert ((t - lo) * U < d * U) by nra. lra.
Qed.

(* ---------- the spec's quantities are an instance ---------- *)

Lemma paid_is_F P b rho p :
  paid P b rho p = F (s_mul P) (fun i => s_util P i p) (s_bud b) (s_supporters P p) rho.
Proof. reflexivity. Qed.

Lemma spec_okS P b p : wf_voters P -> wf_buds P b ->
  okS (s_mul P) (fun i => s_util P i p) (s_bud b) (s_supporters P p).
Proof.
  intros Hv Hb i Hi. apply supporters_spec in Hi. destruct Hi as [Hi Hu].
  split; [apply (vmulQ_pos P i Hv Hi)|]. split; [exact Hu|apply (vbud_nonneg P b i Hb)].
Qed.

Theorem rho_interp_is_rho cs P b p :
  wf_voters P -> wf_buds P b -> 0 < s_cost cs p -> affordable cs P b p ->
  exists r, rho_interp cs P b p = Some r /\ is_rho cs P b p r.
Proof.
  intros Hv Hb Hc Haff.
  pose proof (spec_okS P b p Hv Hb) as Hok.
  set (m := s_mul P) in *. set (u := fun i => s_util P i p) in *. set (bb := s_bud b) in *.
  set (S := s_supporters P p) in *. set (c := s_cost cs p) in *.
  set (f := F m u bb S).
  assert (Hf : forall t, paid P b t p = f t) by (intro; reflexivity).
  set (bps := breakpoints P b p).
  assert (Hbps : forall t, In t bps <-> t = 0 \/ exists i, In i S /\ t = bb i / u i).
  { intro t. unfold bps, breakpoints. simpl. rewrite in_map_iff. split.
    - intros [E|[i [E Hi]]]; [left; symmetry; exact E|right; exists i; split; [exact Hi|symmetry; exact E]].
    - intros [E|[i [Hi E]]]; [left; symmetry; exact E|right; exists i; split; [symmetry; exact E|exact Hi]]. }
  assert (Hbu : forall i, In i S -> bb i / u i * u i == bb i).
  { intros i Hi. destruct (Hok i Hi) as [_ [Hu _]]. field. lra. }
  (* the largest breakpoint covers the cost *)
  assert (Hne : bps <> []) by (unfold bps, breakpoints; discriminate).
  destruct (list_max_exists bps Hne) as [tmax [Hmax1 Hmax2]].
  assert (Htop : c <= f tmax).
  { unfold f. rewrite F_top.
    - exact Haff.
    - intros i Hi. destruct (Hok i Hi) as [_ [Hu _]].
      assert (Hle : bb i / u i <= tmax) by (apply Hmax2; apply Hbps; right; exists i; split; [exact Hi|reflexivity]).
      rewrite <- (Hbu i Hi). nra. }
  unfold rho_interp. fold c bps. cbv zeta.
  destruct (filter (fun t => Qleb c (paid P b t p)) bps) as [|h hr] eqn:Ehi.
  { exfalso. assert (Hin : In tmax (filter (fun t => Qleb c (paid P b t p)) bps)).
    { apply filter_In. split; [exact Hmax1|]. apply Qleb_iff. rewrite Hf. exact Htop. }
    rewrite Ehi in Hin. destruct Hin. }
  destruct (fold_Qmin_spec hr h) as [Hh1 Hh2]. set (hi := fold_left Qmin hr h) in *.
  rewrite <- Ehi in Hh1, Hh2. apply filter_In in Hh1. destruct Hh1 as [Hhi_in Hhi_c]. apply Qleb_iff in Hhi_c. rewrite Hf in Hhi_c.
  destruct (filter (fun t => Qltb (paid P b t p) c) bps) as [|l0 lr] eqn:Elo.
  { exfalso. assert (Hin : In 0 (filter (fun t => Qltb (paid P b t p) c) bps)).
    { apply filter_In. split; [apply Hbps; left; reflexivity|]. apply Qltb_iff. rewrite Hf. unfold f. rewrite (F_zero m u bb S Hok). exact Hc. }
    rewrite Elo in Hin. destruct Hin. }
  destruct (fold_Qmax_spec lr l0) as [Hl1 Hl2]. set (lo := fold_left Qmax lr l0) in *.
  rewrite <- Elo in Hl1, Hl2. apply filter_In in Hl1. destruct Hl1 as [Hlo_in Hlo_c]. apply Qltb_iff in Hlo_c. rewrite Hf in Hlo_c.
  assert (Hgap : forall i, In i S -> bb i <= lo * u i \/ hi * u i <= bb i).
  { intros i Hi. destruct (Hok i Hi) as [_ [Hu _]]. pose proof (Hbu i Hi) as E.
    assert (Hin : In (bb i / u i) bps) by (apply Hbps; right; exists i; split; [exact Hi|reflexivity]).
    destruct (Qlt_le_dec (f (bb i / u i)) c) as [Hlt|Hge].
    - left. assert (bb i / u i <= lo).
      { apply Hl2. apply filter_In. split; [exact Hin|]. apply Qltb_iff. rewrite Hf. exact Hlt. }
      nra.
    - right. assert (hi <= bb i / u i).
      { apply Hh2. apply filter_In. split; [exact Hin|]. apply Qleb_iff. rewrite Hf. exact Hge. }
      nra. }
  eexists. split; [reflexivity|].
  destruct (interp_root m u bb S c lo hi Hok Hlo_c Hhi_c Hgap) as [R1 R2].
  apply (is_rho_ext cs P b p (lo + (c - f lo) * (hi - lo) / (f hi - f lo))).
  - rewrite Qred_correct, !Hf. reflexivity.
  - split; [fold c; rewrite Hf; exact R1|]. intros t Ht. fold c in Ht. rewrite Hf in Ht. apply R2. exact Ht.
Qed.
