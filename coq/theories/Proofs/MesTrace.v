(* Proofs/MesTrace.v -- invariants of every round of a run of the Equal Shares model, stated on the
   trace it records (DESIGN.md §4 C07). *)
From PB Require Export Proofs.MesBinary.
Open Scope Q_scope.

(* ---------- a tied project carries the facts established by its evaluation ---------- *)

Definition tied_ok (P : list vcls) (costs buds : list Q) (best : Qx) (x : mproj) : Prop :=
  wf_mp P costs x /\
  exists rho, best = Fin rho /\ 0 < rho /\
              paidl rho (map (sup_of P buds x) (mp_sup x)) == mp_cost x.

Lemma wf_mp_set_aff P costs mp a s :
  wf_mp P costs mp -> Permutation (mp_sup mp) s -> wf_mp P costs (set_aff mp a s).
Proof.
  intros [H1 H2] HP. split; [simpl; etransitivity; [symmetry; exact HP|exact H1]|exact H2].
Qed.
Lemma wf_mp_set_sup P costs mp s :
  wf_mp P costs mp -> Permutation (mp_sup mp) s -> wf_mp P costs (set_sup mp s).
Proof.
  intros [H1 H2] HP. split; [simpl; etransitivity; [symmetry; exact HP|exact H1]|exact H2].
Qed.

Lemma paidl_rho_ext rho rho' l : Forall wfs l -> rho == rho' -> paidl rho l == paidl rho' l.
Proof.
  intros Hwf E. apply Qle_antisym; apply paidl_mono; try assumption; lra.
Qed.

Lemma sup_list_wfs P costs buds mp s :
  wf_voters P -> wf_buds P buds -> wf_mp P costs mp -> Permutation (mp_sup mp) s ->
  Forall wfs (map (sup_of P buds mp) s).
Proof.
  intros Hv Hb Hw HP. rewrite Forall_forall. intros x Hx. apply in_map_iff in Hx.
  destruct Hx as [i [<- Hi]]. apply (sup_of_wfs P costs); try assumption.
  eapply Permutation_in; [symmetry; exact HP|exact Hi].
Qed.

(* evaluating an affordable project yields a tied_ok candidate *)
Lemma eval_tied_ok P costs buds mp a0 :
  wf_voters P -> wf_buds P buds -> wf_mp P costs mp ->
  Qltb (avail P buds mp) (mp_cost mp) = false ->
  eval_rho P buds mp (sorted_sup P buds mp) = Some a0 ->
  forall rho, rho == a0 ->
  tied_ok P costs buds (Fin rho) (set_aff mp (Qred a0) (sorted_sup P buds mp)).
Proof.
  intros Hv Hb Hw Haff Hev rho Hrho.
  destruct (eval_rho_spec P costs buds mp Hv Hb Hw Haff) as [a1 [E1 [Hpos [Hpaid _]]]].
  rewrite Hev in E1. injection E1 as <-.
  pose proof (sorted_sup_perm P buds mp) as HP.
  split; [apply wf_mp_set_aff; assumption|].
  exists rho. split; [reflexivity|]. split; [lra|].
  change (paidl rho (map (sup_of P buds mp) (sorted_sup P buds mp)) == mp_cost mp).
  rewrite <- (paid_perm rho _ _ (Permutation_map (sup_of P buds mp) HP)).
  rewrite (paidl_rho_ext rho a0); [exact Hpaid| |exact Hrho].
  apply (sup_list_wfs P costs); try assumption. reflexivity.
Qed.

Definition res_ok (P : list vcls) (costs : list Q) (res : list (proj * option mproj)) : Prop :=
  forall id mp', In (id, Some mp') res -> wf_mp P costs mp'.

Lemma scan_inv P costs buds : wf_voters P -> wf_buds P buds -> forall l best tied,
  Forall (wf_mp P costs) l -> Forall (tied_ok P costs buds best) tied ->
  Forall (tied_ok P costs buds (fst (fst (scan P buds l best tied)))) (snd (fst (scan P buds l best tied)))
  /\ res_ok P costs (snd (scan P buds l best tied)).
Proof.
  intros Hv Hb. induction l as [|mp r IH]; intros best tied Hl Ht.
  - simpl. split; [exact Ht|intros ? ? []].
  - inversion Hl as [|? ? Hw Hr]; subst. rewrite scan_cons.
    destruct (Qltb (avail P buds mp) (mp_cost mp)) eqn:Ea.
    + destruct (IH best tied Hr Ht) as [I1 I2].
      destruct (scan P buds r best tied) as [[b t] res]. simpl in *. split; [exact I1|].
      intros id mp' [E|Hin]; [discriminate E|apply (I2 id mp' Hin)].
    + destruct (Qx_ltb best (Fin (mp_aff mp))) eqn:Eb.
      * simpl. split; [exact Ht|intros ? ? []].
      * cbv zeta.
        destruct (eval_rho P buds mp (sorted_sup P buds mp)) as [a0|] eqn:Ee.
        -- set (mp' := set_aff mp (Qred a0) (sorted_sup P buds mp)).
           assert (Hred : Qred a0 == a0) by apply Qred_correct.
           assert (Hwf' : wf_mp P costs mp') by (apply wf_mp_set_aff; [exact Hw|apply sorted_sup_perm]).
           assert (Hres : forall x : Qx * list mproj * list (proj * option mproj), res_ok P costs (snd x) ->
                     res_ok P costs (snd (let '(b, t, res) := x in (b, t, (mp_id mp, Some mp') :: res)))).
           { intros [[b t] res] Hx. simpl in *. intros id m [E|Hin]; [injection E as _ <-; exact Hwf'|apply (Hx id m Hin)]. }
           assert (Hfst : forall x : Qx * list mproj * list (proj * option mproj),
                     fst (let '(b, t, res) := x in (b, t, (mp_id mp, Some mp') :: res)) = fst x).
           { intros [[b t] res]. reflexivity. }
           destruct (Qx_ltb (Fin (Qred a0)) best) eqn:E1.
           ++ destruct (IH (Fin (Qred a0)) [mp'] Hr) as [I1 I2].
              { constructor; [|constructor]. apply eval_tied_ok; assumption. }
              rewrite Hfst. split; [exact I1|apply Hres; exact I2].
           ++ destruct (Qx_eqb (Fin (Qred a0)) best) eqn:E2.
              ** destruct best as [b|]; [|discriminate E2]. simpl in E2. apply Qeqb_iff in E2.
                 destruct (IH (Fin b) (tied ++ [mp']) Hr) as [I1 I2].
                 { apply Forall_app. split; [exact Ht|]. constructor; [|constructor].
                   apply eval_tied_ok; try assumption. lra. }
                 rewrite Hfst. split; [exact I1|apply Hres; exact I2].
              ** destruct (IH best tied Hr Ht) as [I1 I2].
                 rewrite Hfst. split; [exact I1|apply Hres; exact I2].
        -- destruct (IH best tied Hr Ht) as [I1 I2].
           destruct (scan P buds r best tied) as [[b t] res]. simpl in *. split; [exact I1|].
           intros id m [E|Hin]; [injection E as _ <-; apply wf_mp_set_sup; [exact Hw|apply sorted_sup_perm]|apply (I2 id m Hin)].
Qed.

Lemma lookup_In id res v : lookup id res = Some v -> In (id, v) res.
Proof.
  induction res as [|[k w] r IH]; simpl; [discriminate|].
  destruct (Nat.eqb k id) eqn:E.
  - intros [= ->]. apply Nat.eqb_eq in E. subst. left. reflexivity.
  - intro H. right. apply IH. exact H.
Qed.

Lemma patch_wf P costs projects res :
  Forall (wf_mp P costs) projects -> res_ok P costs res -> Forall (wf_mp P costs) (patch projects res).
Proof.
  intros Hp Hr. unfold patch. rewrite Forall_forall in *. intros x Hx.
  apply in_flat_map in Hx. destruct Hx as [mp [Hmp Hx]].
  destruct (lookup (mp_id mp) res) as [[mp'|]|] eqn:E; simpl in Hx.
  - destruct Hx as [<-|[]]. apply (Hr (mp_id mp) mp'). apply lookup_In. exact E.
  - contradiction.
  - destruct Hx as [<-|[]]. apply Hp. exact Hmp.
Qed.

Lemma round_scan_inv P costs buds projects :
  wf_voters P -> wf_buds P buds -> Forall (wf_mp P costs) projects ->
  Forall (tied_ok P costs buds (fst (fst (round_scan P buds projects)))) (snd (fst (round_scan P buds projects)))
  /\ Forall (wf_mp P costs) (snd (round_scan P buds projects)).
Proof.
  intros Hv Hb Hp. unfold round_scan.
  assert (Hs : Forall (wf_mp P costs) (isort aff_leb projects)).
  { apply (perm_Forall _ projects); [apply isort_perm|exact Hp]. }
  destruct (scan_inv P costs buds Hv Hb (isort aff_leb projects) PInf [] Hs (Forall_nil _)) as [I1 I2].
  destruct (scan P buds (isort aff_leb projects) PInf []) as [[b t] res]. simpl in *.
  split; [exact I1|apply patch_wf; assumption].
Qed.

Lemma pick_order_In tb tied x : In x (pick_order tb tied) -> In x tied.
Proof.
  unfold pick_order. destruct tied as [|a [|b r]]; auto.
  intro H. apply isort_In in H. apply isort_In in H. exact H.
Qed.

(* ---------- payments ---------- *)

Lemma pay_from_length P mp rho : forall buds k, length (pay_from P mp rho k buds) = length buds.
Proof. induction buds as [|b r IH]; intros k; simpl; [reflexivity|rewrite IH; reflexivity]. Qed.

Lemma pay_from_nth P mp rho : forall buds k j, (j < length buds)%nat ->
  nth j (pay_from P mp rho k buds) 0 =
  if memb (k + j)%nat (mp_sup mp) then pay_one (nth j buds 0) rho (supporters_sat P mp (k + j)%nat) else nth j buds 0.
Proof.
  induction buds as [|b r IH]; intros k j Hj; simpl in Hj; [lia|].
  destruct j as [|j]; simpl.
  - rewrite Nat.add_0_r. reflexivity.
  - rewrite IH by lia. replace (S k + j)%nat with (k + S j)%nat by lia. reflexivity.
Qed.

Lemma pay_nth P mp rho buds i : (i < length buds)%nat ->
  vbud (pay P mp rho buds) i =
  if memb i (mp_sup mp) then pay_one (vbud buds i) rho (supporters_sat P mp i) else vbud buds i.
Proof. intro H. unfold vbud, pay. rewrite pay_from_nth by exact H. reflexivity. Qed.

Lemma pay_one_eq b rho u : pay_one b rho u == b - Qmin b (rho * u).
Proof. unfold pay_one. apply Qred_correct. Qed.

Lemma pay_wf_buds P mp rho buds :
  wf_buds P buds -> wf_buds P (pay P mp rho buds).
Proof.
  intros [Hl Hn]. split; [unfold pay; rewrite pay_from_length; exact Hl|].
  unfold pay. clear Hl. generalize 0%nat. induction Hn as [|b r Hb _ IH]; intros k; simpl; constructor.
  - destruct (memb k (mp_sup mp)); [|exact Hb]. rewrite pay_one_eq.
    pose proof (Q.le_min_l b (rho * supporters_sat P mp k)). lra.
  - apply IH.
Qed.

(* ---------- the recorded rounds ---------- *)

Definition round_ok (P : list vcls) (costs : list Q) (r : round) : Prop :=
  wf_buds P (r_before r) /\
  exists sel, wf_mp P costs sel /\ r_sel r = mp_id sel /\ 0 < r_rho r /\
              r_after r = pay P sel (r_rho r) (r_before r) /\
              paidl (r_rho r) (map (sup_of P (r_before r) sel) (mp_sup sel)) == mp_cost sel.

Fixpoint chain (b : list Q) (T : list round) (fin : list Q) : Prop :=
  match T with
  | [] => fin = b
  | r :: T' => r_before r = b /\ chain (r_after r) T' fin
  end.

Lemma chain_app b T1 mid T2 fin : chain b T1 mid -> chain mid T2 fin -> chain b (T1 ++ T2) fin.
Proof.
  revert b. induction T1 as [|r T1 IH]; intros b H1 H2; simpl in *.
  - subst. exact H2.
  - destruct H1 as [E H1]. split; [exact E|apply IH; assumption].
Qed.

Lemma remove_proj_wf P costs id projects :
  Forall (wf_mp P costs) projects -> Forall (wf_mp P costs) (remove_proj id projects).
Proof.
  intro H. unfold remove_proj. rewrite Forall_forall in *. intros x Hx. apply filter_In in Hx. apply H. tauto.
Qed.

Theorem run_res_inv P costs tb : wf_voters P -> forall fuel buds projects acc tr b0 alloc T fin rest,
  wf_buds P buds -> Forall (wf_mp P costs) projects ->
  Forall (round_ok P costs) tr -> chain b0 (rev tr) buds ->
  run_res fuel P tb buds projects acc tr = Some (alloc, T, fin, rest) ->
  Forall (round_ok P costs) T /\ chain b0 T fin /\ wf_buds P fin.
Proof.
  intros Hv. induction fuel as [|f IH]; intros buds projects acc tr b0 alloc T fin rest Hb Hp Htr Hch Hrun;
    simpl in Hrun; [discriminate|].
  destruct (round_scan_inv P costs buds projects Hv Hb Hp) as [I1 I2].
  destruct (round_scan P buds projects) as [[best tied] projects'] eqn:Ers. simpl in I1, I2.
  assert (Hstop : Some (acc, rev tr, buds, projects') = Some (alloc, T, fin, rest) ->
                  Forall (round_ok P costs) T /\ chain b0 T fin /\ wf_buds P fin).
  { intros [= <- <- <- <-]. split; [apply Forall_rev; exact Htr|]. split; [exact Hch|exact Hb]. }
  destruct best as [rho|]; [|apply Hstop; exact Hrun].
  destruct (pick_order tb tied) as [|sel rest'] eqn:Epo; [apply Hstop; exact Hrun|].
  assert (Hsel : tied_ok P costs buds (Fin rho) sel).
  { rewrite Forall_forall in I1. apply I1. apply (pick_order_In tb). rewrite Epo. left. reflexivity. }
  destruct Hsel as [Hw [rho' [E [Hpos Hpaid]]]]. injection E as <-.
  apply (IH _ _ _ _ b0 _ _ _ _) in Hrun; try assumption.
  - apply pay_wf_buds. exact Hb.
  - apply remove_proj_wf. exact I2.
  - constructor; [|exact Htr]. split; [exact Hb|]. exists sel. simpl. split; [exact Hw|]. split; [reflexivity|]. split; [exact Hpos|]. split; [reflexivity|exact Hpaid].
  - simpl. apply (chain_app b0 (rev tr) buds); [exact Hch|]. simpl. split; reflexivity.
Qed.

(* ---------- what a well-formed round says about the money of every voter ---------- *)

Lemma round_len P costs r : round_ok P costs r -> length (r_before r) = length P.
Proof. intros [[H _] _]. exact H. Qed.

Lemma memb_sup P costs sel i : wf_mp P costs sel ->
  memb i (mp_sup sel) = true <-> In i (supporters P (mp_id sel)).
Proof. intro Hw. rewrite memb_In. apply (in_sup_supporters P costs). exact Hw. Qed.

(* only supporters pay *)
Lemma round_only_supporters P costs r : round_ok P costs r ->
  forall i, (i < length P)%nat -> ~ In i (supporters P (r_sel r)) -> vbud (r_after r) i = vbud (r_before r) i.
Proof.
  intros [[Hl _] [sel [Hw [Es [_ [Ea _]]]]]] i Hi Hn. rewrite Ea, pay_nth by lia.
  destruct (memb i (mp_sup sel)) eqn:E; [|reflexivity].
  exfalso. apply Hn. rewrite Es. apply (memb_sup P costs sel i Hw). exact E.
Qed.

(* what a supporter pays: min(own money, rho * own utility) *)
Lemma round_equal_shares P costs r : round_ok P costs r ->
  forall i, In i (supporters P (r_sel r)) ->
  vbud (r_before r) i - vbud (r_after r) i == Qmin (vbud (r_before r) i) (r_rho r * vutil P i (r_sel r)).
Proof.
  intros [[Hl _] [sel [Hw [Es [_ [Ea _]]]]]] i Hin. rewrite Es in *.
  assert (Hi : (i < length P)%nat) by (apply supporters_spec in Hin; tauto).
  rewrite Ea, pay_nth by lia.
  assert (E : memb i (mp_sup sel) = true) by (apply (memb_sup P costs sel i Hw); exact Hin).
  rewrite E, pay_one_eq.
  pose proof (supporters_sat_eq P costs sel i Hw Hin) as Hu.
  assert (Hm : Qmin (vbud (r_before r) i) (r_rho r * supporters_sat P sel i)
               == Qmin (vbud (r_before r) i) (r_rho r * vutil P i (mp_id sel))).
  { apply Qle_antisym; apply Q.min_glb; try apply Q.le_min_l;
      (eapply Qle_trans; [apply Q.le_min_r|]); rewrite Hu; lra. }
  rewrite Hm. ring.
Qed.

(* nobody pays more than they hold, nobody ends up with negative money *)
Lemma round_no_overpay P costs r : round_ok P costs r ->
  forall i, (i < length P)%nat -> 0 <= vbud (r_after r) i /\ vbud (r_after r) i <= vbud (r_before r) i.
Proof.
  intros Hr i Hi. pose proof Hr as [[Hl Hn] [sel [Hw [Es [Hrho [Ea _]]]]]].
  assert (Hb : 0 <= vbud (r_before r) i) by (apply (vbud_nonneg P); split; assumption).
  destruct (memb i (mp_sup sel)) eqn:E.
  - assert (Hin : In i (supporters P (r_sel r))) by (rewrite Es; apply (memb_sup P costs sel i Hw); exact E).
    pose proof (round_equal_shares P costs r Hr i Hin) as Hp.
    assert (Hu : 0 < vutil P i (r_sel r)) by (apply supporters_spec in Hin; tauto).
    pose proof (Q.le_min_l (vbud (r_before r) i) (r_rho r * vutil P i (r_sel r))).
    assert (0 <= Qmin (vbud (r_before r) i) (r_rho r * vutil P i (r_sel r))) by (apply Q.min_glb; nra).
    split; lra.
  - rewrite Ea, pay_nth by lia. rewrite E. split; lra.
Qed.

Lemma Qsum_map_ext {A} (f g : A -> Q) l : (forall x, In x l -> f x == g x) -> Qsum (map f l) == Qsum (map g l).
Proof.
  induction l as [|x r IH]; intros H; simpl; [reflexivity|].
  rewrite (H x (or_introl eq_refl)), IH; [reflexivity|]. intros y Hy. apply H. right. exact Hy.
Qed.

Lemma Qsum_filter {A} (h : A -> bool) (f : A -> Q) l :
  Qsum (map (fun x => if h x then f x else 0) l) == Qsum (map f (filter h l)).
Proof.
  induction l as [|x r IH]; simpl; [reflexivity|].
  destruct (h x); simpl; rewrite IH; ring.
Qed.

(* the multiplicity-weighted payments add up exactly to the cost of the bought project *)
Lemma round_conservation P costs r : round_ok P costs r ->
  Qsum (map (fun i => vmulQ P i * (vbud (r_before r) i - vbud (r_after r) i)) (seq 0 (length P)))
  == nth (r_sel r) costs 0.
Proof.
  intros Hr. pose proof Hr as [[Hl Hn] [sel [Hw [Es [Hrho [Ea Hpaid]]]]]].
  set (b := r_before r) in *. set (rho := r_rho r) in *.
  set (f := fun i => vmulQ P i * Qmin (vbud b i) (rho * supporters_sat P sel i)).
  rewrite (Qsum_map_ext _ (fun i => if memb i (mp_sup sel) then f i else 0)).
  - rewrite Qsum_filter.
    assert (Hfil : filter (fun i => memb i (mp_sup sel)) (seq 0 (length P)) = supporters P (mp_id sel)).
    { unfold supporters. apply filter_ext_in. intros i Hi. apply in_seq in Hi.
      destruct (memb i (mp_sup sel)) eqn:E.
      - apply (memb_sup P costs sel i Hw) in E. apply supporters_spec in E. symmetry. apply Qltb_iff. tauto.
      - destruct (Qltb 0 (vutil P i (mp_id sel))) eqn:E2; [|reflexivity].
        exfalso. assert (Hin : In i (supporters P (mp_id sel))) by (apply supporters_spec; split; [lia|apply Qltb_iff; exact E2]).
        apply (memb_sup P costs sel i Hw) in Hin. congruence. }
    rewrite Hfil.
    destruct Hw as [HP [_ [Hc _]]].
    rewrite <- (Qsum_perm_proper _ _ (Permutation_map f HP)).
    rewrite Es, <- Hc, <- Hpaid.
    clear. induction (mp_sup sel) as [|i l IH]; simpl; [reflexivity|]. rewrite IH. reflexivity.
  - intros i Hi. apply in_seq in Hi. fold b. rewrite Ea, pay_nth by (unfold b in *; lia).
    destruct (memb i (mp_sup sel)); [|ring].
    rewrite pay_one_eq. unfold f. fold rho. ring.
Qed.

(* ---------- whole runs ---------- *)

Lemma Qnat_S n : Qnat (S n) == 1 + Qnat n.
Proof. unfold Qnat. rewrite Nat2Z.inj_succ. unfold Z.succ. rewrite inject_Z_plus. ring. Qed.
Lemma Qnat_add a b : Qnat (a + b) == Qnat a + Qnat b.
Proof. unfold Qnat. rewrite Nat2Z.inj_add, inject_Z_plus. reflexivity. Qed.
Lemma Qnat_nonneg n : 0 <= Qnat n.
Proof. unfold Qnat, Qle. simpl. lia. Qed.

Lemma map_nth_seq {A} (l : list A) d : map (fun i => nth i l d) (seq 0 (length l)) = l.
Proof.
  induction l as [|x r IH]; simpl; [reflexivity|]. f_equal.
  rewrite <- seq_shift, map_map. exact IH.
Qed.

Lemma total_multiplicity P : Qsum (map (vmulQ P) (seq 0 (length P))) == Qnat (nvoters P).
Proof.
  unfold vmulQ.
  rewrite <- (map_map (fun i => nth i P dummy_voter) (fun v => Qnat (vmul v))), map_nth_seq.
  induction P as [|v r IH]; simpl; [reflexivity|]. rewrite IH, Qnat_add. reflexivity.
Qed.

Lemma repeat_wf_buds P b0 : 0 <= b0 -> wf_buds P (repeat b0 (length P)).
Proof.
  intro H. split; [apply repeat_length|]. rewrite Forall_forall. intros x Hx.
  apply repeat_spec in Hx. subst. exact H.
Qed.

(* every run of the inner algorithm from equal non-negative endowments *)
Theorem run_once_inv x b0 o :
  wf_voters (mi_voters x) -> 0 <= b0 -> run_once_res x b0 = Some o ->
  o_b0 o = b0 /\
  Forall (round_ok (mi_voters x) (mi_costs x)) (o_trace o) /\
  chain (repeat b0 (length (mi_voters x))) (o_trace o) (o_final o) /\
  wf_buds (mi_voters x) (o_final o).
Proof.
  intros Hv Hb Hrun. unfold run_once_res in Hrun.
  destruct (run_res _ _ _ _ _ _ _) as [[[[alloc tr] fin] rest]|] eqn:E; [|discriminate].
  injection Hrun as <-. simpl. split; [reflexivity|].
  apply (run_res_inv (mi_voters x) (mi_costs x) (mi_tb x) Hv _ _ _ _ _ (repeat b0 (length (mi_voters x))) _ _ _ _) in E.
  - exact E.
  - apply repeat_wf_buds. exact Hb.
  - unfold built. apply mk_projects_wf.
  - constructor.
  - simpl. reflexivity.
Qed.

Lemma share_nonneg x : tcost (mi_inst x) (mi_init x) <= mi_budget x -> 0 <= share x.
Proof.
  intro H. unfold share. rewrite Qred_correct. unfold Qdiv.
  apply Qmult_le_0_compat; [lra|]. apply Qinv_le_0_compat. apply Qnat_nonneg.
Qed.

(* the run reported by the iterated variant is one of the runs from equal endowments >= budget/n *)
Lemma iter_res_inv x inc : 0 <= inc -> forall fuel b0 prev o lo,
  lo <= b0 ->
  (forall p, prev = Some p -> exists b, lo <= b /\ run_once_res x b = Some p) ->
  iter_res fuel x inc b0 prev = Some o -> exists b, lo <= b /\ run_once_res x b = Some o.
Proof.
  intros Hinc. induction fuel as [|f IH]; intros b0 prev o lo Hlo Hprev Hit; simpl in Hit; [discriminate|].
  destruct (run_once_res x b0) as [out|] eqn:E; [|discriminate].
  destruct (negb (alloc_feasible x (o_alloc out))); [apply Hprev; exact Hit|].
  destruct (alloc_exhaustive x (o_alloc out)).
  - injection Hit as <-. exists b0. split; [exact Hlo|exact E].
  - assert (Hlo' : lo <= Qred (b0 + inc)) by (pose proof (Qred_correct (b0 + inc)); lra).
    assert (Hp' : forall p, Some out = Some p -> exists b, lo <= b /\ run_once_res x b = Some p).
    { intros p [= <-]. exists b0. split; [exact Hlo|exact E]. }
    exact (IH _ _ _ lo Hlo' Hp' Hit).
Qed.

Lemma round_common_rho P costs r : round_ok P costs r ->
  0 < r_rho r /\
  forall i, In i (supporters P (r_sel r)) ->
  vbud (r_before r) i - vbud (r_after r) i == Qmin (vbud (r_before r) i) (r_rho r * vutil P i (r_sel r)).
Proof.
  intro H. split; [|apply (round_equal_shares P costs r H)].
  destruct H as [_ [sel [_ [_ [Hp _]]]]]. exact Hp.
Qed.
