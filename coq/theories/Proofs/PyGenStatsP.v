(* Proofs/PyGenStatsP.v -- the definitions of Generated/PyFuncs.v that come from pabutools/utils.py (mean_generator,
   gini_coefficient) and pabutools/analysis/{votersatisfaction,profileproperties,instanceproperties}.py, REGENERATED
   from the Python source on every run by harness/vharness/pytrans.py, equal the hand-written models of
   Model/Analysis.v that the C18 theorems (Props/C18.v, textbook definitions of Spec/Stats.v) are about.
   The loops with a compound state (incremental mean, the two passes of the Gini coefficient) are compared component
   by component ([py_fold_rel]) with CANONICAL loops written here, and those are proved equal to the models by hand;
   everything else goes through the generic tactic first. *)
From Coq Require Import String.
From PB Require Import Model.PyPrims Generated.PyFuncs Proofs.InstanceP Proofs.SatisfactionP Proofs.PyGenLib.
From PB Require Model.Analysis Spec.Stats Proofs.StatsP.
Open Scope Q_scope.

Ltac py_open := intros; repeat autounfold with pygen in *.
Ltac py_gen := solve [ py_open; py_auto ].

(* ====================================================================================================== *)
(* mean_generator                                                                                           *)
(* ====================================================================================================== *)

(* the canonical loops: state (n, mean) *)
Definition mg_inner (v : Q) (st : Q * Q) (_ : Q) : Q * Q :=
  let '(n, mean) := st in (n + 1, mean + (v - mean) / (n + 1)).
Definition mg_outer (st : Q * Q) (x : Q * Q) : Q * Q := fold_left (mg_inner (fst x)) (py_range (snd x)) st.
Definition mg_outer_plain (st : Q * Q) (x : Q) : Q * Q := fold_left (mg_inner x) (py_range 1) st.
Global Hint Unfold mg_inner mg_outer mg_outer_plain : pycanon.

Definition stream (l : list (Q * nat)) : list (Q * Q) := map (fun c => (fst c, Qnat (snd c))) l.

Lemma mg_inner_spec {A} v (s : list A) (f : A -> Q) : forall qn m, 0 <= qn ->
  let r := fold_left (mg_inner v) (map f s) (qn, m) in
  fst r == qn + Qnat (length s) /\ snd r * (qn + Qnat (length s)) == m * qn + v * Qnat (length s).
Proof.
  induction s as [|x s IH]; intros qn m Hq; cbn [map fold_left length].
  - cbn [fst snd]. unfold Qnat. simpl. split; ring.
  - unfold mg_inner at 2. destruct (IH (qn + 1) (m + (v - m) / (qn + 1))) as [H1 H2]; [lra|].
    cbv zeta in *. split.
    + rewrite H1. rewrite (SatisfactionP.Qnat_S (length s)). ring.
    + rewrite (SatisfactionP.Qnat_S (length s)).
      setoid_replace (qn + (1 + Qnat (length s))) with (qn + 1 + Qnat (length s)) by ring.
      rewrite H2. field. lra.
Qed.

Lemma mg_outer_spec (l : list (Q * nat)) : forall qn m, 0 <= qn ->
  let r := fold_left mg_outer (stream l) (qn, m) in
  fst r == qn + Qnat (Stats.wcount l) /\
  snd r * (qn + Qnat (Stats.wcount l)) == m * qn + Stats.wsum l.
Proof.
  induction l as [|[v k] l IH]; intros qn m Hq.
  - cbn [stream map fold_left]. cbv zeta. unfold Stats.wcount, Stats.wsum. cbn [fst snd fold_right map Qsum]. change (Qnat 0) with 0. split; ring.
  - change (stream ((v, k) :: l)) with ((v, Qnat k) :: stream l). cbn [fold_left].
    change (mg_outer (qn, m) (v, Qnat k)) with (fold_left (mg_inner v) (py_range (Qnat k)) (qn, m)).
    rewrite py_range_Qnat.
    pose proof (mg_inner_spec v (seq 0 k) Qnat qn m Hq) as Hi. cbv zeta in Hi. rewrite seq_length in Hi.
    destruct (fold_left (mg_inner v) (map Qnat (seq 0 k)) (qn, m)) as [qn' m'] eqn:E. cbn [fst snd] in Hi.
    destruct Hi as [Hn Hm].
    assert (Hq' : 0 <= qn') by (rewrite Hn; pose proof (Qnat_nonneg k); lra).
    destruct (IH qn' m' Hq') as [H1 H2]. cbv zeta in *.
    assert (Hc : Qnat (Stats.wcount ((v, k) :: l)) == Qnat k + Qnat (Stats.wcount l)).
    { unfold Stats.wcount. cbn [fold_right snd]. apply Qnat_plus. }
    assert (Hw : Stats.wsum ((v, k) :: l) == v * Qnat k + Stats.wsum l).
    { unfold Stats.wsum. cbn [map Qsum fst snd]. reflexivity. }
    rewrite Hc, Hw. split.
    + rewrite H1, Hn. ring.
    + setoid_replace (qn + (Qnat k + Qnat (Stats.wcount l))) with (qn' + Qnat (Stats.wcount l)) by (rewrite Hn; ring).
      rewrite H2. setoid_replace (m' * qn') with (m' * (qn + Qnat k)) by (rewrite Hn; reflexivity).
      rewrite Hm. ring.
Qed.

Lemma mg_outer_empty (l : list (Q * nat)) : Stats.wcount l = 0%nat -> forall st, fold_left mg_outer (stream l) st = st.
Proof.
  induction l as [|[v k] l IH]; intros H st; [reflexivity|].
  unfold Stats.wcount in H. cbn [fold_right snd] in H. assert (k = 0%nat) by lia. subst k.
  change (stream ((v, 0%nat) :: l)) with ((v, Qnat 0) :: stream l). cbn [fold_left].
  change (mg_outer st (v, Qnat 0)) with (fold_left (mg_inner v) (py_range (Qnat 0)) st).
  rewrite py_range_Qnat. cbn [seq map fold_left]. apply IH.
  unfold Stats.wcount. lia.
Qed.

(* the canonical incremental mean is the weighted mean, hence the model's mean_generator *)
Lemma mg_canonical (l : list (Q * nat)) :
  snd (fold_left mg_outer (stream l) (0, 0)) == Analysis.mean_generator l.
Proof.
  rewrite StatsP.mean_generator_spec.
  destruct (Stats.wcount l) as [|c] eqn:E.
  - rewrite (mg_outer_empty l E). cbn [snd]. unfold Qdiv. change (/ Qnat 0) with 0. ring.
  - pose proof (mg_outer_spec l 0 0 (Qle_refl 0)) as [_ H]. cbv zeta in H. rewrite E in H.
    pose proof (StatsP.Qnat_S_pos c) as Hp.
    apply Qmult_inj_r with (z := Qnat (S c)); [lra|].
    setoid_replace (0 + Qnat (S c)) with (Qnat (S c)) in H by ring. rewrite H. field. lra.
Qed.


Lemma mg_plain_fold (l : list Q) : forall st,
  fold_left mg_outer_plain l st = fold_left mg_outer (stream (map (fun v => (v, 1%nat)) l)) st.
Proof.
  induction l as [|x l IH]; intro st; [reflexivity|].
  cbn [map stream fold_left]. fold (stream (map (fun v => (v, 1%nat)) l)). rewrite <- IH.
  unfold mg_outer_plain at 2, mg_outer at 1. cbn [fst snd]. change (Qnat 1) with 1. reflexivity.
Qed.

Lemma mg_canonical_plain (l : list Q) :
  snd (fold_left mg_outer_plain l (0, 0)) == Analysis.mean_plain l.
Proof. rewrite mg_plain_fold. apply mg_canonical. Qed.

(* ====================================================================================================== *)
(* gini_coefficient                                                                                         *)
(* ====================================================================================================== *)

(* the canonical loops: first pass (pending raise, all_nul, num_values), second pass (cumulated sum) *)
Definition gs_step {A} (raised : A) (st : option A * bool * Q) (v : Q) : option A * bool * Q :=
  let '(ret, all_nul, num) := st in
  match ret with
  | Some _ => st
  | None => if Qltb v 0 then (Some raised, all_nul, num)
            else if all_nul && Qltb 0 v then (ret, false, num + 1) else (ret, all_nul, num + 1)
  end.
Definition gc_step (num : Q) (acc : Q) (it : Q * Q) : Q := acc + snd it * (num - fst it).
Definition gini_canon (l : list Q) : option Q :=
  let '(ret, all_nul, num) := fold_left (gs_step (@None Q)) l (None, true, 0) in
  match ret with
  | Some r => r
  | None => if all_nul then Some 0
            else Some ((num + 1 - (2 * fold_left (gc_step num) (py_enumerate (isort Qleb l)) 0) / Qsum l) / num)
  end.
(* the same for the obligations (ZeroDivisionError): a raise is not a violation *)
Definition gini_safe_canon (l : list Q) : bool :=
  let '(ret, all_nul, num) := fold_left (gs_step true) l (None, true, 0) in
  match ret with
  | Some r => r
  | None => if all_nul then true else (negb (Qeqb (Qsum l) 0) && negb (Qeqb num 0))%bool
  end.
Global Hint Unfold gs_step gc_step gini_canon gini_safe_canon : pycanon.

Lemma gs_stuck {A} (rz : A) l : forall x a n, fold_left (gs_step rz) l (Some x, a, n) = (Some x, a, n).
Proof. induction l as [|v l IH]; intros x a n; simpl; [reflexivity|apply IH]. Qed.

Lemma gs_step_None {A} (rz : A) a n v : gs_step rz (None, a, n) v =
  if Qltb v 0 then (Some rz, a, n) else if (a && Qltb 0 v)%bool then (None, false, n + 1) else (None, a, n + 1).
Proof. reflexivity. Qed.

Lemma gs_scan {A} (rz : A) l : forall a n,
  let r := fold_left (gs_step rz) l (None, a, n) in
  (existsb (fun v => Qltb v 0) l = true -> fst (fst r) = Some rz) /\
  (existsb (fun v => Qltb v 0) l = false ->
     fst (fst r) = None /\ snd (fst r) = (a && forallb (fun v => negb (Qltb 0 v)) l)%bool /\
     snd r == n + Qnat (length l)).
Proof.
  induction l as [|v l IH]; intros a n; cbn [fold_left existsb forallb length].
  - cbv zeta. cbn [fst snd]. split; [discriminate|]. intros _. rewrite andb_true_r. change (Qnat 0) with 0.
    repeat split. ring.
  - rewrite gs_step_None. destruct (Qltb v 0) eqn:E; cbn [orb].
    + rewrite gs_stuck. cbv zeta. cbn [fst snd]. split; [reflexivity|discriminate].
    + destruct (a && Qltb 0 v)%bool eqn:E2.
      * apply andb_true_iff in E2. destruct E2 as [-> E2]. rewrite E2. cbn [negb andb].
        destruct (IH false (n + 1)) as [H1 H2]. cbv zeta in *. split; [exact H1|]. intro Hn.
        destruct (H2 Hn) as [Ha [Hb Hc]]. repeat split; [exact Ha|rewrite Hb; reflexivity|].
        rewrite Hc, (SatisfactionP.Qnat_S (length l)). ring.
      * destruct (IH a (n + 1)) as [H1 H2]. cbv zeta in *. split; [exact H1|]. intro Hn.
        destruct (H2 Hn) as [Ha [Hb Hc]]. repeat split; [exact Ha| |].
        -- rewrite Hb. destruct a; cbn [andb] in *; [rewrite E2; reflexivity|reflexivity].
        -- rewrite Hc, (SatisfactionP.Qnat_S (length l)). ring.
Qed.

Lemma gc_cum n s : forall k a, (k + length s <= n)%nat ->
  fold_left (gc_step (Qnat n)) (combine (map Qnat (seq k (length s))) s) a == a + Analysis.cum_sum (n - k) s.
Proof.
  induction s as [|v s IH]; intros k a H; cbn [length seq map combine fold_left Analysis.cum_sum]; [ring|].
  cbn [length] in H. rewrite IH by lia. unfold gc_step. cbn [fst snd].
  replace (Init.Nat.pred (n - k)) with (n - S k)%nat by lia.
  rewrite (Qnat_sub n k) by lia. ring.
Qed.

Lemma gc_num_ext (num num' : Q) L : num == num' -> forall a, fold_left (gc_step num) L a == fold_left (gc_step num') L a.
Proof.
  intros H a. apply fold_left_Qeq; [|reflexivity]. intros x x' it Hx. unfold gc_step. rewrite Hx, H. reflexivity.
Qed.

Lemma gini_canonical l : opt_rel Qeq (gini_canon l) (Analysis.gini_coefficient l).
Proof.
  unfold gini_canon, Analysis.gini_coefficient.
  pose proof (gs_scan (@None Q) l true 0) as [H1 H2]. cbv zeta in H1, H2.
  destruct (fold_left (gs_step None) l (None, true, 0)) as [[ret an] num]. cbn [fst snd] in H1, H2.
  destruct (existsb (fun v => Qltb v 0) l).
  - rewrite (H1 eq_refl). exact I.
  - destruct (H2 eq_refl) as [-> [-> Hn]]. cbn [andb].
    destruct (forallb (fun v => negb (Qltb 0 v)) l); cbn [opt_rel]; [reflexivity|].
    rewrite Qred_correct.
    assert (Hn' : num == Qnat (length l)) by (rewrite Hn; ring).
    rewrite (gc_num_ext num (Qnat (length l)) _ Hn'). unfold py_enumerate.
    rewrite (gc_cum (length l) (isort Qleb l) 0 0) by (rewrite isort_length; lia).
    rewrite Nat.sub_0_r, Hn'. apply Qdiv_comp; [|reflexivity].
    apply Qplus_comp; [reflexivity|]. apply Qopp_comp. apply Qdiv_comp; [ring|reflexivity].
Qed.

Lemma gini_safe_canonical l : gini_safe_canon l = true.
Proof.
  unfold gini_safe_canon.
  pose proof (gs_scan true l true 0) as [H1 H2]. cbv zeta in H1, H2.
  destruct (fold_left (gs_step true) l (None, true, 0)) as [[ret an] num]. cbn [fst snd] in H1, H2.
  destruct (existsb (fun v => Qltb v 0) l) eqn:En.
  - rewrite (H1 eq_refl). reflexivity.
  - destruct (H2 eq_refl) as [-> [-> Hn]]. cbn [andb].
    destruct (forallb (fun v => negb (Qltb 0 v)) l) eqn:Ef; [reflexivity|].
    apply forallb_false_ex in Ef. destruct Ef as [v [Hv Hpos]]. apply negb_false_iff, Qltb_iff in Hpos.
    assert (Hnn : forall w, In w l -> 0 <= w).
    { intros w Hw. pose proof (existsb_false_all _ _ En w Hw) as Hw'. cbv beta in Hw'. apply Qltb_false_iff in Hw'. exact Hw'. }
    assert (Hs : 0 < Qsum l) by (apply StatsP.Qsum_pos; [exact Hnn|exists v; split; assumption]).
    assert (Hl : (0 < length l)%nat) by (destruct l; [contradiction|simpl; lia]).
    pose proof (Qnat_pos (length l) Hl) as Hp.
    apply andb_true_iff. split; apply negb_true_iff, Qeqb_false_iff; [lra|rewrite Hn; lra].
Qed.

(* the same first pass when the number of values is taken with len() afterwards: state (pending raise, all_nul) *)
Definition gs2_step {A} (raised : A) (st : option A * bool) (v : Q) : option A * bool :=
  let '(ret, all_nul) := st in
  match ret with
  | Some _ => st
  | None => if Qltb v 0 then (Some raised, all_nul)
            else if all_nul && Qltb 0 v then (ret, false) else (ret, all_nul)
  end.
Definition gini_canon2 (l : list Q) : option Q :=
  let '(ret, all_nul) := fold_left (gs2_step (@None Q)) l (None, true) in
  match ret with
  | Some r => r
  | None => if all_nul then Some 0
            else Some ((Qnat (length l) + 1 - (2 * fold_left (gc_step (Qnat (length l))) (py_enumerate (isort Qleb l)) 0) / Qsum l)
                       / Qnat (length l))
  end.
Definition gini_safe_canon2 (l : list Q) : bool :=
  let '(ret, all_nul) := fold_left (gs2_step true) l (None, true) in
  match ret with
  | Some r => r
  | None => if all_nul then true else (negb (Qeqb (Qsum l) 0) && negb (Qeqb (Qnat (length l)) 0))%bool
  end.
Global Hint Unfold gs2_step gini_canon2 gini_safe_canon2 : pycanon.

Lemma gs2_stuck {A} (rz : A) l : forall x a, fold_left (gs2_step rz) l (Some x, a) = (Some x, a).
Proof. induction l as [|v l IH]; intros x a; simpl; [reflexivity|apply IH]. Qed.
Lemma gs2_step_None {A} (rz : A) a v : gs2_step rz (None, a) v =
  if Qltb v 0 then (Some rz, a) else if (a && Qltb 0 v)%bool then (None, false) else (None, a).
Proof. reflexivity. Qed.
Lemma gs2_scan {A} (rz : A) l : forall a,
  let r := fold_left (gs2_step rz) l (None, a) in
  (existsb (fun v => Qltb v 0) l = true -> fst r = Some rz) /\
  (existsb (fun v => Qltb v 0) l = false ->
     fst r = None /\ snd r = (a && forallb (fun v => negb (Qltb 0 v)) l)%bool).
Proof.
  induction l as [|v l IH]; intros a; cbn [fold_left existsb forallb].
  - cbv zeta. cbn [fst snd]. split; [discriminate|]. intros _. rewrite andb_true_r. split; reflexivity.
  - rewrite gs2_step_None. destruct (Qltb v 0) eqn:E; cbn [orb].
    + rewrite gs2_stuck. cbv zeta. cbn [fst snd]. split; [reflexivity|discriminate].
    + destruct (a && Qltb 0 v)%bool eqn:E2.
      * apply andb_true_iff in E2. destruct E2 as [-> E2]. rewrite E2. cbn [negb andb].
        destruct (IH false) as [H1 H2]. cbv zeta in *. split; [exact H1|]. intro Hn.
        destruct (H2 Hn) as [Ha Hb]. split; [exact Ha|rewrite Hb; reflexivity].
      * destruct (IH a) as [H1 H2]. cbv zeta in *. split; [exact H1|]. intro Hn.
        destruct (H2 Hn) as [Ha Hb]. split; [exact Ha|].
        rewrite Hb. destruct a; cbn [andb] in *; [rewrite E2; reflexivity|reflexivity].
Qed.

Lemma gini_canonical2 l : opt_rel Qeq (gini_canon2 l) (Analysis.gini_coefficient l).
Proof.
  unfold gini_canon2, Analysis.gini_coefficient.
  pose proof (gs2_scan (@None Q) l true) as [H1 H2]. cbv zeta in H1, H2.
  destruct (fold_left (gs2_step None) l (None, true)) as [ret an]. cbn [fst snd] in H1, H2.
  destruct (existsb (fun v => Qltb v 0) l).
  - rewrite (H1 eq_refl). exact I.
  - destruct (H2 eq_refl) as [-> ->]. cbn [andb].
    destruct (forallb (fun v => negb (Qltb 0 v)) l); cbn [opt_rel]; [reflexivity|].
    rewrite Qred_correct. unfold py_enumerate.
    rewrite (gc_cum (length l) (isort Qleb l) 0 0) by (rewrite isort_length; lia).
    rewrite Nat.sub_0_r. apply Qdiv_comp; [|reflexivity].
    apply Qplus_comp; [reflexivity|]. apply Qopp_comp. apply Qdiv_comp; [ring|reflexivity].
Qed.

Lemma gini_safe_canonical2 l : gini_safe_canon2 l = true.
Proof.
  unfold gini_safe_canon2.
  pose proof (gs2_scan true l true) as [H1 H2]. cbv zeta in H1, H2.
  destruct (fold_left (gs2_step true) l (None, true)) as [ret an]. cbn [fst snd] in H1, H2.
  destruct (existsb (fun v => Qltb v 0) l) eqn:En.
  - rewrite (H1 eq_refl). reflexivity.
  - destruct (H2 eq_refl) as [-> ->]. cbn [andb].
    destruct (forallb (fun v => negb (Qltb 0 v)) l) eqn:Ef; [reflexivity|].
    apply forallb_false_ex in Ef. destruct Ef as [v [Hv Hpos]]. apply negb_false_iff, Qltb_iff in Hpos.
    assert (Hnn : forall w, In w l -> 0 <= w).
    { intros w Hw. pose proof (existsb_false_all _ _ En w Hw) as Hw'. cbv beta in Hw'. apply Qltb_false_iff in Hw'. exact Hw'. }
    assert (Hs : 0 < Qsum l) by (apply StatsP.Qsum_pos; [exact Hnn|exists v; split; assumption]).
    assert (Hl : (0 < length l)%nat) by (destruct l; [contradiction|simpl; lia]).
    pose proof (Qnat_pos (length l) Hl) as Hp.
    apply andb_true_iff. split; apply negb_true_iff, Qeqb_false_iff; lra.
Qed.

(* ---------- the generated functions ---------- *)
(* a stream of (value, multiplicity): the multiplicities are Python ints *)
Lemma gen_mean_generator_ok : forall l : list (Q * nat), gen_mean_generator (stream l) == Analysis.mean_generator l.
Proof.
  first [ py_gen
        | timeout 60 solve [ py_open; py_unfold; rewrite <- mg_canonical; py_fold_rel ] ].
Qed.

(* ... which is the weighted mean  sum(v * mul) / sum(mul)  of Spec/Stats.v *)
Lemma gen_mean_generator_is_wmean : forall l : list (Q * nat), gen_mean_generator (stream l) == Stats.wmean l.
Proof. intro l. rewrite gen_mean_generator_ok. apply StatsP.mean_generator_spec. Qed.

Lemma gen_mean_generator_plain_ok : forall l : list Q, gen_mean_generator_plain l == Analysis.mean_plain l.
Proof.
  first [ py_gen
        | timeout 60 solve [ py_open; py_unfold; rewrite <- mg_canonical_plain; py_fold_rel ] ].
Qed.

Lemma gen_mean_generator_plain_is_mean : forall l : list Q, gen_mean_generator_plain l == Stats.mean l.
Proof. intro l. rewrite gen_mean_generator_plain_ok. apply StatsP.mean_plain_spec. Qed.

(* gini_coefficient: None = ValueError (a negative value) *)
Lemma gen_gini_coefficient_ok : forall l : list Q, opt_rel Qeq (gen_gini_coefficient l) (Analysis.gini_coefficient l).
Proof.
  intro l.
  first [ solve [ eapply opt_Qeq_trans; [|apply gini_canonical]; py_open; autounfold with pycanon; py_unfold; py_fold_rel ]
        | timeout 60 solve [ eapply opt_Qeq_trans; [|apply gini_canonical2]; py_open; autounfold with pycanon; py_unfold; py_fold_rel ] ].
Qed.

(* and it never divides by zero: the all-zero (and the empty) vector is answered before the division *)
Lemma gen_gini_coefficient_safe_ok : forall l : list Q, gen_gini_coefficient_safe l = true.
Proof.
  intro l.
  first [ solve [ rewrite <- (gini_safe_canonical l); py_open; autounfold with pycanon; py_unfold; py_fold_rel ]
        | timeout 60 solve [ rewrite <- (gini_safe_canonical2 l); py_open; autounfold with pycanon; py_unfold; py_fold_rel ] ].
Qed.

(* mean_generator never divides by zero: the counter n is at least 1 when it is divided by *)
Definition mgs_inner (v : Q) (st : bool * Q * Q) (_ : Q) : bool * Q * Q :=
  let '(ok, n, mean) := st in
  if ok then (if negb (Qeqb (n + 1) 0) then (ok, n + 1, mean + (v - mean) / (n + 1)) else (false, n + 1, mean)) else st.
Definition mgs_after (ok : bool) (r : bool * Q * Q) : bool * Q * Q :=
  let '(ok2, n, mean) := r in if ok2 then (ok, n, mean) else (false, n, mean).
Definition mgs_outer (st : bool * Q * Q) (x : Q * Q) : bool * Q * Q :=
  let '(ok, n, mean) := st in
  if ok then mgs_after ok (fold_left (mgs_inner (fst x)) (py_range (snd x)) (true, n, mean)) else st.
Definition mgs_outer_plain (st : bool * Q * Q) (x : Q) : bool * Q * Q :=
  let '(ok, n, mean) := st in
  if ok then mgs_after ok (fold_left (mgs_inner x) (py_range 1) (true, n, mean)) else st.
Global Hint Unfold mgs_inner mgs_after mgs_outer mgs_outer_plain : pycanon.

Lemma mgs_inner_inv {A} v (s : list A) (f : A -> Q) : forall n m, 0 <= n ->
  exists n' m', fold_left (mgs_inner v) (map f s) (true, n, m) = (true, n', m') /\ 0 <= n'.
Proof.
  induction s as [|x s IH]; intros n m Hn; cbn [map fold_left].
  - exists n, m. split; [reflexivity|exact Hn].
  - unfold mgs_inner at 2. destruct (Qeqb (n + 1) 0) eqn:E; [apply Qeqb_iff in E; lra|]. cbn [negb].
    apply IH. lra.
Qed.

Lemma mgs_outer_inv (s : list (Q * Q)) : forall n m, 0 <= n ->
  exists n' m', fold_left mgs_outer s (true, n, m) = (true, n', m') /\ 0 <= n'.
Proof.
  induction s as [|[v k] s IH]; intros n m Hn; cbn [fold_left].
  - exists n, m. split; [reflexivity|exact Hn].
  - unfold mgs_outer at 2. cbn [fst snd]. unfold py_range.
    destruct (mgs_inner_inv v (seq 0 (py_nat k)) Qnat n m Hn) as [n' [m' [E Hn']]]. rewrite E. cbn [mgs_after].
    apply IH. exact Hn'.
Qed.

Lemma mgs_outer_plain_inv (s : list Q) : forall n m, 0 <= n ->
  exists n' m', fold_left mgs_outer_plain s (true, n, m) = (true, n', m') /\ 0 <= n'.
Proof.
  induction s as [|v s IH]; intros n m Hn; cbn [fold_left].
  - exists n, m. split; [reflexivity|exact Hn].
  - unfold mgs_outer_plain at 2. unfold py_range.
    destruct (mgs_inner_inv v (seq 0 (py_nat 1)) Qnat n m Hn) as [n' [m' [E Hn']]]. rewrite E. cbn [mgs_after].
    apply IH. exact Hn'.
Qed.

Lemma mgs_canonical (s : list (Q * Q)) : fst (fst (fold_left mgs_outer s (true, 0, 0))) = true.
Proof. destruct (mgs_outer_inv s 0 0 (Qle_refl 0)) as [n [m [E _]]]. rewrite E. reflexivity. Qed.
Lemma mgs_canonical_plain (s : list Q) : fst (fst (fold_left mgs_outer_plain s (true, 0, 0))) = true.
Proof. destruct (mgs_outer_plain_inv s 0 0 (Qle_refl 0)) as [n [m [E _]]]. rewrite E. reflexivity. Qed.

Lemma gen_mean_generator_safe_ok : forall l : list (Q * Q), gen_mean_generator_safe l = true.
Proof.
  intro l. rewrite <- (mgs_canonical l).
  first [ solve [ py_open; py_unfold; py_fold_rel ] ].
Qed.
Lemma gen_mean_generator_plain_safe_ok : forall l : list Q, gen_mean_generator_plain_safe l = true.
Proof.
  intro l. rewrite <- (mgs_canonical_plain l).
  first [ solve [ py_open; py_unfold; py_fold_rel ] ].
Qed.

(* ====================================================================================================== *)
(* votersatisfaction.py / profileproperties.py / instanceproperties.py                                      *)
(* ====================================================================================================== *)

(* the stream (satisfaction of the ballot, multiplicity) the model functions of Model/Analysis.v take: one entry
   per ballot the profile iterates over; [sc] is the satisfaction class (instance, profile, ballot) -> sat *)
Definition sat_stream (sc : py_satclass) (I : inst) (P : profile) (W : list proj) : list (Q * nat) :=
  map (fun bm => (sc I P bm W, snd bm)) P.

Lemma stream_map {A} (f : A -> Q) (m : A -> nat) (l : list A) :
  map (fun x => (f x, Qnat (m x))) l = stream (map (fun x => (f x, m x)) l).
Proof. unfold stream. rewrite map_map. reflexivity. Qed.

Lemma sat_total_map (f : Analysis.bal * nat -> Q) (P : Analysis.prof) :
  Analysis.sat_total (map (fun bm => (f bm, snd bm)) P) = Analysis.num_ballots P.
Proof. induction P as [|x P IH]; simpl; [reflexivity|]. rewrite IH. reflexivity. Qed.

Lemma fold_collect_repeat {A B} (g : A -> B) (m : A -> nat) (l : list A) : forall acc,
  fold_left (fun (acc : list B) x => fold_left (fun (acc : list B) (_ : Q) => acc ++ [g x]) (py_range (Qnat (m x))) acc) l acc
  = acc ++ flat_map (fun x => repeat (g x) (m x)) l.
Proof.
  induction l as [|x l IH]; intro acc; simpl; [rewrite app_nil_r; reflexivity|].
  rewrite fold_collect_const, py_range_length, IH, app_assoc. reflexivity.
Qed.
Lemma flat_map_map {A B C} (f : B -> list C) (g : A -> B) l : flat_map f (map g l) = flat_map (fun x => f (g x)) l.
Proof. induction l as [|x l IH]; simpl; [reflexivity|]. rewrite IH. reflexivity. Qed.

Ltac py_model := unfold Analysis.avg_satisfaction, Analysis.avg_ballot_length, Analysis.avg_ballot_cost,
  Analysis.avg_approval_score, Analysis.avg_total_score, Analysis.median_approval_score, Analysis.median_total_score,
  Analysis.median_project_cost, Analysis.sum_project_cost, Analysis.funding_scarcity, Analysis.avg_project_cost,
  Analysis.percent_positive_satisfaction, Analysis.gini_of_satisfaction, Analysis.pstream, Analysis.blen,
  Analysis.bcost, Analysis.bprojs, sat_stream in *.

(* a statistic without a compound loop: everything unfolded, loops normalised, conditions split *)
Ltac py_stat :=
  timeout 40 solve [ py_open; py_unfold; py_model; py_unfold; rewrite ?sat_total_map; py_loops; py_cases; cbn [opt_rel];
          first [ py_arith
                | py_loops; py_cases; rewrite ?Qsum_map_filter; cbv beta; cbn [fst snd];
                  first [reflexivity | py_arith | py_sum_rel] ] ].

(* the mean of a stream built by a comprehension: the theorem about mean_generator is used, not its body *)
Ltac py_mean :=
  solve [ intros; py_model;
          repeat progress unfold gen_avg_satisfaction, gen_avg_ballot_length, gen_avg_ballot_cost,
            gen_avg_approval_score, gen_avg_total_score, gen_percent_non_empty_handed;
          py_unfold;
          first [ rewrite stream_map, gen_mean_generator_ok | rewrite gen_mean_generator_plain_ok ];
          unfold Analysis.mean_plain; reflexivity ].

(* ---------- votersatisfaction.py ---------- *)
Lemma gen_avg_satisfaction_ok : forall sc I P W,
  gen_avg_satisfaction I P W sc == Analysis.avg_satisfaction (sat_stream sc I P W).
Proof. first [ py_stat | py_mean ]. Qed.

(* percent_non_empty_handed = avg_satisfaction with the class CC_Sat *)
Lemma gen_percent_non_empty_handed_ok : forall cc I P W,
  gen_percent_non_empty_handed cc I P W == Analysis.avg_satisfaction (sat_stream cc I P W).
Proof. first [ py_stat | py_mean ]. Qed.

Lemma gen_percent_non_empty_handed_class : gen_percent_non_empty_handed_classes = ["CC_Sat"%string].
Proof. reflexivity. Qed.

(* percent_positive_satisfaction: None = ZeroDivisionError on an empty profile *)
Lemma gen_percent_positive_satisfaction_ok : forall sc I P W,
  opt_rel Qeq (if gen_percent_positive_satisfaction_safe I P W sc
               then Some (gen_percent_positive_satisfaction I P W sc) else None)
              (Analysis.percent_positive_satisfaction (sat_stream sc I P W)).
Proof. py_stat. Qed.

(* gini_coefficient_of_satisfaction (with and without `invert`): None = a negative satisfaction *)
Lemma gen_gini_coefficient_of_satisfaction_ok : forall sc I P W inv,
  opt_rel Qeq (gen_gini_coefficient_of_satisfaction I P W sc inv)
              (Analysis.gini_of_satisfaction (sat_stream sc I P W) inv).
Proof.
  first [ py_stat
        | timeout 60 solve [ intros; unfold gen_gini_coefficient_of_satisfaction, Analysis.gini_of_satisfaction, Analysis.expandQ, sat_stream;
                  py_unfold; first [ rewrite fold_collect_repeat | rewrite fold_collect ];
                  rewrite flat_map_map; cbn [fst snd app];
                  try (erewrite flat_map_ext by (intro; rewrite py_repeat_single; reflexivity));
                  match goal with |- context [gen_gini_coefficient ?L] =>
                    pose proof (gen_gini_coefficient_ok L) as Hg;
                    destruct (gen_gini_coefficient L), (Analysis.gini_coefficient L) end;
                  cbn [opt_rel] in *; try contradiction; py_cases; cbn [opt_rel]; try py_arith ] ].
Qed.

(* ---------- profileproperties.py ---------- *)
Lemma gen_avg_ballot_length_ok : forall I P, gen_avg_ballot_length I P == Analysis.avg_ballot_length P.
Proof. first [ py_stat | py_mean ]. Qed.
Lemma gen_avg_ballot_cost_ok : forall I P, gen_avg_ballot_cost I P == Analysis.avg_ballot_cost I P.
Proof. first [ py_stat | py_mean ]. Qed.
Lemma gen_avg_approval_score_ok : forall I P, gen_avg_approval_score I P == Analysis.avg_approval_score I P.
Proof. first [ py_stat | py_mean ]. Qed.
Lemma gen_avg_total_score_ok : forall I P, gen_avg_total_score I P == Analysis.avg_total_score I P.
Proof. first [ py_stat | py_mean ]. Qed.
(* the medians that hand a list to np.median: which list, and the guard for the empty instance; the value is the
   exact median (the library returns float(...) of it) *)
Lemma gen_median_approval_score_ok : forall I P, gen_median_approval_score I P == Analysis.median_approval_score I P.
Proof. py_stat. Qed.
Lemma gen_median_total_score_ok : forall I P, gen_median_total_score I P == Analysis.median_total_score I P.
Proof. py_stat. Qed.

(* ---------- instanceproperties.py ---------- *)
Lemma gen_sum_project_cost_ok : forall I, gen_sum_project_cost I == Analysis.sum_project_cost I.
Proof. py_stat. Qed.
(* None = ValueError (budget limit not positive) *)
Lemma gen_funding_scarcity_ok : forall I, opt_rel Qeq (gen_funding_scarcity I) (Analysis.funding_scarcity I).
Proof. py_stat. Qed.
(* None = ZeroDivisionError on an empty instance *)
Lemma gen_avg_project_cost_ok : forall I,
  opt_rel Qeq (if gen_avg_project_cost_safe I then Some (gen_avg_project_cost I) else None) (Analysis.avg_project_cost I).
Proof. py_stat. Qed.
Lemma gen_median_project_cost_ok : forall I, gen_median_project_cost I == Analysis.median_project_cost I.
Proof. py_stat. Qed.

(* ---------- no ZeroDivisionError beyond the two documented above ---------- *)
Ltac py_safe_mean :=
  solve [ intros; repeat progress unfold gen_avg_satisfaction_safe, gen_avg_ballot_length_safe,
            gen_avg_ballot_cost_safe, gen_avg_approval_score_safe, gen_avg_total_score_safe,
            gen_percent_non_empty_handed_safe;
          first [ apply gen_mean_generator_safe_ok | apply gen_mean_generator_plain_safe_ok ] ].
Lemma gen_avg_satisfaction_safe_ok : forall sc I P W, gen_avg_satisfaction_safe I P W sc = true.
Proof. first [ py_safe_mean | solve [py_open; py_safe] ]. Qed.
Lemma gen_percent_non_empty_handed_safe_ok : forall cc I P W, gen_percent_non_empty_handed_safe cc I P W = true.
Proof. first [ py_safe_mean | solve [py_open; py_safe] ]. Qed.
Lemma gen_avg_ballot_length_safe_ok : forall I P, gen_avg_ballot_length_safe I P = true.
Proof. first [ py_safe_mean | solve [py_open; py_safe] ]. Qed.
Lemma gen_avg_ballot_cost_safe_ok : forall I P, gen_avg_ballot_cost_safe I P = true.
Proof. first [ py_safe_mean | solve [py_open; py_safe] ]. Qed.
Lemma gen_avg_approval_score_safe_ok : forall I P, gen_avg_approval_score_safe I P = true.
Proof. first [ py_safe_mean | solve [py_open; py_safe] ]. Qed.
Lemma gen_avg_total_score_safe_ok : forall I P, gen_avg_total_score_safe I P = true.
Proof. first [ py_safe_mean | solve [py_open; py_safe] ]. Qed.
Lemma gen_funding_scarcity_safe_ok : forall I, gen_funding_scarcity_safe I = true.
Proof. py_open; py_safe. Qed.
Lemma gen_gini_coefficient_of_satisfaction_safe_ok : forall sc I P W inv,
  gen_gini_coefficient_of_satisfaction_safe I P W sc inv = true.
Proof.
  intros. unfold gen_gini_coefficient_of_satisfaction_safe. py_unfold.
  repeat match goal with
  | |- context [gen_gini_coefficient_safe ?L] => rewrite (gen_gini_coefficient_safe_ok L)
  | |- context [if ?c then _ else _] => destruct c
  | |- context [match ?c with Some _ => _ | None => _ end] => destruct c
  end; reflexivity.
Qed.

(* ---------- what is translated, what stays correspondence-only ---------- *)
Lemma gen_stats_all_translated : gen_untranslated_stats = [].
Proof. reflexivity. Qed.
(* numpy arrays filled by index, np.std, math.ceil: outside the fragment, checked by the C18 correspondence only *)
Lemma gen_correspondence_only_ok :
  gen_correspondence_only = ["gen_satisfaction_histogram"; "gen_median_ballot_length"; "gen_median_ballot_cost";
                             "gen_std_dev_project_cost"]%string.
Proof. reflexivity. Qed.
