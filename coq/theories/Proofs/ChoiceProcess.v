(* Proofs/ChoiceProcess.v -- the generic theorem behind C08.

   A *choice process* is what the three sequential rules have in common:
     [ties s]   the candidates tied for the round's optimum in state [s], in the order in which the code hands
                them to the tie-breaking sort (name order); [] = the run stops in [s]
     [next s c] the state after following candidate [c]
     [out s]    the allocation reported when the run stops in [s]
     [cid c]    the project a candidate stands for (candidates are projects for greedy / Phragmen, MESProject
                records for Equal Shares)
   The resolute rule follows the FIRST candidate of the stable sort of [ties s] by the tie-breaking key ([run]),
   the irresolute rule follows EVERY candidate, in that order, and collects the leaves ([branch]).

   Side condition ("a chosen project never re-enters a later tied set"), stated through the pool [avail s] of
   projects still to be decided:  tied candidates come from the pool, and the pool of [next s c] is contained in
   the pool of [s] minus [cid c].

   Theorems (for every fuel, every state satisfying the invariant):
     run_in_branch       the resolute outcome under ANY key is a leaf of the branching tree built with ANY key
     branch_in_orders    every leaf is the resolute outcome under the key [rank_in pi] of some permutation [pi] of
                         the universe of projects ("the selection order followed by the rest")
     leaves_eq_orders    the two together: leaves = { run under rank_in pi | pi permutation of the universe }
     branch_key_irrelevant  the SET of leaves does not depend on the key used to order the branches
     branch_total        enough fuel => the tree is finite (Some) *)
From PB Require Export Base.RankIn.
Open Scope Q_scope.

(* ---------- option-list concatenation ---------- *)
Fixpoint oconcat {A} (l : list (option (list A))) : option (list A) :=
  match l with
  | [] => Some []
  | None :: _ => None
  | Some a :: r => match oconcat r with Some b => Some (a ++ b) | None => None end
  end.

Lemma oconcat_In {A} (l : list (option (list A))) L x :
  oconcat l = Some L -> (In x L <-> exists ls, In (Some ls) l /\ In x ls).
Proof.
  revert L. induction l as [|o r IH]; intros L H; simpl in H.
  - injection H as <-. split; [intros []|intros [ls [[] _]]].
  - destruct o as [a|]; [|discriminate]. destruct (oconcat r) as [b|] eqn:E; [|discriminate].
    injection H as <-. rewrite in_app_iff, (IH b eq_refl). split.
    + intros [Hx|[ls [H1 H2]]]; [exists a; split; [left; reflexivity|exact Hx]|exists ls; split; [right; exact H1|exact H2]].
    + intros [ls [[E'|H1] H2]]; [left; congruence|right; exists ls; auto].
Qed.

Lemma oconcat_all_some {A} (l : list (option (list A))) L o :
  oconcat l = Some L -> In o l -> exists ls, o = Some ls.
Proof.
  revert L. induction l as [|o' r IH]; intros L H Hin; [destruct Hin|].
  simpl in H. destruct o' as [a|]; [|discriminate]. destruct (oconcat r) as [b|] eqn:E; [|discriminate].
  destruct Hin as [<-|Hin]; [exists a; reflexivity|]. eapply IH; [reflexivity|exact Hin].
Qed.

Lemma oconcat_total {A} (l : list (option (list A))) :
  (forall o, In o l -> exists ls, o = Some ls) -> exists L, oconcat l = Some L.
Proof.
  induction l as [|o r IH]; intros H; simpl; [eexists; reflexivity|].
  destruct (H o (or_introl eq_refl)) as [a ->].
  destruct IH as [b Hb]; [intros o' Ho'; apply H; right; exact Ho'|]. rewrite Hb. eexists; reflexivity.
Qed.

(* ---------- positions in a list; the key of a strict order ---------- *)
Lemma pos_in_app_notin p pre l : ~ In p pre -> pos_in p (pre ++ l) = (length pre + pos_in p l)%nat.
Proof.
  induction pre as [|x r IH]; intros Hn; simpl; [reflexivity|].
  destruct (Nat.eqb x p) eqn:E.
  - apply Nat.eqb_eq in E. subst. exfalso. apply Hn. left. reflexivity.
  - rewrite IH; [reflexivity|]. intros H. apply Hn. right. exact H.
Qed.

Lemma pos_in_head p l : pos_in p (p :: l) = O.
Proof. simpl. rewrite Nat.eqb_refl. reflexivity. Qed.

Lemma pos_in_other p q l : q <> p -> pos_in p (q :: l) = S (pos_in p l).
Proof. intros H. simpl. destruct (Nat.eqb q p) eqn:E; [apply Nat.eqb_eq in E; congruence|reflexivity]. Qed.

Lemma Qnat_lt a b : (a < b)%nat -> Qnat a < Qnat b.
Proof. intros H. unfold Qnat. rewrite <- Zlt_Qlt. apply Nat2Z.inj_lt. exact H. Qed.

(* in pre ++ p :: rest, p comes strictly before every q outside pre, q <> p *)
Lemma rank_in_first pre p rest q :
  ~ In p pre -> ~ In q pre -> q <> p ->
  rank_in (pre ++ p :: rest) p < rank_in (pre ++ p :: rest) q.
Proof.
  intros Hp Hq Hne. unfold rank_in. apply Qnat_lt.
  rewrite !pos_in_app_notin by assumption. rewrite pos_in_head, pos_in_other by (intro; apply Hne; congruence). lia.
Qed.

(* ---------- the first element of a stable sort ---------- *)
Section SortHead.
Variables (A : Type) (leb : A -> A -> bool).
Hypothesis leb_total : forall x y, leb x y = true \/ leb y x = true.
Hypothesis leb_trans : forall x y z, leb x y = true -> leb y z = true -> leb x z = true.

Lemma isort_head_strict_min l c :
  In c l -> (forall d, In d l -> d = c \/ leb d c = false) ->
  exists t, isort leb l = c :: t.
Proof.
  intros Hc Hmin.
  pose proof (isort_sorted leb leb_total leb_trans l) as Hs.
  assert (Hc' : In c (isort leb l)) by (apply isort_In; exact Hc).
  destruct (isort leb l) as [|h t] eqn:E; [destruct Hc'|].
  exists t. f_equal.
  assert (Hh : In h l) by (apply (isort_In leb l); rewrite E; left; reflexivity).
  destruct Hc' as [->|Hct]; [reflexivity|].
  inversion Hs as [|? ? _ Hall]; subst. rewrite Forall_forall in Hall. specialize (Hall c Hct).
  unfold lebP in Hall.
  destruct (Hmin h Hh) as [->|Hf]; [reflexivity|]. congruence.
Qed.
End SortHead.

(* ---------- the process ---------- *)
Section Choice.
Variables (S C R : Type).
Variable cid : C -> proj.
Variable ties : S -> list C.
Variable next : S -> C -> S.
Variable out : S -> R.

(* TieBreakingRule.order on the (name-sorted) tied list: stable sort on the key of the project *)
Definition corder (tb : proj -> Q) (l : list C) : list C :=
  isort (fun a b => Qleb (tb (cid a)) (tb (cid b))) l.

Fixpoint run (tb : proj -> Q) (fuel : nat) (s : S) : option R :=
  match ties s with
  | [] => Some (out s)
  | _ :: _ =>
      match fuel with
      | O => None
      | Datatypes.S f =>
          match corder tb (ties s) with
          | [] => None
          | c :: _ => run tb f (next s c)
          end
      end
  end.

Fixpoint branch (tb : proj -> Q) (fuel : nat) (s : S) : option (list R) :=
  match ties s with
  | [] => Some [out s]
  | _ :: _ =>
      match fuel with
      | O => None
      | Datatypes.S f => oconcat (map (fun c => branch tb f (next s c)) (corder tb (ties s)))
      end
  end.

Lemma run_unfold tb fuel s :
  run tb fuel s =
  match ties s with
  | [] => Some (out s)
  | _ :: _ => match fuel with
              | O => None
              | Datatypes.S f => match corder tb (ties s) with [] => None | c :: _ => run tb f (next s c) end
              end
  end.
Proof. destruct fuel; reflexivity. Qed.

Lemma branch_unfold tb fuel s :
  branch tb fuel s =
  match ties s with
  | [] => Some [out s]
  | _ :: _ => match fuel with
              | O => None
              | Datatypes.S f => oconcat (map (fun c => branch tb f (next s c)) (corder tb (ties s)))
              end
  end.
Proof. destruct fuel; reflexivity. Qed.

Lemma run_step tb f s c t :
  ties s <> [] -> corder tb (ties s) = c :: t -> run tb (Datatypes.S f) s = run tb f (next s c).
Proof. intros Hne Hc. simpl. destruct (ties s); [congruence|]. rewrite Hc. reflexivity. Qed.

Lemma run_leaf tb fuel s : ties s = [] -> run tb fuel s = Some (out s).
Proof. intros E. destruct fuel; simpl; rewrite E; reflexivity. Qed.

Lemma corder_In tb l c : In c (corder tb l) <-> In c l.
Proof. apply isort_In. Qed.

Lemma keyleb_total (tb : proj -> Q) (a b : C) :
  Qleb (tb (cid a)) (tb (cid b)) = true \/ Qleb (tb (cid b)) (tb (cid a)) = true.
Proof.
  rewrite !Qleb_iff. destruct (Qlt_le_dec (tb (cid a)) (tb (cid b))) as [H|H]; [left; apply Qlt_le_weak; exact H|right; exact H].
Qed.

Lemma keyleb_trans (tb : proj -> Q) (a b c : C) :
  Qleb (tb (cid a)) (tb (cid b)) = true -> Qleb (tb (cid b)) (tb (cid c)) = true ->
  Qleb (tb (cid a)) (tb (cid c)) = true.
Proof. rewrite !Qleb_iff. apply Qle_trans. Qed.

(* ----- the resolute outcome under any key is a leaf (no side condition needed) ----- *)
Theorem run_in_branch tb tb0 : forall fuel s X L,
  run tb fuel s = Some X -> branch tb0 fuel s = Some L -> In X L.
Proof.
  induction fuel as [|f IH]; intros s X L Hr Hb; simpl in Hr, Hb.
  - destruct (ties s); [|discriminate]. injection Hr as <-. injection Hb as <-. left. reflexivity.
  - destruct (ties s) as [|c0 r] eqn:Et.
    + injection Hr as <-. injection Hb as <-. left. reflexivity.
    + rewrite <- Et in *.
      destruct (corder tb (ties s)) as [|c t] eqn:Ec; [discriminate|].
      assert (Hc : In c (corder tb0 (ties s))).
      { apply corder_In. apply (corder_In tb). rewrite Ec. left. reflexivity. }
      assert (Hin : In (branch tb0 f (next s c)) (map (fun c => branch tb0 f (next s c)) (corder tb0 (ties s)))).
      { apply in_map_iff. exists c. split; [reflexivity|exact Hc]. }
      destruct (oconcat_all_some _ _ _ Hb Hin) as [ls Hls].
      apply (oconcat_In _ _ X Hb). exists ls. split; [rewrite <- Hls; exact Hin|].
      eapply IH; [exact Hr|exact Hls].
Qed.

(* ----- side condition ----- *)
Variable Inv : S -> Prop.
Variable avail : S -> list proj.
Hypothesis inv_next : forall s c, Inv s -> In c (ties s) -> Inv (next s c).
Hypothesis ties_avail : forall s c, Inv s -> In c (ties s) -> In (cid c) (avail s).
Hypothesis ties_inj : forall s, Inv s -> NoDup (map cid (ties s)).
Hypothesis chosen_gone : forall s c q, Inv s -> In c (ties s) ->
  In q (avail (next s c)) -> In q (avail s) /\ q <> cid c.

(* c is first under a key that puts cid c strictly before the other tied projects *)
Lemma corder_head_first tb s c :
  Inv s -> In c (ties s) ->
  (forall d, In d (ties s) -> cid d <> cid c -> tb (cid c) < tb (cid d)) ->
  exists t, corder tb (ties s) = c :: t.
Proof.
  intros Hi Hc Hlt. unfold corder.
  apply isort_head_strict_min; [apply keyleb_total|apply keyleb_trans|exact Hc|].
  intros d Hd. destruct (Nat.eq_dec (cid d) (cid c)) as [E|Hne].
  - left.
    (* cid injective on ties s *)
    pose proof (ties_inj s Hi) as Hnd. clear - Hnd Hd Hc E.
    induction (ties s) as [|x r IH]; [destruct Hd|].
    simpl in Hnd. inversion Hnd as [|? ? Hx Hr]; subst.
    destruct Hd as [->|Hd], Hc as [->|Hc]; try reflexivity.
    + exfalso. apply Hx. rewrite E. apply in_map. exact Hc.
    + exfalso. apply Hx. rewrite <- E. apply in_map. exact Hd.
    + apply IH; assumption.
  - right. apply Qleb_false_iff. apply Hlt; assumption.
Qed.

(* ----- every leaf is the outcome of a strict order: the selection order, then anything ----- *)
Lemma branch_path tb0 : forall fuel s X L,
  Inv s -> branch tb0 fuel s = Some L -> In X L ->
  exists path, NoDup path /\ incl path (avail s) /\
    forall pre rest, (forall q, In q pre -> ~ In q (avail s)) ->
      run (rank_in (pre ++ path ++ rest)) fuel s = Some X.
Proof.
  induction fuel as [|f IH]; intros s X L Hi Hb HX; simpl in Hb.
  - destruct (ties s) eqn:Et; [|discriminate]. injection Hb as <-. destruct HX as [<-|[]].
    exists []. split; [constructor|]. split; [intros x []|]. intros pre rest _. apply run_leaf. exact Et.
  - destruct (ties s) as [|c0 r] eqn:Et.
    + injection Hb as <-. destruct HX as [<-|[]].
      exists []. split; [constructor|]. split; [intros x []|]. intros pre rest _. apply run_leaf. exact Et.
    + rewrite <- Et in *.
      apply (oconcat_In _ _ X Hb) in HX. destruct HX as [ls [Hls HX]].
      apply in_map_iff in Hls. destruct Hls as [c [Hbc Hc]]. apply corder_In in Hc.
      destruct (IH (next s c) X ls (inv_next s c Hi Hc) Hbc HX) as [path [Hnd [Hincl Hrun]]].
      exists (cid c :: path). split; [|split].
      * constructor; [|exact Hnd]. intros Hin. apply Hincl in Hin.
        destruct (chosen_gone s c (cid c) Hi Hc Hin) as [_ Hne]. apply Hne. reflexivity.
      * intros q [<-|Hq]; [apply ties_avail; assumption|].
        apply Hincl in Hq. apply (chosen_gone s c q Hi Hc Hq).
      * intros pre rest Hpre.
        assert (Hcp : ~ In (cid c) pre).
        { intros H. apply (Hpre _ H). apply ties_avail; assumption. }
        destruct (corder_head_first (rank_in (pre ++ (cid c :: path) ++ rest)) s c Hi Hc) as [t Ht].
        { intros d Hd Hne. apply rank_in_first; [exact Hcp| |exact Hne].
          intros H. apply (Hpre _ H). apply ties_avail; assumption. }
        rewrite (run_step _ f s c t) by (try exact Ht; rewrite Et; discriminate).
        replace (pre ++ (cid c :: path) ++ rest) with ((pre ++ [cid c]) ++ path ++ rest)
          by (rewrite <- app_assoc; reflexivity).
        apply Hrun. intros q Hq Hav. apply in_app_iff in Hq. destruct Hq as [Hq|[<-|[]]].
        -- apply (Hpre q Hq). apply (chosen_gone s c q Hi Hc Hav).
        -- destruct (chosen_gone s c (cid c) Hi Hc Hav) as [_ Hne]. apply Hne. reflexivity.
Qed.

(* completing a duplicate-free list of projects of the universe to a permutation of the universe *)
Definition rest_of (path univ : list proj) : list proj := filter (fun q => negb (memb q path)) univ.

Lemma path_rest_perm path univ :
  NoDup path -> NoDup univ -> incl path univ -> Permutation (path ++ rest_of path univ) univ.
Proof.
  intros Hp Hu Hi. apply NoDup_Permutation.
  - apply NoDup_app_intro; [exact Hp|apply NoDup_filter; exact Hu|].
    intros x H1 H2. unfold rest_of in H2. apply filter_In in H2. destruct H2 as [_ H2].
    apply negb_true_iff, memb_false_In in H2. contradiction.
  - exact Hu.
  - intros x. rewrite in_app_iff. unfold rest_of. rewrite filter_In, negb_true_iff, memb_false_In. split.
    + intros [H|[H _]]; [apply Hi; exact H|exact H].
    + intros H. destruct (in_dec Nat.eq_dec x path) as [Hin|Hn]; [left; exact Hin|right; split; assumption].
Qed.

Variable univ : list proj.
Hypothesis univ_nodup : NoDup univ.

Theorem branch_in_orders tb0 fuel s X L :
  Inv s -> incl (avail s) univ -> branch tb0 fuel s = Some L -> In X L ->
  exists pi, Permutation pi univ /\ run (rank_in pi) fuel s = Some X.
Proof.
  intros Hi Hu Hb HX.
  destruct (branch_path tb0 fuel s X L Hi Hb HX) as [path [Hnd [Hincl Hrun]]].
  exists (path ++ rest_of path univ). split.
  - apply path_rest_perm; [exact Hnd|exact univ_nodup|]. intros x Hx. apply Hu, Hincl, Hx.
  - apply (Hrun [] (rest_of path univ)). intros q [].
Qed.

(* the theorem of DESIGN.md A.5 *)
Theorem leaves_eq_orders tb0 fuel s L :
  Inv s -> incl (avail s) univ -> branch tb0 fuel s = Some L ->
  forall X, In X L <-> exists pi, Permutation pi univ /\ run (rank_in pi) fuel s = Some X.
Proof.
  intros Hi Hu Hb X. split.
  - apply (branch_in_orders tb0 fuel s X L); assumption.
  - intros [pi [_ Hr]]. eapply (run_in_branch (rank_in pi) tb0); eassumption.
Qed.

(* the set of leaves does not depend on the key that orders the branches *)
Theorem branch_key_irrelevant tb0 tb1 fuel s L0 L1 :
  Inv s -> incl (avail s) univ -> branch tb0 fuel s = Some L0 -> branch tb1 fuel s = Some L1 ->
  forall X, In X L0 <-> In X L1.
Proof.
  intros Hi Hu H0 H1 X.
  rewrite (leaves_eq_orders tb0 fuel s L0 Hi Hu H0), (leaves_eq_orders tb1 fuel s L1 Hi Hu H1). reflexivity.
Qed.

(* ----- totality: the pool shrinks, so [length (avail s)] rounds of fuel suffice ----- *)
Hypothesis avail_nodup : forall s, Inv s -> NoDup (avail s).

Lemma avail_shrinks s c : Inv s -> In c (ties s) -> (length (avail (next s c)) < length (avail s))%nat.
Proof.
  intros Hi Hc.
  assert (Hnd : NoDup (cid c :: avail (next s c))).
  { constructor; [|apply avail_nodup, inv_next; assumption].
    intros H. destruct (chosen_gone s c (cid c) Hi Hc H) as [_ Hne]. apply Hne. reflexivity. }
  assert (Hincl : incl (cid c :: avail (next s c)) (avail s)).
  { intros q [<-|Hq]; [apply ties_avail; assumption|apply (chosen_gone s c q Hi Hc Hq)]. }
  pose proof (NoDup_incl_length Hnd Hincl) as H. simpl in H. lia.
Qed.

Theorem branch_total tb : forall fuel s,
  Inv s -> (length (avail s) <= fuel)%nat -> exists L, branch tb fuel s = Some L /\ L <> [].
Proof.
  induction fuel as [|f IH]; intros s Hi Hlen; simpl.
  - destruct (ties s) as [|c r] eqn:Et; [eexists; split; [reflexivity|discriminate]|].
    exfalso. assert (Hc : In c (ties s)) by (rewrite Et; left; reflexivity).
    pose proof (avail_shrinks s c Hi Hc). lia.
  - destruct (ties s) as [|c0 r] eqn:Et; [eexists; split; [reflexivity|discriminate]|].
    rewrite <- Et.
    assert (Hall : forall c, In c (ties s) -> exists ls, branch tb f (next s c) = Some ls /\ ls <> []).
    { intros c Hc. apply IH; [apply inv_next; assumption|].
      pose proof (avail_shrinks s c Hi Hc). lia. }
    destruct (oconcat_total (map (fun c => branch tb f (next s c)) (corder tb (ties s)))) as [L HL].
    { intros o Ho. apply in_map_iff in Ho. destruct Ho as [c [<- Hc]]. apply corder_In in Hc.
      destruct (Hall c Hc) as [ls [H _]]. exists ls. exact H. }
    exists L. split; [exact HL|].
    (* the first branch contributes a leaf *)
    assert (Hc0 : In c0 (corder tb (ties s))) by (apply corder_In; rewrite Et; left; reflexivity).
    destruct (Hall c0 (proj1 (corder_In tb (ties s) c0) Hc0)) as [ls [Hls Hne]].
    destruct ls as [|x ls']; [congruence|].
    intros E. assert (Hx : In x L).
    { apply (oconcat_In _ _ x HL). exists (x :: ls'). split; [|left; reflexivity].
      apply in_map_iff. exists c0. split; [exact Hls|exact Hc0]. }
    rewrite E in Hx. exact Hx.
Qed.

Theorem run_total tb : forall fuel s,
  Inv s -> (length (avail s) <= fuel)%nat -> exists X, run tb fuel s = Some X.
Proof.
  induction fuel as [|f IH]; intros s Hi Hlen; simpl.
  - destruct (ties s) as [|c r] eqn:Et; [eexists; reflexivity|].
    exfalso. assert (Hc : In c (ties s)) by (rewrite Et; left; reflexivity).
    pose proof (avail_shrinks s c Hi Hc). lia.
  - destruct (ties s) as [|c0 r] eqn:Et; [eexists; reflexivity|]. rewrite <- Et.
    destruct (corder tb (ties s)) as [|c t] eqn:Ec.
    + exfalso. assert (H : In c0 (corder tb (ties s))) by (apply corder_In; rewrite Et; left; reflexivity).
      rewrite Ec in H. exact H.
    + assert (Hc : In c (ties s)) by (apply (corder_In tb); rewrite Ec; left; reflexivity).
      apply IH; [apply inv_next; assumption|]. pose proof (avail_shrinks s c Hi Hc). lia.
Qed.

End Choice.

Arguments corder {C} cid tb l.
Arguments run {S C R} cid ties next out tb fuel s.
Arguments branch {S C R} cid ties next out tb fuel s.
