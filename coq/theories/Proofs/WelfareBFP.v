(* Proofs/WelfareBFP.v -- the brute-force welfare oracle of Oracle/C04.v ([bf_max], [bf_optima]) is
   the true maximum over ALL feasible allocations containing the initial allocation (projects in any
   order), and [bf_optima] lists every optimum exactly once (also as a set). *)
From PB Require Import Oracle.C04 Proofs.InstanceP.
Open Scope Q_scope.

(* ---------- welfare ---------- *)

Lemma welfare_perm : forall score W W', Permutation W W' -> welfare score W == welfare score W'.
Proof.
  intros score W W' H. unfold welfare. apply Qsum_perm_proper. apply Permutation_map. exact H.
Qed.

Lemma welfare_app : forall score W1 W2,
  welfare score (W1 ++ W2) == welfare score W1 + welfare score W2.
Proof. intros. unfold welfare. rewrite map_app. apply Qsum_app. Qed.

(* ---------- Qmax_opt ---------- *)

Lemma Qmax_opt_spec : forall l,
  match Qmax_opt l with
  | None => l = []
  | Some m => (exists x, In x l /\ x == m) /\ (forall x, In x l -> x <= m)
  end.
Proof.
  induction l as [|x r IH]; simpl; [reflexivity|].
  destruct (Qmax_opt r) as [m|].
  - destruct IH as [[y [Hy Ey]] Hub]. destruct (Qleb m x) eqn:E.
    + apply Qleb_iff in E. split.
      * exists x. split; [left; reflexivity|reflexivity].
      * intros z [<-|Hz]; [apply Qle_refl|]. apply Qle_trans with m; [apply Hub; exact Hz|exact E].
    + apply Qleb_false_iff in E. split.
      * exists y. split; [right; exact Hy|exact Ey].
      * intros z [<-|Hz]; [apply Qlt_le_weak; exact E|apply Hub; exact Hz].
  - subst r. split.
    + exists x. split; [left; reflexivity|reflexivity].
    + intros z [<-|[]]. apply Qle_refl.
Qed.

Lemma Qmax_opt_some : forall l, l <> [] -> exists m, Qmax_opt l = Some m.
Proof.
  intros [|x r] H; [congruence|]. simpl. destruct (Qmax_opt r); eexists; reflexivity.
Qed.

(* ---------- sublists ---------- *)

Lemma filter_sublist_stronger (f g : nat -> bool) l :
  (forall x, f x = true -> g x = true) -> sublist (filter f l) (filter g l).
Proof.
  intros H. induction l as [|x l IH]; simpl; [constructor|].
  destruct (f x) eqn:Ef.
  - rewrite (H x Ef). apply sl_take. exact IH.
  - destruct (g x); [apply sl_skip|]; exact IH.
Qed.

Lemma sublist_NoDup A (s l : list A) : sublist s l -> NoDup l -> NoDup s.
Proof.
  induction 1 as [|x s l Hs IH|x s l Hs IH]; intros Hnd.
  - constructor.
  - inversion Hnd; subst. apply IH. assumption.
  - inversion Hnd as [|y l0 Hx Hl]; subst. constructor.
    + intros Hin. apply Hx. eapply sublist_In; eassumption.
    + apply IH. assumption.
Qed.

Lemma sublist_NoDup_eq A (l : list A) : NoDup l -> forall s1 s2,
  sublist s1 l -> sublist s2 l -> (forall x, In x s1 <-> In x s2) -> s1 = s2.
Proof.
  induction 1 as [|a l Ha Hnd IH]; intros s1 s2 H1 H2 Heq.
  - apply sublist_nil_inv in H1. apply sublist_nil_inv in H2. congruence.
  - inversion H1 as [|x1 t1 l1 H1'|x1 t1 l1 H1']; subst;
    inversion H2 as [|x2 t2 l2 H2'|x2 t2 l2 H2']; subst.
    + apply IH; assumption.
    + exfalso. apply Ha. apply (sublist_In _ H1'). apply Heq. left. reflexivity.
    + exfalso. apply Ha. apply (sublist_In _ H2'). apply Heq. left. reflexivity.
    + f_equal. apply IH; try assumption. intros x. split; intros Hx.
      * destruct (proj1 (Heq x) (or_intror Hx)) as [<-|Hx']; [|exact Hx'].
        exfalso. apply Ha. apply (sublist_In _ H1'). exact Hx.
      * destruct (proj2 (Heq x) (or_intror Hx)) as [<-|Hx']; [|exact Hx'].
        exfalso. apply Ha. apply (sublist_In _ H2'). exact Hx.
Qed.

(* ---------- rest_projects / candidates ---------- *)

Lemma rest_projects_In I init p :
  In p (rest_projects I init) <-> (p < nproj I)%nat /\ ~ In p init.
Proof.
  unfold rest_projects, all_projects. rewrite filter_In, in_seq, negb_true_iff, memb_false_In.
  split; intros [H1 H2]; split; try assumption; lia.
Qed.

Lemma rest_projects_NoDup I init : NoDup (rest_projects I init).
Proof. unfold rest_projects, all_projects. apply NoDup_filter. apply seq_NoDup. Qed.

Lemma candidates_In I init W :
  In W (candidates I init) <-> exists S, W = init ++ S /\ sublist S (rest_projects I init).
Proof.
  unfold candidates. rewrite in_map_iff. split.
  - intros [S [<- HS]]. exists S. split; [reflexivity|]. apply powerset_spec. exact HS.
  - intros [S [-> HS]]. exists S. split; [reflexivity|]. apply powerset_spec. exact HS.
Qed.

Lemma feas_candidates_In I init W :
  In W (feas_candidates I init) <->
  (exists S, W = init ++ S /\ sublist S (rest_projects I init)) /\ tcost I W <= budget I.
Proof.
  unfold feas_candidates. rewrite filter_In, candidates_In, is_feasible_iff. tauto.
Qed.

Lemma feas_candidates_NoDup I init : NoDup (feas_candidates I init).
Proof.
  unfold feas_candidates, candidates. apply NoDup_filter.
  apply FinFun.Injective_map_NoDup.
  - intros a b E. apply app_inv_head in E. exact E.
  - apply powerset_NoDup. apply rest_projects_NoDup.
Qed.

(* ---------- normal form of an allocation extending [init] ---------- *)

Lemma extends_normal_form : forall I init W,
  NoDup init -> feasible I W -> incl init W ->
  exists S, sublist S (rest_projects I init) /\ Permutation W (init ++ S).
Proof.
  intros I init W Hinit [HndW [Hrng _]] Hincl.
  exists (filter (fun p => memb p W && negb (memb p init)) (all_projects I)).
  split.
  - unfold rest_projects. apply filter_sublist_stronger.
    intros x Hx. apply andb_true_iff in Hx. tauto.
  - apply NoDup_Permutation.
    + exact HndW.
    + apply NoDup_app_intro.
      * exact Hinit.
      * apply NoDup_filter. apply seq_NoDup.
      * intros x Hx1 Hx2. apply filter_In in Hx2. destruct Hx2 as [_ Hx2].
        apply andb_true_iff in Hx2. destruct Hx2 as [_ Hx2].
        apply negb_true_iff in Hx2. apply memb_false_In in Hx2. contradiction.
    + intros x. rewrite in_app_iff, filter_In. unfold all_projects.
      rewrite in_seq, andb_true_iff, negb_true_iff, memb_In, memb_false_In. split.
      * intros Hx. destruct (in_dec Nat.eq_dec x init) as [Hi|Hi]; [left; exact Hi|right].
        specialize (Hrng x Hx). repeat split; try assumption; lia.
      * intros [Hx|[_ [Hx _]]]; [apply Hincl; exact Hx|exact Hx].
Qed.

Lemma feas_candidates_sound : forall I init W,
  NoDup init -> (forall p, In p init -> (p < nproj I)%nat) ->
  In W (feas_candidates I init) -> feasible I W /\ incl init W.
Proof.
  intros I init W Hinit Hrng HW. apply feas_candidates_In in HW.
  destruct HW as [[S [-> HS]] Hc]. split.
  - split; [|split].
    + apply NoDup_app_intro.
      * exact Hinit.
      * eapply sublist_NoDup; [exact HS|apply rest_projects_NoDup].
      * intros x Hx1 Hx2. apply (sublist_In _ HS) in Hx2. apply rest_projects_In in Hx2.
        destruct Hx2 as [_ Hx2]. contradiction.
    + intros p Hp. apply in_app_iff in Hp. destruct Hp as [Hp|Hp]; [apply Hrng; exact Hp|].
      apply (sublist_In _ HS) in Hp. apply rest_projects_In in Hp. tauto.
    + exact Hc.
  - intros x Hx. apply in_app_iff. left. exact Hx.
Qed.

(* every feasible allocation containing [init] is a permutation of a listed candidate *)
Lemma feas_candidates_complete : forall I init W,
  NoDup init -> feasible I W -> incl init W ->
  exists W0, In W0 (feas_candidates I init) /\ Permutation W W0.
Proof.
  intros I init W Hinit HW Hincl.
  destruct (extends_normal_form I init W Hinit HW Hincl) as [S [HS HP]].
  exists (init ++ S). split; [|exact HP].
  apply feas_candidates_In. split.
  - exists S. split; [reflexivity|exact HS].
  - rewrite <- (tcost_perm I _ _ HP). apply HW.
Qed.

(* ---------- bf_max ---------- *)

Lemma bf_max_ge_candidates I score init m W :
  bf_max I score init = Some m -> In W (feas_candidates I init) -> welfare score W <= m.
Proof.
  unfold bf_max. intros Hm HW.
  pose proof (Qmax_opt_spec (map (welfare score) (feas_candidates I init))) as Hs.
  rewrite Hm in Hs. destruct Hs as [_ Hub]. apply Hub. apply in_map. exact HW.
Qed.

Theorem bf_max_upper : forall I score init W m,
  NoDup init -> feasible I W -> incl init W ->
  bf_max I score init = Some m -> welfare score W <= m.
Proof.
  intros I score init W m Hinit HW Hincl Hm.
  destruct (feas_candidates_complete I init W Hinit HW Hincl) as [W0 [HW0 HP]].
  rewrite (welfare_perm score _ _ HP). eapply bf_max_ge_candidates; eassumption.
Qed.

Theorem bf_max_attained : forall I score init m,
  bf_max I score init = Some m ->
  exists W, In W (feas_candidates I init) /\ welfare score W == m.
Proof.
  unfold bf_max. intros I score init m Hm.
  pose proof (Qmax_opt_spec (map (welfare score) (feas_candidates I init))) as Hs.
  rewrite Hm in Hs. destruct Hs as [[x [Hx Ex]] _].
  apply in_map_iff in Hx. destruct Hx as [W [<- HW]]. exists W. split; assumption.
Qed.

Theorem bf_max_defined : forall I score init,
  NoDup init -> (forall p, In p init -> (p < nproj I)%nat) -> tcost I init <= budget I ->
  exists m, bf_max I score init = Some m.
Proof.
  intros I score init Hinit Hrng Hc. unfold bf_max. apply Qmax_opt_some.
  assert (Hin : In init (feas_candidates I init)).
  { apply feas_candidates_In. split; [|exact Hc].
    exists []. split; [symmetry; apply app_nil_r|apply sublist_nil_l]. }
  intros E. apply (in_map (welfare score)) in Hin. rewrite E in Hin. exact Hin.
Qed.

(* ---------- bf_optima ---------- *)

Theorem bf_optima_spec : forall I score init m,
  bf_max I score init = Some m ->
  forall W, In W (bf_optima I score init) <->
            In W (feas_candidates I init) /\ welfare score W == m.
Proof.
  intros I score init m Hm W. unfold bf_optima. rewrite Hm, filter_In, Qeqb_iff. tauto.
Qed.

Lemma bf_max_some_of_candidate I score init W :
  In W (feas_candidates I init) -> exists m, bf_max I score init = Some m.
Proof.
  intros Hin. unfold bf_max. apply Qmax_opt_some.
  intros E. apply (in_map (welfare score)) in Hin. rewrite E in Hin. exact Hin.
Qed.

Theorem bf_optima_complete : forall I score init W,
  NoDup init -> feasible I W -> incl init W ->
  (forall W', feasible I W' -> incl init W' -> welfare score W' <= welfare score W) ->
  exists W0, In W0 (bf_optima I score init) /\ Permutation W W0.
Proof.
  intros I score init W Hinit HW Hincl Hopt.
  assert (Hrng : forall p, In p init -> (p < nproj I)%nat).
  { intros p Hp. apply HW. apply Hincl. exact Hp. }
  destruct (feas_candidates_complete I init W Hinit HW Hincl) as [W0 [HW0 HP]].
  destruct (bf_max_some_of_candidate I score init W0 HW0) as [m Hm].
  exists W0. split; [|exact HP].
  apply (bf_optima_spec I score init m Hm). split; [exact HW0|].
  rewrite <- (welfare_perm score _ _ HP).
  apply Qle_antisym.
  - eapply bf_max_upper; eassumption.
  - destruct (bf_max_attained I score init m Hm) as [W1 [HW1 E1]]. rewrite <- E1.
    destruct (feas_candidates_sound I init W1 Hinit Hrng HW1) as [F1 I1]. apply Hopt; assumption.
Qed.

Theorem bf_optima_sound : forall I score init W0,
  NoDup init -> (forall p, In p init -> (p < nproj I)%nat) ->
  In W0 (bf_optima I score init) ->
  feasible I W0 /\ incl init W0 /\
  forall W', feasible I W' -> incl init W' -> welfare score W' <= welfare score W0.
Proof.
  intros I score init W0 Hinit Hrng HW0.
  destruct (bf_max I score init) as [m|] eqn:Hm.
  - apply (bf_optima_spec I score init m Hm) in HW0. destruct HW0 as [HW0 E0].
    destruct (feas_candidates_sound I init W0 Hinit Hrng HW0) as [F0 I0].
    split; [exact F0|split; [exact I0|]].
    intros W' F' I'. rewrite E0. eapply bf_max_upper; eassumption.
  - unfold bf_optima in HW0. rewrite Hm in HW0. destruct HW0.
Qed.

Lemma bf_optima_incl I score init W :
  In W (bf_optima I score init) -> In W (feas_candidates I init).
Proof.
  unfold bf_optima. destruct (bf_max I score init); [|intros []].
  intros H. apply filter_In in H. tauto.
Qed.

Theorem bf_optima_distinct : forall I score init,
  NoDup init ->
  NoDup (bf_optima I score init) /\
  forall W1 W2, In W1 (bf_optima I score init) -> In W2 (bf_optima I score init) ->
                Permutation W1 W2 -> W1 = W2.
Proof.
  intros I score init Hinit. split.
  - unfold bf_optima. destruct (bf_max I score init); [|constructor].
    apply NoDup_filter. apply feas_candidates_NoDup.
  - intros W1 W2 H1 H2 HP.
    apply bf_optima_incl, feas_candidates_In in H1. destruct H1 as [[S1 [-> HS1]] _].
    apply bf_optima_incl, feas_candidates_In in H2. destruct H2 as [[S2 [-> HS2]] _].
    apply Permutation_app_inv_l in HP. f_equal.
    apply (sublist_NoDup_eq _ _ (rest_projects_NoDup I init) S1 S2 HS1 HS2).
    intros x. split; intros Hx.
    + eapply Permutation_in; [exact HP|exact Hx].
    + eapply Permutation_in; [apply Permutation_sym; exact HP|exact Hx].
Qed.
