(* Proofs/PriceabilityP.v -- proofs about Model/Priceability.v (property C12). *)
From PB Require Import Model.Priceability.
From PB Require Import Generated.Anchors.
From Coq Require Import Qround Qabs.
Open Scope Q_scope.

(* ================================================================================================ *)
(* sums *)

Lemma Qsum_map_ext {A} (f g : A -> Q) l :
  (forall a, In a l -> f a == g a) -> Qsum (map f l) == Qsum (map g l).
Proof.
  induction l as [|a l IH]; simpl; intros H; [reflexivity|].
  rewrite (H a) by (left; reflexivity). rewrite IH; [reflexivity|].
  intros a' Ha'. apply H. right. exact Ha'.
Qed.

Lemma Qsum_map_plus {A} (f g : A -> Q) l :
  Qsum (map (fun a => f a + g a) l) == Qsum (map f l) + Qsum (map g l).
Proof. induction l as [|a l IH]; simpl; [ring|rewrite IH; ring]. Qed.

Lemma Qsum_map_scale {A} (k : Q) (f : A -> Q) l :
  Qsum (map (fun a => k * f a) l) == k * Qsum (map f l).
Proof. induction l as [|a l IH]; simpl; [ring|rewrite IH; ring]. Qed.

Lemma Qsum_map_zero {A} (f : A -> Q) l : (forall a, In a l -> f a == 0) -> Qsum (map f l) == 0.
Proof.
  induction l as [|a l IH]; simpl; intros H; [reflexivity|].
  rewrite (H a) by (left; reflexivity). rewrite IH; [ring|]. intros; apply H; right; assumption.
Qed.

Lemma Qsum_map_le {A} (f g : A -> Q) l :
  (forall a, In a l -> f a <= g a) -> Qsum (map f l) <= Qsum (map g l).
Proof.
  induction l as [|a l IH]; simpl; intros H; [apply Qle_refl|].
  apply Qplus_le_compat; [apply H; left; reflexivity|apply IH; intros; apply H; right; assumption].
Qed.

Lemma Qsum_map_nonneg {A} (f : A -> Q) l : (forall a, In a l -> 0 <= f a) -> 0 <= Qsum (map f l).
Proof.
  intros H. apply Qsum_nonneg. rewrite Forall_forall. intros x Hx.
  apply in_map_iff in Hx. destruct Hx as [a [<- Ha]]. apply H. exact Ha.
Qed.

Lemma Qsum_map_ge_term {A} (f : A -> Q) l a :
  (forall a, In a l -> 0 <= f a) -> In a l -> f a <= Qsum (map f l).
Proof.
  induction l as [|a0 l IH]; simpl; intros Hnn Hin; [contradiction|].
  assert (H0 : 0 <= f a0) by (apply Hnn; left; reflexivity).
  assert (Hr : 0 <= Qsum (map f l)) by (apply Qsum_map_nonneg; intros; apply Hnn; right; assumption).
  destruct Hin as [->|Hin].
  - lra.
  - assert (f a <= Qsum (map f l)) by (apply IH; [intros; apply Hnn; right; assumption|exact Hin]). lra.
Qed.

Lemma Qsum_flat_map {A B} (f : B -> Q) (g : A -> list B) l :
  Qsum (map f (flat_map g l)) == Qsum (map (fun a => Qsum (map f (g a))) l).
Proof.
  induction l as [|a l IH]; simpl; [reflexivity|].
  rewrite map_app, Qsum_app, IH. reflexivity.
Qed.

Lemma Qsum_map_bound {A} (f : A -> Q) l M :
  (forall a, In a l -> f a <= M) -> Qsum (map f l) <= Qnat (length l) * M.
Proof.
  induction l as [|a l IH]; intros H.
  - change (0 <= 0 * M). lra.
  - assert (Ha : f a <= M) by (apply H; left; reflexivity).
    assert (Hl : Qsum (map f l) <= Qnat (length l) * M) by (apply IH; intros; apply H; right; assumption).
    change (f a + Qsum (map f l) <= Qnat (S (length l)) * M).
    unfold Qnat in *. rewrite Nat2Z.inj_succ. unfold Z.succ. rewrite inject_Z_plus. change (inject_Z 1) with 1.
    set (k := inject_Z (Z.of_nat (length l))) in *. setoid_replace ((k + 1) * M) with (k * M + M) by ring. lra.
Qed.

Lemma Qnat_le n k : (n <= k)%nat -> Qnat n <= Qnat k.
Proof. intros H. unfold Qnat. rewrite <- Zle_Qle. lia. Qed.

Lemma Qnat_nonneg n : 0 <= Qnat n.
Proof. unfold Qnat. change 0 with (inject_Z 0). rewrite <- Zle_Qle. lia. Qed.

(* fold_left Qmax *)
Lemma fold_Qmax_ge_init l : forall x, x <= fold_left Qmax l x.
Proof.
  induction l as [|y l IH]; intros x; simpl; [apply Qle_refl|].
  eapply Qle_trans; [apply Q.le_max_l|apply IH].
Qed.

Lemma fold_Qmax_ge_in l : forall x y, In y l -> y <= fold_left Qmax l x.
Proof.
  induction l as [|z l IH]; intros x y Hin; simpl; [contradiction|].
  destruct Hin as [->|Hin].
  - eapply Qle_trans; [apply Q.le_max_r|apply fold_Qmax_ge_init].
  - apply IH. exact Hin.
Qed.

Lemma fold_Qmax_le l M : forall x, x <= M -> (forall y, In y l -> y <= M) -> fold_left Qmax l x <= M.
Proof.
  induction l as [|z l IH]; intros x Hx H; simpl; [exact Hx|].
  apply IH.
  - apply Q.max_lub; [exact Hx|apply H; left; reflexivity].
  - intros y Hy. apply H. right. exact Hy.
Qed.

(* ================================================================================================ *)
(* Farkas certificates: generic soundness *)
Section LinP.
  Variable V : Type.
  Variable veqb : V -> V -> bool.
  Hypothesis veqb_eq : forall u v, veqb u v = true <-> u = v.

  Lemma den_cons (x : V -> Q) qv e : den x (qv :: e) == fst qv * x (snd qv) + den x e.
  Proof. reflexivity. Qed.

  Lemma den_app (x : V -> Q) e1 e2 : den x (e1 ++ e2) == den x e1 + den x e2.
  Proof. unfold den. rewrite map_app. apply Qsum_app. Qed.

  Lemma den_lscale (x : V -> Q) y e : den x (lscale y e) == y * den x e.
  Proof.
    unfold den, lscale. rewrite map_map. simpl.
    rewrite <- Qsum_map_scale. apply Qsum_map_ext. intros a _. ring.
  Qed.

  Lemma den_flat_map {B} (x : V -> Q) (g : B -> lin V) l :
    den x (flat_map g l) == Qsum (map (fun a => den x (g a)) l).
  Proof. unfold den. apply Qsum_flat_map. Qed.

  Lemma memv_In v l : memv veqb v l = true <-> In v l.
  Proof.
    unfold memv. rewrite existsb_exists. split.
    - intros [u [Hu E]]. apply veqb_eq in E. subst. exact Hu.
    - intros H. exists v. split; [exact H|]. apply veqb_eq. reflexivity.
  Qed.

  Lemma nodupv_NoDup l : nodupv veqb l = true -> NoDup l.
  Proof.
    induction l as [|v l IH]; simpl; intros H; [constructor|].
    apply andb_true_iff in H. destruct H as [H1 H2]. constructor.
    - intros Hin. apply memv_In in Hin. rewrite Hin in H1. discriminate.
    - apply IH. exact H2.
  Qed.

  Lemma veqb_false u v : u <> v -> veqb u v = false.
  Proof. intros H. destruct (veqb u v) eqn:E; [|reflexivity]. apply veqb_eq in E. contradiction. Qed.

  Lemma delta_absent (x : V -> Q) q u l :
    ~ In u l -> Qsum (map (fun v => (if veqb v u then q else 0) * x v) l) == 0.
  Proof.
    intros H. apply Qsum_map_zero. intros v Hv.
    rewrite veqb_false; [ring|]. intros ->. contradiction.
  Qed.

  Lemma delta_present (x : V -> Q) q u l :
    NoDup l -> In u l -> Qsum (map (fun v => (if veqb v u then q else 0) * x v) l) == q * x u.
  Proof.
    induction l as [|v l IH]; intros Hnd Hin; [contradiction|].
    inversion Hnd as [|v' l' Hv Hl]; subst. simpl.
    destruct Hin as [->|Hin].
    - assert (E : veqb u u = true) by (apply veqb_eq; reflexivity). rewrite E.
      rewrite delta_absent by exact Hv. ring.
    - rewrite veqb_false by (intros ->; contradiction).
      rewrite IH by assumption. ring.
  Qed.

  Lemma den_coef (x : V -> Q) vars e :
    NoDup vars -> (forall t, In t e -> In (snd t) vars) ->
    den x e == Qsum (map (fun v => coef veqb e v * x v) vars).
  Proof.
    intros Hnd. induction e as [|[q u] e IH]; intros Hin.
    - unfold den, coef. simpl. symmetry. apply Qsum_map_zero. intros; ring.
    - rewrite den_cons. simpl fst. simpl snd.
      rewrite IH by (intros t Ht; apply Hin; right; exact Ht).
      rewrite <- (delta_present x q u vars Hnd) by (apply (Hin (q, u)); left; reflexivity).
      rewrite <- Qsum_map_plus. apply Qsum_map_ext. intros v _.
      unfold coef. simpl. ring.
  Qed.

  Lemma ycomb_le (x : V -> Q) rows : forall ys,
    sat x rows -> forallb (Qleb 0) ys = true -> den x (ycomb ys rows) <= yrhs ys rows.
  Proof.
    induction rows as [|r rows IH]; intros [|y ys] Hsat Hy; simpl; try apply Qle_refl.
    simpl in Hy. apply andb_true_iff in Hy. destruct Hy as [Hy0 Hy].
    apply Qleb_iff in Hy0.
    rewrite den_app, den_lscale.
    assert (H1 : den x (fst r) <= snd r) by (apply Hsat; left; reflexivity).
    assert (H2 : den x (ycomb ys rows) <= yrhs ys rows).
    { apply IH; [|exact Hy]. intros r' Hr'. apply Hsat. right. exact Hr'. }
    assert (H3 : y * den x (fst r) <= y * snd r) by nra.
    lra.
  Qed.

  Theorem farkas_sound vars rows ys :
    check_farkas veqb vars rows ys = true -> forall x, ~ sat x rows.
  Proof.
    unfold check_farkas. intros H x Hsat.
    repeat (apply andb_true_iff in H; destruct H as [H ?]).
    rename H into Hnd, H3 into Hmem, H2 into Hy, H1 into Hcoef, H0 into Hneg.
    apply nodupv_NoDup in Hnd. apply Qltb_iff in Hneg.
    pose proof (ycomb_le x rows ys Hsat Hy) as Hle.
    rewrite (den_coef x vars) in Hle; [|exact Hnd|].
    - rewrite Qsum_map_zero in Hle; [lra|].
      intros v Hv. rewrite forallb_forall in Hcoef. specialize (Hcoef v Hv).
      apply Qeqb_iff in Hcoef. rewrite Hcoef. ring.
    - intros t Ht. rewrite forallb_forall in Hmem. apply memv_In. apply Hmem. exact Ht.
  Qed.
End LinP.

Arguments farkas_sound {V} veqb veqb_eq vars rows ys _ x _.

(* ================================================================================================ *)
(* the linear system of a price system *)

Lemma pvar_eqb_eq u v : pvar_eqb u v = true <-> u = v.
Proof.
  destruct u as [|i c|i| |c], v as [|j d|j| |d]; simpl; try (split; [discriminate|discriminate]);
    try (split; reflexivity).
  - rewrite andb_true_iff, !Nat.eqb_eq. split; [intros [-> ->]; reflexivity|intros [= -> ->]; auto].
  - rewrite Nat.eqb_eq. split; [intros ->; reflexivity|intros [= ->]; reflexivity].
  - rewrite Nat.eqb_eq. split; [intros ->; reflexivity|intros [= ->]; reflexivity].
Qed.

Lemma in_voters A i : In i (voters A) <-> (i < length A)%nat.
Proof. unfold voters. rewrite in_seq. lia. Qed.

Lemma in_all_projects I c : In c (all_projects I) <-> (c < nproj I)%nat.
Proof. unfold all_projects. rewrite in_seq. lia. Qed.

Lemma in_not_selected I W c : In c (not_selected I W) <-> (c < nproj I)%nat /\ ~ In c W.
Proof.
  unfold not_selected. rewrite filter_In, in_all_projects, negb_true_iff, memb_false_In. tauto.
Qed.

Lemma in_supporters A c i : In i (supporters A c) <-> (i < length A)%nat /\ appr A i c = true.
Proof. unfold supporters. rewrite filter_In, in_voters. tauto. Qed.

Lemma maxpay_ge I pay i c : (c < nproj I)%nat -> pay i c <= maxpay I pay i.
Proof.
  intros Hc. unfold maxpay.
  match goal with |- context [match ?l0 with [] => _ | _ :: _ => _ end] =>
    assert (Hin : In (pay i c) l0); [|remember l0 as l eqn:El; clear El] end.
  { apply (in_map (pay i)). apply in_all_projects. exact Hc. }
  destruct l as [|x r]; [contradiction|].
  destruct Hin as [Hin|Hin]; [rewrite <- Hin; apply fold_Qmax_ge_init|apply fold_Qmax_ge_in; exact Hin].
Qed.

Lemma maxpay_le I pay i M :
  0 <= M -> (forall c, (c < nproj I)%nat -> pay i c <= M) -> maxpay I pay i <= M.
Proof.
  intros HM H. unfold maxpay.
  match goal with |- context [match ?l0 with [] => _ | _ :: _ => _ end] =>
    assert (Hall : forall y, In y l0 -> y <= M); [|remember l0 as l eqn:El; clear El] end.
  { intros y Hy. apply in_map_iff in Hy. destruct Hy as [c [<- Hc]]. apply H. apply in_all_projects. exact Hc. }
  destruct l as [|x r]; [exact HM|].
  apply fold_Qmax_le; [apply Hall; left; reflexivity|intros y Hy; apply Hall; right; exact Hy].
Qed.

Lemma maxpay_nonneg I A pay i : P0 I A pay -> (i < length A)%nat -> 0 <= maxpay I pay i.
Proof.
  intros HP Hi. unfold maxpay. unfold all_projects.
  destruct (nproj I) as [|m] eqn:Em; [apply Qle_refl|].
  simpl. eapply Qle_trans; [|apply fold_Qmax_ge_init]. apply HP; [exact Hi|lia].
Qed.

Lemma spent_nonneg I A pay i : P0 I A pay -> (i < length A)%nat -> 0 <= spent I pay i.
Proof.
  intros HP Hi. unfold spent. apply Qsum_map_nonneg. intros c Hc. apply HP; [exact Hi|].
  apply in_all_projects. exact Hc.
Qed.

Lemma den_single {V} (x : V -> Q) q v : den x [(q, v)] == q * x v.
Proof. unfold den. simpl. ring. Qed.

Lemma den_l_spent I b pay g bc i : den (ps_env_g I b pay g bc) (l_spent I i) == spent I pay i.
Proof.
  unfold den, l_spent, spent. rewrite map_map. apply Qsum_map_ext. intros c _. simpl. ring.
Qed.

Lemma den_l_paid I A b pay g bc c : den (ps_env_g I b pay g bc) (l_paid A c) == paid_for A pay c.
Proof.
  unfold den, l_paid, paid_for. rewrite map_map. apply Qsum_map_ext. intros i _. simpl. ring.
Qed.

Lemma den_l_left I b pay g bc i : den (ps_env_g I b pay g bc) (l_left I i) == leftover I b pay i.
Proof.
  unfold l_left. rewrite den_cons, den_lscale, den_l_spent. simpl. unfold leftover. ring.
Qed.

Lemma den_claims I A b pay g bc c :
  den (ps_env_g I b pay g bc) (map (fun i => (1, VM i)) (supporters A c))
  == Qsum (map (stable_claim I b pay) (supporters A c)).
Proof. unfold den. rewrite map_map. apply Qsum_map_ext. intros i _. simpl. ring. Qed.

Lemma sat_app {V} (x : V -> Q) r1 r2 : sat x r1 -> sat x r2 -> sat x (r1 ++ r2).
Proof. intros H1 H2 r Hr. apply in_app_or in Hr. destruct Hr; [apply H1|apply H2]; assumption. Qed.

Lemma sat_app_inv {V} (x : V -> Q) r1 r2 : sat x (r1 ++ r2) -> sat x r1 /\ sat x r2.
Proof. intros H. split; intros r Hr; apply H; apply in_or_app; [left|right]; exact Hr. Qed.

(* the relaxed stability row of project c *)
Lemma den_s5_row I A b pay R c :
  den (ps_env_rel I b pay R) (fst (s5_row I A (Some (kind_of R)) false c)) - s5_const I (Some (kind_of R)) c
  == Qsum (map (stable_claim I b pay) (supporters A c)) - relaxed_cost I R c.
Proof.
  unfold s5_row, ps_env_rel. simpl fst. rewrite den_app, den_claims.
  destruct R; simpl; unfold den; simpl; ring.
Qed.

Definition env_of (I : inst) (b : Q) (pay : payfun) (rel : option relax) : pvar -> Q :=
  match rel with None => ps_env I b pay | Some R => ps_env_rel I b pay R end.

Lemma s5_row_sat I A b pay rel c (sel : bool) :
  Qsum (map (stable_claim I b pay) (supporters A c)) <= rcost I rel c + (if sel then relax_INF I else 0) ->
  den (env_of I b pay rel) (fst (s5_row I A (option_map kind_of rel) sel c))
  <= snd (s5_row I A (option_map kind_of rel) sel c).
Proof.
  intros H. destruct rel as [R|]; simpl option_map; simpl env_of.
  - pose proof (den_s5_row I A b pay R c) as E. unfold s5_row in *. simpl fst in *. simpl snd. simpl rcost in H.
    unfold s5_const in *. lra.
  - unfold s5_row, ps_env. simpl fst. simpl snd. rewrite den_app, den_claims.
    simpl s5_terms. simpl s5_const. simpl rcost in H. unfold den at 1. simpl. lra.
Qed.

(* every (relaxed) price system solves the linear system; with [rng] also the range rows, provided the
   relaxation's parameters are within the ranges the MIP imposes *)
Lemma ps_rows_g_complete I A W b pay stable exh lb rel rng :
  price_system_g I A W b pay (rcost I rel) stable exh -> 0 <= b ->
  (lb = true -> budget I <= Qnat (length A) * b) ->
  (forall R, rel = Some R -> rng = true -> stable = true /\ relax_range I A W b pay R) ->
  sat (env_of I b pay rel) (ps_rows_g I A W stable lb (option_map kind_of rel) rng).
Proof.
  intros (H0a & H0b & HP0 & HC1 & HC2 & HC3 & HC4 & HC5) Hb Hlb Hrng.
  assert (Henv : exists g bc, env_of I b pay rel = ps_env_g I b pay g bc).
  { destruct rel as [R|]; simpl; [exists (relax_g R), (relax_bc R)|exists 0, (fun _ => 0)]; reflexivity. }
  destruct Henv as [g [bc Henv]].
  unfold ps_rows_g.
  apply sat_app.
  { rewrite Henv. intros r Hr. destruct Hr as [<-|[]]. simpl fst. simpl snd. rewrite den_single. simpl. lra. }
  apply sat_app.
  { rewrite Henv. intros r Hr. apply in_flat_map in Hr. destruct Hr as [i [Hi Hr]]. apply in_map_iff in Hr.
    destruct Hr as [c [<- Hc]]. simpl fst. simpl snd. rewrite den_single. simpl.
    apply in_voters in Hi. apply in_all_projects in Hc. specialize (HP0 i c Hi Hc). lra. }
  apply sat_app.
  { rewrite Henv. intros r Hr. apply in_flat_map in Hr. destruct Hr as [i [Hi Hr]]. apply in_map_iff in Hr.
    destruct Hr as [c [<- Hc]]. simpl fst. simpl snd. rewrite den_single. simpl.
    apply filter_In in Hc. destruct Hc as [Hc Ha]. apply negb_true_iff in Ha.
    apply in_voters in Hi. apply in_all_projects in Hc. rewrite (HC1 i c Hi Hc Ha). lra. }
  apply sat_app.
  { rewrite Henv. intros r Hr. apply in_map_iff in Hr. destruct Hr as [i [<- Hi]]. simpl fst. simpl snd.
    rewrite den_cons, den_l_spent. simpl. apply in_voters in Hi. specialize (HC2 i Hi). lra. }
  apply sat_app.
  { rewrite Henv. intros r Hr. apply in_flat_map in Hr. destruct Hr as [c [Hc Hr]].
    specialize (HC3 c Hc).
    destruct Hr as [<-|[<-|[]]]; simpl fst; simpl snd.
    - rewrite den_l_paid. rewrite HC3. apply Qle_refl.
    - rewrite den_lscale, den_l_paid. rewrite HC3. lra. }
  apply sat_app.
  { rewrite Henv. intros r Hr. apply in_map_iff in Hr. destruct Hr as [c [<- Hc]]. simpl fst. simpl snd.
    apply in_not_selected in Hc. destruct Hc as [Hc Hn].
    rewrite den_l_paid. rewrite (HC4 c Hc Hn). apply Qle_refl. }
  apply sat_app.
  { destruct stable.
    - apply sat_app.
      { rewrite Henv. intros r Hr. apply in_flat_map in Hr. destruct Hr as [i [Hi Hr]]. apply in_map_iff in Hr.
        destruct Hr as [c [<- Hc]]. simpl fst. simpl snd.
        rewrite den_cons, den_single. simpl.
        apply in_all_projects in Hc. pose proof (maxpay_ge I pay i c Hc) as Hm.
        pose proof (Q.le_max_l (maxpay I pay i) (leftover I b pay i)) as Hm2.
        unfold stable_claim. lra. }
      apply sat_app.
      { rewrite Henv. intros r Hr. apply in_map_iff in Hr. destruct Hr as [i [<- Hi]]. simpl fst. simpl snd.
        rewrite den_cons, den_l_left. simpl.
        pose proof (Q.le_max_r (maxpay I pay i) (leftover I b pay i)) as Hm2.
        unfold stable_claim. lra. }
      apply sat_app.
      { rewrite Henv. intros r Hr. apply in_map_iff in Hr. destruct Hr as [i [<- Hi]]. simpl fst. simpl snd.
        rewrite den_single. simpl. apply in_voters in Hi.
        pose proof (maxpay_nonneg I A pay i HP0 Hi) as Hm.
        pose proof (Q.le_max_l (maxpay I pay i) (leftover I b pay i)) as Hm2.
        unfold stable_claim. lra. }
      intros r Hr. apply in_map_iff in Hr. destruct Hr as [c [<- Hc]].
      apply in_not_selected in Hc. destruct Hc as [Hc Hn].
      apply s5_row_sat. specialize (HC5 c Hc Hn). simpl in HC5. lra.
    - rewrite Henv. intros r Hr. apply in_map_iff in Hr. destruct Hr as [c [<- Hc]]. simpl fst. simpl snd.
      apply in_not_selected in Hc. destruct Hc as [Hc Hn].
      eapply Qle_trans; [|apply (HC5 c Hc Hn)].
      rewrite den_flat_map. apply Qle_lteq. right.
      apply Qsum_map_ext. intros i _. apply den_l_left. }
  apply sat_app.
  { rewrite Henv. destruct lb; [|intros r []]. intros r Hr. destruct Hr as [<-|[]]. simpl fst. simpl snd.
    rewrite den_single. simpl. specialize (Hlb eq_refl). lra. }
  destruct rel as [R|]; simpl option_map; [|intros r []].
  destruct rng; [|intros r []].
  destruct (Hrng R eq_refl eq_refl) as [-> [Hsel Hk]].
  unfold range_rows. apply sat_app.
  { intros r Hr. apply in_map_iff in Hr. destruct Hr as [c [<- Hc]].
    apply (s5_row_sat I A b pay (Some R) c true). simpl rcost. apply Hsel. exact Hc. }
  simpl env_of. unfold ps_env_rel.
  destruct R as [g0|g0|l|l|g0 l]; simpl kind_of; cbv iota.
  - intros r Hr. destruct Hr as [<-|[]]. simpl fst. simpl snd. rewrite den_single. simpl. lra.
  - intros r Hr. destruct Hr as [<-|[]]. simpl fst. simpl snd. rewrite den_single. simpl. lra.
  - intros r Hr. apply in_flat_map in Hr. destruct Hr as [c [Hc Hr]]. apply in_all_projects in Hc.
    destruct (Hk c Hc) as [Hlo Hcap].
    destruct Hr as [<-|[<-|[<-|[]]]]; simpl fst; simpl snd; rewrite den_single; simpl;
      destruct (memb c W); try lra.
  - intros r Hr. apply in_map_iff in Hr. destruct Hr as [c [<- Hc]]. apply in_all_projects in Hc.
    simpl fst. simpl snd. rewrite den_single. simpl. specialize (Hk c Hc). lra.
  - destruct Hk as (Hg & Hnn & Hsum). apply sat_app; [|apply sat_app].
    + intros r Hr. destruct Hr as [<-|[]]. simpl fst. simpl snd. rewrite den_single. simpl. lra.
    + intros r Hr. apply in_map_iff in Hr. destruct Hr as [c [<- Hc]]. apply in_all_projects in Hc.
      simpl fst. simpl snd. rewrite den_single. simpl. specialize (Hnn c Hc). lra.
    + intros r Hr. destruct Hr as [<-|[]]. simpl fst. simpl snd.
      eapply Qle_trans; [|exact Hsum]. unfold den. rewrite map_map. apply Qle_lteq. right.
      apply Qsum_map_ext. intros c _. simpl. ring.
Qed.

Lemma ps_rows_complete I A W b pay stable exh lb :
  price_system I A W b pay stable exh -> 0 <= b ->
  (lb = true -> budget I <= Qnat (length A) * b) ->
  sat (ps_env I b pay) (ps_rows I A W stable lb).
Proof.
  intros Hps Hb Hlb.
  apply (ps_rows_g_complete I A W b pay stable exh lb None false Hps Hb Hlb). discriminate.
Qed.

Lemma budget_nonneg_of_ps I A W b pay rc stable exh :
  (0 < length A)%nat -> price_system_g I A W b pay rc stable exh -> 0 <= b.
Proof.
  intros Hn (_ & _ & HP0 & _ & HC2 & _).
  eapply Qle_trans; [apply (spent_nonneg I A pay 0%nat HP0 Hn)|apply HC2; exact Hn].
Qed.

Lemma base_infeasible I A W stable exh :
  negb (Qleb (tcost I W) (budget I)) || (exh && negb (is_exhaustiveb I W)) = true ->
  forall b pay rc, ~ price_system_g I A W b pay rc stable exh.
Proof.
  intros H b pay rc Hps. apply orb_true_iff in H. destruct H as [H|H].
  - apply negb_true_iff in H. apply Qleb_false_iff in H.
    destruct Hps as (H0a & _). unfold C0a in H0a. lra.
  - apply andb_true_iff in H. destruct H as [He H]. apply negb_true_iff in H.
    destruct Hps as (_ & H0b & _). specialize (H0b He).
    assert (is_exhaustiveb I W = true); [|congruence].
    unfold is_exhaustiveb. apply forallb_forall. intros c Hc. apply in_not_selected in Hc.
    apply Qltb_iff. apply H0b; tauto.
Qed.

Theorem check_no_ps_sound I A W stable exh lb ys :
  check_no_ps I A W stable exh lb ys = true ->
  ~ exists b pay, price_system I A W b pay stable exh /\ (lb = true -> budget I <= Qnat (length A) * b).
Proof.
  unfold check_no_ps. intros H [b [pay [Hps Hlb]]].
  apply orb_true_iff in H. destruct H as [H|H]; [exact (base_infeasible I A W stable exh H b pay _ Hps)|].
  apply andb_true_iff in H. destruct H as [Hn H]. apply Nat.ltb_lt in Hn.
  pose proof (budget_nonneg_of_ps I A W b pay _ stable exh Hn Hps) as Hb.
  apply (farkas_sound pvar_eqb pvar_eqb_eq _ _ _ H (ps_env I b pay)).
  eapply ps_rows_complete; eassumption.
Qed.

(* relaxations: (1) no relaxed price system of this class whatever the parameters *)
Theorem check_no_relaxed_ps_sound I A W exh lb k ys :
  check_no_relaxed_ps I A W exh lb k ys = true ->
  ~ exists b pay R, kind_of R = k /\ relaxed_price_system I A W b pay R exh
                    /\ (lb = true -> budget I <= Qnat (length A) * b).
Proof.
  unfold check_no_relaxed_ps. intros H [b [pay [R [Hk [Hps Hlb]]]]].
  apply orb_true_iff in H. destruct H as [H|H]; [exact (base_infeasible I A W true exh H b pay _ Hps)|].
  apply andb_true_iff in H. destruct H as [Hn H]. apply Nat.ltb_lt in Hn.
  pose proof (budget_nonneg_of_ps I A W b pay _ true exh Hn Hps) as Hb.
  apply (farkas_sound pvar_eqb pvar_eqb_eq _ _ _ H (ps_env_rel I b pay R)).
  subst k. apply (ps_rows_g_complete I A W b pay true exh lb (Some R) false Hps Hb Hlb). discriminate.
Qed.

Lemma den_objective I b pay R t :
  relax_objective I R <= t ->
  den (ps_env_rel I b pay R) (fst (objective_row I (kind_of R) t)) <= snd (objective_row I (kind_of R) t).
Proof.
  intros H. unfold ps_env_rel.
  destruct R as [g0|g0|l|l|g0 l]; simpl kind_of; unfold objective_row; simpl fst; simpl snd; simpl in H;
    try (rewrite den_single; simpl; lra);
    (eapply Qle_trans; [|exact H]; unfold den; rewrite map_map; apply Qle_lteq; right;
     apply Qsum_map_ext; intros c _; simpl; ring).
Qed.

(* (2) within the ranges the MIP imposes, no relaxed price system for W has objective <= t *)
Theorem check_objective_lower_sound I A W exh lb k t ys :
  check_objective_lower I A W exh lb k t ys = true ->
  ~ exists b pay R, kind_of R = k /\ relaxed_price_system I A W b pay R exh
                    /\ (lb = true -> budget I <= Qnat (length A) * b)
                    /\ relax_range I A W b pay R /\ relax_objective I R <= t.
Proof.
  unfold check_objective_lower. intros H [b [pay [R [Hk [Hps [Hlb [Hr Ho]]]]]]].
  apply orb_true_iff in H. destruct H as [H|H]; [exact (base_infeasible I A W true exh H b pay _ Hps)|].
  apply andb_true_iff in H. destruct H as [Hn H]. apply Nat.ltb_lt in Hn.
  pose proof (budget_nonneg_of_ps I A W b pay _ true exh Hn Hps) as Hb.
  apply (farkas_sound pvar_eqb pvar_eqb_eq _ _ _ H (ps_env_rel I b pay R)).
  subst k. apply sat_app.
  - apply (ps_rows_g_complete I A W b pay true exh lb (Some R) true Hps Hb Hlb).
    intros R' [= <-] _. split; [reflexivity|exact Hr].
  - intros r [<-|[]]. apply den_objective. exact Ho.
Qed.

(* ================================================================================================ *)
(* the witness checker *)

Lemma forallb2_forall (N C : list nat) (f : nat -> nat -> bool) :
  forallb (fun i => forallb (fun c => f i c) C) N = true <->
  (forall i c, In i N -> In c C -> f i c = true).
Proof.
  rewrite forallb_forall. split.
  - intros H i c Hi Hc. specialize (H i Hi). rewrite forallb_forall in H. apply H. exact Hc.
  - intros H i Hi. apply forallb_forall. intros c Hc. apply H; assumption.
Qed.

Lemma nodup_natb_NoDup l : nodup_natb l = true <-> NoDup l.
Proof.
  induction l as [|x r IH]; simpl.
  - split; [constructor|reflexivity].
  - rewrite andb_true_iff, negb_true_iff, IH, memb_false_In. split.
    + intros [H1 H2]. constructor; assumption.
    + inversion 1; subst. split; assumption.
Qed.

Lemma wf_allocb_iff I W : wf_allocb I W = true <-> wf_alloc I W.
Proof.
  unfold wf_allocb, wf_alloc. rewrite andb_true_iff, nodup_natb_NoDup, forallb_forall.
  split; intros [H1 H2]; (split; [exact H1|]); intros c Hc; specialize (H2 c Hc);
    [apply Nat.ltb_lt in H2|apply Nat.ltb_lt]; exact H2.
Qed.

Theorem check_ps_eps_g_sound eps I A W b P stable exh rel :
  check_ps_eps_g eps I A W b P stable exh rel = true ->
  price_system_g_tol I A W b (pay_of P) (rcost I rel) eps stable exh.
Proof.
  unfold check_ps_eps_g. intros H.
  repeat (apply andb_true_iff in H; destruct H as [H ?]).
  rename H into H0a, H6 into H0b, H5 into HP0, H4 into HC1, H3 into HC2, H2 into HC3, H1 into HC4, H0 into HC5.
  unfold price_system_g_tol. repeat split.
  - apply Qleb_iff in H0a. exact H0a.
  - intros He c Hc Hn. rewrite He in H0b. simpl in H0b. rewrite forallb_forall in H0b.
    apply Qltb_iff. apply H0b. apply in_not_selected. tauto.
  - intros i c Hi Hc. rewrite forallb2_forall in HP0. apply Qleb_iff.
    apply HP0; [apply in_voters|apply in_all_projects]; assumption.
  - intros i c Hi Hc Ha. rewrite forallb2_forall in HC1.
    specialize (HC1 i c (proj2 (in_voters A i) Hi) (proj2 (in_all_projects I c) Hc)).
    rewrite Ha in HC1. simpl in HC1. apply Qeqb_iff in HC1. exact HC1.
  - intros i Hi. rewrite forallb_forall in HC2. apply Qleb_iff. apply HC2. apply in_voters. exact Hi.
  - rewrite forallb_forall in HC3. specialize (HC3 c H). apply andb_true_iff in HC3.
    apply Qleb_iff. tauto.
  - rewrite forallb_forall in HC3. specialize (HC3 c H). apply andb_true_iff in HC3.
    apply Qleb_iff. tauto.
  - rewrite forallb_forall in HC4. specialize (HC4 c (proj2 (in_not_selected I W c) (conj H H0))).
    apply andb_true_iff in HC4. apply Qleb_iff. tauto.
  - rewrite forallb_forall in HC4. specialize (HC4 c (proj2 (in_not_selected I W c) (conj H H0))).
    apply andb_true_iff in HC4. apply Qleb_iff. tauto.
  - destruct stable; intros c Hc Hn; rewrite forallb_forall in HC5; apply Qleb_iff; apply HC5;
      apply in_not_selected; tauto.
Qed.

Lemma price_system_g_tol_0 I A W b pay rc stable exh :
  price_system_g_tol I A W b pay rc 0 stable exh -> price_system_g I A W b pay rc stable exh.
Proof.
  intros (H0a & H0b & HP0 & HC1 & HC2 & HC3 & HC4 & HC5).
  unfold price_system_g. refine (conj H0a (conj H0b (conj _ (conj HC1 (conj _ (conj _ (conj _ _))))))).
  - intros i c Hi Hc. specialize (HP0 i c Hi Hc). lra.
  - intros i Hi. specialize (HC2 i Hi). lra.
  - intros c Hc. specialize (HC3 c Hc). apply Qle_antisym; lra.
  - intros c Hc Hn. specialize (HC4 c Hc Hn). apply Qle_antisym; lra.
  - destruct stable; intros c Hc Hn; specialize (HC5 c Hc Hn); lra.
Qed.

Theorem witness_checker_g_sound I A W b P stable exh rel :
  check_witness_g I A W b P stable exh rel = true ->
  feasible I W /\ price_system_g I A W b (pay_of P) (rcost I rel) stable exh.
Proof.
  unfold check_witness_g. intros H. apply andb_true_iff in H. destruct H as [Hwf H].
  apply wf_allocb_iff in Hwf. apply check_ps_eps_g_sound in H. apply price_system_g_tol_0 in H.
  split; [|exact H]. destruct Hwf as [Hnd Hr]. destruct H as [H0a _].
  unfold feasible. auto.
Qed.

(* the checker also accepts every genuine price system (so "exact" in the case files is decided) *)
Theorem witness_checker_g_complete I A W b P stable exh rel :
  wf_alloc I W -> price_system_g I A W b (pay_of P) (rcost I rel) stable exh ->
  check_witness_g I A W b P stable exh rel = true.
Proof.
  intros Hwf (H0a & H0b & HP0 & HC1 & HC2 & HC3 & HC4 & HC5).
  unfold check_witness_g. apply andb_true_iff. split; [apply wf_allocb_iff; exact Hwf|].
  unfold check_ps_eps_g. repeat (apply andb_true_iff; split).
  - apply Qleb_iff. exact H0a.
  - destruct exh; [|reflexivity]. simpl. apply forallb_forall. intros c Hc.
    apply in_not_selected in Hc. apply Qltb_iff. apply H0b; tauto.
  - apply forallb2_forall. intros i c Hi Hc. apply Qleb_iff.
    apply in_voters in Hi. apply in_all_projects in Hc. specialize (HP0 i c Hi Hc). lra.
  - apply forallb2_forall. intros i c Hi Hc. apply in_voters in Hi. apply in_all_projects in Hc.
    destruct (appr A i c) eqn:Ea; [reflexivity|]. simpl. apply Qeqb_iff. apply HC1; assumption.
  - apply forallb_forall. intros i Hi. apply in_voters in Hi. apply Qleb_iff. specialize (HC2 i Hi). lra.
  - apply forallb_forall. intros c Hc. specialize (HC3 c Hc).
    apply andb_true_iff. split; apply Qleb_iff; rewrite HC3; lra.
  - apply forallb_forall. intros c Hc. apply in_not_selected in Hc. destruct Hc as [Hc Hn].
    specialize (HC4 c Hc Hn). apply andb_true_iff. split; apply Qleb_iff; rewrite HC4; lra.
  - destruct stable; apply forallb_forall; intros c Hc; apply in_not_selected in Hc; destruct Hc as [Hc Hn];
      apply Qleb_iff; specialize (HC5 c Hc Hn); lra.
Qed.

(* the instances relaxation = None *)
Theorem check_ps_eps_sound eps I A W b P stable exh :
  check_ps_eps eps I A W b P stable exh = true ->
  price_system_tol I A W b (pay_of P) eps stable exh.
Proof. exact (check_ps_eps_g_sound eps I A W b P stable exh None). Qed.

Lemma price_system_tol_0 I A W b pay stable exh :
  price_system_tol I A W b pay 0 stable exh -> price_system I A W b pay stable exh.
Proof. exact (price_system_g_tol_0 I A W b pay (cost I) stable exh). Qed.

Theorem witness_checker_sound I A W b P stable exh :
  check_witness I A W b P stable exh = true ->
  feasible I W /\ price_system I A W b (pay_of P) stable exh.
Proof. exact (witness_checker_g_sound I A W b P stable exh None). Qed.

Theorem witness_checker_complete I A W b P stable exh :
  wf_alloc I W -> price_system I A W b (pay_of P) stable exh ->
  check_witness I A W b P stable exh = true.
Proof. exact (witness_checker_g_complete I A W b P stable exh None). Qed.

(* ================================================================================================ *)
(* rounding *)

Lemma rhe_bounds t : (Qfloor t <= round_half_even t <= Qfloor t + 1)%Z.
Proof.
  unfold round_half_even. destruct (Qcompare (2 * (t - inject_Z (Qfloor t))) 1);
    [destruct (Z.even (Qfloor t))| |]; lia.
Qed.

Lemma rhe_close t :
  inject_Z (round_half_even t) - t <= 1 # 2 /\ t - inject_Z (round_half_even t) <= 1 # 2.
Proof.
  unfold round_half_even. pose proof (Qfloor_le t) as H1. pose proof (Qlt_floor t) as H2.
  rewrite inject_Z_plus in H2. change (inject_Z 1) with 1 in H2.
  set (f := Qfloor t) in *.
  destruct (Qcompare_spec (2 * (t - inject_Z f)) 1) as [E|E|E].
  - destruct (Z.even f); [|rewrite inject_Z_plus; change (inject_Z 1) with 1]; lra.
  - lra.
  - rewrite inject_Z_plus. change (inject_Z 1) with 1. lra.
Qed.

Lemma rhe_mono t t' : t <= t' -> (round_half_even t <= round_half_even t')%Z.
Proof.
  intros H. pose proof (Qfloor_resp_le _ _ H) as Hf.
  destruct (Z.eq_dec (Qfloor t) (Qfloor t')) as [E|E].
  - unfold round_half_even. rewrite <- E. set (f := Qfloor t).
    destruct (Qcompare_spec (2 * (t - inject_Z f)) 1) as [E1|E1|E1];
      destruct (Qcompare_spec (2 * (t' - inject_Z f)) 1) as [E2|E2|E2];
      try (exfalso; lra); try (destruct (Z.even f)); lia.
  - pose proof (rhe_bounds t). pose proof (rhe_bounds t'). lia.
Qed.

Lemma rnd_eq x : rnd x == inject_Z (round_half_even (x * 100)) / 100.
Proof. unfold rnd. rewrite Qred_correct. reflexivity. Qed.

Lemma rnd_mono x y : x <= y -> rnd x <= rnd y.
Proof.
  intros H. rewrite !rnd_eq. unfold Qdiv. apply Qmult_le_compat_r; [|discriminate].
  rewrite <- Zle_Qle. apply rhe_mono. lra.
Qed.

Lemma rnd_close x : rnd x - x <= 1 # 200 /\ x - rnd x <= 1 # 200.
Proof.
  destruct (rhe_close (x * 100)) as [H1 H2]. rewrite rnd_eq.
  set (k := inject_Z (round_half_even (x * 100))) in *.
  assert (E : k / 100 * 100 == k) by (field).
  split; lra.
Qed.

Global Instance rnd_proper : Proper (Qeq ==> Qeq) rnd.
Proof.
  intros x y E. apply Qle_antisym; apply rnd_mono; rewrite E; apply Qle_refl.
Qed.

Lemma rnd_0 : rnd 0 == 0.
Proof. reflexivity. Qed.

Theorem rnd_props :
  (forall x y, x <= y -> rnd x <= rnd y) /\ (forall x, Qabs (rnd x - x) <= 1 # 200).
Proof.
  split; [exact rnd_mono|]. intros x. apply Qabs_Qle_condition.
  destruct (rnd_close x). split; lra.
Qed.

(* ================================================================================================ *)
(* the validator *)

Lemma round_cmp_le a b : a <= b -> round_cmp a b <= 0.
Proof.
  intros H. unfold round_cmp. destruct (Z.eqb ANCHOR_ROUND_CMP_MODE 1).
  - assert (H' : a - b <= 0) by lra. apply rnd_mono in H'. rewrite rnd_0 in H'. exact H'.
  - apply rnd_mono in H. lra.
Qed.

Lemma round_cmp_eq a b : a == b -> round_cmp a b == 0.
Proof.
  intros H. unfold round_cmp. destruct (Z.eqb ANCHOR_ROUND_CMP_MODE 1).
  - assert (H' : a - b == 0) by lra. rewrite H'. apply rnd_0.
  - rewrite H. ring.
Qed.

Lemma round_cmp_le_inv a b : round_cmp a b <= 0 -> a <= b + (1 # 100).
Proof.
  unfold round_cmp. destruct (Z.eqb ANCHOR_ROUND_CMP_MODE 1); intros H.
  - destruct (rnd_close (a - b)). lra.
  - destruct (rnd_close a), (rnd_close b). lra.
Qed.

Lemma round_cmp_eq_inv a b : round_cmp a b == 0 -> a <= b + (1 # 100) /\ b <= a + (1 # 100).
Proof.
  unfold round_cmp. destruct (Z.eqb ANCHOR_ROUND_CMP_MODE 1); intros H.
  - destruct (rnd_close (a - b)). split; lra.
  - destruct (rnd_close a), (rnd_close b). split; lra.
Qed.

Lemma round_cmp_nonneg a : 0 <= a -> 0 <= round_cmp a 0.
Proof.
  intros H. unfold round_cmp. destruct (Z.eqb ANCHOR_ROUND_CMP_MODE 1).
  - assert (H' : 0 <= a - 0) by lra. apply rnd_mono in H'. rewrite rnd_0 in H'. exact H'.
  - apply rnd_mono in H. rewrite rnd_0 in *. lra.
Qed.

Lemma round_cmp_nonneg_inv a : 0 <= round_cmp a 0 -> - (1 # 100) <= a.
Proof.
  unfold round_cmp. destruct (Z.eqb ANCHOR_ROUND_CMP_MODE 1); intros H.
  - destruct (rnd_close (a - 0)). lra.
  - rewrite rnd_0 in H. destruct (rnd_close a). lra.
Qed.

Theorem validate_complete_g I A W b P stable exh rel :
  price_system_g I A W b (pay_of P) (rcost I rel) stable exh -> validate_ps_g I A W b P stable exh rel = true.
Proof.
  intros (H0a & H0b & HP0 & HC1 & HC2 & HC3 & HC4 & HC5).
  unfold validate_ps_g. cbv zeta. repeat (apply andb_true_iff; split).
  - apply Qleb_iff. exact H0a.
  - destruct exh; [|reflexivity]. simpl. apply forallb_forall. intros c Hc.
    apply in_not_selected in Hc. apply negb_true_iff. apply Qleb_false_iff. apply H0b; tauto.
  - apply forallb2_forall. intros i c Hi Hc. apply in_voters in Hi. apply in_all_projects in Hc.
    apply andb_true_iff. split.
    + destruct (appr A i c) eqn:Ea; [reflexivity|]. simpl.
      rewrite (proj2 (Qeqb_iff _ _) (HC1 i c Hi Hc Ea)). reflexivity.
    + apply negb_true_iff. apply Qltb_false_iff. apply round_cmp_nonneg. apply (HP0 i c Hi Hc).
  - apply forallb_forall. intros i Hi. apply in_voters in Hi.
    apply negb_true_iff. apply Qltb_false_iff. apply round_cmp_le. apply (HC2 i Hi).
  - apply forallb_forall. intros c Hc. apply Qeqb_iff. apply round_cmp_eq. apply (HC3 c Hc).
  - apply forallb_forall. intros c Hc. apply in_not_selected in Hc. destruct Hc as [Hc Hn].
    apply Qeqb_iff. apply round_cmp_eq. apply (HC4 c Hc Hn).
  - destruct stable; simpl; apply forallb_forall; intros c Hc; apply in_not_selected in Hc;
      destruct Hc as [Hc Hn]; apply negb_true_iff; apply Qltb_false_iff; apply round_cmp_le;
      apply (HC5 c Hc Hn).
Qed.

(* acceptance implies every condition up to 1/100 (C0a, C0b, C1 exactly) *)
Theorem validate_sound_tol_g I A W b P stable exh rel :
  validate_ps_g I A W b P stable exh rel = true ->
  price_system_g_tol I A W b (pay_of P) (rcost I rel) (1 # 100) stable exh.
Proof.
  unfold validate_ps_g. cbv zeta. intros H.
  repeat (apply andb_true_iff in H; destruct H as [H ?]).
  rename H into H0a, H5 into H0b, H4 into HC1, H3 into HC2, H2 into HC3, H1 into HC4, H0 into HC5.
  rewrite forallb2_forall in HC1.
  unfold price_system_g_tol.
  refine (conj _ (conj _ (conj _ (conj _ (conj _ (conj _ (conj _ _))))))).
  - apply Qleb_iff in H0a. exact H0a.
  - intros He c Hc Hn. rewrite He in H0b. simpl in H0b. rewrite forallb_forall in H0b.
    specialize (H0b c (proj2 (in_not_selected I W c) (conj Hc Hn))).
    apply negb_true_iff in H0b. apply Qleb_false_iff in H0b. exact H0b.
  - intros i c Hi Hc.
    specialize (HC1 i c (proj2 (in_voters A i) Hi) (proj2 (in_all_projects I c) Hc)).
    apply andb_true_iff in HC1. destruct HC1 as [_ HC1].
    apply negb_true_iff in HC1. apply Qltb_false_iff in HC1. apply round_cmp_nonneg_inv in HC1. exact HC1.
  - intros i c Hi Hc Ha.
    specialize (HC1 i c (proj2 (in_voters A i) Hi) (proj2 (in_all_projects I c) Hc)).
    apply andb_true_iff in HC1. destruct HC1 as [HC1 _]. rewrite Ha in HC1. simpl in HC1.
    apply negb_true_iff in HC1. apply negb_false_iff in HC1. apply Qeqb_iff in HC1. exact HC1.
  - intros i Hi. rewrite forallb_forall in HC2. specialize (HC2 i (proj2 (in_voters A i) Hi)).
    apply negb_true_iff in HC2. apply Qltb_false_iff in HC2. apply round_cmp_le_inv in HC2. exact HC2.
  - intros c Hc. rewrite forallb_forall in HC3. specialize (HC3 c Hc). apply Qeqb_iff in HC3.
    apply round_cmp_eq_inv in HC3. exact HC3.
  - intros c Hc Hn. rewrite forallb_forall in HC4.
    specialize (HC4 c (proj2 (in_not_selected I W c) (conj Hc Hn))). apply Qeqb_iff in HC4.
    apply round_cmp_eq_inv in HC4. destruct HC4. unfold paid_for. split; lra.
  - destruct stable; simpl in HC5; intros c Hc Hn; rewrite forallb_forall in HC5;
      specialize (HC5 c (proj2 (in_not_selected I W c) (conj Hc Hn)));
      apply negb_true_iff in HC5; apply Qltb_false_iff in HC5; apply round_cmp_le_inv in HC5; exact HC5.
Qed.

(* a pair that misses a condition by more than the tolerance is rejected *)
Theorem validate_sound_margin_g I A W b P stable exh rel :
  ~ price_system_g_tol I A W b (pay_of P) (rcost I rel) (1 # 100) stable exh ->
  validate_ps_g I A W b P stable exh rel = false.
Proof.
  intros H. destruct (validate_ps_g I A W b P stable exh rel) eqn:E; [|reflexivity].
  exfalso. apply H. apply validate_sound_tol_g. exact E.
Qed.

(* the instances relaxation = None *)
Theorem validate_complete I A W b P stable exh :
  price_system I A W b (pay_of P) stable exh -> validate_ps I A W b P stable exh = true.
Proof. exact (validate_complete_g I A W b P stable exh None). Qed.

Theorem validate_sound_tol I A W b P stable exh :
  validate_ps I A W b P stable exh = true ->
  price_system_tol I A W b (pay_of P) (1 # 100) stable exh.
Proof. exact (validate_sound_tol_g I A W b P stable exh None). Qed.

Theorem validate_sound_margin I A W b P stable exh :
  ~ price_system_tol I A W b (pay_of P) (1 # 100) stable exh ->
  validate_ps I A W b P stable exh = false.
Proof. exact (validate_sound_margin_g I A W b P stable exh None). Qed.

Lemma price_system_g_tol_mono I A W b pay rc e1 e2 stable exh :
  e1 <= e2 -> price_system_g_tol I A W b pay rc e1 stable exh -> price_system_g_tol I A W b pay rc e2 stable exh.
Proof.
  intros He (H0a & H0b & HP0 & HC1 & HC2 & HC3 & HC4 & HC5).
  refine (conj H0a (conj H0b (conj _ (conj HC1 (conj _ (conj _ (conj _ _))))))).
  - intros i c Hi Hc. specialize (HP0 i c Hi Hc). lra.
  - intros i Hi. specialize (HC2 i Hi). lra.
  - intros c Hc. specialize (HC3 c Hc). split; lra.
  - intros c Hc Hn. specialize (HC4 c Hc Hn). split; lra.
  - destruct stable; intros c Hc Hn; specialize (HC5 c Hc Hn); lra.
Qed.

Lemma price_system_tol_mono I A W b pay e1 e2 stable exh :
  e1 <= e2 -> price_system_tol I A W b pay e1 stable exh -> price_system_tol I A W b pay e2 stable exh.
Proof. exact (price_system_g_tol_mono I A W b pay (cost I) e1 e2 stable exh). Qed.

(* the form used by the case files: check_ps_eps with a margin m >= 1/100 rejects => the validator rejects *)
Theorem margin_checker_g_sound I A W b P stable exh rel m :
  1 # 100 <= m -> validate_ps_g I A W b P stable exh rel = true ->
  price_system_g_tol I A W b (pay_of P) (rcost I rel) m stable exh.
Proof.
  intros Hm H. eapply price_system_g_tol_mono; [exact Hm|]. apply validate_sound_tol_g. exact H.
Qed.
Theorem margin_checker_sound I A W b P stable exh m :
  1 # 100 <= m -> validate_ps I A W b P stable exh = true ->
  price_system_tol I A W b (pay_of P) m stable exh.
Proof. exact (fun Hm H => margin_checker_g_sound I A W b P stable exh None m Hm H). Qed.

(* ================================================================================================ *)
(* the MIP encoding: soundness *)

Ltac dand H n := apply andb_true_iff in H; destruct H as [H n].

Lemma in_alloc_of I a c :
  In c (alloc_of I a) <-> (c < nproj I)%nat /\ Qleb (99 # 100) (xv a c) = true.
Proof. unfold alloc_of. rewrite filter_In, in_all_projects. tauto. Qed.

Lemma x_selected I a c : binary I a -> In c (alloc_of I a) -> xv a c == 1.
Proof.
  intros Hb Hin. apply in_alloc_of in Hin. destruct Hin as [Hc Hx].
  apply Qleb_iff in Hx. destruct (Hb c Hc) as [E|E]; [|exact E]. rewrite E in Hx. lra.
Qed.

Lemma x_unselected I a c : binary I a -> (c < nproj I)%nat -> ~ In c (alloc_of I a) -> xv a c == 0.
Proof.
  intros Hb Hc Hn. destruct (Hb c Hc) as [E|E]; [exact E|].
  exfalso. apply Hn. apply in_alloc_of. split; [exact Hc|]. apply Qleb_iff. rewrite E. lra.
Qed.

Lemma tcost_filter_x I (x : nat -> Q) l :
  (forall c, In c l -> x c == 0 \/ x c == 1) ->
  Qsum (map (cost I) (filter (fun c => Qleb (99 # 100) (x c)) l)) == Qsum (map (fun c => x c * cost I c) l).
Proof.
  induction l as [|c l IH]; intros H; [reflexivity|].
  assert (IH' := IH (fun c' Hc' => H c' (or_intror Hc'))).
  simpl. destruct (H c (or_introl eq_refl)) as [E|E].
  - destruct (Qleb (99 # 100) (x c)) eqn:El.
    + apply Qleb_iff in El. rewrite E in El. lra.
    + rewrite IH'. rewrite E. ring.
  - destruct (Qleb (99 # 100) (x c)) eqn:El.
    + simpl. rewrite IH'. rewrite E. ring.
    + apply Qleb_false_iff in El. rewrite E in El. lra.
Qed.

Lemma tcost_alloc_of I a :
  binary I a -> tcost I (alloc_of I a) == Qsum (map (fun c => xv a c * cost I c) (all_projects I)).
Proof.
  intros Hb. unfold tcost, alloc_of. apply tcost_filter_x.
  intros c Hc. apply Hb. apply in_all_projects. exact Hc.
Qed.

(* what relax_rows (the add_beta part of the MIP) says *)
Lemma relax_rows_range I R a :
  relax_rows I R (xv a) = true -> binary I a ->
  match R with
  | RMul g => 0 <= g
  | RAdd g => - relax_INF I <= g
  | RVec l => forall c, (c < nproj I)%nat ->
                - relax_INF I <= beta_at l c
                /\ (if memb c (alloc_of I a) then beta_at l c == 0
                    else - relax_cap I <= beta_at l c /\ beta_at l c <= relax_cap I)
  | RVecPos l => forall c, (c < nproj I)%nat -> 0 <= beta_at l c
  | ROff g l => - relax_INF I <= g /\ (forall c, (c < nproj I)%nat -> 0 <= beta_at l c)
                /\ Qsum (map (beta_at l) (all_projects I)) <= RELAX_FRACTION * budget I
  end.
Proof.
  intros H Hbin. destruct R as [g|g|l|l|g l]; simpl in H.
  - apply Qleb_iff in H. exact H.
  - apply Qleb_iff in H. exact H.
  - intros c Hc. rewrite forallb_forall in H. specialize (H c (proj2 (in_all_projects I c) Hc)).
    dand H H3. dand H H2. apply Qleb_iff in H, H2, H3. split; [exact H|].
    destruct (memb c (alloc_of I a)) eqn:Em.
    + apply memb_In in Em. pose proof (x_selected I a c Hbin Em) as Hx.
      assert (E1 : (1 - xv a c) * relax_cap I == 0) by (rewrite Hx; ring).
      assert (E2 : (xv a c - 1) * relax_cap I == 0) by (rewrite Hx; ring).
      apply Qle_antisym; lra.
    + apply memb_false_In in Em. pose proof (x_unselected I a c Hbin Hc Em) as Hx.
      assert (E1 : (1 - xv a c) * relax_cap I == relax_cap I) by (rewrite Hx; ring).
      assert (E2 : (xv a c - 1) * relax_cap I == - relax_cap I) by (rewrite Hx; ring).
      split; lra.
  - intros c Hc. rewrite forallb_forall in H. apply Qleb_iff. apply H. apply in_all_projects. exact Hc.
  - dand H H3. dand H H2. apply Qleb_iff in H, H3. split; [exact H|]. split; [|exact H3].
    intros c Hc. rewrite forallb_forall in H2. apply Qleb_iff. apply H2. apply in_all_projects. exact Hc.
Qed.

Theorem encoding_sound_g I A alloc stable exh rel a :
  ps_constraints_g I A alloc stable exh rel a = true -> binary I a ->
  feasible I (alloc_of I a)
  /\ price_system_g I A (alloc_of I a) (a_b a) (pv a) (rcost I rel) stable exh
  /\ (forall W0, alloc = Some W0 -> forall c, (c < nproj I)%nat -> (In c (alloc_of I a) <-> In c W0))
  /\ (alloc = None -> exh = false -> budget I <= a_b a * Qnat (length A))
  /\ (forall R, rel = Some R -> stable = true -> relax_range I A (alloc_of I a) (a_b a) (pv a) R).
Proof.
  intros H Hbin. unfold ps_constraints_g in H. cbv zeta in H.
  dand H Hbeta. dand H Hlast. dand H Hc4. dand H Hc3. dand H Hc2. dand H Hc1. dand H Hex. dand H Hc0a.
  dand H Ham. dand H Hauxb. dand H Hpb.
  rewrite forallb2_forall in Hpb. rewrite forallb2_forall in Hc1. rewrite forallb2_forall in Hc4.
  rewrite forallb_forall in Hauxb, Hc2, Hc3.
  apply Qleb_iff in Hc0a. rewrite <- (tcost_alloc_of I a Hbin) in Hc0a.
  assert (Hsel := x_selected I a). assert (Huns := x_unselected I a).
  assert (Hclaim : stable = true -> forall i, (i < length A)%nat ->
            stable_claim I (a_b a) (pv a) i <= auxv a i).
  { intros -> i Hi. simpl in Hlast. dand Hlast Hrow. rewrite forallb_forall in Hlast.
    specialize (Hlast i (proj2 (in_voters A i) Hi)). dand Hlast Hl2.
    apply Qleb_iff in Hl2. rewrite forallb_forall in Hlast.
    unfold stable_claim. apply Q.max_lub; [|exact Hl2].
    apply maxpay_le.
    - apply Qleb_iff. apply Hauxb. apply in_voters. exact Hi.
    - intros c' Hc'. apply Qleb_iff. apply Hlast. apply in_all_projects. exact Hc'. }
  split; [|split; [|split; [|split]]].
  - unfold feasible. split; [|split].
    + unfold alloc_of. apply NoDup_filter. unfold all_projects. apply seq_NoDup.
    + intros p Hp. apply in_alloc_of in Hp. tauto.
    + exact Hc0a.
  - unfold price_system_g.
    refine (conj Hc0a (conj _ (conj _ (conj _ (conj _ (conj _ (conj _ _))))))).
    + intros He c Hc Hn. rewrite He in Hex. rewrite forallb_forall in Hex.
      specialize (Hex c (proj2 (in_all_projects I c) Hc)). apply Qleb_iff in Hex.
      rewrite <- (tcost_alloc_of I a Hbin) in Hex.
      assert (E : xv a c * bigM I == 0) by (rewrite (Huns c Hbin Hc Hn); ring). lra.
    + intros i c Hi Hc. apply Qleb_iff. apply Hpb; [apply in_voters|apply in_all_projects]; assumption.
    + intros i c Hi Hc Ha.
      specialize (Hc1 i c (proj2 (in_voters A i) Hi) (proj2 (in_all_projects I c) Hc)).
      rewrite Ha in Hc1. simpl in Hc1. apply Qeqb_iff in Hc1. exact Hc1.
    + intros i Hi. apply Qleb_iff. apply Hc2. apply in_voters. exact Hi.
    + intros c Hc. assert (Hc' := Hc). apply in_alloc_of in Hc'. destruct Hc' as [Hc' _].
      specialize (Hc3 c (proj2 (in_all_projects I c) Hc')). dand Hc3 Hc3'.
      apply Qleb_iff in Hc3, Hc3'.
      assert (E : (xv a c - 1) * bigM I == 0) by (rewrite (Hsel c Hbin Hc); ring).
      unfold paid_for. apply Qle_antisym; lra.
    + intros c Hc Hn. unfold paid_for. apply Qsum_map_zero. intros i Hi.
      specialize (Hc4 i c Hi (proj2 (in_all_projects I c) Hc)). dand Hc4 Hc4'.
      apply Qleb_iff in Hc4, Hc4'.
      assert (E : xv a c * bigM I == 0) by (rewrite (Huns c Hbin Hc Hn); ring).
      apply Qle_antisym; lra.
    + destruct stable; simpl in Hlast; dand Hlast Hrow; rewrite forallb_forall in Hlast, Hrow;
        intros c Hc Hn; specialize (Hrow c (proj2 (in_all_projects I c) Hc)); apply Qleb_iff in Hrow.
      * assert (E : xv a c * s5_inf I rel == 0) by (rewrite (Huns c Hbin Hc Hn); ring).
        eapply Qle_trans; [apply Qsum_map_le|].
        2: { rewrite E in Hrow. rewrite Qplus_0_r in Hrow. exact Hrow. }
        intros i Hi. apply in_supporters in Hi. destruct Hi as [Hi _].
        apply (Hclaim eq_refl i Hi).
      * assert (E : xv a c * bigM I == 0) by (rewrite (Huns c Hbin Hc Hn); ring).
        rewrite E in Hrow. rewrite Qplus_0_r in Hrow.
        eapply Qle_trans; [|exact Hrow]. apply Qle_lteq. right. apply Qsum_map_ext.
        intros i Hi. apply in_supporters in Hi. destruct Hi as [Hi _].
        specialize (Hlast i (proj2 (in_voters A i) Hi)). apply Qeqb_iff in Hlast.
        rewrite Hlast. reflexivity.
  - intros W0 -> c Hc. rewrite forallb_forall in Ham.
    specialize (Ham c (proj2 (in_all_projects I c) Hc)). rewrite in_alloc_of.
    destruct (memb c W0) eqn:Em.
    + apply memb_In in Em. apply Qeqb_iff in Ham. split; [intros _; exact Em|].
      intros _. split; [exact Hc|]. apply Qleb_iff. rewrite Ham. lra.
    + apply memb_false_In in Em. apply Qeqb_iff in Ham. split; [|contradiction].
      intros [_ Hx]. apply Qleb_iff in Hx. rewrite Ham in Hx. lra.
  - intros -> ->. apply Qleb_iff in Hex. exact Hex.
  - intros R -> ->. simpl in Hbeta. simpl in Hlast. dand Hlast Hrow. rewrite forallb_forall in Hrow.
    split; [|exact (relax_rows_range I R a Hbeta Hbin)].
    intros c Hc. assert (Hc' := Hc). apply in_alloc_of in Hc'. destruct Hc' as [Hc' _].
    specialize (Hrow c (proj2 (in_all_projects I c) Hc')). apply Qleb_iff in Hrow. simpl in Hrow.
    assert (E : xv a c * relax_INF I == relax_INF I) by (rewrite (Hsel c Hbin Hc); ring).
    rewrite E in Hrow. eapply Qle_trans; [apply Qsum_map_le|exact Hrow].
    intros i Hi. apply in_supporters in Hi. destruct Hi as [Hi _]. apply (Hclaim eq_refl i Hi).
Qed.

Theorem encoding_sound I A alloc stable exh a :
  ps_constraints I A alloc stable exh a = true -> binary I a ->
  feasible I (alloc_of I a)
  /\ price_system I A (alloc_of I a) (a_b a) (pv a) stable exh
  /\ (forall W0, alloc = Some W0 -> forall c, (c < nproj I)%nat -> (In c (alloc_of I a) <-> In c W0))
  /\ (alloc = None -> exh = false -> budget I <= a_b a * Qnat (length A)).
Proof.
  intros H Hbin. destruct (encoding_sound_g I A alloc stable exh None a H Hbin) as (H1 & H2 & H3 & H4 & _).
  auto.
Qed.


(* ================================================================================================ *)
(* the MIP encoding: completeness under the hypotheses the proof forces *)

Lemma nth_map_seq {T} (f : nat -> T) n i d : (i < n)%nat -> nth i (map f (seq 0 n)) d = f i.
Proof.
  intros H. rewrite (nth_indep _ d (f 0%nat)) by (rewrite map_length, seq_length; exact H).
  rewrite map_nth. rewrite seq_nth by exact H. reflexivity.
Qed.

Lemma pv_asg I A W b pay stable i c :
  (i < length A)%nat -> (c < nproj I)%nat -> pv (asg_of I A W b pay stable) i c = pay i c.
Proof.
  intros Hi Hc. unfold pv, pay_of, asg_of, voters, all_projects. simpl.
  rewrite (nth_map_seq (fun i => map (pay i) (seq 0 (nproj I))) (length A) i [] Hi).
  apply (nth_map_seq (pay i) (nproj I) c 0 Hc).
Qed.

Lemma xv_asg I A W b pay stable c :
  (c < nproj I)%nat -> xv (asg_of I A W b pay stable) c = if memb c W then 1 else 0.
Proof.
  intros Hc. unfold xv, asg_of, all_projects. simpl.
  apply (nth_map_seq (fun c => if memb c W then 1 else 0) (nproj I) c 0 Hc).
Qed.

Lemma auxv_asg I A W b pay stable i :
  (i < length A)%nat ->
  auxv (asg_of I A W b pay stable) i = if stable then stable_claim I b pay i else leftover I b pay i.
Proof.
  intros Hi. unfold auxv, asg_of, voters. simpl.
  apply (nth_map_seq (fun i => if stable then stable_claim I b pay i else leftover I b pay i) (length A) i 0 Hi).
Qed.

Lemma filter_len_le {T} (f : T -> bool) l : (length (filter f l) <= length l)%nat.
Proof. induction l as [|x l IH]; simpl; [lia|]. destruct (f x); simpl; lia. Qed.

Lemma Qsum_indicator (f : nat -> Q) (W l : list nat) :
  Qsum (map (fun c => (if memb c W then 1 else 0) * f c) l)
  == Qsum (map f (filter (fun c => memb c W) l)).
Proof.
  induction l as [|c l IH]; simpl; [reflexivity|].
  destruct (memb c W); simpl; rewrite IH; ring.
Qed.

Lemma filter_memb_perm I W : wf_alloc I W -> Permutation (filter (fun c => memb c W) (all_projects I)) W.
Proof.
  intros [Hnd Hr]. apply NoDup_Permutation.
  - apply NoDup_filter. unfold all_projects. apply seq_NoDup.
  - exact Hnd.
  - intros c. rewrite filter_In, in_all_projects, memb_In. split; [tauto|]. intros H. split; [apply Hr|]; exact H.
Qed.

Lemma cost_total_indicator I W :
  wf_alloc I W ->
  Qsum (map (fun c => (if memb c W then 1 else 0) * cost I c) (all_projects I)) == tcost I W.
Proof.
  intros Hwf. rewrite Qsum_indicator. apply (tcost_perm I). apply filter_memb_perm. exact Hwf.
Qed.

Lemma bigM_ge_budget I : 10 * budget I <= bigM I.
Proof.
  unfold bigM, BIGM_FACTOR. pose proof (fold_Qmax_ge_init (costs I) (budget I)). lra.
Qed.

Lemma bigM_ge_cost I c : (c < nproj I)%nat -> 10 * cost I c <= bigM I.
Proof.
  intros Hc. unfold bigM, BIGM_FACTOR.
  assert (H : cost I c <= fold_left Qmax (costs I) (budget I)).
  { apply fold_Qmax_ge_in. unfold cost. apply nth_In. exact Hc. }
  lra.
Qed.

Theorem encoding_complete_g I A W b pay stable exh alloc rel :
  Forall (fun c => 0 <= c) (costs I) ->
  wf_alloc I W ->
  price_system_g I A W b pay (rcost I rel) stable exh ->
  0 <= b ->
  alloc = None \/ alloc = Some W ->
  (* the "+ 1" of row C0b: every project that does not fit misses the budget by at least 1 *)
  (exh = true -> 1 <= budget I /\
      forall c, (c < nproj I)%nat -> ~ In c W -> budget I + 1 <= tcost I W + cost I c) ->
  (* the "no empty allocation" row of the searched, non-exhaustive call *)
  (alloc = None -> exh = false -> budget I <= b * Qnat (length A)) ->
  (* the big-M rows C5 / S5 of selected projects *)
  (rel = None -> Qnat (length A) * b <= bigM I) ->
  (* a relaxation: stable call, parameters within the ranges its rows impose *)
  (forall R, rel = Some R -> stable = true /\ relax_range I A W b pay R) ->
  let a := asg_of I A W b pay stable in
  ps_constraints_g I A alloc stable exh rel a = true /\ binary I a
  /\ (forall c, (c < nproj I)%nat -> (In c (alloc_of I a) <-> In c W)).
Proof.
  intros Hcost Hwf (H0a & H0b & HP0 & HC1 & HC2 & HC3 & HC4 & HC5) Hb Halloc Hgap Hlb HM Hrel a.
  assert (Hcnn : forall c, 0 <= cost I c) by (intros c; apply cost_nonneg; exact Hcost).
  assert (Hx : forall c, (c < nproj I)%nat -> xv a c = if memb c W then 1 else 0)
    by (intros c Hc; apply xv_asg; exact Hc).
  assert (Hpv : forall i c, (i < length A)%nat -> (c < nproj I)%nat -> pv a i c = pay i c)
    by (intros i c Hi Hc; apply pv_asg; assumption).
  assert (Haux : forall i, (i < length A)%nat ->
            auxv a i = if stable then stable_claim I b pay i else leftover I b pay i)
    by (intros i Hi; apply auxv_asg; exact Hi).
  assert (Hsp : forall i, (i < length A)%nat -> Qsum (map (pv a i) (all_projects I)) = spent I pay i).
  { intros i Hi. unfold spent. f_equal. apply map_ext_in. intros c Hc. apply pv_asg; [exact Hi|].
    apply in_all_projects. exact Hc. }
  assert (Hpt : forall c, (c < nproj I)%nat ->
            Qsum (map (fun i => pv a i c) (voters A)) = paid_for A pay c).
  { intros c Hc. unfold paid_for. f_equal. apply map_ext_in. intros i Hi. apply pv_asg; [|exact Hc].
    apply in_voters. exact Hi. }
  assert (Hct : Qsum (map (fun c => xv a c * cost I c) (all_projects I)) == tcost I W).
  { rewrite <- (cost_total_indicator I W Hwf). apply Qsum_map_ext. intros c Hc.
    rewrite Hx by (apply in_all_projects; exact Hc). reflexivity. }
  assert (Hauxs : forall c, Qsum (map (auxv a) (supporters A c)) =
            if stable then Qsum (map (stable_claim I b pay) (supporters A c))
            else Qsum (map (leftover I b pay) (supporters A c))).
  { intros c. destruct stable; f_equal; apply map_ext_in; intros i Hi; apply in_supporters in Hi;
      rewrite Haux by tauto; reflexivity. }
  assert (Hsnn : forall i, (i < length A)%nat -> 0 <= spent I pay i)
    by (intros i Hi; apply (spent_nonneg I A pay i HP0 Hi)).
  assert (Hleft_b : forall i, (i < length A)%nat -> leftover I b pay i <= b).
  { intros i Hi. unfold leftover. specialize (Hsnn i Hi). lra. }
  assert (Hpay_sp : forall i c, (i < length A)%nat -> (c < nproj I)%nat -> pay i c <= spent I pay i).
  { intros i c Hi Hc. unfold spent. apply (Qsum_map_ge_term (pay i)).
    - intros c' Hc'. apply HP0; [exact Hi|apply in_all_projects; exact Hc'].
    - apply in_all_projects. exact Hc. }
  assert (Hclaim_b : forall i, (i < length A)%nat -> stable_claim I b pay i <= b).
  { intros i Hi. unfold stable_claim. apply Q.max_lub; [|apply Hleft_b; exact Hi].
    apply maxpay_le; [exact Hb|]. intros c Hc.
    eapply Qle_trans; [apply Hpay_sp; assumption|apply HC2; exact Hi]. }
  assert (Hpay_paid : forall i c, (i < length A)%nat -> (c < nproj I)%nat -> pay i c <= paid_for A pay c).
  { intros i c Hi Hc. unfold paid_for. apply (Qsum_map_ge_term (fun i => pay i c)).
    - intros i' Hi'. apply HP0; [apply in_voters; exact Hi'|exact Hc].
    - apply in_voters. exact Hi. }
  assert (Hsupp_len : forall c, (length (supporters A c) <= length A)%nat).
  { intros c. unfold supporters. eapply Nat.le_trans; [apply filter_len_le|].
    unfold voters. rewrite seq_length. apply Nat.le_refl. }
  assert (Hbig_sel : rel = None -> forall c (g : nat -> Q), (forall i, (i < length A)%nat -> g i <= b) ->
            Qsum (map g (supporters A c)) <= bigM I).
  { intros Hnone c g Hg. specialize (HM Hnone). eapply Qle_trans; [apply (Qsum_map_bound g (supporters A c) b)|].
    - intros i Hi. apply in_supporters in Hi. apply Hg. tauto.
    - eapply Qle_trans; [|exact HM]. apply Qmult_le_compat_r; [|exact Hb].
      apply Qnat_le. apply Hsupp_len. }
  split; [|split].
  - unfold ps_constraints_g. cbv zeta. repeat (apply andb_true_iff; split).
    + apply Qleb_iff. exact Hb.
    + apply forallb2_forall. intros i c Hi Hc. apply in_voters in Hi. apply in_all_projects in Hc.
      rewrite (Hpv i c Hi Hc). apply Qleb_iff. apply HP0; assumption.
    + apply forallb_forall. intros i Hi. apply in_voters in Hi. apply Qleb_iff.
      rewrite (Haux i Hi). destruct stable.
      * eapply Qle_trans; [apply (maxpay_nonneg I A pay i HP0 Hi)|apply Q.le_max_l].
      * unfold leftover. specialize (HC2 i Hi). lra.
    + destruct Halloc as [->| ->]; [reflexivity|]. apply forallb_forall. intros c Hc.
      apply in_all_projects in Hc. rewrite (Hx c Hc). destruct (memb c W); reflexivity.
    + apply Qleb_iff. rewrite Hct. exact H0a.
    + destruct exh.
      * destruct (Hgap eq_refl) as [HB1 Hg]. apply forallb_forall. intros c Hc.
        apply in_all_projects in Hc. apply Qleb_iff. rewrite Hct. rewrite (Hx c Hc).
        destruct (memb c W) eqn:Em.
        -- pose proof (bigM_ge_budget I). pose proof (tcost_nonneg I W Hcost). specialize (Hcnn c). lra.
        -- apply memb_false_In in Em. specialize (Hg c Hc Em). lra.
      * destruct Halloc as [->| ->]; [|reflexivity]. apply Qleb_iff. apply Hlb; reflexivity.
    + apply forallb2_forall. intros i c Hi Hc. apply in_voters in Hi. apply in_all_projects in Hc.
      rewrite (Hpv i c Hi Hc).
      destruct (appr A i c) eqn:Ea; [reflexivity|]. simpl. apply Qeqb_iff. apply HC1; assumption.
    + apply forallb_forall. intros i Hi. apply in_voters in Hi. rewrite (Hsp i Hi).
      apply Qleb_iff. apply HC2. exact Hi.
    + apply forallb_forall. intros c Hc. apply in_all_projects in Hc. rewrite (Hpt c Hc), (Hx c Hc).
      pose proof (bigM_ge_cost I c Hc) as HMc. specialize (Hcnn c).
      destruct (memb c W) eqn:Em.
      * apply memb_In in Em. specialize (HC3 c Em).
        apply andb_true_iff. split; apply Qleb_iff; rewrite HC3; lra.
      * apply memb_false_In in Em. specialize (HC4 c Hc Em).
        apply andb_true_iff. split; apply Qleb_iff; rewrite HC4; lra.
    + apply forallb2_forall. intros i c Hi Hc. apply in_voters in Hi. apply in_all_projects in Hc.
      rewrite (Hpv i c Hi Hc), (Hx c Hc).
      pose proof (HP0 i c Hi Hc) as Hp. pose proof (Hpay_paid i c Hi Hc) as Hpp.
      pose proof (bigM_ge_cost I c Hc) as HMc. specialize (Hcnn c).
      apply andb_true_iff. split; apply Qleb_iff; [exact Hp|].
      destruct (memb c W) eqn:Em.
      * apply memb_In in Em. rewrite (HC3 c Em) in Hpp. lra.
      * apply memb_false_In in Em. rewrite (HC4 c Hc Em) in Hpp. lra.
    + destruct stable; simpl; apply andb_true_iff; split.
      * apply forallb_forall. intros i Hi. apply in_voters in Hi.
        rewrite (Haux i Hi), (Hsp i Hi).
        apply andb_true_iff. split.
        -- apply forallb_forall. intros c Hc. apply in_all_projects in Hc.
           rewrite (Hpv i c Hi Hc). apply Qleb_iff.
           eapply Qle_trans; [apply (maxpay_ge I pay i c Hc)|apply Q.le_max_l].
        -- apply Qleb_iff. apply Q.le_max_r.
      * apply forallb_forall. intros c Hc. apply in_all_projects in Hc.
        rewrite Hauxs, (Hx c Hc). apply Qleb_iff. specialize (Hcnn c).
        destruct (memb c W) eqn:Em.
        -- destruct rel as [R|].
           ++ destruct (Hrel R eq_refl) as [_ [Hsel _]]. apply memb_In in Em. specialize (Hsel c Em).
              simpl rcost. simpl s5_inf. lra.
           ++ pose proof (Hbig_sel eq_refl c (stable_claim I b pay) Hclaim_b). simpl rcost. simpl s5_inf. lra.
        -- apply memb_false_In in Em. specialize (HC5 c Hc Em). simpl in HC5. lra.
      * apply forallb_forall. intros i Hi. apply in_voters in Hi.
        rewrite (Haux i Hi), (Hsp i Hi).
        apply Qeqb_iff. reflexivity.
      * apply forallb_forall. intros c Hc. apply in_all_projects in Hc.
        rewrite Hauxs, (Hx c Hc). apply Qleb_iff. specialize (Hcnn c).
        destruct (memb c W) eqn:Em.
        -- destruct rel as [R|]; [destruct (Hrel R eq_refl) as [Hst _]; discriminate Hst|].
           pose proof (Hbig_sel eq_refl c (leftover I b pay) Hleft_b). lra.
        -- apply memb_false_In in Em. specialize (HC5 c Hc Em). simpl in HC5. lra.
    + destruct rel as [R|]; [|reflexivity]. destruct (Hrel R eq_refl) as [_ [_ Hk]].
      destruct R as [g|g|l|l|g l]; simpl.
      * apply Qleb_iff. exact Hk.
      * apply Qleb_iff. exact Hk.
      * apply forallb_forall. intros c Hc. apply in_all_projects in Hc. rewrite (Hx c Hc).
        destruct (Hk c Hc) as [Hlo Hcap]. destruct (memb c W).
        -- repeat (apply andb_true_iff; split); apply Qleb_iff; lra.
        -- repeat (apply andb_true_iff; split); apply Qleb_iff; lra.
      * apply forallb_forall. intros c Hc. apply in_all_projects in Hc. apply Qleb_iff. apply Hk. exact Hc.
      * destruct Hk as (Hg & Hnn & Hsum). repeat (apply andb_true_iff; split).
        -- apply Qleb_iff. exact Hg.
        -- apply forallb_forall. intros c Hc. apply in_all_projects in Hc. apply Qleb_iff. apply Hnn. exact Hc.
        -- apply Qleb_iff. exact Hsum.
  - intros c Hc. rewrite (Hx c Hc). destruct (memb c W); [right|left]; reflexivity.
  - intros c Hc. rewrite in_alloc_of. rewrite (Hx c Hc). destruct (memb c W) eqn:Em.
    + apply memb_In in Em. split; [intros _; exact Em|]. intros _. split; [exact Hc|reflexivity].
    + apply memb_false_In in Em. split; [|contradiction]. intros [_ Hq]. discriminate Hq.
Qed.

Theorem encoding_complete I A W b pay stable exh alloc :
  Forall (fun c => 0 <= c) (costs I) ->
  wf_alloc I W ->
  price_system I A W b pay stable exh ->
  0 <= b ->
  alloc = None \/ alloc = Some W ->
  (* the "+ 1" of row C0b: every project that does not fit misses the budget by at least 1 *)
  (exh = true -> 1 <= budget I /\
      forall c, (c < nproj I)%nat -> ~ In c W -> budget I + 1 <= tcost I W + cost I c) ->
  (* the "no empty allocation" row of the searched, non-exhaustive call *)
  (alloc = None -> exh = false -> budget I <= b * Qnat (length A)) ->
  (* the big-M rows C5 / S5 of selected projects *)
  Qnat (length A) * b <= bigM I ->
  let a := asg_of I A W b pay stable in
  ps_constraints I A alloc stable exh a = true /\ binary I a
  /\ (forall c, (c < nproj I)%nat -> (In c (alloc_of I a) <-> In c W)).
Proof.
  intros Hcost Hwf Hps Hb Halloc Hgap Hlb HM.
  apply (encoding_complete_g I A W b pay stable exh alloc None Hcost Hwf Hps Hb Halloc Hgap Hlb (fun _ => HM)).
  discriminate.
Qed.

(* ================================================================================================ *)
(* infeasible allocations *)

Theorem infeasible_never_priceable I A W stable exh :
  budget I < tcost I W ->
  (forall b pay, ~ price_system I A W b pay stable exh)
  /\ (forall b P, validate_ps I A W b P stable exh = false)
  /\ (wf_alloc I W -> forall a, binary I a -> ps_constraints I A (Some W) stable exh a = false).
Proof.
  intros Hinf. split; [|split].
  - intros b pay (H0a & _). unfold C0a in H0a. lra.
  - intros b P. unfold validate_ps, validate_ps_g. cbv zeta.
    assert (E : Qleb (tcost I W) (budget I) = false) by (apply Qleb_false_iff; exact Hinf).
    rewrite E. reflexivity.
  - intros [Hnd Hr] a Hbin. destruct (ps_constraints I A (Some W) stable exh a) eqn:E; [|reflexivity].
    exfalso. destruct (encoding_sound I A (Some W) stable exh a E Hbin) as (Hf & _ & Heq & _).
    destruct Hf as (Hnd' & Hr' & Hle).
    assert (HP : Permutation (alloc_of I a) W).
    { apply NoDup_Permutation; [exact Hnd'|exact Hnd|]. intros c. split; intros Hc.
      - apply (Heq W eq_refl c (Hr' c Hc)). exact Hc.
      - apply (Heq W eq_refl c (Hr c Hc)). exact Hc. }
    rewrite (tcost_perm I _ _ HP) in Hle. lra.
Qed.

(* ================================================================================================ *)
(* where the hypotheses of encoding_complete come from: integral data, at most ten voters *)

Definition integral (q : Q) : Prop := exists z : Z, q == inject_Z z.

Lemma integral_0 : integral 0.
Proof. exists 0%Z. reflexivity. Qed.

Lemma integral_plus a b : integral a -> integral b -> integral (a + b).
Proof. intros [x Hx] [y Hy]. exists (x + y)%Z. rewrite inject_Z_plus, Hx, Hy. reflexivity. Qed.

Lemma integral_Qsum l : Forall integral l -> integral (Qsum l).
Proof. induction 1; simpl; [apply integral_0|apply integral_plus; assumption]. Qed.

Lemma integral_gap a b : integral a -> integral b -> a < b -> a + 1 <= b.
Proof.
  intros [x Hx] [y Hy] H. rewrite Hx, Hy in *. rewrite <- Zlt_Qlt in H.
  change 1 with (inject_Z 1). rewrite <- inject_Z_plus, <- Zle_Qle. lia.
Qed.

Lemma integral_cost I c : Forall integral (costs I) -> integral (cost I c).
Proof.
  intros H. unfold cost. destruct (Nat.lt_ge_cases c (length (costs I))) as [Hlt|Hge].
  - rewrite Forall_forall in H. apply H. apply nth_In. exact Hlt.
  - rewrite nth_overflow by exact Hge. apply integral_0.
Qed.

Lemma integral_tcost I W : Forall integral (costs I) -> integral (tcost I W).
Proof.
  intros H. unfold tcost. apply integral_Qsum. rewrite Forall_forall. intros x Hx.
  apply in_map_iff in Hx. destruct Hx as [c [<- _]]. apply integral_cost. exact H.
Qed.

Lemma exhaustive_gap I W :
  integral (budget I) -> Forall integral (costs I) -> C0b I W ->
  forall c, (c < nproj I)%nat -> ~ In c W -> budget I + 1 <= tcost I W + cost I c.
Proof.
  intros HB Hc H c Hlt Hn. apply integral_gap; [exact HB| |apply H; assumption].
  apply integral_plus; [apply integral_tcost|apply integral_cost]; exact Hc.
Qed.

(* a price system stays one when the voter budget is lowered to anything that still covers every voter's spending *)
Lemma ps_shrink_g I A W b pay rc stable exh b' :
  price_system_g I A W b pay rc stable exh -> b' <= b ->
  (forall i, (i < length A)%nat -> spent I pay i <= b') ->
  price_system_g I A W b' pay rc stable exh.
Proof.
  intros (H0a & H0b & HP0 & HC1 & HC2 & HC3 & HC4 & HC5) Hle Hsp.
  refine (conj H0a (conj H0b (conj HP0 (conj HC1 (conj Hsp (conj HC3 (conj HC4 _))))))).
  destruct stable; intros c Hc Hn; (eapply Qle_trans; [|apply (HC5 c Hc Hn)]); apply Qsum_map_le; intros i _.
  - unfold stable_claim. apply Q.max_le_compat_l. unfold leftover. lra.
  - unfold leftover. lra.
Qed.

Lemma ps_shrink I A W b pay stable exh b' :
  price_system I A W b pay stable exh -> b' <= b ->
  (forall i, (i < length A)%nat -> spent I pay i <= b') ->
  price_system I A W b' pay stable exh.
Proof. exact (ps_shrink_g I A W b pay (cost I) stable exh b'). Qed.

Lemma paid_indicator I A W pay c :
  C3 I A W pay -> C4 I A W pay -> (c < nproj I)%nat ->
  paid_for A pay c == (if memb c W then 1 else 0) * cost I c.
Proof.
  intros H3 H4 Hc. destruct (memb c W) eqn:Em.
  - apply memb_In in Em. rewrite (H3 c Em). ring.
  - apply memb_false_In in Em. rewrite (H4 c Hc Em). ring.
Qed.

Lemma spent_le_budget I A W b pay stable exh i :
  wf_alloc I W -> price_system I A W b pay stable exh -> (i < length A)%nat -> spent I pay i <= budget I.
Proof.
  intros Hwf (H0a & _ & HP0 & _ & _ & HC3 & HC4 & _) Hi.
  eapply Qle_trans; [|exact H0a]. rewrite <- (cost_total_indicator I W Hwf).
  eapply Qle_trans.
  - unfold spent. apply (Qsum_map_le (pay i) (paid_for A pay)). intros c Hc. apply in_all_projects in Hc.
    unfold paid_for. apply (Qsum_map_ge_term (fun i => pay i c)).
    + intros i' Hi'. apply HP0; [apply in_voters; exact Hi'|exact Hc].
    + apply in_voters. exact Hi.
  - apply Qle_lteq. right. apply Qsum_map_ext. intros c Hc. apply in_all_projects in Hc.
    apply (paid_indicator I A W pay c HC3 HC4 Hc).
Qed.

(* completeness of priceable(instance, profile, W, ...) on the instances of the property's quantifier *)
Theorem encoding_complete_int I A W stable exh :
  Forall (fun c => 0 <= c) (costs I) -> integral (budget I) -> Forall integral (costs I) ->
  1 <= budget I -> (0 < length A <= 10)%nat -> wf_alloc I W ->
  priceable_spec I A W stable exh ->
  exists a, ps_constraints I A (Some W) stable exh a = true /\ binary I a
            /\ (forall c, (c < nproj I)%nat -> (In c (alloc_of I a) <-> In c W)).
Proof.
  intros Hcost HBi Hci HB1 [Hn0 Hn10] Hwf [b [pay Hps]].
  set (b' := fold_left Qmax (map (spent I pay) (voters A)) 0).
  assert (Hb'0 : 0 <= b') by apply fold_Qmax_ge_init.
  assert (Hsp : forall i, (i < length A)%nat -> spent I pay i <= b').
  { intros i Hi. apply fold_Qmax_ge_in. apply in_map. apply in_voters. exact Hi. }
  assert (Hb0 : 0 <= b).
  { destruct Hps as (_ & _ & HP0 & _ & HC2 & _).
    eapply Qle_trans; [apply (spent_nonneg I A pay 0%nat HP0 Hn0)|apply HC2; exact Hn0]. }
  assert (Hb'b : b' <= b).
  { apply fold_Qmax_le; [exact Hb0|]. intros y Hy. apply in_map_iff in Hy. destruct Hy as [i [<- Hi]].
    destruct Hps as (_ & _ & _ & _ & HC2 & _). apply HC2. apply in_voters. exact Hi. }
  assert (Hb'B : b' <= budget I).
  { apply fold_Qmax_le; [lra|]. intros y Hy. apply in_map_iff in Hy. destruct Hy as [i [<- Hi]].
    apply (spent_le_budget I A W b pay stable exh i Hwf Hps). apply in_voters. exact Hi. }
  pose proof (ps_shrink I A W b pay stable exh b' Hps Hb'b Hsp) as Hps'.
  exists (asg_of I A W b' pay stable).
  apply (encoding_complete I A W b' pay stable exh (Some W) Hcost Hwf Hps' Hb'0 (or_intror eq_refl)).
  - intros He. split; [exact HB1|]. destruct Hps as (_ & H0b & _).
    apply exhaustive_gap; [exact HBi|exact Hci|apply H0b; exact He].
  - discriminate.
  - eapply Qle_trans; [|apply bigM_ge_budget].
    assert (Hq : Qnat (length A) <= 10).
    { change 10 with (Qnat 10). apply Qnat_le. exact Hn10. }
    pose proof (Qnat_nonneg (length A)). nra.
Qed.

(* the same for both call shapes: [b0] is a floor under the shrunk voter budget (0 for a given allocation,
   budget / n for the searched non-exhaustive call, whose extra row asks for budget <= n * b) *)
Lemma encoding_complete_floor I A W stable exh alloc b pay b0 :
  Forall (fun c => 0 <= c) (costs I) -> integral (budget I) -> Forall integral (costs I) ->
  1 <= budget I -> (0 < length A <= 10)%nat -> wf_alloc I W ->
  price_system I A W b pay stable exh ->
  alloc = None \/ alloc = Some W ->
  0 <= b0 -> b0 <= b -> b0 <= budget I ->
  (alloc = None -> exh = false -> budget I <= b0 * Qnat (length A)) ->
  exists a, ps_constraints I A alloc stable exh a = true /\ binary I a
            /\ (forall c, (c < nproj I)%nat -> (In c (alloc_of I a) <-> In c W)).
Proof.
  intros Hcost HBi Hci HB1 [Hn0 Hn10] Hwf Hps Halloc Hb00 Hb0b Hb0B Hlb.
  set (b' := fold_left Qmax (map (spent I pay) (voters A)) b0).
  assert (Hb'0 : b0 <= b') by apply fold_Qmax_ge_init.
  assert (Hsp : forall i, (i < length A)%nat -> spent I pay i <= b').
  { intros i Hi. apply fold_Qmax_ge_in. apply in_map. apply in_voters. exact Hi. }
  assert (Hb'b : b' <= b).
  { apply fold_Qmax_le; [exact Hb0b|]. intros y Hy. apply in_map_iff in Hy. destruct Hy as [i [<- Hi]].
    destruct Hps as (_ & _ & _ & _ & HC2 & _). apply HC2. apply in_voters. exact Hi. }
  assert (Hb'B : b' <= budget I).
  { apply fold_Qmax_le; [exact Hb0B|]. intros y Hy. apply in_map_iff in Hy. destruct Hy as [i [<- Hi]].
    apply (spent_le_budget I A W b pay stable exh i Hwf Hps). apply in_voters. exact Hi. }
  pose proof (ps_shrink I A W b pay stable exh b' Hps Hb'b Hsp) as Hps'.
  exists (asg_of I A W b' pay stable).
  apply (encoding_complete I A W b' pay stable exh alloc Hcost Hwf Hps'); [lra|exact Halloc| | |].
  - intros He. split; [exact HB1|]. destruct Hps as (_ & H0b & _).
    apply exhaustive_gap; [exact HBi|exact Hci|apply H0b; exact He].
  - intros Ha He. specialize (Hlb Ha He). pose proof (Qnat_nonneg (length A)). nra.
  - eapply Qle_trans; [|apply bigM_ge_budget].
    assert (Hq : Qnat (length A) <= 10).
    { change 10 with (Qnat 10). apply Qnat_le. exact Hn10. }
    pose proof (Qnat_nonneg (length A)). nra.
Qed.

(* the searched call: if some allocation has a price system (with budget <= n * b when the call is
   non-exhaustive -- the library's "no empty allocation" row), the MIP has a solution selecting it *)
Theorem encoding_complete_search_int I A W stable exh b pay :
  Forall (fun c => 0 <= c) (costs I) -> integral (budget I) -> Forall integral (costs I) ->
  1 <= budget I -> (0 < length A <= 10)%nat -> wf_alloc I W ->
  price_system I A W b pay stable exh ->
  (exh = false -> budget I <= b * Qnat (length A)) ->
  exists a, ps_constraints I A None stable exh a = true /\ binary I a
            /\ (forall c, (c < nproj I)%nat -> (In c (alloc_of I a) <-> In c W)).
Proof.
  intros Hcost HBi Hci HB1 Hn Hwf Hps Hlb.
  assert (Hnq : 1 <= Qnat (length A)).
  { change 1 with (Qnat 1). apply Qnat_le. lia. }
  assert (Hb0 : 0 <= b).
  { destruct Hps as (_ & _ & HP0 & _ & HC2 & _). destruct Hn as [Hn0 _].
    eapply Qle_trans; [apply (spent_nonneg I A pay 0%nat HP0 Hn0)|apply HC2; exact Hn0]. }
  destruct exh.
  - apply (encoding_complete_floor I A W stable true None b pay 0 Hcost HBi Hci HB1 Hn Hwf Hps
             (or_introl eq_refl)); [lra|exact Hb0|lra|discriminate].
  - specialize (Hlb eq_refl).
    assert (Hdiv : budget I / Qnat (length A) * Qnat (length A) == budget I) by (field; lra).
    set (b0 := budget I / Qnat (length A)) in *.
    assert (H0 : 0 <= b0) by nra.
    apply (encoding_complete_floor I A W stable false None b pay b0 Hcost HBi Hci HB1 Hn Hwf Hps
             (or_introl eq_refl) H0); [nra|nra|intros _ _; lra].
Qed.

(* outside the hypotheses: with a fractional cost the "+ 1" of row C0b makes the MIP reject an allocation that
   is exhaustive and priceable (a signal for the code, outside the quantifier of the property) *)
Lemma fractional_cost_incomplete :
  let I := mkInst [1; 1 # 2] 1 in
  let A := [[0%nat]] in
  priceable_spec I A [0%nat] false true
  /\ forall a, ps_constraints I A (Some [0%nat]) false true a = false.
Proof.
  intros I A. split.
  - exists 1, (pay_of [[1; 0]]).
    apply (witness_checker_sound I A [0%nat] 1 [[1; 0]] false true). vm_compute. reflexivity.
  - intros a. destruct (ps_constraints I A (Some [0%nat]) false true a) eqn:E; [|reflexivity]. exfalso.
    unfold ps_constraints, ps_constraints_g in E. cbv zeta in E.
    dand E Hbeta. dand E Hlast. dand E Hc4. dand E Hc3. dand E Hc2. dand E Hc1. dand E Hex. dand E Hc0a.
    dand E Ham. clear - Ham Hex.
    unfold I, all_projects, nproj in Ham, Hex. simpl in Ham, Hex.
    dand Ham Hx1. dand Hx1 Hx2. apply Qeqb_iff in Ham, Hx1.
    dand Hex He1. dand He1 He2. apply Qleb_iff in He1.
    unfold cost in He1. simpl in He1.
    set (x0 := xv a 0%nat) in *. set (x1 := xv a 1%nat) in *. set (M := bigM _) in *.
    assert (E1 : x1 * M == 0) by (rewrite Hx1; ring). lra.
Qed.
