(* Proofs/InstanceP.v -- facts about Model/InstanceM.v used by Props/C15.v (and C10). *)
From PB Require Import Model.InstanceM.
Open Scope Q_scope.

(* ---------- feasibility / exhaustiveness ---------- *)

Lemma is_feasible_iff I W : is_feasible I W = true <-> tcost I W <= budget I.
Proof. unfold is_feasible. apply Qleb_iff. Qed.

Lemma is_exhaustive_iff I W avail :
  is_exhaustive I W avail = true <->
  (forall p, In p avail -> ~ In p W -> budget I < cost I p + tcost I W).
Proof.
  unfold is_exhaustive. rewrite forallb_forall. split.
  - intros H p Hp Hn. specialize (H p Hp). apply orb_true_iff in H. destruct H as [H|H].
    + apply memb_In in H. contradiction.
    + apply negb_true_iff in H. apply Qleb_false_iff in H. exact H.
  - intros H p Hp. apply orb_true_iff. destruct (memb p W) eqn:E; [left; reflexivity|right].
    apply memb_false_In in E. apply negb_true_iff. apply Qleb_false_iff. apply H; assumption.
Qed.

(* with the default [available_projects = self] this is the vocabulary's [exhaustive] *)
Lemma is_exhaustive_default I W :
  is_exhaustive I W (all_projects I) = true <-> exhaustive I W.
Proof.
  rewrite is_exhaustive_iff. unfold exhaustive, all_projects. split.
  - intros H p Hp Hn. rewrite Qplus_comm. apply H; [apply in_seq; lia|exact Hn].
  - intros H p Hp Hn. rewrite Qplus_comm. apply H; [apply in_seq in Hp; lia|exact Hn].
Qed.

(* ---------- powerset / budget_allocations ---------- *)

Lemma powerset_NoDup A (l : list A) : NoDup l -> NoDup (powerset l).
Proof.
  intros Hnd. unfold powerset.
  assert (G : forall rs, NoDup rs -> NoDup (flat_map (combs l) rs)).
  { induction rs as [|r rs IH]; intros Hrs; simpl; [constructor|].
    inversion Hrs as [|r0 rs0 Hr Hrs']; subst.
    apply NoDup_app_intro.
    - apply combs_NoDup. exact Hnd.
    - apply IH. exact Hrs'.
    - intros s H1 H2. apply combs_spec in H1. destruct H1 as [_ Hl1].
      apply in_flat_map in H2. destruct H2 as [r' [Hr' H2]].
      apply combs_spec in H2. destruct H2 as [_ Hl2]. apply Hr. replace r with r' by congruence. exact Hr'. }
  apply G. apply seq_NoDup.
Qed.

Lemma budget_allocations_In I enum S :
  In S (budget_allocations I enum) <-> sublist S enum /\ tcost I S <= budget I.
Proof.
  unfold budget_allocations. rewrite filter_In, powerset_spec, is_feasible_iff. tauto.
Qed.

Lemma budget_allocations_NoDup I enum : NoDup enum -> NoDup (budget_allocations I enum).
Proof. intros H. apply NoDup_filter. apply powerset_NoDup. exact H. Qed.

(* ---------- is_trivial ---------- *)

Lemma Qmin_list_le d l : Qmin_list d l <= d /\ Forall (fun x => Qmin_list d l <= x) l.
Proof.
  revert d. induction l as [|x r IH]; intros d; simpl.
  - split; [apply Qle_refl|constructor].
  - destruct (Qleb d x) eqn:E.
    + destruct (IH d) as [H1 H2]. apply Qleb_iff in E. split; [exact H1|].
      constructor; [eapply Qle_trans; eassumption|exact H2].
    + destruct (IH x) as [H1 H2]. apply Qleb_false_iff in E. split.
      * eapply Qle_trans; [exact H1|apply Qlt_le_weak; exact E].
      * constructor; assumption.
Qed.

Lemma Qmin_list_in d l : Qmin_list d l = d \/ In (Qmin_list d l) l.
Proof.
  revert d. induction l as [|x r IH]; intros d; simpl; [left; reflexivity|].
  destruct (Qleb d x).
  - destruct (IH d) as [H|H]; [left; exact H|right; right; exact H].
  - destruct (IH x) as [H|H]; [right; left; symmetry; exact H|right; right; exact H].
Qed.

Lemma is_trivial_iff I b :
  is_trivial I = Some b ->
  (b = true <-> (Qsum (costs I) <= budget I \/ forall c, In c (costs I) -> budget I < c)).
Proof.
  unfold is_trivial. destruct (Qleb (Qsum (costs I)) (budget I)) eqn:E1.
  - intros [= <-]. apply Qleb_iff in E1. tauto.
  - apply Qleb_false_iff in E1.
    destruct (costs I) as [|c r] eqn:Ec; [discriminate|].
    intros [= <-]. rewrite Qltb_iff.
    destruct (Qmin_list_le c r) as [Hd Hall]. rewrite Forall_forall in Hall.
    split.
    + intros H. right. intros x [<-|Hx].
      * eapply Qlt_le_trans; [exact H|exact Hd].
      * eapply Qlt_le_trans; [exact H|apply Hall; exact Hx].
    + intros [H|H].
      * exfalso. apply (Qlt_not_le _ _ E1 H).
      * destruct (Qmin_list_in c r) as [E|E].
        -- rewrite E. apply H. left. reflexivity.
        -- apply H. right. exact E.
Qed.

Lemma is_trivial_defined I : costs I <> [] \/ 0 <= budget I -> exists b, is_trivial I = Some b.
Proof.
  unfold is_trivial. intros H. destruct (Qleb (Qsum (costs I)) (budget I)) eqn:E1; [eexists; reflexivity|].
  destruct (costs I) as [|c r] eqn:Ec; [|eexists; reflexivity].
  exfalso. apply Qleb_false_iff in E1. simpl in E1. destruct H as [H|H]; [congruence|].
  apply (Qlt_not_le _ _ E1 H).
Qed.

(* ---------- max cardinality: cheapest-first is optimal ---------- *)

Definition submset (S L : list Q) : Prop := exists R, Permutation (S ++ R) L.

Lemma sublist_submset (S L : list Q) : sublist S L -> submset S L.
Proof.
  induction 1 as [|x s l _ [R IH]|x s l _ [R IH]].
  - exists []. constructor.
  - exists (x :: R). rewrite <- Permutation_middle. constructor. exact IH.
  - exists R. simpl. constructor. exact IH.
Qed.

Lemma submset_sublist (L : list Q) : forall S, submset S L ->
  exists S', sublist S' L /\ Permutation S' S.
Proof.
  induction L as [|x t IH]; intros S [R HP].
  - apply Permutation_sym, Permutation_nil in HP. apply app_eq_nil in HP. destruct HP as [-> _].
    exists []. split; constructor.
  - assert (Hin : In x (S ++ R)) by (eapply Permutation_in; [symmetry; exact HP|left; reflexivity]).
    apply in_app_or in Hin. destruct Hin as [Hin|Hin].
    + apply in_split in Hin. destruct Hin as [S1 [S2 ->]].
      assert (HP' : Permutation ((S1 ++ S2) ++ R) t).
      { apply Permutation_cons_inv with (a := x). rewrite <- HP.
        rewrite <- !app_assoc. simpl. apply Permutation_middle. }
      destruct (IH (S1 ++ S2) (ex_intro _ R HP')) as [S' [Hs Hp]].
      exists (x :: S'). split; [constructor; exact Hs|].
      rewrite Hp. apply Permutation_middle.
    + apply in_split in Hin. destruct Hin as [R1 [R2 ->]].
      assert (HP' : Permutation (S ++ R1 ++ R2) t).
      { apply Permutation_cons_inv with (a := x). rewrite <- HP.
        rewrite app_assoc. rewrite (app_assoc S R1 (x :: R2)). apply Permutation_middle. }
      destruct (IH S (ex_intro _ (R1 ++ R2) HP')) as [S' [Hs Hp]].
      exists S'. split; [constructor; exact Hs|exact Hp].
Qed.

Definition QleP (x y : Q) : Prop := Qleb x y = true.

(* exchange argument: the k cheapest cost no more than any k elements *)
Lemma prefix_min (L : list Q) : StronglySorted QleP L -> forall S, submset S L ->
  Qsum (firstn (length S) L) <= Qsum S.
Proof.
  induction 1 as [|x t Hs IH Hall]; intros S [R HP].
  - apply Permutation_sym, Permutation_nil in HP. apply app_eq_nil in HP. destruct HP as [-> _].
    simpl. apply Qle_refl.
  - destruct S as [|s0 S0]; [simpl; apply Qle_refl|].
    assert (Hin : In x ((s0 :: S0) ++ R)) by (eapply Permutation_in; [symmetry; exact HP|left; reflexivity]).
    apply in_app_or in Hin. destruct Hin as [Hin|Hin].
    + apply in_split in Hin. destruct Hin as [S1 [S2 E]].
      assert (HP' : Permutation ((S1 ++ S2) ++ R) t).
      { apply Permutation_cons_inv with (a := x). rewrite <- HP. rewrite E.
        rewrite <- !app_assoc. simpl. apply Permutation_middle. }
      specialize (IH (S1 ++ S2) (ex_intro _ R HP')).
      assert (El : length (s0 :: S0) = S (length (S1 ++ S2))).
      { rewrite E. rewrite !app_length. simpl. lia. }
      rewrite El. simpl firstn. simpl Qsum at 1.
      assert (Es : Qsum (s0 :: S0) == x + Qsum (S1 ++ S2)).
      { rewrite E. rewrite !Qsum_app. simpl. ring. }
      rewrite Es. apply Qplus_le_r. exact IH.
    + apply in_split in Hin. destruct Hin as [R1 [R2 ->]].
      assert (HP' : Permutation (S0 ++ (s0 :: R1 ++ R2)) t).
      { apply Permutation_cons_inv with (a := x). rewrite <- HP.
        simpl. symmetry. transitivity (s0 :: x :: S0 ++ R1 ++ R2).
        - constructor. rewrite (app_assoc S0 R1 (x :: R2)), (app_assoc S0 R1 R2).
          symmetry. apply Permutation_middle.
        - rewrite perm_swap. constructor. apply Permutation_middle. }
      specialize (IH S0 (ex_intro _ _ HP')).
      simpl length. simpl firstn. simpl Qsum.
      assert (Hxs : x <= s0).
      { rewrite Forall_forall in Hall. apply Qleb_iff. apply Hall.
        eapply Permutation_in; [exact HP'|]. apply in_or_app. right. left. reflexivity. }
      apply Qplus_le_compat; assumption.
Qed.

Lemma count_fit_ge (L : list Q) : Forall (fun c => 0 <= c) L -> forall k acc b,
  (k <= length L)%nat -> acc + Qsum (firstn k L) <= b -> (k <= count_fit L acc b)%nat.
Proof.
  induction 1 as [|c r Hc Hr IH]; intros k acc b Hk Hsum.
  - simpl in Hk. lia.
  - destruct k as [|k]; [lia|]. simpl in *.
    assert (Hrest : 0 <= Qsum (firstn k r)).
    { apply Qsum_nonneg. rewrite Forall_forall in *. intros y Hy. apply Hr.
      eapply (sublist_In (s:=firstn k r)); [apply firstn_sublist|exact Hy]. }
    destruct (Qleb (c + acc) b) eqn:E.
    + apply le_n_S. apply IH; [lia|]. lra.
    + apply Qleb_false_iff in E. lra.
Qed.

Lemma count_fit_le_length L acc b : (count_fit L acc b <= length L)%nat.
Proof.
  revert acc. induction L as [|c r IH]; intros acc; simpl; [lia|].
  destruct (Qleb (c + acc) b); [specialize (IH (c + acc)); lia|lia].
Qed.

Lemma count_fit_prefix L : forall acc b,
  acc <= b -> acc + Qsum (firstn (count_fit L acc b) L) <= b.
Proof.
  induction L as [|c r IH]; intros acc b Hacc; simpl.
  - lra.
  - destruct (Qleb (c + acc) b) eqn:E.
    + apply Qleb_iff in E. simpl. specialize (IH (c + acc) b E). lra.
    + simpl. lra.
Qed.

Lemma Qleb_total x y : Qleb x y = true \/ Qleb y x = true.
Proof.
  destruct (Qleb x y) eqn:E; [left; reflexivity|right].
  apply Qleb_false_iff in E. apply Qleb_iff. apply Qlt_le_weak. exact E.
Qed.

Lemma Qleb_trans x y z : Qleb x y = true -> Qleb y z = true -> Qleb x z = true.
Proof. rewrite !Qleb_iff. apply Qle_trans. Qed.

Lemma isort_Q_sorted cs : StronglySorted QleP (isort Qleb cs).
Proof. apply isort_sorted; [apply Qleb_total|apply Qleb_trans]. Qed.

(* upper bound: no feasible sub-multiset (in particular no sub-sequence) is larger *)
Theorem max_card_upper cs b S :
  Forall (fun c => 0 <= c) cs -> submset S cs -> Qsum S <= b -> (length S <= max_card cs b)%nat.
Proof.
  intros Hnn [R HP] Hb. unfold max_card.
  assert (Hsub : submset S (isort Qleb cs)).
  { exists R. rewrite HP. apply isort_perm. }
  pose proof (prefix_min _ (isort_Q_sorted cs) _ Hsub) as Hmin.
  apply count_fit_ge.
  - rewrite Forall_forall in *. intros x Hx. apply Hnn. apply isort_In in Hx. exact Hx.
  - rewrite isort_length. apply Permutation_length in HP. rewrite app_length in HP. lia.
  - lra.
Qed.

(* attained: some sub-sequence of that size fits *)
Theorem max_card_attained cs b :
  0 <= b -> exists S, sublist S cs /\ Qsum S <= b /\ length S = max_card cs b.
Proof.
  intros Hb. unfold max_card. set (L := isort Qleb cs). set (k := count_fit L 0 b).
  assert (Hsub : submset (firstn k L) cs).
  { exists (skipn k L). rewrite firstn_skipn. symmetry. apply isort_perm. }
  destruct (submset_sublist cs _ Hsub) as [S' [Hs Hp]].
  exists S'. split; [exact Hs|]. split.
  - rewrite (Qsum_perm_proper _ _ Hp). pose proof (count_fit_prefix L 0 b Hb) as H. fold k in H. lra.
  - rewrite (Permutation_length Hp). apply firstn_length_le.
    unfold k. apply count_fit_le_length.
Qed.

(* ---------- brute-force optima ---------- *)

Lemma fold_max_ge l x : In x l -> (x <= fold_right Nat.max O l)%nat.
Proof.
  induction l as [|y l IH]; simpl; [intros []|]. intros [->|H]; [lia|specialize (IH H); lia].
Qed.

Lemma fold_max_in l : l <> [] -> In (fold_right Nat.max O l) l.
Proof.
  induction l as [|y l IH]; [congruence|]. intros _. simpl.
  destruct l as [|z l'].
  - simpl. left. lia.
  - assert (Hne : z :: l' <> []) by congruence. specialize (IH Hne).
    destruct (Nat.max_spec y (fold_right Nat.max O (z :: l'))) as [[_ E]|[_ E]];
      rewrite E; [right; exact IH|left; reflexivity].
Qed.

Theorem max_card_bf_eq cs b :
  Forall (fun c => 0 <= c) cs -> 0 <= b -> max_card cs b = max_card_bf cs b.
Proof.
  intros Hnn Hb. unfold max_card_bf.
  set (cand := filter (fits b) (powerset cs)).
  apply Nat.le_antisymm.
  - destruct (max_card_attained cs b Hb) as [S [Hs [Hf Hl]]].
    rewrite <- Hl. apply fold_max_ge. apply in_map. unfold cand.
    apply filter_In. split; [apply powerset_spec; exact Hs|apply Qleb_iff; exact Hf].
  - assert (Hne : map (@length Q) cand <> []).
    { assert (In [] cand).
      { unfold cand. apply filter_In. split; [apply powerset_spec, sublist_nil_l|].
        apply Qleb_iff. simpl. exact Hb. }
      destruct cand; [contradiction|simpl; congruence]. }
    pose proof (fold_max_in _ Hne) as Hin. apply in_map_iff in Hin.
    destruct Hin as [S [El HS]]. rewrite <- El. unfold cand in HS. apply filter_In in HS.
    destruct HS as [HS Hf]. apply powerset_spec in HS. apply Qleb_iff in Hf.
    apply max_card_upper; [exact Hnn|apply sublist_submset; exact HS|exact Hf].
Qed.

Lemma Qmax_list_ge l x : In x l -> x <= Qmax_list l.
Proof.
  induction l as [|y l IH]; simpl; [intros []|]. intros [->|H].
  - destruct (Qleb (Qmax_list l) x) eqn:E; [apply Qle_refl|].
    apply Qleb_false_iff in E. apply Qlt_le_weak. exact E.
  - specialize (IH H). destruct (Qleb (Qmax_list l) y) eqn:E; [|exact IH].
    apply Qleb_iff in E. eapply Qle_trans; eassumption.
Qed.

Lemma Qmax_list_in l : l <> [] -> Forall (fun x => 0 <= x) l -> In (Qmax_list l) l.
Proof.
  induction l as [|y l IH]; [congruence|]. intros _ Hnn. inversion Hnn as [|y0 l0 Hy Hl]; subst.
  simpl. destruct (Qleb (Qmax_list l) y) eqn:E; [left; reflexivity|].
  right. destruct l as [|z l'].
  - simpl in E. apply Qleb_false_iff in E. exfalso. apply (Qlt_not_le _ _ E Hy).
  - apply IH; [congruence|exact Hl].
Qed.

(* [max_cost_bf] is the true optimum of the knapsack "maximise total cost within b" *)
Theorem max_cost_bf_spec cs b :
  Forall (fun c => 0 <= c) cs -> 0 <= b ->
  (exists S, sublist S cs /\ Qsum S <= b /\ Qsum S = max_cost_bf cs b) /\
  (forall S, sublist S cs -> Qsum S <= b -> Qsum S <= max_cost_bf cs b).
Proof.
  intros Hnn Hb. unfold max_cost_bf. set (cand := filter (fits b) (powerset cs)). split.
  - assert (Hne : map Qsum cand <> []).
    { assert (In [] cand).
      { unfold cand. apply filter_In. split; [apply powerset_spec, sublist_nil_l|].
        apply Qleb_iff. simpl. exact Hb. }
      destruct cand; [contradiction|simpl; congruence]. }
    assert (Hall : Forall (fun x => 0 <= x) (map Qsum cand)).
    { rewrite Forall_forall. intros x Hx. apply in_map_iff in Hx. destruct Hx as [S [<- HS]].
      apply Qsum_nonneg. unfold cand in HS. apply filter_In in HS. destruct HS as [HS _].
      apply powerset_spec in HS. rewrite Forall_forall in *. intros y Hy. apply Hnn.
      eapply sublist_In; eassumption. }
    pose proof (Qmax_list_in _ Hne Hall) as Hin. apply in_map_iff in Hin.
    destruct Hin as [S [E HS]]. unfold cand in HS. apply filter_In in HS. destruct HS as [HS Hf].
    exists S. split; [apply powerset_spec; exact HS|]. split; [apply Qleb_iff; exact Hf|exact E].
  - intros S HS Hf. apply Qmax_list_ge. apply in_map. unfold cand. apply filter_In.
    split; [apply powerset_spec; exact HS|apply Qleb_iff; exact Hf].
Qed.
