(* Proofs/InvarianceMesScaleP.v -- C13, Equal Shares (Model/MesRule.v): multiplying all costs and the budget by
   k > 0 and all utilities by j > 0 (j = k: cost-proportional measures, j = 1: cost-independent ones) does not
   change the allocation of the resolute rule [mes_resolute].  A step-by-step simulation: every quantity of
   the scaled run is the corresponding quantity of the original run times k (money), j (utilities) or k/j
   (affordabilities), and every comparison the code makes comes out the same. *)
From PB Require Import Model.MesRule Proofs.InvarianceP.
Open Scope Q_scope.

(* ---------- arithmetic ---------- *)
Lemma Qleb_ext_ a b x y : a == b -> x == y -> Qleb a x = Qleb b y.
Proof.
  intros E F. destruct (Qleb a x) eqn:E1, (Qleb b y) eqn:E2; try reflexivity.
  - apply Qleb_iff in E1. rewrite E, F in E1. apply Qleb_iff in E1. congruence.
  - apply Qleb_iff in E2. rewrite <- E, <- F in E2. apply Qleb_iff in E2. congruence.
Qed.
Lemma Qleb_mul_ m a b a' b' : 0 < m -> a' == m * a -> b' == m * b -> Qleb a' b' = Qleb a b.
Proof.
  intros Hm Ha Hb. rewrite (Qleb_ext_ a' (m * a) b' (m * b) Ha Hb). destruct (Qleb a b) eqn:E.
  - apply Qleb_iff. apply Qleb_iff in E. apply Qmult_le_l; assumption.
  - apply Qleb_false_iff. apply Qleb_false_iff in E. apply Qmult_lt_l; assumption.
Qed.
Lemma Qltb_mul_ m a b a' b' : 0 < m -> a' == m * a -> b' == m * b -> Qltb a' b' = Qltb a b.
Proof. intros Hm Ha Hb. unfold Qltb. f_equal. apply (Qleb_mul_ m); assumption. Qed.
Lemma Qeqb_mul_ m a b a' b' : 0 < m -> a' == m * a -> b' == m * b -> Qeqb a' b' = Qeqb a b.
Proof.
  intros Hm Ha Hb. destruct (Qeqb a b) eqn:E.
  - apply Qeqb_iff. apply Qeqb_iff in E. rewrite Ha, Hb, E. reflexivity.
  - apply Qeqb_false_iff. apply Qeqb_false_iff in E. intros H. apply E. rewrite Ha, Hb in H.
    apply Qmult_inj_l in H; [exact H|]. intros Hz. rewrite Hz in Hm. exact (Qlt_irrefl 0 Hm).
Qed.
Lemma Qdiv_scale k j n d : (k * n) / (j * d) == (k / j) * (n / d).
Proof. unfold Qdiv. rewrite Qinv_mult_distr. ring. Qed.
Lemma Qmin_scale m a b : 0 < m -> Qmin (m * a) (m * b) == m * Qmin a b.
Proof.
  intros Hm. destruct (Qlt_le_dec b a) as [H|H].
  - rewrite (Q.min_r a b) by (apply Qlt_le_weak; exact H).
    rewrite Q.min_r; [reflexivity|]. apply Qmult_le_l; [exact Hm|apply Qlt_le_weak; exact H].
  - rewrite (Q.min_l a b) by exact H. rewrite Q.min_l; [reflexivity|]. apply Qmult_le_l; assumption.
Qed.
Lemma Qmin_ext a a' b b' : a == a' -> b == b' -> Qmin a b == Qmin a' b'.
Proof. intros -> ->. reflexivity. Qed.

Definition Qx_mul_ (m : Q) (a a' : Qx) : Prop :=
  match a, a' with
  | Fin x, Fin x' => x' == m * x
  | PInf, PInf => True
  | _, _ => False
  end.
Lemma Qx_ltb_mul_ m a b a' b' : 0 < m -> Qx_mul_ m a a' -> Qx_mul_ m b b' -> Qx_ltb a' b' = Qx_ltb a b.
Proof.
  intros Hm. unfold Qx_ltb. destruct a, a', b, b'; simpl; try tauto. intros H1 H2. f_equal.
  apply (Qleb_mul_ m); assumption.
Qed.
Lemma Qx_eqb_mul_ m a b a' b' : 0 < m -> Qx_mul_ m a a' -> Qx_mul_ m b b' -> Qx_eqb a' b' = Qx_eqb a b.
Proof.
  intros Hm. destruct a, a', b, b'; simpl; try tauto. apply (Qeqb_mul_ m). exact Hm.
Qed.

(* ---------- lists ---------- *)
Lemma insert_ext_ {A} (leb leb' : A -> A -> bool) x l :
  (forall a b, leb a b = leb' a b) -> insert leb x l = insert leb' x l.
Proof. intros H. induction l as [|y t IH]; simpl; [reflexivity|]. rewrite H, IH. reflexivity. Qed.
Lemma isort_ext {A} (leb leb' : A -> A -> bool) l :
  (forall a b, leb a b = leb' a b) -> isort leb l = isort leb' l.
Proof.
  intros H. induction l as [|x t IH]; simpl; [reflexivity|]. rewrite IH. apply insert_ext_. exact H.
Qed.
Inductive orel {A B} (R : A -> B -> Prop) : option A -> option B -> Prop :=
| orel_none : orel R None None
| orel_some a b : R a b -> orel R (Some a) (Some b).

Lemma insert_rel {A B} (R : A -> B -> Prop) (leb : A -> A -> bool) (leb' : B -> B -> bool) :
  (forall a a' b b', R a a' -> R b b' -> leb a b = leb' a' b') ->
  forall x x' l l', R x x' -> Forall2 R l l' -> Forall2 R (insert leb x l) (insert leb' x' l').
Proof.
  intros H x x' l l' Hx Hl. induction Hl as [|y y' t t' Hy Ht IH]; simpl; [constructor; [exact Hx|constructor]|].
  rewrite <- (H x x' y y' Hx Hy). destruct (leb x y); repeat constructor; assumption.
Qed.
Lemma isort_rel {A B} (R : A -> B -> Prop) (leb : A -> A -> bool) (leb' : B -> B -> bool) :
  (forall a a' b b', R a a' -> R b b' -> leb a b = leb' a' b') ->
  forall l l', Forall2 R l l' -> Forall2 R (isort leb l) (isort leb' l').
Proof.
  intros H l l' Hl. induction Hl as [|y y' t t' Hy Ht IH]; simpl; [constructor|].
  apply insert_rel; assumption.
Qed.
Lemma filter_rel {A B} (R : A -> B -> Prop) (f : A -> bool) (g : B -> bool) :
  (forall a b, R a b -> f a = g b) ->
  forall l l', Forall2 R l l' -> Forall2 R (filter f l) (filter g l').
Proof.
  intros H l l' Hl. induction Hl as [|y y' t t' Hy Ht IH]; simpl; [constructor|].
  rewrite <- (H y y' Hy). destruct (f y); [constructor|]; assumption.
Qed.
Lemma Forall2_length_ {A B} (R : A -> B -> Prop) l l' : Forall2 R l l' -> length l = length l'.
Proof. induction 1; simpl; congruence. Qed.
Lemma Forall2_app_ {A B} (R : A -> B -> Prop) l1 l1' l2 l2' :
  Forall2 R l1 l1' -> Forall2 R l2 l2' -> Forall2 R (l1 ++ l2) (l1' ++ l2').
Proof. intros H1 H2. induction H1; simpl; [exact H2|constructor; assumption]. Qed.
Lemma Forall2_nth_Q (m : Q) l l' i : Forall2 (fun x y => y == m * x) l l' -> nth i l' 0 == m * nth i l 0.
Proof.
  intros H. revert i. induction H as [|x y t t' Hxy Ht IH]; intros [|i]; simpl; try ring; [exact Hxy|apply IH].
Qed.
Lemma nth_map_scale m l p : nth p (map (Qmult m) l) 0 == m * nth p l 0.
Proof.
  destruct (Nat.lt_ge_cases p (length l)) as [H|H].
  - rewrite (nth_indep (map (Qmult m) l) 0 (m * 0)) by (rewrite map_length; exact H).
    rewrite (map_nth (Qmult m)). reflexivity.
  - rewrite !nth_overflow by (try rewrite map_length; exact H). ring.
Qed.

(* ---------- the scaled election ---------- *)
Definition scale_voter (j : Q) (v : vcls) : vcls := mkV (map (Qmult j) (vu v)) (vmul v).

Section MesScale.
Variables (k j : Q) (P : list vcls) (tb tb' : proj -> Q).
Hypothesis Hk : 0 < k.
Hypothesis Hj : 0 < j.
Hypothesis Htb : forall p q, Qleb (tb p) (tb q) = Qleb (tb' p) (tb' q).
Let P' := map (scale_voter j) P.
Let r := k / j.

Lemma r_pos : 0 < r.
Proof. unfold r. apply Qlt_shift_div_l; [exact Hj|]. rewrite Qmult_0_l. exact Hk. Qed.
Lemma j_neq : ~ j == 0.
Proof. intros H. rewrite H in Hj. exact (Qlt_irrefl 0 Hj). Qed.
Lemma rj : r * j == k.
Proof. unfold r. field. exact j_neq. Qed.

Lemma nth_P' i : nth i P' dummy_voter = scale_voter j (nth i P dummy_voter).
Proof.
  unfold P'. change dummy_voter with (scale_voter j dummy_voter) at 1. apply map_nth.
Qed.
Lemma vutil_scale i p : vutil P' i p == j * vutil P i p.
Proof. unfold vutil, util. rewrite nth_P'. simpl. apply nth_map_scale. Qed.
Lemma vmulQ_scale i : vmulQ P' i = vmulQ P i.
Proof. unfold vmulQ. rewrite nth_P'. reflexivity. Qed.
Lemma length_P' : length P' = length P.
Proof. unfold P'. apply map_length. Qed.

Lemma supporters_scale p : supporters P' p = supporters P p.
Proof.
  unfold supporters. rewrite length_P'. apply filter_ext. intros i.
  apply (Qltb_mul_ j); [exact Hj|ring|apply vutil_scale].
Qed.
Lemma total_sat_scale p sups : total_sat P' p sups == j * total_sat P p sups.
Proof.
  unfold total_sat. induction sups as [|i s IH]; simpl; [ring|].
  rewrite IH, vmulQ_scale, vutil_scale. ring.
Qed.

Definition urel : option Q -> option Q -> Prop := orel (fun u u' => u' == j * u).

Lemma unique_sat_scale p sups : urel (unique_sat P p sups) (unique_sat P' p sups).
Proof.
  unfold unique_sat. destruct sups as [|i0 s]; [constructor|].
  assert (H0 : urel (Some (vutil P i0 p)) (Some (vutil P' i0 p))) by (constructor; apply vutil_scale).
  revert H0. generalize (Some (vutil P i0 p)) (Some (vutil P' i0 p)).
  induction s as [|i s IH]; intros o o' Ho; simpl; [exact Ho|].
  apply IH. destruct Ho as [|u u' Hu]; [constructor|].
  rewrite (Qeqb_mul_ j u (vutil P i p) u' (vutil P' i p) Hj Hu (vutil_scale i p)).
  destruct (Qeqb u (vutil P i p)); constructor. exact Hu.
Qed.

(* related project records *)
Definition mrel (mp mp' : mproj) : Prop :=
  mp_id mp' = mp_id mp /\ mp_sup mp' = mp_sup mp /\ mp_cost mp' == k * mp_cost mp /\
  mp_tsat mp' == j * mp_tsat mp /\ urel (mp_usat mp) (mp_usat mp') /\ mp_aff mp' == r * mp_aff mp.

Lemma mk_projects_scale costs bin enum :
  Forall2 mrel (fst (mk_projects P costs bin enum)) (fst (mk_projects P' (map (Qmult k) costs) bin enum))
  /\ snd (mk_projects P' (map (Qmult k) costs) bin enum) = snd (mk_projects P costs bin enum).
Proof.
  induction enum as [|p e IH]; [split; [constructor|reflexivity]|].
  cbn [mk_projects]. destruct (mk_projects P costs bin e) as [ps zs].
  destruct (mk_projects P' (map (Qmult k) costs) bin e) as [ps' zs']. cbn [fst snd] in IH. destruct IH as [IH1 IH2].
  rewrite supporters_scale.
  pose proof (total_sat_scale p (supporters P p)) as Hts.
  rewrite (Qltb_mul_ j 0 (total_sat P p (supporters P p)) 0 (total_sat P' p (supporters P p)) Hj) by (try ring; exact Hts).
  destruct (Qltb 0 (total_sat P p (supporters P p))) eqn:Ets; [|split; assumption].
  pose proof (nth_map_scale k costs p) as Hc.
  rewrite (Qltb_mul_ k 0 (nth p costs 0) 0 (nth p (map (Qmult k) costs) 0) Hk) by (try ring; exact Hc).
  destruct (Qltb 0 (nth p costs 0)); cbn [fst snd]; [|split; [exact IH1|f_equal; exact IH2]].
  split; [|exact IH2]. constructor; [|exact IH1].
  unfold mrel. cbn [mp_id mp_sup mp_cost mp_tsat mp_usat mp_aff].
  split; [reflexivity|]. split; [reflexivity|]. split; [exact Hc|].
  split; [rewrite !Qred_correct; exact Hts|].
  split; [destruct bin; [apply unique_sat_scale|constructor]|].
  rewrite !Qred_correct, Hc, Hts. apply Qdiv_scale.
Qed.

(* ---------- budgets ---------- *)
Definition brel (buds buds' : list Q) : Prop := Forall2 (fun b b' => b' == k * b) buds buds'.

Lemma vbud_scale buds buds' i : brel buds buds' -> vbud buds' i == k * vbud buds i.
Proof. apply Forall2_nth_Q. Qed.

Lemma supporters_sat_scale mp mp' i : mrel mp mp' ->
  supporters_sat P' mp' i == j * supporters_sat P mp i.
Proof.
  intros (Hid & _ & _ & _ & Hu & _). unfold supporters_sat.
  destruct Hu as [|u u' Hu]; [rewrite Hid; apply vutil_scale|exact Hu].
Qed.

Definition srel_ (s s' : sup) : Prop := sb s' == k * sb s /\ su s' == j * su s /\ sm s' = sm s.

Lemma sup_of_scale buds buds' mp mp' i : brel buds buds' -> mrel mp mp' ->
  srel_ (sup_of P buds mp i) (sup_of P' buds' mp' i).
Proof.
  intros Hb Hm. unfold sup_of, srel_. simpl. split; [apply vbud_scale; exact Hb|].
  split; [apply supporters_sat_scale; exact Hm|apply vmulQ_scale].
Qed.

Lemma sorted_sup_scale buds buds' mp mp' : brel buds buds' -> mrel mp mp' ->
  sorted_sup P' buds' mp' = sorted_sup P buds mp.
Proof.
  intros Hb (Hid & Hsup & _). unfold sorted_sup. rewrite Hid, Hsup. apply isort_ext. intros a b.
  unfold sup_leb. apply (Qleb_mul_ (k * j)).
  - apply Qmult_lt_0_compat; assumption.
  - rewrite (vbud_scale buds buds' a Hb), vutil_scale. ring.
  - rewrite (vbud_scale buds buds' b Hb), vutil_scale. ring.
Qed.

Lemma avail_scale buds buds' mp mp' : brel buds buds' -> mrel mp mp' ->
  avail P' buds' mp' == k * avail P buds mp.
Proof.
  intros Hb (_ & Hsup & _). unfold avail. rewrite Hsup. clear Hsup. induction (mp_sup mp) as [|i s IH]; simpl; [ring|].
  rewrite IH, vmulQ_scale, (vbud_scale buds buds' i Hb). ring.
Qed.

Lemma sweep_scale : forall l l' c c' ct ct' d d', Forall2 srel_ l l' ->
  c' == k * c -> ct' == k * ct -> d' == j * d ->
  orel (fun a a' => a' == r * a) (sweep c ct d l) (sweep c' ct' d' l').
Proof.
  induction l as [|s l IH]; intros l' c c' ct ct' d d' Hl Hc Hct Hd; inversion Hl as [|? s' ? t' Hs Ht]; subst.
  - constructor.
  - cbn [sweep]. destruct Hs as (Hsb & Hsu & Hsm).
    assert (Ha : (c' - ct') / d' == r * ((c - ct) / d)).
    { rewrite Hc, Hct, Hd. setoid_replace (k * c - k * ct) with (k * (c - ct)) by ring. apply Qdiv_scale. }
    assert (Et : Qleb ((c' - ct') / d' * su s') (sb s') = Qleb ((c - ct) / d * su s) (sb s)).
    { apply (Qleb_mul_ k); [exact Hk| |exact Hsb]. rewrite Ha, Hsu.
      setoid_replace (r * ((c - ct) / d) * (j * su s)) with ((r * j) * ((c - ct) / d * su s)) by ring.
      rewrite rj. reflexivity. }
    rewrite Et. destruct (Qleb ((c - ct) / d * su s) (sb s)); [constructor; exact Ha|].
    apply IH; [exact Ht|exact Hc| |].
    + rewrite Hct, Hsm, Hsb. ring.
    + rewrite Hd, Hsm, Hsu. ring.
Qed.

Lemma eval_rho_scale buds buds' mp mp' s : brel buds buds' -> mrel mp mp' ->
  orel (fun a a' => a' == r * a) (eval_rho P buds mp s) (eval_rho P' buds' mp' s).
Proof.
  intros Hb Hm. unfold eval_rho. apply sweep_scale.
  - induction s as [|i s IH]; simpl; constructor; [apply sup_of_scale; assumption|exact IH].
  - apply Hm.
  - ring.
  - apply Hm.
Qed.

Lemma set_aff_rel mp mp' a a' s : mrel mp mp' -> a' == r * a -> mrel (set_aff mp a s) (set_aff mp' a' s).
Proof. intros (H1 & H2 & H3 & H4 & H5 & H6) Ha. unfold mrel, set_aff. simpl. tauto. Qed.
Lemma set_sup_rel mp mp' s : mrel mp mp' -> mrel (set_sup mp s) (set_sup mp' s).
Proof. intros (H1 & H2 & H3 & H4 & H5 & H6). unfold mrel, set_sup. simpl. tauto. Qed.

(* ---------- the scan ---------- *)
Definition resrel (e : proj * option mproj) (e' : proj * option mproj) : Prop :=
  fst e' = fst e /\ orel mrel (snd e) (snd e').

Definition scanrel (x x' : Qx * list mproj * list (proj * option mproj)) : Prop :=
  Qx_mul_ r (fst (fst x)) (fst (fst x')) /\ Forall2 mrel (snd (fst x)) (snd (fst x')) /\
  Forall2 resrel (snd x) (snd x').

Lemma scan_cons_ Q0 buds mp l best tied :
  scan Q0 buds (mp :: l) best tied =
  if Qltb (avail Q0 buds mp) (mp_cost mp) then
    let '(b, t, res) := scan Q0 buds l best tied in (b, t, (mp_id mp, None) :: res)
  else if Qx_ltb best (Fin (mp_aff mp)) then (best, tied, [])
  else
    let s := sorted_sup Q0 buds mp in
    match eval_rho Q0 buds mp s with
    | Some a0 =>
        let a := Qred a0 in
        let mp' := set_aff mp a s in
        let '(b, t, res) :=
          if Qx_ltb (Fin a) best then scan Q0 buds l (Fin a) [mp']
          else if Qx_eqb (Fin a) best then scan Q0 buds l best (tied ++ [mp'])
          else scan Q0 buds l best tied in
        (b, t, (mp_id mp, Some mp') :: res)
    | None =>
        let '(b, t, res) := scan Q0 buds l best tied in
        (b, t, (mp_id mp, Some (set_sup mp s)) :: res)
    end.
Proof. reflexivity. Qed.

Lemma scanrel_cons x x' e e' : scanrel x x' -> resrel e e' ->
  scanrel (let '(b, t, res) := x in (b, t, e :: res)) (let '(b, t, res) := x' in (b, t, e' :: res)).
Proof.
  destruct x as [[b t] res], x' as [[b' t'] res']. unfold scanrel. simpl. intros (H1 & H2 & H3) He.
  split; [exact H1|]. split; [exact H2|]. constructor; assumption.
Qed.

Lemma scan_scale buds buds' : brel buds buds' -> forall l l' best best' tied tied',
  Forall2 mrel l l' -> Qx_mul_ r best best' -> Forall2 mrel tied tied' ->
  scanrel (scan P buds l best tied) (scan P' buds' l' best' tied').
Proof.
  intros Hb. induction l as [|mp l IH]; intros l' best best' tied tied' Hl Hbest Htied;
    inversion Hl as [|? mp' ? t' Hm Ht]; subst.
  - unfold scanrel. simpl. split; [exact Hbest|]. split; [exact Htied|constructor].
  - rewrite !scan_cons_.
    rewrite (Qltb_mul_ k (avail P buds mp) (mp_cost mp) (avail P' buds' mp') (mp_cost mp') Hk
               (avail_scale buds buds' mp mp' Hb Hm)) by apply Hm.
    assert (Hid : mp_id mp' = mp_id mp) by apply Hm.
    destruct (Qltb (avail P buds mp) (mp_cost mp)).
    { apply scanrel_cons; [apply IH; assumption|]. split; [exact Hid|constructor]. }
    assert (Haff : Qx_mul_ r (Fin (mp_aff mp)) (Fin (mp_aff mp'))) by (simpl; apply Hm).
    rewrite (Qx_ltb_mul_ r best (Fin (mp_aff mp)) best' (Fin (mp_aff mp')) r_pos Hbest Haff).
    destruct (Qx_ltb best (Fin (mp_aff mp))).
    { unfold scanrel. simpl. split; [exact Hbest|]. split; [exact Htied|constructor]. }
    cbv zeta. rewrite (sorted_sup_scale buds buds' mp mp' Hb Hm).
    destruct (eval_rho_scale buds buds' mp mp' (sorted_sup P buds mp) Hb Hm) as [|a0 a0' Ha0].
    { apply scanrel_cons; [apply IH; assumption|]. split; [exact Hid|constructor]. apply set_sup_rel. exact Hm. }
    assert (Ha : Qred a0' == r * Qred a0) by (rewrite !Qred_correct; exact Ha0).
    assert (Hmp : mrel (set_aff mp (Qred a0) (sorted_sup P buds mp)) (set_aff mp' (Qred a0') (sorted_sup P buds mp)))
      by (apply set_aff_rel; assumption).
    assert (Hfa : Qx_mul_ r (Fin (Qred a0)) (Fin (Qred a0'))) by exact Ha.
    apply scanrel_cons; [|split; [exact Hid|constructor; exact Hmp]].
    rewrite (Qx_ltb_mul_ r (Fin (Qred a0)) best (Fin (Qred a0')) best' r_pos Hfa Hbest).
    rewrite (Qx_eqb_mul_ r (Fin (Qred a0)) best (Fin (Qred a0')) best' r_pos Hfa Hbest).
    destruct (Qx_ltb (Fin (Qred a0)) best).
    { apply IH; [exact Ht|exact Hfa|constructor; [exact Hmp|constructor]]. }
    destruct (Qx_eqb (Fin (Qred a0)) best).
    { apply IH; [exact Ht|exact Hbest|]. apply Forall2_app_; [exact Htied|constructor; [exact Hmp|constructor]]. }
    apply IH; assumption.
Qed.

Lemma lookup_rel id res res' : Forall2 resrel res res' ->
  orel (orel mrel) (lookup id res) (lookup id res').
Proof.
  intros H. induction H as [|[i o] [i' o'] t t' [Hi Ho] Ht IH]; simpl; [constructor|].
  simpl in Hi, Ho. subst i'. destruct (Nat.eqb i id); [constructor; exact Ho|exact IH].
Qed.

Lemma patch_rel projects projects' res res' : Forall2 mrel projects projects' -> Forall2 resrel res res' ->
  Forall2 mrel (patch projects res) (patch projects' res').
Proof.
  intros Hp Hr. unfold patch. induction Hp as [|mp mp' t t' Hm Ht IH]; simpl; [constructor|].
  assert (Hid : mp_id mp' = mp_id mp) by apply Hm. rewrite Hid.
  destruct (lookup_rel (mp_id mp) res res' Hr) as [|o o' Ho].
  - constructor; assumption.
  - destruct Ho as [|m m' Hmm]; simpl; [exact IH|constructor; assumption].
Qed.

Lemma aff_leb_rel a a' b b' : mrel a a' -> mrel b b' -> aff_leb a b = aff_leb a' b'.
Proof.
  intros Ha Hb. unfold aff_leb. symmetry. apply (Qleb_mul_ r); [exact r_pos|apply Ha|apply Hb].
Qed.

Lemma round_scan_scale buds buds' projects projects' : brel buds buds' -> Forall2 mrel projects projects' ->
  let x := round_scan P buds projects in let x' := round_scan P' buds' projects' in
  Qx_mul_ r (fst (fst x)) (fst (fst x')) /\ Forall2 mrel (snd (fst x)) (snd (fst x')) /\
  Forall2 mrel (snd x) (snd x').
Proof.
  intros Hb Hp. unfold round_scan.
  pose proof (scan_scale buds buds' Hb (isort aff_leb projects) (isort aff_leb projects') PInf PInf [] []
                (isort_rel mrel aff_leb aff_leb aff_leb_rel _ _ Hp) Logic.I (Forall2_nil _)) as H.
  destruct (scan P buds (isort aff_leb projects) PInf []) as [[b t] res].
  destruct (scan P' buds' (isort aff_leb projects') PInf []) as [[b' t'] res'].
  destruct H as (H1 & H2 & H3). simpl in *. split; [exact H1|]. split; [exact H2|].
  apply patch_rel; assumption.
Qed.

Lemma pick_order_scale tied tied' : Forall2 mrel tied tied' ->
  Forall2 mrel (pick_order tb tied) (pick_order tb' tied').
Proof.
  intros H. unfold pick_order.
  destruct H as [|a a' t t' Ha Ht]; [constructor|]. destruct Ht as [|b b' u u' Hb Hu]; [constructor; [exact Ha|constructor]|].
  apply isort_rel.
  - intros x x' y y' Hx Hy. destruct Hx as [-> _], Hy as [-> _]. apply Htb.
  - apply isort_rel.
    + intros x x' y y' Hx Hy. destruct Hx as [-> _], Hy as [-> _]. reflexivity.
    + constructor; [exact Ha|]. constructor; [exact Hb|exact Hu].
Qed.

Lemma pay_scale sel sel' rho rho' buds buds' : mrel sel sel' -> rho' == r * rho -> brel buds buds' ->
  brel (pay P sel rho buds) (pay P' sel' rho' buds').
Proof.
  intros Hm Hr Hb. unfold pay. generalize 0%nat.
  induction Hb as [|b b' t t' Hbb Ht IH]; intros i; simpl; [constructor|].
  constructor; [|apply IH].
  assert (Hsup : mp_sup sel' = mp_sup sel) by apply Hm. rewrite Hsup.
  destruct (memb i (mp_sup sel)); [|exact Hbb].
  unfold pay_one. rewrite !Qred_correct.
  assert (E : rho' * supporters_sat P' sel' i == k * (rho * supporters_sat P sel i)).
  { rewrite Hr, (supporters_sat_scale sel sel' i Hm).
    setoid_replace (r * rho * (j * supporters_sat P sel i)) with ((r * j) * (rho * supporters_sat P sel i)) by ring.
    rewrite rj. reflexivity. }
  rewrite (Qmin_ext b' (k * b) _ _ Hbb E), Qmin_scale by exact Hk. rewrite Hbb. ring.
Qed.

Lemma remove_proj_rel id projects projects' : Forall2 mrel projects projects' ->
  Forall2 mrel (remove_proj id projects) (remove_proj id projects').
Proof.
  intros H. unfold remove_proj. apply filter_rel; [|exact H]. intros a b Hab. destruct Hab as [-> _]. reflexivity.
Qed.

Definition alloc_of (x : option (list proj * list round * list Q * list mproj)) : option (list proj) :=
  option_map (fun y => fst (fst (fst y))) x.

Theorem run_res_scale : forall fuel buds buds' projects projects' acc tr tr',
  brel buds buds' -> Forall2 mrel projects projects' ->
  alloc_of (run_res fuel P' tb' buds' projects' acc tr') = alloc_of (run_res fuel P tb buds projects acc tr).
Proof.
  induction fuel as [|f IH]; intros buds buds' projects projects' acc tr tr' Hb Hp; [reflexivity|].
  cbn [run_res].
  pose proof (round_scan_scale buds buds' projects projects' Hb Hp) as H. cbv zeta in H.
  destruct (round_scan P buds projects) as [[best tied] pr].
  destruct (round_scan P' buds' projects') as [[best' tied'] pr'].
  simpl in H. destruct H as (H1 & H2 & H3).
  pose proof (pick_order_scale tied tied' H2) as Hpo.
  destruct best as [rho|], best' as [rho'|]; simpl in H1; try contradiction.
  - destruct Hpo as [|sel sel' t t' Hsel _]; [reflexivity|].
    assert (Hid : mp_id sel' = mp_id sel) by apply Hsel. rewrite Hid.
    apply IH; [apply pay_scale; assumption|apply remove_proj_rel; exact H3].
  - reflexivity.
Qed.
Lemma fold_left_rel {A B S} (R : A -> B -> Prop) (f : S -> A -> S) (f' : S -> B -> S) :
  (forall s a b, R a b -> f s a = f' s b) ->
  forall l l', Forall2 R l l' -> forall s, fold_left f l s = fold_left f' l' s.
Proof.
  intros H l l' Hl. induction Hl as [|a b t t' Hab Ht IH]; intros s; simpl; [reflexivity|].
  rewrite (H s a b Hab). apply IH.
Qed.

Theorem run_irr_scale : forall fuel buds buds' projects projects' acc,
  brel buds buds' -> Forall2 mrel projects projects' ->
  run_irr fuel P' tb' buds' projects' acc = run_irr fuel P tb buds projects acc.
Proof.
  induction fuel as [|f IH]; intros buds buds' projects projects' acc Hb Hp; [reflexivity|].
  cbn [run_irr].
  pose proof (round_scan_scale buds buds' projects projects' Hb Hp) as H. cbv zeta in H.
  destruct (round_scan P buds projects) as [[best tied] pr].
  destruct (round_scan P' buds' projects') as [[best' tied'] pr'].
  simpl in H. destruct H as (H1 & H2 & H3).
  pose proof (pick_order_scale tied tied' H2) as Hpo.
  destruct best as [rho|], best' as [rho'|]; simpl in H1; try contradiction; [|reflexivity].
  destruct Hpo as [|sel sel' t t' Hsel Hrest]; [reflexivity|].
  apply (fold_left_rel (fun a b => mrel b a)).
  - intros s a b Hab. destruct s as [L|]; [|reflexivity].
    assert (Hid : mp_id a = mp_id b) by apply Hab. rewrite Hid.
    rewrite (IH (pay P b rho buds) (pay P' a rho' buds') (remove_proj (mp_id b) pr) (remove_proj (mp_id b) pr'));
      [reflexivity|apply pay_scale; assumption|apply remove_proj_rel; exact H3].
  - constructor; [exact Hsel|]. clear - Hrest. induction Hrest; constructor; assumption.
Qed.
End MesScale.

(* the scaled election as an input record *)
Definition scale_mes (k j : Q) (tb' : proj -> Q) (x : mes_in) : mes_in :=
  mkIn (map (Qmult k) (mi_costs x)) (k * mi_budget x) (map (scale_voter j) (mi_voters x)) tb'
       (mi_enum x) (mi_bin x) (mi_init x).

Lemma nvoters_scale j P : nvoters (map (scale_voter j) P) = nvoters P.
Proof. induction P as [|v P IH]; simpl; [reflexivity|]. rewrite IH. reflexivity. Qed.

Lemma tcost_map_scale k costs b b' W :
  tcost (mkInst (map (Qmult k) costs) b') W == k * tcost (mkInst costs b) W.
Proof.
  unfold tcost, cost. simpl. induction W as [|p W IH]; simpl; [ring|]. rewrite IH, nth_map_scale. ring.
Qed.

Lemma share_scale k j tb' x : share (scale_mes k j tb' x) == k * share x.
Proof.
  unfold share, scale_mes, mi_inst. cbn [mi_budget mi_costs mi_init mi_voters].
  rewrite !Qred_correct, nvoters_scale, (tcost_map_scale k (mi_costs x) (mi_budget x) (k * mi_budget x)).
  unfold Qdiv. ring.
Qed.

Lemma brel_repeat k b b' n : b' == k * b -> brel k (repeat b n) (repeat b' n).
Proof. intros H. unfold brel. induction n; simpl; constructor; assumption. Qed.

Section MesScaleTop.
Variables (k j : Q) (tb' : proj -> Q) (x : mes_in).
Hypothesis Hk : 0 < k.
Hypothesis Hj : 0 < j.
Hypothesis Htb : forall p q, Qleb (mi_tb x p) (mi_tb x q) = Qleb (tb' p) (tb' q).
Let x' := scale_mes k j tb' x.

Lemma built_scale : Forall2 (mrel k j) (fst (built x)) (fst (built x'))
                    /\ snd (built x') = snd (built x).
Proof. exact (mk_projects_scale k j (mi_voters x) Hk Hj (mi_costs x) (mi_bin x) (candidates x)). Qed.

Lemma start_alloc_scale : start_alloc x' = start_alloc x.
Proof. unfold start_alloc. rewrite (proj2 built_scale). reflexivity. Qed.

Lemma built_length : length (fst (built x')) = length (fst (built x)).
Proof. symmetry. eapply Forall2_length_. exact (proj1 built_scale). Qed.

Lemma run_once_res_scale b0 b0' : b0' == k * b0 ->
  option_map o_alloc (run_once_res x' b0') = option_map o_alloc (run_once_res x b0).
Proof.
  intros Hb0. unfold run_once_res. rewrite start_alloc_scale, built_length.
  change (mi_voters x') with (map (scale_voter j) (mi_voters x)). change (mi_tb x') with tb'.
  rewrite map_length.
  pose proof (run_res_scale k j (mi_voters x) (mi_tb x) tb' Hk Hj Htb (S (length (fst (built x))))
                (repeat b0 (length (mi_voters x))) (repeat b0' (length (mi_voters x)))
                (fst (built x)) (fst (built x')) (start_alloc x) [] []
                (brel_repeat k _ _ _ Hb0) (proj1 built_scale)) as H.
  unfold alloc_of in H.
  destruct (run_res (S (length (fst (built x)))) (map (scale_voter j) (mi_voters x)) tb'
                    (repeat b0' (length (mi_voters x))) (fst (built x')) (start_alloc x) [])
    as [[[[a1 t1] f1] r1]|];
  destruct (run_res (S (length (fst (built x)))) (mi_voters x) (mi_tb x)
                    (repeat b0 (length (mi_voters x))) (fst (built x)) (start_alloc x) [])
    as [[[[a2 t2] f2] r2]|]; simpl in H; try discriminate H; [|reflexivity].
  injection H as ->. reflexivity.
Qed.

Lemma run_once_irr_scale b0 b0' : b0' == k * b0 -> run_once_irr x' b0' = run_once_irr x b0.
Proof.
  intros Hb0. unfold run_once_irr. rewrite start_alloc_scale, built_length.
  change (mi_voters x') with (map (scale_voter j) (mi_voters x)). change (mi_tb x') with tb'.
  rewrite map_length.
  rewrite (run_irr_scale k j (mi_voters x) (mi_tb x) tb' Hk Hj Htb (S (length (fst (built x))))
             (repeat b0 (length (mi_voters x))) (repeat b0' (length (mi_voters x)))
             (fst (built x)) (fst (built x')) (start_alloc x)
             (brel_repeat k _ _ _ Hb0) (proj1 built_scale)).
  reflexivity.
Qed.

(* M  mes_scale: costs and budget times k, utilities times j, tie-breaking keys ordered alike *)
Theorem mes_scale_res : option_map o_alloc (mes_resolute x') = option_map o_alloc (mes_resolute x).
Proof. unfold mes_resolute. apply run_once_res_scale. apply share_scale. Qed.

Theorem mes_scale_irr : mes_irresolute x' = mes_irresolute x.
Proof. unfold mes_irresolute. apply run_once_irr_scale. apply share_scale. Qed.

(* the budget-increase loop (voter_budget_increment = inc, scaled like money) *)
Lemma alloc_feasible_scale W : alloc_feasible x' W = alloc_feasible x W.
Proof.
  unfold alloc_feasible. apply (Qleb_mul_ k); [exact Hk| |reflexivity].
  apply (tcost_map_scale k (mi_costs x) (mi_budget x) (k * mi_budget x)).
Qed.

Lemma forallb_rel {A B} (R : A -> B -> Prop) (f : A -> bool) (g : B -> bool) l l' :
  (forall a b, R a b -> f a = g b) -> Forall2 R l l' -> forallb f l = forallb g l'.
Proof.
  intros H Hl. induction Hl as [|a b t t' Hab Ht IH]; simpl; [reflexivity|]. rewrite (H a b Hab), IH. reflexivity.
Qed.

Lemma alloc_exhaustive_scale W : alloc_exhaustive x' W = alloc_exhaustive x W.
Proof.
  assert (Ht : tcost (mi_inst x') W == k * tcost (mi_inst x) W)
    by apply (tcost_map_scale k (mi_costs x) (mi_budget x) (k * mi_budget x)).
  unfold alloc_exhaustive. symmetry.
  apply (forallb_rel (mrel k j)); [|exact (proj1 built_scale)].
  intros a b (Hid & _ & Hc & _). rewrite Hid. f_equal. f_equal. symmetry.
  apply (Qleb_mul_ k); [exact Hk| |reflexivity].
  rewrite Hc, Ht. ring.
Qed.

Theorem iter_res_scale inc inc' : inc' == k * inc -> forall fuel b0 b0' prev prev',
  b0' == k * b0 -> option_map o_alloc prev' = option_map o_alloc prev ->
  option_map o_alloc (iter_res fuel x' inc' b0' prev') = option_map o_alloc (iter_res fuel x inc b0 prev).
Proof.
  intros Hinc. induction fuel as [|f IH]; intros b0 b0' prev prev' Hb0 Hprev; [reflexivity|].
  cbn [iter_res]. pose proof (run_once_res_scale b0 b0' Hb0) as H.
  destruct (run_once_res x' b0') as [o'|], (run_once_res x b0) as [o|]; simpl in H; try discriminate H;
    [|reflexivity].
  injection H as H. rewrite H, alloc_feasible_scale, alloc_exhaustive_scale.
  destruct (negb (alloc_feasible x (o_alloc o))); [exact Hprev|].
  destruct (alloc_exhaustive x (o_alloc o)); [simpl; rewrite H; reflexivity|].
  apply IH; [rewrite !Qred_correct, Hb0, Hinc; ring|simpl; rewrite H; reflexivity].
Qed.

Theorem mes_scale_iter fuel inc inc' : inc' == k * inc ->
  option_map o_alloc (mes_iter_resolute fuel x' inc') = option_map o_alloc (mes_iter_resolute fuel x inc).
Proof.
  intros Hinc. unfold mes_iter_resolute. apply iter_res_scale; [exact Hinc|apply share_scale|reflexivity].
Qed.

Theorem iter_irr_scale inc inc' : inc' == k * inc -> forall fuel b0 b0' prev,
  b0' == k * b0 -> iter_irr fuel x' inc' b0' prev = iter_irr fuel x inc b0 prev.
Proof.
  intros Hinc. induction fuel as [|f IH]; intros b0 b0' prev Hb0; [reflexivity|].
  cbn [iter_irr]. rewrite (run_once_irr_scale b0 b0' Hb0).
  destruct (run_once_irr x b0) as [outs|]; [|reflexivity].
  rewrite (existsb_ext_in (fun W => negb (alloc_feasible x' W)) (fun W => negb (alloc_feasible x W)) outs)
    by (intros W _; rewrite alloc_feasible_scale; reflexivity).
  rewrite (existsb_ext_in (alloc_exhaustive x') (alloc_exhaustive x) outs)
    by (intros W _; apply alloc_exhaustive_scale).
  destruct (existsb (fun W => negb (alloc_feasible x W)) outs); [reflexivity|].
  destruct (existsb (alloc_exhaustive x) outs); [reflexivity|].
  apply IH. rewrite !Qred_correct, Hb0, Hinc. ring.
Qed.

Theorem mes_scale_iter_irr fuel inc inc' : inc' == k * inc ->
  mes_iter_irresolute fuel x' inc' = mes_iter_irresolute fuel x inc.
Proof. intros Hinc. unfold mes_iter_irresolute. apply iter_irr_scale; [exact Hinc|apply share_scale]. Qed.
End MesScaleTop.
