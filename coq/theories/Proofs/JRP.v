(* Proofs/JRP.v -- proofs for C14: the model checkers of Model/Cohesive.v and the brute-force oracle of
   Oracle/C14.v decide the definitions of Spec/JR.v; the implication lattice on the definitions. *)
From PB Require Import Spec.JR Model.Cohesive Oracle.C14.
Open Scope Q_scope.

(* ------------------------------------------------------------------------------------------ *)
(* sat_upto: monotonicity, the surplus of the code, the boolean of the oracle *)

Lemma sat_upto_mono r uf uf' T T' W sW sW' thr thr' :
  (forall p, In p T <-> In p T') -> sW <= sW' -> thr' <= thr ->
  (forall p, In p T -> uf p <= uf' p) ->
  sat_upto r uf T W sW thr -> sat_upto r uf' T' W sW' thr'.
Proof.
  intros HT Hs Ht Hu. destruct r; simpl.
  - intros H. lra.
  - intros H p Hp Hn. apply HT in Hp. specialize (H p Hp Hn). specialize (Hu p Hp). lra.
  - intros [H|[p [Hp [Hn H]]]]; [left; lra|].
    right. exists p. split; [apply HT; exact Hp|]. split; [exact Hn|]. specialize (Hu p Hp). lra.
Qed.

Lemma sat_upto_eqv r uf T T' W sW sW' thr thr' :
  (forall p, In p T <-> In p T') -> sW == sW' -> thr == thr' ->
  sat_upto r uf T W sW thr -> sat_upto r uf T' W sW' thr'.
Proof.
  intros HT Hs Ht. apply sat_upto_mono; [exact HT|lra|lra|]. intros; apply Qle_refl.
Qed.

(* the requirement T <> [] in the cohesiveness definitions only removes a vacuous case: for the empty
   project set every threshold is 0, reached by any non-negative satisfaction under every relaxation *)
Lemma sat_upto_empty_T r uf W sW : 0 <= sW -> sat_upto r uf [] W sW 0.
Proof. intros H. destruct r; simpl; [exact H|intros p []|left; exact H]. Qed.

(* plain => up-to-any => up-to-one *)
Lemma sat_upto_plain_any uf T W sW thr :
  (forall p, In p T -> 0 <= uf p) -> sat_upto Plain uf T W sW thr -> sat_upto UpToAny uf T W sW thr.
Proof. simpl. intros Hu H p Hp _. specialize (Hu p Hp). lra. Qed.

Lemma subset_dec (T W : list nat) : (forall p, In p T -> In p W) \/ exists p, In p T /\ ~ In p W.
Proof.
  destruct (outside W T) as [|p l] eqn:E.
  - left. apply outside_nil. exact E.
  - right. exists p. apply outside_In. rewrite E. left. reflexivity.
Qed.

Lemma sat_upto_any_one uf T W sW thr :
  ((forall p, In p T -> In p W) -> thr <= sW) ->
  sat_upto UpToAny uf T W sW thr -> sat_upto UpToOne uf T W sW thr.
Proof.
  simpl. intros Hsub H. destruct (subset_dec T W) as [Hin|[p [Hp Hn]]].
  - left. apply Hsub. exact Hin.
  - right. exists p. split; [exact Hp|]. split; [exact Hn|]. apply H; assumption.
Qed.

(* the surplus computed by the code decides the relaxation *)
Lemma surplus_spec r uf T W sW thr :
  (forall p, In p T -> 0 <= uf p) ->
  ((forall p, In p T -> In p W) -> thr <= sW) ->
  (thr <= sW + surplus r uf T W <-> sat_upto r uf T W sW thr).
Proof.
  intros Hu Hsub. unfold surplus. destruct r; simpl.
  - split; intros H; lra.
  - destruct (outside W T) as [|x l] eqn:E; simpl.
    + pose proof (outside_nil _ _ E) as Hin. split.
      * intros _ p Hp Hn. exfalso. apply Hn. apply Hin. exact Hp.
      * intros _. specialize (Hsub Hin). lra.
    + split.
      * intros H p Hp Hn.
        assert (Hin : In (uf p) (uf x :: map uf l)).
        { change (In (uf p) (map uf (x :: l))). apply in_map. rewrite <- E. apply outside_In. tauto. }
        pose proof (qmin_ne_le _ _ _ Hin). lra.
      * intros H. pose proof (qmin_ne_In (map uf l) (uf x)) as Hin.
        change (In (qmin_ne (uf x) (map uf l)) (map uf (x :: l))) in Hin.
        apply in_map_iff in Hin. destruct Hin as [p [Ep Hp]]. rewrite <- E in Hp.
        apply outside_In in Hp. destruct Hp as [Hp Hn]. rewrite <- Ep. apply H; assumption.
  - destruct (outside W T) as [|x l] eqn:E; simpl.
    + pose proof (outside_nil _ _ E) as Hin. split.
      * intros H. left. lra.
      * intros [H|[p [Hp [Hn _]]]]; [lra|]. exfalso. apply Hn. apply Hin. exact Hp.
    + split.
      * intros H. right. pose proof (qmax_ne_In (map uf l) (uf x)) as Hin.
        change (In (qmax_ne (uf x) (map uf l)) (map uf (x :: l))) in Hin.
        apply in_map_iff in Hin. destruct Hin as [p [Ep Hp]]. rewrite <- E in Hp.
        apply outside_In in Hp. destruct Hp as [Hp Hn]. exists p. split; [exact Hp|]. split; [exact Hn|].
        rewrite Ep. exact H.
      * assert (Hx : In x (outside W T)) by (rewrite E; left; reflexivity).
        apply outside_In in Hx. destruct Hx as [HxT HxW].
        assert (Hmax : forall p, In p T -> ~ In p W -> uf p <= qmax_ne (uf x) (map uf l)).
        { intros p Hp Hn. apply qmax_ne_ge. change (In (uf p) (map uf (x :: l))). apply in_map.
          rewrite <- E. apply outside_In. tauto. }
        intros [H|[p [Hp [Hn H]]]].
        -- specialize (Hmax x HxT HxW). specialize (Hu x HxT). lra.
        -- specialize (Hmax p Hp Hn). lra.
Qed.

Lemma upto_b_iff r uf T W sW thr : upto_b r uf T W sW thr = true <-> sat_upto r uf T W sW thr.
Proof.
  destruct r; simpl.
  - apply Qleb_iff.
  - rewrite forallb_forall. split.
    + intros H p Hp Hn. specialize (H p Hp). apply orb_true_iff in H. destruct H as [H|H].
      * exfalso. apply Hn. apply memb_In. exact H.
      * apply Qleb_iff. exact H.
    + intros H p Hp. apply orb_true_iff. destruct (memb p W) eqn:M; [left; reflexivity|right].
      apply Qleb_iff. apply H; [exact Hp|]. apply memb_false_In. exact M.
  - rewrite orb_true_iff, Qleb_iff, existsb_exists. split.
    + intros [H|[p [Hp H]]]; [left; exact H|]. right. exists p.
      apply andb_true_iff in H. destruct H as [Hn H]. apply negb_true_iff, memb_false_In in Hn.
      apply Qleb_iff in H. tauto.
    + intros [H|[p [Hp [Hn H]]]]; [left; exact H|]. right. exists p. split; [exact Hp|].
      apply andb_true_iff. split; [apply negb_true_iff, memb_false_In; exact Hn|apply Qleb_iff; exact H].
Qed.

(* ------------------------------------------------------------------------------------------ *)
(* enumerations *)

Lemma nonempty_iff A (l : list A) : nonempty l = true <-> l <> [].
Proof. unfold nonempty. destruct l; simpl; split; intro H; try reflexivity; try discriminate; try (exfalso; apply H; reflexivity). Qed.

Lemma nonemptyb_iff A (l : list A) : nonemptyb l = true <-> l <> [].
Proof. destruct l; simpl; split; intro H; try reflexivity; try discriminate; try (exfalso; apply H; reflexivity). Qed.

Lemma length0_iff A (l : list A) : Nat.eqb (length l) 0 = false <-> l <> [].
Proof. destruct l; simpl; split; intro H; try reflexivity; try discriminate; try (exfalso; apply H; reflexivity). Qed.

Lemma subseqs_spec A (l : list A) : forall s, In s (subseqs l) <-> sublist s l.
Proof.
  induction l as [|x t IH]; intros s; simpl.
  - split.
    + intros [<-|[]]. constructor.
    + intros H. apply sublist_nil_inv in H. left. congruence.
  - rewrite in_app_iff, in_map_iff. split.
    + intros [[s' [<- Hs']]|Hs].
      * apply sl_take. apply IH. exact Hs'.
      * apply sl_skip. apply IH. exact Hs.
    + intros H. inversion H as [|y s0 l0 H0|y s0 l0 H0]; subst.
      * right. apply IH. exact H0.
      * left. exists s0. split; [reflexivity|apply IH; exact H0].
Qed.

Section Enum.
Variable I : inst.
Variable V : Type.
Variable P : list V.
Variable enum : list proj.

Definition enum_ok : Prop := NoDup enum /\ forall p, In p enum <-> (p < nproj I)%nat.

Lemma all_projects_ok : NoDup (all_projects I) /\ forall p, In p (all_projects I) <-> (p < nproj I)%nat.
Proof.
  unfold all_projects. split; [apply seq_NoDup|]. intros p. rewrite in_seq. lia.
Qed.

Lemma groups_where_In test S T :
  In (S, T) (groups_where V P enum test) <->
  is_group V P S /\ sublist T enum /\ T <> [] /\ test S T = true.
Proof.
  unfold groups_where, is_group. rewrite in_flat_map. split.
  - intros [S' [HS' H]]. apply powerset_spec in HS'.
    destruct (nonempty S') eqn:NS; [|destruct H]. apply nonempty_iff in NS.
    apply in_flat_map in H. destruct H as [T' [HT' H]]. apply powerset_spec in HT'.
    destruct (nonempty T') eqn:NT; [|destruct H]. apply nonempty_iff in NT.
    destruct (test S' T') eqn:TT; [|destruct H]. destruct H as [E|[]]. inversion E; subst. tauto.
  - intros [[HS NS] [HT [NT TT]]]. exists S. split; [apply powerset_spec; exact HS|].
    apply nonempty_iff in NS. rewrite NS. apply in_flat_map. exists T.
    split; [apply powerset_spec; exact HT|]. apply nonempty_iff in NT. rewrite NT, TT. left. reflexivity.
Qed.

Lemma forall_pairs_iff f :
  forall_pairs I V P f = true <->
  forall S T, is_group V P S -> sublist T (all_projects I) -> f S T = true.
Proof.
  unfold forall_pairs, all_groups, all_psets, is_group. rewrite forallb_forall. split.
  - intros H S T [HS NS] HT.
    assert (HG : In S (filter nonemptyb (subseqs P))).
    { apply filter_In. split; [apply subseqs_spec; exact HS|apply nonemptyb_iff; exact NS]. }
    specialize (H S HG). rewrite forallb_forall in H. apply H. apply subseqs_spec. exact HT.
  - intros H S HS. apply filter_In in HS. destruct HS as [HS NS].
    apply subseqs_spec in HS. apply nonemptyb_iff in NS.
    rewrite forallb_forall. intros T HT. apply subseqs_spec in HT. apply H; [split; assumption|exact HT].
Qed.

Lemma pset_of_sublist T : enum_ok -> sublist T enum -> is_pset I T.
Proof.
  intros [Hnd Hin] HT. split.
  - eapply sublist_NoDup; [exact HT|exact Hnd].
  - intros p Hp. apply Hin. eapply sublist_In; [exact HT|exact Hp].
Qed.

(* quantifying over the sub-lists of the enumeration = quantifying over all project sets, for a
   predicate that does not depend on the order of T *)
Lemma forall_psets (body : list V -> list proj -> Prop) :
  enum_ok ->
  (forall S T T', Permutation T' T -> body S T' -> body S T) ->
  ((forall S T, is_group V P S -> sublist T enum -> body S T) <->
   (forall S T, is_group V P S -> is_pset I T -> body S T)).
Proof.
  intros Hok Hperm. split.
  - intros H S T HS [Hnd Hv]. destruct Hok as [He Hin].
    destruct (pset_as_sublist enum T He Hnd) as [T' [Hsub HP]].
    + intros p Hp. apply Hin. apply Hv. exact Hp.
    + apply (Hperm S T T'); [symmetry; exact HP|]. apply H; assumption.
  - intros H S T HS HT. apply H; [exact HS|]. apply pset_of_sublist; assumption.
Qed.

End Enum.

(* ------------------------------------------------------------------------------------------ *)
(* minimum / maximum over a group *)

Lemma gmin_le V (g : V -> Q) S i : In i S -> gmin g S <= g i.
Proof.
  unfold gmin. destruct S as [|a S']; [intros []|]. intros Hin. simpl.
  apply qmin_ne_le. change (In (g i) (map g (a :: S'))). apply in_map. exact Hin.
Qed.

Lemma gmin_In V (g : V -> Q) S : S <> [] -> exists i, In i S /\ gmin g S = g i.
Proof.
  unfold gmin. destruct S as [|a S']; [congruence|]. intros _. simpl.
  pose proof (qmin_ne_In (map g S') (g a)) as H. change (In (qmin_ne (g a) (map g S')) (map g (a :: S'))) in H.
  apply in_map_iff in H. destruct H as [i [E Hi]]. exists i. split; [exact Hi|symmetry; exact E].
Qed.

Lemma gmax_ge V (g : V -> Q) S i : In i S -> g i <= gmax g S.
Proof.
  unfold gmax. destruct S as [|a S']; [intros []|]. intros Hin. simpl.
  apply qmax_ne_ge. change (In (g i) (map g (a :: S'))). apply in_map. exact Hin.
Qed.

Lemma gmax_In V (g : V -> Q) S : S <> [] -> exists i, In i S /\ gmax g S = g i.
Proof.
  unfold gmax. destruct S as [|a S']; [congruence|]. intros _. simpl.
  pose proof (qmax_ne_In (map g S') (g a)) as H. change (In (qmax_ne (g a) (map g S')) (map g (a :: S'))) in H.
  apply in_map_iff in H. destruct H as [i [E Hi]]. exists i. split; [exact Hi|symmetry; exact E].
Qed.

(* ------------------------------------------------------------------------------------------ *)
(* generic shape of a checker: for all groups and project sets passing a test, a conclusion *)

Section Generic.
Variable I : inst.
Variable V : Type.
Variable P : list V.
Variable enum : list proj.

Notation is_group := (is_group V P).
Notation is_pset := (is_pset I).

Lemma in_group S i : is_group S -> In i S -> In i P.
Proof. intros [HS _] Hi. eapply sublist_In; [exact HS|exact Hi]. Qed.

Lemma perm_nonnil (T T' : list proj) : Permutation T T' -> T <> [] -> T' <> [].
Proof. intros HP HT E. subst. apply Permutation_sym, Permutation_nil in HP. contradiction. Qed.

Lemma forallb_groups test (h : list V * list proj -> bool) :
  forallb h (groups_where V P enum test) = true <->
  forall S T, is_group S -> sublist T enum -> T <> [] -> test S T = true -> h (S, T) = true.
Proof.
  rewrite forallb_forall. split.
  - intros H S T HS HT NT TT. apply H. apply groups_where_In. tauto.
  - intros H [S T] Hin. apply groups_where_In in Hin. destruct Hin as [HS [HT [NT TT]]]. apply H; assumption.
Qed.

Lemma checker_groups (test : list V -> list proj -> bool) (h : list V * list proj -> bool)
      (coh conc : list V -> list proj -> Prop) :
  enum_ok I enum ->
  (forall S T, is_group S -> is_pset T -> T <> [] -> (test S T = true <-> coh S T)) ->
  (forall S T, is_group S -> is_pset T -> T <> [] -> coh S T -> (h (S, T) = true <-> conc S T)) ->
  (forall S T T', Permutation T T' -> coh S T -> coh S T') ->
  (forall S T T', Permutation T T' -> coh S T -> conc S T -> conc S T') ->
  (forallb h (groups_where V P enum test) = true <->
   forall S T, is_group S -> is_pset T -> T <> [] -> coh S T -> conc S T).
Proof.
  intros Hok Htest Hh Hp1 Hp2. rewrite forallb_groups.
  rewrite <- (forall_psets I V P enum (fun S T => T <> [] -> coh S T -> conc S T) Hok).
  - split.
    + intros H S T HS HT NT HC. pose proof (pset_of_sublist I enum T Hok HT) as HpT.
      apply (Hh S T HS HpT NT HC). apply H; try assumption. apply (Htest S T HS HpT NT). exact HC.
    + intros H S T HS HT NT TT. pose proof (pset_of_sublist I enum T Hok HT) as HpT.
      apply (Htest S T HS HpT NT) in TT. apply (Hh S T HS HpT NT TT). apply H; assumption.
  - intros S T T' HP H NT HC.
    assert (HC' : coh S T') by (apply (Hp1 S T T'); [symmetry; exact HP|exact HC]).
    apply (Hp2 S T' T HP HC'). apply H; [|exact HC'].
    apply (perm_nonnil T T'); [symmetry; exact HP|exact NT].
Qed.

Lemma checker_bf (cohb g : list V -> list proj -> bool) (coh conc : list V -> list proj -> Prop) :
  (forall S T, is_group S -> is_pset T -> (cohb S T = true <-> T <> [] /\ coh S T)) ->
  (forall S T, is_group S -> is_pset T -> T <> [] -> coh S T -> (g S T = true <-> conc S T)) ->
  (forall S T T', Permutation T T' -> coh S T -> coh S T') ->
  (forall S T T', Permutation T T' -> coh S T -> conc S T -> conc S T') ->
  (forall_pairs I V P (fun G T => negb (cohb G T) || g G T) = true <->
   forall S T, is_group S -> is_pset T -> T <> [] -> coh S T -> conc S T).
Proof.
  intros Hc Hg Hp1 Hp2. rewrite forall_pairs_iff.
  assert (Hok : enum_ok I (all_projects I)) by apply all_projects_ok.
  rewrite <- (forall_psets I V P (all_projects I) (fun S T => T <> [] -> coh S T -> conc S T) Hok).
  - split.
    + intros H S T HS HT NT HC. pose proof (pset_of_sublist I _ T Hok HT) as HpT.
      specialize (H S T HS HT). apply orb_true_iff in H. destruct H as [H|H].
      * apply negb_true_iff in H. assert (cohb S T = true) by (apply (Hc S T HS HpT); tauto). congruence.
      * apply (Hg S T HS HpT NT HC). exact H.
    + intros H S T HS HT. pose proof (pset_of_sublist I _ T Hok HT) as HpT.
      apply orb_true_iff. destruct (cohb S T) eqn:E; [right|left; reflexivity].
      apply (Hc S T HS HpT) in E. destruct E as [NT HC]. apply (Hg S T HS HpT NT HC). apply H; assumption.
  - intros S T T' HP H NT HC.
    assert (HC' : coh S T') by (apply (Hp1 S T T'); [symmetry; exact HP|exact HC]).
    apply (Hp2 S T' T HP HC'). apply H; [|exact HC'].
    apply (perm_nonnil T T'); [symmetry; exact HP|exact NT].
Qed.

End Generic.

(* ------------------------------------------------------------------------------------------ *)
(* the checkers *)

Section Checkers.
Variable I : inst.
Variable V : Type.
Variable P : list V.
Variable approves : V -> proj -> bool.
Variable score : V -> proj -> Q.
Variable ut : V -> proj -> Q.
Variable pv : proj -> Q.
Variable enum : list proj.

Notation is_group := (is_group V P).
Notation is_pset := (is_pset I).
Notation large_enough := (large_enough I V P).
Notation sat := (sat V ut).
Notation val := (val pv).
Notation ut_nonneg := (ut_nonneg V P ut).
Notation score_nonneg := (score_nonneg V P score).
Notation pv_nonneg := (pv_nonneg pv).
Notation ut_is_score := (ut_is_score V P score ut).
Notation ut_approval := (ut_approval V P approves ut pv).
Notation amin := (amin V score).
Notation gscore := (gscore V score).

Lemma large_iff S T :
  is_large_enough (length S) (length P) (tcost I T) (budget I) = true <-> large_enough S T.
Proof. unfold is_large_enough, JR.large_enough. apply Qleb_iff. Qed.

Lemma large_b_iff S T : large_b I V P S T = true <-> large_enough S T.
Proof. unfold large_b, JR.large_enough. apply Qleb_iff. Qed.

Lemma large_perm S T T' : Permutation T T' -> large_enough S T -> large_enough S T'.
Proof. unfold JR.large_enough. intros HP H. rewrite <- (tcost_perm I T T' HP). exact H. Qed.

Lemma sat_perm i T T' : Permutation T T' -> sat i T == sat i T'.
Proof. intros HP. unfold JR.sat. apply Qsum_map_perm. exact HP. Qed.

Lemma perm_In_iff (T T' : list proj) : Permutation T T' -> forall p, In p T <-> In p T'.
Proof.
  intros HP p. split; intro H; [eapply Permutation_in; [exact HP|exact H]|].
  eapply Permutation_in; [symmetry; exact HP|exact H].
Qed.

Lemma sat_subset_le i T W :
  ut_nonneg -> In i P -> NoDup T -> (forall p, In p T -> In p W) -> sat i T <= sat i W.
Proof.
  intros Hnn Hi Hnd Hsub. unfold JR.sat. apply Qsum_map_incl_le; [exact Hnd|exact Hsub|].
  intros p _. apply Hnn. exact Hi.
Qed.

(* "some member reaches the threshold, up to r": the loop of the code and the oracle's boolean *)
Lemma member_model r S T W (thr : V -> Q) :
  (forall i p, In i S -> In p T -> 0 <= ut i p) ->
  (forall i, In i S -> (forall p, In p T -> In p W) -> thr i <= sat i W) ->
  (existsb (fun b => Qleb (thr b) (msat V ut b W + surplus r (ut b) T W)) S = true <->
   exists i, In i S /\ sat_upto r (ut i) T W (sat i W) (thr i)).
Proof.
  intros Hnn Hsub. rewrite existsb_exists. split.
  - intros [i [Hi H]]. exists i. split; [exact Hi|]. apply Qleb_iff in H.
    apply surplus_spec; [intros p Hp; apply Hnn; assumption|apply Hsub; exact Hi|exact H].
  - intros [i [Hi H]]. exists i. split; [exact Hi|]. apply Qleb_iff.
    apply surplus_spec in H; [exact H|intros p Hp; apply Hnn; assumption|apply Hsub; exact Hi].
Qed.

Lemma member_bf r S T W (thr : V -> Q) :
  existsb (fun i => upto_b r (ut i) T W (sat i W) (thr i)) S = true <->
  exists i, In i S /\ sat_upto r (ut i) T W (sat i W) (thr i).
Proof.
  rewrite existsb_exists. split; intros [i [Hi H]]; exists i; (split; [exact Hi|]); apply upto_b_iff; exact H.
Qed.

Lemma member_perm r S T T' W (thr thr' : V -> Q) :
  Permutation T T' -> (forall i, In i S -> thr i == thr' i) ->
  (exists i, In i S /\ sat_upto r (ut i) T W (sat i W) (thr i)) ->
  exists i, In i S /\ sat_upto r (ut i) T' W (sat i W) (thr' i).
Proof.
  intros HP Ht [i [Hi H]]. exists i. split; [exact Hi|].
  eapply sat_upto_eqv; [apply perm_In_iff; exact HP|reflexivity|apply Ht; exact Hi|exact H].
Qed.

(* ---------------- the core ---------------- *)

Definition core_body r W S T : Prop :=
  large_enough S T -> exists i, In i S /\ sat_upto r (ut i) T W (sat i W) (sat i T).

Lemma core_body_perm r W S T T' : Permutation T' T -> core_body r W S T' -> core_body r W S T.
Proof.
  intros HP H HL. apply (member_perm r S T' T W (fun i => sat i T') (fun i => sat i T) HP).
  - intros i _. apply sat_perm. exact HP.
  - apply H. apply (large_perm S T T'); [symmetry; exact HP|exact HL].
Qed.

Theorem is_in_core_iff r W :
  enum_ok I enum -> ut_nonneg ->
  (is_in_core I V P ut enum r W = true <-> core I V P ut r W).
Proof.
  intros Hok Hnn. unfold core.
  rewrite <- (forall_psets I V P enum (core_body r W) Hok (core_body_perm r W)).
  unfold is_in_core. rewrite forallb_forall. split.
  - intros H S T HS HT HL. pose proof HS as [HSs HSn].
    assert (HSp : In S (powerset P)) by (apply powerset_spec; exact HSs).
    specialize (H S HSp). apply nonempty_iff in HSn. rewrite HSn in H. rewrite forallb_forall in H.
    assert (HTp : In T (powerset enum)) by (apply powerset_spec; exact HT).
    specialize (H T HTp). apply large_iff in HL. rewrite HL in H.
    apply (member_model r S T W (fun i => sat i T)) in H; [exact H| |].
    + intros i p Hi _. apply Hnn. eapply in_group; eassumption.
    + intros i Hi Hsub. apply sat_subset_le; [exact Hnn|eapply in_group; eassumption| |exact Hsub].
      apply (pset_of_sublist I enum T Hok HT).
  - intros H S HSp. apply powerset_spec in HSp. destruct (nonempty S) eqn:NS; [|reflexivity].
    apply nonempty_iff in NS. assert (HS : is_group S) by (split; assumption).
    rewrite forallb_forall. intros T HTp. apply powerset_spec in HTp.
    destruct (is_large_enough (length S) (length P) (tcost I T) (budget I)) eqn:HL; [|reflexivity].
    apply large_iff in HL.
    apply (member_model r S T W (fun i => sat i T)).
    + intros i p Hi _. apply Hnn. eapply in_group; eassumption.
    + intros i Hi Hsub. apply sat_subset_le; [exact Hnn|eapply in_group; eassumption| |exact Hsub].
      apply (pset_of_sublist I enum T Hok HTp).
    + apply H; assumption.
Qed.

Theorem bf_core_iff r W : bf_core I V P ut r W = true <-> core I V P ut r W.
Proof.
  unfold core, bf_core.
  rewrite <- (forall_psets I V P (all_projects I) (core_body r W) (all_projects_ok I) (core_body_perm r W)).
  rewrite forall_pairs_iff. split.
  - intros H S T HS HT HL. specialize (H S T HS HT). apply large_b_iff in HL. rewrite HL in H. simpl in H.
    apply (member_bf r S T W (fun i => sat i T)). exact H.
  - intros H S T HS HT. destruct (large_b I V P S T) eqn:HL; [simpl|reflexivity].
    apply (member_bf r S T W (fun i => sat i T)). apply H; try assumption. apply large_b_iff. exact HL.
Qed.

Lemma members_dec W T S :
  (exists i, In i S /\ sat i T <= sat i W) \/ (forall i, In i S -> sat i W < sat i T).
Proof.
  induction S as [|a S' IH].
  - right. intros i [].
  - destruct (Qlt_le_dec (sat a W) (sat a T)) as [Hlt|Hle].
    + destruct IH as [[i [Hi Hs]]|Hall].
      * left. exists i. split; [right; exact Hi|exact Hs].
      * right. intros i [<-|Hi]; [exact Hlt|apply Hall; exact Hi].
    + left. exists a. split; [left; reflexivity|exact Hle].
Qed.

(* the negative, textbook form of the plain core: no group can afford a set all its members prefer *)
Theorem core_no_blocking W :
  core I V P ut Plain W <->
  ~ exists S T, is_group S /\ is_pset T /\ large_enough S T /\ forall i, In i S -> sat i W < sat i T.
Proof.
  unfold core. simpl. split.
  - intros H [S [T [HS [HT [HL Hall]]]]]. destruct (H S T HS HT HL) as [i [Hi Hle]].
    specialize (Hall i Hi). lra.
  - intros H S T HS HT HL. destruct (members_dec W T S) as [Hex|Hall]; [exact Hex|].
    exfalso. apply H. exists S, T. tauto.
Qed.

(* ---------------- approval ballots ---------------- *)

Definition coh_app S T : Prop :=
  large_enough S T /\ forall i p, In i S -> In p T -> approves i p = true.

Lemma cohesive_app_unfold S T :
  cohesive_app I V P approves S T <-> is_group S /\ is_pset T /\ T <> [] /\ coh_app S T.
Proof. unfold cohesive_app, coh_app. tauto. Qed.

Lemma approves_all_iff S T :
  forallb (fun b => forallb (fun p => approves b p) T) S = true <->
  forall i p, In i S -> In p T -> approves i p = true.
Proof.
  rewrite forallb_forall. split.
  - intros H i p Hi Hp. specialize (H i Hi). rewrite forallb_forall in H. apply H. exact Hp.
  - intros H i Hi. rewrite forallb_forall. intros p Hp. apply H; assumption.
Qed.

Lemma is_cohesive_approval_iff S T :
  is_group S -> T <> [] -> (is_cohesive_approval I V P approves T S = true <-> coh_app S T).
Proof.
  intros [_ NS] NT. unfold is_cohesive_approval, coh_app.
  apply length0_iff in NS. apply length0_iff in NT. rewrite NS, NT. simpl.
  destruct (is_large_enough (length S) (length P) (tcost I T) (budget I)) eqn:HL; simpl.
  - apply large_iff in HL. rewrite approves_all_iff. tauto.
  - split; [discriminate|]. intros [HL' _]. apply large_iff in HL'. congruence.
Qed.

Lemma coh_app_b_iff S T : coh_app_b I V P approves S T = true <-> T <> [] /\ coh_app S T.
Proof.
  unfold coh_app_b, coh_app. rewrite !andb_true_iff, nonemptyb_iff, large_b_iff.
  assert (E : forallb (fun i => forallb (approves i) T) S = forallb (fun b => forallb (fun p => approves b p) T) S)
    by reflexivity.
  rewrite E, approves_all_iff. tauto.
Qed.

Lemma coh_app_perm S T T' : Permutation T T' -> coh_app S T -> coh_app S T'.
Proof.
  intros HP [HL HA]. split; [apply (large_perm S T T' HP HL)|].
  intros i p Hi Hp. apply HA; [exact Hi|]. apply (perm_In_iff T T' HP). exact Hp.
Qed.

(* strong EJR *)
Definition sEJR_app_conc W S T : Prop := forall i, In i S -> sat i T <= sat i W.

Lemma strong_EJR_app_unfold W :
  strong_EJR_app I V P approves ut W <->
  forall S T, is_group S -> is_pset T -> T <> [] -> coh_app S T -> sEJR_app_conc W S T.
Proof.
  unfold strong_EJR_app, sEJR_app_conc. split.
  - intros H S T HS HT NT HC. apply (H S T). apply cohesive_app_unfold. tauto.
  - intros H S T HC. apply cohesive_app_unfold in HC. destruct HC as [HS [HT [NT HC]]].
    exact (H S T HS HT NT HC).
Qed.

Lemma sEJR_app_conc_perm W S T T' : Permutation T T' -> sEJR_app_conc W S T -> sEJR_app_conc W S T'.
Proof. intros HP H i Hi. rewrite <- (sat_perm i T T' HP). apply H. exact Hi. Qed.

Lemma all_members_iff W S (thr : V -> Q) :
  forallb (fun b => negb (Qltb (msat V ut b W) (thr b))) S = true <-> forall i, In i S -> thr i <= sat i W.
Proof.
  rewrite forallb_forall. split; intros H i Hi; specialize (H i Hi).
  - apply negb_true_iff, Qltb_false_iff in H. exact H.
  - apply negb_true_iff, Qltb_false_iff. exact H.
Qed.

Theorem is_strong_EJR_approval_iff W :
  enum_ok I enum ->
  (is_strong_EJR_approval I V P approves ut enum W = true <-> strong_EJR_app I V P approves ut W).
Proof.
  intros Hok. rewrite strong_EJR_app_unfold. unfold is_strong_EJR_approval, cohesive_groups_app.
  apply checker_groups; try exact Hok.
  - intros S T HS _ NT. apply is_cohesive_approval_iff; assumption.
  - intros S T HS _ _ _. cbn beta iota. apply (all_members_iff W S (fun i => sat i T)).
  - intros S T T' HP. apply coh_app_perm. exact HP.
  - intros S T T' HP _. apply sEJR_app_conc_perm. exact HP.
Qed.

Theorem bf_strong_EJR_app_iff W :
  bf_strong_EJR_app I V P approves ut W = true <-> strong_EJR_app I V P approves ut W.
Proof.
  rewrite strong_EJR_app_unfold. unfold bf_strong_EJR_app. apply checker_bf.
  - intros S T _ _. apply coh_app_b_iff.
  - intros S T _ _ _ _. rewrite forallb_forall. unfold sEJR_app_conc.
    split; intros H i Hi; specialize (H i Hi); apply Qleb_iff; exact H.
  - intros S T T' HP. apply coh_app_perm. exact HP.
  - intros S T T' HP _. apply sEJR_app_conc_perm. exact HP.
Qed.

(* EJR and its relaxations *)
Definition EJR_app_conc r W S T : Prop :=
  exists i, In i S /\ sat_upto r (ut i) T W (sat i W) (sat i T).

Lemma EJR_app_unfold r W :
  EJR_app I V P approves ut r W <->
  forall S T, is_group S -> is_pset T -> T <> [] -> coh_app S T -> EJR_app_conc r W S T.
Proof.
  unfold EJR_app, EJR_app_conc. split.
  - intros H S T HS HT NT HC. apply (H S T). apply cohesive_app_unfold. tauto.
  - intros H S T HC. apply cohesive_app_unfold in HC. destruct HC as [HS [HT [NT HC]]].
    exact (H S T HS HT NT HC).
Qed.

Lemma EJR_app_conc_perm r W S T T' : Permutation T T' -> EJR_app_conc r W S T -> EJR_app_conc r W S T'.
Proof.
  intros HP. apply (member_perm r S T T' W (fun i => sat i T) (fun i => sat i T') HP).
  intros i _. apply sat_perm. exact HP.
Qed.

Theorem is_EJR_approval_iff r W :
  enum_ok I enum -> ut_nonneg ->
  (is_EJR_approval I V P approves ut enum r W = true <-> EJR_app I V P approves ut r W).
Proof.
  intros Hok Hnn. rewrite EJR_app_unfold. unfold is_EJR_approval, cohesive_groups_app.
  apply checker_groups; try exact Hok.
  - intros S T HS _ NT. apply is_cohesive_approval_iff; assumption.
  - intros S T HS [HT _] _ _. cbn beta iota. apply (member_model r S T W (fun i => sat i T)).
    + intros i p Hi _. apply Hnn. eapply in_group; eassumption.
    + intros i Hi Hsub. apply sat_subset_le; [exact Hnn|eapply in_group; eassumption|exact HT|exact Hsub].
  - intros S T T' HP. apply coh_app_perm. exact HP.
  - intros S T T' HP _. apply EJR_app_conc_perm. exact HP.
Qed.

Theorem bf_EJR_app_iff r W :
  bf_EJR_app I V P approves ut r W = true <-> EJR_app I V P approves ut r W.
Proof.
  rewrite EJR_app_unfold. unfold bf_EJR_app. apply checker_bf.
  - intros S T _ _. apply coh_app_b_iff.
  - intros S T _ _ _ _. apply (member_bf r S T W (fun i => sat i T)).
  - intros S T T' HP. apply coh_app_perm. exact HP.
  - intros S T T' HP _. apply EJR_app_conc_perm. exact HP.
Qed.

(* PJR and its relaxations *)
Definition PJR_app_conc r W S T : Prop :=
  sat_upto r pv T W (val (filter (approved_by V approves S) W)) (val T).

Lemma PJR_app_unfold r W :
  PJR_app I V P approves pv r W <->
  forall S T, is_group S -> is_pset T -> T <> [] -> coh_app S T -> PJR_app_conc r W S T.
Proof.
  unfold PJR_app, PJR_app_conc. split.
  - intros H S T HS HT NT HC. apply (H S T). apply cohesive_app_unfold. tauto.
  - intros H S T HC. apply cohesive_app_unfold in HC. destruct HC as [HS [HT [NT HC]]].
    exact (H S T HS HT NT HC).
Qed.

Lemma PJR_app_conc_perm r W S T T' : Permutation T T' -> PJR_app_conc r W S T -> PJR_app_conc r W S T'.
Proof.
  intros HP. unfold PJR_app_conc. apply sat_upto_eqv; [apply perm_In_iff; exact HP|reflexivity|].
  unfold JR.val. apply Qsum_map_perm. exact HP.
Qed.

(* a set approved by all members of a non-empty group and contained in W is worth no more than the
   part of W approved by some member *)
Lemma val_subset_le S T W :
  pv_nonneg -> S <> [] -> NoDup T -> (forall i p, In i S -> In p T -> approves i p = true) ->
  (forall p, In p T -> In p W) -> val T <= val (filter (approved_by V approves S) W).
Proof.
  intros Hnn NS Hnd HA Hsub. unfold JR.val. apply Qsum_map_incl_le; [exact Hnd| |intros p _; apply Hnn].
  intros p Hp. apply filter_In. split; [apply Hsub; exact Hp|].
  unfold approved_by. apply existsb_exists. destruct S as [|a S']; [congruence|].
  exists a. split; [left; reflexivity|]. apply HA; [left; reflexivity|exact Hp].
Qed.

Theorem is_PJR_approval_iff r W :
  enum_ok I enum -> pv_nonneg ->
  (is_PJR_approval I V P approves pv enum r W = true <-> PJR_app I V P approves pv r W).
Proof.
  intros Hok Hnn. rewrite PJR_app_unfold. unfold is_PJR_approval, cohesive_groups_app.
  apply checker_groups; try exact Hok.
  - intros S T HS _ NT. apply is_cohesive_approval_iff; assumption.
  - intros S T [_ NS] [HT _] _ [_ HA]. cbn beta iota zeta. rewrite negb_true_iff, Qltb_false_iff.
    unfold PJR_app_conc.
    change (filter (fun p => existsb (fun b => approves b p) S) W) with (filter (approved_by V approves S) W).
    apply (surplus_spec r pv T W (val (filter (approved_by V approves S) W)) (val T)).
    + intros p _. apply Hnn.
    + intros Hsub. apply val_subset_le; assumption.
  - intros S T T' HP. apply coh_app_perm. exact HP.
  - intros S T T' HP _. apply PJR_app_conc_perm. exact HP.
Qed.

Theorem bf_PJR_app_iff r W :
  bf_PJR_app I V P approves pv r W = true <-> PJR_app I V P approves pv r W.
Proof.
  rewrite PJR_app_unfold. unfold bf_PJR_app. apply checker_bf.
  - intros S T _ _. apply coh_app_b_iff.
  - intros S T _ _ _ _. apply upto_b_iff.
  - intros S T T' HP. apply coh_app_perm. exact HP.
  - intros S T T' HP _. apply PJR_app_conc_perm. exact HP.
Qed.

(* ---------------- cardinal ballots ---------------- *)

Lemma amin_le S i p : In i S -> amin S p <= score i p.
Proof. intros Hi. unfold C14.amin. apply (gmin_le V (fun i => score i p) S i Hi). Qed.

(* every alpha for which S is (alpha,T)-cohesive lies below the group's minimum scores *)
Lemma alpha_le_amin S T alpha :
  S <> [] -> (forall i p, In i S -> In p T -> alpha p <= score i p) ->
  asum alpha T <= asum (amin S) T.
Proof.
  intros NS HA. unfold asum. apply Qsum_map_le. intros p Hp.
  destruct (gmin_In V (fun i => score i p) S NS) as [i [Hi E]].
  unfold C14.amin. rewrite E. apply HA; assumption.
Qed.

Lemma cohesive_card_amin S T :
  is_group S -> is_pset T -> T <> [] -> large_enough S T -> cohesive_card I V P score S T (amin S).
Proof.
  intros HS HT NT HL. unfold cohesive_card. repeat split; try tauto; try apply HS; try apply HT.
  intros i p Hi _. apply amin_le. exact Hi.
Qed.

Lemma asum_perm alpha T T' : Permutation T T' -> asum alpha T == asum alpha T'.
Proof. intros HP. unfold asum. apply Qsum_map_perm. exact HP. Qed.

Lemma is_cohesive_cardinal_iff S T :
  is_group S -> T <> [] ->
  (is_cohesive_cardinal I V P score T S (alpha_min V score S) = true <-> large_enough S T).
Proof.
  intros [_ NS] NT. unfold is_cohesive_cardinal.
  apply length0_iff in NS. apply length0_iff in NT. rewrite NS, NT. simpl.
  destruct (is_large_enough (length S) (length P) (tcost I T) (budget I)) eqn:HL; simpl.
  - apply large_iff in HL. split; [intros _; exact HL|intros _].
    rewrite forallb_forall. intros i Hi. rewrite forallb_forall. intros p _.
    apply negb_true_iff, Qltb_false_iff. apply (amin_le S i p Hi).
  - split; [discriminate|]. intros HL'. apply large_iff in HL'. congruence.
Qed.

Lemma coh_card_b_iff S T : coh_card_b I V P S T = true <-> T <> [] /\ large_enough S T.
Proof. unfold coh_card_b. rewrite andb_true_iff, nonemptyb_iff, large_b_iff. tauto. Qed.

(* strong EJR *)
Definition sEJR_card_conc W S T : Prop := forall i, In i S -> asum (amin S) T <= sat i W.

Lemma strong_EJR_card_unfold W :
  strong_EJR_card I V P score ut W <->
  forall S T, is_group S -> is_pset T -> T <> [] -> large_enough S T -> sEJR_card_conc W S T.
Proof.
  unfold strong_EJR_card, sEJR_card_conc. split.
  - intros H S T HS HT NT HL. apply (H S T (amin S)). apply cohesive_card_amin; assumption.
  - intros H S T alpha [HS [HT [NT [HL HA]]]] i Hi.
    eapply Qle_trans; [apply alpha_le_amin; [apply HS|exact HA]|]. apply (H S T HS HT NT HL i Hi).
Qed.

Lemma sEJR_card_conc_perm W S T T' : Permutation T T' -> sEJR_card_conc W S T -> sEJR_card_conc W S T'.
Proof. intros HP H i Hi. rewrite <- (asum_perm (amin S) T T' HP). apply H. exact Hi. Qed.

Theorem is_strong_EJR_cardinal_iff W :
  enum_ok I enum ->
  (is_strong_EJR_cardinal I V P score ut enum W = true <-> strong_EJR_card I V P score ut W).
Proof.
  intros Hok. rewrite strong_EJR_card_unfold. unfold is_strong_EJR_cardinal, cohesive_groups_card.
  apply checker_groups; try exact Hok.
  - intros S T HS _ NT. apply is_cohesive_cardinal_iff; assumption.
  - intros S T HS _ _ _. cbn beta iota. apply (all_members_iff W S (fun _ => asum (amin S) T)).
  - intros S T T' HP. apply large_perm. exact HP.
  - intros S T T' HP _. apply sEJR_card_conc_perm. exact HP.
Qed.

Theorem bf_strong_EJR_card_iff W :
  bf_strong_EJR_card I V P score ut W = true <-> strong_EJR_card I V P score ut W.
Proof.
  rewrite strong_EJR_card_unfold. unfold bf_strong_EJR_card. apply checker_bf.
  - intros S T _ _. apply coh_card_b_iff.
  - intros S T _ _ _ _. rewrite forallb_forall. unfold sEJR_card_conc.
    split; intros H i Hi; specialize (H i Hi); apply Qleb_iff; exact H.
  - intros S T T' HP. apply large_perm. exact HP.
  - intros S T T' HP _. apply sEJR_card_conc_perm. exact HP.
Qed.

(* EJR and its relaxations *)
Definition EJR_card_conc r W S T : Prop :=
  exists i, In i S /\ sat_upto r (ut i) T W (sat i W) (asum (amin S) T).

Lemma EJR_card_unfold r W :
  EJR_card I V P score ut r W <->
  forall S T, is_group S -> is_pset T -> T <> [] -> large_enough S T -> EJR_card_conc r W S T.
Proof.
  unfold EJR_card, EJR_card_conc. split.
  - intros H S T HS HT NT HL. apply (H S T (amin S)). apply cohesive_card_amin; assumption.
  - intros H S T alpha [HS [HT [NT [HL HA]]]].
    destruct (H S T HS HT NT HL) as [i [Hi Hu]]. exists i. split; [exact Hi|].
    eapply sat_upto_mono; [intros p; reflexivity|apply Qle_refl| |intros; apply Qle_refl|exact Hu].
    apply alpha_le_amin; [apply HS|exact HA].
Qed.

Lemma EJR_card_conc_perm r W S T T' : Permutation T T' -> EJR_card_conc r W S T -> EJR_card_conc r W S T'.
Proof.
  intros HP. apply (member_perm r S T T' W (fun _ => asum (amin S) T) (fun _ => asum (amin S) T') HP).
  intros i _. apply asum_perm. exact HP.
Qed.

Lemma amin_sum_le_sat S T i :
  ut_is_score -> is_group S -> In i S -> asum (amin S) T <= sat i T.
Proof.
  intros Hus HS Hi. unfold asum, JR.sat. apply Qsum_map_le. intros p _.
  rewrite (Hus i p) by (eapply in_group; eassumption). apply amin_le. exact Hi.
Qed.

Theorem is_EJR_cardinal_iff r W :
  enum_ok I enum -> ut_nonneg -> ut_is_score ->
  (is_EJR_cardinal I V P score ut enum r W = true <-> EJR_card I V P score ut r W).
Proof.
  intros Hok Hnn Hus. rewrite EJR_card_unfold. unfold is_EJR_cardinal, cohesive_groups_card.
  apply checker_groups; try exact Hok.
  - intros S T HS _ NT. apply is_cohesive_cardinal_iff; assumption.
  - intros S T HS [HT _] _ _. cbn beta iota.
    apply (member_model r S T W (fun _ => asum (amin S) T)).
    + intros i p Hi _. apply Hnn. eapply in_group; eassumption.
    + intros i Hi Hsub. eapply Qle_trans; [apply (amin_sum_le_sat S T i Hus HS Hi)|].
      apply sat_subset_le; [exact Hnn|eapply in_group; eassumption|exact HT|exact Hsub].
  - intros S T T' HP. apply large_perm. exact HP.
  - intros S T T' HP _. apply EJR_card_conc_perm. exact HP.
Qed.

Theorem bf_EJR_card_iff r W :
  bf_EJR_card I V P score ut r W = true <-> EJR_card I V P score ut r W.
Proof.
  rewrite EJR_card_unfold. unfold bf_EJR_card. apply checker_bf.
  - intros S T _ _. apply coh_card_b_iff.
  - intros S T _ _ _ _. apply (member_bf r S T W (fun _ => asum (amin S) T)).
  - intros S T T' HP. apply large_perm. exact HP.
  - intros S T T' HP _. apply EJR_card_conc_perm. exact HP.
Qed.

(* PJR and its relaxations *)
Definition PJR_card_conc r W S T : Prop :=
  sat_upto r (gscore S) T W (Qsum (map (gscore S) W)) (asum (amin S) T).

Lemma PJR_card_unfold r W :
  PJR_card I V P score r W <->
  forall S T, is_group S -> is_pset T -> T <> [] -> large_enough S T -> PJR_card_conc r W S T.
Proof.
  unfold PJR_card, PJR_card_conc. split.
  - intros H S T HS HT NT HL. apply (H S T (amin S)). apply cohesive_card_amin; assumption.
  - intros H S T alpha [HS [HT [NT [HL HA]]]].
    eapply sat_upto_mono; [intros p; reflexivity|apply Qle_refl| |intros; apply Qle_refl|exact (H S T HS HT NT HL)].
    apply alpha_le_amin; [apply HS|exact HA].
Qed.

Lemma PJR_card_conc_perm r W S T T' : Permutation T T' -> PJR_card_conc r W S T -> PJR_card_conc r W S T'.
Proof.
  intros HP. unfold PJR_card_conc. apply sat_upto_eqv; [apply perm_In_iff; exact HP|reflexivity|].
  apply asum_perm. exact HP.
Qed.

Lemma gscore_nonneg S p : score_nonneg -> is_group S -> 0 <= gscore S p.
Proof.
  intros Hnn HS. unfold JR.gscore. destruct (gmax_In V (fun i => score i p) S (proj2 HS)) as [i [Hi E]].
  rewrite E. apply Hnn. eapply in_group; eassumption.
Qed.

Lemma amin_le_gscore S p : S <> [] -> amin S p <= gscore S p.
Proof.
  intros NS. destruct S as [|a S']; [congruence|].
  eapply Qle_trans; [apply (amin_le (a :: S') a p); left; reflexivity|].
  unfold JR.gscore. apply (gmax_ge V (fun i => score i p) (a :: S') a). left. reflexivity.
Qed.

Theorem is_PJR_cardinal_iff r W :
  enum_ok I enum -> score_nonneg ->
  (is_PJR_cardinal I V P score enum r W = true <-> PJR_card I V P score r W).
Proof.
  intros Hok Hnn. rewrite PJR_card_unfold. unfold is_PJR_cardinal, cohesive_groups_card.
  apply checker_groups; try exact Hok.
  - intros S T HS _ NT. apply is_cohesive_cardinal_iff; assumption.
  - intros S T HS [HT _] _ _. cbn beta iota. rewrite negb_true_iff, Qltb_false_iff.
    apply (surplus_spec r (gscore S) T W (Qsum (map (gscore S) W)) (asum (amin S) T)).
    + intros p _. apply gscore_nonneg; assumption.
    + intros Hsub. eapply Qle_trans.
      * unfold asum. apply (Qsum_map_le (amin S) (gscore S)). intros p _. apply amin_le_gscore. apply HS.
      * apply Qsum_map_incl_le; [exact HT|exact Hsub|]. intros p _. apply gscore_nonneg; assumption.
  - intros S T T' HP. apply large_perm. exact HP.
  - intros S T T' HP _. apply PJR_card_conc_perm. exact HP.
Qed.

Theorem bf_PJR_card_iff r W :
  bf_PJR_card I V P score r W = true <-> PJR_card I V P score r W.
Proof.
  rewrite PJR_card_unfold. unfold bf_PJR_card. apply checker_bf.
  - intros S T _ _. apply coh_card_b_iff.
  - intros S T _ _ _ _. apply upto_b_iff.
  - intros S T T' HP. apply large_perm. exact HP.
  - intros S T T' HP _. apply PJR_card_conc_perm. exact HP.
Qed.

(* ------------------------------------------------------------------------------------------ *)
(* the implication lattice, on the definitions *)

Lemma sat_upto_weaken r r' uf T W sW thr :
  relax_le r r' -> (forall p, In p T -> 0 <= uf p) -> ((forall p, In p T -> In p W) -> thr <= sW) ->
  sat_upto r uf T W sW thr -> sat_upto r' uf T W sW thr.
Proof.
  intros Hle Hu Hsub H. destruct r, r'; simpl in Hle; try contradiction; try exact H.
  - apply sat_upto_plain_any; assumption.
  - left. exact H.
  - apply sat_upto_any_one; assumption.
Qed.

(* core => EJR *)
Theorem core_EJR_app r W : core I V P ut r W -> EJR_app I V P approves ut r W.
Proof. intros H S T [HS [HT [_ [HL _]]]]. apply H; assumption. Qed.

Theorem core_EJR_card r W : ut_is_score -> core I V P ut r W -> EJR_card I V P score ut r W.
Proof.
  intros Hus H S T alpha [HS [HT [_ [HL HA]]]]. destruct (H S T HS HT HL) as [i [Hi Hu]].
  exists i. split; [exact Hi|].
  eapply sat_upto_mono; [intros p; reflexivity|apply Qle_refl| |intros; apply Qle_refl|exact Hu].
  unfold asum, JR.sat. apply Qsum_map_le. intros p Hp.
  rewrite (Hus i p) by (eapply in_group; eassumption). apply HA; assumption.
Qed.

(* EJR => PJR *)
Lemma member_sat_le_group_val S i W :
  ut_approval -> pv_nonneg -> In i P -> In i S ->
  sat i W <= val (filter (approved_by V approves S) W).
Proof.
  intros Hua Hnn HiP Hi. unfold JR.val. rewrite Qsum_map_filter. unfold JR.sat.
  apply Qsum_map_le. intros p _. rewrite (Hua i p HiP).
  destruct (approves i p) eqn:A.
  - assert (E : approved_by V approves S p = true).
    { unfold approved_by. apply existsb_exists. exists i. split; assumption. }
    rewrite E. apply Qle_refl.
  - destruct (approved_by V approves S p); [apply Hnn|apply Qle_refl].
Qed.

Theorem EJR_PJR_app r W :
  ut_approval -> pv_nonneg -> EJR_app I V P approves ut r W -> PJR_app I V P approves pv r W.
Proof.
  intros Hua Hnn H S T HC. destruct (H S T HC) as [i [Hi Hu]].
  destruct HC as [HS [HT [NT [HL HA]]]]. assert (HiP : In i P) by (eapply in_group; eassumption).
  assert (Hp : forall p, In p T -> ut i p == pv p).
  { intros p Hp. rewrite (Hua i p HiP). rewrite (HA i p Hi Hp). reflexivity. }
  eapply sat_upto_mono; [intros p; reflexivity| | | |exact Hu].
  - apply member_sat_le_group_val; assumption.
  - unfold JR.val, JR.sat. rewrite (Qsum_map_ext_in (ut i) pv T Hp). apply Qle_refl.
  - intros p Hp'. rewrite (Hp p Hp'). apply Qle_refl.
Qed.

Theorem EJR_PJR_card r W :
  ut_is_score -> EJR_card I V P score ut r W -> PJR_card I V P score r W.
Proof.
  intros Hus H S T alpha HC. destruct (H S T alpha HC) as [i [Hi Hu]].
  destruct HC as [HS [HT [NT [HL HA]]]]. assert (HiP : In i P) by (eapply in_group; eassumption).
  assert (Hg : forall p, ut i p <= gscore S p).
  { intros p. rewrite (Hus i p HiP). unfold JR.gscore. apply (gmax_ge V (fun i => score i p) S i Hi). }
  eapply sat_upto_mono; [intros p; reflexivity| |apply Qle_refl| |exact Hu].
  - unfold JR.sat. apply Qsum_map_le. intros p _. apply Hg.
  - intros p _. apply Hg.
Qed.

(* strong => plain *)
Theorem strong_EJR_app_EJR W : strong_EJR_app I V P approves ut W -> EJR_app I V P approves ut Plain W.
Proof.
  intros H S T HC. pose proof HC as [[_ NS] _]. destruct S as [|a S']; [congruence|].
  exists a. split; [left; reflexivity|]. simpl. apply (H (a :: S') T HC). left. reflexivity.
Qed.

Theorem strong_EJR_card_EJR W : strong_EJR_card I V P score ut W -> EJR_card I V P score ut Plain W.
Proof.
  intros H S T alpha HC. pose proof HC as [[_ NS] _]. destruct S as [|a S']; [congruence|].
  exists a. split; [left; reflexivity|]. simpl. apply (H (a :: S') T alpha HC). left. reflexivity.
Qed.

(* plain => up-to-any => up-to-one *)
Theorem core_weaken r r' W : ut_nonneg -> relax_le r r' -> core I V P ut r W -> core I V P ut r' W.
Proof.
  intros Hnn Hle H S T HS HT HL. destruct (H S T HS HT HL) as [i [Hi Hu]].
  assert (HiP : In i P) by (eapply in_group; eassumption).
  exists i. split; [exact Hi|]. eapply sat_upto_weaken; [exact Hle| | |exact Hu].
  - intros p _. apply Hnn. exact HiP.
  - intros Hsub. apply sat_subset_le; [exact Hnn|exact HiP|apply HT|exact Hsub].
Qed.

Theorem EJR_app_weaken r r' W :
  ut_nonneg -> relax_le r r' -> EJR_app I V P approves ut r W -> EJR_app I V P approves ut r' W.
Proof.
  intros Hnn Hle H S T HC. destruct (H S T HC) as [i [Hi Hu]]. destruct HC as [HS [HT _]].
  assert (HiP : In i P) by (eapply in_group; eassumption).
  exists i. split; [exact Hi|]. eapply sat_upto_weaken; [exact Hle| | |exact Hu].
  - intros p _. apply Hnn. exact HiP.
  - intros Hsub. apply sat_subset_le; [exact Hnn|exact HiP|apply HT|exact Hsub].
Qed.

Theorem PJR_app_weaken r r' W :
  pv_nonneg -> relax_le r r' -> PJR_app I V P approves pv r W -> PJR_app I V P approves pv r' W.
Proof.
  intros Hnn Hle H S T HC. pose proof (H S T HC) as Hu. destruct HC as [HS [HT [NT [HL HA]]]].
  eapply sat_upto_weaken; [exact Hle| | |exact Hu].
  - intros p _. apply Hnn.
  - intros Hsub. apply val_subset_le; [exact Hnn|apply HS|apply HT|exact HA|exact Hsub].
Qed.

Theorem EJR_card_weaken r r' W :
  ut_nonneg -> ut_is_score -> relax_le r r' ->
  EJR_card I V P score ut r W -> EJR_card I V P score ut r' W.
Proof.
  intros Hnn Hus Hle H S T alpha HC. destruct (H S T alpha HC) as [i [Hi Hu]].
  destruct HC as [HS [HT [NT [HL HA]]]]. assert (HiP : In i P) by (eapply in_group; eassumption).
  exists i. split; [exact Hi|]. eapply sat_upto_weaken; [exact Hle| | |exact Hu].
  - intros p _. apply Hnn. exact HiP.
  - intros Hsub. eapply Qle_trans; [apply alpha_le_amin; [apply HS|exact HA]|].
    eapply Qle_trans; [apply (amin_sum_le_sat S T i Hus HS Hi)|].
    apply sat_subset_le; [exact Hnn|exact HiP|apply HT|exact Hsub].
Qed.

Theorem PJR_card_weaken r r' W :
  score_nonneg -> relax_le r r' -> PJR_card I V P score r W -> PJR_card I V P score r' W.
Proof.
  intros Hnn Hle H S T alpha HC. pose proof (H S T alpha HC) as Hu. destruct HC as [HS [HT [NT [HL HA]]]].
  eapply sat_upto_weaken; [exact Hle| | |exact Hu].
  - intros p _. apply gscore_nonneg; assumption.
  - intros Hsub. eapply Qle_trans; [apply alpha_le_amin; [apply HS|exact HA]|]. eapply Qle_trans.
    + unfold asum. apply (Qsum_map_le (amin S) (gscore S)). intros p _. apply amin_le_gscore. apply HS.
    + apply Qsum_map_incl_le; [apply HT|exact Hsub|]. intros p _. apply gscore_nonneg; assumption.
Qed.

End Checkers.

(* ------------------------------------------------------------------------------------------ *)
(* the hypotheses check of the case runner establishes the side conditions of the theorems *)

Lemma nth_nonneg (L : list (list Q)) i p :
  forallb all_nonneg L = true -> 0 <= nth p (nth i L []) 0.
Proof.
  intros H. rewrite forallb_forall in H.
  destruct (nth_in_or_default i L []) as [Hin|E].
  - specialize (H _ Hin). unfold all_nonneg in H. rewrite forallb_forall in H.
    destruct (nth_in_or_default p (nth i L []) 0) as [Hin2|E2].
    + apply Qleb_iff. apply H. exact Hin2.
    + rewrite E2. apply Qle_refl.
  - rewrite E. destruct p; simpl; apply Qle_refl.
Qed.

Lemma nth_nonneg1 (l : list Q) p : all_nonneg l = true -> 0 <= nth p l 0.
Proof.
  intros H. unfold all_nonneg in H. rewrite forallb_forall in H.
  destruct (nth_in_or_default p l 0) as [Hin|E]; [apply Qleb_iff; apply H; exact Hin|rewrite E; apply Qle_refl].
Qed.

Lemma nth_len (L : list (list Q)) n i :
  forallb (fun l => Nat.eqb (length l) n) L = true -> (i < length L)%nat -> length (nth i L []) = n.
Proof.
  intros H Hi. rewrite forallb_forall in H. apply Nat.eqb_eq. apply H. apply nth_In. exact Hi.
Qed.

Lemma set_eqb_In l1 l2 : set_eqb l1 l2 = true -> forall p, In p l1 <-> In p l2.
Proof.
  unfold set_eqb. intros H p. apply list_eqb_nat_eq in H. unfold canon in H.
  rewrite <- (isort_In Nat.leb l1 p), <- (isort_In Nat.leb l2 p), H. reflexivity.
Qed.

Theorem hyp_ok_sound c m : hyp_ok c m = true ->
  enum_ok (I_of c) (c_enum c) /\ ut_nonneg nat (voters c) (ut_of m) /\
  score_nonneg nat (voters c) (score_of c) /\ pv_nonneg (pv_of m) /\
  (c_cardinal c = true -> ut_is_score nat (voters c) (score_of c) (ut_of m)) /\
  (c_cardinal c = false -> ut_approval nat (voters c) (app_of c) (ut_of m) (pv_of m)).
Proof.
  unfold hyp_ok. intros H. repeat (apply andb_true_iff in H; destruct H as [H ?]).
  rename H into Hset, H0 into Hcase, H1 into Hutlen, H2 into Hnut, H3 into Hpvnn, H4 into Hscnn,
         H5 into Hutnn, H6 into Hnd.
  apply Nat.eqb_eq in Hnut.
  assert (Hvot : forall i, In i (voters c) -> (i < nvot c)%nat).
  { intros i Hi. unfold voters in Hi. apply in_seq in Hi. lia. }
  split; [|split; [|split; [|split; [|split]]]].
  - split; [apply nodupb_NoDup; exact Hnd|]. intros p.
    rewrite (set_eqb_In _ _ Hset p). apply all_projects_ok.
  - intros i p _. unfold ut_of. apply nth_nonneg. exact Hutnn.
  - intros i p _. unfold score_of. apply nth_nonneg. exact Hscnn.
  - intros p. unfold pv_of. apply nth_nonneg1. exact Hpvnn.
  - intros Hc. rewrite Hc in Hcase. repeat (apply andb_true_iff in Hcase; destruct Hcase as [Hcase ?]).
    rename H into Heq, H0 into Hsclen. clear Hcase.
    intros i p Hi. specialize (Hvot i Hi).
    destruct (Nat.lt_ge_cases p (nproj (I_of c))) as [Hp|Hp].
    + rewrite forallb_forall in Heq. specialize (Heq i Hi). rewrite forallb_forall in Heq.
      apply Qeqb_iff. apply Heq. unfold all_projects. apply in_seq. lia.
    + unfold ut_of, score_of. rewrite !nth_overflow; [reflexivity| |].
      * rewrite (nth_len (c_score c) (nproj (I_of c)) i Hsclen); [exact Hp|].
        unfold nvot in Hvot. rewrite Hc in Hvot. exact Hvot.
      * rewrite (nth_len (m_ut m) (nproj (I_of c)) i Hutlen); [exact Hp|]. lia.
  - intros Hc. rewrite Hc in Hcase. repeat (apply andb_true_iff in Hcase; destruct Hcase as [Hcase ?]).
    rename H into Heq, H0 into Hpv, H1 into Hball. clear Hcase.
    intros i p Hi. specialize (Hvot i Hi).
    destruct (Nat.lt_ge_cases p (nproj (I_of c))) as [Hp|Hp].
    + rewrite forallb_forall in Heq. specialize (Heq i Hi). rewrite forallb_forall in Heq.
      apply Qeqb_iff. apply Heq. unfold all_projects. apply in_seq. lia.
    + assert (E : app_of c i p = false).
      { unfold app_of. apply memb_false_In. intros Hin.
        unfold nvot in Hvot. rewrite Hc in Hvot.
        rewrite forallb_forall in Hball. specialize (Hball (nth i (c_app c) []) (nth_In _ _ Hvot)).
        apply andb_true_iff in Hball. destruct Hball as [_ Hb]. rewrite forallb_forall in Hb.
        specialize (Hb p Hin). apply Nat.ltb_lt in Hb. lia. }
      rewrite E. unfold ut_of. rewrite nth_overflow; [reflexivity|].
      rewrite (nth_len (m_ut m) (nproj (I_of c)) i Hutlen); [exact Hp|]. lia.
Qed.

(* hence, on every case that passes the hypotheses check, model and oracle answers coincide *)
Theorem model_answers_eq_oracle c m W :
  hyp_ok c m = true -> model_answers c m W = oracle_answers c m W.
Proof.
  intros H. destruct (hyp_ok_sound c m H) as [Hok [Hut [Hsc [Hpv [Hcard Happ]]]]].
  assert (Beq : forall (a b : bool) (X : Prop), (a = true <-> X) -> (b = true <-> X) -> a = b).
  { intros a b X Ha Hb. destruct a, b; try reflexivity.
    - assert (false = true) by (apply Hb; apply Ha; reflexivity). discriminate.
    - assert (false = true) by (apply Ha; apply Hb; reflexivity). discriminate. }
  unfold model_answers, oracle_answers. f_equal.
  - apply map_ext. intros r. eapply Beq; [apply is_in_core_iff; assumption|apply bf_core_iff].
  - destruct (c_cardinal c) eqn:Hc.
    + f_equal; [eapply Beq; [apply is_strong_EJR_cardinal_iff; assumption|apply bf_strong_EJR_card_iff]|].
      f_equal; apply map_ext; intros r.
      * eapply Beq; [apply is_EJR_cardinal_iff; auto|apply bf_EJR_card_iff].
      * eapply Beq; [apply is_PJR_cardinal_iff; auto|apply bf_PJR_card_iff].
    + f_equal; [eapply Beq; [apply is_strong_EJR_approval_iff; assumption|apply bf_strong_EJR_app_iff]|].
      f_equal; apply map_ext; intros r.
      * eapply Beq; [apply is_EJR_approval_iff; auto|apply bf_EJR_app_iff].
      * eapply Beq; [apply is_PJR_approval_iff; auto|apply bf_PJR_app_iff].
Qed.
