(* Proofs/C01P.v -- the C01 oracle decides exactly [feasible /\ incl init]. *)
From PB Require Import Oracle.C01.
Open Scope Q_scope.

Lemma flag_nil b code : flag b code = [] <-> b = true.
Proof. unfold flag. destruct b; split; congruence. Qed.

Lemma out_ok_iff I init W :
  out_ok I init W = true <-> feasible I W /\ incl init W.
Proof.
  unfold out_ok, check_out.
  destruct (nodupb W) eqn:E1; destruct (forallb (fun p => Nat.ltb p (nproj I)) W) eqn:E2;
    destruct (forallb (fun p => memb p W) init) eqn:E3; destruct (Qleb (tcost I W) (budget I)) eqn:E4;
    simpl; split; try discriminate; try reflexivity.
  - intros _. apply nodupb_NoDup in E1. rewrite forallb_forall in E2, E3. apply Qleb_iff in E4.
    split; [split; [exact E1|split; [|exact E4]]|].
    + intros p Hp. apply Nat.ltb_lt. apply E2. exact Hp.
    + intros p Hp. apply memb_In. apply E3. exact Hp.
  - intros [[_ [_ H]] _]. apply Qleb_iff in H. congruence.
  - intros [_ H]. assert (forallb (fun p => memb p W) init = true); [|congruence].
    apply forallb_forall. intros p Hp. apply memb_In. apply H. exact Hp.
  - intros [_ H]. assert (forallb (fun p => memb p W) init = true); [|congruence].
    apply forallb_forall. intros p Hp. apply memb_In. apply H. exact Hp.
  - intros [[_ [H _]] _]. assert (forallb (fun p => Nat.ltb p (nproj I)) W = true); [|congruence].
    apply forallb_forall. intros p Hp. apply Nat.ltb_lt. apply H. exact Hp.
  - intros [[_ [H _]] _]. assert (forallb (fun p => Nat.ltb p (nproj I)) W = true); [|congruence].
    apply forallb_forall. intros p Hp. apply Nat.ltb_lt. apply H. exact Hp.
  - intros [[_ [H _]] _]. assert (forallb (fun p => Nat.ltb p (nproj I)) W = true); [|congruence].
    apply forallb_forall. intros p Hp. apply Nat.ltb_lt. apply H. exact Hp.
  - intros [[_ [H _]] _]. assert (forallb (fun p => Nat.ltb p (nproj I)) W = true); [|congruence].
    apply forallb_forall. intros p Hp. apply Nat.ltb_lt. apply H. exact Hp.
  - intros [[H _] _]. apply nodupb_NoDup in H. congruence.
  - intros [[H _] _]. apply nodupb_NoDup in H. congruence.
  - intros [[H _] _]. apply nodupb_NoDup in H. congruence.
  - intros [[H _] _]. apply nodupb_NoDup in H. congruence.
  - intros [[H _] _]. apply nodupb_NoDup in H. congruence.
  - intros [[H _] _]. apply nodupb_NoDup in H. congruence.
  - intros [[H _] _]. apply nodupb_NoDup in H. congruence.
  - intros [[H _] _]. apply nodupb_NoDup in H. congruence.
Qed.

Lemma check_nil_iff c :
  check c = [] <-> forall W, In W (c_outs c) -> feasible (I_of c) W /\ incl (c_init c) W.
Proof.
  unfold check. split.
  - intros H W HW. apply out_ok_iff. unfold out_ok.
    assert (Hn : check_out (I_of c) (c_init c) W = []).
    { induction (c_outs c) as [|x l IH]; [destruct HW|]. simpl in H. apply app_eq_nil in H.
      destruct H as [H1 H2]. destruct HW as [<-|HW]; [exact H1|apply IH; assumption]. }
    rewrite Hn. reflexivity.
  - intros H. induction (c_outs c) as [|x l IH]; [reflexivity|]. simpl.
    assert (Hx : out_ok (I_of c) (c_init c) x = true) by (apply out_ok_iff; apply H; left; reflexivity).
    unfold out_ok in Hx. destruct (check_out (I_of c) (c_init c) x) eqn:E; [|discriminate].
    simpl. apply IH. intros W HW. apply H. right. exact HW.
Qed.
