(* Proofs/PhragmenP.v -- C05: the load recursion of Model/Phragmen.v and the continuous-money
   process of Spec/PhragmenMoney.v make the same purchases; multiplicities; stop rule;
   feasibility and totality. *)
From PB Require Import Model.Phragmen Spec.PhragmenMoney.
Open Scope Q_scope.

(* ------------------------------------------------------------------------------------------ *)
(* extended rationals                                                                           *)
(* ------------------------------------------------------------------------------------------ *)
Definition Qx_eq (a b : Qx) : Prop :=
  match a, b with
  | Fin x, Fin y => x == y
  | PInf, PInf => True
  | _, _ => False
  end.
Definition Qx_le (a b : Qx) : Prop :=
  match a, b with
  | _, PInf => True
  | PInf, Fin _ => False
  | Fin x, Fin y => x <= y
  end.

Lemma Qx_leb_iff a b : Qx_leb a b = true <-> Qx_le a b.
Proof.
  destruct a, b; simpl; try (split; [auto|reflexivity]); try (split; [discriminate|contradiction]).
  apply Qleb_iff.
Qed.
Lemma Qx_eqb_iff a b : Qx_eqb a b = true <-> Qx_eq a b.
Proof.
  destruct a, b; simpl; try (split; [auto|reflexivity]); try (split; [discriminate|contradiction]).
  apply Qeqb_iff.
Qed.
Lemma Qx_ltb_iff a b : Qx_ltb a b = true <-> ~ Qx_le b a.
Proof.
  unfold Qx_ltb. rewrite negb_true_iff, <- Qx_leb_iff. destruct (Qx_leb b a); split; congruence.
Qed.
Lemma Qx_ltb_false_iff a b : Qx_ltb a b = false <-> Qx_le b a.
Proof.
  unfold Qx_ltb. rewrite negb_false_iff. apply Qx_leb_iff.
Qed.
Lemma Qx_le_refl a : Qx_le a a.
Proof. destruct a; simpl; [apply Qle_refl|exact I]. Qed.
Lemma Qx_le_trans a b c : Qx_le a b -> Qx_le b c -> Qx_le a c.
Proof. destruct a, b, c; simpl; try tauto. apply Qle_trans. Qed.
Lemma Qx_le_total a b : Qx_le a b \/ Qx_le b a.
Proof.
  destruct a, b; simpl; auto. destruct (Qlt_le_dec q q0); [left; apply Qlt_le_weak; assumption|right; assumption].
Qed.
Lemma Qx_eq_le a b : Qx_eq a b -> Qx_le a b.
Proof. destruct a, b; simpl; try tauto. intros ->. apply Qle_refl. Qed.
Lemma Qx_eq_sym a b : Qx_eq a b -> Qx_eq b a.
Proof. destruct a, b; simpl; try tauto. intros ->. reflexivity. Qed.
Lemma Qx_eq_refl a : Qx_eq a a.
Proof. destruct a; simpl; [reflexivity|exact I]. Qed.
Lemma Qx_le_antisym a b : Qx_le a b -> Qx_le b a -> Qx_eq a b.
Proof. destruct a, b; simpl; try tauto. apply Qle_antisym. Qed.
Lemma Qx_eq_trans a b c : Qx_eq a b -> Qx_eq b c -> Qx_eq a c.
Proof. destruct a, b, c; simpl; try tauto. intros -> ->. reflexivity. Qed.

(* ------------------------------------------------------------------------------------------ *)
(* the argmin loop                                                                              *)
(* ------------------------------------------------------------------------------------------ *)
Lemma filter_none {A} (g : A -> bool) l : (forall x, In x l -> g x = false) -> filter g l = [].
Proof.
  induction l as [|a l IH]; simpl; intros H; [reflexivity|].
  rewrite (H a (or_introl eq_refl)). apply IH. intros x Hx. apply H. right. exact Hx.
Qed.

Lemma argmin_loop_inv f l : forall l0 m,
  (forall q, In q l0 -> Qx_le m (f q)) ->
  exists m', argmin_loop f l (Some m) (filter (fun p => Qx_eqb m (f p)) l0)
             = (Some m', filter (fun p => Qx_eqb m' (f p)) (l0 ++ l))
     /\ (forall q, In q (l0 ++ l) -> Qx_le m' (f q))
     /\ (m' = m \/ exists p, In p l /\ m' = f p).
Proof.
  induction l as [|p r IH]; intros l0 m Hm.
  - exists m. simpl. rewrite app_nil_r. split; [reflexivity|]. split; [exact Hm|left; reflexivity].
  - simpl. destruct (Qx_ltb (f p) m) eqn:Elt.
    + apply Qx_ltb_iff in Elt.
      assert (Hnew : filter (fun q => Qx_eqb (f p) (f q)) (l0 ++ [p]) = [p]).
      { rewrite filter_app. rewrite filter_none.
        - simpl. assert (E : Qx_eqb (f p) (f p) = true) by (apply Qx_eqb_iff, Qx_eq_refl).
          rewrite E. reflexivity.
        - intros x Hx. destruct (Qx_eqb (f p) (f x)) eqn:E; [|reflexivity].
          apply Qx_eqb_iff in E. exfalso. apply Elt.
          eapply Qx_le_trans; [apply Hm; exact Hx|]. apply Qx_eq_le, Qx_eq_sym. exact E. }
      destruct (IH (l0 ++ [p]) (f p)) as [m' [E [Hle Hwho]]].
      { intros q Hq. apply in_app_iff in Hq. destruct Hq as [Hq|[<-|[]]].
        - destruct (Qx_le_total (f p) (f q)) as [H|H]; [exact H|].
          exfalso. apply Elt. eapply Qx_le_trans; [apply Hm; exact Hq|exact H].
        - apply Qx_le_refl. }
      rewrite Hnew in E. rewrite <- app_assoc in E, Hle. simpl in E, Hle.
      exists m'. split; [exact E|]. split; [exact Hle|]. right.
      destruct Hwho as [->|[p' [Hp' ->]]]; [exists p; split; [left; reflexivity|reflexivity]|].
      exists p'. split; [right; exact Hp'|reflexivity].
    + apply Qx_ltb_false_iff in Elt. destruct (Qx_eqb m (f p)) eqn:Eeq.
      * destruct (IH (l0 ++ [p]) m) as [m' [E [Hle Hwho]]].
        { intros q Hq. apply in_app_iff in Hq. destruct Hq as [Hq|[<-|[]]]; [apply Hm; exact Hq|exact Elt]. }
        rewrite filter_app in E. simpl in E. rewrite Eeq in E.
        rewrite <- app_assoc in E, Hle. simpl in E, Hle.
        exists m'. split; [exact E|]. split; [exact Hle|].
        destruct Hwho as [->|[p' [Hp' ->]]]; [left; reflexivity|].
        right. exists p'. split; [right; exact Hp'|reflexivity].
      * destruct (IH (l0 ++ [p]) m) as [m' [E [Hle Hwho]]].
        { intros q Hq. apply in_app_iff in Hq. destruct Hq as [Hq|[<-|[]]]; [apply Hm; exact Hq|exact Elt]. }
        rewrite filter_app in E. simpl in E. rewrite Eeq in E. rewrite app_nil_r in E.
        rewrite <- app_assoc in E, Hle. simpl in E, Hle.
        exists m'. split; [exact E|]. split; [exact Hle|].
        destruct Hwho as [->|[p' [Hp' ->]]]; [left; reflexivity|].
        right. exists p'. split; [right; exact Hp'|reflexivity].
Qed.

(* on a non-empty list the loop returns the least value and exactly the projects attaining it,
   in iteration order *)
Lemma argmin_loop_spec f p r :
  exists m, argmin_loop f (p :: r) None [] = (Some m, filter (fun q => Qx_eqb m (f q)) (p :: r))
     /\ (forall q, In q (p :: r) -> Qx_le m (f q))
     /\ (exists p', In p' (p :: r) /\ m = f p').
Proof.
  simpl argmin_loop.
  destruct (argmin_loop_inv f r [p] (f p)) as [m [E [Hle Hwho]]].
  { intros q [<-|[]]. apply Qx_le_refl. }
  simpl filter in E at 1.
  assert (Epp : Qx_eqb (f p) (f p) = true) by (apply Qx_eqb_iff, Qx_eq_refl).
  rewrite Epp in E. exists m. split; [exact E|]. split; [exact Hle|].
  destruct Hwho as [->|[p' [Hp' ->]]].
  - exists p. split; [left; reflexivity|reflexivity].
  - exists p'. split; [right; exact Hp'|reflexivity].
Qed.

Lemma argmin_loop_ext f g l : (forall p, In p l -> f p = g p) ->
  forall best arg, argmin_loop f l best arg = argmin_loop g l best arg.
Proof.
  induction l as [|p r IH]; intros H best arg; [reflexivity|].
  simpl. rewrite (H p (or_introl eq_refl)).
  assert (H' : forall q, In q r -> f q = g q) by (intros q Hq; apply H; right; exact Hq).
  destruct best as [m|]; [|apply IH; exact H'].
  destruct (Qx_ltb (g p) m); [apply IH; exact H'|].
  destruct (Qx_eqb m (g p)); apply IH; exact H'.
Qed.

(* ------------------------------------------------------------------------------------------ *)
(* loads vs. balances                                                                           *)
(* ------------------------------------------------------------------------------------------ *)
(* the abstraction relation of DESIGN.md C05: balance = clock - load, voter by voter *)
Definition abs (loads : list Q) (st : mstate) : Prop :=
  Forall2 (fun l b => b == now st - l) loads (bal st).

Lemma nsupp_score P p : nsupp P p = score P p.
Proof. reflexivity. Qed.
Lemma holdings_wsum P xs p : holdings P xs p = wsum P xs p.
Proof. reflexivity. Qed.

Lemma Qnat_nonneg n : 0 <= Qnat n.
Proof. unfold Qnat, Qle. simpl. lia. Qed.

Lemma score_nonneg P p : 0 <= score P p.
Proof.
  unfold score. apply Qsum_nonneg. rewrite Forall_forall. intros x Hx.
  apply in_map_iff in Hx. destruct Hx as [b [<- _]].
  destruct (approves b p); [apply Qnat_nonneg|apply Qle_refl].
Qed.

Lemma holdings_abs_gen P p T : forall loads bs,
  Forall2 (fun l b => b == T - l) loads bs -> length P = length loads ->
  wsum P bs p == score P p * T - wsum P loads p.
Proof.
  unfold wsum, score. induction P as [|b P IH]; intros loads bs HF HL.
  - simpl. ring.
  - destruct HF as [|l x loads bs Hx HF]; [discriminate|].
    simpl in HL. injection HL as HL. pose proof (IH loads bs HF HL) as E.
    cbn [combine map Qsum fst snd].
    set (A := Qsum (map (fun bx : aballot * Q => if approves (fst bx) p then Qnat (amul (fst bx)) * snd bx else 0) (combine P bs))) in *.
    set (SC := Qsum (map (fun b0 : aballot => if approves b0 p then Qnat (amul b0) else 0) P)) in *.
    set (L := Qsum (map (fun bx : aballot * Q => if approves (fst bx) p then Qnat (amul (fst bx)) * snd bx else 0) (combine P loads))) in *.
    clearbody A SC L. clear IH. destruct (approves b p); [rewrite Hx|]; rewrite E; ring.
Qed.

Lemma holdings_abs P p loads st :
  abs loads st -> length P = length loads ->
  holdings P (bal st) p == score P p * now st - wsum P loads p.
Proof. intros HA HL. apply holdings_abs_gen; assumption. Qed.

(* the "new maximum load" of a supported project IS its purchase moment *)
Lemma new_maxload_buy_time I P p loads st :
  abs loads st -> length P = length loads -> supported P p = true ->
  exists x, new_maxload I P loads p = Fin x /\ x == buy_time I P st p.
Proof.
  intros HA HL HS. unfold supported in HS. rewrite negb_true_iff in HS.
  unfold new_maxload. change (nsupp P p) with (score P p) in HS. rewrite HS.
  eexists. split; [reflexivity|]. rewrite Qred_correct. unfold buy_time.
  rewrite (holdings_abs P p loads st HA HL). change (nsupp P p) with (score P p).
  apply Qeqb_false_iff in HS. field. exact HS.
Qed.

Lemma new_maxload_unsupported I P p loads :
  supported P p = false -> new_maxload I P loads p = PInf.
Proof.
  unfold supported, new_maxload. rewrite negb_false_iff. change (nsupp P p) with (score P p).
  intros ->. reflexivity.
Qed.

(* the purchase moment is the moment at which the supporters together hold exactly the cost *)
Lemma buy_time_holdings I P st p t :
  supported P p = true -> (holdings_at P st p t == cost I p <-> t == buy_time I P st p).
Proof.
  unfold supported. rewrite negb_true_iff. intros HS. apply Qeqb_false_iff in HS.
  unfold holdings_at, buy_time. split; intros H.
  - assert (E : (cost I p - holdings P (bal st) p) / nsupp P p == t - now st).
    { rewrite <- H. field. exact HS. }
    rewrite E. ring.
  - rewrite H. field. exact HS.
Qed.

(* least element *)
Lemma earliest_le d l : earliest d l <= d /\ forall x, In x l -> earliest d l <= x.
Proof.
  induction l as [|y r [IH1 IH2]]; simpl.
  - split; [apply Qle_refl|intros x []].
  - destruct (Qleb y (earliest d r)) eqn:E.
    + apply Qleb_iff in E. split; [eapply Qle_trans; [exact E|exact IH1]|].
      intros x [<-|Hx]; [apply Qle_refl|]. eapply Qle_trans; [exact E|apply IH2; exact Hx].
    + apply Qleb_false_iff in E. split; [exact IH1|].
      intros x [<-|Hx]; [apply Qlt_le_weak; exact E|apply IH2; exact Hx].
Qed.
Lemma earliest_in d l : In (earliest d l) (d :: l).
Proof.
  induction l as [|y r IH]; simpl; [left; reflexivity|].
  destruct (Qleb y (earliest d r)); [right; left; reflexivity|].
  destruct IH as [H|H]; [left; exact H|right; right; exact H].
Qed.

(* ------------------------------------------------------------------------------------------ *)
(* one round of the code = one round of the money process                                       *)
(* ------------------------------------------------------------------------------------------ *)
Lemma filter_all {A} (g : A -> bool) l : (forall x, In x l -> g x = true) -> filter g l = l.
Proof.
  induction l as [|a l IH]; simpl; intros H; [reflexivity|].
  rewrite (H a (or_introl eq_refl)). f_equal. apply IH. intros x Hx. apply H. right. exact Hx.
Qed.
Lemma filter_nil_all {A} (g : A -> bool) l : filter g l = [] -> forall x, In x l -> g x = false.
Proof.
  induction l as [|a l IH]; simpl; intros H x Hx; [destruct Hx|].
  destruct (g a) eqn:E; [discriminate|]. destruct Hx as [<-|Hx]; [exact E|apply IH; assumption].
Qed.
Lemma filter_filter2 {A} (g h : A -> bool) l :
  filter g (filter h l) = filter (fun x => h x && g x) l.
Proof.
  induction l as [|a l IH]; simpl; [reflexivity|].
  destruct (h a); simpl; [destruct (g a); rewrite IH; reflexivity|exact IH].
Qed.

Lemma Qle_bool_compat a b x : a == b -> Qle_bool a x = Qle_bool b x.
Proof.
  intros E. destruct (Qle_bool a x) eqn:E1, (Qle_bool b x) eqn:E2; try reflexivity.
  - apply Qle_bool_iff in E1. rewrite E in E1. apply Qle_bool_iff in E1. congruence.
  - apply Qle_bool_iff in E2. rewrite <- E in E2. apply Qle_bool_iff in E2. congruence.
Qed.
Lemma Qeq_bool_compat a b x y : a == b -> x == y -> Qeq_bool a x = Qeq_bool b y.
Proof.
  intros E F. destruct (Qeq_bool a x) eqn:E1, (Qeq_bool b y) eqn:E2; try reflexivity.
  - apply Qeq_bool_iff in E1. rewrite E, F in E1. apply Qeq_bool_iff in E1. congruence.
  - apply Qeq_bool_iff in E2. rewrite <- E, <- F in E2. apply Qeq_bool_iff in E2. congruence.
Qed.

Lemma Qeq_bool_swap a b : Qeq_bool a b = Qeq_bool b a.
Proof.
  destruct (Qeq_bool a b) eqn:E1, (Qeq_bool b a) eqn:E2; try reflexivity.
  - apply Qeq_bool_iff in E1. symmetry in E1. apply Qeq_bool_iff in E1. congruence.
  - apply Qeq_bool_iff in E2. symmetry in E2. apply Qeq_bool_iff in E2. congruence.
Qed.

Lemma overshoot_fits I c alloc l : c == tcost I alloc ->
  existsb (overshoots I c) l = negb (forallb (fitsb I alloc) l).
Proof.
  intros E. induction l as [|p l IH]; simpl; [reflexivity|].
  rewrite IH, negb_andb. f_equal.
  unfold overshoots, fitsb, Qltb, Qleb. f_equal. apply Qle_bool_compat. rewrite E. reflexivity.
Qed.

Definition time_rel (t : Qx) (t' : option Q) : Prop :=
  match t, t' with
  | Fin x, Some y => x == y
  | PInf, None => True
  | _, _ => False
  end.
Definition round_rel (tb : proj -> Q) (r : round) (mr : mround) : Prop :=
  match r, mr with
  | RStop, MStop => True
  | RPick tied t, MBuy due t' => tied = tie_order tb (name_sort due) /\ time_rel t t'
  | _, _ => False
  end.

Lemma round_corr I P tb loads st p0 r alloc c :
  abs loads st -> length P = length loads -> c == tcost I alloc ->
  round_rel tb (phr_round I P tb loads (p0 :: r) c) (money_round I P st (p0 :: r) alloc).
Proof.
  intros HA HL Hc. unfold phr_round.
  destruct (argmin_loop_spec (new_maxload I P loads) p0 r) as [m [E [Hle [p' [Hp' Hm]]]]].
  rewrite E. clear E. unfold money_round.
  set (projs := p0 :: r) in *. set (f := new_maxload I P loads) in *.
  destruct (filter (supported P) projs) as [|q r'] eqn:Esup.
  - (* nobody left has a supporter *)
    pose proof (filter_nil_all _ _ Esup) as Hun.
    assert (Hf : forall x, In x projs -> f x = PInf)
      by (intros x Hx; apply new_maxload_unsupported, Hun, Hx).
    assert (Em : m = PInf) by (rewrite Hm; apply Hf; exact Hp').
    clear Hm. subst m. rewrite filter_all by (intros x Hx; rewrite (Hf x Hx); reflexivity).
    rewrite (overshoot_fits I c alloc projs Hc).
    destruct (forallb (fitsb I alloc) projs); simpl; [split; [reflexivity|exact Logic.I]|exact Logic.I].
  - assert (Hsup : forall x, In x (q :: r') <-> In x projs /\ supported P x = true)
      by (intros x; rewrite <- Esup; apply filter_In).
    assert (Hfin : forall x, In x (q :: r') -> exists y, f x = Fin y /\ y == buy_time I P st x).
    { intros x Hx. apply Hsup in Hx. apply new_maxload_buy_time; tauto. }
    set (bt := buy_time I P st) in *.
    set (t := earliest (bt q) (map bt r')).
    (* the least new maximum load is a finite number equal to the earliest purchase moment *)
    assert (Hmx : exists x, m = Fin x /\ x == t).
    { destruct (Hfin q (or_introl eq_refl)) as [yq [Eq _]].
      assert (Hq : In q projs) by (apply Hsup; left; reflexivity).
      pose proof (Hle q Hq) as Hmq. rewrite Eq in Hmq.
      destruct m as [x|]; [|destruct Hmq]. exists x. split; [reflexivity|].
      assert (Hp'sup : In p' (q :: r')).
      { apply Hsup. split; [exact Hp'|]. destruct (supported P p') eqn:Es; [reflexivity|].
        unfold f in Hm. rewrite (new_maxload_unsupported I P p' loads Es) in Hm. discriminate. }
      destruct (Hfin p' Hp'sup) as [y' [Ey' Hy']]. rewrite Ey' in Hm.
      injection Hm as Hm. subst y'.
      apply Qle_antisym.
      - destruct (earliest_in (bt q) (map bt r')) as [H1|H1].
        + fold t in H1. destruct (Hfin q (or_introl eq_refl)) as [y1 [Ey1 Hy1]].
          pose proof (Hle q Hq) as H2. rewrite Ey1 in H2. simpl in H2.
          rewrite <- H1, <- Hy1. exact H2.
        + fold t in H1. apply in_map_iff in H1. destruct H1 as [p1 [Ep1 Hp1]].
          assert (Hp1' : In p1 (q :: r')) by (right; exact Hp1).
          destruct (Hfin p1 Hp1') as [y1 [Ey1 Hy1]].
          assert (Hp1p : In p1 projs) by (apply Hsup in Hp1'; tauto).
          pose proof (Hle p1 Hp1p) as H2. rewrite Ey1 in H2. simpl in H2.
          rewrite <- Ep1, <- Hy1. exact H2.
      - rewrite Hy'. destruct (earliest_le (bt q) (map bt r')) as [L1 L2]. fold t in L1, L2.
        destruct Hp'sup as [<-|Hin]; [exact L1|]. apply L2. apply in_map. exact Hin. }
    destruct Hmx as [x [-> Hxt]].
    assert (Edue : filter (fun p => Qeqb (bt p) t) (q :: r')
                   = filter (fun p => Qx_eqb (Fin x) (f p)) projs).
    { rewrite <- Esup, filter_filter2. apply filter_ext_in. intros a Ha.
      destruct (supported P a) eqn:Es.
      - assert (Ha' : In a (q :: r')) by (apply Hsup; split; assumption).
        destruct (Hfin a Ha') as [y [Ey Hy]]. rewrite Ey. simpl. unfold Qeqb.
        rewrite (Qeq_bool_swap (bt a) t).
        apply Qeq_bool_compat; [symmetry; exact Hxt|symmetry; exact Hy].
      - unfold f. rewrite (new_maxload_unsupported I P a loads Es). reflexivity. }
    rewrite Edue. rewrite (overshoot_fits I c alloc _ Hc).
    destruct (forallb (fitsb I alloc) (filter (fun p => Qx_eqb (Fin x) (f p)) projs)); simpl;
      [split; [reflexivity|exact Hxt]|exact Logic.I].
Qed.

(* ------------------------------------------------------------------------------------------ *)
(* the state after a purchase                                                                   *)
(* ------------------------------------------------------------------------------------------ *)
Lemma abs_step_gen P p x t T : x == t -> forall loads bs,
  Forall2 (fun l b => b == T - l) loads bs ->
  Forall2 (fun l b => b == Qred t - l)
          (map (fun bx => if approves (fst bx) p then x else snd bx) (combine P loads))
          (map (fun bx => if approves (fst bx) p then 0 else Qred (snd bx + (t - T)))
               (combine P bs)).
Proof.
  intros Hx. induction P as [|b P IH]; intros loads bs HF; [constructor|].
  destruct HF as [|l y loads bs Hy HF]; [constructor|].
  cbn [combine map fst snd]. constructor; [|apply IH; exact HF].
  destruct (approves b p).
  - rewrite Qred_correct, Hx. ring.
  - rewrite !Qred_correct. rewrite Hy. ring.
Qed.

Lemma abs_step P p x t loads st :
  abs loads st -> x == t -> abs (set_loads P loads p x) (pay P st p t).
Proof. intros HA Hx. unfold abs, set_loads, pay. simpl. apply abs_step_gen; assumption. Qed.

Lemma set_loads_length P loads p x :
  length P = length loads -> length P = length (set_loads P loads p x).
Proof.
  intros HL. unfold set_loads. rewrite map_length, combine_length, <- HL, Nat.min_id. reflexivity.
Qed.

Lemma apply_load_after P p t t' loads st :
  abs loads st -> length P = length loads -> time_rel t t' ->
  abs (apply_load P loads p t) (after P st p t') /\ length P = length (apply_load P loads p t).
Proof.
  intros HA HL HT. destruct t as [x|], t' as [y|]; simpl in HT; try contradiction; simpl.
  - split; [apply abs_step; assumption|apply set_loads_length; exact HL].
  - split; assumption.
Qed.

Lemma tcost_snoc I alloc p c : c == tcost I alloc -> Qred (c + cost I p) == tcost I (alloc ++ [p]).
Proof.
  intros E. rewrite Qred_correct, tcost_app, E. unfold tcost at 3. simpl. ring.
Qed.

Lemma opt_concat_oconcat {A} (l : list (option (list A))) : opt_concat l = oconcat l.
Proof. induction l as [|x r IH]; simpl; [reflexivity|rewrite IH; reflexivity]. Qed.

(* ------------------------------------------------------------------------------------------ *)
(* M  phragmen_refines_money                                                                    *)
(* ------------------------------------------------------------------------------------------ *)
(* step form: from related states the code's round and the money process's round take the same
   decision, buy the same project(s) at the same moment, and lead to related states *)
Theorem refines_step I P tb loads st projs alloc c :
  abs loads st -> length P = length loads -> c == tcost I alloc -> projs <> [] ->
  match phr_round I P tb loads projs c, money_round I P st projs alloc with
  | RStop, MStop => True
  | RPick tied t, MBuy due t' =>
      tied = tie_order tb (name_sort due) /\ time_rel t t' /\
      forall p, abs (apply_load P loads p t) (after P st p t')
                /\ length P = length (apply_load P loads p t)
                /\ Qred (c + cost I p) == tcost I (alloc ++ [p])
  | _, _ => False
  end.
Proof.
  intros HA HL Hc Hne. destruct projs as [|p0 r]; [congruence|].
  pose proof (round_corr I P tb loads st p0 r alloc c HA HL Hc) as H.
  destruct (phr_round I P tb loads (p0 :: r) c) as [|tied t],
           (money_round I P st (p0 :: r) alloc) as [| |due t']; simpl in H; try contradiction.
  - exact Logic.I.
  - destruct H as [H1 H2]. split; [exact H1|]. split; [exact H2|]. intros p.
    destruct (apply_load_after P p t t' loads st HA HL H2) as [A1 A2].
    split; [exact A1|]. split; [exact A2|]. apply tcost_snoc. exact Hc.
Qed.

Theorem refines_res I P tb : forall fuel projs loads st alloc c,
  abs loads st -> length P = length loads -> c == tcost I alloc ->
  phr_res fuel I P tb projs loads alloc c = money_res fuel I P tb st projs alloc.
Proof.
  induction fuel as [|f IH]; intros projs loads st alloc c HA HL Hc.
  - destruct projs as [|p0 r]; [reflexivity|].
    pose proof (round_corr I P tb loads st p0 r alloc c HA HL Hc) as H.
    cbn [phr_res money_res].
    destruct (phr_round I P tb loads (p0 :: r) c) as [|tied t],
             (money_round I P st (p0 :: r) alloc) as [| |due t']; simpl in H; try contradiction;
      reflexivity.
  - destruct projs as [|p0 r]; [reflexivity|].
    pose proof (round_corr I P tb loads st p0 r alloc c HA HL Hc) as H.
    cbn [phr_res money_res].
    destruct (phr_round I P tb loads (p0 :: r) c) as [|tied t],
             (money_round I P st (p0 :: r) alloc) as [| |due t']; simpl in H; try contradiction;
      [reflexivity|].
    destruct H as [-> HT].
    destruct (tie_order tb (name_sort due)) as [|p tl]; [reflexivity|].
    destruct (apply_load_after P p t t' loads st HA HL HT) as [A1 A2].
    apply IH; [exact A1|exact A2|apply tcost_snoc; exact Hc].
Qed.

Theorem refines_irr I P tb : forall fuel projs loads st alloc c,
  abs loads st -> length P = length loads -> c == tcost I alloc ->
  phr_irr fuel I P tb projs loads alloc c = money_irr fuel I P tb st projs alloc.
Proof.
  induction fuel as [|f IH]; intros projs loads st alloc c HA HL Hc.
  - destruct projs as [|p0 r]; [reflexivity|].
    pose proof (round_corr I P tb loads st p0 r alloc c HA HL Hc) as H.
    cbn [phr_irr money_irr].
    destruct (phr_round I P tb loads (p0 :: r) c) as [|tied t],
             (money_round I P st (p0 :: r) alloc) as [| |due t']; simpl in H; try contradiction;
      reflexivity.
  - destruct projs as [|p0 r]; [reflexivity|].
    pose proof (round_corr I P tb loads st p0 r alloc c HA HL Hc) as H.
    cbn [phr_irr money_irr].
    destruct (phr_round I P tb loads (p0 :: r) c) as [|tied t],
             (money_round I P st (p0 :: r) alloc) as [| |due t']; simpl in H; try contradiction;
      [reflexivity|].
    destruct H as [-> HT]. rewrite opt_concat_oconcat. f_equal. apply map_ext. intros p.
    destruct (apply_load_after P p t t' loads st HA HL HT) as [A1 A2].
    apply IH; [exact A1|exact A2|apply tcost_snoc; exact Hc].
Qed.

Lemma abs_start loads : abs loads (money_start loads).
Proof.
  unfold abs, money_start. simpl. induction loads as [|l r IH]; simpl; constructor; [ring|exact IH].
Qed.

(* end-to-end: what the model of the code returns is what the money process buys *)
Theorem phragmen_refines_money_res I P tb enum loads init :
  length P = length loads ->
  phragmen_res I P tb enum loads init = option_map name_sort (money_process_res I P tb enum loads init).
Proof.
  intros HL. unfold phragmen_res, money_process_res. f_equal.
  apply refines_res; [apply abs_start|exact HL|reflexivity].
Qed.

Theorem phragmen_refines_money_irr I P tb enum loads init :
  length P = length loads ->
  phragmen_irr I P tb enum loads init
  = option_map (fun ls => dedup_nl [] (map name_sort ls)) (money_process_irr I P tb enum loads init).
Proof.
  intros HL. unfold phragmen_irr, money_process_irr. f_equal.
  apply refines_irr; [apply abs_start|exact HL|reflexivity].
Qed.

(* ------------------------------------------------------------------------------------------ *)
(* M  phragmen_feasible, phragmen_total                                                         *)
(* ------------------------------------------------------------------------------------------ *)
Lemma tie_order_In tb l x : In x (tie_order tb l) <-> In x l.
Proof. unfold tie_order. apply isort_In. Qed.
Lemma name_sort_In l x : In x (name_sort l) <-> In x l.
Proof. unfold name_sort. apply isort_In. Qed.
Lemma name_sort_perm l : Permutation l (name_sort l).
Proof. unfold name_sort. apply isort_perm. Qed.

Lemma existsb_false {A} (g : A -> bool) l : existsb g l = false -> forall x, In x l -> g x = false.
Proof.
  intros H x Hx. destruct (g x) eqn:E; [|reflexivity].
  assert (existsb g l = true) by (apply existsb_exists; exists x; split; assumption). congruence.
Qed.

(* whoever is picked was a remaining project attaining the least new maximum load, and NO project
   attaining it overshoots *)
Lemma phr_round_pick I P tb loads projs c tied t :
  phr_round I P tb loads projs c = RPick tied t ->
  (forall p, In p tied -> In p projs /\ overshoots I c p = false) /\ (projs <> [] -> tied <> []).
Proof.
  unfold phr_round. destruct projs as [|p0 r].
  - simpl. intros [= <- <-]. split; [intros p []|congruence].
  - destruct (argmin_loop_spec (new_maxload I P loads) p0 r) as [m [E [Hle [p' [Hp' Hm]]]]].
    rewrite E. set (arg := filter (fun q => Qx_eqb m (new_maxload I P loads q)) (p0 :: r)).
    assert (Harg : forall q, In q arg <-> In q (p0 :: r) /\ Qx_eqb m (new_maxload I P loads q) = true)
      by (intros q; apply filter_In).
    clearbody arg.
    destruct (existsb (overshoots I c) arg) eqn:Eex; [discriminate|]. intros [= <- <-]. split.
    + intros p Hp. rewrite tie_order_In, name_sort_In in Hp. split.
      * apply Harg in Hp. tauto.
      * eapply existsb_false; eassumption.
    + intros _ Hnil.
      assert (Hin : In p' (tie_order tb (name_sort arg))).
      { rewrite tie_order_In, name_sort_In. apply Harg. split; [exact Hp'|].
        rewrite Hm. apply Qx_eqb_iff, Qx_eq_refl. }
      rewrite Hnil in Hin. destruct Hin.
Qed.

Lemma remove_proj_In p q l : In q (remove_proj p l) <-> In q l /\ q <> p.
Proof.
  unfold remove_proj. rewrite filter_In, negb_true_iff, Nat.eqb_neq. tauto.
Qed.
Lemma remove_proj_NoDup p l : NoDup l -> NoDup (remove_proj p l).
Proof. apply NoDup_filter. Qed.
Lemma filter_length_le {A} (g : A -> bool) l : (length (filter g l) <= length l)%nat.
Proof. induction l as [|a l IH]; simpl; [lia|destruct (g a); simpl; lia]. Qed.
Lemma remove_proj_length p l : In p l -> (length (remove_proj p l) < length l)%nat.
Proof.
  unfold remove_proj. induction l as [|a l IH]; simpl; intros H; [destruct H|].
  destruct (Nat.eqb a p) eqn:E; simpl.
  - pose proof (@filter_length_le proj (fun q => negb (Nat.eqb q p)) l) as HF.
    unfold proj in *. lia.
  - destruct H as [->|H]; [rewrite Nat.eqb_refl in E; discriminate|]. apply IH in H. lia.
Qed.

Definition inv (I : inst) (projs alloc : list proj) (c : Q) : Prop :=
  NoDup projs /\ NoDup alloc /\ (forall p, In p projs -> ~ In p alloc) /\
  (forall p, In p projs -> (p < nproj I)%nat) /\ (forall p, In p alloc -> (p < nproj I)%nat) /\
  c == tcost I alloc /\ c <= budget I.

Lemma inv_step I P tb loads projs alloc c tied t p :
  inv I projs alloc c -> phr_round I P tb loads projs c = RPick tied t -> In p tied ->
  inv I (remove_proj p projs) (alloc ++ [p]) (Qred (c + cost I p)).
Proof.
  intros (N1 & N2 & D & B1 & B2 & Ec & Lc) HR Hp.
  destruct (phr_round_pick _ _ _ _ _ _ _ _ HR) as [Hpick _].
  destruct (Hpick p Hp) as [Hin Hov].
  unfold overshoots in Hov. apply Qltb_false_iff in Hov.
  repeat split.
  - apply remove_proj_NoDup. exact N1.
  - apply NoDup_app_intro; [exact N2|constructor; [intros []|constructor]|].
    intros x Hx [E|[]]. subst x. exact (D p Hin Hx).
  - intros x Hx Hx'. apply remove_proj_In in Hx. destruct Hx as [Hx Hne].
    apply in_app_iff in Hx'. destruct Hx' as [Hx'|[Hx'|[]]]; [exact (D x Hx Hx')|congruence].
  - intros x Hx. apply remove_proj_In in Hx. apply B1. tauto.
  - intros x Hx. apply in_app_iff in Hx. destruct Hx as [Hx|[<-|[]]]; [apply B2; exact Hx|apply B1; exact Hin].
  - apply tcost_snoc. exact Ec.
  - rewrite Qred_correct. exact Hov.
Qed.

Definition good (I : inst) (alloc W : list proj) : Prop :=
  NoDup W /\ (forall p, In p W -> (p < nproj I)%nat) /\ tcost I W <= budget I /\ incl alloc W.

Lemma inv_good I projs alloc c : inv I projs alloc c -> good I alloc alloc.
Proof.
  intros (N1 & N2 & D & B1 & B2 & Ec & Lc). repeat split; try assumption.
  - rewrite <- Ec. exact Lc.
  - apply incl_refl.
Qed.

Lemma good_trans I alloc p W : good I (alloc ++ [p]) W -> good I alloc W.
Proof.
  intros (G1 & G2 & G3 & G4). repeat split; try assumption.
  intros x Hx. apply G4. apply in_app_iff. left. exact Hx.
Qed.

Lemma phr_res_good I P tb : forall fuel projs loads alloc c W,
  inv I projs alloc c -> phr_res fuel I P tb projs loads alloc c = Some W -> good I alloc W.
Proof.
  induction fuel as [|f IH]; intros projs loads alloc c W HI HR.
  - destruct projs as [|p0 r]; simpl in HR.
    + injection HR as <-. eapply inv_good; eassumption.
    + destruct (phr_round I P tb loads (p0 :: r) c); [|discriminate].
      injection HR as <-. eapply inv_good; eassumption.
  - destruct projs as [|p0 r]; cbn [phr_res] in HR.
    + injection HR as <-. eapply inv_good; eassumption.
    + destruct (phr_round I P tb loads (p0 :: r) c) as [|tied t] eqn:ER.
      * injection HR as <-. eapply inv_good; eassumption.
      * destruct tied as [|p tl]; [discriminate|].
        apply good_trans with (p := p). eapply IH; [|exact HR].
        eapply inv_step; [exact HI|exact ER|left; reflexivity].
Qed.

Lemma opt_concat_In {A} (l : list (option (list A))) ws W :
  opt_concat l = Some ws -> In W ws -> exists a, In (Some a) l /\ In W a.
Proof.
  revert ws. induction l as [|x r IH]; simpl; intros ws H HW.
  - injection H as <-. destruct HW.
  - destruct x as [a|]; [|discriminate]. destruct (opt_concat r) as [b|]; [|discriminate].
    injection H as <-. apply in_app_iff in HW. destruct HW as [HW|HW].
    + exists a. split; [left; reflexivity|exact HW].
    + destruct (IH b eq_refl HW) as [a' [H1 H2]]. exists a'. split; [right; exact H1|exact H2].
Qed.

Lemma phr_irr_good I P tb : forall fuel projs loads alloc c Ws W,
  inv I projs alloc c -> phr_irr fuel I P tb projs loads alloc c = Some Ws -> In W Ws ->
  good I alloc W.
Proof.
  induction fuel as [|f IH]; intros projs loads alloc c Ws W HI HR HW.
  - destruct projs as [|p0 r]; simpl in HR.
    + injection HR as <-. destruct HW as [<-|[]]. eapply inv_good; eassumption.
    + destruct (phr_round I P tb loads (p0 :: r) c); [|discriminate].
      injection HR as <-. destruct HW as [<-|[]]. eapply inv_good; eassumption.
  - destruct projs as [|p0 r]; cbn [phr_irr] in HR.
    + injection HR as <-. destruct HW as [<-|[]]. eapply inv_good; eassumption.
    + destruct (phr_round I P tb loads (p0 :: r) c) as [|tied t] eqn:ER.
      * injection HR as <-. destruct HW as [<-|[]]. eapply inv_good; eassumption.
      * destruct (opt_concat_In _ _ _ HR HW) as [a [Ha HWa]].
        apply in_map_iff in Ha. destruct Ha as [p [Ep Hp]].
        apply good_trans with (p := p). eapply IH; [|exact Ep|exact HWa].
        eapply inv_step; [exact HI|exact ER|exact Hp].
Qed.

Lemma inv_start I enum init :
  NoDup enum -> (forall p, In p enum -> (p < nproj I)%nat) -> feasible I init ->
  inv I (phr_projects I enum init) init (tcost I init).
Proof.
  intros N B (F1 & F2 & F3). unfold phr_projects, inv.
  split; [apply NoDup_filter; exact N|]. split; [exact F1|].
  split.
  { intros p Hp. apply filter_In in Hp. destruct Hp as [_ Hp].
    apply andb_true_iff in Hp. destruct Hp as [Hp _]. apply negb_true_iff, memb_false_In in Hp. exact Hp. }
  split; [intros p Hp; apply filter_In in Hp; apply B; tauto|].
  split; [exact F2|]. split; [reflexivity|exact F3].
Qed.

Lemma good_feasible I init W : good I init W -> feasible I (name_sort W) /\ incl init (name_sort W).
Proof.
  intros (G1 & G2 & G3 & G4). split; [repeat split|].
  - eapply Permutation_NoDup; [apply name_sort_perm|exact G1].
  - intros p Hp. rewrite name_sort_In in Hp. apply G2. exact Hp.
  - rewrite <- (tcost_perm I W (name_sort W) (name_sort_perm W)). exact G3.
  - intros x Hx. rewrite name_sort_In. apply G4. exact Hx.
Qed.

Theorem phragmen_feasible_res I P tb enum loads init W :
  NoDup enum -> (forall p, In p enum -> (p < nproj I)%nat) -> feasible I init ->
  phragmen_res I P tb enum loads init = Some W -> feasible I W /\ incl init W.
Proof.
  intros N B F. unfold phragmen_res.
  destruct (phr_res _ I P tb (phr_projects I enum init) loads init (tcost I init)) as [W0|] eqn:E;
    [|discriminate].
  simpl. intros [= <-]. apply good_feasible.
  eapply phr_res_good; [apply inv_start; eassumption|exact E].
Qed.

Lemma dedup_nl_In seen l W : In W (dedup_nl seen l) -> In W l.
Proof.
  revert seen. induction l as [|X r IH]; simpl; intros seen H; [exact H|].
  destruct (memb_nl X seen); [right; eapply IH; exact H|].
  destruct H as [<-|H]; [left; reflexivity|right; eapply IH; exact H].
Qed.

Theorem phragmen_feasible_irr I P tb enum loads init Ws W :
  NoDup enum -> (forall p, In p enum -> (p < nproj I)%nat) -> feasible I init ->
  phragmen_irr I P tb enum loads init = Some Ws -> In W Ws -> feasible I W /\ incl init W.
Proof.
  intros N B F. unfold phragmen_irr.
  destruct (phr_irr _ I P tb (phr_projects I enum init) loads init (tcost I init)) as [Ws0|] eqn:E;
    [|discriminate].
  simpl. intros [= <-] HW. apply dedup_nl_In in HW. apply in_map_iff in HW.
  destruct HW as [W0 [<- HW0]]. apply good_feasible.
  eapply phr_irr_good; [apply inv_start; eassumption|exact E|exact HW0].
Qed.

(* totality: the fuel used by the top-level functions always suffices *)
Lemma phr_res_total I P tb : forall fuel projs loads alloc c,
  (length projs <= fuel)%nat -> exists W, phr_res fuel I P tb projs loads alloc c = Some W.
Proof.
  induction fuel as [|f IH]; intros projs loads alloc c HL.
  - destruct projs; [eexists; reflexivity|simpl in HL; lia].
  - destruct projs as [|p0 r]; [eexists; reflexivity|]. cbn [phr_res].
    destruct (phr_round I P tb loads (p0 :: r) c) as [|tied t] eqn:ER; [eexists; reflexivity|].
    destruct (phr_round_pick _ _ _ _ _ _ _ _ ER) as [Hpick Hne].
    destruct tied as [|p tl]; [exfalso; apply Hne; congruence|].
    apply IH. destruct (Hpick p (or_introl eq_refl)) as [Hin _].
    pose proof (remove_proj_length p (p0 :: r) Hin). lia.
Qed.

Lemma opt_concat_total {A} (l : list (option (list A))) :
  (forall x, In x l -> exists a, x = Some a) -> exists ws, opt_concat l = Some ws.
Proof.
  induction l as [|x r IH]; intros H; simpl; [eexists; reflexivity|].
  destruct (H x (or_introl eq_refl)) as [a ->].
  destruct IH as [b ->]; [intros y Hy; apply H; right; exact Hy|]. eexists; reflexivity.
Qed.

Lemma phr_irr_total I P tb : forall fuel projs loads alloc c,
  (length projs <= fuel)%nat -> exists Ws, phr_irr fuel I P tb projs loads alloc c = Some Ws.
Proof.
  induction fuel as [|f IH]; intros projs loads alloc c HL.
  - destruct projs; [eexists; reflexivity|simpl in HL; lia].
  - destruct projs as [|p0 r]; [eexists; reflexivity|]. cbn [phr_irr].
    destruct (phr_round I P tb loads (p0 :: r) c) as [|tied t] eqn:ER; [eexists; reflexivity|].
    destruct (phr_round_pick _ _ _ _ _ _ _ _ ER) as [Hpick _].
    apply opt_concat_total. intros x Hx. apply in_map_iff in Hx. destruct Hx as [p [<- Hp]].
    apply IH. destruct (Hpick p Hp) as [Hin _].
    pose proof (remove_proj_length p (p0 :: r) Hin). lia.
Qed.

Theorem phragmen_total I P tb enum loads init :
  (exists W, phragmen_res I P tb enum loads init = Some W) /\
  (exists Ws, phragmen_irr I P tb enum loads init = Some Ws).
Proof.
  unfold phragmen_res, phragmen_irr. split.
  - destruct (phr_res_total I P tb (S (length (phr_projects I enum init)))
               (phr_projects I enum init) loads init (tcost I init)) as [W ->]; [lia|].
    eexists; reflexivity.
  - destruct (phr_irr_total I P tb (S (length (phr_projects I enum init)))
               (phr_projects I enum init) loads init (tcost I init)) as [W ->]; [lia|].
    eexists; reflexivity.
Qed.

(* ------------------------------------------------------------------------------------------ *)
(* M  phragmen_mult: a class of multiplicity k behaves as k voters                              *)
(* ------------------------------------------------------------------------------------------ *)
Lemma Qnat_S k : Qnat (S k) == 1 + Qnat k.
Proof. unfold Qnat. rewrite Nat2Z.inj_succ. unfold Z.succ. rewrite inject_Z_plus. ring. Qed.

Lemma score_app P1 P2 p : score (P1 ++ P2) p == score P1 p + score P2 p.
Proof. unfold score. rewrite map_app. apply Qsum_app. Qed.

Lemma score_repeat s k p :
  score (repeat (mkA s 1) k) p == if memb p s then Qnat k else 0.
Proof.
  induction k as [|k IH].
  - simpl. destruct (memb p s); reflexivity.
  - change (repeat (mkA s 1) (S k)) with ([mkA s 1] ++ repeat (mkA s 1) k).
    rewrite score_app, IH. unfold score. cbn [map Qsum]. unfold approves. cbn [aset amul].
    destruct (memb p s).
    + rewrite (Qnat_S k). change (Qnat 1) with 1. ring.
    + ring.
Qed.

Lemma score_expand P p : score (expand_ballots P) p == score P p.
Proof.
  induction P as [|b P IH]; [reflexivity|].
  unfold expand_ballots. simpl. fold (expand_ballots P). rewrite score_app, IH, score_repeat.
  unfold score at 2. simpl. unfold approves. destruct (memb p (aset b)); reflexivity.
Qed.

Lemma wsum_repeat_app s x k A L p :
  wsum (repeat (mkA s 1) k ++ A) (repeat x k ++ L) p
  == (if memb p s then Qnat k * x else 0) + wsum A L p.
Proof.
  induction k as [|k IH].
  - simpl. destruct (memb p s); [unfold Qnat; simpl; ring|ring].
  - unfold wsum in *. cbn [repeat app combine map Qsum fst snd]. rewrite IH.
    unfold approves. cbn [aset amul].
    destruct (memb p s); [rewrite (Qnat_S k); change (Qnat 1) with 1; ring|ring].
Qed.

Lemma wsum_expand p : forall P xs, length P = length xs ->
  wsum (expand_ballots P) (expand_loads P xs) p == wsum P xs p.
Proof.
  induction P as [|b P IH]; intros xs HL; [reflexivity|].
  destruct xs as [|x xs]; [discriminate|]. injection HL as HL.
  unfold expand_ballots, expand_loads. cbn [combine flat_map fst snd].
  fold (expand_ballots P). fold (expand_loads P xs).
  rewrite wsum_repeat_app, (IH xs HL). unfold wsum at 2. cbn [combine map Qsum fst snd].
  unfold approves. destruct (memb p (aset b)); reflexivity.
Qed.

Lemma new_maxload_expand I P loads p : length P = length loads ->
  new_maxload I (expand_ballots P) (expand_loads P loads) p = new_maxload I P loads p.
Proof.
  intros HL. unfold new_maxload.
  assert (E : Qeqb (score (expand_ballots P) p) 0 = Qeqb (score P p) 0)
    by (apply Qeq_bool_compat; [apply score_expand|reflexivity]).
  rewrite E. destruct (Qeqb (score P p) 0); [reflexivity|]. f_equal. apply Qred_complete.
  rewrite (wsum_expand p P loads HL), (score_expand P p). reflexivity.
Qed.

Lemma set_loads_expand p x : forall P loads, length P = length loads ->
  set_loads (expand_ballots P) (expand_loads P loads) p x = expand_loads P (set_loads P loads p x).
Proof.
  induction P as [|b P IH]; intros loads HL; [reflexivity|].
  destruct loads as [|l loads]; [discriminate|]. injection HL as HL.
  unfold expand_ballots, expand_loads, set_loads. cbn [combine flat_map map fst snd].
  fold (expand_ballots P). fold (expand_loads P loads).
  assert (G : forall k A L, map (fun bx : aballot * Q => if approves (fst bx) p then x else snd bx)
                (combine (repeat (mkA (aset b) 1) k ++ A) (repeat l k ++ L))
              = repeat (if approves b p then x else l) k
                ++ map (fun bx : aballot * Q => if approves (fst bx) p then x else snd bx) (combine A L)).
  { induction k as [|k IHk]; intros A L; [reflexivity|]. simpl. rewrite IHk. reflexivity. }
  rewrite G. f_equal. apply (IH loads HL).
Qed.

Lemma apply_load_expand P loads p t : length P = length loads ->
  apply_load (expand_ballots P) (expand_loads P loads) p t = expand_loads P (apply_load P loads p t).
Proof. intros HL. destruct t; simpl; [apply set_loads_expand; exact HL|reflexivity]. Qed.

Lemma expand_length : forall P loads, length P = length loads ->
  length (expand_ballots P) = length (expand_loads P loads).
Proof.
  induction P as [|b P IH]; intros loads HL; [reflexivity|].
  destruct loads as [|l loads]; [discriminate|]. injection HL as HL.
  unfold expand_ballots, expand_loads. cbn [combine flat_map fst snd].
  rewrite !app_length, !repeat_length. f_equal. apply (IH loads HL).
Qed.

Lemma insert_ext {A} (leb leb' : A -> A -> bool) x l :
  (forall a b, leb a b = leb' a b) -> insert leb x l = insert leb' x l.
Proof. intros H. induction l as [|y t IH]; simpl; [reflexivity|]. rewrite H, IH. reflexivity. Qed.
Lemma isort_ext {A} (leb leb' : A -> A -> bool) l :
  (forall a b, leb a b = leb' a b) -> isort leb l = isort leb' l.
Proof.
  intros H. induction l as [|x t IH]; simpl; [reflexivity|]. rewrite IH. apply insert_ext. exact H.
Qed.
Lemma Qleb_compat a b x y : a == b -> x == y -> Qleb a x = Qleb b y.
Proof.
  intros E F. destruct (Qleb a x) eqn:E1, (Qleb b y) eqn:E2; try reflexivity.
  - apply Qleb_iff in E1. rewrite E, F in E1. apply Qleb_iff in E1. congruence.
  - apply Qleb_iff in E2. rewrite <- E, <- F in E2. apply Qleb_iff in E2. congruence.
Qed.
Lemma tie_order_ext tb tb' l : (forall p, tb p == tb' p) -> tie_order tb l = tie_order tb' l.
Proof. intros H. unfold tie_order. apply isort_ext. intros a b. apply Qleb_compat; apply H. Qed.

Lemma phr_round_expand I P tb tb' loads projs c :
  length P = length loads -> (forall p, tb p == tb' p) ->
  phr_round I (expand_ballots P) tb' (expand_loads P loads) projs c = phr_round I P tb loads projs c.
Proof.
  intros HL Htb. unfold phr_round.
  rewrite (argmin_loop_ext (new_maxload I (expand_ballots P) (expand_loads P loads))
                           (new_maxload I P loads) projs)
    by (intros p _; apply new_maxload_expand; exact HL).
  destruct (argmin_loop (new_maxload I P loads) projs None []) as [m arg].
  rewrite (tie_order_ext tb' tb) by (intros p; symmetry; apply Htb). reflexivity.
Qed.

Lemma set_loads_length' P loads p t :
  length P = length loads -> length P = length (apply_load P loads p t).
Proof. intros HL. destruct t; simpl; [apply set_loads_length; exact HL|exact HL]. Qed.

Theorem phr_res_expand I P tb tb' : (forall p, tb p == tb' p) ->
  forall fuel projs loads alloc c, length P = length loads ->
  phr_res fuel I (expand_ballots P) tb' projs (expand_loads P loads) alloc c
  = phr_res fuel I P tb projs loads alloc c.
Proof.
  intros Htb. induction fuel as [|f IH]; intros projs loads alloc c HL;
    (destruct projs as [|p0 r]; [reflexivity|]); cbn [phr_res];
    rewrite (phr_round_expand I P tb tb' loads (p0 :: r) c HL Htb);
    destruct (phr_round I P tb loads (p0 :: r) c) as [|tied t]; try reflexivity.
  destruct tied as [|p tl]; [reflexivity|].
  rewrite (apply_load_expand P loads p t HL). apply IH. apply set_loads_length'. exact HL.
Qed.

Theorem phr_irr_expand I P tb tb' : (forall p, tb p == tb' p) ->
  forall fuel projs loads alloc c, length P = length loads ->
  phr_irr fuel I (expand_ballots P) tb' projs (expand_loads P loads) alloc c
  = phr_irr fuel I P tb projs loads alloc c.
Proof.
  intros Htb. induction fuel as [|f IH]; intros projs loads alloc c HL;
    (destruct projs as [|p0 r]; [reflexivity|]); cbn [phr_irr];
    rewrite (phr_round_expand I P tb tb' loads (p0 :: r) c HL Htb);
    destruct (phr_round I P tb loads (p0 :: r) c) as [|tied t]; try reflexivity.
  f_equal. apply map_ext. intros p.
  rewrite (apply_load_expand P loads p t HL). apply IH. apply set_loads_length'. exact HL.
Qed.

Theorem phragmen_mult_res I P tb tb' enum loads init :
  length P = length loads -> (forall p, tb p == tb' p) ->
  phragmen_res I (expand_ballots P) tb' enum (expand_loads P loads) init
  = phragmen_res I P tb enum loads init.
Proof.
  intros HL Htb. unfold phragmen_res. f_equal. apply phr_res_expand; assumption.
Qed.

Theorem phragmen_mult_irr I P tb tb' enum loads init :
  length P = length loads -> (forall p, tb p == tb' p) ->
  phragmen_irr I (expand_ballots P) tb' enum (expand_loads P loads) init
  = phragmen_irr I P tb enum loads init.
Proof.
  intros HL Htb. unfold phragmen_irr. f_equal. apply phr_irr_expand; assumption.
Qed.

(* the approval-score key is itself insensitive to the expansion *)
Lemma tb_app_score_expand P p : tb_app_score P p == tb_app_score (expand_ballots P) p.
Proof. unfold tb_app_score. rewrite score_expand. reflexivity. Qed.

(* ------------------------------------------------------------------------------------------ *)
(* M  the stop rule                                                                             *)
(* ------------------------------------------------------------------------------------------ *)
(* the code stops in a round exactly when SOME remaining project attaining the least new maximum
   load would overshoot -- whichever of them the tie-breaking rule ranks first *)
Theorem phragmen_stop_rule I P tb loads projs c : projs <> [] ->
  (phr_round I P tb loads projs c = RStop <->
   exists p, In p projs /\
             (forall q, In q projs -> Qx_le (new_maxload I P loads p) (new_maxload I P loads q)) /\
             budget I < c + cost I p).
Proof.
  intros Hne. destruct projs as [|p0 r]; [congruence|]. unfold phr_round.
  destruct (argmin_loop_spec (new_maxload I P loads) p0 r) as [m [E [Hle [p' [Hp' Hm]]]]].
  rewrite E. set (f := new_maxload I P loads) in *. split.
  - destruct (existsb _ _) eqn:Eex; [|discriminate]. intros _.
    apply existsb_exists in Eex. destruct Eex as [p [Hp Hov]].
    apply filter_In in Hp. destruct Hp as [Hp Hpm]. apply Qx_eqb_iff in Hpm.
    exists p. split; [exact Hp|]. split.
    + intros q Hq. eapply Qx_le_trans; [apply Qx_eq_le, Qx_eq_sym; exact Hpm|apply Hle; exact Hq].
    + unfold overshoots in Hov. apply Qltb_iff in Hov. exact Hov.
  - intros [p [Hp [Hmin Hov]]].
    assert (Hex : existsb (overshoots I c) (filter (fun q => Qx_eqb m (f q)) (p0 :: r)) = true).
    { apply existsb_exists. exists p. split.
      - apply filter_In. split; [exact Hp|]. apply Qx_eqb_iff. apply Qx_le_antisym.
        + apply Hle. exact Hp.
        + rewrite Hm. apply Hmin. exact Hp'.
      - unfold overshoots. apply Qltb_iff. exact Hov. }
    rewrite Hex. reflexivity.
Qed.

(* ... and when it stops, the allocation built so far is the answer *)
Theorem phragmen_stop_returns I P tb fuel loads projs alloc c :
  phr_round I P tb loads projs c = RStop ->
  phr_res fuel I P tb projs loads alloc c = Some alloc /\
  phr_irr fuel I P tb projs loads alloc c = Some [alloc].
Proof.
  intros H. destruct projs as [|p0 r]; [destruct fuel; split; reflexivity|].
  destruct fuel; cbn [phr_res phr_irr]; rewrite H; split; reflexivity.
Qed.

(* ------------------------------------------------------------------------------------------ *)
(* the executable money process is a run of the transition relation                             *)
(* ------------------------------------------------------------------------------------------ *)
Lemma nat_leb_total x y : Nat.leb x y = true \/ Nat.leb y x = true.
Proof. destruct (Nat.leb x y) eqn:E; [left; reflexivity|right]. apply Nat.leb_le. apply Nat.leb_gt in E. lia. Qed.
Lemma nat_leb_trans x y z : Nat.leb x y = true -> Nat.leb y z = true -> Nat.leb x z = true.
Proof. rewrite !Nat.leb_le. lia. Qed.

(* head of the stable key sort of a name-sorted list: least key, equal keys by name *)
Lemma hd_tie_order tb : forall l, StronglySorted (lebP Nat.leb) l -> forall p,
  hd_error (tie_order tb l) = Some p ->
  In p l /\ forall q, In q l -> tb p < tb q \/ (tb p == tb q /\ (p <= q)%nat).
Proof.
  induction l as [|x t IH]; intros HS p Hp; [discriminate|].
  inversion HS as [|x' t' HSt Hall]; subst.
  unfold tie_order in *. cbn [isort fold_right] in Hp. fold (isort (fun p q => Qleb (tb p) (tb q)) t) in Hp.
  destruct (isort (fun p q => Qleb (tb p) (tb q)) t) as [|y s] eqn:Es.
  - assert (t = []).
    { pose proof (isort_length (fun p q => Qleb (tb p) (tb q)) t) as HL. rewrite Es in HL.
      destruct t; [reflexivity|discriminate]. }
    subst t. simpl in Hp. injection Hp as <-. split; [left; reflexivity|].
    intros q [<-|[]]. right. split; [reflexivity|lia].
  - destruct (IH HSt y eq_refl) as [Hy Hmin]. simpl in Hp.
    rewrite Forall_forall in Hall.
    destruct (Qleb (tb x) (tb y)) eqn:E; simpl in Hp; injection Hp as <-.
    + apply Qleb_iff in E. split; [left; reflexivity|].
      intros q [<-|Hq]; [right; split; [reflexivity|lia]|].
      assert (Hxq : (x <= q)%nat) by (apply Nat.leb_le, Hall; exact Hq).
      destruct (Hmin q Hq) as [H|[H1 H2]].
      * left. eapply Qle_lt_trans; eassumption.
      * destruct (Qlt_le_dec (tb x) (tb q)) as [H|H]; [left; exact H|].
        right. split; [|exact Hxq]. apply Qle_antisym; [rewrite <- H1; exact E|exact H].
    + apply Qleb_false_iff in E. split; [right; exact Hy|].
      intros q [<-|Hq]; [left; exact E|apply Hmin; exact Hq].
Qed.

Lemma tie_first_spec tb l p tl :
  tie_order tb (name_sort l) = p :: tl -> tb_first tb (fun q => In q l) p.
Proof.
  intros H.
  destruct (hd_tie_order tb (name_sort l)
              (isort_sorted Nat.leb nat_leb_total nat_leb_trans l) p) as [H1 H2].
  { rewrite H. reflexivity. }
  split; [rewrite name_sort_In in H1; exact H1|].
  intros q Hq. apply H2. rewrite name_sort_In. exact Hq.
Qed.

Lemma forallb_false_exists {A} (g : A -> bool) l :
  forallb g l = false -> exists x, In x l /\ g x = false.
Proof.
  induction l as [|a l IH]; simpl; [discriminate|]. intros H.
  destruct (g a) eqn:E.
  - destruct (IH H) as [x [Hx Hg]]. exists x. split; [right; exact Hx|exact Hg].
  - exists a. split; [left; reflexivity|exact E].
Qed.

Lemma fitsb_iff I alloc p : fitsb I alloc p = true <-> fits I alloc p.
Proof. unfold fitsb, fits. apply Qleb_iff. Qed.

Lemma due_at_iff I P st rem t p :
  due_at I P st rem t p <-> In p rem /\ supported P p = true /\ t == buy_time I P st p.
Proof.
  unfold due_at. split; intros (H1 & H2 & H3); (split; [exact H1|split; [exact H2|]]);
    apply (buy_time_holdings I P st p t H2); exact H3.
Qed.

(* what one round of the executable process computes, in terms of the relation's vocabulary *)
Lemma money_round_tail I P st rem alloc :
  rem <> [] -> filter (supported P) rem = [] ->
  unsupported_all P rem /\
  money_round I P st rem alloc = if forallb (fitsb I alloc) rem then MBuy rem None else MStop.
Proof.
  intros Hne Hf. split; [exact (filter_nil_all _ _ Hf)|].
  unfold money_round. destruct rem; [congruence|]. rewrite Hf. reflexivity.
Qed.

Lemma money_round_sup I P st rem alloc q r' :
  filter (supported P) rem = q :: r' ->
  let t := earliest (buy_time I P st q) (map (buy_time I P st) r') in
  let due := filter (fun p => Qeqb (buy_time I P st p) t) (q :: r') in
  earliest_due I P st rem t /\ (forall p, In p due <-> due_at I P st rem t p) /\
  money_round I P st rem alloc
  = if forallb (fitsb I alloc) due then MBuy due (Some t) else MStop.
Proof.
  intros Hf t due.
  assert (Hsup : forall x, In x (q :: r') <-> In x rem /\ supported P x = true)
    by (intros x; rewrite <- Hf; apply filter_In).
  assert (Hdue : forall p, In p due <-> due_at I P st rem t p).
  { intros p. unfold due. rewrite filter_In, Hsup, due_at_iff.
    split; [intros [[H1 H2] H3]|intros (H1 & H2 & H3)].
    - split; [exact H1|split; [exact H2|]]. apply Qeqb_iff in H3. symmetry. exact H3.
    - split; [split; assumption|]. apply Qeqb_iff. symmetry. exact H3. }
  split; [|split; [exact Hdue|]].
  - split.
    + destruct (earliest_in (buy_time I P st q) (map (buy_time I P st) r')) as [H|H]; fold t in H.
      * exists q. apply due_at_iff. destruct (proj1 (Hsup q) (or_introl eq_refl)) as [H1 H2].
        split; [exact H1|split; [exact H2|]]. rewrite H. reflexivity.
      * apply in_map_iff in H. destruct H as [p [Ep Hp]]. exists p. apply due_at_iff.
        destruct (proj1 (Hsup p) (or_intror Hp)) as [H1 H2].
        split; [exact H1|split; [exact H2|]]. rewrite Ep. reflexivity.
    + intros x t' Hx. apply due_at_iff in Hx. destruct Hx as (H1 & H2 & H3).
      assert (Hin : In x (q :: r')) by (apply Hsup; split; assumption).
      destruct (earliest_le (buy_time I P st q) (map (buy_time I P st) r')) as [L1 L2]. fold t in L1, L2.
      rewrite H3. destruct Hin as [<-|Hin]; [exact L1|apply L2, in_map; exact Hin].
  - unfold money_round. destruct rem as [|a rem']; [discriminate|]. rewrite Hf. reflexivity.
Qed.

Lemma money_round_cases I P st rem alloc :
  (rem = [] /\ money_round I P st rem alloc = MDone) \/
  (rem <> [] /\ unsupported_all P rem /\
   money_round I P st rem alloc = if forallb (fitsb I alloc) rem then MBuy rem None else MStop) \/
  (exists t due, earliest_due I P st rem t /\ (forall p, In p due <-> due_at I P st rem t p) /\
   money_round I P st rem alloc = if forallb (fitsb I alloc) due then MBuy due (Some t) else MStop).
Proof.
  destruct rem as [|a rem']; [left; split; reflexivity|]. right.
  destruct (filter (supported P) (a :: rem')) as [|q r'] eqn:Hf.
  - left. split; [congruence|]. apply money_round_tail; [congruence|exact Hf].
  - right. destruct (money_round_sup I P st (a :: rem') alloc q r' Hf) as (H1 & H2 & H3).
    eexists. eexists. split; [exact H1|]. split; [exact H2|exact H3].
Qed.

Lemma forallb_fits I alloc l : forallb (fitsb I alloc) l = true -> forall q, In q l -> fits I alloc q.
Proof. intros H q Hq. apply fitsb_iff. rewrite forallb_forall in H. apply H. exact Hq. Qed.

Lemma halted_of_stop I P st rem alloc :
  money_round I P st rem alloc = MDone \/ money_round I P st rem alloc = MStop ->
  money_halted I P (st, rem, alloc).
Proof.
  intros H. destruct (money_round_cases I P st rem alloc) as [[H1 _]|[(H1 & H2 & H3)|(t & due & H1 & H2 & H3)]].
  - left. exact H1.
  - right. right. split; [exact H2|].
    destruct (forallb (fitsb I alloc) rem) eqn:E; [rewrite H3 in H; destruct H; discriminate|].
    destruct (forallb_false_exists _ _ E) as [q [Hq Hg]]. exists q. split; [exact Hq|].
    intro Hfit. apply fitsb_iff in Hfit. congruence.
  - right. left.
    destruct (forallb (fitsb I alloc) due) eqn:E; [rewrite H3 in H; destruct H; discriminate|].
    destruct (forallb_false_exists _ _ E) as [q [Hq Hg]]. exists t, q. split; [exact H1|].
    split; [apply H2; exact Hq|]. intro Hfit. apply fitsb_iff in Hfit. congruence.
Qed.

(* a purchase of the executable process is a step of the relation, for any choice discipline that
   the picked project satisfies *)
Lemma step_of_buy I P (choice : (proj -> Prop) -> proj -> Prop) st rem alloc due t p :
  money_round I P st rem alloc = MBuy due t ->
  (forall C : proj -> Prop, (forall q, In q due <-> C q) -> choice C p) ->
  money_step I P choice (st, rem, alloc) (after P st p t, drop p rem, alloc ++ [p]).
Proof.
  intros HR Hch.
  destruct (money_round_cases I P st rem alloc) as [[_ H1]|[(H1 & H2 & H3)|(t0 & due0 & H1 & H2 & H3)]].
  - congruence.
  - rewrite H3 in HR. destruct (forallb (fitsb I alloc) rem) eqn:E; [|discriminate].
    injection HR as <- <-. simpl. apply ms_tail; [exact H2|apply forallb_fits; exact E|].
    apply Hch. intros q. reflexivity.
  - rewrite H3 in HR. destruct (forallb (fitsb I alloc) due0) eqn:E; [|discriminate].
    injection HR as <- <-. simpl. apply ms_buy; [exact H1| |apply Hch; exact H2].
    intros q Hq. apply (forallb_fits I alloc due0 E). apply H2. exact Hq.
Qed.

Lemma tb_first_ext tb (C D : proj -> Prop) p : (forall q, D q <-> C q) -> tb_first tb D p -> tb_first tb C p.
Proof.
  intros H [H1 H2]. split; [apply H; exact H1|]. intros q Hq. apply H2. apply H. exact Hq.
Qed.

Theorem money_res_sound I P tb : forall fuel st rem alloc W,
  money_res fuel I P tb st rem alloc = Some W ->
  money_outcome I P (tb_first tb) (st, rem, alloc) W.
Proof.
  induction fuel as [|f IH]; intros st rem alloc W H; cbn [money_res] in H;
    destruct (money_round I P st rem alloc) as [| |due t] eqn:ER;
    try (injection H as <-; apply mo_halt; apply halted_of_stop; rewrite ER; auto; fail);
    try discriminate.
  destruct (tie_order tb (name_sort due)) as [|p tl] eqn:ET; [discriminate|].
  eapply mo_step; [|apply IH; exact H].
  eapply step_of_buy; [exact ER|]. intros C HC.
  eapply tb_first_ext; [exact HC|]. eapply tie_first_spec. exact ET.
Qed.

Lemma oconcat_In {A} (l : list (option (list A))) ws W :
  oconcat l = Some ws -> In W ws -> exists a, In (Some a) l /\ In W a.
Proof. rewrite <- opt_concat_oconcat. apply opt_concat_In. Qed.

Theorem money_irr_sound I P tb : forall fuel st rem alloc Ws W,
  money_irr fuel I P tb st rem alloc = Some Ws -> In W Ws ->
  money_outcome I P (fun C p => C p) (st, rem, alloc) W.
Proof.
  induction fuel as [|f IH]; intros st rem alloc Ws W H HW; cbn [money_irr] in H;
    destruct (money_round I P st rem alloc) as [| |due t] eqn:ER;
    try (injection H as <-; destruct HW as [<-|[]]; apply mo_halt; apply halted_of_stop;
         rewrite ER; auto; fail);
    try discriminate.
  destruct (oconcat_In _ _ _ H HW) as [a [Ha HWa]]. apply in_map_iff in Ha.
  destruct Ha as [p [Ep Hp]]. rewrite tie_order_In, name_sort_In in Hp.
  eapply mo_step; [|eapply IH; [exact Ep|exact HWa]].
  eapply step_of_buy; [exact ER|]. intros C HC. apply HC. exact Hp.
Qed.

(* ------------------------------------------------------------------------------------------ *)
(* regular states: the clock only moves forward                                                 *)
(* ------------------------------------------------------------------------------------------ *)
Lemma nsupp_pos P p : supported P p = true -> 0 < nsupp P p.
Proof.
  unfold supported. rewrite negb_true_iff. intros H. apply Qeqb_false_iff in H.
  pose proof (score_nonneg P p) as H0. change (score P p) with (nsupp P p) in H0.
  destruct (Qlt_le_dec 0 (nsupp P p)) as [L|L]; [exact L|].
  exfalso. apply H. apply Qle_antisym; assumption.
Qed.

(* in a regular state the purchase moment of every remaining supported project lies ahead: it is
   the least t >= now at which its supporters hold its cost *)
Theorem buy_time_future I P st rem p :
  regular I P st rem -> In p rem -> supported P p = true -> now st <= buy_time I P st p.
Proof.
  intros [_ HR] Hp Hs. unfold buy_time. pose proof (nsupp_pos P p Hs) as Hn.
  pose proof (HR p Hp Hs) as Hh.
  assert (0 <= (cost I p - holdings P (bal st) p) / nsupp P p).
  { apply Qle_shift_div_l; [exact Hn|]. lra. }
  lra.
Qed.

Lemma holdings_nil_r P q : holdings P [] q == 0.
Proof. unfold holdings. destruct P; reflexivity. Qed.

Lemma holdings_pay_le p q d : 0 <= d -> forall P bs, Forall (fun b => 0 <= b) bs ->
  holdings P (map (fun bx => if approves (fst bx) p then 0 else Qred (snd bx + d)) (combine P bs)) q
  <= holdings P bs q + nsupp P q * d.
Proof.
  intros Hd. induction P as [|b P IH]; intros bs HF.
  - unfold holdings, nsupp. simpl. lra.
  - destruct bs as [|x bs].
    + assert (E : combine (b :: P) (@nil Q) = []) by reflexivity. rewrite E. simpl map.
      rewrite !holdings_nil_r.
      pose proof (score_nonneg (b :: P) q) as H0. change (score (b :: P) q) with (nsupp (b :: P) q) in H0.
      pose proof (Qmult_le_0_compat _ _ H0 Hd). lra.
    + inversion HF as [|x' bs' Hx HF']; subst.
      pose proof (IH bs HF') as IH'. unfold holdings, nsupp in *.
      cbn [combine map Qsum fst snd].
      set (A := Qsum (map _ (combine P (map _ (combine P bs))))) in *.
      set (B := Qsum (map _ (combine P bs))) in *.
      set (C := Qsum (map _ P)) in *. clearbody A B C.
      pose proof (Qnat_nonneg (amul b)) as Hm.
      destruct (approves b q).
      * destruct (approves b p).
        -- pose proof (Qmult_le_0_compat _ _ Hm Hx). pose proof (Qmult_le_0_compat _ _ Hm Hd). lra.
        -- rewrite Qred_correct. lra.
      * lra.
Qed.

Theorem regular_step I P st rem t p :
  regular I P st rem -> earliest_due I P st rem t -> due_at I P st rem t p ->
  now st <= t /\ regular I P (pay P st p t) (drop p rem).
Proof.
  intros HR [_ Hearly] Hdue. pose proof HR as [Hbal Hhold].
  apply due_at_iff in Hdue. destruct Hdue as (Hp & Hs & Ht).
  assert (Hnow : now st <= t) by (rewrite Ht; eapply buy_time_future; eassumption).
  split; [exact Hnow|]. split.
  - unfold pay. cbn [bal now]. rewrite Forall_forall. intros x Hx. apply in_map_iff in Hx.
    destruct Hx as [[b y] [<- Hin]]. cbn [fst snd]. destruct (approves b p); [lra|].
    rewrite Qred_correct. apply in_combine_r in Hin. rewrite Forall_forall in Hbal.
    pose proof (Hbal y Hin). lra.
  - intros q Hq Hsq. unfold drop in Hq. apply filter_In in Hq. destruct Hq as [Hq _].
    unfold pay. cbn [bal now].
    eapply Qle_trans; [apply holdings_pay_le; [lra|exact Hbal]|].
    assert (Htq : t <= buy_time I P st q).
    { apply (Hearly q). apply due_at_iff. split; [exact Hq|split; [exact Hsq|reflexivity]]. }
    pose proof (nsupp_pos P q Hsq) as Hn. unfold buy_time in Htq.
    set (dq := (cost I q - holdings P (bal st) q) / nsupp P q) in *.
    assert (Edq : nsupp P q * dq == cost I q - holdings P (bal st) q).
    { unfold dq. field. intro E. rewrite E in Hn. apply (Qlt_irrefl 0). exact Hn. }
    assert (Hle : nsupp P q * (t - now st) <= nsupp P q * dq).
    { apply Qmult_le_l; [exact Hn|lra]. }
    lra.
Qed.

Lemma holdings_zero P q : forall n, holdings P (repeat 0 n) q == 0.
Proof.
  unfold holdings. induction P as [|b P IH]; intros n; [reflexivity|].
  destruct n as [|n]; [reflexivity|]. cbn [repeat combine map Qsum fst snd]. rewrite IH.
  destruct (approves b q); ring.
Qed.

(* equal initial loads (in particular the default, all 0): the process starts in a regular state *)
Theorem regular_equal_loads I P rem loads c :
  Forall (fun x => 0 <= x) (costs I) -> Forall (fun l => l == c) loads ->
  let st := mkM c (repeat 0 (length loads)) in
  abs loads st /\ regular I P st rem.
Proof.
  intros Hc Hl st. split.
  - unfold abs, st. simpl. induction Hl as [|l r Hl _ IH]; simpl; constructor; [rewrite Hl; ring|exact IH].
  - split.
    + unfold st. simpl. rewrite Forall_forall. intros x Hx. apply repeat_spec in Hx. subst. lra.
    + intros q _ _. unfold st. simpl. rewrite holdings_zero. apply cost_nonneg. exact Hc.
Qed.
