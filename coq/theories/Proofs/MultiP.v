(* Proofs/MultiP.v -- property C06: a profile object given as (ballot, multiplicity) classes and the expanded list of
   voters are interchangeable for every modelled rule, satisfaction aggregate and statistic.

   Part 1  generic: sums / counts with multiplicities = sums / counts over the replicated voters ([total_sat_expand])
   Part 2  greedy welfare rule (Model/GreedyRule.v): the rule only reads the profile through the total satisfaction
           (and the tie-breaking key), and respects [==] of both  =>  [greedy_mult]
   Part 3  welfare maximiser (Model/MaxWelfare.v): the scores handed to the knapsack are equal  =>  [maxwelfare_mult]
   Part 4  comparisons (rules/composition.py): social welfare and popularity supports
   Part 5  Equal Shares (Model/MesRule.v): every multiplicity-weighted sum of the model (number of voters / share, total
           utility of a project, money of its supporters, payments) equals the sum over the expanded voters, and the
           sweep treats a class of k supporters as k supporters ([sweep_mult])
   Part 6  statistics (Model/Analysis.v): every aggregate on classes equals the aggregate on the expanded list
   Part 7  satisfaction (Model/Satisfaction.v): per-voter satisfaction reads the profile only through Effort_Sat's
           denominator, which is the number of VOTERS approving the project *)
From PB Require Import Base.Election Base.Argmax.
From PB Require Import Model.GreedyRule.
From PB Require Import Proofs.GreedyAddP.
Open Scope Q_scope.

(* ------------------------------------------------------------------------------------------------------------ *)
(* Part 1: generic                                                                                              *)
(* ------------------------------------------------------------------------------------------------------------ *)
Lemma mp_Qnat_S k : Qnat (S k) == 1 + Qnat k.
Proof. unfold Qnat. rewrite Nat2Z.inj_succ. unfold Z.succ. rewrite inject_Z_plus. ring. Qed.

Lemma mp_Qnat_1 : Qnat 1 == 1.
Proof. reflexivity. Qed.

Lemma mp_Qsum_repeat v k : Qsum (repeat v k) == Qnat k * v.
Proof.
  induction k as [|k IH]; [simpl; unfold Qnat; simpl; ring|].
  change (repeat v (S k)) with (v :: repeat v k). cbn [Qsum]. rewrite IH, (mp_Qnat_S k). ring.
Qed.

Lemma mp_Qsum_map_ext {A} (f g : A -> Q) l :
  (forall x, In x l -> f x == g x) -> Qsum (map f l) == Qsum (map g l).
Proof.
  induction l as [|a r IH]; intros H; simpl; [reflexivity|].
  rewrite (H a (or_introl eq_refl)), IH; [reflexivity|]. intros x Hx. apply H. right. exact Hx.
Qed.

Lemma mp_map_repeat {A B} (f : A -> B) x k : map f (repeat x k) = repeat (f x) k.
Proof. induction k as [|k IH]; [reflexivity|]. simpl. f_equal. exact IH. Qed.

Section Weighted.
Context {A : Type}.

(* sum over the classes of multiplicity * g(ballot): GroupSatisfactionMeasure.total_satisfaction and friends *)
Definition wtotal (g : A -> Q) (P : list (A * nat)) : Q :=
  Qsum (map (fun c => Qnat (snd c) * g (fst c)) P).
(* the voters behind the classes, one entry per voter *)
Definition expandA (P : list (A * nat)) : list A := flat_map (fun c => repeat (fst c) (snd c)) P.
(* a list profile: every voter is a class of multiplicity 1 *)
Definition ones (V : list A) : list (A * nat) := map (fun a => (a, 1%nat)) V.
(* number of voters whose ballot satisfies f, counted with multiplicities *)
Definition wcount (f : A -> bool) (P : list (A * nat)) : nat :=
  fold_right (fun c n => if f (fst c) then (snd c + n)%nat else n) O P.
(* profile.num_ballots() *)
Definition wsize (P : list (A * nat)) : nat := fold_right (fun c n => (snd c + n)%nat) O P.

Lemma expandA_cons c P : expandA (c :: P) = repeat (fst c) (snd c) ++ expandA P.
Proof. reflexivity. Qed.

Theorem total_sat_expand g P : wtotal g P == Qsum (map g (expandA P)).
Proof.
  induction P as [|c P IH]; [reflexivity|].
  rewrite expandA_cons, map_app, Qsum_app, <- IH. unfold wtotal. cbn [map Qsum].
  rewrite mp_map_repeat, mp_Qsum_repeat. reflexivity.
Qed.

Lemma expandA_ones V : expandA (ones V) = V.
Proof. induction V as [|a V IH]; [reflexivity|]. unfold ones in *. cbn. f_equal. exact IH. Qed.

Corollary total_sat_mult g P : wtotal g P == wtotal g (ones (expandA P)).
Proof. rewrite !total_sat_expand, expandA_ones. reflexivity. Qed.

Theorem wcount_expand f P : wcount f P = length (filter f (expandA P)).
Proof.
  induction P as [|c P IH]; [reflexivity|].
  rewrite expandA_cons, filter_app, app_length, <- IH. cbn [wcount fold_right]. fold (wcount f P).
  destruct (f (fst c)) eqn:E.
  - f_equal. induction (snd c) as [|k IHk]; [reflexivity|]. cbn [repeat filter]. rewrite E. cbn [length]. f_equal. exact IHk.
  - replace (length (filter f (repeat (fst c) (snd c)))) with O; [reflexivity|].
    induction (snd c) as [|k IHk]; [reflexivity|]. cbn [repeat filter]. rewrite E. exact IHk.
Qed.

Corollary wcount_mult f P : wcount f P = wcount f (ones (expandA P)).
Proof. rewrite !wcount_expand, expandA_ones. reflexivity. Qed.

Theorem wsize_expand P : wsize P = length (expandA P).
Proof.
  induction P as [|c P IH]; [reflexivity|].
  rewrite expandA_cons, app_length, repeat_length, <- IH. reflexivity.
Qed.

Corollary wsize_mult P : wsize P = wsize (ones (expandA P)).
Proof. rewrite !wsize_expand, expandA_ones. reflexivity. Qed.

End Weighted.

(* ------------------------------------------------------------------------------------------------------------ *)
(* Part 2: the greedy welfare rule                                                                              *)
(* ------------------------------------------------------------------------------------------------------------ *)
Lemma mp_Qleb_compat a b x y : a == b -> x == y -> Qleb a x = Qleb b y.
Proof.
  intros E F. destruct (Qleb a x) eqn:E1, (Qleb b y) eqn:E2; try reflexivity.
  - apply Qleb_iff in E1. rewrite E, F in E1. apply Qleb_iff in E1. congruence.
  - apply Qleb_iff in E2. rewrite <- E, <- F in E2. apply Qleb_iff in E2. congruence.
Qed.

Lemma mp_Qltb_compat a b x y : a == b -> x == y -> Qltb a x = Qltb b y.
Proof. intros E F. unfold Qltb. f_equal. apply mp_Qleb_compat; assumption. Qed.

Lemma mp_insert_ext {A} (leb leb' : A -> A -> bool) x l :
  (forall a b, leb a b = leb' a b) -> insert leb x l = insert leb' x l.
Proof. intros H. induction l as [|y t IH]; simpl; [reflexivity|]. rewrite H, IH. reflexivity. Qed.

Lemma mp_isort_ext {A} (leb leb' : A -> A -> bool) l :
  (forall a b, leb a b = leb' a b) -> isort leb l = isort leb' l.
Proof.
  intros H. induction l as [|x t IH]; simpl; [reflexivity|]. rewrite IH. apply mp_insert_ext. exact H.
Qed.

Lemma mp_tie_order_ext tb tb' l : (forall p, tb p == tb' p) -> tie_order tb l = tie_order tb' l.
Proof. intros H. unfold tie_order. apply mp_isort_ext. intros a b. apply mp_Qleb_compat; apply H. Qed.

(* the argmax scan only looks at comparisons between values *)
Lemma argmax_scan_ext {A V} (leb : V -> V -> bool) (f g : A -> V) :
  (forall x y, leb (f x) (f y) = leb (g x) (g y)) ->
  forall l b acc, argmax_scan leb f l (option_map f b) acc = argmax_scan leb g l (option_map g b) acc.
Proof.
  intros H. induction l as [|x r IH]; intros b acc; [reflexivity|].
  destruct b as [x0|]; cbn [option_map argmax_scan].
  - rewrite (H x x0), (H x0 x).
    destruct (negb (leb (g x) (g x0))).
    + apply (IH (Some x)).
    + destruct (leb (g x0) (g x)); apply (IH (Some x0)).
  - apply (IH (Some x)).
Qed.

Lemma argmax_all_ext {A V} (leb : V -> V -> bool) (f g : A -> V) l :
  (forall x y, leb (f x) (f y) = leb (g x) (g y)) -> argmax_all leb f l = argmax_all leb g l.
Proof. intros H. unfold argmax_all. apply (argmax_scan_ext leb f g H l None []). Qed.

Section GreedyExt.
Variable I : inst.
Variables sat sat' : list proj -> Q.
Variables sp sp' : proj -> Q.
Variables tb tb' : proj -> Q.
Hypothesis Hsat : forall W, sat W == sat' W.
Hypothesis Hsp : forall p, sp p == sp' p.
Hypothesis Htb : forall p, tb p == tb' p.

Lemma mdens_ext alloc p : Qx_eq (mdens I sat alloc p) (mdens I sat' alloc p).
Proof.
  unfold mdens. destruct (Qltb 0 (cost I p)); simpl; [|exact Logic.I].
  rewrite (Hsat (alloc ++ [p])), (Hsat alloc). reflexivity.
Qed.

Lemma tied_projects_ext feas alloc :
  tied_projects I sat tb feas alloc = tied_projects I sat' tb' feas alloc.
Proof.
  unfold tied_projects. rewrite (mp_tie_order_ext tb tb') by exact Htb. f_equal.
  apply argmax_all_ext. intros x y. apply Qx_leb_proper; apply mdens_ext.
Qed.

Lemma gen_leaves_ext resolute : forall fuel feas alloc,
  gen_leaves I sat tb resolute fuel feas alloc = gen_leaves I sat' tb' resolute fuel feas alloc.
Proof.
  induction fuel as [|f IH]; intros feas alloc; destruct feas as [|p0 r]; cbn [gen_leaves]; try reflexivity.
  rewrite tied_projects_ext. f_equal. apply map_ext. intros s. apply IH.
Qed.

Theorem greedy_gen_res_ext init : greedy_gen_res I sat tb init = greedy_gen_res I sat' tb' init.
Proof. unfold greedy_gen_res. rewrite gen_leaves_ext. reflexivity. Qed.

Theorem greedy_gen_irr_ext init : greedy_gen_irr I sat tb init = greedy_gen_irr I sat' tb' init.
Proof. unfold greedy_gen_irr. rewrite gen_leaves_ext. reflexivity. Qed.

Lemma sdens_ext p : Qx_eq (sdens I sp p) (sdens I sp' p).
Proof.
  unfold sdens. rewrite (mp_Qltb_compat 0 0 (sp p) (sp' p) (Qeq_refl 0) (Hsp p)).
  destruct (Qltb 0 (sp' p)); [|simpl; reflexivity].
  destruct (Qltb 0 (cost I p)); simpl; [|exact Logic.I]. rewrite (Hsp p). reflexivity.
Qed.

Theorem greedy_add_res_ext init : greedy_add_res I sp tb init = greedy_add_res I sp' tb' init.
Proof.
  unfold greedy_add_res, add_candidates, dens_order. rewrite (mp_tie_order_ext tb tb') by exact Htb.
  f_equal. f_equal. apply mp_isort_ext. intros a b. apply Qx_leb_proper; apply sdens_ext.
Qed.

Theorem greedy_welfare_res_ext additive init :
  greedy_welfare_res I sat sp tb additive init = greedy_welfare_res I sat' sp' tb' additive init.
Proof.
  unfold greedy_welfare_res. destruct additive; [rewrite greedy_add_res_ext; reflexivity|apply greedy_gen_res_ext].
Qed.

Theorem greedy_welfare_irr_ext additive init :
  greedy_welfare_irr I sat tb additive init = greedy_welfare_irr I sat' tb' additive init.
Proof. unfold greedy_welfare_irr. apply greedy_gen_irr_ext. Qed.

End GreedyExt.

(* The greedy rule on a profile object: [s a W] is the satisfaction of a voter with ballot a for the list W
   (ANY measure, additive or not), the profile object is the list P of (ballot, multiplicity) pairs it iterates over,
   the tie-breaking key may read the profile (approval score) as long as it is itself insensitive to the expansion. *)
Section GreedyMult.
Context {A : Type}.
Variable I : inst.
Variable s : A -> list proj -> Q.
Variable tbk : list (A * nat) -> proj -> Q.

Definition gsat (P : list (A * nat)) (W : list proj) : Q := wtotal (fun a => s a W) P.
Definition gsp (P : list (A * nat)) (p : proj) : Q := wtotal (fun a => s a [p]) P.

Theorem greedy_mult P additive init :
  (forall p, tbk P p == tbk (ones (expandA P)) p) ->
  greedy_welfare_res I (gsat P) (gsp P) (tbk P) additive init
  = greedy_welfare_res I (gsat (ones (expandA P))) (gsp (ones (expandA P))) (tbk (ones (expandA P))) additive init
  /\ greedy_welfare_irr I (gsat P) (tbk P) additive init
     = greedy_welfare_irr I (gsat (ones (expandA P))) (tbk (ones (expandA P))) additive init.
Proof.
  intros Htb. split.
  - apply greedy_welfare_res_ext; [intros W; apply total_sat_mult|intros p; apply total_sat_mult|exact Htb].
  - apply greedy_welfare_irr_ext; [intros W; apply total_sat_mult|exact Htb].
Qed.

End GreedyMult.

(* ------------------------------------------------------------------------------------------------------------ *)
(* Part 3: the welfare maximiser (primal/dual knapsack)                                                         *)
(* ------------------------------------------------------------------------------------------------------------ *)
(* max_additive_utilitarian_welfare reads the profile only through sat_profile.total_satisfaction_project(p), an exact
   number in canonical form (int / mpq): [score_list] is that list, by project rank, reduced.  The lists computed from
   the classes and from the expanded voters are EQUAL (not merely ==), hence so is everything computed from them. *)
From PB Require Import Model.MaxWelfare.

Section MaxWelfareMult.
Context {A : Type}.
Variable s : A -> proj -> Q.          (* sat.sat_project(p) of a voter with ballot a *)

Definition score_list (P : list (A * nat)) (n : nat) : list Q :=
  map (fun p => Qred (wtotal (fun a => s a p) P)) (seq 0 n).

Theorem score_list_mult P n : score_list P n = score_list (ones (expandA P)) n.
Proof. unfold score_list. apply map_ext. intros p. apply Qred_complete. apply total_sat_mult. Qed.

Theorem maxwelfare_mult I P enum init :
  maxwelfare_pd I (score_list P (nproj I)) enum init
  = maxwelfare_pd I (score_list (ones (expandA P)) (nproj I)) enum init.
Proof. rewrite <- score_list_mult. reflexivity. Qed.

(* and the welfare of any allocation is the same number *)
Theorem welfare_mult P n W : welfare (score_list P n) W = welfare (score_list (ones (expandA P)) n) W.
Proof. rewrite <- score_list_mult. reflexivity. Qed.

End MaxWelfareMult.

(* ------------------------------------------------------------------------------------------------------------ *)
(* Part 6: statistics (Model/Analysis.v)                                                                        *)
(* ------------------------------------------------------------------------------------------------------------ *)
From PB Require Import Model.Analysis Spec.Stats Proofs.StatsP.

(* Stats.expandP / Analysis.expandQ ARE the generic expansion *)
Lemma expandP_is_expandA (P : prof) : Stats.expandP P = expandA P.
Proof. reflexivity. Qed.
Lemma expandQ_is_expandA (S : sats) : expandQ S = expandA S.
Proof. reflexivity. Qed.

Lemma expandQ_ones l : expandQ (ones l) = l.
Proof. apply expandQ_plain. Qed.
Lemma expandP_ones (V : list bal) : Stats.expandP (ones V) = V.
Proof. apply (expandA_ones V). Qed.

Definition opt_Qeq (a b : option Q) : Prop :=
  match a, b with
  | Some x, Some y => x == y
  | None, None => True
  | _, _ => False
  end.

Theorem mean_generator_mult l : mean_generator l == mean_generator (ones (expandQ l)).
Proof. rewrite !mean_mult, expandQ_ones. reflexivity. Qed.

Theorem avg_satisfaction_mult (S : sats) : avg_satisfaction S == avg_satisfaction (ones (expandQ S)).
Proof. apply mean_generator_mult. Qed.

Theorem gini_mult (S : sats) inv : gini_of_satisfaction S inv = gini_of_satisfaction (ones (expandQ S)) inv.
Proof. unfold gini_of_satisfaction. rewrite expandQ_ones. reflexivity. Qed.

Lemma sat_total_ones l : sat_total (ones l) = length l.
Proof. induction l as [|x r IH]; [reflexivity|]. unfold ones in *. simpl. rewrite IH. reflexivity. Qed.

Theorem percent_positive_mult (S : sats) :
  opt_Qeq (percent_positive_satisfaction S) (percent_positive_satisfaction (ones (expandQ S))).
Proof.
  destruct (percent_positive_satisfaction S) as [x|] eqn:E1;
    destruct (percent_positive_satisfaction (ones (expandQ S))) as [y|] eqn:E2; simpl.
  - rewrite (percent_positive_spec _ _ E1), (percent_positive_spec _ _ E2), expandQ_ones. reflexivity.
  - apply percent_positive_domain in E2. rewrite sat_total_ones, <- sat_total_expand in E2.
    apply percent_positive_domain in E2. congruence.
  - apply percent_positive_domain in E1. rewrite sat_total_expand, <- sat_total_ones in E1.
    apply percent_positive_domain in E1. congruence.
  - exact Logic.I.
Qed.

Theorem avg_ballot_length_mult (P : prof) : avg_ballot_length P == avg_ballot_length (ones (Stats.expandP P)).
Proof. rewrite !avg_ballot_length_spec, expandP_ones. reflexivity. Qed.

Theorem avg_ballot_cost_mult I (P : prof) : avg_ballot_cost I P == avg_ballot_cost I (ones (Stats.expandP P)).
Proof. rewrite !avg_ballot_cost_spec, expandP_ones. reflexivity. Qed.

Theorem median_ballot_length_mult (P : prof) : median_ballot_length P = median_ballot_length (ones (Stats.expandP P)).
Proof.
  unfold median_ballot_length. rewrite !num_ballots_expand, !expandQ_pstream, expandP_ones. reflexivity.
Qed.

Theorem median_ballot_cost_mult I (P : prof) :
  median_ballot_cost I P = median_ballot_cost I (ones (Stats.expandP P)).
Proof.
  unfold median_ballot_cost. rewrite !num_ballots_expand, !expandQ_pstream, expandP_ones. reflexivity.
Qed.

Theorem approval_score_mult (P : prof) p : approval_score P p == approval_score (ones (Stats.expandP P)) p.
Proof. rewrite !approval_score_spec, expandP_ones. reflexivity. Qed.

Theorem total_score_mult (P : prof) p : total_score P p == total_score (ones (Stats.expandP P)) p.
Proof. rewrite !total_score_spec, expandP_ones. reflexivity. Qed.

Theorem avg_approval_score_mult I (P : prof) :
  avg_approval_score I P == avg_approval_score I (ones (Stats.expandP P)).
Proof. rewrite !avg_approval_score_spec, expandP_ones. reflexivity. Qed.

Theorem avg_total_score_mult I (P : prof) :
  avg_total_score I P == avg_total_score I (ones (Stats.expandP P)).
Proof. rewrite !avg_total_score_spec, expandP_ones. reflexivity. Qed.

(* the median of a vector is insensitive to replacing its entries by == ones *)
Lemma insert_Qeq x x' l l' : x == x' -> Forall2 Qeq l l' -> Forall2 Qeq (insert Qleb x l) (insert Qleb x' l').
Proof.
  intros Hx H. induction H as [|y y' t t' Hy Ht IH]; simpl; [constructor; [exact Hx|constructor]|].
  rewrite (mp_Qleb_compat x x' y y' Hx Hy). destruct (Qleb x' y').
  - constructor; [exact Hx|]. constructor; assumption.
  - constructor; [exact Hy|exact IH].
Qed.

Lemma isort_Qeq l l' : Forall2 Qeq l l' -> Forall2 Qeq (isort Qleb l) (isort Qleb l').
Proof.
  intros H. induction H as [|x x' t t' Hx Ht IH]; simpl; [constructor|]. apply insert_Qeq; assumption.
Qed.

Lemma nth_Qeq l l' : Forall2 Qeq l l' -> forall k, nth k l 0 == nth k l' 0.
Proof.
  intros H. induction H as [|x x' t t' Hx Ht IH]; intros [|k]; simpl; try reflexivity; [exact Hx|apply IH].
Qed.

Lemma Forall2_length_Q l l' : Forall2 Qeq l l' -> length l = length l'.
Proof. intros H. induction H; simpl; congruence. Qed.

Lemma median_Qeq l l' : Forall2 Qeq l l' -> median l == median l'.
Proof.
  intros H. unfold median. rewrite <- (Forall2_length_Q _ _ H).
  pose proof (nth_Qeq _ _ (isort_Qeq _ _ H)) as Hn.
  destruct (Nat.even (length l)); [rewrite !Hn; reflexivity|apply Hn].
Qed.

Lemma Forall2_map_Qeq {A} (f g : A -> Q) l : (forall x, f x == g x) -> Forall2 Qeq (map f l) (map g l).
Proof. intros H. induction l; simpl; constructor; [apply H|assumption]. Qed.

Theorem median_approval_score_mult I (P : prof) :
  median_approval_score I P == median_approval_score I (ones (Stats.expandP P)).
Proof.
  unfold median_approval_score. destruct (Nat.eqb (nproj I) 0); [reflexivity|].
  apply median_Qeq. apply Forall2_map_Qeq. intros p. apply approval_score_mult.
Qed.

Theorem median_total_score_mult I (P : prof) :
  median_total_score I P == median_total_score I (ones (Stats.expandP P)).
Proof.
  unfold median_total_score. destruct (Nat.eqb (nproj I) 0); [reflexivity|].
  apply median_Qeq. apply Forall2_map_Qeq. intros p. apply total_score_mult.
Qed.

Theorem category_msd_mult I pcats ncat (P : prof) W t t' :
  category_msd I pcats ncat P W = CatMsd t ->
  category_msd I pcats ncat (ones (Stats.expandP P)) W = CatMsd t' -> t == t'.
Proof.
  intros H1 H2. rewrite (category_msd_spec _ _ _ _ _ _ H1), (category_msd_spec _ _ _ _ _ _ H2), expandP_ones.
  reflexivity.
Qed.

(* votes_count_by_project / voter_flow_matrix: RECORDED FINDING -- the statement is false of the faithful model *)
Theorem votes_count_mult_refuted :
  exists (P : prof) p, ~ votes_count P p == votes_count (ones (Stats.expandP P)) p.
Proof.
  exists [([(0%nat, 1)], 2%nat)], 0%nat. vm_compute. discriminate.
Qed.

Theorem voter_flow_mult_refuted :
  exists (P : prof) a b, ~ voter_flow P a b == voter_flow (ones (Stats.expandP P)) a b.
Proof.
  exists [([(0%nat, 1); (1%nat, 1)], 2%nat)], 0%nat, 1%nat. vm_compute. discriminate.
Qed.

(* they agree when no ballot is repeated *)
Theorem votes_count_mult_partial (P : prof) p : (forall c, In c P -> snd c = 1%nat) ->
  votes_count P p == votes_count (ones (Stats.expandP P)) p.
Proof.
  intros H. rewrite (votes_count_partial P p H).
  rewrite (votes_count_partial (ones (Stats.expandP P)) p), expandP_ones; [reflexivity|].
  intros c Hc. apply in_map_iff in Hc. destruct Hc as [b [<- _]]. reflexivity.
Qed.

Theorem voter_flow_mult_partial (P : prof) a b : (forall c, In c P -> snd c = 1%nat) ->
  voter_flow P a b == voter_flow (ones (Stats.expandP P)) a b.
Proof.
  intros H. rewrite (voter_flow_partial P a b H).
  rewrite (voter_flow_partial (ones (Stats.expandP P)) a b), expandP_ones; [reflexivity|].
  intros c Hc. apply in_map_iff in Hc. destruct Hc as [x [<- _]]. reflexivity.
Qed.

(* ------------------------------------------------------------------------------------------------------------ *)
(* Part 7: satisfaction measures (Model/Satisfaction.v)                                                         *)
(* ------------------------------------------------------------------------------------------------------------ *)
From PB Require Import Model.Satisfaction Spec.SatSpec Proofs.SatisfactionP.

(* Effort_Sat's denominator: sum of the multiplicities of the ballots containing p = number of voters approving p,
   the same number on the classes and on the expanded list profile *)
Theorem effort_denominator_mult (P : profile) p :
  Satisfaction.supporters P p = Satisfaction.supporters (ones (SatSpec.expandP P)) p.
Proof.
  rewrite !supporters_voters. unfold voters.
  change (SatSpec.expandP (ones (SatSpec.expandP P))) with (expandA (ones (SatSpec.expandP P))).
  rewrite expandA_ones. reflexivity.
Qed.

Theorem effort_p_mult I (P : profile) b p : effort_p I P b p = effort_p I (ones (SatSpec.expandP P)) b p.
Proof. unfold effort_p. rewrite <- effort_denominator_mult. reflexivity. Qed.

(* every shipped measure, per voter: sat_project and sat of a voter with ballot b are the same numbers whether the
   measure object was built on the classes or on the expanded list profile *)
Theorem sat_project_mult m I (P : profile) b x p :
  sat_project m (mkEnv I P b x) p = sat_project m (mkEnv I (ones (SatSpec.expandP P)) b x) p.
Proof. destruct m; simpl; try reflexivity. apply effort_p_mult. Qed.

Theorem sat_mult m I (P : profile) b x W :
  sat m (mkEnv I P b x) W = sat m (mkEnv I (ones (SatSpec.expandP P)) b x) W.
Proof.
  destruct m; simpl; try reflexivity.
  unfold sat_add. f_equal. apply map_ext. intros p. apply effort_p_mult.
Qed.

(* all measures but Effort_Sat do not read the profile at all *)
Theorem sat_reads_ballot_only m I (P P' : profile) b x W :
  m <> Effort -> sat m (mkEnv I P b x) W = sat m (mkEnv I P' b x) W.
Proof. intros H. destruct m; simpl; try reflexivity. congruence. Qed.

(* hence the total satisfaction (what the rules read) of the classes = of the voters, for every measure *)
Theorem total_satisfaction_mult m I (P : profile) (xs : ballot -> list bool) W :
  wtotal (fun b => sat m (mkEnv I P b (xs b)) W) P
  == wtotal (fun b => sat m (mkEnv I (ones (SatSpec.expandP P)) b (xs b)) W) (ones (SatSpec.expandP P)).
Proof.
  rewrite (total_sat_mult _ P). change (expandA P) with (SatSpec.expandP P).
  unfold wtotal. apply mp_Qsum_map_ext. intros c _. rewrite <- sat_mult. reflexivity.
Qed.

(* ------------------------------------------------------------------------------------------------------------ *)
(* Part 5: Equal Shares (Model/MesRule.v) -- the multiplicity-weighted sums of the model                        *)
(* ------------------------------------------------------------------------------------------------------------ *)
From PB Require Import Model.MesRule.

Lemma mp_filter_map {A B} (p : B -> bool) (h : A -> B) l :
  filter p (map h l) = map h (filter (fun x => p (h x)) l).
Proof. induction l as [|a r IH]; simpl; [reflexivity|]. destruct (p (h a)); simpl; rewrite IH; reflexivity. Qed.

(* a sum over the indices of the entries satisfying f = the sum over those entries *)
Lemma idx_sum {A} (d : A) (f : A -> bool) (g : A -> Q) (P : list A) :
  Qsum (map (fun i => g (nth i P d)) (filter (fun i => f (nth i P d)) (seq 0 (length P))))
  = Qsum (map g (filter f P)).
Proof.
  induction P as [|a P IH]; [reflexivity|].
  cbn [length]. rewrite <- cons_seq, <- seq_shift. cbn [filter nth].
  rewrite (mp_filter_map (fun i => f (nth i (a :: P) d)) S).
  cbn [nth]. destruct (f a); cbn [map Qsum nth]; rewrite map_map; cbn [nth]; rewrite IH; reflexivity.
Qed.

Lemma nvoters_app (P1 P2 : list vcls) : nvoters (P1 ++ P2) = (nvoters P1 + nvoters P2)%nat.
Proof. induction P1 as [|v P1 IH]; [reflexivity|]. simpl. fold (nvoters (P1 ++ P2)). fold (nvoters P1). rewrite IH. lia. Qed.

Lemma nvoters_repeat1 u k : nvoters (repeat (mkV u 1) k) = k.
Proof. induction k as [|k IH]; [reflexivity|]. simpl. fold (nvoters (repeat (mkV u 1) k)). rewrite IH. reflexivity. Qed.

Lemma nvoters_expand P : nvoters (expand P) = nvoters P.
Proof.
  induction P as [|v P IH]; [reflexivity|].
  unfold expand. cbn [flat_map]. fold (expand P). rewrite nvoters_app, nvoters_repeat1, IH. reflexivity.
Qed.

(* every voter copy starts with the same money: budget / number of VOTERS *)
Theorem mes_share_mult x :
  share x = share (mkIn (mi_costs x) (mi_budget x) (expand (mi_voters x)) (mi_tb x) (mi_enum x) (mi_bin x) (mi_init x)).
Proof. unfold share. cbn [mi_budget mi_voters]. rewrite nvoters_expand. reflexivity. Qed.

(* total utility of a project over its supporters, as the model computes it (indices into the voter list) *)
Definition mes_tsat (P : list vcls) (p : proj) : Q := MesRule.total_sat P p (MesRule.supporters P p).

Lemma mes_tsat_form P p :
  mes_tsat P p = Qsum (map (fun v => Qnat (vmul v) * util v p) (filter (fun v => Qltb 0 (util v p)) P)).
Proof.
  unfold mes_tsat, MesRule.total_sat, MesRule.supporters, vmulQ, vutil.
  apply (idx_sum dummy_voter (fun v => Qltb 0 (util v p)) (fun v => Qnat (vmul v) * util v p) P).
Qed.

Lemma filter_repeat_all {A} (f : A -> bool) a k : f a = true -> filter f (repeat a k) = repeat a k.
Proof. intros H. induction k; simpl; [reflexivity|]. rewrite H. f_equal. assumption. Qed.
Lemma filter_repeat_none {A} (f : A -> bool) a k : f a = false -> filter f (repeat a k) = [].
Proof. intros H. induction k; simpl; [reflexivity|]. rewrite H. assumption. Qed.

Theorem mes_total_sat_mult P p : mes_tsat (expand P) p == mes_tsat P p.
Proof.
  rewrite !mes_tsat_form. induction P as [|v P IH]; [reflexivity|].
  unfold expand. cbn [flat_map]. fold (expand P). rewrite filter_app, map_app, Qsum_app, IH. cbn [filter].
  change (util (mkV (vu v) 1) p) with (util v p) in *.
  destruct (Qltb 0 (util v p)) eqn:E.
  - rewrite filter_repeat_all by exact E. rewrite mp_map_repeat, mp_Qsum_repeat. cbn [map Qsum vmul].
    change (util (mkV (vu v) 1) p) with (util v p). rewrite mp_Qnat_1. ring.
  - rewrite filter_repeat_none by exact E. cbn [map Qsum]. ring.
Qed.

(* money per copy: a class's budget is the budget of each of its copies *)
Definition expand_buds (P : list vcls) (buds : list Q) : list Q :=
  flat_map (fun vb => repeat (snd vb) (vmul (fst vb))) (combine P buds).

(* available_budget of a project whose supporter list is the model's [supporters] *)
Definition mes_avail (P : list vcls) (buds : list Q) (p : proj) : Q :=
  Qsum (map (fun i => vmulQ P i * vbud buds i) (MesRule.supporters P p)).

Lemma mes_avail_is_avail P buds mp : mp_sup mp = MesRule.supporters P (mp_id mp) ->
  avail P buds mp = mes_avail P buds (mp_id mp).
Proof. intros H. unfold avail, mes_avail. rewrite H. reflexivity. Qed.

Lemma mes_avail_form P buds p : length P = length buds ->
  mes_avail P buds p
  = Qsum (map (fun vb => Qnat (vmul (fst vb)) * snd vb) (filter (fun vb => Qltb 0 (util (fst vb) p)) (combine P buds))).
Proof.
  intros HL. unfold mes_avail, MesRule.supporters, vmulQ, vutil, vbud.
  rewrite <- (idx_sum (dummy_voter, 0) (fun vb => Qltb 0 (util (fst vb) p)) (fun vb => Qnat (vmul (fst vb)) * snd vb)).
  rewrite combine_length, <- HL, Nat.min_id.
  assert (E : forall i, nth i (combine P buds) (dummy_voter, 0) = (nth i P dummy_voter, nth i buds 0))
    by (intros i; apply combine_nth; exact HL).
  f_equal.
  rewrite (filter_ext (fun i => Qltb 0 (util (fst (nth i (combine P buds) (dummy_voter, 0))) p))
                      (fun i => Qltb 0 (util (nth i P dummy_voter) p))) by (intros i; rewrite E; reflexivity).
  apply map_ext. intros i. rewrite E. reflexivity.
Qed.

Lemma combine_expand P : forall buds, length P = length buds ->
  combine (expand P) (expand_buds P buds)
  = flat_map (fun vb => repeat (mkV (vu (fst vb)) 1, snd vb) (vmul (fst vb))) (combine P buds).
Proof.
  induction P as [|v P IH]; intros [|b buds] HL; try discriminate; [reflexivity|].
  unfold expand, expand_buds. cbn [flat_map combine fst snd]. fold (expand P). fold (expand_buds P buds).
  rewrite <- (IH buds) by (simpl in HL; congruence).
  generalize (vmul v) as k. induction k as [|k IHk]; [reflexivity|]. cbn [repeat app combine]. f_equal. exact IHk.
Qed.

Lemma expand_buds_length P : forall buds, length P = length buds -> length (expand P) = length (expand_buds P buds).
Proof.
  induction P as [|v P IH]; intros [|b buds] HL; try discriminate; [reflexivity|].
  unfold expand, expand_buds. cbn [flat_map combine fst snd]. fold (expand P). fold (expand_buds P buds).
  rewrite !app_length, !repeat_length. f_equal. apply IH. simpl in HL. congruence.
Qed.

Theorem mes_avail_mult P buds p : length P = length buds ->
  mes_avail (expand P) (expand_buds P buds) p == mes_avail P buds p.
Proof.
  intros HL. rewrite (mes_avail_form P buds p HL), (mes_avail_form _ _ p (expand_buds_length P buds HL)).
  rewrite (combine_expand P buds HL). generalize (combine P buds) as L. clear.
  induction L as [|[v b] L IH]; [reflexivity|].
  cbn [flat_map fst snd]. rewrite filter_app, map_app, Qsum_app, IH. cbn [filter fst snd].
  change (util (mkV (vu v) 1) p) with (util v p).
  destruct (Qltb 0 (util v p)) eqn:E.
  - rewrite filter_repeat_all by (cbn [fst]; exact E). rewrite mp_map_repeat, mp_Qsum_repeat. cbn [map Qsum fst snd vmul].
    rewrite mp_Qnat_1. ring.
  - rewrite filter_repeat_none by (cbn [fst]; exact E). cbn [map Qsum]. ring.
Qed.

(* ------------------------------------------------------------------------------------------------------------ *)
(* Part 4: the comparisons (Model/Composition.v)                                                                *)
(* ------------------------------------------------------------------------------------------------------------ *)
From PB Require Import Model.Composition.

(* the same outcomes as seen by the expanded (list) satisfaction profile: every class's satisfaction repeated *)
Definition xvsat (mults : list nat) (vsat : list Q) : list Q :=
  flat_map (fun sm => repeat (fst sm) (snd sm)) (combine vsat mults).
Definition xout (mults : list nat) (o : outcome) : outcome :=
  Composition.mkOut (Composition.o_alloc o) (xvsat mults (o_vsat o)).
Definition xmults (mults : list nat) : list nat := flat_map (fun m => repeat 1%nat m) mults.

Lemma total_of_repeat s m : forall A B,
  total_of (repeat s m ++ A) (repeat 1%nat m ++ B) == Qnat m * s + total_of A B.
Proof.
  induction m as [|m IH]; intros A B.
  - cbn [repeat app]. change (Qnat 0) with 0. ring.
  - cbn [repeat app total_of]. rewrite IH, (mp_Qnat_S m), mp_Qnat_1. ring.
Qed.

Lemma total_of_x : forall vsat mults, total_of (xvsat mults vsat) (xmults mults) == total_of vsat mults.
Proof.
  induction vsat as [|s r IH]; intros [|m t]; try reflexivity.
  unfold xvsat, xmults. cbn [combine flat_map fst snd]. fold (xvsat t r). fold (xmults t).
  rewrite total_of_repeat, IH. cbn [total_of]. ring.
Qed.

Lemma total_x mults o : total (xmults mults) (xout mults o) == total mults o.
Proof. unfold total, xout. cbn [o_vsat]. apply total_of_x. Qed.

Lemma same_alloc_x mults o o' : same_alloc (xout mults o) (xout mults o') = same_alloc o o'.
Proof. reflexivity. Qed.

Lemma dedup_acc_x mults : forall outs seen,
  dedup_acc (map (xout mults) seen) (map (xout mults) outs) = map (xout mults) (dedup_acc seen outs).
Proof.
  induction outs as [|o r IH]; intros seen; [reflexivity|]. cbn [map dedup_acc].
  assert (E : existsb (same_alloc (xout mults o)) (map (xout mults) seen) = existsb (same_alloc o) seen).
  { induction seen as [|z zs IHz]; [reflexivity|]. cbn [map existsb]. rewrite same_alloc_x, IHz. reflexivity. }
  rewrite E. destruct (existsb (same_alloc o) seen); [apply IH|].
  rewrite <- IH, map_app. reflexivity.
Qed.

Lemma results_x mults outs : results (map (xout mults) outs) = map (xout mults) (results outs).
Proof. unfold results. apply (dedup_acc_x mults outs []). Qed.

Lemma argmax_scan_map {A B V} (leb : V -> V -> bool) (f : B -> V) (h : A -> B) : forall l b acc,
  argmax_scan leb f (map h l) b (map h acc) = map h (argmax_scan leb (fun a => f (h a)) l b acc).
Proof.
  induction l as [|x r IH]; intros b acc; [reflexivity|]. cbn [map argmax_scan].
  destruct b as [b|].
  - destruct (negb (leb (f (h x)) b)); [apply (IH _ [x])|].
    destruct (leb b (f (h x))); [|apply IH]. rewrite <- IH, map_app. reflexivity.
  - apply (IH _ [x]).
Qed.

Lemma argmax_all_map {A B V} (leb : V -> V -> bool) (f : B -> V) (h : A -> B) l :
  argmax_all leb f (map h l) = map h (argmax_all leb (fun a => f (h a)) l).
Proof. unfold argmax_all. apply (argmax_scan_map leb f h l None []). Qed.

(* social_welfare_comparison: the winners on the classes are the winners on the expanded voters *)
Theorem swc_mult mults outs :
  swc (xmults mults) (map (xout mults) outs) = map (xout mults) (swc mults outs).
Proof.
  unfold swc. rewrite results_x, argmax_all_map. f_equal.
  apply argmax_all_ext. intros x y. apply mp_Qleb_compat; apply total_x.
Qed.

Corollary swc_mult_allocs mults outs :
  map Composition.o_alloc (swc (xmults mults) (map (xout mults) outs)) = map Composition.o_alloc (swc mults outs).
Proof. rewrite swc_mult, map_map. reflexivity. Qed.

(* popularity_comparison: every class supports, with its multiplicity, the outcomes its copies support *)
Fixpoint presum (j : nat) (mults : list nat) : nat :=
  match j, mults with
  | S j', m :: t => (m + presum j' t)%nat
  | _, _ => O
  end.

Lemma nth_repeat_lt {A} (a d : A) m i : (i < m)%nat -> nth i (repeat a m) d = a.
Proof. revert i. induction m as [|m IH]; intros [|i] H; simpl; try lia; [reflexivity|apply IH; lia]. Qed.

Lemma nth_xvsat : forall mults vsat j i, (j < length mults)%nat -> (i < nth j mults 0)%nat ->
  nth (presum j mults + i) (xvsat mults vsat) 0 = nth j vsat 0.
Proof.
  induction mults as [|m t IH]; intros vsat j i Hj Hi; [simpl in Hj; lia|].
  destruct vsat as [|s r].
  - unfold xvsat. cbn [combine flat_map]. destruct (presum j (m :: t) + i)%nat; destruct j; reflexivity.
  - unfold xvsat. cbn [combine flat_map fst snd]. fold (xvsat t r). destruct j as [|j].
    + cbn [presum nth] in *. rewrite app_nth1 by (rewrite repeat_length; exact Hi). apply nth_repeat_lt. exact Hi.
    + cbn [presum nth] in *. rewrite <- Nat.add_assoc.
      rewrite <- (repeat_length s m) at 1. rewrite app_nth2_plus. apply IH; [simpl in Hj; lia|exact Hi].
Qed.

Lemma existsb_same_alloc_x mults o T :
  existsb (same_alloc (xout mults o)) (map (xout mults) T) = existsb (same_alloc o) T.
Proof. induction T as [|z zs IH]; [reflexivity|]. cbn [map existsb]. rewrite same_alloc_x, IH. reflexivity. Qed.

Lemma tops_x mults res j i : (j < length mults)%nat -> (i < nth j mults 0)%nat ->
  tops (map (xout mults) res) (presum j mults + i) = map (xout mults) (tops res j).
Proof.
  intros Hj Hi. unfold tops. rewrite argmax_all_map. f_equal.
  apply argmax_all_ext. intros a b. unfold vs, xout. cbn [o_vsat].
  rewrite !(nth_xvsat mults _ j i Hj Hi). reflexivity.
Qed.

Lemma support_block res' o' c m : forall j' B,
  (forall i, (i < m)%nat -> existsb (same_alloc o') (tops res' (j' + i)) = c) ->
  support_from res' o' j' (repeat 1%nat m ++ B) = ((if c then m else O) + support_from res' o' (j' + m) B)%nat.
Proof.
  induction m as [|m IH]; intros j' B H.
  - cbn [repeat app]. rewrite Nat.add_0_r. destruct c; reflexivity.
  - cbn [repeat app support_from].
    assert (H0 := H O (Nat.lt_0_succ m)). rewrite Nat.add_0_r in H0. rewrite H0.
    rewrite (IH (S j') B).
    + replace (S j' + m)%nat with (j' + S m)%nat by lia. destruct c; lia.
    + intros i Hi. replace (S j' + i)%nat with (j' + S i)%nat by lia. apply H. lia.
Qed.

Lemma skipn_cons_inv {A} (d : A) : forall j (l : list A) x t, skipn j l = x :: t ->
  (j < length l)%nat /\ nth j l d = x /\ skipn (S j) l = t.
Proof.
  induction j as [|j IH]; intros l x t H.
  - simpl in H. subst l. simpl. repeat split. lia.
  - destruct l as [|y l]; [discriminate|]. simpl in H. destruct (IH l x t H) as [H1 [H2 H3]].
    repeat split; [simpl; lia|exact H2|exact H3].
Qed.

Lemma presum_S : forall mults j, (j < length mults)%nat -> presum (S j) mults = (presum j mults + nth j mults 0)%nat.
Proof.
  induction mults as [|m t IH]; intros j Hj; [simpl in Hj; lia|].
  destruct j as [|j]; [cbn [presum nth]; destruct t; simpl; lia|].
  change (presum (S (S j)) (m :: t)) with (m + presum (S j) t)%nat.
  rewrite (IH j) by (simpl in Hj; lia). cbn [presum nth]. lia.
Qed.

Lemma support_from_x mults res o : forall t j, skipn j mults = t ->
  support_from (map (xout mults) res) (xout mults o) (presum j mults) (xmults t) = support_from res o j t.
Proof.
  induction t as [|m t IH]; intros j Hs; [reflexivity|].
  destruct (skipn_cons_inv O j mults m t Hs) as [Hj [Hm Ht]].
  unfold xmults. cbn [flat_map]. fold (xmults t).
  rewrite (support_block _ _ (existsb (same_alloc o) (tops res j)) m).
  - cbn [support_from]. f_equal. rewrite <- (IH (S j) Ht). rewrite (presum_S mults j Hj), Hm. reflexivity.
  - intros i Hi. rewrite (tops_x mults res j i Hj) by (rewrite Hm; exact Hi). apply existsb_same_alloc_x.
Qed.

Lemma support_x mults res o :
  support (map (xout mults) res) (xmults mults) (xout mults o) = support res mults o.
Proof. unfold support. apply (support_from_x mults res o mults O). reflexivity. Qed.

Theorem popularity_mult mults outs :
  popularity (xmults mults) (map (xout mults) outs) = map (xout mults) (popularity mults outs).
Proof.
  unfold popularity. rewrite results_x. set (res := results outs).
  rewrite map_map.
  rewrite (map_ext (fun o => support (map (xout mults) res) (xmults mults) (xout mults o)) (support res mults))
    by (intros o; apply support_x).
  rewrite mp_filter_map. f_equal. apply filter_ext. intros o. rewrite support_x. reflexivity.
Qed.

Corollary popularity_mult_allocs mults outs :
  map Composition.o_alloc (popularity (xmults mults) (map (xout mults) outs))
  = map Composition.o_alloc (popularity mults outs).
Proof. rewrite popularity_mult, map_map. reflexivity. Qed.
