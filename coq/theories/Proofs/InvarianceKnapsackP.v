(* Proofs/InvarianceKnapsackP.v -- C13 for the welfare maximiser (Model/MaxWelfare.v, PRIMAL_DUAL scheme):
   the WELFARE ATTAINED is a function of the election alone.  The selected set may differ between optimal
   solutions (it does, between iteration orders of the instance); its total satisfaction may not.  Everything
   follows from optimality on both sides (Proofs/MaxWelfareP.v, [maxwelfare_pd_optimal_lemma]). *)
From PB Require Import Model.MaxWelfare Proofs.MaxWelfareP Proofs.InvarianceP.
Open Scope Q_scope.

Section KnapsackSim.
Variables (k j : Q) (I I' : inst) (score score' : list Q) (enum enum' init : list proj).
Hypothesis Hk : 0 < k.
Hypothesis Hj : 0 < j.
(* the second presentation: costs and budget times k, per-project total satisfactions times j, the set of
   projects iterated in another order *)
Hypothesis Hcost : forall p, cost I' p == k * cost I p.
Hypothesis Hbud : budget I' == k * budget I.
Hypothesis Hn : nproj I' = nproj I.
Hypothesis Hscore : forall p, nth p score' 0 == j * nth p score 0.
(* both are well-formed elections *)
Hypothesis Hc : Forall (fun c => 0 <= c) (costs I).
Hypothesis Hc' : Forall (fun c => 0 <= c) (costs I').
Hypothesis Hs : Forall (fun s => 0 <= s) score.
Hypothesis Hs' : Forall (fun s => 0 <= s) score'.
Hypothesis He_nd : NoDup enum.
Hypothesis He'_nd : NoDup enum'.
Hypothesis He : forall p, In p enum <-> (p < nproj I)%nat.
Hypothesis He' : forall p, In p enum' <-> (p < nproj I')%nat.
Hypothesis Hi_nd : NoDup init.
Hypothesis Hi : incl init enum.
Hypothesis Hi_feas : tcost I init <= budget I.

Lemma ks_tcost W : tcost I' W == k * tcost I W.
Proof. unfold tcost. induction W as [|p W IH]; simpl; [ring|]. rewrite IH, Hcost. ring. Qed.

Lemma ks_welfare W : welfare score' W == j * welfare score W.
Proof. unfold welfare. induction W as [|p W IH]; simpl; [ring|]. rewrite IH, Hscore. ring. Qed.

Lemma ks_feasible W : feasible I W <-> feasible I' W.
Proof.
  unfold feasible. rewrite Hn, ks_tcost, Hbud. split; intros [H1 [H2 H3]]; (split; [exact H1|split; [exact H2|]]).
  - apply Qmult_le_l; assumption.
  - apply Qmult_le_l in H3; assumption.
Qed.

Theorem knapsack_welfare_sim :
  exists res res', maxwelfare_pd I score enum init = Some res /\ maxwelfare_pd I' score' enum' init = Some res' /\
    welfare score' res' == j * welfare score res.
Proof.
  destruct (maxwelfare_pd_optimal_lemma I score enum init Hc Hs He_nd He Hi_nd Hi Hi_feas)
    as (res & E & Hf & Hinc & Hopt).
  assert (Hi' : incl init enum').
  { intros p Hp. apply He'. rewrite Hn. apply He. apply Hi. exact Hp. }
  assert (Hi_feas' : tcost I' init <= budget I').
  { rewrite ks_tcost, Hbud. apply Qmult_le_l; assumption. }
  destruct (maxwelfare_pd_optimal_lemma I' score' enum' init Hc' Hs' He'_nd He' Hi_nd Hi' Hi_feas')
    as (res' & E' & Hf' & Hinc' & Hopt').
  exists res, res'. split; [exact E|]. split; [exact E'|].
  apply Qle_antisym.
  - (* res' is feasible for the first presentation *)
    rewrite ks_welfare. apply Qmult_le_l; [exact Hj|]. apply Hopt; [apply ks_feasible; exact Hf'|exact Hinc'].
  - rewrite <- ks_welfare. apply Hopt'; [apply ks_feasible; exact Hf|exact Hinc].
Qed.
End KnapsackSim.

(* iteration order of the instance (hash seed, insertion order): same optimum *)
Theorem knapsack_enum_indep I score e1 e2 init :
  Forall (fun c => 0 <= c) (costs I) -> Forall (fun s => 0 <= s) score ->
  NoDup e1 -> NoDup e2 -> (forall p, In p e1 <-> (p < nproj I)%nat) -> (forall p, In p e2 <-> (p < nproj I)%nat) ->
  NoDup init -> incl init e1 -> tcost I init <= budget I ->
  exists r1 r2, maxwelfare_pd I score e1 init = Some r1 /\ maxwelfare_pd I score e2 init = Some r2 /\
    welfare score r2 == welfare score r1.
Proof.
  intros Hc Hs H1 H2 He1 He2 Hind Hinc Hfe.
  destruct (knapsack_welfare_sim 1 1 I I score score e1 e2 init) as (r1 & r2 & E1 & E2 & Hw);
    try assumption; try reflexivity; try (intros; ring).
  exists r1, r2. split; [exact E1|]. split; [exact E2|]. rewrite Hw. ring.
Qed.

(* voters listed in another order: the per-project totals are sums over the voters, hence == *)
Theorem knapsack_perm_voters I score score' enum init :
  (forall p, nth p score' 0 == nth p score 0) ->
  Forall (fun c => 0 <= c) (costs I) -> Forall (fun s => 0 <= s) score -> Forall (fun s => 0 <= s) score' ->
  NoDup enum -> (forall p, In p enum <-> (p < nproj I)%nat) ->
  NoDup init -> incl init enum -> tcost I init <= budget I ->
  exists r1 r2, maxwelfare_pd I score enum init = Some r1 /\ maxwelfare_pd I score' enum init = Some r2 /\
    welfare score' r2 == welfare score r1.
Proof.
  intros Hsc Hc Hs Hs' H1 He Hind Hinc Hfe.
  destruct (knapsack_welfare_sim 1 1 I I score score' enum enum init) as (r1 & r2 & E1 & E2 & Hw);
    try assumption; try reflexivity; try (intros; ring).
  - intros p. rewrite Hsc. ring.
  - exists r1, r2. split; [exact E1|]. split; [exact E2|]. rewrite Hw. ring.
Qed.

Lemma Forall_scale m l : 0 <= m -> Forall (fun c => 0 <= c) l -> Forall (fun c => 0 <= c) (map (Qmult m) l).
Proof.
  intros Hm H. induction H as [|x l Hx _ IH]; simpl; constructor; [|exact IH].
  apply Qmult_le_0_compat; assumption.
Qed.

Lemma nth_scale m l p : nth p (map (Qmult m) l) 0 == m * nth p l 0.
Proof.
  destruct (Nat.lt_ge_cases p (length l)) as [H|H].
  - rewrite (nth_indep (map (Qmult m) l) 0 (m * 0)) by (rewrite map_length; exact H).
    rewrite (map_nth (Qmult m)). reflexivity.
  - rewrite !nth_overflow by (try rewrite map_length; exact H). ring.
Qed.

(* costs and budget times k, satisfactions times j (j = k: Cost_Sat, Effort_Sat; j = 1: Cardinality_Sat, ...):
   the optimum welfare is multiplied by j *)
Theorem knapsack_scale k j I score enum init : 0 < k -> 0 < j ->
  Forall (fun c => 0 <= c) (costs I) -> Forall (fun s => 0 <= s) score ->
  NoDup enum -> (forall p, In p enum <-> (p < nproj I)%nat) ->
  NoDup init -> incl init enum -> tcost I init <= budget I ->
  exists r1 r2, maxwelfare_pd I score enum init = Some r1 /\
    maxwelfare_pd (scale_inst k I) (map (Qmult j) score) enum init = Some r2 /\
    welfare (map (Qmult j) score) r2 == j * welfare score r1.
Proof.
  intros Hk Hj Hc Hs H1 He Hind Hinc Hfe.
  assert (Hn : nproj (scale_inst k I) = nproj I) by (unfold nproj, scale_inst; simpl; apply map_length).
  apply (knapsack_welfare_sim k j I (scale_inst k I) score (map (Qmult j) score) enum enum init);
    try assumption; try reflexivity.
  - intros p. apply cost_scale.
  - intros p. apply nth_scale.
  - unfold scale_inst. simpl. apply Forall_scale; [apply Qlt_le_weak; exact Hk|exact Hc].
  - apply Forall_scale; [apply Qlt_le_weak; exact Hj|exact Hs].
  - intros p. rewrite Hn. apply He.
Qed.
