(* Proofs/StatsP.v -- proofs about Model/Analysis.v vs Spec/Stats.v (property C18). *)
From PB Require Import Spec.Stats.
Open Scope Q_scope.

(* ---------- Qnat ---------- *)
Lemma Qnat_S n : Qnat (S n) == Qnat n + 1.
Proof. unfold Qnat. rewrite Nat2Z.inj_succ, <- Z.add_1_r, inject_Z_plus. reflexivity. Qed.

Lemma Qnat_0 : Qnat 0 == 0.
Proof. reflexivity. Qed.

Lemma Qnat_plus a b : Qnat (a + b) == Qnat a + Qnat b.
Proof. unfold Qnat. rewrite Nat2Z.inj_add, inject_Z_plus. reflexivity. Qed.

Lemma Qnat_nonneg n : 0 <= Qnat n.
Proof. unfold Qnat. change 0 with (inject_Z 0). rewrite <- Zle_Qle. lia. Qed.

Lemma Qnat_S_pos n : 0 < Qnat (S n).
Proof. rewrite Qnat_S. pose proof (Qnat_nonneg n). lra. Qed.

Lemma Qnat_pos n : (0 < n)%nat -> 0 < Qnat n.
Proof. destruct n; [lia|]. intros _. apply Qnat_S_pos. Qed.

Lemma Qnat_eq0 n : Qnat n == 0 -> n = 0%nat.
Proof. destruct n; [reflexivity|]. pose proof (Qnat_S_pos n). lra. Qed.

(* ---------- mean_generator ---------- *)
Lemma mean_rep_spec k : forall v n mean,
  fst (mean_rep k v n mean) = (n + k)%nat /\
  snd (mean_rep k v n mean) * Qnat (n + k) == mean * Qnat n + v * Qnat k.
Proof.
  induction k as [|k IH]; intros v n mean; simpl.
  - rewrite Nat.add_0_r. split; [reflexivity|]. rewrite Qnat_0. ring.
  - destruct (IH v (S n) (Qred (mean + (v - mean) / Qnat (S n)))) as [H1 H2].
    replace (n + S k)%nat with (S n + k)%nat by lia. split; [exact H1|].
    rewrite H2, Qred_correct. rewrite (Qnat_S k), (Qnat_S n).
    pose proof (Qnat_nonneg n). field. lra.
Qed.

Lemma mean_loop_spec l : forall n mean,
  mean_loop l n mean * Qnat (n + wcount l) == mean * Qnat n + wsum l.
Proof.
  induction l as [|[v k] r IH]; intros n mean; simpl.
  - rewrite Nat.add_0_r. unfold wsum. simpl. ring.
  - destruct (mean_rep_spec k v n mean) as [H1 H2].
    specialize (IH (fst (mean_rep k v n mean)) (snd (mean_rep k v n mean))).
    rewrite H1 in IH |- *. replace (n + (k + wcount r))%nat with (n + k + wcount r)%nat by lia.
    rewrite IH. rewrite H2. unfold wsum. simpl. ring.
Qed.

(* the incremental mean is the weighted mean: sum(v * mul) / sum(mul) *)
Theorem mean_generator_spec l : mean_generator l == wsum l / Qnat (wcount l).
Proof.
  unfold mean_generator. pose proof (mean_loop_spec l 0 0) as H. simpl in H.
  destruct (wcount l) as [|m] eqn:E.
  - (* no element at all: the loop never runs *)
    assert (Hz : forall l n mean, wcount l = 0%nat -> mean_loop l n mean = mean).
    { clear. induction l as [|[v k] r IH]; intros n mean Hc; simpl in *; [reflexivity|].
      assert (k = 0%nat) by lia. subst k. simpl. apply IH. lia. }
    rewrite (Hz l 0%nat 0 E). unfold Qdiv. change (/ Qnat 0) with 0. ring.
  - pose proof (Qnat_S_pos m). rewrite Qnat_0 in H.
    apply Qmult_inj_r with (z := Qnat (S m)); [lra|].
    rewrite H. field. lra.
Qed.

Corollary mean_generator_times l :
  mean_generator l * Qnat (wcount l) == wsum l.
Proof.
  pose proof (mean_loop_spec l 0 0) as H. simpl in H. rewrite H. rewrite Qnat_0. ring.
Qed.

Corollary mean_generator_empty l : wcount l = 0%nat -> mean_generator l == 0.
Proof.
  intros E. rewrite mean_generator_spec, E. unfold Qdiv. change (/ Qnat 0) with 0. ring.
Qed.

(* ---------- multiplicities: aggregates on (value, multiplicity) classes = aggregates on the expanded list ---------- *)
Lemma Qsum_repeat v k : Qsum (repeat v k) == v * Qnat k.
Proof.
  induction k as [|k IH]; simpl; [rewrite Qnat_0; ring|]. rewrite IH, Qnat_S. ring.
Qed.

Lemma wsum_expand l : wsum l == Qsum (expandQ l).
Proof.
  unfold wsum, expandQ. induction l as [|[v k] r IH]; simpl; [reflexivity|].
  rewrite Qsum_app, Qsum_repeat, IH. reflexivity.
Qed.

Lemma wcount_expand l : wcount l = length (expandQ l).
Proof.
  unfold expandQ. induction l as [|[v k] r IH]; simpl; [reflexivity|].
  rewrite app_length, repeat_length, IH. reflexivity.
Qed.

(* the mean over classes with multiplicities is the plain mean over the voters *)
Theorem mean_mult l : mean_generator l == mean (expandQ l).
Proof.
  rewrite mean_generator_spec. unfold mean. rewrite wsum_expand, wcount_expand. reflexivity.
Qed.

Lemma expandQ_plain l : expandQ (map (fun v => (v, 1%nat)) l) = l.
Proof. unfold expandQ. induction l as [|x r IH]; simpl; [reflexivity|]. rewrite IH. reflexivity. Qed.

Theorem mean_plain_spec l : mean_plain l == mean l.
Proof. unfold mean_plain. rewrite mean_mult, expandQ_plain. reflexivity. Qed.

Lemma Qsum_map_ext {A} (f g : A -> Q) l : (forall x, In x l -> f x == g x) -> Qsum (map f l) == Qsum (map g l).
Proof.
  induction l as [|x r IH]; intros H; simpl; [reflexivity|].
  rewrite (H x (or_introl eq_refl)), IH; [reflexivity|]. intros y Hy. apply H. right. exact Hy.
Qed.

Lemma mean_map_ext {A} (f g : A -> Q) l : (forall x, In x l -> f x == g x) -> mean (map f l) == mean (map g l).
Proof.
  intros H. unfold mean. rewrite (Qsum_map_ext f g l H), !map_length. reflexivity.
Qed.

(* profile objects *)
Lemma expandQ_pstream f P : expandQ (pstream f P) = map f (expandP P).
Proof.
  unfold expandQ, pstream, expandP. induction P as [|[b k] r IH]; simpl; [reflexivity|].
  rewrite map_app, IH. f_equal. clear. induction k; simpl; [reflexivity|]. rewrite IHk. reflexivity.
Qed.

Lemma num_ballots_expand P : num_ballots P = length (expandP P).
Proof.
  unfold expandP. induction P as [|[b k] r IH]; simpl; [reflexivity|].
  rewrite app_length, repeat_length, IH. reflexivity.
Qed.

Theorem avg_ballot_length_spec P : avg_ballot_length P == mean (map blen (expandP P)).
Proof. unfold avg_ballot_length. rewrite mean_mult, expandQ_pstream. reflexivity. Qed.

Theorem avg_ballot_cost_spec I P : avg_ballot_cost I P == mean (map (bcost I) (expandP P)).
Proof. unfold avg_ballot_cost. rewrite mean_mult, expandQ_pstream. reflexivity. Qed.

Lemma count_b_app {A} (f : A -> bool) l1 l2 : count_b f (l1 ++ l2) = (count_b f l1 + count_b f l2)%nat.
Proof. unfold count_b. rewrite filter_app, app_length. reflexivity. Qed.

Lemma count_b_repeat {A} (f : A -> bool) x k : count_b f (repeat x k) = if f x then k else 0%nat.
Proof.
  unfold count_b. induction k as [|k IH]; simpl; [destruct (f x); reflexivity|].
  destruct (f x) eqn:E; simpl; rewrite IH; reflexivity.
Qed.

(* approval score: number of voters whose ballot contains the project *)
Theorem approval_score_spec P p : approval_score P p == n_containing (expandP P) p.
Proof.
  unfold approval_score, n_containing, expandP. induction P as [|[b k] r IH]; simpl; [reflexivity|].
  rewrite IH, count_b_app, count_b_repeat, Qnat_plus. destruct (bhas b p); [reflexivity|]. rewrite Qnat_0. reflexivity.
Qed.

Lemma bscore_not_in b p : bhas b p = false -> bscore b p = 0.
Proof.
  unfold bhas, bscore, memb, bprojs. induction b as [|[a x] r IH]; simpl; [reflexivity|].
  destruct (Nat.eqb p a); simpl; [discriminate|]. exact IH.
Qed.

(* total score: sum over the voters of the score they gave (0 when the project is not on the ballot) *)
Theorem total_score_spec P p : total_score P p == score_sum (expandP P) p.
Proof.
  unfold total_score, score_sum, expandP. induction P as [|[b k] r IH]; simpl; [reflexivity|].
  rewrite IH, map_app, Qsum_app. apply Qplus_inj_r.
  assert (E : map (fun b0 => bscore b0 p) (repeat b k) = repeat (bscore b p) k).
  { clear. induction k; simpl; [reflexivity|]. rewrite IHk. reflexivity. }
  rewrite E, Qsum_repeat. destruct (bhas b p) eqn:Hb; [reflexivity|].
  rewrite (bscore_not_in b p Hb). ring.
Qed.

Theorem avg_approval_score_spec I P :
  avg_approval_score I P == mean (map (n_containing (expandP P)) (all_projects I)).
Proof.
  unfold avg_approval_score. rewrite mean_plain_spec. apply mean_map_ext. intros p _. apply approval_score_spec.
Qed.

Theorem avg_total_score_spec I P :
  avg_total_score I P == mean (map (score_sum (expandP P)) (all_projects I)).
Proof.
  unfold avg_total_score. rewrite mean_plain_spec. apply mean_map_ext. intros p _. apply total_score_spec.
Qed.

(* instance statistics *)
Theorem funding_scarcity_spec I : 0 < budget I -> funding_scarcity I = Some (Qsum (costs I) / budget I).
Proof. intros H. unfold funding_scarcity. apply Qltb_iff in H. rewrite H. reflexivity. Qed.

Theorem funding_scarcity_domain I : funding_scarcity I = None <-> budget I <= 0.
Proof.
  unfold funding_scarcity. destruct (Qltb 0 (budget I)) eqn:E.
  - apply Qltb_iff in E. split; [discriminate|]. intros H. lra.
  - apply Qltb_false_iff in E. split; [intros _; exact E|reflexivity].
Qed.

Theorem avg_project_cost_spec I : costs I <> [] -> avg_project_cost I = Some (mean (costs I)).
Proof. unfold avg_project_cost, mean, nproj. destruct (costs I); [congruence|reflexivity]. Qed.

Theorem var_project_cost_spec I : var_project_cost I = variance (costs I).
Proof. reflexivity. Qed.

(* ---------- satisfaction histogram ---------- *)
Lemma Qnat_inject n : Qnat n = inject_Z (Z.of_nat n).
Proof. reflexivity. Qed.

Lemma Qnat_lt a b : Qnat a < Qnat b <-> (a < b)%nat.
Proof. unfold Qnat. rewrite <- Zlt_Qlt. lia. Qed.

Lemma Qnat_le a b : Qnat a <= Qnat b <-> (a <= b)%nat.
Proof. unfold Qnat. rewrite <- Zle_Qle. lia. Qed.

Lemma Qnat_lt_succ a b : Qnat a < Qnat b + 1 -> (a <= b)%nat.
Proof. rewrite <- Qnat_S, Qnat_lt. lia. Qed.

(* the ceil-based index: for 0 <= s < mx it is the unique j with (j-1) mx < s (k-1) <= j mx, and j <= k-1 *)
Lemma hist_bin_ceil k mx s : 0 < mx -> 0 <= s -> s < mx ->
  let j := hist_bin k mx s in
  (j <= pred k)%nat /\ s * Qnat (pred k) <= Qnat j * mx /\ (Qnat j - 1) * mx < s * Qnat (pred k).
Proof.
  intros Hmx Hs Hlt. unfold hist_bin.
  assert (E : Qleb mx s = false) by (apply Qleb_false_iff; exact Hlt). rewrite E. clear E.
  remember (s * Qnat (pred k) / mx) as x eqn:Ex.
  pose proof (Qle_ceiling x) as Hc1. pose proof (Qceiling_lt x) as Hc2.
  pose proof (Qnat_nonneg (pred k)) as Hk.
  assert (Hx0 : 0 <= x).
  { rewrite Ex. apply Qle_shift_div_l; [exact Hmx|]. rewrite Qmult_0_l. apply Qmult_le_0_compat; assumption. }
  assert (Hxm : x * mx == s * Qnat (pred k)) by (rewrite Ex; field; lra).
  assert (Hc0 : (0 <= Qceiling x)%Z).
  { rewrite Zle_Qle. change (inject_Z 0) with 0. lra. }
  assert (Hj : Qnat (Z.to_nat (Qceiling x)) == inject_Z (Qceiling x)).
  { unfold Qnat. rewrite Z2Nat.id; [reflexivity|exact Hc0]. }
  unfold Z.sub in Hc2. rewrite inject_Z_plus in Hc2.
  assert (Hm1 : inject_Z (- (1)) == -1) by reflexivity. rewrite Hm1 in Hc2. clear Hm1.
  simpl. rewrite Hj. repeat split.
  - (* x <= k-1, strictly below when s < mx, so ceil x <= k-1 *)
    apply Qnat_lt_succ. rewrite Hj.
    assert (x * mx <= Qnat (pred k) * mx).
    { rewrite Hxm. rewrite (Qmult_comm (Qnat (pred k))). apply Qmult_le_compat_r; lra. }
    assert (x <= Qnat (pred k)).
    { apply Qmult_le_r with (z := mx); assumption. }
    lra.
  - rewrite <- Hxm. apply Qmult_le_compat_r; lra.
  - rewrite <- Hxm. apply Qmult_lt_compat_r; lra.
Qed.

Lemma hist_bin_last k mx s : mx <= s -> hist_bin k mx s = pred k.
Proof. intros H. unfold hist_bin. apply Qleb_iff in H. rewrite H. reflexivity. Qed.

(* the searching definition: least j with s (k-1) <= j mx, capped at j0 + fuel *)
Lemma first_edge_spec mx sk fuel : forall j0,
  let j := first_edge mx sk j0 fuel in
  (j0 <= j <= j0 + fuel)%nat /\ ((j < j0 + fuel)%nat -> sk <= Qnat j * mx) /\
  (forall i, (j0 <= i < j)%nat -> Qnat i * mx < sk).
Proof.
  induction fuel as [|f IH]; intros j0; simpl.
  - repeat split; intros; lia.
  - destruct (Qleb sk (Qnat j0 * mx)) eqn:E.
    + repeat split; try lia. intros _. apply Qleb_iff. exact E.
    + specialize (IH (S j0)). simpl in IH. destruct IH as [H1 [H2 H3]].
      repeat split; try lia.
      * intros Hlt. apply H2. lia.
      * intros i Hi. destruct (Nat.eq_dec i j0) as [->|Hne].
        -- apply Qleb_false_iff. exact E.
        -- apply H3. lia.
Qed.

Theorem hist_bin_is_bin_of k mx s : 0 < mx -> 0 <= s -> hist_bin k mx s = bin_of k mx s.
Proof.
  intros Hmx Hs. unfold bin_of.
  destruct (first_edge_spec mx (s * Qnat (pred k)) (pred k) 0%nat) as [H1 [H2 H3]].
  set (b := first_edge mx (s * Qnat (pred k)) 0 (pred k)) in *. simpl in H1, H2.
  destruct (Qlt_le_dec s mx) as [Hlt|Hge].
  - destruct (hist_bin_ceil k mx s Hmx Hs Hlt) as [G1 [G2 G3]].
    set (h := hist_bin k mx s) in *.
    assert (Hhb : (h <= b)%nat).
    { destruct (Nat.eq_dec b (pred k)) as [->|Hne]; [exact G1|].
      assert (Hb : s * Qnat (pred k) <= Qnat b * mx) by (apply H2; lia).
      apply Qnat_lt_succ. apply Qmult_lt_r with (z := mx); [exact Hmx|]. lra. }
    destruct (Nat.eq_dec h b) as [Heq|Hne]; [exact Heq|].
    exfalso. assert (Hi : Qnat h * mx < s * Qnat (pred k)) by (apply H3; lia). lra.
  - rewrite (hist_bin_last k mx s Hge).
    destruct (Nat.eq_dec b (pred k)) as [Heq|Hne]; [symmetry; exact Heq|].
    exfalso. assert (Hb : s * Qnat (pred k) <= Qnat b * mx) by (apply H2; lia).
    assert (Hbk : Qnat b < Qnat (pred k)) by (apply Qnat_lt; lia).
    assert (Qnat b * mx < Qnat (pred k) * mx) by (apply Qmult_lt_compat_r; assumption).
    assert (mx * Qnat (pred k) <= s * Qnat (pred k)).
    { apply Qmult_le_compat_r; [exact Hge|apply Qnat_nonneg]. }
    lra.
Qed.

Theorem hist_bin_range k mx s : 0 < mx -> 0 <= s -> (hist_bin k mx s <= pred k)%nat.
Proof.
  intros Hmx Hs. destruct (Qlt_le_dec s mx) as [Hlt|Hge].
  - apply (hist_bin_ceil k mx s Hmx Hs Hlt).
  - rewrite (hist_bin_last k mx s Hge). lia.
Qed.

(* the counting loop *)
Lemma bump_length j w h : length (bump j w h) = length h.
Proof. revert j. induction h as [|x r IH]; intros [|j]; simpl; try reflexivity. rewrite IH. reflexivity. Qed.

Lemma Qsum_bump j w h : (j < length h)%nat -> Qsum (bump j w h) == Qsum h + w.
Proof.
  revert j. induction h as [|x r IH]; intros [|j] H; simpl in *; try lia; [ring|].
  rewrite IH; [ring|lia].
Qed.

Lemma nth_bump j w h i : (j < length h)%nat ->
  nth i (bump j w h) 0 == nth i h 0 + (if Nat.eqb i j then w else 0).
Proof.
  revert j i. induction h as [|x r IH]; intros [|j] [|i] H; simpl in *; try lia; try ring.
  apply IH. lia.
Qed.

Definition hist_fold (k : nat) (mx : Q) (S : sats) (h : list Q) : list Q :=
  fold_left (fun h c => bump (hist_bin k mx (fst c)) (Qnat (snd c)) h) S h.

Lemma hist_fold_length k mx S : forall h, length (hist_fold k mx S h) = length h.
Proof.
  unfold hist_fold. induction S as [|c r IH]; intros h; simpl; [reflexivity|].
  rewrite IH, bump_length. reflexivity.
Qed.

Lemma hist_fold_sum k mx S : forall h,
  (forall c, In c S -> (hist_bin k mx (fst c) < length h)%nat) ->
  Qsum (hist_fold k mx S h) == Qsum h + Qnat (sat_total S).
Proof.
  unfold hist_fold. induction S as [|c r IH]; intros h H; simpl.
  - rewrite Qnat_0. ring.
  - rewrite IH.
    + rewrite Qsum_bump; [|apply H; left; reflexivity]. rewrite Qnat_plus. ring.
    + intros c' Hc'. rewrite bump_length. apply H. right. exact Hc'.
Qed.

Lemma hist_fold_nth k mx S i : forall h,
  (forall c, In c S -> (hist_bin k mx (fst c) < length h)%nat) ->
  nth i (hist_fold k mx S h) 0 ==
  nth i h 0 + Qnat (count_b (fun s => Nat.eqb (hist_bin k mx s) i) (expandQ S)).
Proof.
  unfold hist_fold, expandQ. induction S as [|[s m] r IH]; intros h H; simpl.
  - unfold count_b. simpl. rewrite Qnat_0. ring.
  - rewrite IH.
    + rewrite nth_bump; [|apply (H (s, m)); left; reflexivity].
      rewrite count_b_app, count_b_repeat, Qnat_plus. simpl.
      rewrite (Nat.eqb_sym i). destruct (Nat.eqb (hist_bin k mx s) i); [ring|]. rewrite Qnat_0. ring.
    + intros c' Hc'. rewrite bump_length. apply H. right. exact Hc'.
Qed.

Lemma sat_total_expand S : sat_total S = length (expandQ S).
Proof. exact (wcount_expand S). Qed.

Lemma in_expandQ S s : In s (expandQ S) -> exists m, In (s, m) S.
Proof.
  unfold expandQ. rewrite in_flat_map. intros [[v m] [Hin Hr]]. simpl in Hr.
  apply repeat_spec in Hr. subst. exists m. exact Hin.
Qed.

Lemma count_b_ext {A} (f g : A -> bool) l : (forall x, In x l -> f x = g x) -> count_b f l = count_b g l.
Proof.
  unfold count_b. induction l as [|x r IH]; intros H; simpl; [reflexivity|].
  rewrite (H x (or_introl eq_refl)). destruct (g x); simpl; rewrite IH; auto; intros y Hy; apply H; right; exact Hy.
Qed.

Lemma nth_repeat0 i k : nth i (repeat 0 k) 0 = 0.
Proof. revert i. induction k; intros [|i]; simpl; auto. Qed.

Lemma bins_in_range k mx (S : sats) : (0 < k)%nat -> 0 < mx -> (forall c, In c S -> 0 <= fst c) ->
  forall c, In c S -> (hist_bin k mx (fst c) < length (repeat 0%Q k))%nat.
Proof.
  intros Hk Hmx Hs c Hc. rewrite repeat_length.
  pose proof (hist_bin_range k mx (fst c) Hmx (Hs c Hc)). lia.
Qed.

(* every entry of the returned list is the share of the VOTERS whose satisfaction lies in that bin
   (a class of m equal ballots counts m times) *)
Theorem hist_spec k mx S : (0 < k)%nat -> 0 < mx -> (forall c, In c S -> 0 <= fst c) ->
  length (satisfaction_histogram k mx S) = k /\
  forall j, (j < k)%nat -> nth j (satisfaction_histogram k mx S) 0 == hist_share k mx (expandQ S) j.
Proof.
  intros Hk Hmx Hs. unfold satisfaction_histogram, hist_counts. fold (hist_fold k mx S (repeat 0 k)).
  split.
  - rewrite map_length, hist_fold_length, repeat_length. reflexivity.
  - intros j Hj. set (f := fun x => x / Qnat (sat_total S)).
    rewrite (nth_indep _ 0 (f 0));
      [|rewrite map_length, hist_fold_length, repeat_length; exact Hj].
    rewrite map_nth. unfold f. rewrite hist_fold_nth; [|apply bins_in_range; assumption].
    rewrite nth_repeat0. unfold hist_share. rewrite sat_total_expand.
    rewrite (count_b_ext (fun s => Nat.eqb (hist_bin k mx s) j) (fun s => Nat.eqb (bin_of k mx s) j)).
    + rewrite Qplus_0_l. reflexivity.
    + intros s Hin. destruct (in_expandQ S s Hin) as [m Hm].
      rewrite (hist_bin_is_bin_of k mx s Hmx (Hs (s, m) Hm)). reflexivity.
Qed.

Lemma Qsum_map_div l d : Qsum (map (fun x => x / d) l) == Qsum l / d.
Proof.
  induction l as [|x r IH]; simpl; [unfold Qdiv; ring|]. rewrite IH. unfold Qdiv. ring.
Qed.

Lemma Qsum_repeat0 k : Qsum (repeat 0 k) == 0.
Proof. rewrite Qsum_repeat. ring. Qed.

(* the bins add up to 1 *)
Theorem hist_sum_one k mx S : (0 < k)%nat -> 0 < mx -> (forall c, In c S -> 0 <= fst c) ->
  (0 < sat_total S)%nat -> Qsum (satisfaction_histogram k mx S) == 1.
Proof.
  intros Hk Hmx Hs Hn. unfold satisfaction_histogram, hist_counts. fold (hist_fold k mx S (repeat 0 k)).
  rewrite Qsum_map_div, hist_fold_sum; [|apply bins_in_range; assumption].
  rewrite Qsum_repeat0. pose proof (Qnat_pos _ Hn). field. lra.
Qed.

(* the histogram of classes with multiplicities is the histogram of the expanded list of voters *)
Corollary hist_mult k mx S : (0 < k)%nat -> 0 < mx -> (forall c, In c S -> 0 <= fst c) ->
  forall j, (j < k)%nat ->
  nth j (satisfaction_histogram k mx S) 0 ==
  nth j (satisfaction_histogram k mx (map (fun s => (s, 1%nat)) (expandQ S))) 0.
Proof.
  intros Hk Hmx Hs j Hj.
  destruct (hist_spec k mx S Hk Hmx Hs) as [_ H1]. rewrite (H1 j Hj).
  assert (Hs' : forall c, In c (map (fun s => (s, 1%nat)) (expandQ S)) -> 0 <= fst c).
  { intros c Hc. apply in_map_iff in Hc. destruct Hc as [s [<- Hin]]. simpl.
    destruct (in_expandQ S s Hin) as [m Hm]. apply (Hs (s, m) Hm). }
  destruct (hist_spec k mx _ Hk Hmx Hs') as [_ H2]. rewrite (H2 j Hj).
  rewrite expandQ_plain. reflexivity.
Qed.

(* ---------- share of voters with positive satisfaction ---------- *)
Theorem percent_positive_spec (S : sats) q :
  percent_positive_satisfaction S = Some q -> q == share_positive (expandQ S).
Proof.
  unfold percent_positive_satisfaction, share_positive. destruct (Nat.eqb (sat_total S) 0); [discriminate|].
  intros [= <-]. rewrite <- sat_total_expand.
  assert (E : Qsum (map (fun c : Q * nat => if Qltb 0 (fst c) then Qnat (snd c) else 0) S)
              == Qnat (count_b (fun s => Qltb 0 s) (expandQ S))).
  { unfold expandQ. induction S as [|[s m] r IH]; simpl; [reflexivity|].
    rewrite IH, count_b_app, count_b_repeat, Qnat_plus. destruct (Qltb 0 s); [reflexivity|]. rewrite Qnat_0. reflexivity. }
  rewrite E. reflexivity.
Qed.

Theorem percent_positive_domain (S : sats) :
  percent_positive_satisfaction S = None <-> sat_total S = 0%nat.
Proof.
  unfold percent_positive_satisfaction. destruct (Nat.eqb (sat_total S) 0) eqn:E.
  - apply Nat.eqb_eq in E. split; auto.
  - apply Nat.eqb_neq in E. split; [discriminate|contradiction].
Qed.

Theorem avg_satisfaction_spec (S : sats) : avg_satisfaction S == mean (expandQ S).
Proof. apply mean_mult. Qed.

(* ---------- votes_count_by_project / voter_flow_matrix: recorded finding ---------- *)
Theorem votes_count_partial P p : (forall c, In c P -> snd c = 1%nat) ->
  votes_count P p == n_containing (expandP P) p.
Proof.
  unfold votes_count, n_containing, expandP. induction P as [|[b k] r IH]; intros H; simpl; [reflexivity|].
  rewrite IH; [|intros c Hc; apply H; right; exact Hc].
  rewrite count_b_app, count_b_repeat, Qnat_plus.
  assert (Hk : k = 1%nat) by (apply (H (b, k)); left; reflexivity). subst k.
  destruct (bhas b p); reflexivity.
Qed.

Theorem votes_count_refuted : exists P p, ~ votes_count P p == n_containing (expandP P) p.
Proof. exists [([(0%nat, 1)], 2%nat)], 0%nat. vm_compute. discriminate. Qed.

Theorem voter_flow_partial P a b : (forall c, In c P -> snd c = 1%nat) ->
  voter_flow P a b == flow (expandP P) a b.
Proof.
  unfold voter_flow, flow, expandP. intros H.
  destruct (Nat.eqb a b).
  - induction P as [|[bl k] r IH]; simpl; [reflexivity|].
    rewrite IH; [|intros c Hc; apply H; right; exact Hc].
    rewrite count_b_app, count_b_repeat, Qnat_plus.
    assert (Hk : k = 1%nat) by (apply (H (bl, k)); left; reflexivity). subst k.
    destruct (Nat.eqb (length bl) 1 && bhas bl a); reflexivity.
  - induction P as [|[bl k] r IH]; simpl; [reflexivity|].
    rewrite IH; [|intros c Hc; apply H; right; exact Hc].
    rewrite count_b_app, count_b_repeat, Qnat_plus.
    assert (Hk : k = 1%nat) by (apply (H (bl, k)); left; reflexivity). subst k.
    destruct (bhas bl a && bhas bl b); reflexivity.
Qed.

Theorem voter_flow_refuted : exists P a b, ~ voter_flow P a b == flow (expandP P) a b.
Proof. exists [([(0%nat, 1); (1%nat, 1)], 2%nat)], 0%nat, 1%nat. vm_compute. discriminate. Qed.

(* ---------- Gini coefficient ---------- *)
Lemma Qsum_map_plus {A} (f g : A -> Q) l :
  Qsum (map (fun z => f z + g z) l) == Qsum (map f l) + Qsum (map g l).
Proof. induction l as [|x r IH]; simpl; [ring|]. rewrite IH. ring. Qed.

Lemma Qsum_map_perm {A} (f : A -> Q) l l' : Permutation l l' -> Qsum (map f l) == Qsum (map f l').
Proof. intros H. apply Qsum_perm_proper. apply Permutation_map. exact H. Qed.

Lemma pair_abs_sum_perm l l' : Permutation l l' -> pair_abs_sum l == pair_abs_sum l'.
Proof.
  intros H. unfold pair_abs_sum.
  rewrite (Qsum_map_perm (fun x => Qsum (map (fun y => Qabs (x - y)) l)) l l' H).
  apply Qsum_map_ext. intros x _. apply Qsum_map_perm. exact H.
Qed.

Lemma abs_sum_below x r : (forall y, In y r -> x <= y) ->
  Qsum (map (fun y => Qabs (x - y)) r) == Qsum r - Qnat (length r) * x.
Proof.
  induction r as [|y r IH]; intros H; cbn [map Qsum length].
  - rewrite Qnat_0. ring.
  - rewrite IH; [|intros z Hz; apply H; right; exact Hz]. rewrite Qnat_S.
    assert (Hxy : x <= y) by (apply H; left; reflexivity).
    rewrite Qabs_neg; [ring|lra].
Qed.

Lemma abs_sum_above x r : (forall y, In y r -> x <= y) ->
  Qsum (map (fun z => Qabs (z - x)) r) == Qsum r - Qnat (length r) * x.
Proof.
  induction r as [|y r IH]; intros H; cbn [map Qsum length].
  - rewrite Qnat_0. ring.
  - rewrite IH; [|intros z Hz; apply H; right; exact Hz]. rewrite Qnat_S.
    assert (Hxy : x <= y) by (apply H; left; reflexivity).
    rewrite Qabs_pos; [ring|lra].
Qed.

Lemma pair_abs_sum_cons x r : (forall y, In y r -> x <= y) ->
  pair_abs_sum (x :: r) == pair_abs_sum r + 2 * (Qsum r - Qnat (length r) * x).
Proof.
  intros H. unfold pair_abs_sum. cbn [map Qsum].
  rewrite (Qsum_map_plus (fun z => Qabs (z - x)) (fun z => Qsum (map (fun y => Qabs (z - y)) r)) r).
  rewrite abs_sum_below, abs_sum_above by exact H.
  assert (E : Qabs (x - x) == 0).
  { assert (x - x == 0) by ring. rewrite H0. reflexivity. }
  rewrite E. ring.
Qed.

(* on an ascending vector the weighted cumulative sum gives the sum of all pairwise distances *)
Lemma cum_sum_sorted s : StronglySorted Qle s ->
  pair_abs_sum s == 2 * ((Qnat (length s) + 1) * Qsum s - 2 * cum_sum (length s) s).
Proof.
  induction 1 as [|x r Hs IH Hall].
  - unfold pair_abs_sum. cbn [map Qsum length cum_sum]. rewrite Qnat_0. ring.
  - rewrite pair_abs_sum_cons; [|rewrite Forall_forall in Hall; exact Hall].
    rewrite IH. cbn [length cum_sum Qsum pred]. rewrite !Qnat_S. ring.
Qed.

Lemma Qleb_total x y : Qleb x y = true \/ Qleb y x = true.
Proof. destruct (Qlt_le_dec y x) as [H|H]; [right; apply Qleb_iff; lra|left; apply Qleb_iff; exact H]. Qed.
Lemma Qleb_trans x y z : Qleb x y = true -> Qleb y z = true -> Qleb x z = true.
Proof. rewrite !Qleb_iff. intros; lra. Qed.

Lemma isort_Qle_sorted l : StronglySorted Qle (isort Qleb l).
Proof.
  pose proof (isort_sorted Qleb Qleb_total Qleb_trans l) as H.
  induction H as [|x r Hs IH Hall]; constructor; [exact IH|].
  rewrite Forall_forall in *. intros y Hy. apply Qleb_iff. apply Hall. exact Hy.
Qed.

Lemma Qsum_all_zero l : (forall v, In v l -> 0 <= v) -> (forall v, In v l -> v <= 0) -> Qsum l == 0.
Proof.
  induction l as [|x r IH]; intros H1 H2; simpl; [reflexivity|].
  rewrite IH; [|intros; apply H1; right; assumption|intros; apply H2; right; assumption].
  pose proof (H1 x (or_introl eq_refl)). pose proof (H2 x (or_introl eq_refl)). lra.
Qed.

Lemma Qsum_pos l : (forall v, In v l -> 0 <= v) -> (exists v, In v l /\ 0 < v) -> 0 < Qsum l.
Proof.
  induction l as [|x r IH]; intros H1 [v [Hv Hp]]; simpl; [destruct Hv|].
  assert (Hr : 0 <= Qsum r).
  { apply Qsum_nonneg. rewrite Forall_forall. intros y Hy. apply H1. right. exact Hy. }
  pose proof (H1 x (or_introl eq_refl)). destruct Hv as [->|Hv]; [lra|].
  assert (0 < Qsum r); [|lra]. apply IH; [intros; apply H1; right; assumption|exists v; split; assumption].
Qed.

Lemma Some_inj {A} (a b : A) : Some a = Some b -> a = b.
Proof. intros [= H]. exact H. Qed.

(* gini_coefficient = sum_i sum_j |x_i - x_j| / (2 n sum x); 0 for the empty / all-zero vector *)
Theorem gini_spec vals g : gini_coefficient vals = Some g -> g == gini vals.
Proof.
  unfold gini_coefficient.
  destruct (existsb (fun v => Qltb v 0) vals) eqn:Eneg; [discriminate|].
  assert (Hnn : forall v, In v vals -> 0 <= v).
  { intros v Hv. destruct (Qlt_le_dec v 0) as [Hlt|Hge]; [|exact Hge].
    exfalso. assert (existsb (fun v => Qltb v 0) vals = true); [|congruence].
    apply existsb_exists. exists v. split; [exact Hv|apply Qltb_iff; exact Hlt]. }
  destruct (forallb (fun v => negb (Qltb 0 v)) vals) eqn:Enul.
  - intros [= <-]. unfold gini.
    assert (Hz : Qsum vals == 0).
    { apply Qsum_all_zero; [exact Hnn|]. intros v Hv. rewrite forallb_forall in Enul.
      specialize (Enul v Hv). apply negb_true_iff in Enul. apply Qltb_false_iff in Enul. exact Enul. }
    rewrite Hz. unfold Qdiv. rewrite Qmult_0_r. change (/ 0) with 0. ring.
  - cbv zeta. intros H. apply Some_inj in H. rewrite <- H. clear H. rewrite Qred_correct. unfold gini.
    assert (Hpos : 0 < Qsum vals).
    { apply Qsum_pos; [exact Hnn|].
      destruct (forallb_forall (fun v => negb (Qltb 0 v)) vals) as [_ Hf].
      destruct (existsb (fun v => Qltb 0 v) vals) eqn:Ex.
      - apply existsb_exists in Ex. destruct Ex as [v [Hv Hp]]. exists v. split; [exact Hv|apply Qltb_iff; exact Hp].
      - exfalso. rewrite Hf in Enul; [discriminate|]. intros v Hv.
        destruct (Qltb 0 v) eqn:Ev; [|reflexivity].
        assert (existsb (fun v => Qltb 0 v) vals = true); [|congruence].
        apply existsb_exists. exists v. split; assumption. }
    assert (Hn : 0 < Qnat (length vals)).
    { destruct vals; [simpl in Hpos; lra|apply Qnat_S_pos]. }
    pose proof (isort_perm Qleb vals) as Hperm.
    rewrite (pair_abs_sum_perm _ _ Hperm).
    rewrite (cum_sum_sorted _ (isort_Qle_sorted vals)).
    rewrite isort_length. rewrite <- (Qsum_perm_proper _ _ Hperm).
    field. split; lra.
Qed.

Theorem gini_domain vals : gini_coefficient vals = None <-> exists v, In v vals /\ v < 0.
Proof.
  unfold gini_coefficient. destruct (existsb (fun v => Qltb v 0) vals) eqn:E.
  - split; [intros _|reflexivity]. apply existsb_exists in E. destruct E as [v [Hv Hl]].
    exists v. split; [exact Hv|apply Qltb_iff; exact Hl].
  - split.
    + destruct (forallb _ vals); discriminate.
    + intros [v [Hv Hl]]. exfalso. assert (existsb (fun v => Qltb v 0) vals = true); [|congruence].
      apply existsb_exists. exists v. split; [exact Hv|apply Qltb_iff; exact Hl].
Qed.

Corollary gini_zero_vector vals : (forall v, In v vals -> v == 0) -> gini_coefficient vals = Some 0.
Proof.
  intros H. unfold gini_coefficient.
  assert (E1 : existsb (fun v => Qltb v 0) vals = false).
  { destruct (existsb (fun v => Qltb v 0) vals) eqn:E; [|reflexivity].
    apply existsb_exists in E. destruct E as [v [Hv Hl]]. apply Qltb_iff in Hl. pose proof (H v Hv). lra. }
  rewrite E1.
  assert (E2 : forallb (fun v => negb (Qltb 0 v)) vals = true).
  { apply forallb_forall. intros v Hv. apply negb_true_iff. apply Qltb_false_iff. pose proof (H v Hv). lra. }
  rewrite E2. reflexivity.
Qed.

(* Gini of the satisfactions: on classes with multiplicities = on the voters *)
Theorem gini_of_satisfaction_spec (S : sats) inv g :
  gini_of_satisfaction S inv = Some g -> g == (if inv then 1 - gini (expandQ S) else gini (expandQ S)).
Proof.
  unfold gini_of_satisfaction. destruct (gini_coefficient (expandQ S)) as [g0|] eqn:E; [|discriminate].
  intros [= <-]. pose proof (gini_spec _ _ E) as H. destruct inv; rewrite H; reflexivity.
Qed.

(* ---------- median ---------- *)
Lemma filter_length_perm {A} (f : A -> bool) l l' :
  Permutation l l' -> length (filter f l) = length (filter f l').
Proof.
  induction 1 as [|x l l' _ IH|x y l|l l' l'' _ IH1 _ IH2]; simpl.
  - reflexivity.
  - destruct (f x); simpl; rewrite IH; reflexivity.
  - destruct (f x), (f y); reflexivity.
  - rewrite IH1. exact IH2.
Qed.

Lemma count_lt_none r x : Forall (fun y => x <= y) r -> count_lt r x = 0%nat.
Proof.
  unfold count_lt. induction 1 as [|y r Hy _ IH]; simpl; [reflexivity|].
  assert (E : Qltb y x = false) by (apply Qltb_false_iff; exact Hy). rewrite E. exact IH.
Qed.

Lemma sorted_count_lt s : StronglySorted Qle s -> forall k, (k < length s)%nat ->
  (count_lt s (nth k s 0%Q) <= k)%nat.
Proof.
  induction 1 as [|a r Hs IH Hall]; intros k Hk; simpl in Hk; [lia|].
  destruct k as [|k]; simpl nth.
  - unfold count_lt. simpl. assert (E : Qltb a a = false) by (apply Qltb_false_iff; lra). rewrite E.
    fold (count_lt r a). rewrite (count_lt_none r a Hall). apply le_n.
  - specialize (IH k ltac:(lia)). unfold count_lt in *. cbn [filter].
    destruct (Qltb a (nth k r 0)); cbn [length]; lia.
Qed.

Lemma sorted_count_le s : StronglySorted Qle s -> forall k, (k < length s)%nat ->
  (k < count_le s (nth k s 0%Q))%nat.
Proof.
  induction 1 as [|a r Hs IH Hall]; intros k Hk; simpl in Hk; [lia|].
  destruct k as [|k]; simpl nth.
  - unfold count_le. simpl. assert (E : Qleb a a = true) by (apply Qleb_iff; lra). rewrite E. simpl. lia.
  - assert (Ha : a <= nth k r 0).
    { rewrite Forall_forall in Hall. apply Hall. apply nth_In. lia. }
    specialize (IH k ltac:(lia)). unfold count_le in *. cbn [filter].
    apply Qleb_iff in Ha. rewrite Ha. cbn [length]. lia.
Qed.

Lemma count_le_lt l x y : x < y -> (count_le l x <= count_lt l y)%nat.
Proof.
  intros H. unfold count_le, count_lt. induction l as [|z r IH]; simpl; [lia|].
  destruct (Qleb z x) eqn:E1.
  - apply Qleb_iff in E1. assert (E2 : Qltb z y = true) by (apply Qltb_iff; lra). rewrite E2. simpl. lia.
  - destruct (Qltb z y); simpl; lia.
Qed.

(* an order statistic is determined by its rank conditions *)
Lemma is_kth_unique l k x y : is_kth l k x = true -> is_kth l k y = true -> x == y.
Proof.
  unfold is_kth. rewrite !andb_true_iff, !Nat.leb_le, !Nat.ltb_lt. intros [X1 X2] [Y1 Y2].
  destruct (Q_dec x y) as [[H|H]|H]; [| |exact H]; exfalso.
  - pose proof (count_le_lt l x y H). lia.
  - pose proof (count_le_lt l y x H). lia.
Qed.

Lemma is_kth_sorted l k : (k < length l)%nat -> is_kth l k (nth k (isort Qleb l) 0) = true.
Proof.
  intros Hk. pose proof (isort_perm Qleb l) as Hp. pose proof (isort_Qle_sorted l) as Hs.
  assert (Hk' : (k < length (isort Qleb l))%nat) by (rewrite isort_length; exact Hk).
  unfold is_kth, count_lt, count_le.
  rewrite (filter_length_perm _ _ _ Hp), (filter_length_perm (fun y => Qleb y _) _ _ Hp).
  apply andb_true_iff. split.
  - apply Nat.leb_le. apply (sorted_count_lt _ Hs k Hk').
  - apply Nat.ltb_lt. apply (sorted_count_le _ Hs k Hk').
Qed.

(* the k-th element of the sorted array is the k-th order statistic *)
Theorem kth_sorted l k : (k < length l)%nat -> nth k (isort Qleb l) 0 == kth l k.
Proof.
  intros Hk. unfold kth. pose proof (is_kth_sorted l k Hk) as Hx.
  destruct (find (is_kth l k) l) as [y|] eqn:E.
  - apply find_some in E. destruct E as [_ Hy]. apply (is_kth_unique l k _ _ Hx Hy).
  - exfalso. assert (Hin : In (nth k (isort Qleb l) 0) l).
    { apply (isort_In Qleb). apply nth_In. rewrite isort_length. exact Hk. }
    pose proof (find_none _ _ E _ Hin). congruence.
Qed.

(* np.median (sorted middle) = the order-statistic median *)
Theorem median_spec l : median l == median_os l.
Proof.
  unfold median, median_os. destruct l as [|a r]; [reflexivity|].
  set (l := a :: r). assert (Hn : (0 < length l)%nat) by (simpl; lia).
  assert (H2 : (length l / 2 < length l)%nat) by (apply Nat.div_lt; lia).
  destruct (Nat.even (length l)).
  - rewrite (kth_sorted l (length l / 2) H2), (kth_sorted l (length l / 2 - 1)); [reflexivity|lia].
  - apply kth_sorted. exact H2.
Qed.

(* the median splits the vector: at least half of the entries are <= it and at least half are >= it *)
Lemma median_ballot_length_spec P :
  median_ballot_length P == match expandP P with [] => 0 | _ => median_os (map blen (expandP P)) end.
Proof.
  unfold median_ballot_length. rewrite num_ballots_expand.
  destruct (expandP P) as [|b r] eqn:E; [reflexivity|]. simpl length. simpl Nat.eqb.
  rewrite expandQ_pstream, E. apply median_spec.
Qed.

Lemma median_ballot_cost_spec I P :
  median_ballot_cost I P == match expandP P with [] => 0 | _ => median_os (map (bcost I) (expandP P)) end.
Proof.
  unfold median_ballot_cost. rewrite num_ballots_expand.
  destruct (expandP P) as [|b r] eqn:E; [reflexivity|]. simpl length. simpl Nat.eqb.
  rewrite expandQ_pstream, E. apply median_spec.
Qed.

Theorem median_project_cost_spec I : median_project_cost I == median_os (costs I).
Proof. apply median_spec. Qed.

Theorem median_approval_score_spec I P : (0 < nproj I)%nat ->
  median_approval_score I P == median_os (map (approval_score P) (all_projects I)).
Proof.
  intros H. unfold median_approval_score. destruct (Nat.eqb (nproj I) 0) eqn:E.
  - apply Nat.eqb_eq in E. lia.
  - apply median_spec.
Qed.

Theorem median_total_score_spec I P : (0 < nproj I)%nat ->
  median_total_score I P == median_os (map (total_score P) (all_projects I)).
Proof.
  intros H. unfold median_total_score. destruct (Nat.eqb (nproj I) 0) eqn:E.
  - apply Nat.eqb_eq in E. lia.
  - apply median_spec.
Qed.

(* ---------- category proportionality: the exact mean-square difference ---------- *)
Lemma wsum_pstream f P : Qsum (map (fun cl : bal * nat => f (fst cl) * Qnat (snd cl)) P) == Qsum (map f (expandP P)).
Proof.
  rewrite <- expandQ_pstream, <- wsum_expand. unfold wsum, pstream. rewrite map_map. reflexivity.
Qed.

Theorem category_msd_spec I pcats ncat P W t :
  category_msd I pcats ncat P W = CatMsd t -> t == cat_msd I pcats ncat (expandP P) W.
Proof.
  unfold category_msd. destruct (Nat.eqb ncat 0); [discriminate|].
  destruct W as [|w W']; [discriminate|]. set (W := w :: W').
  destruct (Qeqb (tcost I W) 0); [discriminate|].
  destruct (existsb _ P); [discriminate|].
  intros H. assert (Ht : forall a b, CatMsd a = CatMsd b -> a = b) by (intros a b [= E]; exact E).
  cbv zeta in H. apply Ht in H. rewrite <- H. clear H Ht. rewrite Qred_correct.
  unfold cat_msd, mean. rewrite map_length, seq_length.
  unfold Qdiv. apply Qmult_comp; [|reflexivity]. apply Qsum_map_ext. intros c _.
  pose proof (wsum_pstream (fun b => cat_cost I pcats c (bprojs b) / bcost I b) P) as E. cbv beta in E.
  rewrite E. rewrite map_length, num_ballots_expand. reflexivity.
Qed.
