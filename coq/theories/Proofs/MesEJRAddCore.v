(* Proofs/MesEJRAddCore.v -- the price-system core of Proofs/MesEJRCore.v with a weaker hypothesis on the
   payment bound [w], as needed for general additive utilities (Peters-Pierczynski-Skowron 2021, EJR up to
   one project): in a state in which every member of S holds theta, a purchase either costs EVERY member i
   at most w i q, or it leaves SOME member j below theta who paid at most w j q.  Same conclusion:
       exists i in S,  b_i - theta  <  sum over the purchases q of  w i q. *)
From PB Require Export Proofs.MesEJRCore.
Open Scope Q_scope.

Section Core2.
Variable cs : list Q.
Variable P : list vcls.
Variable tb : proj -> Q.
Hypothesis Hv : wf_voters P.

Variable S : list nat.
Variable pstar : proj.
Variable theta : Q.
Variable w : nat -> proj -> Q.

Hypothesis HSnd : NoDup S.
Hypothesis HSsup : forall i, In i S -> In i (s_supporters P pstar).
Hypothesis Htheta : s_cost cs pstar <= Qsum (map (fun i => s_mul P i * theta) S).
Hypothesis Hw0 : forall i q, In i S -> 0 <= w i q.
Hypothesis Hw : forall b q r,
  wf_buds P b -> (forall j, In j S -> theta <= s_bud b j) ->
  0 < s_cost cs q -> is_rho cs P b q r ->
  (forall r', s_cost cs pstar <= paid P b r' pstar -> r <= r') ->
  (forall i, In i S -> 0 < s_util P i q -> Qmin (s_bud b i) (r * s_util P i q) <= w i q) \/
  (exists j, In j S /\ 0 < s_util P j q /\ Qmin (s_bud b j) (r * s_util P j q) <= w j q /\
             s_bud b j - Qmin (s_bud b j) (r * s_util P j q) < theta).

Theorem ejr_core2 : forall b rem W, spec_run cs P tb b rem W ->
  wf_buds P b -> (forall p, In p rem -> 0 < s_cost cs p) ->
  In pstar rem -> ~ In pstar W -> (forall j, In j S -> theta <= s_bud b j) ->
  exists i, In i S /\ s_bud b i - theta < Qsum (map (w i) W).
Proof.
  induction 1 as [b rem Hst|b rem p rho b' W Hround Hb' Hl Hrun IH]; intros Hb Hpos Hin Hnot Hth.
  - exfalso. apply (Hst pstar Hin).
    apply (ej_group_affordable cs P Hv S theta HSnd b pstar Hb HSsup Htheta Hth).
  - assert (Hne : pstar <> p) by (intro E; apply Hnot; left; symmetry; exact E).
    assert (Hnot' : ~ In pstar W) by (intro H; apply Hnot; right; exact H).
    assert (Hwf' : wf_buds P b') by (apply (ej_buy_wf P b rho p b' Hb Hb' Hl)).
    assert (Hin' : In pstar (filter (fun q => negb (Nat.eqb q p)) rem)).
    { apply filter_In. split; [exact Hin|]. apply negb_true_iff. apply Nat.eqb_neq. exact Hne. }
    assert (Hpos' : forall q, In q (filter (fun q => negb (Nat.eqb q p)) rem) -> 0 < s_cost cs q).
    { intros q Hq. apply filter_In in Hq. apply Hpos. tauto. }
    destruct Hround as [Hp [Hpa [Hpr [Hmin _]]]].
    assert (Haff : affordable cs P b pstar)
      by (apply (ej_group_affordable cs P Hv S theta HSnd b pstar Hb HSsup Htheta Hth)).
    destruct (rho_interp_is_rho cs P b pstar Hv Hb (Hpos pstar Hin) Haff) as [rs [_ Hrs]].
    assert (Hrho : forall r', s_cost cs pstar <= paid P b r' pstar -> rho <= r').
    { intros r' Hr'. apply Qle_trans with rs; [apply (Hmin pstar rs Hin Haff Hrs)|].
      destruct Hrs as [_ Hleast]. apply Hleast. exact Hr'. }
    assert (Hnew : forall i, In i S -> s_bud b' i ==
              if Qltb 0 (s_util P i p) then s_bud b i - Qmin (s_bud b i) (rho * s_util P i p) else s_bud b i).
    { intros i Hi. pose proof (HSsup i Hi) as Hs. apply ej_supp_spec in Hs. destruct Hs as [HiP _].
      rewrite (Hb' i), charge_nth. destruct Hb as [HlenB _].
      assert (Hlt : Nat.ltb i (length b) = true) by (apply Nat.ltb_lt; rewrite HlenB; exact HiP).
      rewrite Hlt. reflexivity. }
    assert (Hsum0 : forall j, In j S -> 0 <= Qsum (map (w j) W))
      by (intros j Hj; apply ej_sum_nonneg; intros q _; apply Hw0; exact Hj).
    destruct (Hw b p rho Hb Hth (Hpos p Hp) Hpr Hrho) as [HA|[j [Hj [Hu [Hpay Hdrop]]]]].
    + assert (Hpay : forall i, In i S -> s_bud b i - s_bud b' i <= w i p).
      { intros i Hi. rewrite (Hnew i Hi). destruct (Qltb 0 (s_util P i p)) eqn:Eu.
        - apply Qltb_iff in Eu. pose proof (HA i Hi Eu). lra.
        - pose proof (Hw0 i p Hi). lra. }
      destruct (ej_all_or_some theta b' S) as [Hall|[j [Hj Hlt]]].
      * destruct (IH Hwf' Hpos' Hin' Hnot' Hall) as [i [Hi Hlt]].
        exists i. split; [exact Hi|]. simpl. pose proof (Hpay i Hi). lra.
      * exists j. split; [exact Hj|]. simpl. pose proof (Hpay j Hj). pose proof (Hsum0 j Hj). lra.
    + exists j. split; [exact Hj|]. simpl. pose proof (Hsum0 j Hj). lra.
Qed.

End Core2.
