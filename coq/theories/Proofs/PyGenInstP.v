(* Proofs/PyGenInstP.v -- the definitions of Generated/PyFuncs.v that come from pabutools/election/instance.py and
   pabutools/utils.py (powerset), REGENERATED from the Python source on every run by harness/vharness/pytrans.py,
   equal the hand-written model of Model/InstanceM.v (Base/ListExt.v for powerset) that the C15 theorems are about.
   Generic, rewrite-tolerant tactic first ([py_gen]); for the cheapest-first loop of max_budget_allocation_cardinality
   the generated loop is compared, component by component, with the canonical loop [mc_step] of Proofs/PyGenLib.v. *)
From Coq Require Import String.
From PB Require Import Model.PyPrims Generated.PyFuncs Proofs.InstanceP Proofs.SatisfactionP Proofs.PyGenLib.
Open Scope Q_scope.

Ltac py_open := intros; repeat autounfold with pygen in *;
  unfold is_feasible, is_exhaustive, budget_allocations, is_trivial in *.
Ltac py_gen := solve [ py_open; py_auto ].

(* max_budget_allocation_cardinality written with enumerate + early return, compared with [mc2_step] under the
   weaker relation [mc2_rel] (first over projects sorted by cost, then over the sorted costs) *)
Ltac py_mc2_weak_with F L s0 G t0 :=
  let H := fresh "Hrel" in
  assert (H : mc2_rel (fold_left F L s0) (fold_left G L t0));
  [ apply (fold_left_rel mc2_rel F G L s0 t0);
    [ intros [r1 c1] [r2 c2] x [H1 H2]; cbn [fst snd] in *; unfold mc2_rel; cbn [fst snd];
      destruct r1, r2; cbn [opt_rel] in H1; try contradiction; cbn [fst snd opt_rel];
      [ split; [exact H1|discriminate]
      | specialize (H2 eq_refl); py_cases; cbn [fst snd opt_rel];
        try (exfalso; rewrite H2 in *; solve [auto | py_arith]);
        (split; first [ reflexivity | exact Logic.I | discriminate | intro; rewrite H2; reflexivity
                      | intro; py_arith | py_arith ]) ]
    | unfold mc2_rel; cbn [fst snd opt_rel]; split; [exact Logic.I|intro; reflexivity] ]
  | unfold mc2_rel in H; destruct (fold_left F L s0) as [r1 c1], (fold_left G L t0) as [r2 c2]; cbn [fst snd] in *;
    destruct H as [H1 H2]; destruct r1, r2; cbn [opt_rel] in H1; try contradiction; cbn [fst snd];
    first [ exact H1 | reflexivity ] ].

Ltac py_mc2_weak_go :=
  autounfold with pycanon; py_unfold;
  match goal with
  | |- context [fold_left ?F ?L ?s0] =>
      match goal with
      | |- context [fold_left ?G L ?t0] =>
          lazymatch constr:((F, s0)) with
          | (G, t0) => fail
          | _ => py_mc2_weak_with F L s0 G t0
          end
      end
  end.

Ltac py_mc2_weak I l B :=
  py_open; py_unfold; change (fun p : proj => cost I p) with (cost I);
  first [ solve [ rewrite <- (mc2_canonical (cost I) B l); py_mc2_weak_go ]
        | solve [ rewrite <- (mc2_canonical_costs (map (cost I) l) B); py_mc2_weak_go ] ].

(* ---------- total_cost: the vocabulary constant [py_total_cost] (= tcost) is what the source computes ---------- *)
Lemma gen_total_cost_ok : forall I l, gen_total_cost I l == py_total_cost I l.
Proof. first [ py_gen | intros; unfold gen_total_cost; py_pointwise ]. Qed.

Lemma gen_total_cost_is_tcost : forall I l, gen_total_cost I l == tcost I l.
Proof. exact gen_total_cost_ok. Qed.

(* ---------- Instance.is_feasible / is_exhaustive / is_trivial ---------- *)
Lemma gen_is_feasible_ok : forall I W, gen_Instance_is_feasible I W = is_feasible I W.
Proof. first [ py_gen | intros; reflexivity ]. Qed.

(* available_projects given *)
Lemma gen_is_exhaustive_avail_ok : forall I W avail,
  gen_Instance_is_exhaustive_avail I W avail = is_exhaustive I W avail.
Proof. py_gen. Qed.

(* available_projects = None: the instance itself *)
Lemma gen_is_exhaustive_ok : forall I W, gen_Instance_is_exhaustive I W = is_exhaustive I W (all_projects I).
Proof. py_gen. Qed.

(* is_trivial: min() of an empty instance raises ValueError unless the first disjunct already holds;
   [gen_Instance_is_trivial_safe] = "does not raise", the model's None = raises *)
Lemma gen_is_trivial_ok : forall I,
  is_trivial I = if gen_Instance_is_trivial_safe I then Some (gen_Instance_is_trivial I) else None.
Proof. py_gen. Qed.

(* ---------- max_budget_allocation_cardinality: TRANSLATED (sort by cost, accumulate, break), equal to the hand
   model [max_card] that [py_max_budget_allocation_cardinality] (Relative_Cardinality_Sat, C10gen) stands for ---------- *)
Lemma gen_max_budget_allocation_cardinality_ok : forall I l B,
  gen_max_budget_allocation_cardinality I l B == py_max_budget_allocation_cardinality I l B.
Proof.
  first [ py_gen
        | timeout 60 solve [ py_open; py_unfold; rewrite <- (mc_canonical (cost I) B l); py_fold_rel ]
        | timeout 60 solve [ py_open; py_unfold; rewrite <- (mc2_canonical (cost I) B l); autounfold with pycanon;
                  py_unfold; py_fold_rel ]
        | timeout 60 solve [ py_open; py_unfold; change (fun p : proj => cost I p) with (cost I);
                  rewrite <- (mc2_canonical_costs (map (cost I) l) B);
                  autounfold with pycanon; py_unfold; py_fold_rel ]
        | timeout 60 solve [ py_open; py_unfold; change (fun p : proj => cost I p) with (cost I);
                  rewrite <- (mc2_canonical (cost I) B l); py_mc2_weak_go ]
        | timeout 60 solve [ py_open; py_unfold; change (fun p : proj => cost I p) with (cost I);
                  rewrite <- (mc2_canonical_costs (map (cost I) l) B); py_mc2_weak_go ] ].
Qed.

Lemma gen_max_budget_allocation_cardinality_is_max_card : forall I l B,
  gen_max_budget_allocation_cardinality I l B == Qnat (max_card (map (cost I) l) B).
Proof. exact gen_max_budget_allocation_cardinality_ok. Qed.

(* ---------- powerset (itertools order) and budget_allocations ---------- *)
Lemma gen_powerset_ok : forall l, gen_powerset l = powerset l.
Proof. py_gen. Qed.

(* the instance (a Python set) is iterated in rank order *)
Lemma gen_budget_allocations_ok : forall I,
  gen_Instance_budget_allocations I = budget_allocations I (all_projects I).
Proof. py_gen. Qed.

(* ---------- nothing raises (ZeroDivisionError / min of an empty sequence) except is_trivial, see above ---------- *)
Lemma gen_total_cost_safe_ok : forall I l, gen_total_cost_safe I l = true.
Proof. intros; repeat autounfold with pygen; py_safe. Qed.
Lemma gen_max_budget_allocation_cardinality_safe_ok : forall I l B, gen_max_budget_allocation_cardinality_safe I l B = true.
Proof. first [ solve [intros; repeat autounfold with pygen; py_safe] | solve [intros; repeat autounfold with pygen; py_unfold; destruct (fold_left _ _ _) as [[? ?] ?]; reflexivity] ]. Qed.
Lemma gen_powerset_safe_ok : forall l, gen_powerset_safe l = true.
Proof. intros; repeat autounfold with pygen; py_safe. Qed.
Lemma gen_is_feasible_safe_ok : forall I W, gen_Instance_is_feasible_safe I W = true.
Proof. intros; repeat autounfold with pygen; py_safe. Qed.
Lemma gen_is_exhaustive_safe_ok : forall I W, gen_Instance_is_exhaustive_safe I W = true.
Proof. first [ solve [intros; repeat autounfold with pygen; py_safe] | solve [py_open; py_quant] ]. Qed.
Lemma gen_is_exhaustive_avail_safe_ok : forall I W a, gen_Instance_is_exhaustive_avail_safe I W a = true.
Proof. first [ solve [intros; repeat autounfold with pygen; py_safe] | solve [py_open; py_quant] ]. Qed.
Lemma gen_budget_allocations_safe_ok : forall I, gen_Instance_budget_allocations_safe I = true.
Proof. first [ solve [intros; repeat autounfold with pygen; py_safe] | solve [py_open; py_auto] ]. Qed.

(* nothing of instance.py that this file is about fell out of the translated fragment *)
Lemma gen_inst_all_translated : gen_untranslated_inst = [].
Proof. reflexivity. Qed.
