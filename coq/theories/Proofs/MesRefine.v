(* Proofs/MesRefine.v -- link between the model's evaluation of a project (sorted sweep, binary
   shortcut, stored total satisfaction) and the textbook quantities of Spec/MesSpec.v. *)
From PB Require Export Proofs.MesTrace Spec.MesSpec.
Open Scope Q_scope.

Lemma Qmin_ext_r x y y' : y == y' -> Qmin x y == Qmin x y'.
Proof.
  intro E. apply Qle_antisym; apply Q.min_glb; try apply Q.le_min_l;
    (eapply Qle_trans; [apply Q.le_min_r|]); lra.
Qed.

Lemma s_supporters_eq P p : s_supporters P p = supporters P p.
Proof. reflexivity. Qed.

(* what the model's sweep records pay = the textbook [paid] *)
Lemma paidl_is_paid P costs buds mp rho :
  wf_mp P costs mp ->
  paidl rho (map (sup_of P buds mp) (mp_sup mp)) == paid P buds rho (mp_id mp).
Proof.
  intros Hw. pose proof Hw as [HP _].
  transitivity (paidl rho (map (sup_of P buds mp) (supporters P (mp_id mp))));
    [apply paid_perm; apply Permutation_map; exact HP|].
  unfold paid. change (s_supporters P (mp_id mp)) with (supporters P (mp_id mp)).
  assert (Hall : forall i, In i (supporters P (mp_id mp)) -> In i (supporters P (mp_id mp))) by auto.
  revert Hall. generalize (supporters P (mp_id mp)) at 1 3 4. intros l Hall.
  induction l as [|i r IH]; simpl; [reflexivity|].
  rewrite IH by (intros j Hj; apply Hall; right; exact Hj).
  assert (E : rho * supporters_sat P mp i == rho * s_util P i (mp_id mp)).
  { rewrite (supporters_sat_eq P costs mp i Hw (Hall i (or_introl eq_refl))). reflexivity. }
  rewrite (Qmin_ext_r _ _ _ E). reflexivity.
Qed.

Lemma avail_is_supp_money P costs buds mp :
  wf_mp P costs mp -> avail P buds mp == supp_money P buds (mp_id mp).
Proof.
  intros [HP _]. unfold avail, supp_money. change (s_supporters P (mp_id mp)) with (supporters P (mp_id mp)).
  apply Qsum_perm_proper. apply Permutation_map. exact HP.
Qed.

(* M rho_sweep_least, in the vocabulary of the spec: on an affordable project the model's sweep
   over its supporters sorted by budget/utility returns the least rho of the textbook definition --
   whichever path (general or binary shortcut) is taken *)
Theorem eval_rho_is_rho P costs buds mp :
  wf_voters P -> wf_buds P buds -> wf_mp P costs mp ->
  affordable costs P buds (mp_id mp) ->
  exists a0, eval_rho P buds mp (sorted_sup P buds mp) = Some a0 /\ is_rho costs P buds (mp_id mp) a0.
Proof.
  intros Hv Hb Hw Haff.
  assert (Hc : mp_cost mp = s_cost costs (mp_id mp)) by (destruct Hw as [_ [_ [E _]]]; exact E).
  assert (Ha : Qltb (avail P buds mp) (mp_cost mp) = false).
  { apply Qltb_false_iff. unfold affordable in Haff. rewrite (avail_is_supp_money P costs buds mp Hw), Hc. exact Haff. }
  destruct (eval_rho_spec P costs buds mp Hv Hb Hw Ha) as [a0 [E [_ [Hp Hl]]]].
  exists a0. split; [exact E|]. unfold is_rho. rewrite <- Hc. split.
  - rewrite <- (paidl_is_paid P costs buds mp a0 Hw). lra.
  - intros rho' H. apply Hl. rewrite (paidl_is_paid P costs buds mp rho' Hw). exact H.
Qed.

(* a project the scan removes is not affordable in the sense of the spec *)
Lemma removed_unaffordable P costs buds mp :
  wf_mp P costs mp -> Qltb (avail P buds mp) (mp_cost mp) = true -> ~ affordable costs P buds (mp_id mp).
Proof.
  intros Hw H Haff. apply Qltb_iff in H. unfold affordable in Haff.
  assert (Hc : mp_cost mp = s_cost costs (mp_id mp)) by (destruct Hw as [_ [_ [E _]]]; exact E).
  rewrite (avail_is_supp_money P costs buds mp Hw), Hc in H. lra.
Qed.
