(* Proofs/MesPriceExp.v -- C07 mes_price_system for multiplicities (a MultiProfile): on the EXPANDED
   profile (Base/Election.v [expand]: vmul copies of every class with multiplicity 1), every copy of
   class i paying what class i pays per copy, the trace of a run of the Equal Shares model is a
   price system for the returned allocation (Spec/PriceSystem.v, without exhaustiveness). *)
From PB Require Export Proofs.MesPrice.
From PB Require Spec.PriceSystem Model.Priceability Proofs.PriceabilityP.
Open Scope Q_scope.

(* ---------- a price system given as a list of (approval set, payment row) per voter ---------- *)

Definition zrow (z : list proj * list Q) (c : proj) : Q := nth c (snd z) 0.
Definition zspent (n : nat) (z : list proj * list Q) : Q := Qsum (map (zrow z) (seq 0 n)).

Lemma nth_map_fst {A B} (Z : list (A * B)) k dA dB : nth k (map fst Z) dA = fst (nth k Z (dA, dB)).
Proof. change dA with (fst (dA, dB)) at 1. apply map_nth. Qed.
Lemma nth_map_snd {A B} (Z : list (A * B)) k dA dB : nth k (map snd Z) dB = snd (nth k Z (dA, dB)).
Proof. change dB with (snd (dA, dB)) at 1. apply map_nth. Qed.

Lemma Qsum_nth_seq {A} (phi : A -> Q) (Z : list A) d :
  Qsum (map (fun k => phi (nth k Z d)) (seq 0 (length Z))) = Qsum (map phi Z).
Proof. rewrite <- (map_map (fun k => nth k Z d) phi), map_nth_seq. reflexivity. Qed.

Lemma ps_of_Z I W b (Z : list (list proj * list Q)) :
  tcost I W <= budget I ->
  (forall z c, In z Z -> (c < nproj I)%nat -> 0 <= zrow z c) ->
  (forall z c, In z Z -> (c < nproj I)%nat -> memb c (fst z) = false -> zrow z c == 0) ->
  (forall z, In z Z -> zspent (nproj I) z <= b) ->
  (forall c, In c W -> Qsum (map (fun z => zrow z c) Z) == cost I c) ->
  (forall c, (c < nproj I)%nat -> ~ In c W -> Qsum (map (fun z => zrow z c) Z) == 0) ->
  (forall c, (c < nproj I)%nat -> ~ In c W ->
     Qsum (map (fun z => if memb c (fst z) then b - zspent (nproj I) z else 0) Z) <= cost I c) ->
  PriceSystem.price_system I (map fst Z) W b (Priceability.pay_of (map snd Z)) false false.
Proof.
  intros H0 HP0 HC1 HC2 HC3 HC4 HC5.
  set (d := (@nil proj, @nil Q)).
  assert (Hlen : length (map fst Z) = length Z) by apply map_length.
  assert (Hpay : forall k c, Priceability.pay_of (map snd Z) k c = zrow (nth k Z d) c).
  { intros k c. unfold Priceability.pay_of, zrow. rewrite (nth_map_snd Z k [] []). reflexivity. }
  assert (Happr : forall k c, PriceSystem.appr (map fst Z) k c = memb c (fst (nth k Z d))).
  { intros k c. unfold PriceSystem.appr. rewrite (nth_map_fst Z k [] []). reflexivity. }
  assert (Hin : forall k, (k < length Z)%nat -> In (nth k Z d) Z) by (intros; apply nth_In; assumption).
  assert (Hspent : forall k, PriceSystem.spent I (Priceability.pay_of (map snd Z)) k = zspent (nproj I) (nth k Z d)).
  { intro k. unfold PriceSystem.spent, zspent, all_projects. apply f_equal. apply map_ext. intro c. apply Hpay. }
  assert (Hpaid : forall c, PriceSystem.paid_for (map fst Z) (Priceability.pay_of (map snd Z)) c
                            = Qsum (map (fun z => zrow z c) Z)).
  { intro c. unfold PriceSystem.paid_for, PriceSystem.voters. rewrite Hlen.
    rewrite <- (Qsum_nth_seq (fun z => zrow z c) Z d). apply f_equal. apply map_ext. intro k. apply Hpay. }
  split; [exact H0|]. split; [discriminate|]. split; [|split; [|split; [|split; [|split]]]].
  - intros k c Hk Hc. rewrite Hlen in Hk. rewrite Hpay. apply HP0; [apply Hin; exact Hk|exact Hc].
  - intros k c Hk Hc Ha. rewrite Hlen in Hk. rewrite Hpay. rewrite Happr in Ha. apply HC1; [apply Hin; exact Hk|exact Hc|exact Ha].
  - intros k Hk. rewrite Hlen in Hk. rewrite Hspent. apply HC2. apply Hin. exact Hk.
  - intros c Hc. rewrite Hpaid. apply HC3. exact Hc.
  - intros c Hc Hn. rewrite Hpaid. apply HC4; assumption.
  - intros c Hc Hn. eapply Qle_trans; [|apply (HC5 c Hc Hn)].
    unfold PriceSystem.supporters, PriceSystem.voters. rewrite Hlen.
    rewrite <- (Qsum_filter (fun k => PriceSystem.appr (map fst Z) k c)
                  (PriceSystem.leftover I b (Priceability.pay_of (map snd Z))) (seq 0 (length Z))).
    rewrite <- (Qsum_nth_seq (fun z => if memb c (fst z) then b - zspent (nproj I) z else 0) Z d).
    apply Qle_lteq. right. apply Qsum_map_ext. intros k _. rewrite Happr.
    unfold PriceSystem.leftover. rewrite Hspent. reflexivity.
Qed.

(* ---------- sums over a list of repeated entries ---------- *)

Lemma map_repeat' {A B} (f : A -> B) a k : map f (repeat a k) = repeat (f a) k.
Proof. induction k as [|k IH]; simpl; [reflexivity|rewrite IH; reflexivity]. Qed.

Lemma Qsum_repeat (a : Q) k : Qsum (repeat a k) == Qnat k * a.
Proof.
  induction k as [|k IH]; [simpl; unfold Qnat; simpl; ring|].
  change (repeat a (S k)) with (a :: repeat a k). simpl Qsum. rewrite IH, Qnat_S. ring.
Qed.

Lemma Qsum_flat_repeat {A B} (phi : B -> Q) (g : A -> B) (mlt : A -> nat) l :
  Qsum (map phi (flat_map (fun i => repeat (g i) (mlt i)) l))
  == Qsum (map (fun i => Qnat (mlt i) * phi (g i)) l).
Proof.
  induction l as [|i r IH]; simpl; [reflexivity|].
  rewrite map_app, Qsum_app, IH, map_repeat', Qsum_repeat. reflexivity.
Qed.

Lemma in_flat_repeat {A B} (g : A -> B) (mlt : A -> nat) l z :
  In z (flat_map (fun i => repeat (g i) (mlt i)) l) -> exists i, In i l /\ z = g i.
Proof.
  intro H. apply in_flat_map in H. destruct H as [i [Hi Hz]]. apply repeat_spec in Hz. exists i. split; assumption.
Qed.

(* ---------- the expanded profile and table of a run ---------- *)

Definition aset_of (n : nat) (v : vcls) : list proj := filter (fun c => Qltb 0 (util v c)) (seq 0 n).
Definition appr_of (n : nat) (Pv : list vcls) : PriceSystem.profile := map (aset_of n) Pv.

Definition row_of (n : nat) (T : list round) (i : nat) : list Q := map (fun c => trace_pay T i c) (seq 0 n).

Definition Zexp (x : mes_in) (T : list round) : list (list proj * list Q) :=
  flat_map (fun i => repeat (aset_of (length (mi_costs x)) (nth i (mi_voters x) dummy_voter),
                             row_of (length (mi_costs x)) T i)
                            (vmul (nth i (mi_voters x) dummy_voter)))
           (seq 0 (length (mi_voters x))).

Definition exp_table (x : mes_in) (o : mes_out) : list (list Q) := map snd (Zexp x (o_trace o)).

Lemma flat_map_map {A B C} (h : A -> B) (g : B -> list C) l : flat_map g (map h l) = flat_map (fun a => g (h a)) l.
Proof. induction l as [|a r IH]; simpl; [reflexivity|rewrite IH; reflexivity]. Qed.

Lemma map_flat_map {A B C} (f : B -> C) (g : A -> list B) l : map f (flat_map g l) = flat_map (fun a => map f (g a)) l.
Proof. induction l as [|a r IH]; simpl; [reflexivity|rewrite map_app, IH; reflexivity]. Qed.

(* the approval sets of the expanded profile are the first components of Zexp *)
Lemma appr_expand x T : appr_of (length (mi_costs x)) (expand (mi_voters x)) = map fst (Zexp x T).
Proof.
  unfold appr_of, expand, Zexp. rewrite !map_flat_map.
  rewrite <- (map_nth_seq (mi_voters x) dummy_voter) at 1. rewrite flat_map_map.
  apply flat_map_ext. intro i. rewrite !map_repeat'. reflexivity.
Qed.

(* ---------- what a project collects, with multiplicities ---------- *)

Lemma paid_trace_mul P cs c : forall T, Forall (round_ok P cs) T ->
  Qsum (map (fun i => vmulQ P i * trace_pay T i c) (seq 0 (length P)))
  == Qsum (map (fun r => if Nat.eqb (r_sel r) c then nth c cs 0 else 0) T).
Proof.
  induction T as [|r T IH]; intros Hok.
  - simpl. apply Qsum_map_zero. intros i _. unfold trace_pay. simpl. ring.
  - inversion Hok as [|? ? Hr HT]; subst.
    rewrite (Qsum_map_ext _ (fun i => vmulQ P i * rterm i c r + vmulQ P i * trace_pay T i c))
      by (intros; rewrite trace_pay_cons; ring).
    rewrite Qsum_map_plus, (IH HT). simpl. unfold rterm.
    destruct (Nat.eqb (r_sel r) c) eqn:E.
    + apply Nat.eqb_eq in E. subst c. rewrite <- (round_conservation P cs r Hr). reflexivity.
    + rewrite Qsum_map_zero by (intros; ring). reflexivity.
Qed.

(* ---------- the theorem ---------- *)

Definition price_hyps_m (x : mes_in) : Prop :=
  wf_inst (mi_inst x) /\ wf_voters (mi_voters x) /\ mi_init x = [] /\
  NoDup (mi_enum x) /\ (forall p, In p (mi_enum x) <-> (p < length (mi_costs x))%nat).

Lemma run_facts_m x b0 o : price_hyps_m x -> 0 <= b0 -> run_once_res x b0 = Some o ->
  Forall (round_ok (mi_voters x) (mi_costs x)) (o_trace o) /\
  chain (repeat b0 (length (mi_voters x))) (o_trace o) (o_final o) /\
  wf_buds (mi_voters x) (o_final o) /\
  o_alloc o = snd (built x) ++ map r_sel (o_trace o) /\
  NoDup (o_alloc o) /\ (forall p, In p (o_alloc o) -> (p < length (mi_costs x))%nat).
Proof.
  intros [Hwf [Hv [Hinit [He Her]]]] Hb Hrun.
  destruct (run_once_inv x b0 o Hv Hb Hrun) as [_ [A [B C]]].
  assert (Hn0 : NoDup (mi_init x)) by (rewrite Hinit; constructor).
  assert (Hr0 : forall p, In p (mi_init x) -> (p < length (mi_costs x))%nat) by (rewrite Hinit; intros ? []).
  destruct (run_once_res_Str x b0 o Hn0 Hr0 He (fun p Hp => proj1 (Her p) Hp) Hrun) as [D [E _]].
  split; [exact A|]. split; [exact B|]. split; [exact C|]. split; [|split; assumption].
  unfold run_once_res in Hrun.
  destruct (run_res _ _ _ _ _ _ _) as [[[[alloc tr] fin] rest]|] eqn:Er; [|discriminate].
  injection Hrun as <-. simpl.
  apply run_res_steps in Er. destruct Er as [s [_ [_ [_ [_ [T' [E1 E2]]]]]]]. simpl in E1. subst T'.
  rewrite E2. unfold start_alloc. rewrite Hinit. reflexivity.
Qed.

(* what the supporters of a project outside the allocation hold at the end is at most its cost *)
Lemma final_money_bound x b0 o c :
  price_hyps_m x -> 0 <= b0 -> run_once_res x b0 = Some o ->
  (c < length (mi_costs x))%nat -> ~ In c (o_alloc o) ->
  smoney (mi_voters x) (o_final o) c <= nth c (mi_costs x) 0.
Proof.
  intros Hh Hb Hrun Hc Hn. pose proof Hh as [[Hcost _] [Hv [Hinit [He Her]]]].
  destruct (run_facts_m x b0 o Hh Hb Hrun) as [_ [_ [_ [Halloc _]]]].
  set (P := mi_voters x) in *. set (cs := mi_costs x) in *.
  destruct (supporters P c) as [|i0 sr] eqn:Es.
  - unfold smoney. rewrite Es. simpl. apply (cost_nonneg (mi_inst x) c Hcost).
  - assert (Hts : Qltb 0 (total_sat P c (supporters P c)) = true).
    { apply Qltb_iff. apply total_sat_pos; [exact Hv|rewrite Es; discriminate]. }
    assert (Hcand : In c (candidates x)).
    { apply candidates_In. split; [apply Her; exact Hc|rewrite Hinit; intros []]. }
    destruct (mk_projects_complete P cs (mi_bin x) (candidates x) c Hcand Hts) as [K1 K2].
    fold (built x) in K1, K2.
    destruct (Qlt_le_dec 0 (nth c cs 0)) as [Hpos|Hz].
    + specialize (K1 Hpos). unfold ids in K1. apply in_map_iff in K1. destruct K1 as [mp [Eid Hmp]].
      destruct (trace_final_unaffordable x b0 o Hv Hb Hrun) as [U _].
      assert (Hnin : ~ In (mp_id mp) (o_alloc o)) by (rewrite Eid; exact Hn).
      pose proof (U mp Hmp Hnin) as Hlt.
      assert (Hw : wf_mp P cs mp).
      { pose proof (mk_projects_wf P cs (mi_bin x) (candidates x)) as Hall.
        rewrite Forall_forall in Hall. apply Hall. exact Hmp. }
      fold P in Hlt. rewrite (avail_smoney P cs _ mp Hw), (wf_mp_cost P cs mp Hw), Eid in Hlt. lra.
    + exfalso. apply Hn. rewrite Halloc. apply in_or_app. left. apply K2. exact Hz.
Qed.

Theorem mes_price_system_expanded x b0 o :
  price_hyps_m x -> 0 <= b0 -> run_once_res x b0 = Some o ->
  tcost (mi_inst x) (o_alloc o) <= mi_budget x ->
  PriceSystem.price_system (mi_inst x) (appr_of (length (mi_costs x)) (expand (mi_voters x))) (o_alloc o) b0
    (Priceability.pay_of (exp_table x o)) false false.
Proof.
  intros Hh Hb Hrun Hfeas. pose proof Hh as [[Hcost _] [Hv [Hinit [He Her]]]].
  destruct (run_facts_m x b0 o Hh Hb Hrun) as [Hok [Hch [Hfin [Halloc [Hnd Hrange]]]]].
  rewrite (appr_expand x (o_trace o)). unfold exp_table.
  set (P := mi_voters x) in *. set (cs := mi_costs x) in *. set (T := o_trace o) in *.
  set (n := length cs) in *.
  set (g := fun i => (aset_of n (nth i P dummy_voter), row_of n T i)).
  set (mlt := fun i => vmul (nth i P dummy_voter)).
  assert (EZ : Zexp x T = flat_map (fun i => repeat (g i) (mlt i)) (seq 0 (length P))) by reflexivity.
  rewrite EZ.
  assert (Hz : forall z, In z (flat_map (fun i => repeat (g i) (mlt i)) (seq 0 (length P))) ->
                 exists i, (i < length P)%nat /\ z = g i).
  { intros z Hin. apply in_flat_repeat in Hin. destruct Hin as [i [Hi E]]. apply in_seq in Hi. exists i. split; [lia|exact E]. }
  assert (Hrow : forall i c, (c < n)%nat -> zrow (g i) c = trace_pay T i c).
  { intros i c Hc. unfold zrow, g, row_of. simpl. apply (PriceabilityP.nth_map_seq _ n c 0 Hc). }
  assert (Hsp : forall i, (i < length P)%nat -> zspent n (g i) == b0 - vbud (o_final o) i).
  { intros i Hi. unfold zspent.
    rewrite (map_ext_in (zrow (g i)) (trace_pay T i)) by (intros c Hc; apply in_seq in Hc; apply Hrow; lia).
    pose proof (spent_trace P cs i T _ _ Hok Hch) as Hs. fold n in Hs. rewrite Hs.
    unfold vbud at 1. rewrite nth_repeat_lt by exact Hi. reflexivity. }
  assert (Hsum : forall c, (c < n)%nat ->
            Qsum (map (fun z => zrow z c) (flat_map (fun i => repeat (g i) (mlt i)) (seq 0 (length P))))
            == Qsum (map (fun r => if Nat.eqb (r_sel r) c then nth c cs 0 else 0) T)).
  { intros c Hc. rewrite (Qsum_flat_repeat (fun z => zrow z c) g mlt).
    rewrite <- (paid_trace_mul P cs c T Hok). apply Qsum_map_ext. intros i _. rewrite (Hrow i c Hc). reflexivity. }
  assert (HndT : NoDup (map r_sel T)).
  { rewrite Halloc in Hnd. apply NoDup_app_split in Hnd. tauto. }
  destruct (mk_projects_spec P cs (mi_bin x) (candidates x)) as [_ [Mz _]]. fold (built x) in Mz.
  change (nproj (mi_inst x)) with n.
  apply ps_of_Z.
  - exact Hfeas.
  - intros z c Hin Hc. destruct (Hz z Hin) as [i [Hi ->]]. change (nproj (mi_inst x)) with n in Hc.
    rewrite (Hrow i c Hc). apply (trace_pay_nonneg P cs); assumption.
  - intros z c Hin Hc Hm. destruct (Hz z Hin) as [i [Hi ->]]. change (nproj (mi_inst x)) with n in Hc.
    rewrite (Hrow i c Hc). apply (trace_pay_nonsupp P cs); try assumption.
    unfold g, aset_of in Hm. simpl in Hm. rewrite memb_filter_seq in Hm.
    apply Nat.ltb_lt in Hc. rewrite Hc in Hm. simpl in Hm.
    intro Hs. apply supporters_spec in Hs. apply Qltb_false_iff in Hm. unfold vutil in Hs. lra.
  - intros z Hin. destruct (Hz z Hin) as [i [Hi ->]]. change (nproj (mi_inst x)) with n.
    rewrite (Hsp i Hi). pose proof (vbud_nonneg P (o_final o) i Hfin). lra.
  - intros c Hc. rewrite (Hsum c (Hrange c Hc)). change (cost (mi_inst x) c) with (nth c cs 0).
    rewrite Halloc in Hc. apply in_app_or in Hc. destruct Hc as [Hc|Hc].
    + rewrite sel_sum_notin.
      * destruct (Mz c Hc) as [_ Hle]. pose proof (cost_nonneg (mi_inst x) c Hcost) as Hge.
        change (cost (mi_inst x) c) with (nth c cs 0) in Hge. fold cs in Hle. lra.
      * intro Hin. rewrite Halloc in Hnd. apply NoDup_app_split in Hnd. destruct Hnd as [_ Hd]. apply (Hd c Hc Hin).
    + apply sel_sum_in; assumption.
  - intros c Hc Hn. change (nproj (mi_inst x)) with n in Hc. rewrite (Hsum c Hc). apply sel_sum_notin.
    intro Hin. apply Hn. rewrite Halloc. apply in_or_app. right. exact Hin.
  - intros c Hc Hn. change (nproj (mi_inst x)) with n in Hc. change (cost (mi_inst x) c) with (nth c cs 0).
    eapply Qle_trans; [|apply (final_money_bound x b0 o c Hh Hb Hrun Hc Hn)]. fold P.
    change (nproj (mi_inst x)) with n.
    rewrite (Qsum_flat_repeat (fun z => if memb c (fst z) then b0 - zspent n z else 0) g mlt).
    unfold smoney, supporters. rewrite <- Qsum_filter.
    apply Qle_lteq. right. apply Qsum_map_ext. intros i Hi. apply in_seq in Hi.
    unfold g at 1. cbn [fst]. unfold aset_of. rewrite memb_filter_seq.
    apply Nat.ltb_lt in Hc. rewrite Hc. cbn [andb]. change (util (nth i P dummy_voter) c) with (vutil P i c).
    destruct (Qltb 0 (vutil P i c)); [|ring].
    rewrite (Hsp i) by lia. unfold vmulQ, mlt. ring.
Qed.

(* the plain rule on a MultiProfile *)
Theorem mes_price_system_multi x o :
  price_hyps_m x -> (1 <= nvoters (mi_voters x))%nat -> mes_resolute x = Some o ->
  PriceSystem.price_system (mi_inst x) (appr_of (length (mi_costs x)) (expand (mi_voters x))) (o_alloc o) (share x)
    (Priceability.pay_of (exp_table x o)) false false /\
  Priceability.validate_ps (mi_inst x) (appr_of (length (mi_costs x)) (expand (mi_voters x))) (o_alloc o) (share x)
    (exp_table x o) false false = true.
Proof.
  intros Hh Hn Hrun. pose proof Hh as [Hwf [Hv [Hinit [He Her]]]].
  pose proof (init_nil_ok x Hwf Hinit) as Hle.
  assert (Hf0 : feasible (mi_inst x) (mi_init x)).
  { rewrite Hinit in *. split; [constructor|]. split; [intros ? []|exact Hle]. }
  assert (Hm : mes_hyps x).
  { split; [exact Hwf|]. split; [exact Hv|]. split; [exact Hn|]. split; [exact Hf0|].
    split; [exact He|]. intros p Hp. apply Her. exact Hp. }
  destruct (mes_feasible x o Hm Hrun) as [[_ [_ Hc]] _].
  assert (Hps : PriceSystem.price_system (mi_inst x) (appr_of (length (mi_costs x)) (expand (mi_voters x)))
                  (o_alloc o) (share x) (Priceability.pay_of (exp_table x o)) false false).
  { apply mes_price_system_expanded; try assumption. apply share_nonneg. exact Hle. }
  split; [exact Hps|]. apply PriceabilityP.validate_complete. exact Hps.
Qed.
