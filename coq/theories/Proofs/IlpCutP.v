(* Proofs/IlpCutP.v -- the integer-cut enumeration loop of the ILP max-welfare scheme
   (pabutools/rules/maxwelfare.py, irresolute branch) relative to an abstract exact 0/1 solver.

   1. the two cut rows built from [prev] exclude exactly [prev]           (cut_rows_exclude)
   2. Section IlpProof: for a solver that is exact on the rows it is given,
        cut_loop returns every 0/1 point of the base rows exactly once    (cut_loop_enumerates)
        ilp_scheme (irresolute) = all welfare-optimal feasible vectors    (ilp_enumeration)
        ilp_scheme (resolute)   = one welfare-optimal feasible vector     (ilp_resolute_optimal)
   3. vectors <-> project lists: select_tcost, select_welfare, select_inj, select_sublist(_conv)
   4. non-vacuity of the solver hypothesis: brute-force solver bf_solve / bf_solve_spec *)
From PB Require Import Model.MaxWelfare.
Open Scope Q_scope.

(* ---------------------------------------------------------------------------------------------- *)
(* small unfolding lemmas                                                                          *)
(* ---------------------------------------------------------------------------------------------- *)
Lemma dot_cons c cr (v : bool) xr : dot (c :: cr) (v :: xr) = (if v then c else 0) + dot cr xr.
Proof. reflexivity. Qed.
Lemma dot_nil_l x : dot [] x = 0.
Proof. reflexivity. Qed.
Lemma dot_nil_r c : dot c [] = 0.
Proof. destruct c; reflexivity. Qed.

Lemma Qnat_S k : Qnat (S k) == 1 + Qnat k.
Proof.
  unfold Qnat. rewrite Nat2Z.inj_succ. unfold Z.succ. rewrite inject_Z_plus.
  change (inject_Z 1) with 1. ring.
Qed.
Lemma Qnat_0 : Qnat 0 == 0.
Proof. reflexivity. Qed.
Lemma Qnat_ge1 h : 1 <= Qnat h <-> (h <> 0)%nat.
Proof.
  unfold Qnat. change 1 with (inject_Z 1). rewrite <- Zle_Qle. lia.
Qed.

Lemma count_true_cons_true p : count_true (true :: p) = S (count_true p).
Proof. reflexivity. Qed.
Lemma count_true_cons_false p : count_true (false :: p) = count_true p.
Proof. reflexivity. Qed.

(* ---------------------------------------------------------------------------------------------- *)
(* 1. the cut rows                                                                                 *)
(* ---------------------------------------------------------------------------------------------- *)
Fixpoint hamming (x y : list bool) : nat :=
  match x, y with
  | a :: r, b :: s => ((if Bool.eqb a b then 0 else 1) + hamming r s)%nat
  | _, _ => O
  end.

Lemma hamming_0_iff : forall x y, length x = length y -> (hamming x y = 0%nat <-> x = y).
Proof.
  induction x as [|a x IH]; intros [|b y] H; simpl in H; try discriminate.
  - simpl. tauto.
  - injection H as H. specialize (IH y H). simpl.
    destruct a, b; simpl; split; intro E; try discriminate; try lia.
    + f_equal. apply IH. lia.
    + injection E as E. apply IH in E. lia.
    + f_equal. apply IH. lia.
    + injection E as E. apply IH in E. lia.
Qed.

Definition gec (v : bool) : Q := if v then -(1) else 1.
Definition lec (v : bool) : Q := if v then 1 else -(1).

Lemma dot_ge_hamming : forall prev x, length x = length prev ->
  dot (map gec prev) x + Qnat (count_true prev) == Qnat (hamming x prev).
Proof.
  induction prev as [|b p IH]; intros [|a x] H; simpl in H; try discriminate.
  - cbn. reflexivity.
  - injection H as H. specialize (IH x H).
    cbn [map]. rewrite dot_cons.
    pose proof (Qnat_S (count_true p)) as H1. pose proof (Qnat_S (hamming x p)) as H2.
    destruct a, b; cbn [hamming Bool.eqb gec Nat.add];
      rewrite ?count_true_cons_true, ?count_true_cons_false; lra.
Qed.

Lemma dot_le_hamming : forall prev x, length x = length prev ->
  dot (map lec prev) x + Qnat (hamming x prev) == Qnat (count_true prev).
Proof.
  induction prev as [|b p IH]; intros [|a x] H; simpl in H; try discriminate.
  - cbn. reflexivity.
  - injection H as H. specialize (IH x H).
    cbn [map]. rewrite dot_cons.
    pose proof (Qnat_S (count_true p)) as H1. pose proof (Qnat_S (hamming x p)) as H2.
    destruct a, b; cbn [hamming Bool.eqb lec Nat.add];
      rewrite ?count_true_cons_true, ?count_true_cons_false; lra.
Qed.

Lemma cut_ge_excludes : forall prev x, length x = length prev ->
  (row_ok x (cut_ge prev) = true <-> x <> prev).
Proof.
  intros prev x H. unfold row_ok, cut_ge. cbn [rsense rcoef rrhs].
  rewrite Qleb_iff. pose proof (dot_ge_hamming prev x H) as E. fold gec.
  rewrite <- (hamming_0_iff x prev H). rewrite <- Qnat_ge1.
  unfold gec in *. split; intro; lra.
Qed.

Lemma cut_le_excludes : forall prev x, length x = length prev ->
  (row_ok x (cut_le prev) = true <-> x <> prev).
Proof.
  intros prev x H. unfold row_ok, cut_le. cbn [rsense rcoef rrhs].
  rewrite Qleb_iff. pose proof (dot_le_hamming prev x H) as E.
  rewrite <- (hamming_0_iff x prev H). rewrite <- Qnat_ge1.
  unfold lec in *. split; intro; lra.
Qed.

Lemma cut_rows_exclude : forall prev x, length x = length prev ->
  (row_ok x (cut_ge prev) && row_ok x (cut_le prev) = true <-> x <> prev).
Proof.
  intros prev x H. rewrite andb_true_iff, (cut_ge_excludes prev x H), (cut_le_excludes prev x H).
  tauto.
Qed.

(* ---------------------------------------------------------------------------------------------- *)
(* helpers: vector equality, the 2^n vectors, rows                                                 *)
(* ---------------------------------------------------------------------------------------------- *)
Lemma bvec_eqb_iff : forall x y, bvec_eqb x y = true <-> x = y.
Proof.
  induction x as [|a x IH]; intros [|b y]; simpl; try (split; congruence).
  rewrite andb_true_iff, IH, Bool.eqb_true_iff. split.
    + intros [-> ->]. reflexivity.
    + intros E. injection E as -> ->. auto.
Qed.

Lemma bvec_mem_iff x l : bvec_mem x l = true <-> In x l.
Proof.
  unfold bvec_mem. rewrite existsb_exists. split.
  - intros [y [Hy E]]. apply bvec_eqb_iff in E. subst. exact Hy.
  - intros H. exists x. split; [exact H|]. apply bvec_eqb_iff. reflexivity.
Qed.

Lemma bvec_mem_false_iff x l : bvec_mem x l = false <-> ~ In x l.
Proof. rewrite <- bvec_mem_iff. destruct (bvec_mem x l); split; congruence. Qed.

Fixpoint all_bvecs (n : nat) : list (list bool) :=
  match n with
  | O => [[]]
  | S k => map (cons true) (all_bvecs k) ++ map (cons false) (all_bvecs k)
  end.

Lemma all_bvecs_length n : length (all_bvecs n) = (2 ^ n)%nat.
Proof.
  induction n as [|n IH]; [reflexivity|].
  cbn [all_bvecs]. rewrite app_length, !map_length, IH. simpl. lia.
Qed.

Lemma all_bvecs_In : forall n x, In x (all_bvecs n) <-> length x = n.
Proof.
  induction n as [|n IH]; intros x.
  - simpl. split.
    + intros [<-|[]]. reflexivity.
    + destruct x; [auto|discriminate].
  - cbn [all_bvecs]. rewrite in_app_iff, !in_map_iff. split.
    + intros [[y [<- Hy]]|[y [<- Hy]]]; apply IH in Hy; simpl; lia.
    + destruct x as [|[|] x]; simpl; intro H; try discriminate; injection H as H; apply IH in H.
      * left. exists x. auto.
      * right. exists x. auto.
Qed.

Lemma bvecs_bound n (l : list (list bool)) :
  NoDup l -> (forall x, In x l -> length x = n) -> (length l <= 2 ^ n)%nat.
Proof.
  intros Hnd Hl. rewrite <- all_bvecs_length. apply NoDup_incl_length; [exact Hnd|].
  intros x Hx. apply all_bvecs_In. apply Hl. exact Hx.
Qed.

Lemma rows_ok_app r1 r2 x : rows_ok (r1 ++ r2) x = rows_ok r1 x && rows_ok r2 x.
Proof. unfold rows_ok. apply forallb_app. Qed.

Lemma rows_ok_cuts rows prev x : length x = length prev ->
  (rows_ok (rows ++ [cut_ge prev; cut_le prev]) x = true <-> rows_ok rows x = true /\ x <> prev).
Proof.
  intros H. rewrite rows_ok_app, andb_true_iff. unfold rows_ok at 2. cbn [forallb].
  rewrite andb_true_r, (cut_rows_exclude prev x H). tauto.
Qed.

(* ---------------------------------------------------------------------------------------------- *)
(* 2. the enumeration loop                                                                         *)
(* ---------------------------------------------------------------------------------------------- *)
Section IlpProof.
  Variable solve : list Q -> list lrow -> option (list bool).
  Variable n : nat.
  Hypothesis solve_spec : forall obj rows, length obj = n ->
    match solve obj rows with
    | Some x => length x = n /\ rows_ok rows x = true /\
                (forall y, length y = n -> rows_ok rows y = true -> dot obj y <= dot obj x)
    | None => forall y, length y = n -> rows_ok rows y = false
    end.

  Lemma cut_loop_inv : forall obj base, length obj = n ->
    forall fuel rows prev acc,
      In prev acc -> NoDup acc ->
      (forall p, In p acc -> length p = n /\ rows_ok base p = true) ->
      (forall x, length x = n ->
         (rows_ok rows x = true <->
          rows_ok base x = true /\ forall p, In p acc -> p <> prev -> x <> p)) ->
      (2 ^ n + 1 < fuel + length acc)%nat ->
      exists res, cut_loop solve fuel obj rows prev acc = Some res /\ NoDup res /\
                  (forall x, In x res <-> length x = n /\ rows_ok base x = true).
  Proof.
    intros obj base Hobj. induction fuel as [|f IH]; intros rows prev acc Hprev Hnd Hall Hrows Hfuel.
    - exfalso. pose proof (bvecs_bound n acc Hnd (fun x Hx => proj1 (Hall x Hx))). simpl in Hfuel. lia.
    - cbn [cut_loop].
      assert (Hlp : length prev = n) by (apply Hall; exact Hprev).
      assert (Hrows' : forall x, length x = n ->
                (rows_ok (rows ++ [cut_ge prev; cut_le prev]) x = true <->
                 rows_ok base x = true /\ forall p, In p acc -> x <> p)).
      { intros x Hx. rewrite rows_ok_cuts by congruence. rewrite (Hrows x Hx). split.
        - intros [[Hb Hne] Hxp]. split; [exact Hb|]. intros p Hp E.
          destruct (list_eq_dec Bool.bool_dec p prev) as [->|Hpp].
          + contradiction.
          + exact (Hne p Hp Hpp E).
        - intros [Hb Hne]. split; [split; [exact Hb|]|].
          + intros p Hp _. apply Hne. exact Hp.
          + apply Hne. exact Hprev. }
      pose proof (solve_spec obj (rows ++ [cut_ge prev; cut_le prev]) Hobj) as Hs.
      destruct (solve obj (rows ++ [cut_ge prev; cut_le prev])) as [x|].
      + destruct Hs as [Hx [Hok _]]. apply (Hrows' x Hx) in Hok. destruct Hok as [Hb Hne].
        assert (Hnin : ~ In x acc) by (intro Hin; exact (Hne x Hin eq_refl)).
        apply bvec_mem_false_iff in Hnin as Hmem. rewrite Hmem.
        apply IH.
        * apply in_or_app. right. left. reflexivity.
        * apply NoDup_app_intro; [exact Hnd|constructor; [intros []|constructor]|].
          intros y Hy [<-|[]]. contradiction.
        * intros p Hp. apply in_app_or in Hp. destruct Hp as [Hp|[<-|[]]]; [apply Hall; exact Hp|auto].
        * intros y Hy. rewrite (Hrows' y Hy). split; intros [Hyb Hyne]; (split; [exact Hyb|]).
          -- intros p Hp Hpx. apply in_app_or in Hp. destruct Hp as [Hp|[<-|[]]].
             ++ apply Hyne. exact Hp.
             ++ congruence.
          -- intros p Hp. apply Hyne; [apply in_or_app; left; exact Hp|].
             intros ->. contradiction.
        * rewrite app_length. simpl. lia.
      + exists acc. split; [reflexivity|]. split; [exact Hnd|]. intros x. split.
        * apply Hall.
        * intros [Hx Hb]. specialize (Hs x Hx).
          destruct (in_dec (list_eq_dec Bool.bool_dec) x acc) as [Hin|Hnin]; [exact Hin|].
          exfalso. assert (rows_ok (rows ++ [cut_ge prev; cut_le prev]) x = true) as E.
          { apply (Hrows' x Hx). split; [exact Hb|]. intros p Hp ->. contradiction. }
          congruence.
  Qed.

  Theorem cut_loop_enumerates : forall obj base, length obj = n ->
    forall x0, length x0 = n -> rows_ok base x0 = true ->
    forall fuel, (2 ^ n < fuel)%nat ->
    exists acc, cut_loop solve fuel obj base x0 [x0] = Some acc /\ NoDup acc /\
                (forall x, In x acc <-> length x = n /\ rows_ok base x = true).
  Proof.
    intros obj base Hobj x0 Hx0 Hb fuel Hfuel.
    apply (cut_loop_inv obj base Hobj).
    - left. reflexivity.
    - constructor; [intros []|constructor].
    - intros p [<-|[]]. auto.
    - intros x Hx. split.
      + intros H. split; [exact H|]. intros p [<-|[]] Hne. congruence.
      + tauto.
    - simpl. lia.
  Qed.
  (* a vector satisfies [budget_row; objective == opt] iff it fits the budget and attains opt *)
  Lemma base_rows_iff cst obj B opt x :
    rows_ok [mkRow cst SLe B; mkRow obj SEq opt] x = true <-> dot cst x <= B /\ dot obj x == opt.
  Proof.
    unfold rows_ok. cbn [forallb]. unfold row_ok. cbn [rsense rcoef rrhs].
    rewrite andb_true_r, andb_true_iff, Qleb_iff, Qeqb_iff. tauto.
  Qed.

  Lemma budget_row_iff cst B x : rows_ok [mkRow cst SLe B] x = true <-> dot cst x <= B.
  Proof.
    unfold rows_ok. cbn [forallb]. unfold row_ok. cbn [rsense rcoef rrhs].
    rewrite andb_true_r, Qleb_iff. tauto.
  Qed.

  Theorem ilp_enumeration : forall I score enum init fuel,
    length (ilp_vars enum init) = n -> (2 ^ n < fuel)%nat ->
    forall x0,
    solve (map (score_of score) (ilp_vars enum init))
          [mkRow (map (cost I) (ilp_vars enum init)) SLe (budget I - tcost I init)] = Some x0 ->
    exists acc,
      ilp_scheme solve fuel I score enum init false
        = Some (map (fun x => select (ilp_vars enum init) x ++ init) acc) /\
      NoDup acc /\
      (forall x, In x acc <->
         (length x = n /\
          dot (map (cost I) (ilp_vars enum init)) x <= budget I - tcost I init /\
          (forall y, length y = n ->
             dot (map (cost I) (ilp_vars enum init)) y <= budget I - tcost I init ->
             dot (map (score_of score) (ilp_vars enum init)) y
               <= dot (map (score_of score) (ilp_vars enum init)) x))).
  Proof.
    intros I score enum init fuel Hn Hfuel x0 Hsolve.
    set (vars := ilp_vars enum init) in *.
    set (obj := map (score_of score) vars) in *.
    set (cst := map (cost I) vars) in *.
    set (B := budget I - tcost I init) in *.
    assert (Hobj : length obj = n) by (unfold obj; rewrite map_length; exact Hn).
    pose proof (solve_spec obj [mkRow cst SLe B] Hobj) as Hs. rewrite Hsolve in Hs.
    destruct Hs as [Hx0 [Hok0 Hopt0]]. apply budget_row_iff in Hok0.
    assert (Hopt0' : forall y, length y = n -> dot cst y <= B -> dot obj y <= dot obj x0).
    { intros y Hy Hc. apply Hopt0; [exact Hy|]. apply budget_row_iff. exact Hc. }
    destruct (cut_loop_enumerates obj [mkRow cst SLe B; mkRow obj SEq (dot obj x0)] Hobj x0 Hx0)
      with (fuel := fuel) as [acc [Hloop [Hnd Hacc]]].
    { apply base_rows_iff. split; [exact Hok0|reflexivity]. }
    { exact Hfuel. }
    exists acc. split; [|split; [exact Hnd|]].
    - unfold ilp_scheme. fold vars. fold obj. fold cst. fold B. rewrite Hsolve.
      rewrite Hloop. reflexivity.
    - intros x. rewrite (Hacc x), base_rows_iff. split.
      + intros [Hx [Hc He]]. split; [exact Hx|]. split; [exact Hc|].
        intros y Hy Hcy. pose proof (Hopt0' y Hy Hcy). lra.
      + intros [Hx [Hc Hopt]]. split; [exact Hx|]. split; [exact Hc|].
        pose proof (Hopt x0 Hx0 Hok0). pose proof (Hopt0' x Hx Hc). lra.
  Qed.

  Theorem ilp_resolute_optimal : forall I score enum init fuel,
    length (ilp_vars enum init) = n ->
    forall x0,
    solve (map (score_of score) (ilp_vars enum init))
          [mkRow (map (cost I) (ilp_vars enum init)) SLe (budget I - tcost I init)] = Some x0 ->
    ilp_scheme solve fuel I score enum init true = Some [select (ilp_vars enum init) x0 ++ init] /\
    length x0 = n /\
    dot (map (cost I) (ilp_vars enum init)) x0 <= budget I - tcost I init /\
    (forall y, length y = n ->
       dot (map (cost I) (ilp_vars enum init)) y <= budget I - tcost I init ->
       dot (map (score_of score) (ilp_vars enum init)) y
         <= dot (map (score_of score) (ilp_vars enum init)) x0).
  Proof.
    intros I score enum init fuel Hn x0 Hsolve.
    assert (Hobj : length (map (score_of score) (ilp_vars enum init)) = n)
      by (rewrite map_length; exact Hn).
    pose proof (solve_spec _ [mkRow (map (cost I) (ilp_vars enum init)) SLe
                                    (budget I - tcost I init)] Hobj) as Hs.
    rewrite Hsolve in Hs. destruct Hs as [Hx0 [Hok0 Hopt0]]. apply budget_row_iff in Hok0.
    split; [|split; [exact Hx0|split; [exact Hok0|]]].
    - unfold ilp_scheme. rewrite Hsolve. reflexivity.
    - intros y Hy Hc. apply Hopt0; [exact Hy|]. apply budget_row_iff. exact Hc.
  Qed.
End IlpProof.

(* ---------------------------------------------------------------------------------------------- *)
(* 3. from 0/1 vectors to project lists                                                            *)
(* ---------------------------------------------------------------------------------------------- *)
Lemma select_Qsum {A} (f : A -> Q) : forall (vars : list A) x, length x = length vars ->
  Qsum (map f (select vars x)) == dot (map f vars) x.
Proof.
  induction vars as [|p r IH]; intros [|v x] H; simpl in H; try discriminate.
  - reflexivity.
  - injection H as H. specialize (IH x H). cbn [map select]. rewrite dot_cons.
    destruct v; cbn [map Qsum]; lra.
Qed.

Lemma select_tcost : forall I vars x, length x = length vars ->
  tcost I (select vars x) == dot (map (cost I) vars) x.
Proof. intros I vars x H. unfold tcost. apply select_Qsum. exact H. Qed.

Lemma select_welfare : forall score vars x, length x = length vars ->
  welfare score (select vars x) == dot (map (score_of score) vars) x.
Proof. intros score vars x H. unfold welfare. apply (select_Qsum (score_of score)). exact H. Qed.

Lemma select_sublist : forall (vars : list proj) x, sublist (select vars x) vars.
Proof.
  induction vars as [|p r IH]; intros [|v x]; cbn [select]; try apply sublist_nil_l.
  destruct v; constructor; apply IH.
Qed.

Lemma select_sublist_conv : forall (vars S : list proj), sublist S vars ->
  exists x, length x = length vars /\ select vars x = S.
Proof.
  intros vars S H. induction H as [|p s l _ [x [Hl Hs]]|p s l _ [x [Hl Hs]]].
  - exists []. auto.
  - exists (false :: x). simpl. split; [lia|exact Hs].
  - exists (true :: x). simpl. split; [lia|f_equal; exact Hs].
Qed.

Lemma select_In_vars (vars : list proj) x p : In p (select vars x) -> In p vars.
Proof. apply sublist_In. apply select_sublist. Qed.

Lemma select_inj : forall (vars : list proj) x y, NoDup vars -> length x = length vars -> length y = length vars ->
  (forall p, In p (select vars x) <-> In p (select vars y)) -> x = y.
Proof.
  induction vars as [|a r IH]; intros [|u x] [|v y] Hnd Hx Hy Hset; simpl in Hx, Hy; try discriminate.
  - reflexivity.
  - injection Hx as Hx. injection Hy as Hy. inversion Hnd as [|a' r' Ha Hr]; subst.
    cbn [select] in Hset.
    assert (Htail : forall sx sy : list proj,
              (forall p, In p sx -> In p r) -> (forall p, In p sy -> In p r) ->
              forall p, (In p (a :: sx) <-> In p (a :: sy)) -> (In p sx <-> In p sy)).
    { intros sx sy Hsx Hsy p [H1 H2]. split; intro Hp.
      - destruct (H1 (or_intror Hp)) as [<-|H]; [exfalso; apply Ha, Hsx, Hp|exact H].
      - destruct (H2 (or_intror Hp)) as [<-|H]; [exfalso; apply Ha, Hsy, Hp|exact H]. }
    destruct u, v.
    + f_equal. apply IH; try assumption. intros p. apply Htail; try apply Hset;
        intros q; apply select_In_vars.
    + exfalso. apply Ha. apply (select_In_vars r y). apply Hset. left. reflexivity.
    + exfalso. apply Ha. apply (select_In_vars r x). apply Hset. left. reflexivity.
    + f_equal. apply IH; assumption.
Qed.

(* ---------------------------------------------------------------------------------------------- *)
(* 4. the solver hypothesis is satisfiable: brute force over all 2^n vectors                       *)
(* ---------------------------------------------------------------------------------------------- *)
Fixpoint argmax_dot (obj : list Q) (l : list (list bool)) : option (list bool) :=
  match l with
  | [] => None
  | x :: r =>
      match argmax_dot obj r with
      | None => Some x
      | Some y => if Qleb (dot obj y) (dot obj x) then Some x else Some y
      end
  end.

Lemma argmax_dot_spec obj : forall l,
  match argmax_dot obj l with
  | Some x => In x l /\ forall y, In y l -> dot obj y <= dot obj x
  | None => l = []
  end.
Proof.
  induction l as [|x r IH]; [reflexivity|]. cbn [argmax_dot].
  destruct (argmax_dot obj r) as [z|].
  - destruct IH as [Hz Hmax]. destruct (Qleb (dot obj z) (dot obj x)) eqn:E.
    + apply Qleb_iff in E. split; [left; reflexivity|]. intros y [<-|Hy]; [lra|].
      pose proof (Hmax y Hy). lra.
    + apply Qleb_false_iff in E. split; [right; exact Hz|]. intros y [<-|Hy]; [lra|].
      apply Hmax. exact Hy.
  - subst r. split; [left; reflexivity|]. intros y [<-|[]]. lra.
Qed.

Definition bf_solve (n : nat) (obj : list Q) (rows : list lrow) : option (list bool) :=
  argmax_dot obj (filter (rows_ok rows) (all_bvecs n)).

Lemma bf_solve_spec : forall n obj rows, length obj = n ->
  match bf_solve n obj rows with
  | Some x => length x = n /\ rows_ok rows x = true /\
              (forall y, length y = n -> rows_ok rows y = true -> dot obj y <= dot obj x)
  | None => forall y, length y = n -> rows_ok rows y = false
  end.
Proof.
  intros n obj rows _. unfold bf_solve.
  pose proof (argmax_dot_spec obj (filter (rows_ok rows) (all_bvecs n))) as H.
  destruct (argmax_dot obj (filter (rows_ok rows) (all_bvecs n))) as [x|].
  - destruct H as [Hx Hmax]. apply filter_In in Hx. destruct Hx as [Hx Hok].
    apply all_bvecs_In in Hx. split; [exact Hx|]. split; [exact Hok|].
    intros y Hy Hoky. apply Hmax. apply filter_In. split; [apply all_bvecs_In; exact Hy|exact Hoky].
  - intros y Hy. destruct (rows_ok rows y) eqn:E; [|reflexivity]. exfalso.
    assert (In y (filter (rows_ok rows) (all_bvecs n))) as Hin.
    { apply filter_In. split; [apply all_bvecs_In; exact Hy|exact E]. }
    rewrite H in Hin. destruct Hin.
Qed.

(* the section theorems instantiated with the brute-force solver: no hypothesis left *)
Definition bf_cut_loop_enumerates n := cut_loop_enumerates (bf_solve n) n (bf_solve_spec n).
Definition bf_ilp_enumeration n := ilp_enumeration (bf_solve n) n (bf_solve_spec n).
