(* Proofs/SatisfactionP.v -- lemmas and proofs about Model/Satisfaction.v (property C10). *)
From PB Require Import Model.Satisfaction Spec.SatSpec Proofs.InstanceP.
Open Scope Q_scope.

(* ---------- small arithmetic ---------- *)

Lemma Qnat_S n : Qnat (S n) == 1 + Qnat n.
Proof.
  unfold Qnat. rewrite Nat2Z.inj_succ, <- Z.add_1_l, inject_Z_plus. reflexivity.
Qed.

Lemma Qnat_nonneg n : 0 <= Qnat n.
Proof. unfold Qnat. change 0 with (inject_Z 0). rewrite <- Zle_Qle. lia. Qed.

Lemma Qnat_pos n : (0 < n)%nat -> 0 < Qnat n.
Proof. intros H. unfold Qnat. change 0 with (inject_Z 0). rewrite <- Zlt_Qlt. lia. Qed.

Lemma Qnat_eqb0 n : Qeqb (Qnat n) 0 = Nat.eqb n 0.
Proof.
  destruct n as [|n]; [reflexivity|]. simpl Nat.eqb. apply Qeqb_false_iff.
  intro E. pose proof (Qnat_pos (S n) (Nat.lt_0_succ n)) as H. rewrite E in H. apply (Qlt_irrefl _ H).
Qed.

Lemma ind_true : ind true = 1.  Proof. reflexivity. Qed.
Lemma ind_false : ind false = 0.  Proof. reflexivity. Qed.

(* ---------- rel_by / quot ---------- *)

Lemma rel_by_quot N x : rel_by N x = quot x N.
Proof. reflexivity. Qed.

Lemma quot_comp x x' N N' : x == x' -> N == N' -> quot x N == quot x' N'.
Proof.
  intros Hx HN. unfold quot.
  destruct (Qeqb N 0) eqn:E; destruct (Qeqb N' 0) eqn:E'.
  - reflexivity.
  - apply Qeqb_iff in E. apply Qeqb_false_iff in E'. exfalso. apply E'. rewrite <- HN. exact E.
  - apply Qeqb_iff in E'. apply Qeqb_false_iff in E. exfalso. apply E. rewrite HN. exact E'.
  - rewrite Hx, HN. reflexivity.
Qed.

Lemma quot_zero N : quot 0 N == 0.
Proof. unfold quot. destruct (Qeqb N 0); [reflexivity|]. unfold Qdiv. ring. Qed.

Lemma quot_plus x y N : quot (x + y) N == quot x N + quot y N.
Proof.
  unfold quot. destruct (Qeqb N 0) eqn:E; [ring|].
  apply Qeqb_false_iff in E. field. exact E.
Qed.

Lemma quot_N0 x N : N == 0 -> quot x N = 0.
Proof. intros H. unfold quot. apply Qeqb_iff in H. rewrite H. reflexivity. Qed.

Lemma quot_Nnz x N : ~ N == 0 -> quot x N = x / N.
Proof. intros H. unfold quot. apply Qeqb_false_iff in H. rewrite H. reflexivity. Qed.

(* ---------- sat_add: the sum over the queried collection ---------- *)

Lemma sat_add_nil f : sat_add f [] = 0.
Proof. reflexivity. Qed.

Lemma sat_add_cons f p W : sat_add f (p :: W) = f p + sat_add f W.
Proof. reflexivity. Qed.

Lemma sat_add_app f W1 W2 : sat_add f (W1 ++ W2) == sat_add f W1 + sat_add f W2.
Proof. unfold sat_add. rewrite map_app. apply Qsum_app. Qed.

Lemma sat_add_single f p : sat_add f [p] == f p.
Proof. unfold sat_add. simpl. ring. Qed.

Lemma sat_add_perm f W W' : Permutation W W' -> sat_add f W == sat_add f W'.
Proof. intros H. unfold sat_add. apply Qsum_perm_proper. apply Permutation_map. exact H. Qed.

Lemma sat_add_ext f g W : (forall p, In p W -> f p == g p) -> sat_add f W == sat_add g W.
Proof.
  induction W as [|p W IH]; intros H; [reflexivity|].
  rewrite !sat_add_cons. rewrite (H p (or_introl eq_refl)). rewrite IH; [reflexivity|].
  intros q Hq. apply H. right. exact Hq.
Qed.

(* the value on a collection is the sum of the values on its singletons *)
Lemma sat_add_singletons f W : sat_add f W == Qsum (map (fun p => sat_add f [p]) W).
Proof.
  induction W as [|p W IH]; [reflexivity|].
  rewrite sat_add_cons. simpl map. simpl Qsum. rewrite <- IH. rewrite sat_add_single. reflexivity.
Qed.

(* Σ_{p∈W} [p ∈ b]·g p  =  Σ_{p ∈ W∩b} g p *)
Lemma sat_add_inter b g W :
  sat_add (fun p => ind (inb b p) * g p) W == Qsum (map g (inter b W)).
Proof.
  induction W as [|p W IH]; [reflexivity|].
  rewrite sat_add_cons. unfold inter in *. simpl filter. destruct (inb b p); simpl.
  - rewrite IH. ring.
  - rewrite IH. ring.
Qed.

(* Σ x_i / N = (Σ x_i) / N, also when N = 0 *)
Lemma sat_add_quot N f W : sat_add (fun p => quot (f p) N) W == quot (sat_add f W) N.
Proof.
  induction W as [|p W IH].
  - rewrite !sat_add_nil. symmetry. apply quot_zero.
  - rewrite !sat_add_cons. rewrite IH. symmetry. apply quot_plus.
Qed.

(* ---------- W ∩ ballot ---------- *)

Lemma inb_In b p : inb b p = true <-> In p (bmem b).
Proof. apply memb_In. Qed.

Lemma inter_In b W p : In p (inter b W) <-> In p W /\ In p (bmem b).
Proof. unfold inter. rewrite filter_In, inb_In. reflexivity. Qed.

Lemma inter_perm b W W' : Permutation W W' -> Permutation (inter b W) (inter b W').
Proof.
  unfold inter. induction 1 as [|x l l' _ IH|x y l|l l' l'' _ IH1 _ IH2]; simpl.
  - constructor.
  - destruct (inb b x); [constructor|]; exact IH.
  - destruct (inb b x), (inb b y); try reflexivity. apply perm_swap.
  - etransitivity; eassumption.
Qed.

(* ---------- general facts about every shipped measure ---------- *)

(* an additive measure's value on a collection is the sum of its sat_project values *)
Theorem additive_sum m E W :
  additive m = true -> sat m E W == Qsum (map (sat_project m E) W).
Proof. destruct m; simpl; intros H; try discriminate; reflexivity. Qed.

Lemma cc_app_single b p : cc_app b [p] = ind (inb b p).
Proof. unfold cc_app. simpl. rewrite orb_false_r. reflexivity. Qed.

(* sat_project(p) = sat([p]) for every measure *)
Theorem sat_project_single m E p : sat_project m E p == sat m E [p].
Proof. destruct m; simpl; try (rewrite sat_add_single; reflexivity); reflexivity. Qed.

(* every measure is additive over singletons exactly when declared additive: the general form *)
Theorem additive_sum_singletons m E W :
  additive m = true -> sat m E W == Qsum (map (fun p => sat m E [p]) W).
Proof.
  intros H. rewrite (additive_sum m E W H).
  induction W as [|p W IH]; [reflexivity|]. simpl. rewrite IH. rewrite (sat_project_single m E p). reflexivity.
Qed.

Theorem sat_nil m E : sat m E [] == 0.
Proof. destruct m; reflexivity. Qed.

(* cc_card: running maximum *)
Definition cc_step (b : ballot) (res : Q) (p : proj) : Q :=
  if inb b p && Qltb res (bget b p) then bget b p else res.

Lemma cc_card_fold b W : cc_card b W = fold_left (cc_step b) W 0.
Proof. reflexivity. Qed.

Lemma cc_fold_spec b W : forall acc,
  let r := fold_left (cc_step b) W acc in
  acc <= r /\
  (forall p, In p W -> inb b p = true -> bget b p <= r) /\
  (r = acc \/ exists p, In p W /\ inb b p = true /\ r = bget b p).
Proof.
  induction W as [|q W IH]; intros acc; simpl.
  - split; [apply Qle_refl|]. split; [intros p []|left; reflexivity].
  - specialize (IH (cc_step b acc q)). simpl in IH. destruct IH as [H1 [H2 H3]].
    assert (Hstep : acc <= cc_step b acc q /\ (inb b q = true -> bget b q <= cc_step b acc q) /\
                    (cc_step b acc q = acc \/ (inb b q = true /\ cc_step b acc q = bget b q))).
    { unfold cc_step. destruct (inb b q) eqn:Ei; simpl.
      - destruct (Qltb acc (bget b q)) eqn:El.
        + apply Qltb_iff in El. split; [apply Qlt_le_weak; exact El|].
          split; [intros _; apply Qle_refl|right; split; reflexivity].
        + apply Qltb_false_iff in El. split; [apply Qle_refl|].
          split; [intros _; exact El|left; reflexivity].
      - split; [apply Qle_refl|]. split; [discriminate|left; reflexivity]. }
    destruct Hstep as [S1 [S2 S3]].
    split; [eapply Qle_trans; eassumption|]. split.
    + intros p [<-|Hp] Hin.
      * eapply Qle_trans; [apply S2; exact Hin|exact H1].
      * apply H2; assumption.
    + destruct H3 as [H3|[p [Hp [Hin Hr]]]].
      * destruct S3 as [S3|[Hin S3]].
        -- left. rewrite H3. exact S3.
        -- right. exists q. split; [left; reflexivity|]. split; [exact Hin|]. rewrite H3. exact S3.
      * right. exists p. split; [right; exact Hp|]. split; assumption.
Qed.

(* "maximum of l and 0" as a relation, unique up to == and invariant under changes of l that keep its elements *)
Definition is_max0 (l : list Q) (v : Q) : Prop :=
  0 <= v /\ (forall x, In x l -> x <= v) /\ (v == 0 \/ exists x, In x l /\ v == x).

Lemma is_max0_unique l v1 v2 : is_max0 l v1 -> is_max0 l v2 -> v1 == v2.
Proof.
  intros [A1 [B1 C1]] [A2 [B2 C2]]. apply Qle_antisym.
  - destruct C1 as [C1|[x [Hx C1]]]; rewrite C1; [exact A2|apply B2; exact Hx].
  - destruct C2 as [C2|[x [Hx C2]]]; rewrite C2; [exact A1|apply B1; exact Hx].
Qed.

Lemma is_max0_incl l l' v : (forall x, In x l <-> In x l') -> is_max0 l v -> is_max0 l' v.
Proof.
  intros H [A [B C]]. split; [exact A|]. split.
  - intros x Hx. apply B. apply H. exact Hx.
  - destruct C as [C|[x [Hx C]]]; [left; exact C|right; exists x; split; [apply H; exact Hx|exact C]].
Qed.

Lemma cc_card_is_max0 b W : is_max0 (map (bget b) (inter b W)) (cc_card b W).
Proof.
  rewrite cc_card_fold. pose proof (cc_fold_spec b W 0) as H. simpl in H. destruct H as [H1 [H2 H3]].
  split; [exact H1|]. split.
  - intros x Hx. apply in_map_iff in Hx. destruct Hx as [p [<- Hp]]. apply inter_In in Hp.
    destruct Hp as [Hp Hb]. apply H2; [exact Hp|apply inb_In; exact Hb].
  - destruct H3 as [H3|[p [Hp [Hin Hr]]]]; [left; rewrite H3; reflexivity|].
    right. exists (bget b p). split; [|rewrite Hr; reflexivity].
    apply in_map. apply inter_In. split; [exact Hp|apply inb_In; exact Hin].
Qed.

Lemma Qmax_list_in0 l : Qmax_list l = 0 \/ In (Qmax_list l) l.
Proof.
  induction l as [|y l IH]; [left; reflexivity|]. simpl.
  destruct (Qleb (Qmax_list l) y); [right; left; reflexivity|].
  destruct IH as [IH|IH]; [left; exact IH|right; right; exact IH].
Qed.

Lemma Qmax_list_nonneg l : 0 <= Qmax_list l.
Proof.
  induction l as [|y l IH]; [apply Qle_refl|]. simpl.
  destruct (Qleb (Qmax_list l) y) eqn:E; [|exact IH]. apply Qleb_iff in E. eapply Qle_trans; eassumption.
Qed.

Lemma Qmax_list_is_max0 l : is_max0 l (Qmax_list l).
Proof.
  split; [apply Qmax_list_nonneg|]. split; [intros x Hx; apply Qmax_list_ge; exact Hx|].
  destruct (Qmax_list_in0 l) as [H|H]; [left; rewrite H; reflexivity|].
  right. exists (Qmax_list l). split; [exact H|reflexivity].
Qed.

Lemma cc_app_set_eq b W W' : set_eq W W' -> cc_app b W = cc_app b W'.
Proof.
  intros H. unfold cc_app. f_equal.
  destruct (existsb (inb b) W) eqn:E1; destruct (existsb (inb b) W') eqn:E2; try reflexivity.
  - apply existsb_exists in E1. destruct E1 as [p [Hp Hb]].
    assert (existsb (inb b) W' = true) by (apply existsb_exists; exists p; split; [apply H; exact Hp|exact Hb]).
    congruence.
  - apply existsb_exists in E2. destruct E2 as [p [Hp Hb]].
    assert (existsb (inb b) W = true) by (apply existsb_exists; exists p; split; [apply H; exact Hp|exact Hb]).
    congruence.
Qed.

Lemma cc_card_set_eq b W W' : set_eq W W' -> cc_card b W == cc_card b W'.
Proof.
  intros H. apply (is_max0_unique (map (bget b) (inter b W'))); [|apply cc_card_is_max0].
  apply (is_max0_incl (map (bget b) (inter b W))); [|apply cc_card_is_max0].
  intros x. rewrite !in_map_iff. split; intros [p [E Hp]]; exists p; (split; [exact E|]);
    apply inter_In; apply inter_In in Hp; destruct Hp as [Hp Hb]; (split; [apply H; exact Hp|exact Hb]).
Qed.

Lemma perm_set_eq {A} (W W' : list A) : Permutation W W' -> set_eq W W'.
Proof.
  intros H x. split; intro Hx; [eapply Permutation_in; [exact H|exact Hx]|
                                eapply Permutation_in; [symmetry; exact H|exact Hx]].
Qed.

(* the value depends on the queried collection only through its elements: order is irrelevant *)
Theorem sat_perm m E W W' : Permutation W W' -> sat m E W == sat m E W'.
Proof.
  intros H. destruct m; simpl; try (apply sat_add_perm; exact H).
  - rewrite (cc_app_set_eq _ _ _ (perm_set_eq _ _ H)). reflexivity.
  - apply cc_card_set_eq. apply perm_set_eq. exact H.
Qed.

(* two duplicate-free collections with the same elements (the same SET of projects) get the same value *)
Theorem sat_set m E W W' : NoDup W -> NoDup W' -> set_eq W W' -> sat m E W == sat m E W'.
Proof.
  intros H1 H2 H. apply sat_perm. apply NoDup_Permutation; assumption.
Qed.

(* the Chamberlin-Courant measures do not even see repetitions *)
Theorem cc_set_eq m E W W' :
  additive m = false -> set_eq W W' -> sat m E W == sat m E W'.
Proof.
  intros Ha H. destruct m; simpl in Ha; try discriminate; simpl.
  - rewrite (cc_app_set_eq _ _ _ H). reflexivity.
  - apply cc_card_set_eq. exact H.
Qed.

(* ---------- Chamberlin-Courant ---------- *)

Theorem cc_app_spec_thm b W :
  ((exists p, In p W /\ In p (bmem b)) -> cc_app b W = 1) /\
  (~ (exists p, In p W /\ In p (bmem b)) -> cc_app b W = 0).
Proof.
  unfold cc_app. split.
  - intros [p [Hp Hb]]. replace (existsb (inb b) W) with true; [reflexivity|].
    symmetry. apply existsb_exists. exists p. split; [exact Hp|apply inb_In; exact Hb].
  - intros Hn. destruct (existsb (inb b) W) eqn:E; [|reflexivity].
    exfalso. apply Hn. apply existsb_exists in E. destruct E as [p [Hp Hb]].
    exists p. split; [exact Hp|apply inb_In; exact Hb].
Qed.

Lemma cc_app_eq_spec b W : cc_app b W = cc_app_spec b W.
Proof.
  unfold cc_app, cc_app_spec, inter. induction W as [|p W IH]; [reflexivity|].
  simpl. destruct (inb b p); [reflexivity|]. simpl. exact IH.
Qed.

(* cc (cardinal) = the largest score among the selected projects of the ballot, or 0 *)
Theorem cc_card_spec_thm b W :
  0 <= cc_card b W /\
  (forall p, In p W -> In p (bmem b) -> bget b p <= cc_card b W) /\
  (cc_card b W = 0 \/ exists p, In p W /\ In p (bmem b) /\ cc_card b W = bget b p).
Proof.
  rewrite cc_card_fold. pose proof (cc_fold_spec b W 0) as H. simpl in H. destruct H as [H1 [H2 H3]].
  split; [exact H1|]. split.
  - intros p Hp Hb. apply H2; [exact Hp|apply inb_In; exact Hb].
  - destruct H3 as [H3|[p [Hp [Hin Hr]]]]; [left; exact H3|].
    right. exists p. split; [exact Hp|]. split; [apply inb_In; exact Hin|exact Hr].
Qed.

Lemma cc_card_eq_spec b W : cc_card b W == cc_card_spec b W.
Proof.
  apply (is_max0_unique (map (bget b) (inter b W))); [apply cc_card_is_max0|apply Qmax_list_is_max0].
Qed.

(* ---------- closed forms of the solver-free additive measures ---------- *)

Lemma Qsum_ones {A} (l : list A) : Qsum (map (fun _ => 1) l) == Qnat (length l).
Proof.
  induction l as [|x l IH]; [reflexivity|]. simpl length. rewrite Qnat_S. simpl. rewrite IH. reflexivity.
Qed.

(* Cardinality_Sat = |W ∩ A| *)
Theorem cardinality_eq_spec E W : sat Cardinality E W == card_spec (eb E) W.
Proof.
  simpl. unfold card_spec. rewrite <- Qsum_ones. rewrite <- (sat_add_inter (eb E) (fun _ => 1)).
  apply sat_add_ext. intros p _. simpl. unfold cardinality_p. ring.
Qed.

(* Cost_Sat = c(W ∩ A) *)
Lemma cost_sat_form I b W : sat_add (cost_p I b) W == cost_spec I b W.
Proof. unfold cost_spec, tcost. rewrite <- sat_add_inter. apply sat_add_ext. intros p _. reflexivity. Qed.

Theorem cost_eq_spec E W : sat Cost E W == cost_spec (eI E) (eb E) W.
Proof. simpl. apply cost_sat_form. Qed.

(* Additive_Cardinal_Sat = Σ scores *)
Theorem add_card_eq_spec E W : sat AddCardinal E W == add_card_spec (eb E) W.
Proof. reflexivity. Qed.

(* a project outside the ballot has score 0 (ballot.get(p, 0)) *)
Lemma bget_notin b p : ~ In p (bmem b) -> bget b p = 0.
Proof.
  induction b as [|[q s] r IH]; simpl; intros H; [reflexivity|].
  destruct (Nat.eqb p q) eqn:E.
  - apply Nat.eqb_eq in E. exfalso. apply H. left. symmetry. exact E.
  - apply IH. intros Hin. apply H. right. exact Hin.
Qed.

(* the score of a listed project is the one written next to it (keys are distinct) *)
Lemma bget_in b p s : NoDup (bmem b) -> In (p, s) b -> bget b p = s.
Proof.
  induction b as [|[q t] r IH]; simpl; intros Hnd Hin; [contradiction|].
  inversion Hnd as [|x l Hq Hr]; subst. destruct Hin as [E|Hin].
  - inversion E; subst. rewrite Nat.eqb_refl. reflexivity.
  - destruct (Nat.eqb p q) eqn:E.
    + apply Nat.eqb_eq in E. subst. exfalso. apply Hq. change q with (fst (q, s)). apply in_map. exact Hin.
    + apply IH; assumption.
Qed.

(* Borda *)
Lemma bpos_lt b p : In p (bmem b) -> (bpos b p < length b)%nat.
Proof.
  induction b as [|[q s] r IH]; simpl; intros H; [contradiction|].
  destruct (Nat.eqb p q) eqn:E; [lia|]. destruct H as [H|H].
  - subst. rewrite Nat.eqb_refl in E. discriminate.
  - specialize (IH H). lia.
Qed.

(* position = index in the ranking *)
Lemma bpos_nth b i d : NoDup (bmem b) -> (i < length b)%nat -> bpos b (nth i (bmem b) d) = i.
Proof.
  revert i. induction b as [|[q s] r IH]; simpl; intros i Hnd Hi; [lia|].
  inversion Hnd as [|x l Hq Hr]; subst. destruct i as [|i].
  - rewrite Nat.eqb_refl. reflexivity.
  - destruct (Nat.eqb (nth i (bmem r) d) q) eqn:E.
    + apply Nat.eqb_eq in E. exfalso. apply Hq. rewrite <- E. apply nth_In.
      unfold bmem. rewrite map_length. lia.
    + f_equal. apply IH; [exact Hr|lia].
Qed.

Lemma below_eq b p : below b p = (length b - bpos b p - 1)%nat.
Proof. unfold below. rewrite skipn_length. lia. Qed.

Lemma borda_p_form b p : borda_p b p == ind (inb b p) * Qnat (below b p).
Proof.
  unfold borda_p. rewrite below_eq. destruct (inb b p); simpl; ring.
Qed.

Theorem borda_eq_spec E W : sat Borda E W == borda_spec (eb E) W.
Proof.
  simpl. unfold borda_spec. rewrite <- sat_add_inter. apply sat_add_ext. intros p _. apply borda_p_form.
Qed.

(* ---------- Effort_Sat: the denominator counts voters ---------- *)

Lemma filter_repeat_length {A} (f : A -> bool) a n :
  length (filter f (repeat a n)) = if f a then n else O.
Proof.
  induction n as [|n IH]; simpl; [destruct (f a); reflexivity|].
  destruct (f a) eqn:E; simpl; rewrite IH; reflexivity.
Qed.

(* Σ multiplicities of the ballots containing p  =  number of voters whose ballot contains p *)
Theorem supporters_voters P p : supporters P p = voters P p.
Proof.
  unfold voters. induction P as [|[b k] P IH]; [reflexivity|].
  simpl. rewrite filter_app, app_length, filter_repeat_length. rewrite <- IH.
  destruct (inb b p); reflexivity.
Qed.

Lemma effort_p_form I P b p :
  effort_p I P b p == ind (inb b p) * quot (cost I p) (Qnat (voters P p)).
Proof.
  unfold effort_p, quot. rewrite Qnat_eqb0, <- supporters_voters.
  destruct (Nat.eqb (supporters P p) 0); [ring|reflexivity].
Qed.

Theorem effort_eq_spec E W : sat Effort E W == effort_spec (eI E) (eP E) (eb E) W.
Proof.
  simpl. unfold effort_spec.
  rewrite <- (sat_add_inter (eb E) (fun p => quot (cost (eI E) p) (Qnat (voters (eP E) p)))).
  apply sat_add_ext. intros p _. apply effort_p_form.
Qed.

(* a list profile (all multiplicities 1) and its multiprofile have the same voters *)
Lemma expandP_ones bs : expandP (map (fun b => (b, 1%nat)) bs) = bs.
Proof. induction bs as [|b bs IH]; [reflexivity|]. simpl. f_equal. exact IH. Qed.

(* ---------- Relative_Cardinality_Sat ---------- *)

Lemma bcosts_nonneg I b : Forall (fun c => 0 <= c) (costs I) -> Forall (fun c => 0 <= c) (bcosts I b).
Proof.
  intros H. unfold bcosts. rewrite Forall_forall. intros x Hx. apply in_map_iff in Hx.
  destruct Hx as [p [<- _]]. apply cost_nonneg. exact H.
Qed.

Lemma rel_card_p_form I b p : rel_card_p I b p = quot (ind (inb b p)) (Qnat (rel_card_norm I b)).
Proof. unfold rel_card_p, quot. rewrite Qnat_eqb0. reflexivity. Qed.

Lemma rel_card_form I b W :
  sat_add (rel_card_p I b) W == quot (card_spec b W) (Qnat (rel_card_norm I b)).
Proof.
  rewrite (sat_add_ext _ (fun p => quot (ind (inb b p)) (Qnat (rel_card_norm I b)))).
  - rewrite sat_add_quot. apply quot_comp; [|reflexivity].
    unfold card_spec. rewrite <- Qsum_ones. rewrite <- (sat_add_inter b (fun _ => 1)).
    apply sat_add_ext. intros p _. cbv beta. ring.
  - intros p _. rewrite rel_card_p_form. reflexivity.
Qed.

(* n is the largest number of projects of the list that fit in the budget *)
Definition is_max_card (cs : list Q) (B : Q) (n : nat) : Prop :=
  (exists S, sublist S cs /\ Qsum S <= B /\ length S = n) /\
  (forall S, sublist S cs -> Qsum S <= B -> (length S <= n)%nat).

Lemma is_max_card_unique cs B n1 n2 : is_max_card cs B n1 -> is_max_card cs B n2 -> n1 = n2.
Proof.
  intros [[S1 [A1 [B1 C1]]] U1] [[S2 [A2 [B2 C2]]] U2].
  pose proof (U1 S2 A2 B2). pose proof (U2 S1 A1 B1). lia.
Qed.

(* the cheapest-first count used by the code is that maximum *)
Theorem max_card_is_max cs B :
  Forall (fun c => 0 <= c) cs -> 0 <= B -> is_max_card cs B (max_card cs B).
Proof.
  intros Hnn HB. split.
  - apply max_card_attained. exact HB.
  - intros S HS Hf. apply max_card_upper; [exact Hnn|apply sublist_submset; exact HS|exact Hf].
Qed.

Theorem rel_card_spec_thm E W n :
  Forall (fun c => 0 <= c) (costs (eI E)) -> 0 <= budget (eI E) ->
  is_max_card (bcosts (eI E) (eb E)) (budget (eI E)) n ->
  sat RelCardinality E W == quot (Qnat (length (inter (eb E) W))) (Qnat n).
Proof.
  intros Hnn HB Hn.
  change (sat RelCardinality E W) with (sat_add (rel_card_p (eI E) (eb E)) W). rewrite rel_card_form.
  assert (En : rel_card_norm (eI E) (eb E) = n).
  { apply (is_max_card_unique (bcosts (eI E) (eb E)) (budget (eI E))); [|exact Hn].
    apply max_card_is_max; [apply bcosts_nonneg; exact Hnn|exact HB]. }
  rewrite En. reflexivity.
Qed.

Theorem rel_card_eq_spec E W :
  Forall (fun c => 0 <= c) (costs (eI E)) -> 0 <= budget (eI E) ->
  sat RelCardinality E W == rel_card_spec (eI E) (eb E) W.
Proof.
  intros Hnn HB.
  change (sat RelCardinality E W) with (sat_add (rel_card_p (eI E) (eb E)) W). rewrite rel_card_form. unfold rel_card_spec, rel_card_norm.
  rewrite (max_card_bf_eq _ _ (bcosts_nonneg _ (eb E) Hnn) HB). reflexivity.
Qed.

(* ---------- Relative_Cost_Approx_Normaliser_Sat ---------- *)

Lemma approx_norm_min I b : approx_norm I b == Qmin (tcost I (bmem b)) (budget I).
Proof.
  unfold approx_norm, tcost, bcosts. destruct (Qleb (Qsum (map (cost I) (bmem b))) (budget I)) eqn:E.
  - apply Qleb_iff in E. symmetry. apply Q.min_l. exact E.
  - apply Qleb_false_iff in E. symmetry. apply Q.min_r. apply Qlt_le_weak. exact E.
Qed.

Lemma rel_cost_form N I b W : sat_add (rel_cost_p N I b) W == quot (cost_spec I b W) N.
Proof.
  unfold rel_cost_p. rewrite (sat_add_ext _ (fun p => quot (cost_p I b p) N)).
  - rewrite sat_add_quot. apply quot_comp; [apply cost_sat_form|reflexivity].
  - intros p _. reflexivity.
Qed.

Theorem rel_cost_approx_eq_spec E W :
  sat RelCostApprox E W == rel_cost_approx_spec (eI E) (eb E) W.
Proof.
  change (sat RelCostApprox E W)
    with (sat_add (rel_cost_p (approx_norm (eI E) (eb E)) (eI E) (eb E)) W).
  rewrite rel_cost_form. unfold rel_cost_approx_spec. apply quot_comp; [reflexivity|apply approx_norm_min].
Qed.

(* ---------- the solver's 0/1 vector and sub-collections ---------- *)

Lemma select_sublist {A} (x : list bool) : forall (l : list A), sublist (select x l) l.
Proof.
  induction x as [|[|] x IH]; intros [|a l]; simpl.
  - constructor.
  - apply sublist_nil_l.
  - constructor.
  - apply sl_take. apply IH.
  - constructor.
  - apply sl_skip. apply IH.
Qed.

Lemma sublist_select {A} (S l : list A) :
  sublist S l -> exists x, length x = length l /\ select x l = S.
Proof.
  induction 1 as [|a s l _ [x [Hl Hs]]|a s l _ [x [Hl Hs]]].
  - exists []. split; reflexivity.
  - exists (false :: x). simpl. split; [f_equal; exact Hl|exact Hs].
  - exists (true :: x). simpl. split; [f_equal; exact Hl|f_equal; exact Hs].
Qed.

Lemma select_map {A B} (f : A -> B) (x : list bool) : forall l, select x (map f l) = map f (select x l).
Proof.
  induction x as [|[|] x IH]; intros [|a l]; simpl; try reflexivity; [f_equal|]; apply IH.
Qed.

(* ---------- Relative_Cost_Sat: normaliser = true optimum, under the solver-optimality hypothesis ---------- *)

(* v is the largest total cost of a sub-collection of cs within B *)
Definition is_max_cost (cs : list Q) (B v : Q) : Prop :=
  (exists S, sublist S cs /\ Qsum S <= B /\ Qsum S == v) /\
  (forall S, sublist S cs -> Qsum S <= B -> Qsum S <= v).

(* oracle hypothesis: the 0/1 vector returned by the solver is a feasible point of the knapsack
   "maximise Σ x_i c_i subject to Σ x_i c_i <= B" and no feasible point is better *)
Definition solver_optimal_cost (cs : list Q) (B : Q) (x : list bool) : Prop :=
  length x = length cs /\ mip_value x cs <= B /\
  forall y, length y = length cs -> mip_value y cs <= B -> mip_value y cs <= mip_value x cs.

Lemma is_max_cost_unique cs B v1 v2 : is_max_cost cs B v1 -> is_max_cost cs B v2 -> v1 == v2.
Proof.
  intros [[S1 [A1 [B1 C1]]] U1] [[S2 [A2 [B2 C2]]] U2]. apply Qle_antisym.
  - rewrite <- C1. apply U2; assumption.
  - rewrite <- C2. apply U1; assumption.
Qed.

Lemma solver_cost_is_max cs B x : solver_optimal_cost cs B x -> is_max_cost cs B (mip_value x cs).
Proof.
  intros [Hl [Hf Ho]]. split.
  - exists (select x cs). split; [apply select_sublist|]. split; [exact Hf|reflexivity].
  - intros S HS HB. destruct (sublist_select _ _ HS) as [y [Hy <-]]. apply Ho; assumption.
Qed.

Lemma max_cost_bf_is_max cs B :
  Forall (fun c => 0 <= c) cs -> 0 <= B -> is_max_cost cs B (max_cost_bf cs B).
Proof.
  intros Hnn HB. destruct (max_cost_bf_spec cs B Hnn HB) as [[S [A1 [A2 A3]]] U]. split.
  - exists S. split; [exact A1|]. split; [exact A2|rewrite A3; reflexivity].
  - exact U.
Qed.

(* re-evaluated exactly, an optimal answer of the solver is the brute-force optimum *)
Theorem solver_cost_eq_bf cs B x :
  Forall (fun c => 0 <= c) cs -> 0 <= B -> solver_optimal_cost cs B x -> mip_value x cs == max_cost_bf cs B.
Proof.
  intros Hnn HB Hs. apply (is_max_cost_unique cs B); [apply solver_cost_is_max; exact Hs|].
  apply max_cost_bf_is_max; assumption.
Qed.

Theorem rel_cost_spec_thm E W v :
  solver_optimal_cost (bcosts (eI E) (eb E)) (budget (eI E)) (ex E) ->
  is_max_cost (bcosts (eI E) (eb E)) (budget (eI E)) v ->
  sat RelCost E W == quot (tcost (eI E) (inter (eb E) W)) v.
Proof.
  intros Hs Hv.
  change (sat RelCost E W) with (sat_add (rel_cost_p (rel_cost_norm E) (eI E) (eb E)) W).
  rewrite rel_cost_form. apply quot_comp; [reflexivity|].
  apply (is_max_cost_unique (bcosts (eI E) (eb E)) (budget (eI E))); [|exact Hv].
  apply solver_cost_is_max. exact Hs.
Qed.

Theorem rel_cost_eq_spec E W :
  Forall (fun c => 0 <= c) (costs (eI E)) -> 0 <= budget (eI E) ->
  solver_optimal_cost (bcosts (eI E) (eb E)) (budget (eI E)) (ex E) ->
  sat RelCost E W == rel_cost_spec (eI E) (eb E) W.
Proof.
  intros Hnn HB Hs. unfold rel_cost_spec, cost_spec. apply rel_cost_spec_thm; [exact Hs|].
  apply max_cost_bf_is_max; [apply bcosts_nonneg; exact Hnn|exact HB].
Qed.

(* ---------- Additive_Cardinal_Relative_Sat ---------- *)

Definition wsum (s : list (Q * Q)) : Q := Qsum (map fst s).
Definition psum (s : list (Q * Q)) : Q := Qsum (map snd s).

(* v is the largest total score of a sub-collection of the (cost, score) items within B *)
Definition is_max_score (items : list (Q * Q)) (B v : Q) : Prop :=
  (exists S, sublist S items /\ wsum S <= B /\ psum S == v) /\
  (forall S, sublist S items -> wsum S <= B -> psum S <= v).

Definition solver_optimal_score (items : list (Q * Q)) (B : Q) (x : list bool) : Prop :=
  length x = length items /\ wsum (select x items) <= B /\
  forall y, length y = length items -> wsum (select y items) <= B ->
            psum (select y items) <= psum (select x items).

Lemma is_max_score_unique items B v1 v2 : is_max_score items B v1 -> is_max_score items B v2 -> v1 == v2.
Proof.
  intros [[S1 [A1 [B1 C1]]] U1] [[S2 [A2 [B2 C2]]] U2]. apply Qle_antisym.
  - rewrite <- C1. apply U2; assumption.
  - rewrite <- C2. apply U1; assumption.
Qed.

Lemma solver_score_is_max items B x :
  solver_optimal_score items B x -> is_max_score items B (psum (select x items)).
Proof.
  intros [Hl [Hf Ho]]. split.
  - exists (select x items). split; [apply select_sublist|]. split; [exact Hf|reflexivity].
  - intros S HS HB. destruct (sublist_select _ _ HS) as [y [Hy <-]]. apply Ho; assumption.
Qed.

Lemma max_score_bf_is_max items B : 0 <= B -> is_max_score items B (max_score_bf items B).
Proof.
  intros HB. unfold max_score_bf. set (cand := filter (wfits B) (powerset items)).
  assert (Hcand : forall S, In S cand <-> sublist S items /\ wsum S <= B).
  { intros S. unfold cand. rewrite filter_In, powerset_spec. unfold wfits. rewrite Qleb_iff. reflexivity. }
  split.
  - destruct (Qmax_list_in0 (map (fun s => Qsum (map snd s)) cand)) as [H|H].
    + exists []. split; [apply sublist_nil_l|]. split; [exact HB|]. rewrite H. reflexivity.
    + apply in_map_iff in H. destruct H as [S [E HS]]. apply Hcand in HS. destruct HS as [HS Hf].
      exists S. split; [exact HS|]. split; [exact Hf|]. unfold psum. rewrite E. reflexivity.
  - intros S HS Hf. unfold psum. apply (Qmax_list_ge (map (fun s => Qsum (map snd s)) cand)).
    apply (in_map (fun s => Qsum (map snd s))). apply Hcand. split; assumption.
Qed.

Lemma add_card_rel_norm_psum E :
  add_card_rel_norm E = psum (select (ex E) (score_items (eI E) (eb E))).
Proof. unfold add_card_rel_norm, mip_value, psum. rewrite select_map. reflexivity. Qed.

Lemma add_card_rel_form N b W : sat_add (add_card_rel_p N b) W == quot (add_card_spec b W) N.
Proof.
  unfold add_card_rel_p. rewrite (sat_add_ext _ (fun p => quot (bget b p) N)).
  - rewrite sat_add_quot. reflexivity.
  - intros p _. reflexivity.
Qed.

Theorem card_relative_spec_thm E W v :
  solver_optimal_score (score_items (eI E) (eb E)) (budget (eI E)) (ex E) ->
  is_max_score (score_items (eI E) (eb E)) (budget (eI E)) v ->
  sat AddCardinalRel E W == quot (Qsum (map (bget (eb E)) W)) v.
Proof.
  intros Hs Hv.
  change (sat AddCardinalRel E W) with (sat_add (add_card_rel_p (add_card_rel_norm E) (eb E)) W).
  rewrite add_card_rel_form. apply quot_comp; [reflexivity|].
  rewrite add_card_rel_norm_psum.
  apply (is_max_score_unique (score_items (eI E) (eb E)) (budget (eI E))); [|exact Hv].
  apply solver_score_is_max. exact Hs.
Qed.

Theorem card_relative_eq_spec E W :
  0 <= budget (eI E) ->
  solver_optimal_score (score_items (eI E) (eb E)) (budget (eI E)) (ex E) ->
  sat AddCardinalRel E W == add_card_rel_spec (eI E) (eb E) W.
Proof.
  intros HB Hs. unfold add_card_rel_spec, add_card_spec. apply card_relative_spec_thm; [exact Hs|].
  apply max_score_bf_is_max. exact HB.
Qed.

(* the items of the score knapsack are (cost, score) of the projects 0..m-1: a sub-collection of them is a
   set S of projects with c(S) = wsum and score(S) = psum *)
Lemma score_items_select I b x :
  select x (score_items I b) = map (fun p => (cost I p, bget b p)) (select x (all_projects I)).
Proof. unfold score_items. apply select_map. Qed.

(* ---------- relative measures take values in [0,1] on subsets that fit (sanity of the normalisers) ---------- *)

Theorem rel_cost_le_one E W v :
  solver_optimal_cost (bcosts (eI E) (eb E)) (budget (eI E)) (ex E) ->
  is_max_cost (bcosts (eI E) (eb E)) (budget (eI E)) v ->
  sublist W (bmem (eb E)) -> tcost (eI E) W <= budget (eI E) -> 0 < v ->
  sat RelCost E W <= 1.
Proof.
  intros Hs Hv Hsub Hfit Hpos. rewrite (rel_cost_spec_thm E W v Hs Hv).
  assert (Hinter : inter (eb E) W = W).
  { unfold inter. assert (Hall : forall p, In p W -> inb (eb E) p = true).
    { intros p Hp. apply inb_In. eapply sublist_In; eassumption. }
    clear -Hall. induction W as [|p W IH]; [reflexivity|]. simpl.
    rewrite (Hall p (or_introl eq_refl)). f_equal. apply IH. intros q Hq. apply Hall. right. exact Hq. }
  rewrite Hinter. rewrite quot_Nnz; [|intro E0; rewrite E0 in Hpos; apply (Qlt_irrefl _ Hpos)].
  destruct Hv as [_ U].
  assert (Hle : tcost (eI E) W <= v).
  { unfold tcost. apply U; [|exact Hfit]. unfold bcosts.
    clear -Hsub. induction Hsub; simpl; constructor; assumption. }
  apply Qle_shift_div_r; [exact Hpos|]. rewrite Qmult_1_l. exact Hle.
Qed.
