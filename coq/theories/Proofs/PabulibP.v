(* Proofs/PabulibP.v -- proofs about Model/PabulibM.v (character level first, then row level). *)
From PB Require Import Model.PabulibM.
From Coq Require Import Lia.
Open Scope list_scope.

(* ============================================================================================ *)
(* Character level: csv_split (csv_join rows) = rows                                              *)
(* ============================================================================================ *)
Definition no_linebreak (f : str) : Prop := Forall (fun c => is_linebreak c = false) f.
Definition rows_no_linebreak (rows : list (list str)) : Prop := Forall (Forall no_linebreak) rows.

Lemma str_eqb_refl a : str_eqb a a = true.
Proof. induction a as [|x r IH]; simpl; [reflexivity|]. now rewrite Ascii.eqb_refl, IH. Qed.

Lemma str_eqb_eq a b : str_eqb a b = true <-> a = b.
Proof.
  revert b; induction a as [|x r IH]; intros [|y s]; simpl; try (split; [discriminate|discriminate]);
    try (split; reflexivity).
  rewrite andb_true_iff, Ascii.eqb_eq, IH. split; [intros [-> ->]; reflexivity|intros [= -> ->]; auto].
Qed.

Lemma str_eqb_neq a b : str_eqb a b = false <-> a <> b.
Proof.
  split.
  - intros H E. apply str_eqb_eq in E. congruence.
  - intros H. destruct (str_eqb a b) eqn:E; [|reflexivity]. apply str_eqb_eq in E. contradiction.
Qed.

(* ---- split_lines ---------------------------------------------------------------------------- *)
Lemma split_lines_line l rest :
  no_linebreak l -> split_lines (l ++ c_lf :: rest) = l :: split_lines rest.
Proof.
  induction 1 as [|c l Hc Hl IH]; simpl.
  - reflexivity.
  - change (split_lines ((c :: l) ++ c_lf :: rest)) with (split_lines (c :: (l ++ c_lf :: rest))).
    cbn [split_lines]. rewrite Hc, IH. reflexivity.
Qed.

Lemma split_lines_join lines :
  Forall no_linebreak lines -> split_lines (flat_map (fun l => l ++ [c_lf]) lines) = lines.
Proof.
  induction 1 as [|l ls Hl Hls IH]; simpl; [reflexivity|].
  rewrite <- app_assoc. simpl. rewrite split_lines_line by assumption. now rewrite IH.
Qed.

(* ---- the writer never introduces a line break ---------------------------------------------- *)
Lemma no_linebreak_app a b : no_linebreak a -> no_linebreak b -> no_linebreak (a ++ b).
Proof. intros; apply Forall_app; split; assumption. Qed.

Lemma no_linebreak_escape f : no_linebreak f -> no_linebreak (csv_escape f).
Proof.
  induction 1 as [|c f Hc Hf IH]; simpl; [constructor|].
  destruct (Ascii.eqb c c_quote) eqn:E.
  - repeat constructor; assumption.
  - constructor; assumption.
Qed.

Lemma no_linebreak_field f : no_linebreak f -> no_linebreak (csv_field f).
Proof.
  intros H. unfold csv_field. destruct (existsb csv_special f); [|assumption].
  constructor; [reflexivity|]. apply no_linebreak_app; [apply no_linebreak_escape; assumption|].
  repeat constructor.
Qed.

Lemma no_linebreak_join_with c l :
  is_linebreak c = false -> Forall no_linebreak l -> no_linebreak (join_with c l).
Proof.
  intros Hc. induction 1 as [|x r Hx Hr IH]; simpl; [constructor|].
  destruct r as [|y r']; [assumption|].
  apply no_linebreak_app; [assumption|]. constructor; assumption.
Qed.

Lemma no_linebreak_row r : Forall no_linebreak r -> no_linebreak (csv_row r).
Proof.
  intros H. unfold csv_row.
  assert (G : no_linebreak (join_with c_semi (map csv_field r))).
  { apply no_linebreak_join_with; [reflexivity|].
    induction H; simpl; constructor; auto using no_linebreak_field. }
  destruct r as [|[|c f] [|g r']]; try exact G. repeat constructor.
Qed.

(* ---- the reader state machine on one written field ------------------------------------------ *)
Lemma special_false c :
  csv_special c = false ->
  Ascii.eqb c c_semi = false /\ Ascii.eqb c c_quote = false.
Proof.
  unfold csv_special. intros H. apply orb_false_iff in H as [H _]. apply orb_false_iff in H. exact H.
Qed.

Lemma steps_unquoted f : forall s,
  existsb csv_special f = false -> c_state s = CInField ->
  fold_left csv_step f s = mkCst CInField (c_field s ++ f) (c_fields s).
Proof.
  induction f as [|c f IH]; intros s Hf Hs; simpl.
  - rewrite app_nil_r. destruct s; simpl in *; subst; reflexivity.
  - simpl in Hf. apply orb_false_iff in Hf as [Hc Hf]. apply special_false in Hc as [Hsemi Hq].
    unfold csv_step at 2. rewrite Hs, Hsemi.
    rewrite IH; [|assumption|reflexivity]. simpl. now rewrite <- app_assoc.
Qed.

Lemma step_inquoted_quote s :
  c_state s = CInQuoted -> csv_step s c_quote = mkCst CQuoteInQuoted (c_field s) (c_fields s).
Proof. intros H. unfold csv_step. rewrite H. reflexivity. Qed.

Lemma step_qiq_quote s :
  c_state s = CQuoteInQuoted -> csv_step s c_quote = add_char s c_quote CInQuoted.
Proof. intros H. unfold csv_step. rewrite H. reflexivity. Qed.

Lemma step_inquoted_other s c :
  c_state s = CInQuoted -> Ascii.eqb c c_quote = false -> csv_step s c = add_char s c CInQuoted.
Proof. intros H E. unfold csv_step. rewrite H, E. reflexivity. Qed.

Lemma steps_escaped f : forall s,
  c_state s = CInQuoted ->
  fold_left csv_step (csv_escape f) s = mkCst CInQuoted (c_field s ++ f) (c_fields s).
Proof.
  induction f as [|c f IH]; intros s Hs.
  - cbn [csv_escape fold_left]. rewrite app_nil_r. destruct s; simpl in *; subst; reflexivity.
  - cbn [csv_escape]. destruct (Ascii.eqb c c_quote) eqn:E.
    + apply Ascii.eqb_eq in E. subst c. cbn [fold_left].
      rewrite (step_inquoted_quote s Hs), step_qiq_quote by reflexivity.
      rewrite IH by reflexivity. unfold add_char. cbn [c_field c_fields]. now rewrite <- app_assoc.
    + cbn [fold_left]. rewrite (step_inquoted_other s c Hs E).
      rewrite IH by reflexivity. unfold add_char. cbn [c_field c_fields]. now rewrite <- app_assoc.
Qed.

Definition start_state (s : cst) : Prop := c_state s = CStartRecord \/ c_state s = CStartField.

(* what the state looks like after the characters of one written field *)
Definition after_field (s' : cst) (st0 : cstate) (fs : list str) (f : str) : Prop :=
  c_fields s' = fs /\ c_field s' = f /\
  (c_state s' = CInField \/ c_state s' = CQuoteInQuoted \/ (c_state s' = st0 /\ f = [])).

Lemma steps_field f s :
  start_state s -> c_field s = [] ->
  after_field (fold_left csv_step (csv_field f) s) (c_state s) (c_fields s) f.
Proof.
  intros Hs Hf. unfold csv_field. destruct (existsb csv_special f) eqn:Esp.
  - (* quoted *)
    simpl. assert (E1 : csv_step s c_quote = mkCst CInQuoted [] (c_fields s)).
    { unfold csv_step. destruct Hs as [-> | ->]; rewrite Ascii.eqb_refl, Hf; reflexivity. }
    rewrite E1, fold_left_app, steps_escaped by reflexivity. simpl.
    unfold csv_step. simpl. repeat split. right; left; reflexivity.
  - destruct f as [|c f].
    + simpl. repeat split; auto.
    + simpl in Esp. apply orb_false_iff in Esp as [Hc Hrest]. apply special_false in Hc as [Hsemi Hq].
      simpl. assert (E1 : csv_step s c = mkCst CInField [c] (c_fields s)).
      { unfold csv_step, add_char. destruct Hs as [-> | ->]; rewrite Hq, Hsemi, Hf; reflexivity. }
      rewrite E1, steps_unquoted by (assumption || reflexivity). simpl.
      repeat split. left; reflexivity.
Qed.

Lemma step_semi_after s' st0 fs f :
  after_field s' st0 fs f -> (st0 = CStartRecord \/ st0 = CStartField) ->
  csv_step s' c_semi = mkCst CStartField [] (fs ++ [f]).
Proof.
  intros (Hfs & Hf & Hst) Hst0. unfold csv_step, save_field.
  assert (Esq : Ascii.eqb c_semi c_quote = false) by reflexivity.
  destruct Hst as [-> | [-> | [-> _]]].
  - rewrite Ascii.eqb_refl, Hfs, Hf. reflexivity.
  - rewrite Esq, Ascii.eqb_refl, Hfs, Hf. reflexivity.
  - destruct Hst0 as [-> | ->]; rewrite Esq, Ascii.eqb_refl, Hfs, Hf; reflexivity.
Qed.

Lemma eol_after s' st0 fs f :
  after_field s' st0 fs f -> (st0 = CStartField \/ (st0 = CStartRecord /\ f <> [])) ->
  csv_eol s' = mkCst CStartRecord [] (fs ++ [f]).
Proof.
  intros (Hfs & Hf & Hst) Hst0. unfold csv_eol, save_field.
  destruct Hst as [-> | [-> | [Hs Hnil]]].
  - rewrite Hfs, Hf. reflexivity.
  - rewrite Hfs, Hf. reflexivity.
  - destruct Hst0 as [-> | [-> Hne]]; [|contradiction].
    rewrite Hs, Hfs, Hf. reflexivity.
Qed.

Lemma join_with_cons2 c x y r : join_with c (x :: y :: r) = x ++ c :: join_with c (y :: r).
Proof. reflexivity. Qed.

(* a whole written row, started in any start state *)
Lemma steps_row r : forall s,
  r <> [] -> start_state s -> c_field s = [] ->
  (c_state s = CStartRecord -> r <> [[]]) ->
  csv_eol (fold_left csv_step (join_with c_semi (map csv_field r)) s)
  = mkCst CStartRecord [] (c_fields s ++ r).
Proof.
  induction r as [|f r IH]; intros s Hne Hs Hf Hrec; [contradiction|].
  destruct r as [|g r].
  - simpl. pose proof (steps_field f s Hs Hf) as Ha.
    eapply eol_after; [exact Ha|].
    destruct Hs as [Hs|Hs]; [right|left; assumption].
    split; [assumption|]. intros ->. apply (Hrec Hs). reflexivity.
  - cbn [map]. rewrite join_with_cons2, fold_left_app. cbn [fold_left].
    pose proof (steps_field f s Hs Hf) as Ha.
    rewrite (step_semi_after _ _ _ _ Ha Hs).
    change (join_with c_semi (csv_field g :: map csv_field r))
      with (join_with c_semi (map csv_field (g :: r))).
    rewrite IH.
    + simpl. rewrite <- app_assoc. reflexivity.
    + discriminate.
    + right; reflexivity.
    + reflexivity.
    + simpl. discriminate.
Qed.

Lemma csv_line_row r :
  csv_eol (fold_left csv_step (csv_row r) cst_init) = mkCst CStartRecord [] r.
Proof.
  destruct r as [|f r].
  - reflexivity.
  - destruct f as [|c f]; [destruct r as [|g r]|].
    + reflexivity.
    + unfold csv_row. apply (steps_row ([] :: g :: r) cst_init); try discriminate; try reflexivity.
      left; reflexivity.
    + unfold csv_row. destruct r as [|g r]; cbv beta iota.
      * apply (steps_row [c :: f] cst_init); try discriminate; try reflexivity. left; reflexivity.
      * apply (steps_row ((c :: f) :: g :: r) cst_init); try discriminate; try reflexivity.
        left; reflexivity.
Qed.

Lemma csv_rows_written rows : csv_rows_from cst_init (map csv_row rows) = rows.
Proof.
  induction rows as [|r rows IH]; simpl; [reflexivity|].
  rewrite csv_line_row. simpl. now rewrite IH.
Qed.

Lemma csv_join_lines rows :
  csv_join rows = flat_map (fun l => l ++ [c_lf]) (map csv_row rows).
Proof. unfold csv_join. induction rows; simpl; [reflexivity|]. now rewrite IHrows. Qed.

(* M: the character-level codec is lossless on every table whose cells contain no line-break character
   (the characters str.splitlines cuts at: \n \v \f \r FS GS RS); ';', quotes, blanks, empty cells, empty
   rows and rows consisting of one empty cell are all covered *)
Theorem csv_roundtrip rows : rows_no_linebreak rows -> csv_split (csv_join rows) = rows.
Proof.
  intros H. unfold csv_split, csv_rows. rewrite csv_join_lines, split_lines_join.
  - apply csv_rows_written.
  - induction H; simpl; constructor; auto using no_linebreak_row.
Qed.

(* decidable form of the side condition *)
Lemma rows_no_linebreak_dec rows :
  forallb (forallb (forallb (fun c => negb (is_linebreak c)))) rows = true -> rows_no_linebreak rows.
Proof.
  intros H. apply Forall_forall. intros r Hr. apply Forall_forall. intros f Hf.
  apply Forall_forall. intros c Hc.
  rewrite forallb_forall in H. specialize (H r Hr).
  rewrite forallb_forall in H. specialize (H f Hf).
  rewrite forallb_forall in H. specialize (H c Hc).
  destruct (is_linebreak c); [discriminate|reflexivity].
Qed.

(* the restriction is necessary: a line feed inside a cell is quoted by the writer but lost by the reader *)
Lemma csv_roundtrip_needs_no_linebreak :
  exists rows, csv_split (csv_join rows) <> rows.
Proof. exists [[[c_lf]]]. vm_compute. discriminate. Qed.

(* ============================================================================================ *)
(* Row level: field-by-field faithfulness of the parser model                                      *)
(* ============================================================================================ *)
Section Faithful.
Variable show_num : Q -> str.
Variable read_num : str -> option Q.
Variable show_nat : nat -> str.
Variable read_nat : str -> option nat.

Notation finish := (finish read_num read_nat).
Notation parse_rows := (parse_rows read_num read_nat).
Notation parse_loop := (parse_loop read_num).

Ltac inv_obind H :=
  repeat match type of H with
  | obind ?o _ = Some _ =>
      let E := fresh "E" in destruct o eqn:E; [cbn [obind] in H | discriminate H]
  end.

(* how a META entry k determines a limit: absent -> no limit; present -> it must read as a number, and the
   default value (decided by [dflt]) means no limit *)
Definition lim_num (k : str) (m : dict) (dflt : Q -> bool) (res : option Q) : Prop :=
  match lookup k m with
  | None => res = None
  | Some t => exists q, read_num t = Some q /\ res = if dflt q then None else Some q
  end.
Definition lim_nat (k : str) (m : dict) (dflt : nat -> bool) (res : option nat) : Prop :=
  match lookup k m with
  | None => res = None
  | Some t => exists n, read_nat t = Some n /\ res = if dflt n then None else Some n
  end.

Lemma get_num_lim k m o dflt :
  get_num read_num k m = Some o -> lim_num k m dflt (drop_if dflt o).
Proof.
  unfold get_num, lim_num. destruct (lookup k m) as [t|]; [|intros [= <-]; reflexivity].
  destruct (read_num t) as [q|]; [|discriminate]. intros [= <-]. exists q. split; reflexivity.
Qed.
Lemma get_nat_lim k m o dflt :
  get_nat read_nat k m = Some o -> lim_nat k m dflt (drop_if dflt o).
Proof.
  unfold get_nat, lim_nat. destruct (lookup k m) as [t|]; [|intros [= <-]; reflexivity].
  destruct (read_nat t) as [q|]; [|discriminate]. intros [= <-]. exists q. split; reflexivity.
Qed.

Lemma vtype_of_name s vt : vtype_of s = Some vt -> s = vtype_name vt.
Proof.
  unfold vtype_of.
  destruct (str_eqb s $"approval") eqn:E1; [intros [= <-]; now apply str_eqb_eq in E1|].
  destruct (str_eqb s $"scoring") eqn:E2; [intros [= <-]; now apply str_eqb_eq in E2|].
  destruct (str_eqb s $"cumulative") eqn:E3; [intros [= <-]; now apply str_eqb_eq in E3|].
  destruct (str_eqb s $"ordinal") eqn:E4; [intros [= <-]; now apply str_eqb_eq in E4|discriminate].
Qed.

Definition max_total_default (mt : option Q) (q : Q) : bool :=
  match mt with Some t => Qeq_bool q t | None => false end.

(* everything [finish] puts into the election, field by field *)
Theorem finish_spec st e :
  finish st = Some e ->
  let m := ps_meta st in
  e_meta e = m /\ e_projects e = ps_projects st /\ e_ballots e = ps_ballots st
  /\ (exists bt, lookup $"budget" m = Some bt /\ read_num (replace_comma bt) = Some (e_budget e))
  /\ lookup $"vote_type" m = Some (vtype_name (e_vtype e))
  /\ lim_nat $"min_length" m (Nat.eqb 1) (e_min_len e)
  /\ lim_nat $"max_length" m (fun n => Nat.leb (List.length (ps_projects st)) n) (e_max_len e)
  /\ match e_vtype e with
     | Approval =>
         lim_num $"min_sum_cost" m Qzero_b (e_min_cost e)
         /\ lim_num $"max_sum_cost" m (fun q => Qle_bool (e_budget e) q) (e_max_cost e)
         /\ e_min_total e = None /\ e_max_total e = None /\ e_min_score e = None /\ e_max_score e = None
     | Scoring =>
         lim_num $"min_points" m Qzero_b (e_min_score e)
         /\ (exists mt, get_num read_num $"max_sum_points" m = Some mt
                        /\ lim_num $"max_points" m (max_total_default mt) (e_max_score e))
         /\ e_min_cost e = None /\ e_max_cost e = None /\ e_min_total e = None /\ e_max_total e = None
     | Cumulative =>
         lim_num $"min_points" m Qzero_b (e_min_score e)
         /\ lim_num $"max_points" m (max_total_default (e_max_total e)) (e_max_score e)
         /\ lim_num $"min_sum_points" m Qzero_b (e_min_total e)
         /\ lim_num $"max_sum_points" m (fun _ => false) (e_max_total e)
         /\ e_min_cost e = None /\ e_max_cost e = None
     | Ordinal =>
         e_min_cost e = None /\ e_max_cost e = None /\ e_min_total e = None /\ e_max_total e = None
         /\ e_min_score e = None /\ e_max_score e = None
     end.
Proof.
  intros H m. unfold PabulibM.finish in H. fold m in H. inv_obind H.
  apply vtype_of_name in E10. subst s0.
  pose proof (get_nat_lim _ _ _ (Nat.eqb 1) E1) as L1.
  pose proof (get_nat_lim _ _ _ (fun n => Nat.leb (List.length (ps_projects st)) n) E2) as L2.
  pose proof (get_num_lim _ _ _ Qzero_b E3) as L3.
  pose proof (get_num_lim _ _ _ (fun x => Qle_bool q x) E4) as L4.
  pose proof (get_num_lim _ _ _ Qzero_b E5) as L5.
  pose proof (get_num_lim _ _ _ (fun _ : Q => false) E6) as L6.
  pose proof (get_num_lim _ _ _ Qzero_b E7) as L7.
  pose proof (get_num_lim _ _ _ (max_total_default o4) E8) as L8.
  assert (D6 : drop_if (fun _ : Q => false) o4 = o4) by (destruct o4; reflexivity).
  rewrite D6 in L6.
  injection H as <-.
  destruct v; cbn [e_meta e_projects e_ballots e_budget e_vtype e_min_len e_max_len e_min_cost e_max_cost
                     e_min_total e_max_total e_min_score e_max_score];
    (split; [reflexivity|]); (split; [reflexivity|]); (split; [reflexivity|]);
    (split; [exists s; split; first [assumption|reflexivity]|]); (split; [first [assumption|reflexivity]|]);
    (split; [exact L1|]); (split; [exact L2|]).
  - repeat split; assumption.
  - split; [exact L7|]. split; [exists o4; split; first [assumption|reflexivity]|]. repeat split.
  - repeat split; assumption.
  - repeat split.
Qed.

(* the executed loop (ballots accumulated in front, reversed once) computes the same state as the loop the
   proofs are about *)
Lemma rev_ballots_snoc m ps bs b :
  mkPstate m ps (b :: rev bs) = rev_ballots (mkPstate m ps (bs ++ [b])).
Proof. unfold rev_ballots. simpl. rewrite rev_app_distr. reflexivity. Qed.

Lemma parse_loop_acc_spec : forall n rows, (List.length rows <= n)%nat -> forall sec h st,
  PabulibM.parse_loop_acc read_num sec h (rev_ballots st) rows = option_map rev_ballots (parse_loop sec h st rows).
Proof.
  induction n as [|n IH]; intros rows Hn sec h st.
  - destruct rows; [reflexivity|simpl in Hn; lia].
  - destruct rows as [|row rest]; [reflexivity|]. simpl in Hn.
    assert (Hr : (List.length rest <= n)%nat) by lia.
    cbn [PabulibM.parse_loop PabulibM.parse_loop_acc].
    destruct (is_blank_row row); [apply IH; exact Hr|].
    destruct row as [|c0 t]; [reflexivity|].
    destruct (section_of c0) as [sec'|].
    + destruct rest as [|h' rest']; [reflexivity|]. apply IH. simpl in Hr. lia.
    + destruct sec.
      * apply IH; exact Hr.
      * destruct t as [|v t']; [reflexivity|].
        change (mkPstate (dict_set (strip c0) (strip v) (ps_meta (rev_ballots st))) (ps_projects (rev_ballots st))
                  (ps_ballots (rev_ballots st)))
          with (rev_ballots (mkPstate (dict_set (strip c0) (strip v) (ps_meta st)) (ps_projects st) (ps_ballots st))).
        apply IH; exact Hr.
      * destruct (PabulibM.parse_project_row read_num h (c0 :: t)) as [p|]; [|reflexivity].
        change (mkPstate (ps_meta (rev_ballots st)) (add_project p (ps_projects (rev_ballots st)))
                  (ps_ballots (rev_ballots st)))
          with (rev_ballots (mkPstate (ps_meta st) (add_project p (ps_projects st)) (ps_ballots st))).
        apply IH; exact Hr.
      * cbn [rev_ballots ps_meta ps_projects ps_ballots].
        destruct (PabulibM.parse_vote_row read_num h (ps_meta st) (ps_projects st) (c0 :: t)) as [b|]; [|reflexivity].
        rewrite rev_ballots_snoc. apply IH; exact Hr.
Qed.

Theorem parse_rows_spec rows :
  parse_rows rows = obind (parse_loop SecNone [] (mkPstate [] [] []) rows) finish.
Proof.
  unfold PabulibM.parse_rows.
  change (mkPstate [] [] []) with (rev_ballots (mkPstate [] [] [])) at 1.
  rewrite (parse_loop_acc_spec (List.length rows) rows (le_n _)).
  destruct (parse_loop SecNone [] (mkPstate [] [] []) rows) as [st|]; [|reflexivity].
  simpl. destruct st as [m ps bs]. unfold rev_ballots. simpl. now rewrite rev_involutive.
Qed.

Theorem parse_rows_finish rows e :
  parse_rows rows = Some e ->
  exists st, parse_loop SecNone [] (mkPstate [] [] []) rows = Some st /\ finish st = Some e.
Proof.
  rewrite parse_rows_spec. intros H.
  destruct (PabulibM.parse_loop read_num SecNone [] (mkPstate [] [] []) rows) as [st|] eqn:E;
    [|discriminate]. exists st. split; [reflexivity|exact H].
Qed.

(* a project row: the name is the first cell, the cost is the number written in the "cost" column *)
Theorem parse_project_row_faithful header row p :
  parse_project_row read_num header row = Some p ->
  p_name p = strip (hd [] row)
  /\ exists t, lookup K_cost (p_meta p) = Some t /\ read_num (replace_comma t) = Some (p_cost p).
Proof.
  unfold parse_project_row. destruct row as [|c0 row]; [discriminate|]. intros H. inv_obind H.
  injection H as <-. simpl. split; [reflexivity|]. exists s. split; assumption.
Qed.

(* M parse_faithful: the header of a parsed file is reflected in the election field by field *)
Definition header_faithful (e : election) : Prop :=
  let m := e_meta e in
  (exists bt, lookup $"budget" m = Some bt /\ read_num (replace_comma bt) = Some (e_budget e))
  /\ lookup $"vote_type" m = Some (vtype_name (e_vtype e))
  /\ lim_nat $"min_length" m (Nat.eqb 1) (e_min_len e)
  /\ lim_nat $"max_length" m (fun n => Nat.leb (List.length (e_projects e)) n) (e_max_len e)
  /\ match e_vtype e with
     | Approval =>
         lim_num $"min_sum_cost" m Qzero_b (e_min_cost e)
         /\ lim_num $"max_sum_cost" m (fun q => Qle_bool (e_budget e) q) (e_max_cost e)
         /\ e_min_total e = None /\ e_max_total e = None /\ e_min_score e = None /\ e_max_score e = None
     | Scoring =>
         lim_num $"min_points" m Qzero_b (e_min_score e)
         /\ (exists mt, get_num read_num $"max_sum_points" m = Some mt
                        /\ lim_num $"max_points" m (max_total_default mt) (e_max_score e))
         /\ e_min_cost e = None /\ e_max_cost e = None /\ e_min_total e = None /\ e_max_total e = None
     | Cumulative =>
         lim_num $"min_points" m Qzero_b (e_min_score e)
         /\ lim_num $"max_points" m (max_total_default (e_max_total e)) (e_max_score e)
         /\ lim_num $"min_sum_points" m Qzero_b (e_min_total e)
         /\ lim_num $"max_sum_points" m (fun _ => false) (e_max_total e)
         /\ e_min_cost e = None /\ e_max_cost e = None
     | Ordinal =>
         e_min_cost e = None /\ e_max_cost e = None /\ e_min_total e = None /\ e_max_total e = None
         /\ e_min_score e = None /\ e_max_score e = None
     end.

Theorem parse_faithful rows e : parse_rows rows = Some e -> header_faithful e.
Proof.
  intros H. apply parse_rows_finish in H as (st & _ & H).
  pose proof (finish_spec st e H) as S. cbv zeta in S.
  destruct S as (Hm & Hp & _ & S). unfold header_faithful. rewrite Hm, Hp. exact S.
Qed.

(* the instance of the DESIGN example: a cost limit below the budget is kept, one at or above it is dropped *)
Theorem parse_faithful_max_cost rows e t q :
  parse_rows rows = Some e -> e_vtype e = Approval ->
  lookup $"max_sum_cost" (e_meta e) = Some t -> read_num t = Some q ->
  (q < e_budget e -> e_max_cost e = Some q) /\ (e_budget e <= q -> e_max_cost e = None).
Proof.
  intros H Hv Ht Hq. apply parse_faithful in H. destruct H as (_ & _ & _ & _ & H).
  rewrite Hv in H. destruct H as (_ & H & _). unfold lim_num in H. rewrite Ht in H.
  destruct H as (q' & Hq' & Hres). rewrite Hq in Hq'. injection Hq' as <-.
  rewrite Hres. split; intros Hlt.
  - destruct (Qle_bool (e_budget e) q) eqn:E; [|reflexivity].
    apply Qle_bool_iff in E. exfalso. apply (Qlt_not_le _ _ Hlt E).
  - apply Qle_bool_iff in Hlt. now rewrite Hlt.
Qed.

(* the ballot-length limits: 1 is the default minimum, the number of projects (or more) the default maximum *)
Theorem parse_faithful_lengths rows e :
  parse_rows rows = Some e ->
  (forall t n, lookup $"min_length" (e_meta e) = Some t -> read_nat t = Some n ->
     e_min_len e = if Nat.eqb 1 n then None else Some n)
  /\ (forall t n, lookup $"max_length" (e_meta e) = Some t -> read_nat t = Some n ->
     e_max_len e = if Nat.leb (List.length (e_projects e)) n then None else Some n)
  /\ (lookup $"min_length" (e_meta e) = None -> e_min_len e = None)
  /\ (lookup $"max_length" (e_meta e) = None -> e_max_len e = None).
Proof.
  intros H. apply parse_faithful in H. destruct H as (_ & _ & H1 & H2 & _).
  unfold lim_nat in H1, H2. repeat split.
  - intros t n Ht Hn. rewrite Ht in H1. destruct H1 as (n' & Hn' & ->). rewrite Hn in Hn'. injection Hn' as <-. reflexivity.
  - intros t n Ht Hn. rewrite Ht in H2. destruct H2 as (n' & Hn' & ->). rewrite Hn in Hn'. injection Hn' as <-. reflexivity.
  - intros Ht. now rewrite Ht in H1.
  - intros Ht. now rewrite Ht in H2.
Qed.

End Faithful.

(* ============================================================================================ *)
(* Row level: the list-valued cells (vote, points, category, target)                               *)
(* ============================================================================================ *)
Definition no_char (c : ascii) (s : str) : Prop := Forall (fun x => Ascii.eqb x c = false) s.

Lemma split_on_single c s : no_char c s -> split_on c s = [s].
Proof.
  induction 1 as [|x r Hx Hr IH]; simpl; [reflexivity|]. now rewrite Hx, IH.
Qed.

Lemma split_on_app c s rest :
  no_char c s -> split_on c (s ++ c :: rest) = s :: split_on c rest.
Proof.
  induction 1 as [|x r Hx Hr IH]; simpl.
  - now rewrite Ascii.eqb_refl.
  - now rewrite Hx, IH.
Qed.

(* a non-empty list of comma-free items is recovered from its joined text ... *)
Theorem split_join c l : l <> [] -> Forall (no_char c) l -> split_on c (join_with c l) = l.
Proof.
  intros Hne H. induction H as [|x r Hx Hr IH]; [contradiction|].
  destruct r as [|y r].
  - simpl. now apply split_on_single.
  - change (join_with c (x :: y :: r)) with (x ++ c :: join_with c (y :: r)).
    rewrite split_on_app by assumption. rewrite IH; [reflexivity|discriminate].
Qed.

(* ... and so is the empty list, which is written as the empty cell (_split_list_cell) *)
Theorem split_list_cell_join l :
  (l <> [] -> Forall (no_char c_comma) l /\ strip (join_with c_comma l) <> []) ->
  split_list_cell (join_with c_comma l) = l.
Proof.
  intros H. unfold split_list_cell. destruct l as [|x r]; [reflexivity|].
  destruct H as [Hc Hs]; [discriminate|].
  destruct (strip (join_with c_comma (x :: r))) eqn:E; [contradiction|].
  apply split_join; [discriminate|assumption].
Qed.
