(* Proofs/MesEJRIrr.v -- the Equal Shares => EJR theorems for the IRRESOLUTE model: every allocation
   returned by [mes_irresolute] is (sorted) the outcome of the resolute rule under some tie-breaking key
   (Proofs/IrresoluteP.v, mes_irr_eq_orders), the theorems of Proofs/MesEJRRule.v hold for every key, and
   the EJR notions do not depend on the order of the outcome list. *)
From PB Require Import Spec.JR Proofs.IrresoluteP Proofs.MesEJRRule.
Open Scope Q_scope.

Lemma with_tb_self_ej (x : mes_in) : x = with_tb x (mi_tb x).
Proof. destruct x. reflexivity. Qed.

(* EJR does not depend on the order of the outcome *)
Lemma EJR_app_perm I V (P : list V) approves ut r W W' :
  Permutation W W' -> EJR_app I V P approves ut r W -> EJR_app I V P approves ut r W'.
Proof.
  intros HP H S T HC. destruct (H S T HC) as [i [Hi Hu]]. exists i. split; [exact Hi|].
  assert (Es : sat V ut i W == sat V ut i W') by (unfold sat; apply ej_sum_perm; exact HP).
  assert (Hin : forall p, In p W' -> In p W) by (intros p Hp; apply (Permutation_in p (Permutation_sym HP) Hp)).
  destruct r; simpl in *.
  - rewrite <- Es. exact Hu.
  - intros p Hp Hn. rewrite <- Es. apply Hu; [exact Hp|]. intro Hw. apply Hn. apply (Permutation_in p HP Hw).
  - destruct Hu as [Hu|[p [Hp [Hn Hu]]]]; [left; rewrite <- Es; exact Hu|].
    right. exists p. split; [exact Hp|]. split; [|rewrite <- Es; exact Hu].
    intro Hw. apply Hn. apply Hin. exact Hw.
Qed.

Section Irr.
Variable x : mes_in.
Variable approves : nat -> proj -> bool.
Variable Ws : list (list proj).
Hypothesis Hinit : mi_init x = [].
Hypothesis Hv : wf_voters (mi_voters x).
Hypothesis HB : 0 <= mi_budget x.
Hypothesis Henum_nd : NoDup (mi_enum x).
Hypothesis Henum : forall p, In p (mi_enum x) <-> (p < length (mi_costs x))%nat.
Hypothesis Hirr : mes_irresolute x = Some Ws.

Let voters := class_voters (mi_voters x).

(* every irresolute allocation is a permutation of a resolute outcome of the same election under some key *)
Lemma ej_irr_resolute X : In X Ws ->
  exists tb o, mes_resolute (with_tb x tb) = Some o /\ Permutation (o_alloc o) X.
Proof.
  intro HX. rewrite (with_tb_self_ej x) in Hirr.
  destruct (proj1 (mes_irr_eq_orders x Henum_nd (mi_tb x) Ws Hirr X) HX) as [pi [o [_ [Ho ->]]]].
  exists (RankIn.rank_in pi), o. split; [exact Ho|]. unfold sort_alloc. apply isort_perm.
Qed.

Theorem mes_irr_cost_EJR_any X : In X Ws ->
  Forall (fun c => 0 < c) (mi_costs x) ->
  ut_approval nat voters approves (mi_ut x) (cost (mi_inst x)) ->
  EJR_app (mi_inst x) nat voters approves (mi_ut x) UpToAny X.
Proof.
  intros HX Hcs Hut. destruct (ej_irr_resolute X HX) as [tb [o [Ho HP]]].
  apply (EJR_app_perm _ _ _ _ _ _ _ _ HP).
  exact (mes_cost_EJR_any (with_tb x tb) approves o Hinit Hv HB Henum_nd Henum (or_introl Ho) Hcs Hut).
Qed.

Theorem mes_irr_card_EJR X : In X Ws ->
  Forall (fun c => 0 <= c) (mi_costs x) ->
  ut_approval nat voters approves (mi_ut x) (fun _ => 1) ->
  EJR_app (mi_inst x) nat voters approves (mi_ut x) Plain X.
Proof.
  intros HX Hcs Hut. destruct (ej_irr_resolute X HX) as [tb [o [Ho HP]]].
  apply (EJR_app_perm _ _ _ _ _ _ _ _ HP).
  exact (mes_card_EJR (with_tb x tb) approves o Hinit Hv HB Henum_nd Henum (or_introl Ho) Hcs Hut).
Qed.

Theorem mes_irr_card_EJR_one X : In X Ws ->
  Forall (fun c => 0 <= c) (mi_costs x) ->
  ut_approval nat voters approves (mi_ut x) (fun _ => 1) ->
  EJR_app (mi_inst x) nat voters approves (mi_ut x) UpToOne X.
Proof.
  intros HX Hcs Hut. destruct (ej_irr_resolute X HX) as [tb [o [Ho HP]]].
  apply (EJR_app_perm _ _ _ _ _ _ _ _ HP).
  exact (mes_card_EJR_one (with_tb x tb) approves o Hinit Hv HB Henum_nd Henum (or_introl Ho) Hcs Hut).
Qed.

End Irr.
