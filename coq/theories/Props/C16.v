(* Props/C16.v -- property C16: multiprofiles are faithful multisets of ballots.
   Only statements closed by [exact]; the proofs live in Proofs/ProfilesP.v. *)
From Coq Require Import List Arith Bool ZArith QArith Permutation.
From PB Require Import Model.Ballots Model.Profiles Proofs.ProfilesP.
Import ListNotations.
Local Open Scope nat_scope.

(* Generic statement (DESIGN: multiprofile_faithful).  [B] mutable ballots, [K] frozen ballots, [kmatch] what a
   Counter lookup compares (hash equal and ==), [scb] "same content".  IF freezing is canonical and the hash
   respects equality -- together: the lookup relates frozen a and frozen b exactly when a and b have the same
   content -- THEN for EVERY history of append / extend / conversion steps, of any length:
   num_ballots = number of ballots inserted, the entries are the frozen forms of a system of distinct
   representatives of the contents (len = number of distinct contents), and the multiplicity of ANY frozen
   ballot is the number of inserted ballots with the same content. *)
Theorem C16_multiprofile_faithful :
  forall (B K : Type) (frozen : B -> K) (kmatch : K -> K -> bool) (scb : B -> B -> bool),
  (forall a, scb a a = true) ->
  (forall a b, scb a b = true -> forall c, scb a c = scb b c) ->
  (forall a b, kmatch (frozen a) (frozen b) = scb a b) ->
  forall ops : list (mpop B),
    let h := history ops in
    let m := run kmatch frozen ops in
    mp_num m = length h
    /\ (exists reps, reps_of B scb reps h /\ mp_len m = length reps /\ map fst m = map frozen reps)
    /\ (forall b, mp_get kmatch (frozen b) m = countb (scb b) h).
Proof. exact multiprofile_faithful_gen. Qed.
Print Assumptions C16_multiprofile_faithful.

(* canonical freezing of the four repaired classes, for every iteration order of the approval sets *)
Theorem C16_canonical_fixed : forall k enum, enum_ok enum ->
  forall a b, feq (frozen k enum a) (frozen k enum b) = true <-> same_content k a b.
Proof. exact canonical_fixed. Qed.
Print Assumptions C16_canonical_fixed.

(* equal frozen ballots have equal hashes, for every tuple hash / item hash *)
Theorem C16_hash_respects_eq_fixed : forall k enum thash ehash a b,
  feq (frozen k enum a) (frozen k enum b) = true ->
  fhash thash ehash (frozen k enum a) = fhash thash ehash (frozen k enum b).
Proof. exact hash_respects_eq_fixed. Qed.
Print Assumptions C16_hash_respects_eq_fixed.

(* hence: the repaired classes are faithful, unconditionally *)
Theorem C16_multiprofile_faithful_fixed : forall k enum thash ehash, enum_ok enum ->
  forall ops : list (mpop mballot),
    let h := history ops in
    let m := run (kmatch (fhash thash ehash)) (frozen k enum) ops in
    mp_num m = length h
    /\ (exists reps, reps_of mballot (same_contentb k) reps h /\ mp_len m = length reps
                     /\ map fst m = map (frozen k enum) reps)
    /\ (forall b, mp_get (kmatch (fhash thash ehash)) (frozen k enum b) m = countb (same_contentb k b) h).
Proof. exact multiprofile_faithful_fixed. Qed.
Print Assumptions C16_multiprofile_faithful_fixed.

Theorem C16_same_contentb_spec : forall k a b, same_contentb k a b = true <-> same_content k a b.
Proof. exact same_contentb_spec. Qed.
Print Assumptions C16_same_contentb_spec.

(* freezing keeps the class, the name, the meta and the content *)
Theorem C16_freeze_preserves : forall k enum b, enum_ok enum ->
  f_kind (frozen k enum b) = k /\ f_name (frozen k enum b) = b_name b /\ f_meta (frozen k enum b) = b_meta b
  /\ match k with
     | KApp => forall p, In p (keys (f_items (frozen k enum b))) <-> In p (keys (content b))
     | _ => f_items (frozen k enum b) = content b
     end.
Proof. exact freeze_preserves. Qed.
Print Assumptions C16_freeze_preserves.

(* the classes as they were before the repairs: each hypothesis of the generic theorem is necessary *)
Theorem C16_canonical_app_old_refuted :
  exists enum a b, enum_ok enum /\ same_content KApp a b /\
                   feq (frozen_old KApp enum a) (frozen_old KApp enum b) = false.
Proof. exact canonical_app_old_refuted. Qed.
Print Assumptions C16_canonical_app_old_refuted.

Theorem C16_hash_old_refuted : forall thash, thash [0; 1] <> thash [1; 0] ->
  same_content KCard bC1 bC2 /\
  feq (frozen KCard enum_ins bC1) (frozen KCard enum_ins bC2) = true /\
  fhash_old thash (frozen KCard enum_ins bC1) <> fhash_old thash (frozen KCard enum_ins bC2) /\
  let m := run (kmatch (fhash_old thash)) (frozen KCard enum_ins) [OpExtend [bC1; bC2]] in
  mp_len m = 2 /\ mp_get (kmatch (fhash_old thash)) (frozen KCard enum_ins bC1) m = 1.
Proof. exact hash_old_refuted. Qed.
Print Assumptions C16_hash_old_refuted.

(* FrozenApprovalBallot(approval_ballot) -- the constructor given the set -- is the name-sorted tuple, the very
   frozen ballot that ballot.frozen() returns, for every iteration order of the set; hence C16_canonical_fixed /
   C16_multiprofile_faithful_fixed cover this construction path too *)
Theorem C16_frozen_from_set_fixed : forall enum b, frozen_app_of_ballot enum b = frozen KApp enum b.
Proof. exact frozen_from_set_fixed. Qed.
Print Assumptions C16_frozen_from_set_fixed.

Theorem C16_frozen_from_set_old_refuted :
  exists enum b, enum_ok enum /\ feq (frozen_app_of_ballot_old enum b) (frozen KApp enum b) = false.
Proof. exact frozen_from_set_old_refuted. Qed.
Print Assumptions C16_frozen_from_set_old_refuted.

(* non-vacuity: a concrete history on which entries merge and multiplicities exceed 1 *)
Example C16_nonvacuous :
  let m := run (kmatch (fhash thash0 ehash0)) (frozen KCard enum_ins)
               [OpExtend [bC1; bC2]; OpAppend (mkB [HSet 0 (1#2)] 3 0); OpAppend bC1] in
  mp_len m = 2 /\ mp_num m = 4 /\ mp_get (kmatch (fhash thash0 ehash0)) (frozen KCard enum_ins bC2) m = 3
  /\ enum_ok enum_ins.
Proof. split; [|split; [|split]]; try (vm_compute; reflexivity). Qed.
