(* Props/C13mes.v -- property C13, Equal Shares, the entry point left UNPROVED in Props/C13.v: the
   iterated AND irresolute rule (mes_iter_irresolute) returns the same set of allocations whatever the
   iteration order of the project set, the order of the voters and the tie-breaking key.
   Only statements closed by [exact]; proofs in Proofs/MesIrrSpec.v, Proofs/MesIterIrrIndep.v. *)
From PB Require Import Model.MesRule Spec.MesSpec Proofs.MesWf Proofs.MesSpecExec Proofs.MesIrrSpec Proofs.MesIterIrrIndep.
From PB Require Proofs.InvarianceMesRunP.
Open Scope Q_scope.

(* what one pass of the loop returns in irresolute mode: the name-sorted outcomes of ALL runs of the
   textbook rule in which any project of the argmin set may be bought -- no enumeration order, no
   tie-breaking key on the right-hand side *)
Theorem C13_run_once_irr_spec : forall x b0 L,
  wf_voters (mi_voters x) -> 0 <= b0 -> NoDup (mi_enum x) ->
  (forall p, In p (mi_enum x) <-> (p < length (mi_costs x))%nat) ->
  run_once_irr x b0 = Some L ->
  forall X, In X L <->
    exists W, spec_run_any (mi_costs x) (mi_voters x) (repeat b0 (length (mi_voters x))) (si_pool (spec_of x)) W /\
              X = sort_alloc (mi_init x ++ si_zeros (spec_of x) ++ W).
Proof. exact run_once_irr_spec. Qed.
Print Assumptions C13_run_once_irr_spec.

(* the any-choice textbook runs are invariant under a joint re-ordering of voters and their money *)
Theorem C13_spec_run_any_SRel : forall cs P P' b rem W, spec_run_any cs P b rem W ->
  forall b', InvarianceMesRunP.SRel P b P' b' -> spec_run_any cs P' b' rem W.
Proof. exact spec_run_any_SRel. Qed.
Print Assumptions C13_spec_run_any_SRel.

(* every pass of the loop, from any common endowment b0 >= 0 *)
Theorem C13_run_once_irr_presentation : forall x e2 P' tb',
  wf_voters (mi_voters x) -> InvarianceMesRunP.valid_enum x (mi_enum x) -> InvarianceMesRunP.valid_enum x e2 ->
  Permutation (mi_voters x) P' ->
  forall b0 L1 L2, 0 <= b0 ->
  run_once_irr x b0 = Some L1 ->
  run_once_irr (InvarianceMesRunP.with_voters (InvarianceMesRunP.with_enum x e2) P' tb') b0 = Some L2 ->
  forall X, In X L1 <-> In X L2.
Proof. exact run_once_irr_presentation. Qed.
Print Assumptions C13_run_once_irr_presentation.

(* M mes_iter_irresolute_presentation_indep ([oseteq]: both Some with the same elements, or both out of
   the outer fuel) *)
Theorem C13_mes_iter_irresolute_presentation_indep : forall x e2 P' tb',
  wf_voters (mi_voters x) -> InvarianceMesRunP.valid_enum x (mi_enum x) -> InvarianceMesRunP.valid_enum x e2 ->
  Permutation (mi_voters x) P' ->
  forall fuel inc, 0 <= inc -> tcost (mi_inst x) (mi_init x) <= mi_budget x ->
  oseteq (mes_iter_irresolute fuel x inc)
         (mes_iter_irresolute fuel (InvarianceMesRunP.with_voters (InvarianceMesRunP.with_enum x e2) P' tb') inc).
Proof. exact mes_iter_irresolute_presentation_indep. Qed.
Print Assumptions C13_mes_iter_irresolute_presentation_indep.
