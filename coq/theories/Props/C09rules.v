(* Props/C09rules.v -- property C09, end to end: the exhaustion wrappers (Model/Exhaustion.v) around the CONCRETE
   rule models -- Equal Shares (Model/MesRule.v), greedy welfare (Model/GreedyRule.v), sequential Phragmen
   (Model/Phragmen.v) -- instead of an abstract rule under contract hypotheses (Props/C09.v).
   Only statements closed by [exact]; proofs in Proofs/ComposeP.v, ComposePRules.v, ComposePIncrease.v,
   ComposePCompletion.v, ComposePExtends.v, ComposePMesIter.v; definitions in Model/Compose.v:
     X_rule_res inputs.. (b : Q) (a : alloc) : alloc        rule model X on the instance (costs, budget b) started
     X_rule_irr inputs.. (b : Q) (a : alloc) : list alloc   from the allocation a  (X = mes, greedy, phr)
     increase_rule_res cs B rule init ..  = increase_res (mkInst cs B) (fun b => rule b init) init ..
     completion_rules_res cs B rules init = complete_res (mkInst cs B) (map (fun r => r B) rules) init
     least_stop bad exh out init n k W    = the conclusion of C09_increase_spec (C09rules_least_stop_meaning)
     mes_iter_wrapped x inc fuel          = mes_iter_res around one run of the inner algorithm (run_once_res).

   FINDING (C09rules_contract_all_budgets_unsatisfiable): the contract of C09_increase_feasible /
   C09_mes_iterated_feasible -- [forall b, feasible (mkInst (costs I) b) (R b)] with NO lower bound on b -- is
   unsatisfiable on every instance with non-negative costs (take b = -1), so those two theorems cannot be
   instantiated by any rule.  The theorems below use the contract a rule can meet: for b >= B (the loop never
   goes below the instance's budget when step >= 0), resp. only the budget-independent part for the iterated
   Equal Shares.  C09_completion_spec_* ask [incl a (r a)] of EVERY allocation a; the rule models'
   feasibility theorems give it for feasible a only (C09rules_completion_spec_relative = same conclusion under that
   contract), but the models do extend any allocation (C09rules_rules_extend_any_allocation, structural), so the
   original completion theorems are instantiable as they stand (C09rules_completion_contract_literal). *)
From PB Require Import Model.Compose Proofs.ExhaustionP Proofs.ComposeP Proofs.ComposePRules Proofs.ComposePIncrease
  Proofs.ComposePCompletion Proofs.ComposePMesIter Proofs.ComposePExtends.
From PB Require Proofs.MesWf Proofs.MesFeasible.
Open Scope Q_scope.

(* ================================================================================================ *)
(* 0. the abstract layer, repaired                                                                  *)
(* ================================================================================================ *)

Theorem C09rules_contract_all_budgets_unsatisfiable : forall (I : inst) (R : Q -> alloc),
  Forall (fun c => 0 <= c) (costs I) -> ~ (forall b, feasible (mkInst (costs I) b) (R b)).
Proof. exact contract_all_budgets_unsatisfiable. Qed.
Print Assumptions C09rules_contract_all_budgets_unsatisfiable.

Theorem C09rules_contract_all_budgets_irresolute_empty : forall (I : inst) (R : Q -> list alloc),
  Forall (fun c => 0 <= c) (costs I) ->
  (forall b W, In W (R b) -> feasible (mkInst (costs I) b) W) -> forall b, b < 0 -> R b = [].
Proof. exact contract_all_budgets_irresolute_empty. Qed.
Print Assumptions C09rules_contract_all_budgets_irresolute_empty.

(* increase_feasible under the contract "from the instance's budget on" *)
Theorem C09rules_increase_feasible_from_budget : forall I init, feasible I init ->
  forall step, 0 <= step ->
  forall R : Q -> alloc,
  (forall b, budget I <= b -> feasible (mkInst (costs I) b) (R b)) ->
  (forall b, budget I <= b -> incl init (R b)) ->
  forall stop bound fuel k W,
  increase_res I R init stop step bound fuel = Some (k, W) -> feasible I W /\ incl init W.
Proof. exact increase_res_feasible_ge. Qed.
Print Assumptions C09rules_increase_feasible_from_budget.

Theorem C09rules_increase_feasible_from_budget_irresolute : forall I init, feasible I init ->
  forall step, 0 <= step ->
  forall R : Q -> list alloc,
  (forall b W, budget I <= b -> In W (R b) -> feasible (mkInst (costs I) b) W) ->
  (forall b W, budget I <= b -> In W (R b) -> incl init W) ->
  forall stop bound fuel k Ws,
  increase_irr I R init stop step bound fuel = Some (k, Ws) ->
  forall W, In W Ws -> feasible I W /\ incl init W.
Proof. exact increase_irr_feasible_ge. Qed.
Print Assumptions C09rules_increase_feasible_from_budget_irresolute.

(* completion under the contract "from a feasible allocation" *)
Theorem C09rules_completion_spec_relative : forall I (rules : list (alloc -> alloc)),
  (forall r a, In r rules -> feasible I a -> incl a (r a) /\ feasible I (r a)) ->
  forall init, feasible I init ->
  let W := complete_res I rules init in
  incl init W /\ feasible I W /\
  match rules with [] => W = init | r1 :: _ => incl (r1 init) W end /\
  (exh_all I W = true \/ W = fold_left (fun a r => r a) rules init).
Proof. exact complete_res_spec_rel. Qed.
Print Assumptions C09rules_completion_spec_relative.

Theorem C09rules_completion_sound_relative_irresolute :
  forall I (r1 : alloc -> list alloc) (rest : list (alloc -> list alloc)) init,
  (forall r a W, In r (r1 :: rest) -> feasible I a -> In W (r a) -> incl a W /\ feasible I W) ->
  feasible I init ->
  forall W, In W (completion_irr I (r1 :: rest) init) ->
    incl init W /\ feasible I W /\ exists a, In a (r1 init) /\ incl a W.
Proof. exact completion_irr_sound_rel. Qed.
Print Assumptions C09rules_completion_sound_relative_irresolute.

Theorem C09rules_least_stop_meaning : forall (T : Type) (bad exh : T -> bool) (out : nat -> T) init n k W,
  least_stop bad exh out init n k W <->
  ((exists j, (j < n)%nat /\ k = S j /\
      (forall i, (i < j)%nat -> bad (out i) = false /\ exh (out i) = false) /\
      ((bad (out j) = true /\ W = match j with O => init | S i => out i end) \/
       (bad (out j) = false /\ exh (out j) = true /\ W = out j)))
   \/ (k = n /\ (forall i, (i < n)%nat -> bad (out i) = false /\ exh (out i) = false) /\
       W = match n with O => init | S i => out i end)).
Proof. exact (fun T bad exh out init n k W => iff_refl _). Qed.
Print Assumptions C09rules_least_stop_meaning.

(* ================================================================================================ *)
(* 1. exhaustion_by_budget_increase around each rule model                                          *)
(* ================================================================================================ *)

(* ---- Equal Shares.  Side conditions = those of C01_mes_feasible minus the ones about budget / initial allocation:
   non-negative costs, every voter class has multiplicity >= 1, at least one voter, enum lists distinct instance
   projects.  R_feasible_for_its_budget, R_extends_init, R_proper, and "R b IS the model's outcome at budget b". *)
Theorem C09rules_mes_R_contract : forall cs P tb enum bin B init,
  Forall (fun c => 0 <= c) cs /\ MesWf.wf_voters P /\ (1 <= nvoters P)%nat /\
    NoDup enum /\ (forall p, In p enum -> (p < length cs)%nat) ->
  0 < B -> feasible (mkInst cs B) init ->
  let R := fun b => mes_rule_res cs P tb enum bin b init in
  (forall b, B <= b -> feasible (mkInst cs b) (R b)) /\
  (forall b, B <= b -> incl init (R b)) /\
  (forall b b', b == b' -> R b = R b') /\
  (forall b, exists o, MesRule.mes_resolute (MesRule.mkIn cs b P tb enum bin init) = Some o /\
                       R b = MesRule.o_alloc o).
Proof. exact mes_R_contract. Qed.
Print Assumptions C09rules_mes_R_contract.

Theorem C09rules_increase_mes_feasible : forall cs P tb enum bin B init stop step bound fuel k W,
  Forall (fun c => 0 <= c) cs /\ MesWf.wf_voters P /\ (1 <= nvoters P)%nat /\
    NoDup enum /\ (forall p, In p enum -> (p < length cs)%nat) ->
  0 < B -> feasible (mkInst cs B) init -> 0 <= step ->
  increase_rule_res cs B (mes_rule_res cs P tb enum bin) init stop step bound fuel = Some (k, W) ->
  feasible (mkInst cs B) W /\ incl init W.
Proof. exact increase_mes_feasible. Qed.
Print Assumptions C09rules_increase_mes_feasible.

(* the wrapper around the Equal Shares model returns the model's outcome at the least stopping try *)
Theorem C09rules_increase_mes_spec : forall cs P tb enum bin B init stop step bound fuel,
  Forall (fun c => 0 <= c) cs /\ MesWf.wf_voters P /\ (1 <= nvoters P)%nat /\
    NoDup enum /\ (forall p, In p enum -> (p < length cs)%nat) ->
  0 < B -> feasible (mkInst cs B) init -> 0 < step ->
  let I := mkInst cs B in
  let n := ntries B step bound in
  let out := fun k => mes_rule_res cs P tb enum bin (try_budget B step k) init in
  (fuel > n)%nat ->
  exists k W, increase_rule_res cs B (mes_rule_res cs P tb enum bin) init stop step bound fuel = Some (k, W) /\
    least_stop (infeasible1 I) (exh1 I stop (all_projects I)) out init n k W /\
    feasible I W /\ incl init W.
Proof. exact increase_mes_spec. Qed.
Print Assumptions C09rules_increase_mes_spec.

Theorem C09rules_increase_mes_feasible_irresolute : forall cs P tb enum bin B init stop step bound fuel k Ws,
  Forall (fun c => 0 <= c) cs /\ MesWf.wf_voters P /\ (1 <= nvoters P)%nat /\
    NoDup enum /\ (forall p, In p enum -> (p < length cs)%nat) ->
  0 < B -> feasible (mkInst cs B) init -> 0 <= step ->
  increase_rule_irr cs B (mes_rule_irr cs P tb enum bin) init stop step bound fuel = Some (k, Ws) ->
  forall W, In W Ws -> feasible (mkInst cs B) W /\ incl init W.
Proof. exact increase_mes_irr_feasible. Qed.
Print Assumptions C09rules_increase_mes_feasible_irresolute.

Theorem C09rules_increase_mes_spec_irresolute : forall cs P tb enum bin B init stop step bound fuel,
  Forall (fun c => 0 <= c) cs /\ MesWf.wf_voters P /\ (1 <= nvoters P)%nat /\
    NoDup enum /\ (forall p, In p enum -> (p < length cs)%nat) ->
  0 < B -> feasible (mkInst cs B) init -> 0 < step ->
  let I := mkInst cs B in
  let n := ntries B step bound in
  let out := fun k => mes_rule_irr cs P tb enum bin (try_budget B step k) init in
  (fuel > n)%nat ->
  exists k Ws, increase_rule_irr cs B (mes_rule_irr cs P tb enum bin) init stop step bound fuel = Some (k, Ws) /\
    least_stop (infeasible_any I) (exh_any I stop (all_projects I)) out [init] n k Ws /\
    forall W, In W Ws -> feasible I W /\ incl init W.
Proof. exact increase_mes_irr_spec. Qed.
Print Assumptions C09rules_increase_mes_spec_irresolute.

(* ---- greedy welfare (general scheme and additive fast path): only non-negative costs ---- *)
Theorem C09rules_greedy_R_contract : forall cs sat sp tb additive B init,
  Forall (fun c => 0 <= c) cs -> 0 < B -> feasible (mkInst cs B) init ->
  let R := fun b => greedy_rule_res cs sat sp tb additive b init in
  (forall b, B <= b -> feasible (mkInst cs b) (R b)) /\
  (forall b, B <= b -> incl init (R b)) /\
  (forall b b', b == b' -> R b = R b') /\
  (forall b, GreedyRule.greedy_welfare_res (mkInst cs b) sat sp tb additive init = Some (R b)).
Proof. exact greedy_R_contract. Qed.
Print Assumptions C09rules_greedy_R_contract.

Theorem C09rules_increase_greedy_feasible : forall cs sat sp tb additive B init stop step bound fuel k W,
  Forall (fun c => 0 <= c) cs -> 0 < B -> feasible (mkInst cs B) init -> 0 <= step ->
  increase_rule_res cs B (greedy_rule_res cs sat sp tb additive) init stop step bound fuel = Some (k, W) ->
  feasible (mkInst cs B) W /\ incl init W.
Proof. exact increase_greedy_feasible. Qed.
Print Assumptions C09rules_increase_greedy_feasible.

Theorem C09rules_increase_greedy_spec : forall cs sat sp tb additive B init stop step bound fuel,
  Forall (fun c => 0 <= c) cs -> 0 < B -> feasible (mkInst cs B) init -> 0 < step ->
  let I := mkInst cs B in
  let n := ntries B step bound in
  let out := fun k => greedy_rule_res cs sat sp tb additive (try_budget B step k) init in
  (fuel > n)%nat ->
  exists k W, increase_rule_res cs B (greedy_rule_res cs sat sp tb additive) init stop step bound fuel = Some (k, W) /\
    least_stop (infeasible1 I) (exh1 I stop (all_projects I)) out init n k W /\
    feasible I W /\ incl init W.
Proof. exact increase_greedy_spec. Qed.
Print Assumptions C09rules_increase_greedy_spec.

Theorem C09rules_increase_greedy_feasible_irresolute : forall cs sat tb additive B init stop step bound fuel k Ws,
  Forall (fun c => 0 <= c) cs -> 0 < B -> feasible (mkInst cs B) init -> 0 <= step ->
  increase_rule_irr cs B (greedy_rule_irr cs sat tb additive) init stop step bound fuel = Some (k, Ws) ->
  forall W, In W Ws -> feasible (mkInst cs B) W /\ incl init W.
Proof. exact increase_greedy_irr_feasible. Qed.
Print Assumptions C09rules_increase_greedy_feasible_irresolute.

Theorem C09rules_increase_greedy_spec_irresolute : forall cs sat tb additive B init stop step bound fuel,
  Forall (fun c => 0 <= c) cs -> 0 < B -> feasible (mkInst cs B) init -> 0 < step ->
  let I := mkInst cs B in
  let n := ntries B step bound in
  let out := fun k => greedy_rule_irr cs sat tb additive (try_budget B step k) init in
  (fuel > n)%nat ->
  exists k Ws, increase_rule_irr cs B (greedy_rule_irr cs sat tb additive) init stop step bound fuel = Some (k, Ws) /\
    least_stop (infeasible_any I) (exh_any I stop (all_projects I)) out [init] n k Ws /\
    forall W, In W Ws -> feasible I W /\ incl init W.
Proof. exact increase_greedy_irr_spec. Qed.
Print Assumptions C09rules_increase_greedy_spec_irresolute.

(* ---- sequential Phragmen: enum lists distinct instance projects; any ballots, loads, tie-breaking key ---- *)
Theorem C09rules_phragmen_R_contract : forall cs A tb enum loads B init,
  NoDup enum -> (forall p, In p enum -> (p < length cs)%nat) -> 0 < B -> feasible (mkInst cs B) init ->
  let R := fun b => phr_rule_res cs A tb enum loads b init in
  (forall b, B <= b -> feasible (mkInst cs b) (R b)) /\
  (forall b, B <= b -> incl init (R b)) /\
  (forall b b', b == b' -> R b = R b') /\
  (forall b, Phragmen.phragmen_res (mkInst cs b) A tb enum loads init = Some (R b)).
Proof. exact phr_R_contract. Qed.
Print Assumptions C09rules_phragmen_R_contract.

Theorem C09rules_increase_phragmen_feasible : forall cs A tb enum loads B init stop step bound fuel k W,
  NoDup enum -> (forall p, In p enum -> (p < length cs)%nat) -> 0 < B -> feasible (mkInst cs B) init ->
  0 <= step ->
  increase_rule_res cs B (phr_rule_res cs A tb enum loads) init stop step bound fuel = Some (k, W) ->
  feasible (mkInst cs B) W /\ incl init W.
Proof. exact increase_phr_feasible. Qed.
Print Assumptions C09rules_increase_phragmen_feasible.

Theorem C09rules_increase_phragmen_spec : forall cs A tb enum loads B init stop step bound fuel,
  NoDup enum -> (forall p, In p enum -> (p < length cs)%nat) -> 0 < B -> feasible (mkInst cs B) init ->
  0 < step ->
  let I := mkInst cs B in
  let n := ntries B step bound in
  let out := fun k => phr_rule_res cs A tb enum loads (try_budget B step k) init in
  (fuel > n)%nat ->
  exists k W, increase_rule_res cs B (phr_rule_res cs A tb enum loads) init stop step bound fuel = Some (k, W) /\
    least_stop (infeasible1 I) (exh1 I stop (all_projects I)) out init n k W /\
    feasible I W /\ incl init W.
Proof. exact increase_phr_spec. Qed.
Print Assumptions C09rules_increase_phragmen_spec.

Theorem C09rules_increase_phragmen_feasible_irresolute : forall cs A tb enum loads B init stop step bound fuel k Ws,
  NoDup enum -> (forall p, In p enum -> (p < length cs)%nat) -> 0 < B -> feasible (mkInst cs B) init ->
  0 <= step ->
  increase_rule_irr cs B (phr_rule_irr cs A tb enum loads) init stop step bound fuel = Some (k, Ws) ->
  forall W, In W Ws -> feasible (mkInst cs B) W /\ incl init W.
Proof. exact increase_phr_irr_feasible. Qed.
Print Assumptions C09rules_increase_phragmen_feasible_irresolute.

Theorem C09rules_increase_phragmen_spec_irresolute : forall cs A tb enum loads B init stop step bound fuel,
  NoDup enum -> (forall p, In p enum -> (p < length cs)%nat) -> 0 < B -> feasible (mkInst cs B) init ->
  0 < step ->
  let I := mkInst cs B in
  let n := ntries B step bound in
  let out := fun k => phr_rule_irr cs A tb enum loads (try_budget B step k) init in
  (fuel > n)%nat ->
  exists k Ws, increase_rule_irr cs B (phr_rule_irr cs A tb enum loads) init stop step bound fuel = Some (k, Ws) /\
    least_stop (infeasible_any I) (exh_any I stop (all_projects I)) out [init] n k Ws /\
    forall W, In W Ws -> feasible I W /\ incl init W.
Proof. exact increase_phr_irr_spec. Qed.
Print Assumptions C09rules_increase_phragmen_spec_irresolute.

(* ================================================================================================ *)
(* 2. completion_by_rule_combination over concrete sequences                                        *)
(* ================================================================================================ *)

(* the contract of completion (relative form) holds of the three rule models on the original instance *)
Theorem C09rules_completion_contract : forall cs B P tb enum bin sat sp gtb additive A ptb penum loads,
  Forall (fun c => 0 <= c) cs /\ MesWf.wf_voters P /\ (1 <= nvoters P)%nat /\
    NoDup enum /\ (forall p, In p enum -> (p < length cs)%nat) ->
  Forall (fun c => 0 <= c) cs ->
  NoDup penum -> (forall p, In p penum -> (p < length cs)%nat) -> 0 < B ->
  let I := mkInst cs B in
  forall r, In r [mes_rule_res cs P tb enum bin B; greedy_rule_res cs sat sp gtb additive B;
                  phr_rule_res cs A ptb penum loads B] ->
  forall a, feasible I a -> incl a (r a) /\ feasible I (r a).
Proof. exact rule_models_completion_contract. Qed.
Print Assumptions C09rules_completion_contract.

(* [Equal Shares; greedy]: feasible, contains the initial allocation and the Equal Shares outcome, exhaustive *)
Theorem C09rules_completion_mes_greedy : forall cs B P tb enum bin sat sp gtb additive init,
  Forall (fun c => 0 <= c) cs /\ MesWf.wf_voters P /\ (1 <= nvoters P)%nat /\
    NoDup enum /\ (forall p, In p enum -> (p < length cs)%nat) ->
  0 < B -> feasible (mkInst cs B) init ->
  let I := mkInst cs B in
  let W := completion_rules_res cs B [mes_rule_res cs P tb enum bin; greedy_rule_res cs sat sp gtb additive] init in
  feasible I W /\ incl init W /\ incl (mes_rule_res cs P tb enum bin B init) W /\ exhaustive I W.
Proof. exact completion_mes_greedy. Qed.
Print Assumptions C09rules_completion_mes_greedy.

(* [Equal Shares; Phragmen] *)
Theorem C09rules_completion_mes_phragmen : forall cs B P tb enum bin A ptb penum loads init,
  Forall (fun c => 0 <= c) cs /\ MesWf.wf_voters P /\ (1 <= nvoters P)%nat /\
    NoDup enum /\ (forall p, In p enum -> (p < length cs)%nat) ->
  NoDup penum -> (forall p, In p penum -> (p < length cs)%nat) ->
  0 < B -> feasible (mkInst cs B) init ->
  let I := mkInst cs B in
  let W := completion_rules_res cs B [mes_rule_res cs P tb enum bin; phr_rule_res cs A ptb penum loads] init in
  feasible I W /\ incl init W /\ incl (mes_rule_res cs P tb enum bin B init) W /\
  (exhaustive I W \/ W = phr_rule_res cs A ptb penum loads B (mes_rule_res cs P tb enum bin B init)).
Proof. exact completion_mes_phr. Qed.
Print Assumptions C09rules_completion_mes_phragmen.

(* [Equal Shares; Equal Shares] (e.g. cost satisfaction, then cardinality satisfaction) *)
Theorem C09rules_completion_mes_mes : forall cs B P tb enum bin P' tb' enum' bin' init,
  Forall (fun c => 0 <= c) cs /\ MesWf.wf_voters P /\ (1 <= nvoters P)%nat /\
    NoDup enum /\ (forall p, In p enum -> (p < length cs)%nat) ->
  Forall (fun c => 0 <= c) cs /\ MesWf.wf_voters P' /\ (1 <= nvoters P')%nat /\
    NoDup enum' /\ (forall p, In p enum' -> (p < length cs)%nat) ->
  0 < B -> feasible (mkInst cs B) init ->
  let I := mkInst cs B in
  let W := completion_rules_res cs B [mes_rule_res cs P tb enum bin; mes_rule_res cs P' tb' enum' bin'] init in
  feasible I W /\ incl init W /\ incl (mes_rule_res cs P tb enum bin B init) W /\
  (exhaustive I W \/ W = mes_rule_res cs P' tb' enum' bin' B (mes_rule_res cs P tb enum bin B init)).
Proof. exact completion_mes_mes. Qed.
Print Assumptions C09rules_completion_mes_mes.

(* any sequence of rules meeting the contract; exhaustive as soon as the last rule is (greedy) *)
Theorem C09rules_completion_rules_spec : forall cs B (rules : list (Q -> alloc -> alloc)) init,
  (forall r, In r rules -> forall a, feasible (mkInst cs B) a ->
     feasible (mkInst cs B) (r B a) /\ incl a (r B a)) ->
  feasible (mkInst cs B) init ->
  let I := mkInst cs B in
  let W := completion_rules_res cs B rules init in
  incl init W /\ feasible I W /\
  match rules with [] => W = init | r1 :: _ => incl (r1 B init) W end /\
  (exhaustive I W \/ W = fold_left (fun a r => r B a) rules init).
Proof. exact completion_rules_res_spec. Qed.
Print Assumptions C09rules_completion_rules_spec.

Theorem C09rules_completion_greedy_last_exhaustive : forall cs B sat sp gtb additive (pre : list (Q -> alloc -> alloc)) init,
  Forall (fun c => 0 <= c) cs ->
  exhaustive (mkInst cs B) (completion_rules_res cs B (pre ++ [greedy_rule_res cs sat sp gtb additive]) init).
Proof.
  exact (fun cs B sat sp gtb additive pre init Hc =>
    completion_rules_res_exhaustive cs B pre (greedy_rule_res cs sat sp gtb additive) init
      (fun a => greedy_rule_res_exhaustive cs sat sp gtb Hc additive B a)).
Qed.
Print Assumptions C09rules_completion_greedy_last_exhaustive.

(* irresolute: every returned allocation *)
Theorem C09rules_completion_mes_greedy_irresolute : forall cs B P tb enum bin sat gtb additive init,
  Forall (fun c => 0 <= c) cs /\ MesWf.wf_voters P /\ (1 <= nvoters P)%nat /\
    NoDup enum /\ (forall p, In p enum -> (p < length cs)%nat) ->
  0 < B -> feasible (mkInst cs B) init ->
  let I := mkInst cs B in
  forall W, In W (completion_rules_irr cs B [mes_rule_irr cs P tb enum bin; greedy_rule_irr cs sat gtb additive] init) ->
  feasible I W /\ incl init W /\ (exists a, In a (mes_rule_irr cs P tb enum bin B init) /\ incl a W) /\ exhaustive I W.
Proof. exact completion_mes_greedy_irr. Qed.
Print Assumptions C09rules_completion_mes_greedy_irresolute.

Theorem C09rules_completion_mes_phragmen_irresolute : forall cs B P tb enum bin A ptb penum loads init,
  Forall (fun c => 0 <= c) cs /\ MesWf.wf_voters P /\ (1 <= nvoters P)%nat /\
    NoDup enum /\ (forall p, In p enum -> (p < length cs)%nat) ->
  NoDup penum -> (forall p, In p penum -> (p < length cs)%nat) ->
  0 < B -> feasible (mkInst cs B) init ->
  let I := mkInst cs B in
  forall W, In W (completion_rules_irr cs B [mes_rule_irr cs P tb enum bin; phr_rule_irr cs A ptb penum loads] init) ->
  feasible I W /\ incl init W /\ exists a, In a (mes_rule_irr cs P tb enum bin B init) /\ incl a W.
Proof. exact completion_mes_phr_irr. Qed.
Print Assumptions C09rules_completion_mes_phragmen_irresolute.

Theorem C09rules_completion_mes_mes_irresolute : forall cs B P tb enum bin P' tb' enum' bin' init,
  Forall (fun c => 0 <= c) cs /\ MesWf.wf_voters P /\ (1 <= nvoters P)%nat /\
    NoDup enum /\ (forall p, In p enum -> (p < length cs)%nat) ->
  Forall (fun c => 0 <= c) cs /\ MesWf.wf_voters P' /\ (1 <= nvoters P')%nat /\
    NoDup enum' /\ (forall p, In p enum' -> (p < length cs)%nat) ->
  0 < B -> feasible (mkInst cs B) init ->
  let I := mkInst cs B in
  forall W, In W (completion_rules_irr cs B [mes_rule_irr cs P tb enum bin; mes_rule_irr cs P' tb' enum' bin'] init) ->
  feasible I W /\ incl init W /\ exists a, In a (mes_rule_irr cs P tb enum bin B init) /\ incl a W.
Proof. exact completion_mes_mes_irr. Qed.
Print Assumptions C09rules_completion_mes_mes_irresolute.

(* the rule models extend ANY allocation they are started from (no hypothesis at all) ... *)
Theorem C09rules_rules_extend_any_allocation :
  (forall cs P tb enum bin b a, incl a (mes_rule_res cs P tb enum bin b a)) /\
  (forall cs sat sp tb additive b a, incl a (greedy_rule_res cs sat sp tb additive b a)) /\
  (forall cs A tb enum loads b a, incl a (phr_rule_res cs A tb enum loads b a)) /\
  (forall cs P tb enum bin b a W, In W (mes_rule_irr cs P tb enum bin b a) -> incl a W) /\
  (forall cs sat tb additive b a W, In W (greedy_rule_irr cs sat tb additive b a) -> incl a W) /\
  (forall cs A tb enum loads b a W, In W (phr_rule_irr cs A tb enum loads b a) -> incl a W).
Proof.
  exact (conj mes_rule_res_extends (conj greedy_rule_res_extends (conj phr_rule_res_extends
        (conj mes_rule_irr_extends (conj greedy_rule_irr_extends phr_rule_irr_extends))))).
Qed.
Print Assumptions C09rules_rules_extend_any_allocation.

(* ... hence the hypotheses of C09_completion_spec_resolute, literally *)
Theorem C09rules_completion_contract_literal : forall cs B P tb enum bin sat sp gtb additive A ptb penum loads,
  Forall (fun c => 0 <= c) cs /\ MesWf.wf_voters P /\ (1 <= nvoters P)%nat /\
    NoDup enum /\ (forall p, In p enum -> (p < length cs)%nat) ->
  NoDup penum -> (forall p, In p penum -> (p < length cs)%nat) -> 0 < B ->
  let I := mkInst cs B in
  let rules := [mes_rule_res cs P tb enum bin B; greedy_rule_res cs sat sp gtb additive B;
                phr_rule_res cs A ptb penum loads B] in
  (forall r a, In r rules -> incl a (r a)) /\
  (forall r a, In r rules -> feasible I a -> feasible I (r a)).
Proof. exact rule_models_completion_contract_literal. Qed.
Print Assumptions C09rules_completion_contract_literal.

(* and the three hypotheses of C09_completion_spec_irresolute (the third: the models never return an empty list) *)
Theorem C09rules_completion_contract_literal_irresolute :
  forall cs B P tb enum bin sat gtb additive A ptb penum loads,
  Forall (fun c => 0 <= c) cs /\ MesWf.wf_voters P /\ (1 <= nvoters P)%nat /\
    NoDup enum /\ (forall p, In p enum -> (p < length cs)%nat) ->
  NoDup penum -> (forall p, In p penum -> (p < length cs)%nat) -> 0 < B ->
  let I := mkInst cs B in
  let rules := [mes_rule_irr cs P tb enum bin B; greedy_rule_irr cs sat gtb additive B;
                phr_rule_irr cs A ptb penum loads B] in
  (forall r a W, In r rules -> In W (r a) -> incl a W) /\
  (forall r a W, In r rules -> feasible I a -> In W (r a) -> feasible I W) /\
  (forall r a, In r rules -> r a <> []).
Proof. exact rule_models_completion_contract_literal_irr. Qed.
Print Assumptions C09rules_completion_contract_literal_irresolute.

(* irresolute completion [Equal Shares; r2], r2 any of the three models: NO Equal Shares outcome is dropped *)
Theorem C09rules_completion_irresolute_nothing_dropped :
  forall cs B P tb enum bin sat gtb additive A ptb penum loads (r2 : alloc -> list alloc) init,
  Forall (fun c => 0 <= c) cs /\ MesWf.wf_voters P /\ (1 <= nvoters P)%nat /\
    NoDup enum /\ (forall p, In p enum -> (p < length cs)%nat) ->
  NoDup penum -> (forall p, In p penum -> (p < length cs)%nat) -> 0 < B ->
  feasible (mkInst cs B) init ->
  In r2 [mes_rule_irr cs P tb enum bin B; greedy_rule_irr cs sat gtb additive B; phr_rule_irr cs A ptb penum loads B] ->
  forall a, In a (mes_rule_irr cs P tb enum bin B init) ->
  exists W, In W (completion_irr (mkInst cs B) [mes_rule_irr cs P tb enum bin B; r2] init) /\ incl a W.
Proof. exact completion_irr_covers_models. Qed.
Print Assumptions C09rules_completion_irresolute_nothing_dropped.

(* ================================================================================================ *)
(* 3. the iterated Equal Shares of the rule model against C09_mes_iterated_spec                     *)
(* ================================================================================================ *)
(* R := one run of the inner algorithm at the inflated endowment (MesRule.run_once_res), as the allocation it
   returns: [mes_run_alloc x b].  The rule model's loop (MesRule.mes_iter_resolute) returns the run at the LEAST
   try whose outcome is exhaustive over the supported positive-cost candidates, or the run BEFORE the least try
   whose outcome is infeasible; [None] when that try is the first (the code returns the initial allocation plus
   the free projects there -- see C09rules_mes_iterated_simulation) or when no try stops. *)
Theorem C09rules_mes_iterated_spec : forall (x : MesRule.mes_in) (inc : Q),
  let I := MesRule.mi_inst x in
  let out := fun k => mes_run_alloc x (try_budget (MesRule.share x) inc k) in
  let bad := infeasible1 I in
  let exh := exh1 I true (mes_avail x) in
  (forall j fuel,
     (forall i, (i < j)%nat -> bad (out i) = false /\ exh (out i) = false) ->
     bad (out j) || exh (out j) = true ->
     (fuel > j)%nat ->
     option_map MesRule.o_alloc (MesRule.mes_iter_resolute fuel x inc) =
       if bad (out j) then match j with O => None | S i => Some (out i) end else Some (out j))
  /\ ((forall i, bad (out i) = false /\ exh (out i) = false) ->
      forall fuel, MesRule.mes_iter_resolute fuel x inc = None).
Proof. exact mes_iter_resolute_least_stop. Qed.
Print Assumptions C09rules_mes_iterated_spec.

Theorem C09rules_mes_iterated_spec_irresolute : forall (x : MesRule.mes_in) (inc : Q),
  let I := MesRule.mi_inst x in
  let outs := fun k => mes_run_allocs x (try_budget (MesRule.share x) inc k) in
  let bads := infeasible_any I in
  let exhs := exh_any I true (mes_avail x) in
  (forall j fuel,
     (forall i, (i < j)%nat -> bads (outs i) = false /\ exhs (outs i) = false) ->
     bads (outs j) || exhs (outs j) = true ->
     (fuel > j)%nat ->
     MesRule.mes_iter_irresolute fuel x inc =
       if bads (outs j) then match j with O => None | S i => Some (outs i) end else Some (outs j))
  /\ ((forall i, bads (outs i) = false /\ exhs (outs i) = false) ->
      forall fuel, MesRule.mes_iter_irresolute fuel x inc = None).
Proof. exact mes_iter_irresolute_least_stop. Qed.
Print Assumptions C09rules_mes_iterated_spec_irresolute.

(* the exact relation between the two models of the loop, for every input and fuel:
   [sim x 0 (share x) None r i] :=  r = None and i = None,
     or r = Some (1, start_alloc x), the first run is infeasible and i = None   (the one difference),
     or r = Some (k, W) and i = Some o with o_alloc o = W *)
Theorem C09rules_mes_iterated_simulation : forall (x : MesRule.mes_in) (inc : Q) (fuel : nat),
  match mes_iter_wrapped x inc fuel with
  | None => MesRule.mes_iter_resolute fuel x inc = None
  | Some (k, W) =>
      (k = 1%nat /\ infeasible1 (MesRule.mi_inst x) (mes_run_alloc x (MesRule.share x)) = true /\
       W = MesRule.start_alloc x /\ MesRule.mes_iter_resolute fuel x inc = None) \/
      ((k <> 1%nat \/ infeasible1 (MesRule.mi_inst x) (mes_run_alloc x (MesRule.share x)) = false) /\
       exists o, MesRule.mes_iter_resolute fuel x inc = Some o /\ MesRule.o_alloc o = W)
  end.
Proof. exact mes_iter_resolute_sim. Qed.
Print Assumptions C09rules_mes_iterated_simulation.

(* under the hypotheses of C01_mes_feasible the first run is feasible and the two models agree outright *)
Theorem C09rules_mes_iterated_eq_wrapper : forall (x : MesRule.mes_in) (inc : Q) (fuel : nat),
  MesFeasible.mes_hyps x ->
  option_map MesRule.o_alloc (MesRule.mes_iter_resolute fuel x inc) = option_map snd (mes_iter_wrapped x inc fuel).
Proof. exact mes_iter_resolute_eq_wrapper. Qed.
Print Assumptions C09rules_mes_iterated_eq_wrapper.

(* C09_mes_iterated_feasible for the concrete run (contract: distinct instance projects at EVERY endowment) *)
Theorem C09rules_mes_iterated_feasible : forall (x : MesRule.mes_in) (inc : Q),
  Forall (fun c => 0 <= c) (MesRule.mi_costs x) ->
  feasible (MesRule.mi_inst x) (MesRule.mi_init x) ->
  NoDup (MesRule.mi_enum x) -> (forall p, In p (MesRule.mi_enum x) -> (p < length (MesRule.mi_costs x))%nat) ->
  forall fuel k W, mes_iter_wrapped x inc fuel = Some (k, W) ->
  feasible (MesRule.mi_inst x) W /\ incl (MesRule.mi_init x) W.
Proof. exact mes_iter_wrapped_feasible. Qed.
Print Assumptions C09rules_mes_iterated_feasible.

Theorem C09rules_mes_iterated_feasible_irresolute : forall (x : MesRule.mes_in) (inc : Q),
  Forall (fun c => 0 <= c) (MesRule.mi_costs x) ->
  feasible (MesRule.mi_inst x) (MesRule.mi_init x) ->
  NoDup (MesRule.mi_enum x) -> (forall p, In p (MesRule.mi_enum x) -> (p < length (MesRule.mi_costs x))%nat) ->
  forall fuel k Ws, mes_iter_wrapped_irr x inc fuel = Some (k, Ws) ->
  forall W, In W Ws -> feasible (MesRule.mi_inst x) W /\ incl (MesRule.mi_init x) W.
Proof. exact mes_iter_wrapped_irr_feasible. Qed.
Print Assumptions C09rules_mes_iterated_feasible_irresolute.

(* ================================================================================================ *)
(* non-vacuity: one election (4 projects of cost 2,3,3,1; three ballot classes, one of multiplicity 2),    *)
(* the hypotheses hold and every family does something non-trivial                                  *)
(* ================================================================================================ *)
Definition ex_cs : list Q := [2; 3; 3; 1].
Definition ex_P : list vcls := [mkV [1; 1; 0; 0] 1%nat; mkV [1; 0; 1; 0] 2%nat; mkV [0; 1; 1; 1] 1%nat].
Definition ex_A : list aballot := [mkA [0; 1]%nat 1; mkA [0; 2]%nat 2; mkA [1; 2; 3]%nat 1].
Definition ex_tb : proj -> Q := fun p => Qnat p.
Definition ex_enum : list proj := [2; 3; 0; 1]%nat.
Definition ex_sp : proj -> Q := key_of_list [3; 2; 3; 1].
Definition ex_sat : list proj -> Q := fun W => Qsum (map ex_sp W).

Example C09rules_hypotheses_nonvacuous :
  (Forall (fun c => 0 <= c) ex_cs /\ MesWf.wf_voters ex_P /\ (1 <= nvoters ex_P)%nat /\
     NoDup ex_enum /\ (forall p, In p ex_enum -> (p < length ex_cs)%nat)) /\
  feasible (mkInst ex_cs 6) [] /\ feasible (mkInst ex_cs 6) [3%nat].
Proof.
  split; [split; [|split; [|split; [|split]]]|split].
  - repeat constructor; discriminate.
  - repeat constructor.
  - vm_compute. lia.
  - repeat constructor; simpl; intuition discriminate.
  - intros p Hp. simpl in Hp. simpl. intuition lia.
  - split; [constructor|]. split; [intros p []|]. vm_compute. discriminate.
  - split; [repeat constructor; simpl; tauto|]. split; [intros p [<-|[]]; vm_compute; lia|]. vm_compute. discriminate.
Qed.

(* budget increase, B = 6, step 1: Equal Shares buys {0,3} at 6, {0,2} at 7 (still feasible for 6, not exhaustive:
   project 3 fits) and {0,2,3} at 8 (exhaustive) -- three calls; without the exhaustive stop it goes on to the
   first infeasible try (the seventh, budget 12, all four projects) and returns the one before; started from the
   initial allocation [3] the outcome keeps it (two calls); greedy and Phragmen (B = 4) without the exhaustive
   stop return the last outcome that is feasible for the original budget *)
Example C09rules_increase_nonvacuous :
  increase_rule_res ex_cs 6 (mes_rule_res ex_cs ex_P ex_tb ex_enum true) [] true 1 20 30
    = Some (3%nat, [0; 2; 3]%nat) /\
  increase_rule_res ex_cs 6 (mes_rule_res ex_cs ex_P ex_tb ex_enum true) [] false 1 20 30
    = Some (7%nat, [0; 2; 3]%nat) /\
  increase_rule_res ex_cs 6 (mes_rule_res ex_cs ex_P ex_tb ex_enum true) [3%nat] true 1 20 30
    = Some (2%nat, [3; 0; 2]%nat) /\
  increase_rule_irr ex_cs 6 (mes_rule_irr ex_cs ex_P ex_tb ex_enum true) [] true 1 20 30
    = Some (3%nat, [[0; 2; 3]%nat]) /\
  increase_rule_res ex_cs 4 (greedy_rule_res ex_cs ex_sat ex_sp ex_tb false) [] false 1 20 30
    = Some (2%nat, [0; 3]%nat) /\
  increase_rule_irr ex_cs 4 (greedy_rule_irr ex_cs ex_sat ex_tb false) [] false 1 20 30
    = Some (2%nat, [[0; 3]%nat]) /\
  increase_rule_res ex_cs 4 (phr_rule_res ex_cs ex_A ex_tb ex_enum (Phragmen.zero_loads ex_A)) [] false 1 20 30
    = Some (3%nat, [0; 3]%nat) /\
  increase_rule_irr ex_cs 4 (phr_rule_irr ex_cs ex_A ex_tb ex_enum (Phragmen.zero_loads ex_A)) [] false 1 20 30
    = Some (3%nat, [[0; 3]%nat]).
Proof. vm_compute. repeat split; reflexivity. Qed.

(* completion, B = 6: Equal Shares alone stops at {0,3} (cost 3); greedy / Phragmen add project 2 (exhaustive);
   a second Equal Shares run adds nothing (the voters' money is what it was) *)
Example C09rules_completion_nonvacuous :
  mes_rule_res ex_cs ex_P ex_tb ex_enum true 6 [] = [0; 3]%nat /\
  completion_rules_res ex_cs 6 [mes_rule_res ex_cs ex_P ex_tb ex_enum true;
                                greedy_rule_res ex_cs ex_sat ex_sp ex_tb true] [] = [0; 3; 2]%nat /\
  completion_rules_res ex_cs 6 [mes_rule_res ex_cs ex_P ex_tb ex_enum true;
                                phr_rule_res ex_cs ex_A ex_tb ex_enum (Phragmen.zero_loads ex_A)] [] = [0; 2; 3]%nat /\
  completion_rules_res ex_cs 6 [mes_rule_res ex_cs ex_P ex_tb ex_enum true;
                                mes_rule_res ex_cs ex_P ex_tb ex_enum true] [] = [0; 3]%nat /\
  completion_rules_irr ex_cs 6 [mes_rule_irr ex_cs ex_P ex_tb ex_enum true;
                                greedy_rule_irr ex_cs ex_sat ex_tb true] [] = [[0; 2; 3]%nat].
Proof. vm_compute. repeat split; reflexivity. Qed.

(* iterated Equal Shares, B = 6, increment 1/4 per voter: share 3/2; tries {0,3}, {0,2}, {0,2,3} (exhaustive over
   the supported positive-cost projects) -- both models of the loop return it at the third call *)
Example C09rules_mes_iterated_nonvacuous :
  let x := MesRule.mkIn ex_cs 6 ex_P ex_tb ex_enum true [] in
  MesRule.share x = 3 # 2 /\
  map (fun k => mes_run_alloc x (try_budget (MesRule.share x) (1 # 4) k)) (seq 0 3)
    = [[0; 3]; [0; 2]; [0; 2; 3]]%nat /\
  mes_iter_wrapped x (1 # 4) 30 = Some (3%nat, [0; 2; 3]%nat) /\
  option_map MesRule.o_alloc (MesRule.mes_iter_resolute 30 x (1 # 4)) = Some [0; 2; 3]%nat /\
  mes_iter_wrapped_irr x (1 # 4) 30 = Some (3%nat, [[0; 2; 3]%nat]) /\
  MesRule.mes_iter_irresolute 30 x (1 # 4) = Some [[0; 2; 3]%nat].
Proof. vm_compute. repeat split; reflexivity. Qed.
