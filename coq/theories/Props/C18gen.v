(* Props/C18gen.v -- property C18 (statistics equal their textbook definitions), the REGENERATED tie:
   utils.mean_generator (both element shapes) and gini_coefficient, and the statistics of pabutools/analysis/
   {votersatisfaction,profileproperties,instanceproperties}.py that fit the translated fragment are translated from
   the Python source on every run (Generated/PyFuncs.v, harness/vharness/pytrans.py); the theorems say that what the
   source says NOW is the hand-written model of Model/Analysis.v that the theorems of Props/C18.v (textbook
   definitions of Spec/Stats.v) are about -- and, for the incremental mean, directly the weighted mean of Spec/Stats.v.
   A result of type option: None = the function raises.  The float-only statistics (numpy arrays filled by index,
   np.std, math.ceil) are listed in gen_correspondence_only and stay with the C18 correspondence.
   Only statements closed by exact; proofs in Proofs/PyGenStatsP.v. *)
From Coq Require Import String.
From PB Require Import Model.PyPrims Generated.PyFuncs Proofs.PyGenLib Proofs.PyGenStatsP.
From PB Require Model.Analysis Spec.Stats.
Open Scope Q_scope.

Theorem C18gen_mean_generator_ok :
  forall l : list (Q * nat), gen_mean_generator (stream l) == Analysis.mean_generator l.
Proof. exact gen_mean_generator_ok. Qed.
Print Assumptions C18gen_mean_generator_ok.

Theorem C18gen_mean_generator_is_wmean :
  forall l : list (Q * nat), gen_mean_generator (stream l) == Stats.wmean l.
Proof. exact gen_mean_generator_is_wmean. Qed.
Print Assumptions C18gen_mean_generator_is_wmean.

Theorem C18gen_mean_generator_plain_ok :
  forall l : list Q, gen_mean_generator_plain l == Analysis.mean_plain l.
Proof. exact gen_mean_generator_plain_ok. Qed.
Print Assumptions C18gen_mean_generator_plain_ok.

Theorem C18gen_mean_generator_plain_is_mean :
  forall l : list Q, gen_mean_generator_plain l == Stats.mean l.
Proof. exact gen_mean_generator_plain_is_mean. Qed.
Print Assumptions C18gen_mean_generator_plain_is_mean.

Theorem C18gen_gini_coefficient_ok :
  forall l : list Q, opt_rel Qeq (gen_gini_coefficient l) (Analysis.gini_coefficient l).
Proof. exact gen_gini_coefficient_ok. Qed.
Print Assumptions C18gen_gini_coefficient_ok.

Theorem C18gen_gini_coefficient_safe_ok :
  forall l : list Q, gen_gini_coefficient_safe l = true.
Proof. exact gen_gini_coefficient_safe_ok. Qed.
Print Assumptions C18gen_gini_coefficient_safe_ok.

Theorem C18gen_mean_generator_safe_ok :
  forall l : list (Q * Q), gen_mean_generator_safe l = true.
Proof. exact gen_mean_generator_safe_ok. Qed.
Print Assumptions C18gen_mean_generator_safe_ok.

Theorem C18gen_mean_generator_plain_safe_ok :
  forall l : list Q, gen_mean_generator_plain_safe l = true.
Proof. exact gen_mean_generator_plain_safe_ok. Qed.
Print Assumptions C18gen_mean_generator_plain_safe_ok.

Theorem C18gen_avg_satisfaction_ok :
  forall sc I P W,
  gen_avg_satisfaction I P W sc == Analysis.avg_satisfaction (sat_stream sc I P W).
Proof. exact gen_avg_satisfaction_ok. Qed.
Print Assumptions C18gen_avg_satisfaction_ok.

Theorem C18gen_percent_non_empty_handed_ok :
  forall cc I P W,
  gen_percent_non_empty_handed cc I P W == Analysis.avg_satisfaction (sat_stream cc I P W).
Proof. exact gen_percent_non_empty_handed_ok. Qed.
Print Assumptions C18gen_percent_non_empty_handed_ok.

Theorem C18gen_percent_non_empty_handed_class :
  gen_percent_non_empty_handed_classes = ["CC_Sat"%string].
Proof. exact gen_percent_non_empty_handed_class. Qed.
Print Assumptions C18gen_percent_non_empty_handed_class.

Theorem C18gen_percent_positive_satisfaction_ok :
  forall sc I P W,
  opt_rel Qeq (if gen_percent_positive_satisfaction_safe I P W sc
               then Some (gen_percent_positive_satisfaction I P W sc) else None)
              (Analysis.percent_positive_satisfaction (sat_stream sc I P W)).
Proof. exact gen_percent_positive_satisfaction_ok. Qed.
Print Assumptions C18gen_percent_positive_satisfaction_ok.

Theorem C18gen_gini_coefficient_of_satisfaction_ok :
  forall sc I P W inv,
  opt_rel Qeq (gen_gini_coefficient_of_satisfaction I P W sc inv)
              (Analysis.gini_of_satisfaction (sat_stream sc I P W) inv).
Proof. exact gen_gini_coefficient_of_satisfaction_ok. Qed.
Print Assumptions C18gen_gini_coefficient_of_satisfaction_ok.

Theorem C18gen_avg_ballot_length_ok :
  forall I P, gen_avg_ballot_length I P == Analysis.avg_ballot_length P.
Proof. exact gen_avg_ballot_length_ok. Qed.
Print Assumptions C18gen_avg_ballot_length_ok.

Theorem C18gen_avg_ballot_cost_ok :
  forall I P, gen_avg_ballot_cost I P == Analysis.avg_ballot_cost I P.
Proof. exact gen_avg_ballot_cost_ok. Qed.
Print Assumptions C18gen_avg_ballot_cost_ok.

Theorem C18gen_avg_approval_score_ok :
  forall I P, gen_avg_approval_score I P == Analysis.avg_approval_score I P.
Proof. exact gen_avg_approval_score_ok. Qed.
Print Assumptions C18gen_avg_approval_score_ok.

Theorem C18gen_avg_total_score_ok :
  forall I P, gen_avg_total_score I P == Analysis.avg_total_score I P.
Proof. exact gen_avg_total_score_ok. Qed.
Print Assumptions C18gen_avg_total_score_ok.

Theorem C18gen_median_approval_score_ok :
  forall I P, gen_median_approval_score I P == Analysis.median_approval_score I P.
Proof. exact gen_median_approval_score_ok. Qed.
Print Assumptions C18gen_median_approval_score_ok.

Theorem C18gen_median_total_score_ok :
  forall I P, gen_median_total_score I P == Analysis.median_total_score I P.
Proof. exact gen_median_total_score_ok. Qed.
Print Assumptions C18gen_median_total_score_ok.

Theorem C18gen_sum_project_cost_ok :
  forall I, gen_sum_project_cost I == Analysis.sum_project_cost I.
Proof. exact gen_sum_project_cost_ok. Qed.
Print Assumptions C18gen_sum_project_cost_ok.

Theorem C18gen_funding_scarcity_ok :
  forall I, opt_rel Qeq (gen_funding_scarcity I) (Analysis.funding_scarcity I).
Proof. exact gen_funding_scarcity_ok. Qed.
Print Assumptions C18gen_funding_scarcity_ok.

Theorem C18gen_avg_project_cost_ok :
  forall I,
  opt_rel Qeq (if gen_avg_project_cost_safe I then Some (gen_avg_project_cost I) else None) (Analysis.avg_project_cost I).
Proof. exact gen_avg_project_cost_ok. Qed.
Print Assumptions C18gen_avg_project_cost_ok.

Theorem C18gen_median_project_cost_ok :
  forall I, gen_median_project_cost I == Analysis.median_project_cost I.
Proof. exact gen_median_project_cost_ok. Qed.
Print Assumptions C18gen_median_project_cost_ok.

Theorem C18gen_avg_satisfaction_safe_ok :
  forall sc I P W, gen_avg_satisfaction_safe I P W sc = true.
Proof. exact gen_avg_satisfaction_safe_ok. Qed.
Print Assumptions C18gen_avg_satisfaction_safe_ok.

Theorem C18gen_percent_non_empty_handed_safe_ok :
  forall cc I P W, gen_percent_non_empty_handed_safe cc I P W = true.
Proof. exact gen_percent_non_empty_handed_safe_ok. Qed.
Print Assumptions C18gen_percent_non_empty_handed_safe_ok.

Theorem C18gen_avg_ballot_length_safe_ok :
  forall I P, gen_avg_ballot_length_safe I P = true.
Proof. exact gen_avg_ballot_length_safe_ok. Qed.
Print Assumptions C18gen_avg_ballot_length_safe_ok.

Theorem C18gen_avg_ballot_cost_safe_ok :
  forall I P, gen_avg_ballot_cost_safe I P = true.
Proof. exact gen_avg_ballot_cost_safe_ok. Qed.
Print Assumptions C18gen_avg_ballot_cost_safe_ok.

Theorem C18gen_avg_approval_score_safe_ok :
  forall I P, gen_avg_approval_score_safe I P = true.
Proof. exact gen_avg_approval_score_safe_ok. Qed.
Print Assumptions C18gen_avg_approval_score_safe_ok.

Theorem C18gen_avg_total_score_safe_ok :
  forall I P, gen_avg_total_score_safe I P = true.
Proof. exact gen_avg_total_score_safe_ok. Qed.
Print Assumptions C18gen_avg_total_score_safe_ok.

Theorem C18gen_funding_scarcity_safe_ok :
  forall I, gen_funding_scarcity_safe I = true.
Proof. exact gen_funding_scarcity_safe_ok. Qed.
Print Assumptions C18gen_funding_scarcity_safe_ok.

Theorem C18gen_gini_coefficient_of_satisfaction_safe_ok :
  forall sc I P W inv,
  gen_gini_coefficient_of_satisfaction_safe I P W sc inv = true.
Proof. exact gen_gini_coefficient_of_satisfaction_safe_ok. Qed.
Print Assumptions C18gen_gini_coefficient_of_satisfaction_safe_ok.

Theorem C18gen_stats_all_translated :
  gen_untranslated_stats = [].
Proof. exact gen_stats_all_translated. Qed.
Print Assumptions C18gen_stats_all_translated.

Theorem C18gen_correspondence_only_ok :
  gen_correspondence_only = ["gen_satisfaction_histogram"; "gen_median_ballot_length"; "gen_median_ballot_cost";
                             "gen_std_dev_project_cost"]%string.
Proof. exact gen_correspondence_only_ok. Qed.
Print Assumptions C18gen_correspondence_only_ok.
