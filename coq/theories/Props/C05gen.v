(* Props/C05gen.v -- property C05, tied to the SOURCE: the state-passing translation of sequential_phragmen
   (pabutools/rules/phragmen.py; the recursive inner function `aux` becomes a fuelled `fix` that returns the final
   values of the objects it is handed; the PhragmenVoter objects are (ballot, load, multiplicity) triples),
   regenerated on every run into Generated/PyCtrl.v by harness/vharness/pytrans_ctrl.py, EQUALS the hand models [phragmen_res] (resolute branch) and [phragmen_irr] (irresolute branch) of Model/Phragmen.v
   that Props/C05.v (and C08, C13) are about.
   Only statements closed by [exact]; proofs in Proofs/PyCtrlPhragmenP.v.
   P = the profile as the rule models see it (one entry per ballot as enumerated, with its multiplicity);
   oloads / oinit / otb = the optional arguments initial_loads / initial_budget_allocation / tie_breaking (the key of the
   rule; None = lexicographic); enum = the order in which the instance (a set) is iterated; fuel bounds the depth of
   the recursion. *)
From Coq Require Import String.
From PB Require Import Model.PyCtrlPrims Model.Phragmen Generated.PyCtrl Proofs.PyCtrlLib Proofs.PyCtrlPhragmenP.
Open Scope Q_scope.

(* for ballots of positive multiplicity, a duplicate-free enumeration of the instance and one initial load per
   ballot: whenever the fuel exceeds the number of candidate projects the generated function returns exactly what the
   model returns (the name-sorted allocation); no exception -- IndexError, KeyError, TypeError on None, a float
   infinity stored into a load -- can occur *)
Theorem C05gen_phragmen_resolute : forall (I : inst) (P : list aballot),
  Forall (fun b => (0 < amul b)%nat) P ->
  forall oloads oinit otb enum fuel W,
  NoDup enum ->
  match oloads with Some l => length l = length P | None => True end ->
  phragmen_res I P (match otb with None => tb_lexico | Some t => t end) enum
               (match oloads with None => zero_loads P | Some l => l end) (alloc_or_empty oinit) = Some W ->
  (fuel > length (phr_projects I enum (alloc_or_empty oinit)))%nat ->
  gen_sequential_phragmen_res I P oloads oinit otb enum fuel = Ok W.
Proof. exact gen_phragmen_res_eq. Qed.
Print Assumptions C05gen_phragmen_resolute.

(* sufficient fuel: number of candidate projects + 1 (every call of the inner function buys a project or stops) *)
Theorem C05gen_phragmen_resolute_total : forall (I : inst) (P : list aballot) oloads oinit otb enum fuel,
  Forall (fun b => (0 < amul b)%nat) P -> NoDup enum ->
  match oloads with Some l => length l = length P | None => True end ->
  (fuel > length (phr_projects I enum (alloc_or_empty oinit)))%nat ->
  exists W, phragmen_res I P (match otb with None => tb_lexico | Some t => t end) enum
                         (match oloads with None => zero_loads P | Some l => l end) (alloc_or_empty oinit) = Some W /\
            gen_sequential_phragmen_res I P oloads oinit otb enum fuel = Ok W.
Proof. exact gen_phragmen_res_total. Qed.
Print Assumptions C05gen_phragmen_resolute_total.

(* the IRRESOLUTE branch: every tied project is explored (depth first, in tie-breaking order) on value copies of the
   voters, the candidates and the allocation; the allocations found are stored name-sorted and without duplicates:
   exactly the model's [phragmen_irr] *)
Theorem C05gen_phragmen_irresolute : forall (I : inst) (P : list aballot),
  Forall (fun b => (0 < amul b)%nat) P ->
  forall oloads oinit otb enum fuel Ws,
  NoDup enum ->
  match oloads with Some l => length l = length P | None => True end ->
  phragmen_irr I P (match otb with None => tb_lexico | Some t => t end) enum
               (match oloads with None => zero_loads P | Some l => l end) (alloc_or_empty oinit) = Some Ws ->
  (fuel > length (phr_projects I enum (alloc_or_empty oinit)))%nat ->
  gen_sequential_phragmen_irr I P oloads oinit otb enum fuel = Ok Ws.
Proof. exact gen_phragmen_irr_eq. Qed.
Print Assumptions C05gen_phragmen_irresolute.

Theorem C05gen_phragmen_irresolute_total : forall (I : inst) (P : list aballot) oloads oinit otb enum fuel,
  Forall (fun b => (0 < amul b)%nat) P -> NoDup enum ->
  match oloads with Some l => length l = length P | None => True end ->
  (fuel > length (phr_projects I enum (alloc_or_empty oinit)))%nat ->
  exists Ws, phragmen_irr I P (match otb with None => tb_lexico | Some t => t end) enum
                          (match oloads with None => zero_loads P | Some l => l end) (alloc_or_empty oinit) = Some Ws /\
             gen_sequential_phragmen_irr I P oloads oinit otb enum fuel = Ok Ws.
Proof. exact gen_phragmen_irr_total. Qed.
Print Assumptions C05gen_phragmen_irresolute_total.

(* aliasing, both branches: the caller's profile, initial loads and initial allocation are not mutated; the voters,
   the candidate set and the allocations that are changed in place are objects the function created *)
Theorem C05gen_inputs_untouched :
  py_inputs_untouched gen_alias_sequential_phragmen_res = true /\
  py_inputs_untouched gen_alias_sequential_phragmen_irr = true.
Proof. exact (conj alias_phragmen_res alias_phragmen_irr). Qed.
Print Assumptions C05gen_inputs_untouched.

(* both branches (resolute and irresolute) are inside the translated fragment *)
Theorem C05gen_all_translated : gen_untranslated_phragmen = [].
Proof. exact phragmen_all_translated. Qed.
Print Assumptions C05gen_all_translated.
