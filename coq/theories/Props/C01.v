(* Props/C01.v -- property C01: every rule outcome is a feasible set of distinct instance
   projects that contains the initial allocation.  Statements only. *)
From PB Require Import Oracle.C01 Proofs.C01P.
Open Scope Q_scope.

(* the boolean applied to the implementation's outputs decides exactly the property's predicate *)
Theorem C01_oracle_iff : forall I init W,
  out_ok I init W = true <-> feasible I W /\ incl init W.
Proof. exact out_ok_iff. Qed.
Print Assumptions C01_oracle_iff.

Theorem C01_case_check_iff : forall c,
  check c = [] <-> forall W, In W (c_outs c) -> feasible (I_of c) W /\ incl (c_init c) W.
Proof. exact check_nil_iff. Qed.
Print Assumptions C01_case_check_iff.

Example C01_nonvacuous :
  let I := mkInst [1; 2; 3] 3 in
  out_ok I [0]%nat [0; 1]%nat = true /\ out_ok I [0]%nat [1; 2]%nat = false /\
  out_ok I [] [0; 0]%nat = false /\ out_ok I [] [7]%nat = false.
Proof. vm_compute. repeat split; reflexivity. Qed.
