(* Props/C01.v -- property C01: every rule outcome is a feasible set of distinct instance
   projects that contains the initial allocation.  Statements only. *)
From PB Require Import Oracle.C01 Proofs.C01P.
Open Scope Q_scope.

(* the boolean applied to the implementation's outputs decides exactly the property's predicate *)
Theorem C01_oracle_iff : forall I init W,
  out_ok I init W = true <-> feasible I W /\ incl init W.
Proof. exact out_ok_iff. Qed.
Print Assumptions C01_oracle_iff.

Theorem C01_case_check_iff : forall c,
  check c = [] <-> forall W, In W (c_outs c) -> feasible (I_of c) W /\ incl (c_init c) W.
Proof. exact check_nil_iff. Qed.
Print Assumptions C01_case_check_iff.

(* ---------------------------------------------------------------------------------------------
   Feasibility / totality of the rule MODELS (proved in the rule developments; the models are
   tied to the code by the correspondence checks of C02-C05, C09).  Unbounded: every instance,
   profile, tie-breaking key, enumeration order, multiplicities, resolute and irresolute.       *)
From PB Require Model.GreedyRule Proofs.GreedyP Proofs.GreedyAddP Model.Phragmen Proofs.PhragmenP
                Model.Exhaustion Proofs.ExhaustionP.

Theorem C01_greedy_feasible : forall I sat sp tb,
  Forall (fun c => 0 <= c) (costs I) -> forall init, feasible I init ->
  (forall additive W, GreedyRule.greedy_welfare_res I sat sp tb additive init = Some W ->
     feasible I W /\ incl init W) /\
  (forall additive Ws W, GreedyRule.greedy_welfare_irr I sat tb additive init = Some Ws -> In W Ws ->
     feasible I W /\ incl init W).
Proof. exact GreedyAddP.greedy_feasible. Qed.
Print Assumptions C01_greedy_feasible.

Theorem C01_greedy_total : forall I sat sp tb,
  Forall (fun c => 0 <= c) (costs I) -> forall additive init,
  (exists W, GreedyRule.greedy_welfare_res I sat sp tb additive init = Some W) /\
  (exists Ws, GreedyRule.greedy_welfare_irr I sat tb additive init = Some Ws /\ Ws <> []).
Proof. exact GreedyAddP.greedy_total. Qed.
Print Assumptions C01_greedy_total.

Theorem C01_phragmen_feasible : forall I P tb enum loads init W,
  NoDup enum -> (forall p, In p enum -> (p < nproj I)%nat) -> feasible I init ->
  Phragmen.phragmen_res I P tb enum loads init = Some W -> feasible I W /\ incl init W.
Proof. exact PhragmenP.phragmen_feasible_res. Qed.
Print Assumptions C01_phragmen_feasible.

Theorem C01_phragmen_feasible_irresolute : forall I P tb enum loads init Ws W,
  NoDup enum -> (forall p, In p enum -> (p < nproj I)%nat) -> feasible I init ->
  Phragmen.phragmen_irr I P tb enum loads init = Some Ws -> In W Ws -> feasible I W /\ incl init W.
Proof. exact PhragmenP.phragmen_feasible_irr. Qed.
Print Assumptions C01_phragmen_feasible_irresolute.

Theorem C01_phragmen_total : forall I P tb enum loads init,
  (exists W, Phragmen.phragmen_res I P tb enum loads init = Some W) /\
  (exists Ws, Phragmen.phragmen_irr I P tb enum loads init = Some Ws).
Proof. exact PhragmenP.phragmen_total. Qed.
Print Assumptions C01_phragmen_total.

(* wrappers, for ANY base rule meeting its contract FROM THE ORIGINAL BUDGET UPWARDS (the contract "for every
   budget" is unsatisfiable: C09rules_contract_all_budgets_unsatisfiable): budget increase ... *)
From PB Require Props.C09rules.
Theorem C01_increase_feasible : forall I init, feasible I init ->
  forall step, 0 <= step ->
  forall R : Q -> Exhaustion.alloc,
  (forall b, budget I <= b -> feasible (mkInst (costs I) b) (R b)) ->
  (forall b, budget I <= b -> incl init (R b)) ->
  forall stop bound fuel k W,
  Exhaustion.increase_res I R init stop step bound fuel = Some (k, W) -> feasible I W /\ incl init W.
Proof. exact C09rules.C09rules_increase_feasible_from_budget. Qed.
Print Assumptions C01_increase_feasible.

(* ... discharged for the three concrete rule models (Equal Shares, greedy, Phragmen): Props/C09rules.v *)

(* ... and completion by rule combination *)
Theorem C01_completion_feasible : forall I (rules : list (Exhaustion.alloc -> Exhaustion.alloc)),
  (forall r a, In r rules -> incl a (r a)) ->
  (forall r a, In r rules -> feasible I a -> feasible I (r a)) ->
  forall init, feasible I init ->
  let W := Exhaustion.complete_res I rules init in
  incl init W /\ feasible I W /\
  match rules with [] => W = init | r1 :: _ => incl (r1 init) W end /\
  (Exhaustion.exh_all I W = true \/ W = fold_left (fun a r => r a) rules init).
Proof. exact ExhaustionP.complete_res_spec. Qed.
Print Assumptions C01_completion_feasible.

Example C01_nonvacuous :
  let I := mkInst [1; 2; 3] 3 in
  out_ok I [0]%nat [0; 1]%nat = true /\ out_ok I [0]%nat [1; 2]%nat = false /\
  out_ok I [] [0; 0]%nat = false /\ out_ok I [] [7]%nat = false.
Proof. vm_compute. repeat split; reflexivity. Qed.

(* the knapsack (PRIMAL_DUAL welfare maximiser) model: feasible, contains the initial allocation
   (and optimal: property C04) for any non-negative costs, ANY rational scores and any iteration order *)
From PB Require Model.MaxWelfare Props.C04.

Theorem C01_maxwelfare_pd_feasible : forall (I : inst) (score : list Q) (enum init : list proj),
  Forall (fun c => 0 <= c) (costs I) ->
  NoDup enum -> (forall p, In p enum <-> (p < nproj I)%nat) ->
  NoDup init -> incl init enum -> tcost I init <= budget I ->
  exists res, MaxWelfare.maxwelfare_pd I score enum init = Some res /\
    feasible I res /\ incl init res.
Proof.
  intros I score enum init H1 H3 H4 H5 H6 H7.
  destruct (C04.C04_maxwelfare_pd_optimal_any_scores I score enum init H1 H3 H4 H5 H6 H7) as [res [E [F [G _]]]].
  exists res. exact (conj E (conj F G)).
Qed.
Print Assumptions C01_maxwelfare_pd_feasible.
