(* Props/C17.v -- property C17: election containers keep their type, metadata and ballot validation.
   Only statements closed by [exact]; the proofs live in Proofs/ContainersP.v. *)
From Coq Require Import List Arith Bool String ZArith.
From PB Require Import Generated.Anchors Model.Containers Proofs.ContainersP.
Import ListNotations.
Local Open Scope string_scope.
Local Open Scope list_scope.
Local Open Scope nat_scope.

(* Every method name the API promises to hand back as an object of the class (copy, the set / list / dict /
   Counter operators incl. the reflected ones, slicing, *, union & co, copy.copy, deepcopy, pickle, construction
   from the object) is either served by the reduce protocol / the constructor, or written out in the class, or
   is a container-returning method of the base type that IS IN THE _wrap_methods TABLE READ FROM THE SOURCE
   (Generated/Anchors.v).  Removing a name from a table in the source breaks this theorem. *)
Theorem C17_promised_is_rewrapped : forall c n,
  family c = true -> promised c n = true ->
  smemb n reduce_names
  || match derives (base_of c) n with
     | Some true => rewrapped c n
     | Some false => explicit c n
     | None => explicit c n
     end = true.
Proof. exact promised_ok. Qed.
Print Assumptions C17_promised_is_rewrapped.

(* ops_preserve: for EVERY sequence of operations (any length; the <=6 bound applies to the correspondence run
   only), every element tagging, every second operand: (1) the object itself, after every operation -- also a
   refused one --, and every new object of the family keep the class tag and ALL election attributes of the start
   object (the three stated exceptions: as_multiprofile, whose result is the multiprofile class of the same ballot type;
   construction with an explicit ballot_validation flag, which changes exactly that flag -- see C17_ctorval; and the
   satisfaction profile of a profile, class 18/19, which keeps the INSTANCE LINK (attribute 0) of the profile; construction
   of ANOTHER class of the family from the object -- a ballot of any kind, mutable or frozen, built from a ballot keeps
   name and meta; and construction from a bare builtin copy, which has nothing to inherit);
   (2) an operation the API promises never comes back as a bare builtin, and its result has the class and the
   attributes of the object it was derived from. *)
Theorem C17_ops_preserve : forall tags other ops cur,
  Forall2 (fun o r =>
     (match r with
      | RRaise x | RSame x | RNone x => o_cls x = o_cls cur /\ o_attrs x = o_attrs cur
      | RNew x => (o_cls x = o_cls cur /\ o_attrs x = o_attrs cur) \/ (o = OAsMulti /\ o_cls x = o_cls cur + 4)
                  \/ (exists b, o = OCtorVal b /\ o_cls x = o_cls cur)
                  \/ (exists k, o = OAsSat k /\ (o_cls x = 18 \/ o_cls x = 19)
                                /\ nth 0 (o_attrs x) 0 = nth 0 (o_attrs cur) 0)
                  \/ (exists t, o = OXCtor t /\ o_cls x = t /\ (is_ballot t = true -> o_attrs x = o_attrs cur))
                  \/ (o = OFromPlain /\ o_cls x = o_cls cur)
      | RPlain => True
      end)
     /\ (family (o_cls cur) = true -> promised (o_cls cur) (opname o) = true ->
         r <> RPlain /\ forall x, r = RNew x -> o <> OAsMulti -> o_cls x = o_cls cur /\ o_attrs x = o_attrs cur))
  ops (run_ops tags cur other ops).
Proof. exact (fun tags other ops cur => ops_preserve_gen tags other ops cur (o_cls cur) (o_attrs cur) eq_refl eq_refl). Qed.
Print Assumptions C17_ops_preserve.

(* construction from the object with an explicit validation flag: the result has the requested flag, every other
   attribute of the source, and -- when the flag is on -- EVERY ballot has been validated, whatever the flag of the
   source object was (a profile collected without validation cannot be turned into a validated one that still
   holds a foreign ballot) *)
Theorem C17_ctorval : forall tags cur other b x,
  step tags cur other (OCtorVal b) = RNew x ->
  o_cls x = o_cls cur /\ o_payload x = o_payload cur
  /\ o_attrs x = firstn 1 (o_attrs cur) ++ (if b then 0 else 1) :: skipn 2 (o_attrs cur)
  /\ (validation_on (o_attrs x) = true ->
      forall ec, In ec (o_payload x) -> accepts (o_cls x) (btype (o_attrs x)) (tag tags (fst ec)) = true).
Proof. exact ctorval_spec. Qed.
Print Assumptions C17_ctorval.

(* validated_profile_inv, list profiles AND multiprofiles (classes 10..17): if validation is on and the profile
   holds only ballots admitted by its ballot_type, then after every operation of every sequence, of any length --
   append / insert / extend / += / item and slice assignment / *= / reverse / pop / clear on lists;
   append / extend / __setitem__ / setdefault / update(iterable) / update(mapping) / += / -= / |= / &= / clear on
   Counters (Z-valued counts, partial effects of refused loops included); every deriving operation; construction
   with a validation flag -- the object itself and every object handed back hold only admitted ballots. *)
Theorem C17_validated_profile_inv : forall tags other ops cur,
  is_list_profile (o_cls cur) || is_multi_profile (o_cls cur) = true ->
  (validation_on (o_attrs cur) = true ->
   forall ec, In ec (o_payload cur) -> accepts (o_cls cur) (btype (o_attrs cur)) (tag tags (fst ec)) = true) ->
  Forall (fun r => match r with
                   | RRaise x | RSame x | RNone x | RNew x =>
                       validation_on (o_attrs x) = true ->
                       forall ec, In ec (o_payload x) -> accepts (o_cls x) (btype (o_attrs x)) (tag tags (fst ec)) = true
                   | RPlain => True
                   end) (run_ops tags cur other ops).
Proof. exact (fun tags other ops cur => profile_run_ok tags other ops cur). Qed.
Print Assumptions C17_validated_profile_inv.

(* ctor_keeps_name_meta: with the abstract initialiser called FIRST (the repaired order, all eight ballot classes)
   a ballot ends up with the name and meta it was given, a ballot built from another ballot with that ballot's,
   and one built from nothing with the defaults *)
Theorem C17_ctor_keeps_name_meta : forall name meta from,
  ctor_fixed (Some name) (Some meta) from = (name, meta)
  /\ (forall b, ctor_fixed None None (Some b) = b)
  /\ ctor_fixed None None None = (0, 0).
Proof. exact ctor_keeps_name_meta. Qed.
Print Assumptions C17_ctor_keeps_name_meta.

(* the order before the repair (Ballot.__init__ first, abstract initialiser last) loses them *)
Theorem C17_ctor_old_refuted : exists name meta, ctor_old (Some name) (Some meta) None <> (name, meta).
Proof. exact ctor_old_refuted. Qed.
Print Assumptions C17_ctor_old_refuted.

(* non-vacuity: a validated ApprovalProfile (class 10) with legal limits; slicing, a refused wrong-typed append,
   + with a second profile, pickle, as_multiprofile, reversed() *)
Example C17_nonvacuous :
  let tags := [2; 2; 2; 3; 4; 5; 6; 0] in
  let cur := mkObj 10 [1; 0; 0; 1; 2; 0; 1] [(0, 1%Z); (1, 1%Z)] in
  let other := mkObj 10 [0; 1; 0; 0; 0; 0; 0] [(2, 1%Z)] in
  family 10 = true /\ promised 10 "__getitem__" = true /\ promised 10 "__add__" = true /\ promised 10 "pickle" = true
  /\ run_ops tags cur other [OSlice 0 1; OAppend 3; OBin "__add__" false; OPickle; OAsMulti; OReversed]
     = [RNew (mkObj 10 [1; 0; 0; 1; 2; 0; 1] [(0, 1%Z)]);
        RRaise (mkObj 10 [1; 0; 0; 1; 2; 0; 1] [(0, 1%Z)]);
        RNew (mkObj 10 [1; 0; 0; 1; 2; 0; 1] [(0, 1%Z); (2, 1%Z)]);
        RNew (mkObj 10 [1; 0; 0; 1; 2; 0; 1] [(0, 1%Z); (2, 1%Z)]);
        RNew (mkObj 14 [1; 0; 0; 1; 2; 0; 1] []);
        RPlain].
Proof. vm_compute. repeat split; reflexivity. Qed.

(* non-vacuity, multiprofile (class 14) with validation on: a refused wrong-typed setdefault, += with an unvalidated
   operand holding a foreign ballot stops at that ballot (partial effect), construction with validation on succeeds,
   the satisfaction multiprofile keeps the instance link *)
Example C17_nonvacuous_multi :
  let tags := [6; 6; 6; 7; 8; 9; 2; 0] in
  let cur := mkObj 14 [1; 0; 0; 0; 2; 0; 0] [(0, 2%Z)] in
  let other := mkObj 14 [1; 1; 0; 0; 0; 0; 0] [(1, 1%Z); (3, 2%Z); (2, 5%Z)] in
  run_ops tags cur other [OSetdefault 3 1%Z; OIBin "__iadd__" false; OCtorVal true; OAsSat 1; OClear]
  = [RRaise (mkObj 14 [1; 0; 0; 0; 2; 0; 0] [(0, 2%Z)]);
     RRaise (mkObj 14 [1; 0; 0; 0; 2; 0; 0] [(0, 2%Z); (1, 1%Z)]);
     RNew (mkObj 14 [1; 0; 0; 0; 2; 0; 0] [(0, 2%Z); (1, 1%Z)]);
     RNew (mkObj 19 [1; 1] []);
     RNone (mkObj 14 [1; 0; 0; 0; 2; 0; 0] [])].
Proof. vm_compute. reflexivity. Qed.
