(* Props/C13.v -- property C13: outcomes are a function of the election alone.
   Only statements closed by [exact]; proofs in Proofs/InvarianceP.v (sequential Phragmen),
   Proofs/InvarianceGreedyP.v (greedy), Proofs/InvarianceKnapsackP.v (welfare maximiser),
   Proofs/InvarianceMesP.v, Proofs/InvarianceMesScaleP.v and Proofs/InvarianceMesRunP.v (Equal Shares; the
   last one goes through the refinement of the textbook rule proved for C02, Proofs/MesSpecRun.v).  Python's set iteration (hash seed, insertion order) is the explicit
   enumeration [enum]/[e1]/[e2]; voters are the entries of the profile in the order the profile object
   enumerates them; "scaled by k" = every cost and the budget multiplied by k > 0. *)
From PB Require Import Model.Phragmen Model.GreedyRule Model.MaxWelfare Model.MesRule Oracle.C13
  Proofs.InvarianceP Proofs.InvarianceGreedyP Proofs.InvarianceKnapsackP Proofs.InvarianceMesP
  Proofs.InvarianceMesScaleP Proofs.InvarianceMesRunP Proofs.C13OracleP.
From PB Require Import Spec.MesSpec Proofs.MesWf Proofs.MesFeasible Proofs.InvarianceMesIrrP.
Open Scope Q_scope.

(* ================================ sequential Phragmen ================================ *)

(* enumeration order of the project set: irrelevant (resolute and irresolute), for ANY tie-breaking key --
   after repair R6 the tied projects are name-sorted before the stable tie-breaking sort *)
Theorem C13_phragmen_enum_indep : forall I P tb e1 e2 loads init,
  Permutation e1 e2 -> phragmen_res I P tb e1 loads init = phragmen_res I P tb e2 loads init.
Proof. exact phragmen_enum_indep_res. Qed.
Print Assumptions C13_phragmen_enum_indep.

Theorem C13_phragmen_enum_indep_irresolute : forall I P tb e1 e2 loads init,
  Permutation e1 e2 -> phragmen_irr I P tb e1 loads init = phragmen_irr I P tb e2 loads init.
Proof. exact phragmen_enum_indep_irr. Qed.
Print Assumptions C13_phragmen_enum_indep_irresolute.

(* the code BEFORE R6 (tied projects reach the stable sort in set order): the statement is false *)
Theorem C13_phragmen_enum_dep_refuted :
  exists I P tb e1 e2 loads init,
    Permutation e1 e2 /\ NoDup e1 /\
    phragmen_res_old I P tb e1 loads init <> phragmen_res_old I P tb e2 loads init.
Proof. exact phragmen_old_enum_dep. Qed.
Print Assumptions C13_phragmen_enum_dep_refuted.

(* voters (each with its initial load) listed in another order; keys equal up to == *)
Theorem C13_phragmen_perm_voters : forall I P P' tb tb' enum loads loads' init,
  length P = length loads -> length P' = length loads' ->
  Permutation (combine P loads) (combine P' loads') -> (forall p, tb p == tb' p) ->
  phragmen_res I P tb enum loads init = phragmen_res I P' tb' enum loads' init
  /\ phragmen_irr I P tb enum loads init = phragmen_irr I P' tb' enum loads' init.
Proof.
  exact (fun I P P' tb tb' enum loads loads' init H1 H2 H3 Htb =>
           conj (phragmen_perm_voters_res I P P' tb tb' enum loads loads' init (conj H1 (conj H2 H3)) Htb)
                (phragmen_perm_voters_irr I P P' tb tb' enum loads loads' init (conj H1 (conj H2 H3)) Htb)).
Qed.
Print Assumptions C13_phragmen_perm_voters.

(* ... as the library is called (no initial loads), under each of the four shipped tie-breaking rules
   (the approval-score key is recomputed from the permuted profile) *)
Theorem C13_phragmen_perm_voters_shipped : forall r I P P' enum init,
  Permutation P P' ->
  phragmen_res I P (tb_key r I P) enum (zero_loads P) init
  = phragmen_res I P' (tb_key r I P') enum (zero_loads P') init
  /\ phragmen_irr I P (tb_key r I P) enum (zero_loads P) init
     = phragmen_irr I P' (tb_key r I P') enum (zero_loads P') init.
Proof. exact phragmen_perm_voters_shipped. Qed.
Print Assumptions C13_phragmen_perm_voters_shipped.

(* costs, budget and initial loads multiplied by k > 0, tie-breaking keys ordered alike *)
Theorem C13_phragmen_scale : forall k I P tb tb' enum loads loads' init,
  0 < k -> (forall p q, Qleb (tb p) (tb q) = Qleb (tb' p) (tb' q)) ->
  Forall2 (fun x y => y == k * x) loads loads' ->
  phragmen_res (scale_inst k I) P tb' enum loads' init = phragmen_res I P tb enum loads init
  /\ phragmen_irr (scale_inst k I) P tb' enum loads' init = phragmen_irr I P tb enum loads init.
Proof.
  exact (fun k I P tb tb' enum loads loads' init Hk Htb H =>
           conj (phragmen_scale_res k I P tb tb' Hk Htb enum loads loads' init H)
                (phragmen_scale_irr k I P tb tb' Hk Htb enum loads loads' init H)).
Qed.
Print Assumptions C13_phragmen_scale.

(* ... as the library is called, under each shipped tie-breaking rule (cost keys are recomputed from the
   scaled instance) *)
Theorem C13_phragmen_scale_shipped : forall r k I P enum init, 0 < k ->
  phragmen_res (scale_inst k I) P (tb_key r (scale_inst k I) P) enum (zero_loads P) init
  = phragmen_res I P (tb_key r I P) enum (zero_loads P) init
  /\ phragmen_irr (scale_inst k I) P (tb_key r (scale_inst k I) P) enum (zero_loads P) init
     = phragmen_irr I P (tb_key r I P) enum (zero_loads P) init.
Proof. exact phragmen_scale_shipped. Qed.
Print Assumptions C13_phragmen_scale_shipped.

(* ====================================== greedy ====================================== *)

(* `sorted(...)` makes the candidate lists of both schemes independent of the iteration order of the instance:
   they are the lists Model/GreedyRule.v starts from (which has no enumeration parameter for that reason) *)
Theorem C13_greedy_enum_indep : forall I init enum, Permutation enum (all_projects I) ->
  name_sort (filter (fun p => negb (memb p init) && Qleb (tcost I init + cost I p) (budget I)) enum)
  = initial_feasible I init
  /\ filter (fun p => negb (memb p init)) (name_sort enum)
     = filter (fun p => negb (memb p init)) (all_projects I).
Proof. exact greedy_enum_indep. Qed.
Print Assumptions C13_greedy_enum_indep.

(* total satisfaction = sum over the entries of the satisfaction profile of multiplicity x individual
   satisfaction ([group_sat]); entries listed in another order: same outcome of both schemes, both modes *)
Theorem C13_greedy_perm_voters :
  forall I (vs vs' : list (nat * (list proj -> Q))) (ws ws' : list (nat * (proj -> Q))) tb tb' additive init,
  Permutation vs vs' -> Permutation ws ws' -> (forall p, tb p == tb' p) ->
  greedy_welfare_res I (group_sat vs') (group_sat ws') tb' additive init
  = greedy_welfare_res I (group_sat vs) (group_sat ws) tb additive init
  /\ greedy_welfare_irr I (group_sat vs') tb' additive init
     = greedy_welfare_irr I (group_sat vs) tb additive init.
Proof. exact greedy_perm_voters. Qed.
Print Assumptions C13_greedy_perm_voters.

(* costs and budget multiplied by k > 0, satisfactions by j > 0 (j = k: cost-proportional measures, j = 1:
   cost-independent ones), keys ordered alike: same outcome *)
Theorem C13_greedy_scale : forall k j I sat sat' sp sp' tb tb' additive init,
  0 < k -> 0 < j -> (forall W, sat' W == j * sat W) -> (forall p, sp' p == j * sp p) ->
  (forall p q, Qleb (tb p) (tb q) = Qleb (tb' p) (tb' q)) ->
  greedy_welfare_res (scale_inst k I) sat' sp' tb' additive init = greedy_welfare_res I sat sp tb additive init
  /\ greedy_welfare_irr (scale_inst k I) sat' tb' additive init = greedy_welfare_irr I sat tb additive init.
Proof. exact greedy_scale. Qed.
Print Assumptions C13_greedy_scale.

(* ================================= welfare maximiser ================================= *)
(* PRIMAL_DUAL scheme.  The selected set may differ between optimal solutions; the welfare attained may not. *)

(* iteration order of the instance (hash seed, insertion order) *)
Theorem C13_knapsack_enum_indep : forall I score e1 e2 init,
  Forall (fun c => 0 <= c) (costs I) -> Forall (fun s => 0 <= s) score ->
  NoDup e1 -> NoDup e2 -> (forall p, In p e1 <-> (p < nproj I)%nat) -> (forall p, In p e2 <-> (p < nproj I)%nat) ->
  NoDup init -> incl init e1 -> tcost I init <= budget I ->
  exists r1 r2, maxwelfare_pd I score e1 init = Some r1 /\ maxwelfare_pd I score e2 init = Some r2 /\
    welfare score r2 == welfare score r1.
Proof. exact knapsack_enum_indep. Qed.
Print Assumptions C13_knapsack_enum_indep.

(* voters in another order: the per-project totals are sums over the voters, equal up to == *)
Theorem C13_knapsack_perm_voters : forall I score score' enum init,
  (forall p, nth p score' 0 == nth p score 0) ->
  Forall (fun c => 0 <= c) (costs I) -> Forall (fun s => 0 <= s) score -> Forall (fun s => 0 <= s) score' ->
  NoDup enum -> (forall p, In p enum <-> (p < nproj I)%nat) ->
  NoDup init -> incl init enum -> tcost I init <= budget I ->
  exists r1 r2, maxwelfare_pd I score enum init = Some r1 /\ maxwelfare_pd I score' enum init = Some r2 /\
    welfare score' r2 == welfare score r1.
Proof. exact knapsack_perm_voters. Qed.
Print Assumptions C13_knapsack_perm_voters.

(* costs and budget times k, satisfactions times j: the optimum welfare is multiplied by j *)
Theorem C13_knapsack_scale : forall k j I score enum init, 0 < k -> 0 < j ->
  Forall (fun c => 0 <= c) (costs I) -> Forall (fun s => 0 <= s) score ->
  NoDup enum -> (forall p, In p enum <-> (p < nproj I)%nat) ->
  NoDup init -> incl init enum -> tcost I init <= budget I ->
  exists r1 r2, maxwelfare_pd I score enum init = Some r1 /\
    maxwelfare_pd (scale_inst k I) (map (Qmult j) score) enum init = Some r2 /\
    welfare (map (Qmult j) score) r2 == j * welfare score r1.
Proof. exact knapsack_scale. Qed.
Print Assumptions C13_knapsack_scale.

(* =================================== Equal Shares =================================== *)

(* M mes_scale: costs and budget times k > 0, every utility times j > 0 (j = k: Cost_Sat, Effort_Sat; j = 1:
   cost-independent measures), tie-breaking keys ordered alike: same allocation, in the same order of purchase
   (resolute), the same list of allocations (irresolute), also through the budget-increase loop when the
   increment is scaled like money *)
Theorem C13_mes_scale : forall k j tb' x, 0 < k -> 0 < j ->
  (forall p q, Qleb (mi_tb x p) (mi_tb x q) = Qleb (tb' p) (tb' q)) ->
  option_map o_alloc (mes_resolute (scale_mes k j tb' x)) = option_map o_alloc (mes_resolute x)
  /\ mes_irresolute (scale_mes k j tb' x) = mes_irresolute x.
Proof.
  exact (fun k j tb' x Hk Hj Htb => conj (mes_scale_res k j tb' x Hk Hj Htb) (mes_scale_irr k j tb' x Hk Hj Htb)).
Qed.
Print Assumptions C13_mes_scale.

Theorem C13_mes_scale_iterated : forall k j tb' x fuel inc inc', 0 < k -> 0 < j ->
  (forall p q, Qleb (mi_tb x p) (mi_tb x q) = Qleb (tb' p) (tb' q)) -> inc' == k * inc ->
  option_map o_alloc (mes_iter_resolute fuel (scale_mes k j tb' x) inc')
  = option_map o_alloc (mes_iter_resolute fuel x inc)
  /\ mes_iter_irresolute fuel (scale_mes k j tb' x) inc' = mes_iter_irresolute fuel x inc.
Proof.
  exact (fun k j tb' x fuel inc inc' Hk Hj Htb Hinc =>
           conj (mes_scale_iter k j tb' x Hk Hj Htb fuel inc inc' Hinc)
                (mes_scale_iter_irr k j tb' x Hk Hj Htb fuel inc inc' Hinc)).
Qed.
Print Assumptions C13_mes_scale_iterated.

(* M mes_enum_indep (resolute rule): the selected SET does not depend on the iteration order of the project set
   (hash seed, insertion order).  [valid_enum x e]: e lists every project of the instance exactly once. *)
Theorem C13_mes_enum_indep : forall x e2 o1 o2,
  wf_voters (mi_voters x) -> tcost (mi_inst x) (mi_init x) <= mi_budget x ->
  valid_enum x (mi_enum x) -> valid_enum x e2 ->
  mes_resolute x = Some o1 -> mes_resolute (with_enum x e2) = Some o2 ->
  set_eq (o_alloc o1) (o_alloc o2).
Proof. exact mes_enum_indep. Qed.
Print Assumptions C13_mes_enum_indep.

(* M mes_perm_voters (resolute rule): the voters (classes with their multiplicities) listed in another order,
   tie-breaking keys equal up to == (the approval-score key is a sum over the voters) *)
Theorem C13_mes_perm_voters : forall x P' tb' o1 o2,
  wf_voters (mi_voters x) -> tcost (mi_inst x) (mi_init x) <= mi_budget x ->
  valid_enum x (mi_enum x) ->
  Permutation (mi_voters x) P' -> (forall q, mi_tb x q == tb' q) ->
  mes_resolute x = Some o1 -> mes_resolute (with_voters x P' tb') = Some o2 ->
  set_eq (o_alloc o1) (o_alloc o2).
Proof. exact mes_perm_voters. Qed.
Print Assumptions C13_mes_perm_voters.

(* the iterated rule (voter_budget_increment): another enumeration AND another voter order at once -- both runs
   return allocations that are permutations of each other, or both run out of the loop fuel.
   [operm a b]: Some o1, Some o2 with Permutation (o_alloc o1) (o_alloc o2), or None, None. *)
Theorem C13_mes_iterated_presentation_indep : forall x e2 P' tb',
  wf_voters (mi_voters x) -> valid_enum x (mi_enum x) -> valid_enum x e2 ->
  Permutation (mi_voters x) P' -> (forall q, mi_tb x q == tb' q) ->
  forall fuel inc, 0 <= inc -> tcost (mi_inst x) (mi_init x) <= mi_budget x ->
  operm (mes_iter_resolute fuel x inc) (mes_iter_resolute fuel (with_voters (with_enum x e2) P' tb') inc).
Proof. exact mes_iter_presentation_indep. Qed.
Print Assumptions C13_mes_iterated_presentation_indep.

(* the IRRESOLUTE rule: another enumeration and another voter order at once -- the same set of (name-sorted)
   allocations; via "irresolute = resolute outcomes of all strict orders" (C08) and the resolute theorem.
   [mes_hyps]: well-formed instance, >= 1 voter, feasible duplicate-free initial allocation (Proofs/MesFeasible.v) *)
Theorem C13_mes_irresolute_presentation_indep : forall x e2 P' tb' L1 L2,
  mes_hyps x -> valid_enum x (mi_enum x) -> valid_enum x e2 -> Permutation (mi_voters x) P' ->
  mes_irresolute x = Some L1 -> mes_irresolute (with_voters (with_enum x e2) P' tb') = Some L2 ->
  forall X, In X L1 <-> In X L2.
Proof. exact mes_irresolute_presentation_indep. Qed.
Print Assumptions C13_mes_irresolute_presentation_indep.

(* ... the rule always answers, so neither statement is vacuous *)
Theorem C13_mes_answers : forall x, exists o, mes_resolute x = Some o.
Proof. exact mes_answers. Qed.
Print Assumptions C13_mes_answers.

(* what carries both: the textbook run (Spec/MesSpec.v) is a FUNCTION of the election -- two runs from two
   presentations of the same voters-with-money ([SRel]: a joint re-ordering, money equal up to ==) make the same
   purchases in the same order *)
Theorem C13_mes_spec_run_functional : forall costs P P' tb tb', (forall q, tb q == tb' q) ->
  forall b rem W1, spec_run costs P tb b rem W1 ->
  forall b' W2, spec_run costs P' tb' b' rem W2 -> SRel P b P' b' -> W1 = W2.
Proof. exact spec_run_functional. Qed.
Print Assumptions C13_mes_spec_run_functional.

(* the content of repair R6 at the level of the code path: the order in which the scan collected the tied projects
   (set-iteration order within equal cached affordabilities) does not reach the choice *)
Theorem C13_mes_enum_indep_partial : forall tb tied tied',
  NoDup (map mp_id tied) -> Permutation tied tied' -> pick_order tb tied = pick_order tb tied'.
Proof. exact mes_pick_order_indep. Qed.
Print Assumptions C13_mes_enum_indep_partial.

(* ... and the run starts from the same pool of priced projects and the same zero-cost projects, as sets *)
Theorem C13_mes_enum_indep_partial_start : forall P costs bin e1 e2, Permutation e1 e2 ->
  Permutation (fst (mk_projects P costs bin e1)) (fst (mk_projects P costs bin e2))
  /\ Permutation (snd (mk_projects P costs bin e1)) (snd (mk_projects P costs bin e2)).
Proof. exact (fun P costs bin e1 e2 H => conj (mes_pool_enum P costs bin e1 e2 H) (mes_zero_cost_enum P costs bin e1 e2 H)). Qed.
Print Assumptions C13_mes_enum_indep_partial_start.

(* the code BEFORE R6 (no name-sort in front of the stable tie-breaking sort): two enumerations of the same
   six projects give different winners *)
Theorem C13_mes_enum_dep_refuted :
  exists e1 e2, Permutation e1 e2 /\ NoDup e1 /\
    option_map sort_alloc (mes_resolute_old (mes_witness e1))
    <> option_map sort_alloc (mes_resolute_old (mes_witness e2)).
Proof. exact mes_old_enum_dep. Qed.
Print Assumptions C13_mes_enum_dep_refuted.

(* ====================================== oracle ====================================== *)
(* what the case files decide: two recorded outcomes are "equal" iff they are the same SET of projects and
   the same (rational) welfare value *)
Theorem C13_oracle_outv_eqb : forall a b,
  outv_eqb a b = true <-> canon (o_set a) = canon (o_set b) /\ o_val a == o_val b.
Proof.
  exact (fun a b => conj
    (fun H => match proj1 (andb_true_iff _ _) H with
              | conj H1 H2 => conj (proj1 (list_eqb_nat_eq _ _) H1) (proj1 (Qeqb_iff _ _) H2) end)
    (fun H => match H with
              | conj H1 H2 => proj2 (andb_true_iff _ _) (conj (proj2 (list_eqb_nat_eq _ _) H1) (proj2 (Qeqb_iff _ _) H2)) end)).
Qed.
Print Assumptions C13_oracle_outv_eqb.

(* ... and a case file that evaluates to no failure code means: for every cross-compared call, ALL recorded
   outcomes -- every interpreter (hash seed), every presentation (voter order, insertion order, scale, combined,
   evaluation after other elections on the same objects),
   every in-process repetition -- are equal in that sense *)
Theorem C13_oracle_sound : forall c k, check c = [] -> In k (c_calls c) -> k_cross k = true ->
  (forall j kd, nth_error (c_pk c) (S j) = Some kd -> (1 <= kd <= 5)%nat) ->
  forall a b, In a (all_outs k) -> In b (all_outs k) -> outv_eq a b.
Proof. exact check_sound. Qed.
Print Assumptions C13_oracle_sound.

(* non-vacuity: the hypotheses are satisfiable and the conclusions are about runs that select something *)
Example C13_nonvacuous :
  phragmen_res witness_I witness_P (tb_min_cost witness_I) [5; 4; 3; 2; 1; 0]%nat (zero_loads witness_P) []
  = Some [0; 1]%nat
  /\ phragmen_res (scale_inst (10 # 7) witness_I) (rev witness_P) (tb_min_cost (scale_inst (10 # 7) witness_I))
                  [0; 1; 2; 3; 4; 5]%nat (zero_loads witness_P) [] = Some [0; 1]%nat
  /\ phragmen_res_old witness_I witness_P (tb_min_cost witness_I) [5; 4; 3; 2; 1; 0]%nat (zero_loads witness_P) []
     = Some [4; 5]%nat.
Proof. repeat split; vm_compute; reflexivity. Qed.

(* Independence of the enumeration order and of the voter order for the iterated AND irresolute
   Equal Shares entry point (mes_iter_irresolute) is PROVED in Props/C13mes.v
   (mes_iter_irresolute_presentation_indep). *)
