(* Props/C13.v -- property C13: outcomes are a function of the election alone.
   Only statements closed by [exact]; proofs in Proofs/InvarianceP.v (sequential Phragmen) and
   Proofs/InvarianceGreedyP.v (greedy).  Python's set iteration (hash seed, insertion order) is the explicit
   enumeration [enum]/[e1]/[e2]; voters are the entries of the profile in the order the profile object
   enumerates them; "scaled by k" = every cost and the budget multiplied by k > 0. *)
From PB Require Import Model.Phragmen Model.GreedyRule Oracle.C13 Proofs.InvarianceP Proofs.InvarianceGreedyP.
Open Scope Q_scope.

(* ================================ sequential Phragmen ================================ *)

(* enumeration order of the project set: irrelevant (resolute and irresolute), for ANY tie-breaking key --
   after repair R6 the tied projects are name-sorted before the stable tie-breaking sort *)
Theorem C13_phragmen_enum_indep : forall I P tb e1 e2 loads init,
  Permutation e1 e2 -> phragmen_res I P tb e1 loads init = phragmen_res I P tb e2 loads init.
Proof. exact phragmen_enum_indep_res. Qed.
Print Assumptions C13_phragmen_enum_indep.

Theorem C13_phragmen_enum_indep_irresolute : forall I P tb e1 e2 loads init,
  Permutation e1 e2 -> phragmen_irr I P tb e1 loads init = phragmen_irr I P tb e2 loads init.
Proof. exact phragmen_enum_indep_irr. Qed.
Print Assumptions C13_phragmen_enum_indep_irresolute.

(* the code BEFORE R6 (tied projects reach the stable sort in set order): the statement is false *)
Theorem C13_phragmen_enum_dep_refuted :
  exists I P tb e1 e2 loads init,
    Permutation e1 e2 /\ NoDup e1 /\
    phragmen_res_old I P tb e1 loads init <> phragmen_res_old I P tb e2 loads init.
Proof. exact phragmen_old_enum_dep. Qed.
Print Assumptions C13_phragmen_enum_dep_refuted.

(* voters (each with its initial load) listed in another order; keys equal up to == *)
Theorem C13_phragmen_perm_voters : forall I P P' tb tb' enum loads loads' init,
  length P = length loads -> length P' = length loads' ->
  Permutation (combine P loads) (combine P' loads') -> (forall p, tb p == tb' p) ->
  phragmen_res I P tb enum loads init = phragmen_res I P' tb' enum loads' init
  /\ phragmen_irr I P tb enum loads init = phragmen_irr I P' tb' enum loads' init.
Proof.
  exact (fun I P P' tb tb' enum loads loads' init H1 H2 H3 Htb =>
           conj (phragmen_perm_voters_res I P P' tb tb' enum loads loads' init (conj H1 (conj H2 H3)) Htb)
                (phragmen_perm_voters_irr I P P' tb tb' enum loads loads' init (conj H1 (conj H2 H3)) Htb)).
Qed.
Print Assumptions C13_phragmen_perm_voters.

(* ... as the library is called (no initial loads), under each of the four shipped tie-breaking rules
   (the approval-score key is recomputed from the permuted profile) *)
Theorem C13_phragmen_perm_voters_shipped : forall r I P P' enum init,
  Permutation P P' ->
  phragmen_res I P (tb_key r I P) enum (zero_loads P) init
  = phragmen_res I P' (tb_key r I P') enum (zero_loads P') init
  /\ phragmen_irr I P (tb_key r I P) enum (zero_loads P) init
     = phragmen_irr I P' (tb_key r I P') enum (zero_loads P') init.
Proof. exact phragmen_perm_voters_shipped. Qed.
Print Assumptions C13_phragmen_perm_voters_shipped.

(* costs, budget and initial loads multiplied by k > 0, tie-breaking keys ordered alike *)
Theorem C13_phragmen_scale : forall k I P tb tb' enum loads loads' init,
  0 < k -> (forall p q, Qleb (tb p) (tb q) = Qleb (tb' p) (tb' q)) ->
  Forall2 (fun x y => y == k * x) loads loads' ->
  phragmen_res (scale_inst k I) P tb' enum loads' init = phragmen_res I P tb enum loads init
  /\ phragmen_irr (scale_inst k I) P tb' enum loads' init = phragmen_irr I P tb enum loads init.
Proof.
  exact (fun k I P tb tb' enum loads loads' init Hk Htb H =>
           conj (phragmen_scale_res k I P tb tb' Hk Htb enum loads loads' init H)
                (phragmen_scale_irr k I P tb tb' Hk Htb enum loads loads' init H)).
Qed.
Print Assumptions C13_phragmen_scale.

(* ... as the library is called, under each shipped tie-breaking rule (cost keys are recomputed from the
   scaled instance) *)
Theorem C13_phragmen_scale_shipped : forall r k I P enum init, 0 < k ->
  phragmen_res (scale_inst k I) P (tb_key r (scale_inst k I) P) enum (zero_loads P) init
  = phragmen_res I P (tb_key r I P) enum (zero_loads P) init
  /\ phragmen_irr (scale_inst k I) P (tb_key r (scale_inst k I) P) enum (zero_loads P) init
     = phragmen_irr I P (tb_key r I P) enum (zero_loads P) init.
Proof. exact phragmen_scale_shipped. Qed.
Print Assumptions C13_phragmen_scale_shipped.

(* ====================================== greedy ====================================== *)

(* `sorted(...)` makes the candidate lists of both schemes independent of the iteration order of the instance:
   they are the lists Model/GreedyRule.v starts from (which has no enumeration parameter for that reason) *)
Theorem C13_greedy_enum_indep : forall I init enum, Permutation enum (all_projects I) ->
  name_sort (filter (fun p => negb (memb p init) && Qleb (tcost I init + cost I p) (budget I)) enum)
  = initial_feasible I init
  /\ filter (fun p => negb (memb p init)) (name_sort enum)
     = filter (fun p => negb (memb p init)) (all_projects I).
Proof. exact greedy_enum_indep. Qed.
Print Assumptions C13_greedy_enum_indep.

(* total satisfaction = sum over the entries of the satisfaction profile of multiplicity x individual
   satisfaction ([group_sat]); entries listed in another order: same outcome of both schemes, both modes *)
Theorem C13_greedy_perm_voters :
  forall I (vs vs' : list (nat * (list proj -> Q))) (ws ws' : list (nat * (proj -> Q))) tb tb' additive init,
  Permutation vs vs' -> Permutation ws ws' -> (forall p, tb p == tb' p) ->
  greedy_welfare_res I (group_sat vs') (group_sat ws') tb' additive init
  = greedy_welfare_res I (group_sat vs) (group_sat ws) tb additive init
  /\ greedy_welfare_irr I (group_sat vs') tb' additive init
     = greedy_welfare_irr I (group_sat vs) tb additive init.
Proof. exact greedy_perm_voters. Qed.
Print Assumptions C13_greedy_perm_voters.

(* costs and budget multiplied by k > 0, satisfactions by j > 0 (j = k: cost-proportional measures, j = 1:
   cost-independent ones), keys ordered alike: same outcome *)
Theorem C13_greedy_scale : forall k j I sat sat' sp sp' tb tb' additive init,
  0 < k -> 0 < j -> (forall W, sat' W == j * sat W) -> (forall p, sp' p == j * sp p) ->
  (forall p q, Qleb (tb p) (tb q) = Qleb (tb' p) (tb' q)) ->
  greedy_welfare_res (scale_inst k I) sat' sp' tb' additive init = greedy_welfare_res I sat sp tb additive init
  /\ greedy_welfare_irr (scale_inst k I) sat' tb' additive init = greedy_welfare_irr I sat tb additive init.
Proof. exact greedy_scale. Qed.
Print Assumptions C13_greedy_scale.

(* ====================================== oracle ====================================== *)
Theorem C13_oracle_set_eqb : forall W1 W2, set_eqb W1 W2 = true <-> canon W1 = canon W2.
Proof. exact (fun W1 W2 => list_eqb_nat_eq (canon W1) (canon W2)). Qed.
Print Assumptions C13_oracle_set_eqb.

(* non-vacuity: the hypotheses are satisfiable and the conclusions are about runs that select something *)
Example C13_nonvacuous :
  phragmen_res witness_I witness_P (tb_min_cost witness_I) [5; 4; 3; 2; 1; 0]%nat (zero_loads witness_P) []
  = Some [0; 1]%nat
  /\ phragmen_res (scale_inst (10 # 7) witness_I) (rev witness_P) (tb_min_cost (scale_inst (10 # 7) witness_I))
                  [0; 1; 2; 3; 4; 5]%nat (zero_loads witness_P) [] = Some [0; 1]%nat
  /\ phragmen_res_old witness_I witness_P (tb_min_cost witness_I) [5; 4; 3; 2; 1; 0]%nat (zero_loads witness_P) []
     = Some [4; 5]%nat.
Proof. repeat split; vm_compute; reflexivity. Qed.

(* UNPROVED  (DESIGN.md section 4, C13, still to do)

   Equal Shares (Model/MesRule.v):
     mes_enum_indep   : forall x e2, Permutation (mi_enum x) e2 ->
                          option_map (fun o => canon (o_alloc o)) (mes_resolute x)
                          = option_map (fun o => canon (o_alloc o)) (mes_resolute (with_enum x e2))
       (the scan visits the pool in the stable order of the cached affordabilities, so equal cached values are
        visited in enumeration order; needs the laziness invariant "cached <= true affordability" of
        Proofs/MesLazy.v to show that the set of tied projects and the patched pool do not depend on it)
     mes_perm_voters  : Permutation of mi_voters => same selected set
     mes_scale        : costs, budget x k, utilities x j => same selected set

   Welfare maximiser (Model/MaxWelfare.v):
     knapsack_scale   : the optimum welfare of the scaled election is j x the optimum welfare
*)
