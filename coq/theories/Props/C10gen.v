(* Props/C10gen.v -- property C10 (satisfaction measures compute their documented formulas), the REGENERATED tie:
   the definitions of Generated/PyFuncs.v are translated from the Python source of pabutools/election/satisfaction/
   {additive,functional,positional}satisfaction.py on every run (harness/vharness/pytrans.py, a fail-closed translator
   of a restricted pure fragment; trusted base in DESIGN.md, section C10gen/TieGen); the theorems below say that what the
   source says NOW is the hand-written model of Model/Satisfaction.v that the theorems of Props/C10.v are about:
   per-project functions (and that none of them can divide by zero), the sat/sat_project of the three base classes
   (memo cache transparent), which normaliser each preprocessing computes with which arguments, the class wiring,
   and -- composed -- every shipped exact measure.  Only statements closed by exact; proofs in Proofs/PyGenSatP.v. *)
From Coq Require Import String.
From PB Require Import Model.PyPrims Generated.PyFuncs Proofs.PyGenLib Proofs.PyGenSatP.
Open Scope Q_scope.

Theorem C10gen_cardinality_ok :
  forall I P b p pre, gen_cardinality_sat_func I P b p pre == cardinality_p b p.
Proof. exact gen_cardinality_ok. Qed.
Print Assumptions C10gen_cardinality_ok.

Theorem C10gen_cost_ok :
  forall I P b p pre, gen_cost_sat_func I P b p pre == cost_p I b p.
Proof. exact gen_cost_ok. Qed.
Print Assumptions C10gen_cost_ok.

Theorem C10gen_effort_ok :
  forall I P b p pre, gen_effort_sat_func I P b p pre == effort_p I P b p.
Proof. exact gen_effort_ok. Qed.
Print Assumptions C10gen_effort_ok.

Theorem C10gen_additive_card_ok :
  forall I P b p pre, gen_additive_card_sat_func I P b p pre == add_card_p b p.
Proof. exact gen_additive_card_ok. Qed.
Print Assumptions C10gen_additive_card_ok.

Theorem C10gen_relative_cardinality_ok :
  forall I P b p N,
  gen_relative_cardinality_sat_func I P b p (fun _ => Some N) == rel_by N (cardinality_p b p).
Proof. exact gen_relative_cardinality_ok. Qed.
Print Assumptions C10gen_relative_cardinality_ok.

Theorem C10gen_relative_cost_ok :
  forall I P b p N,
  gen_relative_cost_sat_func I P b p (fun _ => Some N) == rel_cost_p N I b p.
Proof. exact gen_relative_cost_ok. Qed.
Print Assumptions C10gen_relative_cost_ok.

Theorem C10gen_relative_cost_approx_ok :
  forall I P b p N,
  gen_relative_cost_approx_normaliser_sat_func I P b p (fun _ => Some N) == rel_by N (cost_p I b p).
Proof. exact gen_relative_cost_approx_ok. Qed.
Print Assumptions C10gen_relative_cost_approx_ok.

Theorem C10gen_additive_card_relative_ok :
  forall I P b p N,
  gen_additive_card_relative_sat_func I P b p (fun _ => Some N) == add_card_rel_p N b p.
Proof. exact gen_additive_card_relative_ok. Qed.
Print Assumptions C10gen_additive_card_relative_ok.

Theorem C10gen_borda_ok :
  forall b p, gen_borda_sat_func b p == borda_p b p.
Proof. exact gen_borda_ok. Qed.
Print Assumptions C10gen_borda_ok.

Theorem C10gen_cc_app_ok :
  forall I P b W, gen_cc_sat_func_app I P b W == cc_app b W.
Proof. exact gen_cc_app_ok. Qed.
Print Assumptions C10gen_cc_app_ok.

Theorem C10gen_cc_card_ok :
  forall I P b W, gen_cc_sat_func_card I P b W == cc_card b W.
Proof. exact gen_cc_card_ok. Qed.
Print Assumptions C10gen_cc_card_ok.

Theorem C10gen_cardinality_safe_ok :
  forall I P b p pre, gen_cardinality_sat_func_safe I P b p pre = true.
Proof. exact gen_cardinality_safe_ok. Qed.
Print Assumptions C10gen_cardinality_safe_ok.

Theorem C10gen_relative_cardinality_safe_ok :
  forall I P b p pre, gen_relative_cardinality_sat_func_safe I P b p pre = true.
Proof. exact gen_relative_cardinality_safe_ok. Qed.
Print Assumptions C10gen_relative_cardinality_safe_ok.

Theorem C10gen_cost_safe_ok :
  forall I P b p pre, gen_cost_sat_func_safe I P b p pre = true.
Proof. exact gen_cost_safe_ok. Qed.
Print Assumptions C10gen_cost_safe_ok.

Theorem C10gen_relative_cost_safe_ok :
  forall I P b p pre, gen_relative_cost_sat_func_safe I P b p pre = true.
Proof. exact gen_relative_cost_safe_ok. Qed.
Print Assumptions C10gen_relative_cost_safe_ok.

Theorem C10gen_relative_cost_approx_normaliser_safe_ok :
  forall I P b p pre, gen_relative_cost_approx_normaliser_sat_func_safe I P b p pre = true.
Proof. exact gen_relative_cost_approx_normaliser_safe_ok. Qed.
Print Assumptions C10gen_relative_cost_approx_normaliser_safe_ok.

Theorem C10gen_effort_safe_ok :
  forall I P b p pre, gen_effort_sat_func_safe I P b p pre = true.
Proof. exact gen_effort_safe_ok. Qed.
Print Assumptions C10gen_effort_safe_ok.

Theorem C10gen_additive_card_safe_ok :
  forall I P b p pre, gen_additive_card_sat_func_safe I P b p pre = true.
Proof. exact gen_additive_card_safe_ok. Qed.
Print Assumptions C10gen_additive_card_safe_ok.

Theorem C10gen_additive_card_relative_safe_ok :
  forall I P b p pre, gen_additive_card_relative_sat_func_safe I P b p pre = true.
Proof. exact gen_additive_card_relative_safe_ok. Qed.
Print Assumptions C10gen_additive_card_relative_safe_ok.

Theorem C10gen_cc_app_safe_ok :
  forall I P b W, gen_cc_sat_func_app_safe I P b W = true.
Proof. exact gen_cc_app_safe_ok. Qed.
Print Assumptions C10gen_cc_app_safe_ok.

Theorem C10gen_cc_card_safe_ok :
  forall I P b W, gen_cc_sat_func_card_safe I P b W = true.
Proof. exact gen_cc_card_safe_ok. Qed.
Print Assumptions C10gen_cc_card_safe_ok.

Theorem C10gen_borda_safe_ok :
  forall b p, gen_borda_sat_func_safe b p = true.
Proof. exact gen_borda_safe_ok. Qed.
Print Assumptions C10gen_borda_safe_ok.

Theorem C10gen_additive_get_project_sat_ok :
  forall b f I pre P p,
  gen_AdditiveSatisfaction_get_project_sat b f I pre P p = f I P b p pre.
Proof. exact gen_additive_get_project_sat_ok. Qed.
Print Assumptions C10gen_additive_get_project_sat_ok.

Theorem C10gen_additive_sat_project_ok :
  forall b f I pre P p,
  gen_AdditiveSatisfaction_sat_project b f I pre P p == f I P b p pre.
Proof. exact gen_additive_sat_project_ok. Qed.
Print Assumptions C10gen_additive_sat_project_ok.

Theorem C10gen_additive_sat_ok :
  forall b f I pre P W,
  gen_AdditiveSatisfaction_sat b f I pre P W == sat_add (fun p => f I P b p pre) W.
Proof. exact gen_additive_sat_ok. Qed.
Print Assumptions C10gen_additive_sat_ok.

Theorem C10gen_functional_sat_ok :
  forall b f I P W, gen_FunctionalSatisfaction_sat b f I P W = f I P b W.
Proof. exact gen_functional_sat_ok. Qed.
Print Assumptions C10gen_functional_sat_ok.

Theorem C10gen_functional_sat_project_ok :
  forall b f I P p, gen_FunctionalSatisfaction_sat_project b f I P p == f I P b [p].
Proof. exact gen_functional_sat_project_ok. Qed.
Print Assumptions C10gen_functional_sat_project_ok.

Theorem C10gen_positional_sat_ok :
  forall agg b I pf P W,
  gen_PositionalSatisfaction_sat agg b I pf P W = agg (map (pf b) W).
Proof. exact gen_positional_sat_ok. Qed.
Print Assumptions C10gen_positional_sat_ok.

Theorem C10gen_positional_sat_project_ok :
  forall agg b I pf P p,
  gen_PositionalSatisfaction_sat_project agg b I pf P p == agg [pf b p].
Proof. exact gen_positional_sat_project_ok. Qed.
Print Assumptions C10gen_positional_sat_project_ok.

Theorem C10gen_pre_additive_empty :
  forall I P b k, gen_AdditiveSatisfaction_preprocessing I P b k = None.
Proof. exact gen_pre_additive_empty. Qed.
Print Assumptions C10gen_pre_additive_empty.

Theorem C10gen_pre_rel_card_ok :
  forall I P b k v,
  gen_Relative_Cardinality_Sat_preprocessing I P b k = Some v -> v == Qnat (rel_card_norm I b).
Proof. exact gen_pre_rel_card_ok. Qed.
Print Assumptions C10gen_pre_rel_card_ok.

Theorem C10gen_pre_rel_cost_ok :
  forall orc I P b k v,
  gen_Relative_Cost_Sat_preprocessing orc I P b k = Some v ->
  v == mip_value (orc (bcosts I b) (budget I)) (bcosts I b).
Proof. exact gen_pre_rel_cost_ok. Qed.
Print Assumptions C10gen_pre_rel_cost_ok.

Theorem C10gen_pre_rel_cost_approx_ok :
  forall I P b k v,
  gen_Relative_Cost_Approx_Normaliser_Sat_preprocessing I P b k = Some v -> v == approx_norm I b.
Proof. exact gen_pre_rel_cost_approx_ok. Qed.
Print Assumptions C10gen_pre_rel_cost_approx_ok.

Theorem C10gen_pre_add_card_rel_ok :
  forall N I P b k v,
  gen_Additive_Cardinal_Relative_Sat_preprocessing N I P b k = Some v -> v = N.
Proof. exact gen_pre_add_card_rel_ok. Qed.
Print Assumptions C10gen_pre_add_card_rel_ok.

Theorem C10gen_Cardinality_Sat_project_ok :
  forall E p,
  gen_Cardinality_Sat_sat_project (eI E) (eP E) (eb E) p == sat_project Cardinality E p.
Proof. exact gen_Cardinality_Sat_project_ok. Qed.
Print Assumptions C10gen_Cardinality_Sat_project_ok.

Theorem C10gen_Cardinality_Sat_ok :
  forall E W, gen_Cardinality_Sat_sat (eI E) (eP E) (eb E) W == sat Cardinality E W.
Proof. exact gen_Cardinality_Sat_ok. Qed.
Print Assumptions C10gen_Cardinality_Sat_ok.

Theorem C10gen_Cost_Sat_project_ok :
  forall E p, gen_Cost_Sat_sat_project (eI E) (eP E) (eb E) p == sat_project Cost E p.
Proof. exact gen_Cost_Sat_project_ok. Qed.
Print Assumptions C10gen_Cost_Sat_project_ok.

Theorem C10gen_Cost_Sat_ok :
  forall E W, gen_Cost_Sat_sat (eI E) (eP E) (eb E) W == sat Cost E W.
Proof. exact gen_Cost_Sat_ok. Qed.
Print Assumptions C10gen_Cost_Sat_ok.

Theorem C10gen_Effort_Sat_project_ok :
  forall E p, gen_Effort_Sat_sat_project (eI E) (eP E) (eb E) p == sat_project Effort E p.
Proof. exact gen_Effort_Sat_project_ok. Qed.
Print Assumptions C10gen_Effort_Sat_project_ok.

Theorem C10gen_Effort_Sat_ok :
  forall E W, gen_Effort_Sat_sat (eI E) (eP E) (eb E) W == sat Effort E W.
Proof. exact gen_Effort_Sat_ok. Qed.
Print Assumptions C10gen_Effort_Sat_ok.

Theorem C10gen_Relative_Cardinality_Sat_project_ok :
  forall E p,
  gen_Relative_Cardinality_Sat_sat_project (eI E) (eP E) (eb E) p == sat_project RelCardinality E p.
Proof. exact gen_Relative_Cardinality_Sat_project_ok. Qed.
Print Assumptions C10gen_Relative_Cardinality_Sat_project_ok.

Theorem C10gen_Relative_Cardinality_Sat_ok :
  forall E W,
  gen_Relative_Cardinality_Sat_sat (eI E) (eP E) (eb E) W == sat RelCardinality E W.
Proof. exact gen_Relative_Cardinality_Sat_ok. Qed.
Print Assumptions C10gen_Relative_Cardinality_Sat_ok.

Theorem C10gen_Relative_Cost_Approx_project_ok :
  forall E p,
  gen_Relative_Cost_Approx_Normaliser_Sat_sat_project (eI E) (eP E) (eb E) p == sat_project RelCostApprox E p.
Proof. exact gen_Relative_Cost_Approx_project_ok. Qed.
Print Assumptions C10gen_Relative_Cost_Approx_project_ok.

Theorem C10gen_Relative_Cost_Approx_ok :
  forall E W,
  gen_Relative_Cost_Approx_Normaliser_Sat_sat (eI E) (eP E) (eb E) W == sat RelCostApprox E W.
Proof. exact gen_Relative_Cost_Approx_ok. Qed.
Print Assumptions C10gen_Relative_Cost_Approx_ok.

Theorem C10gen_Additive_Cardinal_Sat_project_ok :
  forall E p,
  gen_Additive_Cardinal_Sat_sat_project (eI E) (eP E) (eb E) p == sat_project AddCardinal E p.
Proof. exact gen_Additive_Cardinal_Sat_project_ok. Qed.
Print Assumptions C10gen_Additive_Cardinal_Sat_project_ok.

Theorem C10gen_Additive_Cardinal_Sat_ok :
  forall E W,
  gen_Additive_Cardinal_Sat_sat (eI E) (eP E) (eb E) W == sat AddCardinal E W.
Proof. exact gen_Additive_Cardinal_Sat_ok. Qed.
Print Assumptions C10gen_Additive_Cardinal_Sat_ok.

Theorem C10gen_Additive_Borda_Sat_project_ok :
  forall E p,
  gen_Additive_Borda_Sat_sat_project (eI E) (eP E) (eb E) p == sat_project Borda E p.
Proof. exact gen_Additive_Borda_Sat_project_ok. Qed.
Print Assumptions C10gen_Additive_Borda_Sat_project_ok.

Theorem C10gen_Additive_Borda_Sat_ok :
  forall E W, gen_Additive_Borda_Sat_sat (eI E) (eP E) (eb E) W == sat Borda E W.
Proof. exact gen_Additive_Borda_Sat_ok. Qed.
Print Assumptions C10gen_Additive_Borda_Sat_ok.

Theorem C10gen_CC_Sat_approval_project_ok :
  forall E p,
  gen_CC_Sat_approval_sat_project (eI E) (eP E) (eb E) p == sat_project CCApp E p.
Proof. exact gen_CC_Sat_approval_project_ok. Qed.
Print Assumptions C10gen_CC_Sat_approval_project_ok.

Theorem C10gen_CC_Sat_approval_ok :
  forall E W, gen_CC_Sat_approval_sat (eI E) (eP E) (eb E) W == sat CCApp E W.
Proof. exact gen_CC_Sat_approval_ok. Qed.
Print Assumptions C10gen_CC_Sat_approval_ok.

Theorem C10gen_CC_Sat_cardinal_project_ok :
  forall E p,
  gen_CC_Sat_cardinal_sat_project (eI E) (eP E) (eb E) p == sat_project CCCard E p.
Proof. exact gen_CC_Sat_cardinal_project_ok. Qed.
Print Assumptions C10gen_CC_Sat_cardinal_project_ok.

Theorem C10gen_CC_Sat_cardinal_ok :
  forall E W, gen_CC_Sat_cardinal_sat (eI E) (eP E) (eb E) W == sat CCCard E W.
Proof. exact gen_CC_Sat_cardinal_ok. Qed.
Print Assumptions C10gen_CC_Sat_cardinal_ok.

Theorem C10gen_Relative_Cost_Sat_project_ok :
  forall orc E p,
  ex E = orc (bcosts (eI E) (eb E)) (budget (eI E)) ->
  gen_Relative_Cost_Sat_sat_project orc (eI E) (eP E) (eb E) p == sat_project RelCost E p.
Proof. exact gen_Relative_Cost_Sat_project_ok. Qed.
Print Assumptions C10gen_Relative_Cost_Sat_project_ok.

Theorem C10gen_Relative_Cost_Sat_ok :
  forall orc E W,
  ex E = orc (bcosts (eI E) (eb E)) (budget (eI E)) ->
  gen_Relative_Cost_Sat_sat orc (eI E) (eP E) (eb E) W == sat RelCost E W.
Proof. exact gen_Relative_Cost_Sat_ok. Qed.
Print Assumptions C10gen_Relative_Cost_Sat_ok.

Theorem C10gen_Additive_Cardinal_Relative_Sat_project_ok :
  forall E p,
  gen_Additive_Cardinal_Relative_Sat_sat_project (add_card_rel_norm E) (eI E) (eP E) (eb E) p
  == sat_project AddCardinalRel E p.
Proof. exact gen_Additive_Cardinal_Relative_Sat_project_ok. Qed.
Print Assumptions C10gen_Additive_Cardinal_Relative_Sat_project_ok.

Theorem C10gen_Additive_Cardinal_Relative_Sat_ok :
  forall E W,
  gen_Additive_Cardinal_Relative_Sat_sat (add_card_rel_norm E) (eI E) (eP E) (eb E) W == sat AddCardinalRel E W.
Proof. exact gen_Additive_Cardinal_Relative_Sat_ok. Qed.
Print Assumptions C10gen_Additive_Cardinal_Relative_Sat_ok.

Theorem C10gen_wiring_ok :
  gen_wiring = shipped_wiring.
Proof. exact gen_wiring_ok. Qed.
Print Assumptions C10gen_wiring_ok.

Theorem C10gen_sat_all_translated :
  gen_untranslated_sat = [].
Proof. exact gen_sat_all_translated. Qed.
Print Assumptions C10gen_sat_all_translated.
