(* Props/C15.v -- property C15: instance predicates agree with brute force over subsets.
   Only statements closed by [exact]; the proofs live in Proofs/InstanceP.v. *)
From PB Require Import Model.InstanceM Proofs.InstanceP.
Open Scope Q_scope.

(* a set of projects is reported feasible exactly when its total cost is within the budget *)
Theorem C15_is_feasible_iff : forall I W, is_feasible I W = true <-> tcost I W <= budget I.
Proof. exact is_feasible_iff. Qed.
Print Assumptions C15_is_feasible_iff.

(* exhaustive exactly when no other available project fits on top of it *)
Theorem C15_is_exhaustive_iff : forall I W avail,
  is_exhaustive I W avail = true <->
  (forall p, In p avail -> ~ In p W -> budget I < cost I p + tcost I W).
Proof. exact is_exhaustive_iff. Qed.
Print Assumptions C15_is_exhaustive_iff.

Theorem C15_is_exhaustive_default : forall I W,
  is_exhaustive I W (all_projects I) = true <-> exhaustive I W.
Proof. exact is_exhaustive_default. Qed.
Print Assumptions C15_is_exhaustive_default.

(* the powerset helper enumerates exactly the subsequences, each once *)
Theorem C15_powerset_spec : forall (l s : list nat), In s (powerset l) <-> sublist s l.
Proof. exact (@powerset_spec nat). Qed.
Print Assumptions C15_powerset_spec.

Theorem C15_powerset_NoDup : forall (l : list nat), NoDup l -> NoDup (powerset l).
Proof. exact (@powerset_NoDup nat). Qed.
Print Assumptions C15_powerset_NoDup.

(* budget_allocations yields every feasible subset exactly once *)
Theorem C15_budget_allocations_In : forall I enum S,
  In S (budget_allocations I enum) <-> sublist S enum /\ tcost I S <= budget I.
Proof. exact budget_allocations_In. Qed.
Print Assumptions C15_budget_allocations_In.

Theorem C15_budget_allocations_NoDup : forall I enum,
  NoDup enum -> NoDup (budget_allocations I enum).
Proof. exact budget_allocations_NoDup. Qed.
Print Assumptions C15_budget_allocations_NoDup.

(* cheapest-first count = true maximum number of projects that fit (any size, any costs >= 0) *)
Theorem C15_max_card_upper : forall cs b S,
  Forall (fun c => 0 <= c) cs -> submset S cs -> Qsum S <= b -> (length S <= max_card cs b)%nat.
Proof. exact max_card_upper. Qed.
Print Assumptions C15_max_card_upper.

Theorem C15_max_card_attained : forall cs b,
  0 <= b -> exists S, sublist S cs /\ Qsum S <= b /\ length S = max_card cs b.
Proof. exact max_card_attained. Qed.
Print Assumptions C15_max_card_attained.

Theorem C15_max_card_bf_eq : forall cs b,
  Forall (fun c => 0 <= c) cs -> 0 <= b -> max_card cs b = max_card_bf cs b.
Proof. exact max_card_bf_eq. Qed.
Print Assumptions C15_max_card_bf_eq.

(* the brute-force oracle used for max_budget_allocation_cost is the true optimum *)
Theorem C15_max_cost_bf_spec : forall cs b,
  Forall (fun c => 0 <= c) cs -> 0 <= b ->
  (exists S, sublist S cs /\ Qsum S <= b /\ Qsum S = max_cost_bf cs b) /\
  (forall S, sublist S cs -> Qsum S <= b -> Qsum S <= max_cost_bf cs b).
Proof. exact max_cost_bf_spec. Qed.
Print Assumptions C15_max_cost_bf_spec.

(* trivial exactly when everything fits or nothing does (non-empty instance) *)
Theorem C15_is_trivial_iff : forall I b,
  is_trivial I = Some b ->
  (b = true <-> (Qsum (costs I) <= budget I \/ forall c, In c (costs I) -> budget I < c)).
Proof. exact is_trivial_iff. Qed.
Print Assumptions C15_is_trivial_iff.

Theorem C15_is_trivial_defined : forall I,
  costs I <> [] \/ 0 <= budget I -> exists b, is_trivial I = Some b.
Proof. exact is_trivial_defined. Qed.
Print Assumptions C15_is_trivial_defined.

(* non-vacuity: a concrete instance on which the predicates take both values *)
Example C15_nonvacuous :
  let I := mkInst [1; 2; 3] 3 in
  is_feasible I [0; 1]%nat = true /\ is_feasible I [1; 2]%nat = false /\
  is_exhaustive I [0; 1]%nat (all_projects I) = true /\ is_exhaustive I [0]%nat (all_projects I) = false /\
  max_card [1; 2; 3] 3 = 2%nat /\ is_trivial I = Some false /\
  length (budget_allocations I [0; 1; 2]%nat) = 5%nat.
Proof. vm_compute. repeat split; reflexivity. Qed.
