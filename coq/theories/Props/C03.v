(* Props/C03.v -- property C03: the greedy welfare rule follows its definition and exhausts the budget.
   Only statements closed by [exact]; proofs in Proofs/GreedyP.v and Proofs/GreedyAddP.v.
   Model: Model/GreedyRule.v (mirror of greedywelfare_rule.py); spec: Spec/GreedySpec.v.
   Only hypothesis on the instance: costs are non-negative (weaker than wf_inst).  [sat] is ANY function from
   lists of projects to Q (additive or not: Chamberlin-Courant, sqrt/log of cost, ...). *)
From PB Require Import Model.GreedyRule Spec.GreedySpec Proofs.GreedyP Proofs.GreedyAddP Proofs.GreedyReplayP.
Open Scope Q_scope.

(* the general scheme (resolute) terminates and its result is the outcome of a run of the declarative definition:
   repeatedly add, among the projects that still fit, one with the largest marginal satisfaction per cost (zero cost
   = +inf), ties resolved by smallest tie-breaking key, then name order; stop when nothing fits *)
Theorem C03_greedy_gen_refines_spec : forall I sat tb,
  Forall (fun c => 0 <= c) (costs I) -> forall init,
  exists W, greedy_gen_res I sat tb init = Some W /\ greedy_run I (tb_first I sat tb) init W.
Proof. exact greedy_gen_refines_spec. Qed.
Print Assumptions C03_greedy_gen_refines_spec.

(* ... and that definition determines the outcome uniquely ("exactly the one built by ...") *)
Theorem C03_greedy_run_deterministic : forall I sat tb a W1 W2,
  greedy_run I (tb_first I sat tb) a W1 -> greedy_run I (tb_first I sat tb) a W2 -> W1 = W2.
Proof. exact greedy_run_deterministic. Qed.
Print Assumptions C03_greedy_run_deterministic.

(* irresolute: the returned allocations are exactly the (name-sorted) outcomes of the runs under every way of
   resolving the ties among the best projects *)
Theorem C03_greedy_gen_irr_spec : forall I sat tb,
  Forall (fun c => 0 <= c) (costs I) -> forall init,
  exists Ws, greedy_gen_irr I sat tb init = Some Ws /\
    forall X, In X Ws <-> exists W, greedy_run I (best I sat) init W /\ X = name_sort W.
Proof. exact greedy_gen_irr_spec. Qed.
Print Assumptions C03_greedy_gen_irr_spec.

(* every call returns (no fuel exhaustion, no empty tie list), both schemes, resolute and irresolute *)
Theorem C03_greedy_total : forall I sat sp tb,
  Forall (fun c => 0 <= c) (costs I) -> forall additive init,
  (exists W, greedy_welfare_res I sat sp tb additive init = Some W) /\
  (exists Ws, greedy_welfare_irr I sat tb additive init = Some Ws /\ Ws <> []).
Proof. exact greedy_total. Qed.
Print Assumptions C03_greedy_total.

(* every returned allocation is exhaustive: no further project of the instance fits -- both schemes, any sat, any
   tie-breaking key, any initial allocation, resolute and every irresolute outcome *)
Theorem C03_greedy_exhaustive : forall I sat sp tb,
  Forall (fun c => 0 <= c) (costs I) ->
  (forall additive init W, greedy_welfare_res I sat sp tb additive init = Some W -> exhaustive I W) /\
  (forall additive init Ws W, greedy_welfare_irr I sat tb additive init = Some Ws -> In W Ws -> exhaustive I W).
Proof. exact greedy_exhaustive. Qed.
Print Assumptions C03_greedy_exhaustive.

(* every returned allocation is feasible and contains the (feasible) initial allocation *)
Theorem C03_greedy_feasible : forall I sat sp tb,
  Forall (fun c => 0 <= c) (costs I) -> forall init, feasible I init ->
  (forall additive W, greedy_welfare_res I sat sp tb additive init = Some W -> feasible I W /\ incl init W) /\
  (forall additive Ws W, greedy_welfare_irr I sat tb additive init = Some Ws -> In W Ws ->
     feasible I W /\ incl init W).
Proof. exact greedy_feasible. Qed.
Print Assumptions C03_greedy_feasible.

(* additive non-negative satisfaction: the sort-once fast path selects the same set as the general scheme *)
Theorem C03_greedy_add_eq_gen : forall I sp tb,
  Forall (fun c => 0 <= c) (costs I) -> forall sat,
  (forall W, sat W == Qsum (map sp W)) -> (forall p, 0 <= sp p) ->
  forall init, tcost I init <= budget I ->
  exists W, greedy_gen_res I sat tb init = Some W /\ set_eq W (greedy_add_res I sp tb init).
Proof. exact greedy_add_eq_gen. Qed.
Print Assumptions C03_greedy_add_eq_gen.

(* spec level: any run of the definition, whatever the choice rule, ends in an exhaustive allocation *)
Theorem C03_greedy_run_exhaustive : forall I (ch : list proj -> proj -> Prop) a W,
  greedy_run I ch a W -> exhaustive I W.
Proof. exact greedy_run_exhaustive. Qed.
Print Assumptions C03_greedy_run_exhaustive.

(* the boolean replay applied by Oracle/C03.v to the implementation's returned order decides "is the run of the
   definition": it accepts a purchase order exactly when that order is the greedy run *)
Theorem C03_oracle_replay_iff : forall I sat tb rest alloc,
  PB.Oracle.C03.replayb I sat tb alloc rest = true <-> greedy_run I (tb_first I sat tb) alloc (alloc ++ rest).
Proof. exact replayb_iff. Qed.
Print Assumptions C03_oracle_replay_iff.

(* non-vacuity: costs 1,2,2,0, budget 3, additive utilities 2,3,3,0, lexicographic ties.  The general scheme takes
   the zero-cost project first (density +inf), the fast path last (density 0); p1/p2 tie; p2 is left out; the two
   schemes return the same set in different orders; the irresolute call returns both tie resolutions. *)
Example C03_nonvacuous :
  let I := mkInst [1; 2; 2; 0] 3 in
  let sp := key_of_list [2; 3; 3; 0] in
  let sat := fun W => Qsum (map sp W) in
  let tb := fun p => Qnat p in
  Forall (fun c => 0 <= c) (costs I) /\ (forall p, 0 <= sp p) /\
  greedy_gen_res I sat tb [] = Some [3; 0; 1]%nat /\
  greedy_add_res I sp tb [] = [0; 1; 3]%nat /\
  greedy_gen_irr I sat tb [] = Some [[0; 1; 3]; [0; 2; 3]]%nat /\
  greedy_gen_res I sat tb [2]%nat = Some [2; 3; 0]%nat /\
  greedy_add_res I sp tb [2]%nat = [2; 0; 3]%nat.
Proof.
  cbv zeta. split; [repeat constructor; discriminate|]. split.
  - intros p. unfold key_of_list. do 4 (destruct p as [|p]; [simpl; discriminate|]).
    simpl. destruct p; discriminate.
  - vm_compute. repeat split; reflexivity.
Qed.
