(* Props/C06.v -- property C06: profiles and multiprofiles are interchangeable.
   Only statements closed by [exact]; the proofs live in Proofs/MultiP.v (and Proofs/PhragmenP.v, Proofs/StatsP.v,
   Proofs/SatisfactionP.v for the re-exported ones).

   A profile object is the list of (ballot, multiplicity) pairs it iterates over: a MultiProfile has one pair per
   distinct ballot, a list Profile one pair of multiplicity 1 per voter.  [expandA P] is the list of voters behind
   the classes P, [ones V] the list profile of the voters V; so "profile vs profile.as_multiprofile()" is
   "[ones (expandA P)] vs [P]".  (Stats.expandP, SatSpec.expandP, expand_ballots are the same expansion on the
   ballot representations of the individual models.) *)
From PB Require Import Base.Election Base.Argmax.
From PB Require Import Model.Phragmen Model.GreedyRule Model.MaxWelfare Model.Analysis Spec.Stats.
From PB Require Import Proofs.PhragmenP Proofs.MultiP.
From PB Require Model.MesRule Model.Satisfaction Spec.SatSpec Model.Composition.
Open Scope Q_scope.

(* ---- generic: sums and counts with multiplicities = sums and counts over the replicated voters --------------- *)
Theorem C06_total_sat_expand : forall (A : Type) (g : A -> Q) (P : list (A * nat)),
  wtotal g P == Qsum (map g (expandA P)).
Proof. exact (@total_sat_expand). Qed.
Print Assumptions C06_total_sat_expand.

Theorem C06_total_sat_mult : forall (A : Type) (g : A -> Q) (P : list (A * nat)),
  wtotal g P == wtotal g (ones (expandA P)).
Proof. exact (@total_sat_mult). Qed.
Print Assumptions C06_total_sat_mult.

Theorem C06_voter_count_expand : forall (A : Type) (f : A -> bool) (P : list (A * nat)),
  MultiP.wcount f P = length (filter f (expandA P)) /\ wsize P = length (expandA P).
Proof. exact (fun A f P => conj (wcount_expand f P) (wsize_expand P)). Qed.
Print Assumptions C06_voter_count_expand.

(* ---- M rule: sequential Phragmen (re-export of C05's phragmen_mult) ------------------------------------------ *)
Theorem C06_phragmen_mult : forall I P tb tb' enum loads init,
  length P = length loads -> (forall p, tb p == tb' p) ->
  phragmen_res I (expand_ballots P) tb' enum (expand_loads P loads) init = phragmen_res I P tb enum loads init /\
  phragmen_irr I (expand_ballots P) tb' enum (expand_loads P loads) init = phragmen_irr I P tb enum loads init.
Proof.
  exact (fun I P tb tb' enum loads init HL Htb =>
           conj (phragmen_mult_res I P tb tb' enum loads init HL Htb)
                (phragmen_mult_irr I P tb tb' enum loads init HL Htb)).
Qed.
Print Assumptions C06_phragmen_mult.

Theorem C06_app_score_key_mult : forall P p, tb_app_score P p == tb_app_score (expand_ballots P) p.
Proof. exact tb_app_score_expand. Qed.
Print Assumptions C06_app_score_key_mult.

(* ---- M rule: greedy welfare.  The rule reads the profile only through the total satisfaction (any measure, additive
        or not: [s a W] is the satisfaction of a voter with ballot a) and the tie-breaking key, and respects ==: ---- *)
Theorem C06_greedy_respects_Qeq : forall I sat sat' sp sp' tb tb' additive init,
  (forall W, sat W == sat' W) -> (forall p, sp p == sp' p) -> (forall p, tb p == tb' p) ->
  greedy_welfare_res I sat sp tb additive init = greedy_welfare_res I sat' sp' tb' additive init /\
  greedy_welfare_irr I sat tb additive init = greedy_welfare_irr I sat' tb' additive init.
Proof.
  exact (fun I sat sat' sp sp' tb tb' additive init Hs Hp Ht =>
           conj (greedy_welfare_res_ext I sat sat' sp sp' tb tb' Hs Hp Ht additive init)
                (greedy_welfare_irr_ext I sat sat' tb tb' Hs Ht additive init)).
Qed.
Print Assumptions C06_greedy_respects_Qeq.

Theorem C06_greedy_mult : forall (A : Type) I (s : A -> list proj -> Q) (tbk : list (A * nat) -> proj -> Q)
                                 (P : list (A * nat)) additive init,
  (forall p, tbk P p == tbk (ones (expandA P)) p) ->
  greedy_welfare_res I (gsat s P) (gsp s P) (tbk P) additive init
  = greedy_welfare_res I (gsat s (ones (expandA P))) (gsp s (ones (expandA P))) (tbk (ones (expandA P))) additive init
  /\ greedy_welfare_irr I (gsat s P) (tbk P) additive init
     = greedy_welfare_irr I (gsat s (ones (expandA P))) (tbk (ones (expandA P))) additive init.
Proof. exact (@greedy_mult). Qed.
Print Assumptions C06_greedy_mult.

(* ---- M rule: welfare maximiser (primal/dual knapsack): the scores it reads (exact numbers in canonical form) are
        EQUAL on classes and voters, hence the selected set and its welfare ---- *)
Theorem C06_maxwelfare_mult : forall (A : Type) (s : A -> proj -> Q) I (P : list (A * nat)) enum init,
  score_list s P (nproj I) = score_list s (ones (expandA P)) (nproj I) /\
  maxwelfare_pd I (score_list s P (nproj I)) enum init
  = maxwelfare_pd I (score_list s (ones (expandA P)) (nproj I)) enum init.
Proof. exact (fun A s I P enum init => conj (score_list_mult s P (nproj I)) (maxwelfare_mult s I P enum init)). Qed.
Print Assumptions C06_maxwelfare_mult.

(* ---- M rule: social_welfare_comparison (Model/Composition.v): same winners.  [xout mults o] is the outcome o as the
        expanded (list) satisfaction profile sees it: the satisfaction of every class repeated by its multiplicity;
        [xmults mults] the multiplicities (all 1) of the expanded profile ---- *)
Theorem C06_social_welfare_comparison_mult : forall mults outs,
  map Composition.o_alloc (Composition.swc (xmults mults) (map (xout mults) outs))
  = map Composition.o_alloc (Composition.swc mults outs).
Proof. exact swc_mult_allocs. Qed.
Print Assumptions C06_social_welfare_comparison_mult.

(* ---- M rule: popularity_comparison: every class supports, with its multiplicity, what each of its copies supports ---- *)
Theorem C06_popularity_comparison_mult : forall mults outs,
  map Composition.o_alloc (Composition.popularity (xmults mults) (map (xout mults) outs))
  = map Composition.o_alloc (Composition.popularity mults outs).
Proof. exact popularity_mult_allocs. Qed.
Print Assumptions C06_popularity_comparison_mult.

(* ---- Equal Shares (Model/MesRule.v): every multiplicity-weighted quantity of the model = the quantity over the
        expanded voters: money per voter copy, total utility of a project, money of its supporters ---- *)
Theorem C06_mes_share_mult : forall x,
  MesRule.share x = MesRule.share (MesRule.mkIn (MesRule.mi_costs x) (MesRule.mi_budget x) (expand (MesRule.mi_voters x))
                                                (MesRule.mi_tb x) (MesRule.mi_enum x) (MesRule.mi_bin x) (MesRule.mi_init x)).
Proof. exact mes_share_mult. Qed.
Print Assumptions C06_mes_share_mult.

Theorem C06_mes_total_sat_mult : forall P p,
  MesRule.total_sat (expand P) p (MesRule.supporters (expand P) p) == MesRule.total_sat P p (MesRule.supporters P p).
Proof. exact mes_total_sat_mult. Qed.
Print Assumptions C06_mes_total_sat_mult.

Theorem C06_mes_avail_mult : forall P buds p, length P = length buds ->
  mes_avail (expand P) (expand_buds P buds) p == mes_avail P buds p.
Proof. exact mes_avail_mult. Qed.
Print Assumptions C06_mes_avail_mult.

Theorem C06_mes_avail_is_avail : forall P buds mp, MesRule.mp_sup mp = MesRule.supporters P (MesRule.mp_id mp) ->
  MesRule.avail P buds mp = mes_avail P buds (MesRule.mp_id mp).
Proof. exact mes_avail_is_avail. Qed.
Print Assumptions C06_mes_avail_is_avail.

(* ---- M statistics: every aggregate on classes = the aggregate on the expanded list profile ---- *)
Theorem C06_mean_mult : forall l, mean_generator l == mean_generator (ones (expandQ l)).
Proof. exact mean_generator_mult. Qed.
Print Assumptions C06_mean_mult.

Theorem C06_avg_satisfaction_mult : forall S : sats, avg_satisfaction S == avg_satisfaction (ones (expandQ S)).
Proof. exact avg_satisfaction_mult. Qed.
Print Assumptions C06_avg_satisfaction_mult.

Theorem C06_gini_mult : forall (S : sats) inv, gini_of_satisfaction S inv = gini_of_satisfaction (ones (expandQ S)) inv.
Proof. exact gini_mult. Qed.
Print Assumptions C06_gini_mult.

Theorem C06_percent_positive_mult : forall S : sats,
  opt_Qeq (percent_positive_satisfaction S) (percent_positive_satisfaction (ones (expandQ S))).
Proof. exact percent_positive_mult. Qed.
Print Assumptions C06_percent_positive_mult.

Theorem C06_hist_mult : forall k mx (S : sats), (0 < k)%nat -> 0 < mx -> (forall c, In c S -> 0 <= fst c) ->
  forall j, (j < k)%nat ->
  nth j (satisfaction_histogram k mx S) 0 == nth j (satisfaction_histogram k mx (ones (expandQ S))) 0.
Proof. exact StatsP.hist_mult. Qed.
Print Assumptions C06_hist_mult.

Theorem C06_ballot_length_cost_mult : forall I (P : prof),
  avg_ballot_length P == avg_ballot_length (ones (Stats.expandP P)) /\
  avg_ballot_cost I P == avg_ballot_cost I (ones (Stats.expandP P)) /\
  median_ballot_length P = median_ballot_length (ones (Stats.expandP P)) /\
  median_ballot_cost I P = median_ballot_cost I (ones (Stats.expandP P)).
Proof.
  exact (fun I P => conj (avg_ballot_length_mult P) (conj (avg_ballot_cost_mult I P)
                      (conj (median_ballot_length_mult P) (median_ballot_cost_mult I P)))).
Qed.
Print Assumptions C06_ballot_length_cost_mult.

Theorem C06_approval_score_mult : forall (P : prof) p, approval_score P p == approval_score (ones (Stats.expandP P)) p.
Proof. exact approval_score_mult. Qed.
Print Assumptions C06_approval_score_mult.

Theorem C06_total_score_mult : forall (P : prof) p, total_score P p == total_score (ones (Stats.expandP P)) p.
Proof. exact total_score_mult. Qed.
Print Assumptions C06_total_score_mult.

Theorem C06_score_statistics_mult : forall I (P : prof),
  avg_approval_score I P == avg_approval_score I (ones (Stats.expandP P)) /\
  avg_total_score I P == avg_total_score I (ones (Stats.expandP P)) /\
  median_approval_score I P == median_approval_score I (ones (Stats.expandP P)) /\
  median_total_score I P == median_total_score I (ones (Stats.expandP P)).
Proof.
  exact (fun I P => conj (avg_approval_score_mult I P) (conj (avg_total_score_mult I P)
                      (conj (median_approval_score_mult I P) (median_total_score_mult I P)))).
Qed.
Print Assumptions C06_score_statistics_mult.

Theorem C06_category_msd_mult : forall I pcats ncat (P : prof) W t t',
  category_msd I pcats ncat P W = CatMsd t ->
  category_msd I pcats ncat (ones (Stats.expandP P)) W = CatMsd t' -> t == t'.
Proof. exact category_msd_mult. Qed.
Print Assumptions C06_category_msd_mult.

(* votes_count_by_project / voter_flow_matrix: RECORDED FINDING (multiplicities are not read).  The statements
   forall P p, votes_count P p == votes_count (ones (expandP P)) p   and the analogue for voter_flow
   are false of the faithful model; they hold when no ballot is repeated. *)
Theorem C06_votes_count_mult_refuted :
  exists (P : prof) p, ~ votes_count P p == votes_count (ones (Stats.expandP P)) p.
Proof. exact votes_count_mult_refuted. Qed.
Print Assumptions C06_votes_count_mult_refuted.

Theorem C06_voter_flow_mult_refuted :
  exists (P : prof) a b, ~ voter_flow P a b == voter_flow (ones (Stats.expandP P)) a b.
Proof. exact voter_flow_mult_refuted. Qed.
Print Assumptions C06_voter_flow_mult_refuted.

Theorem C06_votes_count_flow_mult_partial : forall (P : prof), (forall c, In c P -> snd c = 1%nat) ->
  (forall p, votes_count P p == votes_count (ones (Stats.expandP P)) p) /\
  (forall a b, voter_flow P a b == voter_flow (ones (Stats.expandP P)) a b).
Proof. exact (fun P H => conj (fun p => votes_count_mult_partial P p H) (fun a b => voter_flow_mult_partial P a b H)). Qed.
Print Assumptions C06_votes_count_flow_mult_partial.

(* ---- M satisfaction: the value a voter gets depends on the ballot only -- except Effort_Sat, whose denominator
        is the number of VOTERS approving the project, the same number on classes and on the list profile ---- *)
Theorem C06_effort_denominator_mult : forall (P : Satisfaction.profile) p,
  Satisfaction.supporters P p = Satisfaction.supporters (ones (SatSpec.expandP P)) p /\
  Satisfaction.supporters P p = SatSpec.voters P p.
Proof. exact (fun P p => conj (effort_denominator_mult P p) (SatisfactionP.supporters_voters P p)). Qed.
Print Assumptions C06_effort_denominator_mult.

Theorem C06_sat_mult : forall m I (P : Satisfaction.profile) b x,
  (forall p, Satisfaction.sat_project m (Satisfaction.mkEnv I P b x) p
             = Satisfaction.sat_project m (Satisfaction.mkEnv I (ones (SatSpec.expandP P)) b x) p) /\
  (forall W, Satisfaction.sat m (Satisfaction.mkEnv I P b x) W
             = Satisfaction.sat m (Satisfaction.mkEnv I (ones (SatSpec.expandP P)) b x) W).
Proof. exact (fun m I P b x => conj (sat_project_mult m I P b x) (sat_mult m I P b x)). Qed.
Print Assumptions C06_sat_mult.

Theorem C06_sat_reads_ballot_only : forall m I (P P' : Satisfaction.profile) b x W, m <> Satisfaction.Effort ->
  Satisfaction.sat m (Satisfaction.mkEnv I P b x) W = Satisfaction.sat m (Satisfaction.mkEnv I P' b x) W.
Proof. exact sat_reads_ballot_only. Qed.
Print Assumptions C06_sat_reads_ballot_only.

Theorem C06_total_satisfaction_mult : forall m I (P : Satisfaction.profile) (xs : Satisfaction.ballot -> list bool) W,
  wtotal (fun b => Satisfaction.sat m (Satisfaction.mkEnv I P b (xs b)) W) P
  == wtotal (fun b => Satisfaction.sat m (Satisfaction.mkEnv I (ones (SatSpec.expandP P)) b (xs b)) W)
            (ones (SatSpec.expandP P)).
Proof. exact total_satisfaction_mult. Qed.
Print Assumptions C06_total_satisfaction_mult.

(* The Equal Shares refinement "rule on classes == rule on the expanded voters" (resolute, irresolute,
   iterated and iterated-irresolute entry points) is PROVED in Props/C06mes.v (mes_mult, mes_irr_mult,
   mes_iter_mult, mes_iter_irr_mult), through the deterministic textbook rule. *)

(* non-vacuity: a profile with a ballot cast three times; classes vs expanded voters, concrete values *)
Example C06_nonvacuous :
  let P : prof := [([(0%nat, 1); (1%nat, 1)], 1%nat); ([(1%nat, 1)], 3%nat)] in
  let V := Stats.expandP P in
  let A := [mkA [0%nat; 1%nat] 1; mkA [1%nat] 3] in
  let I := mkInst [2; 3] 3 in
  length V = 4%nat /\
  Qeq_bool (approval_score P 1%nat) 4 = true /\ Qeq_bool (approval_score (ones V) 1%nat) 4 = true /\
  Qeq_bool (avg_ballot_length P) (5 # 4) = true /\ Qeq_bool (avg_ballot_length (ones V)) (5 # 4) = true /\
  Qeq_bool (votes_count P 1%nat) 2 = true /\ Qeq_bool (votes_count (ones V) 1%nat) 4 = true /\
  phragmen_res I A tb_lexico [0%nat; 1%nat] (zero_loads A) [] = Some [1%nat] /\
  phragmen_res I (expand_ballots A) tb_lexico [0%nat; 1%nat] (zero_loads (expand_ballots A)) [] = Some [1%nat] /\
  Qeq_bool (wtotal (fun b : list nat => Qnat (length b)) [([0%nat; 1%nat], 1%nat); ([1%nat], 3%nat)]) 5 = true.
Proof. vm_compute. repeat split; reflexivity. Qed.
