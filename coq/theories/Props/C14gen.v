(* Props/C14gen.v -- property C14 (proportionality checkers match their definitions), the REGENERATED tie:
   analysis/cohesiveness.py (is_large_enough, is_cohesive_approval, is_cohesive_cardinal, cohesive_groups for approval
   and cardinal profiles) and analysis/justifiedrepresentation.py (is_in_core, strong-EJR / EJR / PJR for approval and
   cardinal ballots, with the up-to-any / up-to-one relaxations and their up_to_func lambdas) are translated from the
   Python source on every run (Generated/PyFuncs.v, harness/vharness/pytrans.py); the theorems say that what the source
   says NOW is the executable checker of Model/Cohesive.v, which Props/C14.v proves equal to the definitions of
   Spec/JR.v.  List profiles (every ballot once); the satisfaction class is a parameter and is assumed additive
   (sat(X) = sum of sat_project), as Model/Cohesive.v reads it.
   Only statements closed by exact; proofs in Proofs/PyGenJRP.v. *)
From Coq Require Import String.
From PB Require Import Model.PyPrims Generated.PyFuncs Proofs.PyGenLib Proofs.PyGenJRP.
From PB Require Base.JRAux Spec.JR Model.Cohesive.
Open Scope Q_scope.

Theorem C14gen_powerset_ballots_ok :
  forall l, gen_powerset_ballots l = powerset l.
Proof. exact gen_powerset_ballots_ok. Qed.
Print Assumptions C14gen_powerset_ballots_ok.

Theorem C14gen_is_large_enough_ok :
  forall gs nv c B,
  gen_is_large_enough (Qnat gs) (Qnat nv) c B = Cohesive.is_large_enough gs nv c B.
Proof. exact gen_is_large_enough_ok. Qed.
Print Assumptions C14gen_is_large_enough_ok.

Theorem C14gen_is_cohesive_approval_ok :
  forall I (P : list ballot) T S,
  gen_is_cohesive_approval I P T S = Cohesive.is_cohesive_approval I ballot P inb T S.
Proof. exact gen_is_cohesive_approval_ok. Qed.
Print Assumptions C14gen_is_cohesive_approval_ok.

Theorem C14gen_is_cohesive_cardinal_ok :
  forall I (P : list ballot) T S alpha,
  gen_is_cohesive_cardinal I P T S alpha = Cohesive.is_cohesive_cardinal I ballot P bget T S alpha.
Proof. exact gen_is_cohesive_cardinal_ok. Qed.
Print Assumptions C14gen_is_cohesive_cardinal_ok.

Theorem C14gen_cohesive_groups_ok :
  forall I (P : list ballot),
  gen_cohesive_groups I P = Cohesive.cohesive_groups_app I ballot P inb (all_projects I).
Proof. exact gen_cohesive_groups_ok. Qed.
Print Assumptions C14gen_cohesive_groups_ok.

Theorem C14gen_cohesive_groups_cardinal_ok :
  forall I (P : list ballot),
  gen_cohesive_groups_cardinal I P = Cohesive.cohesive_groups_card I ballot P bget (all_projects I).
Proof. exact gen_cohesive_groups_cardinal_ok. Qed.
Print Assumptions C14gen_cohesive_groups_cardinal_ok.

Theorem C14gen_is_strong_EJR_approval_ok :
  forall I (P : list ballot) (sc : py_satclass_l),
  (forall b X, sc I P b X == Qsum (map (fun p => sc I P b [p]) X)) -> forall W,
  gen_is_strong_EJR_approval I P sc W = Cohesive.is_strong_EJR_approval I ballot P inb (fun b p => sc I P b [p]) (all_projects I) W.
Proof. exact gen_is_strong_EJR_approval_ok. Qed.
Print Assumptions C14gen_is_strong_EJR_approval_ok.

Theorem C14gen_is_EJR_approval_ok :
  forall I (P : list ballot) (sc : py_satclass_l),
  (forall b X, sc I P b X == Qsum (map (fun p => sc I P b [p]) X)) -> forall W,
  gen_is_EJR_approval I P sc W = Cohesive.is_EJR_approval I ballot P inb (fun b p => sc I P b [p]) (all_projects I) JR.Plain W.
Proof. exact gen_is_EJR_approval_ok. Qed.
Print Assumptions C14gen_is_EJR_approval_ok.

Theorem C14gen_is_EJR_any_approval_ok :
  forall I (P : list ballot) (sc : py_satclass_l),
  (forall b X, sc I P b X == Qsum (map (fun p => sc I P b [p]) X)) -> forall W,
  gen_is_EJR_any_approval I P sc W = Cohesive.is_EJR_approval I ballot P inb (fun b p => sc I P b [p]) (all_projects I) JR.UpToAny W.
Proof. exact gen_is_EJR_any_approval_ok. Qed.
Print Assumptions C14gen_is_EJR_any_approval_ok.

Theorem C14gen_is_EJR_one_approval_ok :
  forall I (P : list ballot) (sc : py_satclass_l),
  (forall b X, sc I P b X == Qsum (map (fun p => sc I P b [p]) X)) -> forall W,
  gen_is_EJR_one_approval I P sc W = Cohesive.is_EJR_approval I ballot P inb (fun b p => sc I P b [p]) (all_projects I) JR.UpToOne W.
Proof. exact gen_is_EJR_one_approval_ok. Qed.
Print Assumptions C14gen_is_EJR_one_approval_ok.

Theorem C14gen_is_PJR_approval_ok :
  forall I (P : list ballot) (sc : py_satclass_l),
  (forall b X, sc I P b X == Qsum (map (fun p => sc I P b [p]) X)) -> forall W,
  gen_is_PJR_approval I P sc W = Cohesive.is_PJR_approval I ballot P inb (fun p => sc I P (py_full_ballot I) [p]) (all_projects I) JR.Plain W.
Proof. exact gen_is_PJR_approval_ok. Qed.
Print Assumptions C14gen_is_PJR_approval_ok.

Theorem C14gen_is_PJR_any_approval_ok :
  forall I (P : list ballot) (sc : py_satclass_l),
  (forall b X, sc I P b X == Qsum (map (fun p => sc I P b [p]) X)) -> forall W,
  gen_is_PJR_any_approval I P sc W = Cohesive.is_PJR_approval I ballot P inb (fun p => sc I P (py_full_ballot I) [p]) (all_projects I) JR.UpToAny W.
Proof. exact gen_is_PJR_any_approval_ok. Qed.
Print Assumptions C14gen_is_PJR_any_approval_ok.

Theorem C14gen_is_PJR_one_approval_ok :
  forall I (P : list ballot) (sc : py_satclass_l),
  (forall b X, sc I P b X == Qsum (map (fun p => sc I P b [p]) X)) -> forall W,
  gen_is_PJR_one_approval I P sc W = Cohesive.is_PJR_approval I ballot P inb (fun p => sc I P (py_full_ballot I) [p]) (all_projects I) JR.UpToOne W.
Proof. exact gen_is_PJR_one_approval_ok. Qed.
Print Assumptions C14gen_is_PJR_one_approval_ok.

Theorem C14gen_is_in_core_ok :
  forall I (P : list ballot) (sc : py_satclass_l),
  (forall b X, sc I P b X == Qsum (map (fun p => sc I P b [p]) X)) -> forall W,
  gen_is_in_core I P sc W = Cohesive.is_in_core I ballot P (fun b p => sc I P b [p]) (all_projects I) JR.Plain W.
Proof. exact gen_is_in_core_ok. Qed.
Print Assumptions C14gen_is_in_core_ok.

Theorem C14gen_is_strong_EJR_cardinal_ok :
  forall I (P : list ballot) (sc : py_satclass_l),
  (forall b X, sc I P b X == Qsum (map (fun p => sc I P b [p]) X)) -> forall W,
  gen_is_strong_EJR_cardinal I P W sc = Cohesive.is_strong_EJR_cardinal I ballot P bget (fun b p => sc I P b [p]) (all_projects I) W.
Proof. exact gen_is_strong_EJR_cardinal_ok. Qed.
Print Assumptions C14gen_is_strong_EJR_cardinal_ok.

Theorem C14gen_is_EJR_cardinal_ok :
  forall I (P : list ballot) (sc : py_satclass_l),
  (forall b X, sc I P b X == Qsum (map (fun p => sc I P b [p]) X)) -> forall W,
  gen_is_EJR_cardinal I P W sc = Cohesive.is_EJR_cardinal I ballot P bget (fun b p => sc I P b [p]) (all_projects I) JR.Plain W.
Proof. exact gen_is_EJR_cardinal_ok. Qed.
Print Assumptions C14gen_is_EJR_cardinal_ok.

Theorem C14gen_is_EJR_any_cardinal_ok :
  forall I (P : list ballot) (sc : py_satclass_l),
  (forall b X, sc I P b X == Qsum (map (fun p => sc I P b [p]) X)) -> forall W,
  gen_is_EJR_any_cardinal sc I P W = Cohesive.is_EJR_cardinal I ballot P bget (fun b p => sc I P b [p]) (all_projects I) JR.UpToAny W.
Proof. exact gen_is_EJR_any_cardinal_ok. Qed.
Print Assumptions C14gen_is_EJR_any_cardinal_ok.

Theorem C14gen_is_EJR_one_cardinal_ok :
  forall I (P : list ballot) (sc : py_satclass_l),
  (forall b X, sc I P b X == Qsum (map (fun p => sc I P b [p]) X)) -> forall W,
  gen_is_EJR_one_cardinal sc I P W = Cohesive.is_EJR_cardinal I ballot P bget (fun b p => sc I P b [p]) (all_projects I) JR.UpToOne W.
Proof. exact gen_is_EJR_one_cardinal_ok. Qed.
Print Assumptions C14gen_is_EJR_one_cardinal_ok.

Theorem C14gen_is_EJR_cardinal_default_class :
  gen_is_EJR_any_cardinal_classes = ["Additive_Cardinal_Sat"%string] /\
  gen_is_EJR_one_cardinal_classes = ["Additive_Cardinal_Sat"%string].
Proof. exact gen_is_EJR_cardinal_default_class. Qed.
Print Assumptions C14gen_is_EJR_cardinal_default_class.

Theorem C14gen_is_PJR_cardinal_ok :
  forall I (P : list ballot) W,
  gen_is_PJR_cardinal I P W = Cohesive.is_PJR_cardinal I ballot P bget (all_projects I) JR.Plain W.
Proof. exact gen_is_PJR_cardinal_ok. Qed.
Print Assumptions C14gen_is_PJR_cardinal_ok.

Theorem C14gen_is_PJR_any_cardinal_ok :
  forall I (P : list ballot) W,
  gen_is_PJR_any_cardinal I P W = Cohesive.is_PJR_cardinal I ballot P bget (all_projects I) JR.UpToAny W.
Proof. exact gen_is_PJR_any_cardinal_ok. Qed.
Print Assumptions C14gen_is_PJR_any_cardinal_ok.

Theorem C14gen_is_PJR_one_cardinal_ok :
  forall I (P : list ballot) W,
  gen_is_PJR_one_cardinal I P W = Cohesive.is_PJR_cardinal I ballot P bget (all_projects I) JR.UpToOne W.
Proof. exact gen_is_PJR_one_cardinal_ok. Qed.
Print Assumptions C14gen_is_PJR_one_cardinal_ok.

Theorem C14gen_jr_all_translated :
  gen_untranslated_jr = [].
Proof. exact gen_jr_all_translated. Qed.
Print Assumptions C14gen_jr_all_translated.

Theorem C14gen_approval_checkers_safe :
  forall I (P : list ballot) sc W T S gs nv c B,
  gen_is_large_enough_safe gs nv c B = true /\ gen_is_cohesive_approval_safe I P T S = true /\
  gen_cohesive_groups_safe I P = true /\ gen_is_in_core_safe I P sc W = true /\
  gen_is_strong_EJR_approval_safe I P sc W = true /\ gen_is_EJR_approval_safe I P sc W = true /\
  gen_is_EJR_any_approval_safe I P sc W = true /\ gen_is_EJR_one_approval_safe I P sc W = true /\
  gen_is_PJR_approval_safe I P sc W = true /\ gen_is_PJR_any_approval_safe I P sc W = true /\
  gen_is_PJR_one_approval_safe I P sc W = true.
Proof. exact gen_approval_checkers_safe. Qed.
Print Assumptions C14gen_approval_checkers_safe.
