(* Props/C07.v -- property C07 (correspondence half + trace invariants): the run recorded by the
   Equal Shares model (Model/MesRule.v: o_b0, o_trace, o_final -- what analytics=True records) is an
   exact price system.  Only statements closed by [exact]; proofs in Proofs/MesTrace.v. *)
From PB Require Import Model.MesRule Proofs.MesSweep Proofs.MesWf Proofs.MesBinary Proofs.MesTrace.
Open Scope Q_scope.

(* Every run of the inner algorithm from equal non-negative endowments b0 (plain rule: b0 = budget/n)
   records well-formed rounds that chain from (b0,...,b0) to the final budgets. *)
Theorem C07_run_recorded : forall x b0 o,
  wf_voters (mi_voters x) -> 0 <= b0 -> run_once_res x b0 = Some o ->
  o_b0 o = b0 /\
  Forall (round_ok (mi_voters x) (mi_costs x)) (o_trace o) /\
  chain (repeat b0 (length (mi_voters x))) (o_trace o) (o_final o) /\
  wf_buds (mi_voters x) (o_final o).
Proof. exact run_once_inv. Qed.
Print Assumptions C07_run_recorded.

(* M trace_start (plain rule): everybody starts with share = (budget - cost(initial allocation))/n >= 0
   (for a feasible initial allocation) and the multiplicities add up to n, so the endowments add up to
   budget - cost(initial allocation) -- the budget limit when the initial allocation is empty *)
Theorem C07_trace_start_share : forall x, tcost (mi_inst x) (mi_init x) <= mi_budget x -> 0 <= share x.
Proof. exact share_nonneg. Qed.
Print Assumptions C07_trace_start_share.

Theorem C07_trace_start_total : forall P, Qsum (map (vmulQ P) (seq 0 (length P))) == Qnat (nvoters P).
Proof. exact total_multiplicity. Qed.
Print Assumptions C07_trace_start_total.

(* M trace_start (iterated variant): the reported run is a run from equal endowments b >= budget/n *)
Theorem C07_trace_start_iterated : forall x inc, 0 <= inc -> forall fuel b0 prev o lo,
  lo <= b0 ->
  (forall p, prev = Some p -> exists b, lo <= b /\ run_once_res x b = Some p) ->
  iter_res fuel x inc b0 prev = Some o -> exists b, lo <= b /\ run_once_res x b = Some o.
Proof. exact iter_res_inv. Qed.
Print Assumptions C07_trace_start_iterated.

(* M trace_only_supporters_pay *)
Theorem C07_trace_only_supporters_pay : forall P costs r, round_ok P costs r ->
  forall i, (i < length P)%nat -> ~ In i (supporters P (r_sel r)) -> vbud (r_after r) i = vbud (r_before r) i.
Proof. exact round_only_supporters. Qed.
Print Assumptions C07_trace_only_supporters_pay.

(* M trace_nobody_overpays *)
Theorem C07_trace_nobody_overpays : forall P costs r, round_ok P costs r ->
  forall i, (i < length P)%nat -> 0 <= vbud (r_after r) i /\ vbud (r_after r) i <= vbud (r_before r) i.
Proof. exact round_no_overpay. Qed.
Print Assumptions C07_trace_nobody_overpays.

(* M trace_equal_shares: one common rho = r_rho r > 0, every supporter pays min(own money, rho * own utility) *)
Theorem C07_trace_equal_shares : forall P costs r, round_ok P costs r ->
  0 < r_rho r /\
  forall i, In i (supporters P (r_sel r)) ->
  vbud (r_before r) i - vbud (r_after r) i == Qmin (vbud (r_before r) i) (r_rho r * vutil P i (r_sel r)).
Proof. exact round_common_rho. Qed.
Print Assumptions C07_trace_equal_shares.

(* M trace_conservation: multiplicity-weighted payments add up exactly to the cost *)
Theorem C07_trace_conservation : forall P costs r, round_ok P costs r ->
  Qsum (map (fun i => vmulQ P i * (vbud (r_before r) i - vbud (r_after r) i)) (seq 0 (length P)))
  == nth (r_sel r) costs 0.
Proof. exact round_conservation. Qed.
Print Assumptions C07_trace_conservation.

(* UNPROVED (M, DESIGN.md §4 C07)
   Theorem trace_final_unaffordable : forall x b0 o, wf_voters (mi_voters x) -> 0 <= b0 ->
     run_once_res x b0 = Some o ->
     forall mp, In mp (fst (built x)) -> ~ In (mp_id mp) (o_alloc o) ->
       avail (mi_voters x) (o_final o) mp < mp_cost mp.
   (needs: the last scan removes every remaining project (sweep never returns None on an affordable
   project: Proofs/MesWf.v eval_rho_spec) and projects removed in earlier rounds stay unaffordable
   because budgets only decrease: C07_trace_nobody_overpays.)
   Theorem mes_price_system : the payments read off the trace satisfy the declarative price-system
     conditions of C12 without exhaustiveness (depends on Spec/PriceSystem.v of C12).
   Until then both are checked per run by Oracle/C07.v on the implementation's record (codes 7, 9). *)

(* non-vacuity: a recorded run with two rounds, the second with a poor and a rich supporter *)
Example C07_nonvacuous :
  let P := [mkV [1; 1; 0] 1%nat; mkV [1; 0; 1] 2%nat; mkV [0; 1; 1] 1%nat] in
  let x := mkIn [2; 3; 3] 6 P (key_of_list [0; 2; 1]) [2; 0; 1]%nat false [] in
  match mes_resolute x with
  | Some o => o_b0 o = 3 # 2 /\ map r_sel (o_trace o) = [0; 2]%nat /\ map r_rho (o_trace o) = [2 # 3; 4 # 3]
              /\ o_final o = [5 # 6; 0; 1 # 6]
  | None => False
  end.
Proof. vm_compute. repeat split; reflexivity. Qed.
