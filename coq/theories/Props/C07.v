(* Props/C07.v -- property C07 (correspondence half + trace invariants): the run recorded by the
   Equal Shares model (Model/MesRule.v: o_b0, o_trace, o_final -- what analytics=True records) is an
   exact price system.  Only statements closed by [exact]; proofs in Proofs/MesTrace.v. *)
From PB Require Import Model.MesRule Proofs.MesSweep Proofs.MesWf Proofs.MesBinary Proofs.MesTrace
  Proofs.MesRun Proofs.MesFeasible Proofs.MesFinal Proofs.MesPrice Proofs.MesPriceExp.
From PB Require Spec.PriceSystem Model.Priceability.
Open Scope Q_scope.

(* Every run of the inner algorithm from equal non-negative endowments b0 (plain rule: b0 = budget/n)
   records well-formed rounds that chain from (b0,...,b0) to the final budgets. *)
Theorem C07_run_recorded : forall x b0 o,
  wf_voters (mi_voters x) -> 0 <= b0 -> run_once_res x b0 = Some o ->
  o_b0 o = b0 /\
  Forall (round_ok (mi_voters x) (mi_costs x)) (o_trace o) /\
  chain (repeat b0 (length (mi_voters x))) (o_trace o) (o_final o) /\
  wf_buds (mi_voters x) (o_final o).
Proof. exact run_once_inv. Qed.
Print Assumptions C07_run_recorded.

(* M trace_start (plain rule): everybody starts with share = (budget - cost(initial allocation))/n >= 0
   (for a feasible initial allocation) and the multiplicities add up to n, so the endowments add up to
   budget - cost(initial allocation) -- the budget limit when the initial allocation is empty *)
Theorem C07_trace_start_share : forall x, tcost (mi_inst x) (mi_init x) <= mi_budget x -> 0 <= share x.
Proof. exact share_nonneg. Qed.
Print Assumptions C07_trace_start_share.

Theorem C07_trace_start_total : forall P, Qsum (map (vmulQ P) (seq 0 (length P))) == Qnat (nvoters P).
Proof. exact total_multiplicity. Qed.
Print Assumptions C07_trace_start_total.

(* M trace_start (iterated variant): the reported run is a run from equal endowments b >= budget/n *)
Theorem C07_trace_start_iterated : forall x inc, 0 <= inc -> forall fuel b0 prev o lo,
  lo <= b0 ->
  (forall p, prev = Some p -> exists b, lo <= b /\ run_once_res x b = Some p) ->
  iter_res fuel x inc b0 prev = Some o -> exists b, lo <= b /\ run_once_res x b = Some o.
Proof. exact iter_res_inv. Qed.
Print Assumptions C07_trace_start_iterated.

(* M trace_only_supporters_pay *)
Theorem C07_trace_only_supporters_pay : forall P costs r, round_ok P costs r ->
  forall i, (i < length P)%nat -> ~ In i (supporters P (r_sel r)) -> vbud (r_after r) i = vbud (r_before r) i.
Proof. exact round_only_supporters. Qed.
Print Assumptions C07_trace_only_supporters_pay.

(* M trace_nobody_overpays *)
Theorem C07_trace_nobody_overpays : forall P costs r, round_ok P costs r ->
  forall i, (i < length P)%nat -> 0 <= vbud (r_after r) i /\ vbud (r_after r) i <= vbud (r_before r) i.
Proof. exact round_no_overpay. Qed.
Print Assumptions C07_trace_nobody_overpays.

(* M trace_equal_shares: one common rho = r_rho r > 0, every supporter pays min(own money, rho * own utility) *)
Theorem C07_trace_equal_shares : forall P costs r, round_ok P costs r ->
  0 < r_rho r /\
  forall i, In i (supporters P (r_sel r)) ->
  vbud (r_before r) i - vbud (r_after r) i == Qmin (vbud (r_before r) i) (r_rho r * vutil P i (r_sel r)).
Proof. exact round_common_rho. Qed.
Print Assumptions C07_trace_equal_shares.

(* M trace_conservation: multiplicity-weighted payments add up exactly to the cost *)
Theorem C07_trace_conservation : forall P costs r, round_ok P costs r ->
  Qsum (map (fun i => vmulQ P i * (vbud (r_before r) i - vbud (r_after r) i)) (seq 0 (length P)))
  == nth (r_sel r) costs 0.
Proof. exact round_conservation. Qed.
Print Assumptions C07_trace_conservation.

(* M trace_final_unaffordable: when the run stops, the supporters of every supported positive-cost
   candidate outside the allocation hold less than its cost (multiplicity-weighted), and the pool
   of the model is empty *)
Theorem C07_trace_final_unaffordable : forall x b0 o,
  wf_voters (mi_voters x) -> 0 <= b0 -> run_once_res x b0 = Some o ->
  (forall mp, In mp (fst (built x)) -> ~ In (mp_id mp) (o_alloc o) ->
     avail (mi_voters x) (o_final o) mp < mp_cost mp) /\
  o_left o = [].
Proof. exact trace_final_unaffordable. Qed.
Print Assumptions C07_trace_final_unaffordable.

(* M mes_price_system.  Setting: multiplicities 1 (a Profile; [all_ones]), empty initial allocation,
   an enumeration order listing every project once; "voter i approves c" := "i has positive utility
   for c" ([approvals x], Proofs/MesPrice.v); any utilities, costs >= 0, tie-breaking, binary_sat.
   The payments read off the trace -- [out_table x o]: entry (i, c) = the money voter i lost in the
   round that bought c -- with voter budget = the common endowment are a price system for the
   returned allocation in the sense of Spec/PriceSystem.v (C0a, P0, C1, C2, C3, C4 and C5 for EVERY
   project outside the allocation), without exhaustiveness. *)
Theorem C07_mes_price_system : forall x o,
  wf_inst (mi_inst x) /\ all_ones (mi_voters x) /\ mi_init x = [] /\
  NoDup (mi_enum x) /\ (forall p, In p (mi_enum x) <-> (p < length (mi_costs x))%nat) ->
  (1 <= nvoters (mi_voters x))%nat -> mes_resolute x = Some o ->
  PriceSystem.price_system (mi_inst x) (approvals x) (o_alloc o) (share x)
    (Priceability.pay_of (out_table x o)) false false.
Proof. exact mes_price_system. Qed.
Print Assumptions C07_mes_price_system.

(* the same for every run of the inner algorithm from a common endowment b0 >= 0 whose outcome
   respects the budget limit, and for the run reported by the iterated variant *)
Theorem C07_mes_price_system_run : forall x b0 o,
  price_hyps x -> 0 <= b0 -> run_once_res x b0 = Some o ->
  tcost (mi_inst x) (o_alloc o) <= mi_budget x ->
  PriceSystem.price_system (mi_inst x) (approvals x) (o_alloc o) b0
    (Priceability.pay_of (out_table x o)) false false.
Proof. exact mes_price_system_run. Qed.
Print Assumptions C07_mes_price_system_run.

Theorem C07_mes_iter_price_system : forall fuel x inc o,
  price_hyps x -> (1 <= nvoters (mi_voters x))%nat -> 0 <= inc -> mes_iter_resolute fuel x inc = Some o ->
  PriceSystem.price_system (mi_inst x) (approvals x) (o_alloc o) (o_b0 o)
    (Priceability.pay_of (out_table x o)) false false.
Proof. exact mes_iter_price_system. Qed.
Print Assumptions C07_mes_iter_price_system.

(* ... hence (C12_validate_complete, C12_witness_checker_complete) the mirror of the library's
   validate_price_system and the exact witness checker accept them *)
Theorem C07_mes_validate_ps : forall x o,
  price_hyps x -> (1 <= nvoters (mi_voters x))%nat -> mes_resolute x = Some o ->
  Priceability.validate_ps (mi_inst x) (approvals x) (o_alloc o) (share x) (out_table x o) false false = true /\
  Priceability.check_witness (mi_inst x) (approvals x) (o_alloc o) (share x) (out_table x o) false false = true.
Proof. exact mes_validate_ps. Qed.
Print Assumptions C07_mes_validate_ps.

Theorem C07_mes_iter_validate_ps : forall fuel x inc o,
  price_hyps x -> (1 <= nvoters (mi_voters x))%nat -> 0 <= inc -> mes_iter_resolute fuel x inc = Some o ->
  Priceability.validate_ps (mi_inst x) (approvals x) (o_alloc o) (o_b0 o) (out_table x o) false false = true.
Proof. exact mes_iter_validate_ps. Qed.
Print Assumptions C07_mes_iter_validate_ps.

(* M mes_price_system with multiplicities (a MultiProfile): on the EXPANDED profile ([expand]: vmul
   copies of every class, each with multiplicity 1; [appr_of] = approval sets "positive utility"),
   every copy of class i paying what class i pays per copy ([exp_table]), the trace is a price system
   for the returned allocation; [price_hyps_m] = price_hyps with "every multiplicity >= 1" instead of
   "= 1" *)
Theorem C07_mes_price_system_expanded : forall x b0 o,
  wf_inst (mi_inst x) /\ wf_voters (mi_voters x) /\ mi_init x = [] /\
  NoDup (mi_enum x) /\ (forall p, In p (mi_enum x) <-> (p < length (mi_costs x))%nat) ->
  0 <= b0 -> run_once_res x b0 = Some o ->
  tcost (mi_inst x) (o_alloc o) <= mi_budget x ->
  PriceSystem.price_system (mi_inst x) (appr_of (length (mi_costs x)) (expand (mi_voters x))) (o_alloc o) b0
    (Priceability.pay_of (exp_table x o)) false false.
Proof. exact mes_price_system_expanded. Qed.
Print Assumptions C07_mes_price_system_expanded.

Theorem C07_mes_price_system_multi : forall x o,
  price_hyps_m x -> (1 <= nvoters (mi_voters x))%nat -> mes_resolute x = Some o ->
  PriceSystem.price_system (mi_inst x) (appr_of (length (mi_costs x)) (expand (mi_voters x))) (o_alloc o) (share x)
    (Priceability.pay_of (exp_table x o)) false false /\
  Priceability.validate_ps (mi_inst x) (appr_of (length (mi_costs x)) (expand (mi_voters x))) (o_alloc o) (share x)
    (exp_table x o) false false = true.
Proof. exact mes_price_system_multi. Qed.
Print Assumptions C07_mes_price_system_multi.

(* non-vacuity: a recorded run with two rounds, the second with a poor and a rich supporter *)
Example C07_nonvacuous :
  let P := [mkV [1; 1; 0] 1%nat; mkV [1; 0; 1] 2%nat; mkV [0; 1; 1] 1%nat] in
  let x := mkIn [2; 3; 3] 6 P (key_of_list [0; 2; 1]) [2; 0; 1]%nat false [] in
  match mes_resolute x with
  | Some o => o_b0 o = 3 # 2 /\ map r_sel (o_trace o) = [0; 2]%nat /\ map r_rho (o_trace o) = [2 # 3; 4 # 3]
              /\ o_final o = [5 # 6; 0; 1 # 6]
  | None => False
  end.
Proof. vm_compute. repeat split; reflexivity. Qed.


(* non-vacuity of mes_price_system: hypotheses hold, the table is the expected one *)
Example C07_price_nonvacuous :
  let P := [mkV [1; 1; 0] 1%nat; mkV [1; 0; 1] 1%nat; mkV [0; 1; 1] 1%nat] in
  let x := mkIn [2; 3; 3] 6 P (key_of_list [0; 2; 1]) [2; 0; 1]%nat false [] in
  match mes_resolute x with
  | Some o => o_alloc o = [0; 2]%nat /\ out_table x o = [[1; 0; 0]; [1; 0; 1]; [0; 0; 2]]
              /\ approvals x = [[0; 1]; [0; 2]; [1; 2]]%nat
              /\ Priceability.validate_ps (mi_inst x) (approvals x) (o_alloc o) (share x) (out_table x o) false false = true
  | None => False
  end.
Proof. vm_compute. repeat split; reflexivity. Qed.

(* non-vacuity with a multiplicity: class 1 has two copies, each paying the class's per-copy share *)
Example C07_price_multi_nonvacuous :
  let P := [mkV [1; 1; 0] 1%nat; mkV [1; 0; 1] 2%nat; mkV [0; 1; 1] 1%nat] in
  let x := mkIn [2; 3; 3] 6 P (key_of_list [0; 2; 1]) [2; 0; 1]%nat false [] in
  match mes_resolute x with
  | Some o => map (map Qred) (exp_table x o) = [[2 # 3; 0; 0]; [2 # 3; 0; 5 # 6]; [2 # 3; 0; 5 # 6]; [0; 0; 4 # 3]]
              /\ appr_of 3 (expand P) = [[0; 1]; [0; 2]; [0; 2]; [1; 2]]%nat
              /\ Priceability.validate_ps (mi_inst x) (appr_of 3 (expand P)) (o_alloc o) (share x) (exp_table x o) false false = true
  | None => False
  end.
Proof. vm_compute. repeat split; reflexivity. Qed.
