(* Props/C02.v -- property C02: the Method of Equal Shares selects exactly what its definition
   prescribes.  Only statements closed by [exact]; the proofs live in Proofs/Mes*.v.
   Vocabulary: Model/MesRule.v (mirror of mes_rule.py), Spec/MesSpec.v (textbook),
   Proofs/MesSweep.v ([paidl], [tu], [tbud], [wfs], [kle], [rich], [is_rho_l], [poorer]). *)
From PB Require Import Model.MesRule Spec.MesSpec Proofs.MesSweep Proofs.MesLazy Proofs.MesWf
  Proofs.MesBinary Proofs.MesTrace Proofs.MesRefine.
Open Scope Q_scope.

(* M sweep_spec: on supporters sorted by budget/utility who can afford the project, the sweep of
   mes_inner_algo returns a positive rho at which the capped payments cover the cost EXACTLY, and at
   which somebody is still rich *)
Theorem C02_sweep_spec : forall cost l,
  0 < cost -> Forall wfs l -> StronglySorted kle l -> cost <= tbud l ->
  exists rho, sweep cost 0 (tu l) l = Some rho /\ 0 < rho /\ paidl rho l == cost
           /\ exists s, In s l /\ rich rho s.
Proof. exact sweep_spec. Qed.
Print Assumptions C02_sweep_spec.

(* M rho_sweep_least: ... and it is the LEAST rho whose payments cover the cost *)
Theorem C02_rho_sweep_least : forall cost l,
  0 < cost -> Forall wfs l -> StronglySorted kle l -> cost <= tbud l ->
  exists rho, sweep cost 0 (tu l) l = Some rho /\ 0 < rho /\ paidl rho l == cost
           /\ forall rho', cost <= paidl rho' l -> rho <= rho'.
Proof. exact sweep_least. Qed.
Print Assumptions C02_rho_sweep_least.

(* the generalised invariant of the loop (running contribution and denominator) *)
Theorem C02_sweep_invariant : forall cost, 0 < cost -> forall l contrib denom,
  Forall wfs l -> StronglySorted kle l -> denom == tu l ->
  0 <= contrib -> contrib < cost -> cost <= contrib + tbud l ->
  exists rho, sweep cost contrib denom l = Some rho /\ 0 < rho
           /\ contrib + paidl rho l == cost
           /\ cost - contrib <= rho * denom
           /\ exists s, In s l /\ rich rho s.
Proof. exact sweep_inv. Qed.
Print Assumptions C02_sweep_invariant.

(* the same, for a project of the MODEL and in the words of the SPEC: whichever path is taken
   (per-voter utilities or binary shortcut, any stored order of the supporters, multiplicities), the
   evaluation of an affordable project returns the least rho of the textbook definition *)
Theorem C02_model_rho_is_spec_rho : forall P costs buds mp,
  wf_voters P -> wf_buds P buds -> wf_mp P costs mp ->
  affordable costs P buds (mp_id mp) ->
  exists a0, eval_rho P buds mp (sorted_sup P buds mp) = Some a0 /\ is_rho costs P buds (mp_id mp) a0.
Proof. exact eval_rho_is_rho. Qed.
Print Assumptions C02_model_rho_is_spec_rho.

(* a project removed by the scan is unaffordable in the sense of the spec *)
Theorem C02_removed_unaffordable : forall P costs buds mp,
  wf_mp P costs mp -> Qltb (avail P buds mp) (mp_cost mp) = true -> ~ affordable costs P buds (mp_id mp).
Proof. exact removed_unaffordable. Qed.
Print Assumptions C02_removed_unaffordable.

(* the MESProjects built by the scheme satisfy the invariant used above *)
Theorem C02_construction_wf : forall P costs bin enum,
  Forall (wf_mp P costs) (fst (mk_projects P costs bin enum)).
Proof. exact mk_projects_wf. Qed.
Print Assumptions C02_construction_wf.

(* M paid_perm: payments do not depend on the order of the supporters (voter order, classes) *)
Theorem C02_paid_perm : forall rho l l', Permutation l l' -> paidl rho l == paidl rho l'.
Proof. exact paid_perm. Qed.
Print Assumptions C02_paid_perm.

(* ... hence any two sorted arrangements give the same rho (ties in the sort key are harmless) *)
Theorem C02_sweep_perm : forall cost l l',
  0 < cost -> Forall wfs l -> StronglySorted kle l -> StronglySorted kle l' -> Permutation l l' ->
  cost <= tbud l ->
  exists r r', sweep cost 0 (tu l) l = Some r /\ sweep cost 0 (tu l') l' = Some r' /\ r == r'.
Proof. exact sweep_perm. Qed.
Print Assumptions C02_sweep_perm.

(* M rho_monotone: with less money the least rho can only go up, so a cached affordability is a
   lower bound of the current one; the initial value cost/total_sat is one too *)
Theorem C02_rho_monotone : forall cost l' l r' r,
  0 < cost -> Forall wfs l -> poorer l' l -> is_rho_l cost l' r' -> is_rho_l cost l r -> r <= r'.
Proof. exact rho_monotone. Qed.
Print Assumptions C02_rho_monotone.

Theorem C02_rho_ge_initial : forall cost l rho, Forall wfs l -> cost <= paidl rho l -> cost <= rho * tu l.
Proof. exact rho_ge_initial. Qed.
Print Assumptions C02_rho_ge_initial.

(* M lazy_round_eq_eager: when every cached affordability is a lower bound of the current rho, the
   scan over the projects sorted by cache with its early `break` returns the same best affordability
   and the same tied projects (same order) as evaluating every project *)
Theorem C02_lazy_round_eq_eager : forall P buds l best tied,
  StronglySorted aff_le l -> cache_lb P buds l ->
  st2 (scan P buds l best tied) = eager P buds l best tied.
Proof. exact lazy_scan_eq_eager. Qed.
Print Assumptions C02_lazy_round_eq_eager.

(* the eager evaluation returns a lower bound of every remaining project's rho *)
Theorem C02_eager_best_le : forall P buds l best tied,
  Qx_le (fst (eager P buds l best tied)) best /\
  forall mp a0, In mp l -> cur_rho P buds mp = Some a0 -> Qx_le (fst (eager P buds l best tied)) (Fin a0).
Proof. exact eager_best_le. Qed.
Print Assumptions C02_eager_best_le.

(* M binary_sweep_ok: the binary shortcut evaluates a project exactly like the general path when
   the supporters' utilities agree (which the repaired construction guarantees: C02_construction_wf) *)
Theorem C02_binary_sweep_ok : forall P costs buds mp s,
  wf_mp P costs mp -> (forall i, In i s -> In i (supporters P (mp_id mp))) ->
  opt_Qeq (eval_rho P buds mp s) (eval_rho P buds (no_shortcut mp) s).
Proof. exact binary_sweep_ok. Qed.
Print Assumptions C02_binary_sweep_ok.

(* ... and the hypothesis is needed: storing the first supporter's utility for supporters with
   different utilities (the code before repair R3) changes the result *)
Theorem C02_binary_sweep_refuted :
  exists P buds mp s u0,
    mp_usat mp = Some u0 /\ u0 = vutil P (hd O (mp_sup mp)) (mp_id mp) /\
    (forall i, In i s -> In i (supporters P (mp_id mp))) /\
    ~ opt_Qeq (eval_rho P buds mp s) (eval_rho P buds (no_shortcut mp) s).
Proof. exact binary_sweep_refuted. Qed.
Print Assumptions C02_binary_sweep_refuted.

(* UNPROVED (M, DESIGN.md §4 C02)
   Theorem mes_model_refines_spec : forall x o,
     wf_voters (mi_voters x) -> 0 <= mi_budget x -> NoDup (mi_enum x) ->
     (forall p, In p (mi_enum x) <-> (p < length (mi_costs x))%nat) ->
     mes_resolute x = Some o ->
     exists W, spec_run (mi_costs x) (mi_voters x) (mi_tb x)
                        (repeat (share x) (length (mi_voters x))) (pool of x) W
               /\ set_eq (o_alloc o) (mi_init x ++ zeros of x ++ W).
   What is proved towards it: every evaluation is the spec's least rho (C02_model_rho_is_spec_rho),
   removed projects are unaffordable (C02_removed_unaffordable), the lazy scan equals the eager one
   under cache_lb (C02_lazy_round_eq_eager), the run keeps all projects well formed
   (Proofs/MesTrace.v run_res_inv).  Missing: preservation of cache_lb across rounds (from
   C02_rho_monotone / C02_rho_ge_initial), the characterisation of the eager tied list as the argmin set,
   and the assembly into a spec_run.
   UNPROVED (S): mes_spec_perm_voters, mes_spec_scale; correctness of the executable rho_interp
   (Spec/MesSpec.v) w.r.t. is_rho -- the oracle compares with rho_interp, which is validated against
   the proved sweep only by the per-run evaluation (model = spec on every generated case). *)

(* non-vacuity: a concrete run (multiplicity 2, second round with a poor and a rich supporter, one
   project left unaffordable) on which the textbook spec agrees with the model; a sweep that skips
   a poor supporter *)
Example C02_nonvacuous :
  let P := [mkV [1; 1; 0] 1%nat; mkV [1; 0; 1] 2%nat; mkV [0; 1; 1] 1%nat] in
  let x := mkIn [2; 3; 3] 6 P (key_of_list [0; 2; 1]) [2; 0; 1]%nat false [] in
  option_map o_alloc (mes_resolute x) = Some [0; 2]%nat /\
  mes_spec (mkSpecIn [2; 3; 3] 6 P (key_of_list [0; 2; 1]) []) = Some [0; 2]%nat /\
  sweep 3 0 2 [mkSup (1 # 2) 1 1; mkSup 3 1 1] = Some (5 # 2).
Proof. vm_compute. repeat split; reflexivity. Qed.
