(* Props/C02.v -- property C02: the Method of Equal Shares selects exactly what its definition
   prescribes.  Only statements closed by [exact]; the proofs live in Proofs/Mes*.v.
   Vocabulary: Model/MesRule.v (mirror of mes_rule.py), Spec/MesSpec.v (textbook),
   Proofs/MesSweep.v ([paidl], [tu], [tbud], [wfs], [kle], [rich], [is_rho_l], [poorer]). *)
From PB Require Import Model.MesRule Spec.MesSpec Proofs.MesSweep Proofs.MesLazy Proofs.MesWf
  Proofs.MesBinary Proofs.MesTrace Proofs.MesRefine Proofs.MesRun Proofs.MesFeasible Proofs.MesFinal
  Proofs.MesSpecRun Proofs.MesInterp Proofs.MesSpecExec Proofs.MesIrrSpec Proofs.MesIterSpec.
Open Scope Q_scope.

(* M sweep_spec: on supporters sorted by budget/utility who can afford the project, the sweep of
   mes_inner_algo returns a positive rho at which the capped payments cover the cost EXACTLY, and at
   which somebody is still rich *)
Theorem C02_sweep_spec : forall cost l,
  0 < cost -> Forall wfs l -> StronglySorted kle l -> cost <= tbud l ->
  exists rho, sweep cost 0 (tu l) l = Some rho /\ 0 < rho /\ paidl rho l == cost
           /\ exists s, In s l /\ rich rho s.
Proof. exact sweep_spec. Qed.
Print Assumptions C02_sweep_spec.

(* M rho_sweep_least: ... and it is the LEAST rho whose payments cover the cost *)
Theorem C02_rho_sweep_least : forall cost l,
  0 < cost -> Forall wfs l -> StronglySorted kle l -> cost <= tbud l ->
  exists rho, sweep cost 0 (tu l) l = Some rho /\ 0 < rho /\ paidl rho l == cost
           /\ forall rho', cost <= paidl rho' l -> rho <= rho'.
Proof. exact sweep_least. Qed.
Print Assumptions C02_rho_sweep_least.

(* the generalised invariant of the loop (running contribution and denominator) *)
Theorem C02_sweep_invariant : forall cost, 0 < cost -> forall l contrib denom,
  Forall wfs l -> StronglySorted kle l -> denom == tu l ->
  0 <= contrib -> contrib < cost -> cost <= contrib + tbud l ->
  exists rho, sweep cost contrib denom l = Some rho /\ 0 < rho
           /\ contrib + paidl rho l == cost
           /\ cost - contrib <= rho * denom
           /\ exists s, In s l /\ rich rho s.
Proof. exact sweep_inv. Qed.
Print Assumptions C02_sweep_invariant.

(* the same, for a project of the MODEL and in the words of the SPEC: whichever path is taken
   (per-voter utilities or binary shortcut, any stored order of the supporters, multiplicities), the
   evaluation of an affordable project returns the least rho of the textbook definition *)
Theorem C02_model_rho_is_spec_rho : forall P costs buds mp,
  wf_voters P -> wf_buds P buds -> wf_mp P costs mp ->
  affordable costs P buds (mp_id mp) ->
  exists a0, eval_rho P buds mp (sorted_sup P buds mp) = Some a0 /\ is_rho costs P buds (mp_id mp) a0.
Proof. exact eval_rho_is_rho. Qed.
Print Assumptions C02_model_rho_is_spec_rho.

(* a project removed by the scan is unaffordable in the sense of the spec *)
Theorem C02_removed_unaffordable : forall P costs buds mp,
  wf_mp P costs mp -> Qltb (avail P buds mp) (mp_cost mp) = true -> ~ affordable costs P buds (mp_id mp).
Proof. exact removed_unaffordable. Qed.
Print Assumptions C02_removed_unaffordable.

(* the MESProjects built by the scheme satisfy the invariant used above *)
Theorem C02_construction_wf : forall P costs bin enum,
  Forall (wf_mp P costs) (fst (mk_projects P costs bin enum)).
Proof. exact mk_projects_wf. Qed.
Print Assumptions C02_construction_wf.

(* M paid_perm: payments do not depend on the order of the supporters (voter order, classes) *)
Theorem C02_paid_perm : forall rho l l', Permutation l l' -> paidl rho l == paidl rho l'.
Proof. exact paid_perm. Qed.
Print Assumptions C02_paid_perm.

(* ... hence any two sorted arrangements give the same rho (ties in the sort key are harmless) *)
Theorem C02_sweep_perm : forall cost l l',
  0 < cost -> Forall wfs l -> StronglySorted kle l -> StronglySorted kle l' -> Permutation l l' ->
  cost <= tbud l ->
  exists r r', sweep cost 0 (tu l) l = Some r /\ sweep cost 0 (tu l') l' = Some r' /\ r == r'.
Proof. exact sweep_perm. Qed.
Print Assumptions C02_sweep_perm.

(* M rho_monotone: with less money the least rho can only go up, so a cached affordability is a
   lower bound of the current one; the initial value cost/total_sat is one too *)
Theorem C02_rho_monotone : forall cost l' l r' r,
  0 < cost -> Forall wfs l -> poorer l' l -> is_rho_l cost l' r' -> is_rho_l cost l r -> r <= r'.
Proof. exact rho_monotone. Qed.
Print Assumptions C02_rho_monotone.

Theorem C02_rho_ge_initial : forall cost l rho, Forall wfs l -> cost <= paidl rho l -> cost <= rho * tu l.
Proof. exact rho_ge_initial. Qed.
Print Assumptions C02_rho_ge_initial.

(* M lazy_round_eq_eager: when every cached affordability is a lower bound of the current rho, the
   scan over the projects sorted by cache with its early `break` returns the same best affordability
   and the same tied projects (same order) as evaluating every project *)
Theorem C02_lazy_round_eq_eager : forall P buds l best tied,
  StronglySorted aff_le l -> cache_lb P buds l ->
  st2 (scan P buds l best tied) = eager P buds l best tied.
Proof. exact lazy_scan_eq_eager. Qed.
Print Assumptions C02_lazy_round_eq_eager.

(* the eager evaluation returns a lower bound of every remaining project's rho *)
Theorem C02_eager_best_le : forall P buds l best tied,
  Qx_le (fst (eager P buds l best tied)) best /\
  forall mp a0, In mp l -> cur_rho P buds mp = Some a0 -> Qx_le (fst (eager P buds l best tied)) (Fin a0).
Proof. exact eager_best_le. Qed.
Print Assumptions C02_eager_best_le.

(* M binary_sweep_ok: the binary shortcut evaluates a project exactly like the general path when
   the supporters' utilities agree (which the repaired construction guarantees: C02_construction_wf) *)
Theorem C02_binary_sweep_ok : forall P costs buds mp s,
  wf_mp P costs mp -> (forall i, In i s -> In i (supporters P (mp_id mp))) ->
  opt_Qeq (eval_rho P buds mp s) (eval_rho P buds (no_shortcut mp) s).
Proof. exact binary_sweep_ok. Qed.
Print Assumptions C02_binary_sweep_ok.

(* ... and the hypothesis is needed: storing the first supporter's utility for supporters with
   different utilities (the code before repair R3) changes the result *)
Theorem C02_binary_sweep_refuted :
  exists P buds mp s u0,
    mp_usat mp = Some u0 /\ u0 = vutil P (hd O (mp_sup mp)) (mp_id mp) /\
    (forall i, In i s -> In i (supporters P (mp_id mp))) /\
    ~ opt_Qeq (eval_rho P buds mp s) (eval_rho P buds (no_shortcut mp) s).
Proof. exact binary_sweep_refuted. Qed.
Print Assumptions C02_binary_sweep_refuted.

(* the invariant behind the lazy cut-off: the cached affordability of a pooled project is a lower
   bound of EVERY rho covering its cost at the current budgets ([LB], Proofs/MesSpecRun.v).  It holds
   of the initial value cost/total_sat, of every re-evaluated project, survives payments (budgets
   only decrease), and implies [cache_lb] *)
Theorem C02_cache_initial : forall P cs buds mp,
  wf_voters P -> wf_buds P buds -> wf_mp P cs mp ->
  0 < mp_tsat mp -> mp_aff mp * mp_tsat mp == mp_cost mp -> LB P cs buds mp.
Proof. exact LB_init. Qed.
Print Assumptions C02_cache_initial.

Theorem C02_cache_after_scan : forall P cs buds projects best tied projects',
  wf_voters P -> wf_buds P buds -> Forall (wf_mp P cs) projects -> Forall (LB P cs buds) projects ->
  round_scan P buds projects = (best, tied, projects') -> Forall (LB P cs buds) projects'.
Proof. exact round_scan_LB. Qed.
Print Assumptions C02_cache_after_scan.

Theorem C02_cache_monotone : forall P cs b b' mp,
  0 < nth (mp_id mp) cs 0 -> (forall i, (i < length P)%nat -> vbud b' i <= vbud b i) ->
  LB P cs b mp -> LB P cs b' mp.
Proof. exact LB_mono. Qed.
Print Assumptions C02_cache_monotone.

Theorem C02_cache_lb : forall P cs buds l,
  wf_voters P -> wf_buds P buds -> Forall (wf_mp P cs) l -> Forall (LB P cs buds) l -> cache_lb P buds l.
Proof. exact LB_cache. Qed.
Print Assumptions C02_cache_lb.

(* the eager scan returns exactly the argmin: every returned project was evaluated and has the
   returned rho; every project with that rho is returned *)
Theorem C02_eager_sound : forall P buds (L : list mproj) l best tied,
  incl l L ->
  (forall x, In x tied -> exists mp a0, In mp L /\ cur_rho P buds mp = Some a0 /\ x = tmk P buds mp a0 /\ Qx_eq (Fin a0) best) ->
  forall x, In x (snd (eager P buds l best tied)) ->
    exists mp a0, In mp L /\ cur_rho P buds mp = Some a0 /\ x = tmk P buds mp a0 /\
                  Qx_eq (Fin a0) (fst (eager P buds l best tied)).
Proof. exact eager_sound. Qed.
Print Assumptions C02_eager_sound.

Theorem C02_eager_complete : forall P buds l best tied,
  (forall x, In x tied -> Qx_eq best (fst (eager P buds l best tied)) -> In x (snd (eager P buds l best tied))) /\
  (forall mp a0, In mp l -> cur_rho P buds mp = Some a0 -> Qx_eq (Fin a0) (fst (eager P buds l best tied)) ->
     In (tmk P buds mp a0) (snd (eager P buds l best tied))).
Proof. exact eager_complete. Qed.
Print Assumptions C02_eager_complete.

(* name-sort + stable tie-break sort of the tied MESProjects = tie_order of the name-sorted names *)
Theorem C02_pick_order_is_tie_order : forall tb tied,
  ids (pick_order tb tied) = tie_order tb (name_sort (ids tied)).
Proof. exact pick_ids. Qed.
Print Assumptions C02_pick_order_is_tie_order.

(* one round of the model is one round of the textbook rule, and the link between the model's pool
   and the spec's candidate list ([Ref]) is kept *)
Theorem C02_round_refines : forall P cs tb buds projects rem rho tied projects' sel rest,
  wf_voters P -> Ref P cs buds projects rem ->
  round_scan P buds projects = (Fin rho, tied, projects') -> pick_order tb tied = sel :: rest ->
  spec_round cs P tb buds rem (mp_id sel) rho /\
  Ref P cs (pay P sel rho buds) (remove_proj (mp_id sel) projects')
      (filter (fun q => negb (Nat.eqb q (mp_id sel))) rem).
Proof. exact round_refines. Qed.
Print Assumptions C02_round_refines.

(* M mes_model_refines_spec: for every election (any utilities, multiplicities >= 1, costs, budget,
   feasible-cost initial allocation), every tie-breaking key, enumeration order and binary_sat flag,
   the purchases of the model are a run of the textbook rule from the same endowments on the
   spec's pool, and the outcome is initial allocation + the spec's zero-cost projects + purchases *)
Theorem C02_mes_model_refines_spec : forall x o,
  wf_voters (mi_voters x) -> tcost (mi_inst x) (mi_init x) <= mi_budget x -> NoDup (mi_enum x) ->
  (forall p, In p (mi_enum x) <-> (p < length (mi_costs x))%nat) ->
  mes_resolute x = Some o ->
  exists W, spec_run (mi_costs x) (mi_voters x) (mi_tb x)
                     (repeat (share x) (length (mi_voters x))) (si_pool (spec_of x)) W /\
            set_eq (o_alloc o) (mi_init x ++ si_zeros (spec_of x) ++ W).
Proof. exact mes_model_refines_spec. Qed.
Print Assumptions C02_mes_model_refines_spec.

(* the same for every run of the inner algorithm from a common endowment b0 >= 0 (the runs of the
   iterated variant), with the order of the outcome *)
Theorem C02_run_once_refines_spec : forall x b0 o,
  wf_voters (mi_voters x) -> 0 <= b0 -> NoDup (mi_enum x) ->
  (forall p, In p (mi_enum x) <-> (p < length (mi_costs x))%nat) ->
  run_once_res x b0 = Some o ->
  exists Z W, spec_run (mi_costs x) (mi_voters x) (mi_tb x)
                       (repeat b0 (length (mi_voters x))) (si_pool (spec_of x)) W /\
              o_alloc o = mi_init x ++ Z ++ W /\ Permutation Z (si_zeros (spec_of x)).
Proof. exact run_once_refines_spec. Qed.
Print Assumptions C02_run_once_refines_spec.

Theorem C02_share_is_spec_share : forall x, share x == si_share (spec_of x).
Proof. exact share_is_si_share. Qed.
Print Assumptions C02_share_is_spec_share.

(* rho_interp_is_rho: the spec's EXECUTABLE least-rho computation (interpolation between adjacent
   breakpoints -- what the oracle evaluates) returns the least rho of the declarative definition *)
Theorem C02_rho_interp_is_rho : forall cs P b p,
  wf_voters P -> wf_buds P b -> 0 < s_cost cs p -> affordable cs P b p ->
  exists r, rho_interp cs P b p = Some r /\ is_rho cs P b p r.
Proof. exact rho_interp_is_rho. Qed.
Print Assumptions C02_rho_interp_is_rho.

(* the EXECUTABLE textbook rule (what the oracle evaluates) against the declarative one: sound,
   total with the fuel mes_spec uses, and the declarative rule is deterministic (budgets up to ==;
   [beq], [SInv]: Proofs/MesSpecExec.v) *)
Theorem C02_spec_exec_sound : forall cs P tb, wf_voters P -> forall fuel b rem W,
  SInv cs P b rem -> spec_exec cs P tb fuel b rem = Some W -> spec_run cs P tb b rem W.
Proof. exact spec_exec_sound. Qed.
Print Assumptions C02_spec_exec_sound.

Theorem C02_spec_exec_total : forall cs P tb fuel b rem,
  (length rem < fuel)%nat -> spec_exec cs P tb fuel b rem <> None.
Proof. exact spec_exec_total. Qed.
Print Assumptions C02_spec_exec_total.

Theorem C02_spec_run_deterministic : forall cs P tb b rem W, spec_run cs P tb b rem W ->
  forall b2 W', beq b b2 -> spec_run cs P tb b2 rem W' -> W = W'.
Proof. exact spec_run_det. Qed.
Print Assumptions C02_spec_run_deterministic.

(* ... hence: the model of the implementation and the executable textbook rule select the same set,
   for every election, tie-breaking key, enumeration order, multiplicities, binary_sat flag and
   (budget-respecting) initial allocation *)
Theorem C02_mes_model_eq_spec : forall x o,
  wf_voters (mi_voters x) -> tcost (mi_inst x) (mi_init x) <= mi_budget x -> NoDup (mi_enum x) ->
  (forall p, In p (mi_enum x) <-> (p < length (mi_costs x))%nat) ->
  mes_resolute x = Some o ->
  exists W', mes_spec (spec_of x) = Some W' /\ set_eq (o_alloc o) W'.
Proof. exact mes_model_eq_spec. Qed.
Print Assumptions C02_mes_model_eq_spec.

(* ---- the IRRESOLUTE model and the budget-increase loop (Proofs/MesIrrSpec.v, Proofs/MesIterSpec.v) ---- *)

(* the leaves of the irresolute recursion are exactly the name-sorted outcomes of the runs of the textbook
   rule in which ANY project of the argmin set may be bought ([spec_run_any]) *)
Theorem C02_run_irr_spec : forall P cs tb, wf_voters P -> forall fuel buds projects acc rem L,
  Ref P cs buds projects rem -> run_irr fuel P tb buds projects acc = Some L ->
  forall X, In X L <-> exists W, spec_run_any cs P buds rem W /\ X = sort_alloc (acc ++ W).
Proof. exact run_irr_spec. Qed.
Print Assumptions C02_run_irr_spec.

Theorem C02_run_once_irr_spec : forall x b0 L,
  wf_voters (mi_voters x) -> 0 <= b0 -> NoDup (mi_enum x) ->
  (forall p, In p (mi_enum x) <-> (p < length (mi_costs x))%nat) ->
  run_once_irr x b0 = Some L ->
  forall X, In X L <->
    exists W, spec_run_any (mi_costs x) (mi_voters x) (repeat b0 (length (mi_voters x))) (si_pool (spec_of x)) W /\
              X = sort_alloc (mi_init x ++ si_zeros (spec_of x) ++ W).
Proof. exact run_once_irr_spec. Qed.
Print Assumptions C02_run_once_irr_spec.

(* the executable irresolute spec enumerates exactly those runs, with the fuel mes_spec_all uses *)
Theorem C02_spec_exec_all_spec : forall cs P, wf_voters P -> forall fuel b rem L,
  SInv cs P b rem -> spec_exec_all cs P fuel b rem = Some L ->
  forall W, In W L <-> spec_run_any cs P b rem W.
Proof. exact spec_exec_all_spec. Qed.
Print Assumptions C02_spec_exec_all_spec.

Theorem C02_spec_exec_all_total : forall cs P fuel b rem,
  (length rem < fuel)%nat -> spec_exec_all cs P fuel b rem <> None.
Proof. exact spec_exec_all_total. Qed.
Print Assumptions C02_spec_exec_all_total.

(* M (irresolute): the model and the executable textbook rule return the same set of sets *)
Theorem C02_mes_irresolute_eq_spec : forall x L,
  wf_voters (mi_voters x) -> tcost (mi_inst x) (mi_init x) <= mi_budget x -> NoDup (mi_enum x) ->
  (forall p, In p (mi_enum x) <-> (p < length (mi_costs x))%nat) ->
  mes_irresolute x = Some L ->
  exists L', mes_spec_all (spec_of x) = Some L' /\
             forall X, In X L <-> exists Y, In Y L' /\ X = sort_alloc Y.
Proof. exact mes_irresolute_eq_spec. Qed.
Print Assumptions C02_mes_irresolute_eq_spec.

(* M (iterated, voter_budget_increment = inc >= 0, any outer fuel): the loops of the model and of the
   executable textbook rule take the same decisions in every pass: both return the same set (set of
   sets), or both run out of the outer fuel ([orel]/[orel_all], Proofs/MesIterSpec.v) *)
Theorem C02_mes_iter_eq_spec : forall x,
  wf_voters (mi_voters x) -> NoDup (mi_enum x) -> (forall p, In p (mi_enum x) <-> (p < length (mi_costs x))%nat) ->
  forall fuel inc, 0 <= inc -> tcost (mi_inst x) (mi_init x) <= mi_budget x ->
  orel (mes_iter_resolute fuel x inc) (mes_spec_iter fuel (spec_of x) inc).
Proof. exact mes_iter_eq_spec. Qed.
Print Assumptions C02_mes_iter_eq_spec.

Theorem C02_mes_iter_irresolute_eq_spec : forall x,
  wf_voters (mi_voters x) -> NoDup (mi_enum x) -> (forall p, In p (mi_enum x) <-> (p < length (mi_costs x))%nat) ->
  forall fuel inc, 0 <= inc -> tcost (mi_inst x) (mi_init x) <= mi_budget x ->
  orel_all (mes_iter_irresolute fuel x inc) (mes_spec_iter_all fuel (spec_of x) inc).
Proof. exact mes_iter_irr_eq_spec. Qed.
Print Assumptions C02_mes_iter_irresolute_eq_spec.

(* (S) mes_spec_perm_voters, mes_spec_scale: proved by the C13 development (Props/C13.v); classes vs
   expanded voters: Props/C06mes.v. *)

(* non-vacuity: a concrete run (multiplicity 2, second round with a poor and a rich supporter, one
   project left unaffordable) on which the textbook spec agrees with the model; a sweep that skips
   a poor supporter *)
Example C02_nonvacuous :
  let P := [mkV [1; 1; 0] 1%nat; mkV [1; 0; 1] 2%nat; mkV [0; 1; 1] 1%nat] in
  let x := mkIn [2; 3; 3] 6 P (key_of_list [0; 2; 1]) [2; 0; 1]%nat false [] in
  option_map o_alloc (mes_resolute x) = Some [0; 2]%nat /\
  mes_spec (mkSpecIn [2; 3; 3] 6 P (key_of_list [0; 2; 1]) []) = Some [0; 2]%nat /\
  sweep 3 0 2 [mkSup (1 # 2) 1 1; mkSup 3 1 1] = Some (5 # 2).
Proof. vm_compute. repeat split; reflexivity. Qed.
