(* Props/C01mes.v -- property C01, Equal Shares part: every outcome of the Equal Shares model
   (Model/MesRule.v: plain and iterated, resolute and irresolute) is a feasible set of distinct
   instance projects containing the initial allocation, and the model's own fuel suffices.
   Only statements closed by [exact]; proofs in Proofs/MesRun.v, Proofs/MesFeasible.v.
   [mes_hyps x] := wf_inst (non-negative costs, positive budget) /\ every voter class has
   multiplicity >= 1 /\ at least one voter /\ the initial allocation is feasible /\ the enumeration
   order lists distinct projects of the instance.  Tie-breaking key, enumeration order, utilities,
   multiplicities and binary_sat are arbitrary. *)
From PB Require Import Model.MesRule Proofs.MesWf Proofs.MesRun Proofs.MesFeasible.
Open Scope Q_scope.

(* M mes_feasible (resolute) *)
Theorem C01_mes_feasible : forall x o,
  wf_inst (mi_inst x) /\ wf_voters (mi_voters x) /\ (1 <= nvoters (mi_voters x))%nat /\
  feasible (mi_inst x) (mi_init x) /\
  NoDup (mi_enum x) /\ (forall p, In p (mi_enum x) -> (p < length (mi_costs x))%nat) ->
  mes_resolute x = Some o ->
  feasible (mi_inst x) (o_alloc o) /\ incl (mi_init x) (o_alloc o).
Proof. exact mes_feasible. Qed.
Print Assumptions C01_mes_feasible.

(* M mes_feasible (irresolute: every element of the returned list) *)
Theorem C01_mes_irresolute_feasible : forall x L,
  wf_inst (mi_inst x) /\ wf_voters (mi_voters x) /\ (1 <= nvoters (mi_voters x))%nat /\
  feasible (mi_inst x) (mi_init x) /\
  NoDup (mi_enum x) /\ (forall p, In p (mi_enum x) -> (p < length (mi_costs x))%nat) ->
  mes_irresolute x = Some L ->
  forall W, In W L -> feasible (mi_inst x) W /\ incl (mi_init x) W.
Proof. exact mes_irr_feasible. Qed.
Print Assumptions C01_mes_irresolute_feasible.

(* M mes_total: the recursion never runs out of the fuel the model gives it (number of supported
   positive-cost candidates + 1), for every input whatsoever and every endowment *)
Theorem C01_mes_total : forall x,
  (exists o, mes_resolute x = Some o) /\ (exists L, mes_irresolute x = Some L).
Proof. exact mes_total. Qed.
Print Assumptions C01_mes_total.

Theorem C01_mes_run_total : forall x b0, run_once_res x b0 <> None /\ run_once_irr x b0 <> None.
Proof. exact (fun x b0 => conj (run_once_res_total x b0) (run_once_irr_total x b0)). Qed.
Print Assumptions C01_mes_run_total.

(* M mes_feasible (iterated variants, voter_budget_increment = inc of any sign, any fuel of the
   outer loop): the returned outcome *)
Theorem C01_mes_iterated_feasible : forall fuel x inc o,
  feasible (mi_inst x) (mi_init x) ->
  NoDup (mi_enum x) -> (forall p, In p (mi_enum x) -> (p < length (mi_costs x))%nat) ->
  mes_iter_resolute fuel x inc = Some o ->
  feasible (mi_inst x) (o_alloc o) /\ incl (mi_init x) (o_alloc o).
Proof. exact mes_iter_feasible. Qed.
Print Assumptions C01_mes_iterated_feasible.

Theorem C01_mes_iterated_irresolute_feasible : forall fuel x inc L,
  feasible (mi_inst x) (mi_init x) ->
  NoDup (mi_enum x) -> (forall p, In p (mi_enum x) -> (p < length (mi_costs x))%nat) ->
  mes_iter_irresolute fuel x inc = Some L ->
  forall W, In W L -> feasible (mi_inst x) W /\ incl (mi_init x) W.
Proof. exact mes_iter_irr_feasible. Qed.
Print Assumptions C01_mes_iterated_irresolute_feasible.

(* the money invariant behind it: a purchase takes exactly the cost out of the voters' pockets,
   which never go below zero *)
Theorem C01_mes_money_invariant : forall P tb cs B s s',
  wf_voters P -> Mon P cs B s -> step P tb s s' -> Mon P cs B s'.
Proof. exact step_Mon. Qed.
Print Assumptions C01_mes_money_invariant.

(* non-vacuity: the hypotheses hold of a concrete election with an initial allocation, a zero-cost
   project and multiplicity 2; the outcome contains the initial allocation and the free project *)
Example C01mes_nonvacuous :
  let P := [mkV [1; 1; 0; 1] 1%nat; mkV [1; 0; 1; 1] 2%nat; mkV [0; 1; 1; 0] 1%nat] in
  let x := mkIn [2; 3; 3; 0] 8 P (key_of_list [0; 2; 1; 3]) [2; 3; 0; 1]%nat false [1]%nat in
  option_map o_alloc (mes_resolute x) = Some [1; 3; 0]%nat /\
  mes_irresolute x = Some [[0; 1; 3]%nat].
Proof. vm_compute. split; reflexivity. Qed.
