(* Props/C20.v -- property C20: rules and analyses leave their inputs untouched.
   WEAK theorem half: the statements below are about HAND-MADE effect summaries of the entry points
   (Model/Effects.v: which objects each entry point copies, allocates and writes, and which objects it
   passes on by reference to other entry points).  They show that these summaries write only into
   objects allocated by the call itself, hence leave every caller-owned object caller-visibly unchanged.
   Whether the summaries are faithful to the Python is decided by the snapshot correspondence of
   ./check C20, not here.  Only statements closed by [exact]; proofs in Proofs/EffectsP.v. *)
From PB Require Import Model.Effects Proofs.EffectsP.
Open Scope Q_scope.

(* frame theorem of the effect language, for ANY table of programs that write only into their own objects *)
Theorem C20_exec_frame : forall progs, (forall f, local_only (progs f) = true) ->
  forall fuel n args p locals s,
  local_only p = true ->
  (forall l, In l locals -> (n <= l)%nat) ->
  (n <= length s)%nat ->
  (length s <= length (exec fuel progs args p locals s))%nat /\
  caller_view n (exec fuel progs args p locals s) = caller_view n s.
Proof. exact exec_frame. Qed.
Print Assumptions C20_exec_frame.

(* every shipped effect summary is such a program *)
Theorem C20_summaries_local : forall f, local_only (progs f) = true.
Proof. exact progs_local. Qed.
Print Assumptions C20_summaries_local.

(* entry_X_pure, for all entry points X at once: whatever caller-owned objects exist (the first n cells of the
   store, n arbitrary) and whichever of them are passed as arguments, the caller's view is unchanged *)
Theorem C20_entry_pure : forall f s args n, (n <= length s)%nat ->
  caller_view n (entry f s args) = caller_view n s.
Proof. exact entry_pure. Qed.
Print Assumptions C20_entry_pure.

(* ... and per entry point, as the design lists them *)
Theorem C20_entry_greedy_pure : forall s args, caller_view (length s) (entry E_greedy s args) = caller_view (length s) s.
Proof. exact (fun s args => entry_pure E_greedy s args (length s) (le_n _)). Qed.
Print Assumptions C20_entry_greedy_pure.
Theorem C20_entry_maxwelfare_pure : forall s args, caller_view (length s) (entry E_maxwelfare s args) = caller_view (length s) s.
Proof. exact (fun s args => entry_pure E_maxwelfare s args (length s) (le_n _)). Qed.
Print Assumptions C20_entry_maxwelfare_pure.
Theorem C20_entry_mes_pure : forall s args, caller_view (length s) (entry E_mes s args) = caller_view (length s) s.
Proof. exact (fun s args => entry_pure E_mes s args (length s) (le_n _)). Qed.
Print Assumptions C20_entry_mes_pure.
Theorem C20_entry_mes_iter_pure : forall s args, caller_view (length s) (entry E_mes_iter s args) = caller_view (length s) s.
Proof. exact (fun s args => entry_pure E_mes_iter s args (length s) (le_n _)). Qed.
Print Assumptions C20_entry_mes_iter_pure.
Theorem C20_entry_phragmen_pure : forall s args, caller_view (length s) (entry E_phragmen s args) = caller_view (length s) s.
Proof. exact (fun s args => entry_pure E_phragmen s args (length s) (le_n _)). Qed.
Print Assumptions C20_entry_phragmen_pure.
Theorem C20_entry_completion_pure : forall s args, caller_view (length s) (entry E_completion s args) = caller_view (length s) s.
Proof. exact (fun s args => entry_pure E_completion s args (length s) (le_n _)). Qed.
Print Assumptions C20_entry_completion_pure.
Theorem C20_entry_increase_pure : forall s args, caller_view (length s) (entry E_increase s args) = caller_view (length s) s.
Proof. exact (fun s args => entry_pure E_increase s args (length s) (le_n _)). Qed.
Print Assumptions C20_entry_increase_pure.
Theorem C20_entry_popularity_pure : forall s args, caller_view (length s) (entry E_popularity s args) = caller_view (length s) s.
Proof. exact (fun s args => entry_pure E_popularity s args (length s) (le_n _)). Qed.
Print Assumptions C20_entry_popularity_pure.
Theorem C20_entry_swc_pure : forall s args, caller_view (length s) (entry E_swc s args) = caller_view (length s) s.
Proof. exact (fun s args => entry_pure E_swc s args (length s) (le_n _)). Qed.
Print Assumptions C20_entry_swc_pure.
Theorem C20_entry_sat_pure : forall s args, caller_view (length s) (entry E_sat s args) = caller_view (length s) s.
Proof. exact (fun s args => entry_pure E_sat s args (length s) (le_n _)). Qed.
Print Assumptions C20_entry_sat_pure.
Theorem C20_entry_analysis_pure : forall s args, caller_view (length s) (entry E_readonly s args) = caller_view (length s) s.
Proof. exact (fun s args => entry_pure E_readonly s args (length s) (le_n _)). Qed.
Print Assumptions C20_entry_analysis_pure.
Theorem C20_entry_eff_support_pure : forall s args, caller_view (length s) (entry E_eff_support s args) = caller_view (length s) s.
Proof. exact (fun s args => entry_pure E_eff_support s args (length s) (le_n _)). Qed.
Print Assumptions C20_entry_eff_support_pure.
Theorem C20_entry_eff_supports_pure : forall s args, caller_view (length s) (entry E_eff_supports s args) = caller_view (length s) s.
Proof. exact (fun s args => entry_pure E_eff_supports s args (length s) (le_n _)). Qed.
Print Assumptions C20_entry_eff_supports_pure.
Theorem C20_entry_project_loss_pure : forall s args, caller_view (length s) (entry E_project_loss s args) = caller_view (length s) s.
Proof. exact (fun s args => entry_pure E_project_loss s args (length s) (le_n _)). Qed.
Print Assumptions C20_entry_project_loss_pure.

(* histories: any sequence of calls sharing the same objects *)
Theorem C20_sequence_pure : forall fs s args n, (n <= length s)%nat ->
  caller_view n (fold_left (fun s f => entry f s args) fs s) = caller_view n s.
Proof. exact entry_sequence_pure. Qed.
Print Assumptions C20_sequence_pure.

(* memo_transparent: a cache that is a sub-graph of the score function returns the function's value and stays a
   sub-graph -- which is why the caches are not part of the caller's view *)
Theorem C20_memo_transparent : forall f cache p, subgraph f cache ->
  fst (get_project_sat f cache p) = f p /\ subgraph f (snd (get_project_sat f cache p)).
Proof. exact memo_transparent. Qed.
Print Assumptions C20_memo_transparent.

(* non-vacuity: the language CAN express a write to the caller, the local-only test rejects it, and the
   caller's view then does change (the documented final_budget override of calculate_effective_supports);
   a memo fill on a caller-owned object changes its cache but not its view *)
Example C20_nonvacuous :
  let s := [mkCell (T 1 [T 5 [Lq 3]]) []; mkCell (T 2 []) []; mkCell (T 3 []) []] in
  local_only (progs_with_override E_eff_supports_final_budget) = false /\
  caller_view 3 (exec call_depth progs_with_override [0; 1; 2]%nat
                   (progs_with_override E_eff_supports_final_budget) [] s) <> caller_view 3 s /\
  caller_view 3 (entry E_increase s [0; 1; 2; 1; 2]%nat) = caller_view 3 s /\
  length (entry E_increase s [0; 1; 2; 1; 2]%nat) = 20%nat /\
  map memo (firstn 3 (entry E_sat s [0; 1; 2]%nat)) = [[]; []; [(0%nat, 0)]].
Proof. vm_compute. repeat split; try reflexivity. discriminate. Qed.
