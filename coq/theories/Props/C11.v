(* Props/C11.v -- property C11: Pabulib files parse to the election they describe and round-trip losslessly.
   Only statements closed by [exact]; the proofs live in Proofs/PabulibP.v; the model in Model/PabulibM.v. *)
From PB Require Import Model.PabulibM Proofs.PabulibP Proofs.PabulibRT Proofs.PabulibNum.
Open Scope list_scope.

(* M csv_roundtrip.  The character-level codec (csv.writer with delimiter ';', minimal quoting, doubled quotes,
   line terminator LF  followed by  str.splitlines + csv.reader) is lossless on EVERY table of cells, for any
   number of rows and any cell contents -- separators, quotes, blanks, empty cells, empty rows, a row that is one
   empty cell -- provided no cell contains a line-break character (LF VT FF CR FS GS RS: where splitlines cuts). *)
Theorem C11_csv_roundtrip : forall rows, rows_no_linebreak rows -> csv_split (csv_join rows) = rows.
Proof. exact csv_roundtrip. Qed.
Print Assumptions C11_csv_roundtrip.

(* the side condition cannot be dropped: the writer quotes a line feed, the reader loses it *)
Theorem C11_csv_roundtrip_linebreak_refuted : exists rows, csv_split (csv_join rows) <> rows.
Proof. exact csv_roundtrip_needs_no_linebreak. Qed.
Print Assumptions C11_csv_roundtrip_linebreak_refuted.

(* M parse_faithful (header).  Whatever the number text functions are: in a parsed election the budget is the
   number written under 'budget' (decimal comma accepted), the vote type is the one written, and every legal
   limit is the number written under its key unless that number is the format's default (min_length 1,
   max_length >= number of projects, min_* 0, max_sum_cost >= budget, max_points = max_sum_points), in which
   case -- and when the key is absent -- there is no limit; limits of other vote types are absent. *)
Theorem C11_parse_faithful : forall read_num read_nat rows e,
  parse_rows read_num read_nat rows = Some e -> header_faithful read_num read_nat e.
Proof. exact parse_faithful. Qed.
Print Assumptions C11_parse_faithful.

Theorem C11_parse_faithful_max_cost : forall read_num read_nat rows e t q,
  parse_rows read_num read_nat rows = Some e -> e_vtype e = Approval ->
  lookup $"max_sum_cost" (e_meta e) = Some t -> read_num t = Some q ->
  (q < e_budget e -> e_max_cost e = Some q)%Q /\ (e_budget e <= q -> e_max_cost e = None)%Q.
Proof. exact parse_faithful_max_cost. Qed.
Print Assumptions C11_parse_faithful_max_cost.

Theorem C11_parse_faithful_lengths : forall read_num read_nat rows e,
  parse_rows read_num read_nat rows = Some e ->
  (forall t n, lookup $"min_length" (e_meta e) = Some t -> read_nat t = Some n ->
     e_min_len e = if Nat.eqb 1 n then None else Some n)
  /\ (forall t n, lookup $"max_length" (e_meta e) = Some t -> read_nat t = Some n ->
     e_max_len e = if Nat.leb (List.length (e_projects e)) n then None else Some n)
  /\ (lookup $"min_length" (e_meta e) = None -> e_min_len e = None)
  /\ (lookup $"max_length" (e_meta e) = None -> e_max_len e = None).
Proof. exact parse_faithful_lengths. Qed.
Print Assumptions C11_parse_faithful_lengths.

(* M parse_faithful (project rows): the name is the first cell, the cost the number in the 'cost' column *)
Theorem C11_parse_project_row_faithful : forall read_num header row p,
  parse_project_row read_num header row = Some p ->
  p_name p = strip (hd [] row)
  /\ exists t, lookup K_cost (p_meta p) = Some t /\ read_num (replace_comma t) = Some (p_cost p).
Proof. exact parse_project_row_faithful. Qed.
Print Assumptions C11_parse_project_row_faithful.

(* the list-valued cells (vote, points, category, target): a non-empty list of comma-free items is recovered
   from its joined text, and the empty list from the empty cell *)
Theorem C11_split_join : forall c l,
  l <> [] -> Forall (no_char c) l -> split_on c (join_with c l) = l.
Proof. exact split_join. Qed.
Print Assumptions C11_split_join.

Theorem C11_split_list_cell_join : forall l,
  (l <> [] -> Forall (no_char c_comma) l /\ strip (join_with c_comma l) <> []) ->
  split_list_cell (join_with c_comma l) = l.
Proof. exact split_list_cell_join. Qed.
Print Assumptions C11_split_list_cell_join.

(* M parse_write_roundtrip.  For ANY number-text functions that read back what they write as a clean cell
   (hypotheses num_text / nat_text, stated as premises) and every well-formed election e -- any number of
   projects, ballots, metadata columns, any of the four vote types, multiplicities, limits -- parsing the rows
   the writer model produces gives exactly [canon e]: the META block as derived by the writer, every project with
   name, exact cost, categories, targets and its metadata re-ordered by column, every ballot (a ballot of
   multiplicity m as m ballots) with its content, points and voter metadata plus the voter_id the writer assigns,
   and the limits with the format defaults normalised to 'no limit'. *)
Theorem C11_parse_write_roundtrip :
  forall (show_num : Q -> str) (read_num : str -> option Q) (show_nat : nat -> str) (read_nat : str -> option nat),
  (forall q, Qcanon q = true ->
     read_num (show_num q) = Some q /\ cell_ok (show_num q) = true /\ no_comma (show_num q) = true
     /\ show_num q <> []) ->
  (forall n, read_nat (show_nat n) = Some n /\ cell_ok (show_nat n) = true /\ not_keyword (show_nat n) = true) ->
  forall e, wf_electionb show_num read_num show_nat read_nat e = true ->
    parse_rows read_num read_nat (write_rows show_num show_nat e) = Some (canon show_num show_nat e).
Proof. exact parse_write_roundtrip. Qed.
Print Assumptions C11_parse_write_roundtrip.

(* the number text used for execution -- str(int), and str(mpq) = 'n' or 'n/d' of a reduced fraction, read back
   by read_nat_dec / read_q_dec -- satisfies both hypotheses: they are discharged, not assumed *)
Theorem C11_nat_text_dec : forall n,
  read_nat_dec (show_nat_dec n) = Some n /\ cell_ok (show_nat_dec n) = true
  /\ not_keyword (show_nat_dec n) = true.
Proof. exact nat_text_dec. Qed.
Print Assumptions C11_nat_text_dec.

Theorem C11_num_text_dec : forall q, Qcanon q = true ->
  read_q_dec (show_q_dec q) = Some q /\ cell_ok (show_q_dec q) = true
  /\ no_comma (show_q_dec q) = true /\ show_q_dec q <> [].
Proof. exact num_text_dec. Qed.
Print Assumptions C11_num_text_dec.

(* hence, for the executable instance, without any hypothesis on number text *)
Theorem C11_parse_write_roundtrip_x : forall e,
  wf_election_x e = true -> parse_rows_x (write_rows_x e) = Some (canon_x e).
Proof. exact parse_write_roundtrip_x. Qed.
Print Assumptions C11_parse_write_roundtrip_x.

(* and through the character-level codec (C11_csv_roundtrip): the FILE the writer model produces parses to
   [canon e], provided no cell of it contains a line-break character *)
Theorem C11_parse_file_roundtrip_x : forall e,
  wf_election_x e = true -> rows_no_linebreak (write_rows_x e) ->
  parse_file_x (write_file_x e) = Some (canon_x e).
Proof. exact parse_file_roundtrip_x. Qed.
Print Assumptions C11_parse_file_roundtrip_x.

(* the same, stated on ELECTIONS: it is enough that no name, key or value of e contains a line-break character
   (decidable: no_linebreak_election; the complement of the recorded finding c11_linebreak_in_string) *)
Theorem C11_parse_file_roundtrip_election_x : forall e,
  wf_election_x e = true -> no_linebreak_election e = true ->
  parse_file_x (write_file_x e) = Some (canon_x e).
Proof. exact parse_file_roundtrip_election_x. Qed.
Print Assumptions C11_parse_file_roundtrip_election_x.

(* the loop that is executed and extracted (ballots consed in front, reversed once at the end: linear in the
   number of votes) computes what the loop of the proofs computes *)
Theorem C11_parse_rows_spec : forall read_num read_nat rows,
  parse_rows read_num read_nat rows
  = obind (parse_loop read_num SecNone [] (mkPstate [] [] []) rows) (finish read_num read_nat).
Proof. exact parse_rows_spec. Qed.
Print Assumptions C11_parse_rows_spec.

(* M roundtrip_idempotent.  The normal form of a well-formed election is again well-formed, and a SECOND
   write/parse round trip returns it unchanged up to the order of dictionary entries: [election_equiv]
   (Proofs/PabulibRT.v) demands Leibniz equality of budget, vote type, every limit, and -- project by project,
   ballot by ballot, in order -- of names, costs, categories, targets, voted projects, points and
   multiplicities, and [Permutation] of the entry lists of the META dictionary, of each project's metadata and
   of each ballot's metadata (= Python dict equality).  Leibniz equality of the META list itself does not hold:
   a limit entry that has become a default is emitted at the end of the block by the next write. *)
Theorem C11_canon_wf :
  forall (show_num : Q -> str) (read_num : str -> option Q) (show_nat : nat -> str) (read_nat : str -> option nat),
  (forall q, Qcanon q = true ->
     read_num (show_num q) = Some q /\ cell_ok (show_num q) = true /\ no_comma (show_num q) = true
     /\ show_num q <> []) ->
  (forall n, read_nat (show_nat n) = Some n /\ cell_ok (show_nat n) = true /\ not_keyword (show_nat n) = true) ->
  forall e, wf_electionb show_num read_num show_nat read_nat e = true ->
    wf_electionb show_num read_num show_nat read_nat (canon show_num show_nat e) = true.
Proof. exact canon_wf. Qed.
Print Assumptions C11_canon_wf.

Theorem C11_roundtrip_idempotent :
  forall (show_num : Q -> str) (read_num : str -> option Q) (show_nat : nat -> str) (read_nat : str -> option nat),
  (forall q, Qcanon q = true ->
     read_num (show_num q) = Some q /\ cell_ok (show_num q) = true /\ no_comma (show_num q) = true
     /\ show_num q <> []) ->
  (forall n, read_nat (show_nat n) = Some n /\ cell_ok (show_nat n) = true /\ not_keyword (show_nat n) = true) ->
  forall e, wf_electionb show_num read_num show_nat read_nat e = true ->
    let e1 := canon show_num show_nat e in
    parse_rows read_num read_nat (write_rows show_num show_nat e) = Some e1
    /\ wf_electionb show_num read_num show_nat read_nat e1 = true
    /\ exists e2, parse_rows read_num read_nat (write_rows show_num show_nat e1) = Some e2
                  /\ election_equiv e2 e1.
Proof. exact roundtrip_idempotent. Qed.
Print Assumptions C11_roundtrip_idempotent.

Theorem C11_roundtrip_idempotent_x : forall e,
  wf_election_x e = true ->
  let e1 := canon_x e in
  parse_rows_x (write_rows_x e) = Some e1
  /\ wf_election_x e1 = true
  /\ exists e2, parse_rows_x (write_rows_x e1) = Some e2 /\ election_equiv e2 e1.
Proof. exact roundtrip_idempotent_x. Qed.
Print Assumptions C11_roundtrip_idempotent_x.

(* the equivalence is what it says: equal fields, permuted dictionaries *)
Theorem C11_election_equiv_spec : forall a b, election_equiv a b ->
  Permutation.Permutation (e_meta a) (e_meta b)
  /\ Forall2 (fun p q => p_name p = p_name q /\ p_cost p = p_cost q /\ p_cats p = p_cats q
                         /\ p_targets p = p_targets q /\ Permutation.Permutation (p_meta p) (p_meta q))
             (e_projects a) (e_projects b)
  /\ e_budget a = e_budget b /\ e_vtype a = e_vtype b
  /\ Forall2 (fun x y => b_projects x = b_projects y /\ b_points x = b_points y /\ b_mult x = b_mult y
                         /\ Permutation.Permutation (b_meta x) (b_meta y))
             (e_ballots a) (e_ballots b)
  /\ e_min_len a = e_min_len b /\ e_max_len a = e_max_len b
  /\ e_min_cost a = e_min_cost b /\ e_max_cost a = e_max_cost b
  /\ e_min_total a = e_min_total b /\ e_max_total a = e_max_total b
  /\ e_min_score a = e_min_score b /\ e_max_score a = e_max_score b.
Proof. exact election_equiv_spec. Qed.
Print Assumptions C11_election_equiv_spec.

(* non-vacuity: a concrete election of the model with separators and quotes in names and metadata, a decimal
   cost, a cost limit below the budget and a default length limit; it is well-formed, its round trip through
   write_rows/csv_join/csv_split/parse_rows is literally [canon e], and the parsed header is the written one *)
Definition C11_example : election :=
  mkElection [($"description", $"a;b ""c"""); ($"k;1", $"x, y")]
    [mkProject $"p;1" (5 # 2) [$"green space"] [] [($"name", $"say ""hi""; twice")];
     mkProject $"q""2" 3 [] [] []]
    (7 # 2) Approval
    [mkBallot [$"p;1"; $"q""2"] [] [($"age", $"30")] 2; mkBallot [$"q""2"] [] [($"voter_id", $"v;9")] 1]
    (Some 1%nat) None None (Some 3%Q) None None None None.

Example C11_nonvacuous :
  wf_election_x C11_example = true /\ no_linebreak_election C11_example = true
  /\ parse_file_x (write_file_x C11_example) = Some (canon_x C11_example)
  /\ rows_no_linebreak (write_rows_x C11_example)
  /\ option_map e_max_cost (parse_file_x (write_file_x C11_example)) = Some (Some 3%Q)
  /\ option_map e_min_len (parse_file_x (write_file_x C11_example)) = Some None
  /\ option_map (fun e => List.length (e_ballots e)) (parse_file_x (write_file_x C11_example)) = Some 3%nat.
Proof.
  split; [vm_compute; reflexivity|]. split; [vm_compute; reflexivity|]. split; [vm_compute; reflexivity|].
  split; [apply rows_no_linebreak_dec; vm_compute; reflexivity|].
  vm_compute. repeat split; reflexivity.
Qed.
