(* Props/C09gen.v -- property C09, tied to the SOURCE: the state-passing translations of
   completion_by_rule_combination and exhaustion_by_budget_increase (pabutools/rules/exhaustion.py), regenerated on
   every run into Generated/PyCtrl.v by harness/vharness/pytrans_ctrl.py, EQUAL the hand models of Model/Exhaustion.v
   that Props/C09.v and Props/C09rules.v are about -- for every wrapped rule and every input.  Only statements
   closed by [exact]; proofs in Proofs/PyCtrlP.v.
   [rule k b a] = what the wrapped rule returns for the keyword dictionary k, an instance with the projects of the
   caller's instance and budget limit b, and the initial allocation a; [rule_proper] = it cannot tell 2/4 from 1/2.
   Results: [Ok v] returned, [Raise e] raised, [OutOfFuel] the while loop did not finish within the fuel. *)
From Coq Require Import String.
From PB Require Import Model.PyCtrlPrims Model.Exhaustion Generated.PyCtrl Proofs.PyCtrlLib Proofs.PyCtrlP.
Open Scope Q_scope.

(* exhaustion_by_budget_increase, resolute: for EVERY fuel the generated function is the model's retry loop; the tests
   are against the ORIGINAL instance I, the rule is called with the increased budget, the caller's keyword dictionary
   with resoluteness=True and the (copied) initial allocation *)
Theorem C09gen_increase_res : forall (X SC : Type) (rule : py_rule X py_alloc) (I : inst) (prof : py_cprofile SC)
    okw oinit stop ostep obound fuel,
  rule_proper rule ->
  gen_exhaustion_by_budget_increase_res I prof rule okw oinit stop ostep obound fuel =
  match increase_res I (fun b => rule (py_kw_set_res (kw_or_empty okw) true) b (alloc_or_empty oinit))
          (alloc_or_empty oinit) stop (step_or_default I ostep) (bound_or_default I (cp_num_ballots prof) obound) fuel with
  | Some (_, W) => Ok W
  | None => OutOfFuel
  end.
Proof. exact @gen_increase_res_eq. Qed.
Print Assumptions C09gen_increase_res.

Theorem C09gen_increase_irr : forall (X SC : Type) (rule : py_rule X (list py_alloc)) (I : inst) (prof : py_cprofile SC)
    okw oinit stop ostep obound fuel,
  rule_proper rule ->
  gen_exhaustion_by_budget_increase_irr I prof rule okw oinit stop ostep obound fuel =
  match increase_irr I (fun b => rule (py_kw_set_res (kw_or_empty okw) false) b (alloc_or_empty oinit))
          (alloc_or_empty oinit) stop (step_or_default I ostep) (bound_or_default I (cp_num_ballots prof) obound) fuel with
  | Some (_, W) => Ok W
  | None => OutOfFuel
  end.
Proof. exact @gen_increase_irr_eq. Qed.
Print Assumptions C09gen_increase_irr.

(* sufficient fuel: with step > 0 the loop makes at most ntries = floor((bound - B)/step) + 1 tries *)
Theorem C09gen_increase_res_fuel : forall (X SC : Type) (rule : py_rule X py_alloc) (I : inst) (prof : py_cprofile SC)
    okw oinit stop ostep obound fuel,
  rule_proper rule -> 0 < step_or_default I ostep ->
  (fuel > ntries (budget I) (step_or_default I ostep) (bound_or_default I (cp_num_ballots prof) obound))%nat ->
  exists k W,
    increase_res I (fun b => rule (py_kw_set_res (kw_or_empty okw) true) b (alloc_or_empty oinit))
      (alloc_or_empty oinit) stop (step_or_default I ostep) (bound_or_default I (cp_num_ballots prof) obound) fuel = Some (k, W) /\
    gen_exhaustion_by_budget_increase_res I prof rule okw oinit stop ostep obound fuel = Ok W.
Proof. exact @gen_increase_res_fuel. Qed.
Print Assumptions C09gen_increase_res_fuel.

Theorem C09gen_increase_irr_fuel : forall (X SC : Type) (rule : py_rule X (list py_alloc)) (I : inst) (prof : py_cprofile SC)
    okw oinit stop ostep obound fuel,
  rule_proper rule -> 0 < step_or_default I ostep ->
  (fuel > ntries (budget I) (step_or_default I ostep) (bound_or_default I (cp_num_ballots prof) obound))%nat ->
  exists k Ws,
    increase_irr I (fun b => rule (py_kw_set_res (kw_or_empty okw) false) b (alloc_or_empty oinit))
      (alloc_or_empty oinit) stop (step_or_default I ostep) (bound_or_default I (cp_num_ballots prof) obound) fuel = Some (k, Ws) /\
    gen_exhaustion_by_budget_increase_irr I prof rule okw oinit stop ostep obound fuel = Ok Ws.
Proof. exact @gen_increase_irr_fuel. Qed.
Print Assumptions C09gen_increase_irr_fuel.

(* the excluded case: with step <= 0 and the budget within the bound the source's loop does not return unless a try
   stops (infeasible, or exhaustive with exhaustive_stop) *)
Theorem C09gen_increase_res_nonpositive_step : forall (X SC : Type) (rule : py_rule X py_alloc) (I : inst)
    (prof : py_cprofile SC) okw oinit stop ostep obound,
  rule_proper rule -> step_or_default I ostep <= 0 ->
  budget I <= bound_or_default I (cp_num_ballots prof) obound ->
  (forall k, let W := rule (py_kw_set_res (kw_or_empty okw) true) (try_budget (budget I) (step_or_default I ostep) k)
                           (alloc_or_empty oinit) in
             infeasible1 I W = false /\ exh1 I stop (all_projects I) W = false) ->
  forall fuel, gen_exhaustion_by_budget_increase_res I prof rule okw oinit stop ostep obound fuel = OutOfFuel.
Proof. exact @gen_increase_res_nonpositive_step. Qed.
Print Assumptions C09gen_increase_res_nonpositive_step.

(* completion_by_rule_combination, resolute: ValueError iff rule_params is given with another length than the rule
   sequence, or some dictionary sets "resoluteness" to False; otherwise the model's [complete_res] over the rules,
   each called on the ORIGINAL instance with its own dictionary, resoluteness=True and the outcome so far *)
Theorem C09gen_completion_res : forall (X SC : Type) (rules : list (py_rule X py_alloc)) (I : inst)
    (prof : py_cprofile SC) oparams oinit,
  gen_completion_by_rule_combination_res I prof rules oparams oinit =
  if bad_lengths rules oparams then Raise "ValueError"
  else if existsb (sets_other_res true) (kws_or_empty rules oparams) then Raise "ValueError"
  else Ok (complete_res I (map (fun rp => fst rp (py_kw_set_res (snd rp) true) (budget I))
                               (combine rules (kws_or_empty rules oparams))) (alloc_or_empty oinit)).
Proof. exact @gen_completion_res_eq. Qed.
Print Assumptions C09gen_completion_res.

Theorem C09gen_completion_irr : forall (X SC : Type) (rules : list (py_rule X (list py_alloc))) (I : inst)
    (prof : py_cprofile SC) oparams oinit,
  gen_completion_by_rule_combination_irr I prof rules oparams oinit =
  if bad_lengths rules oparams then Raise "ValueError"
  else if existsb (sets_other_res false) (kws_or_empty rules oparams) then Raise "ValueError"
  else Ok (completion_irr I (map (fun rp => fst rp (py_kw_set_res (snd rp) false) (budget I))
                                 (combine rules (kws_or_empty rules oparams))) (alloc_or_empty oinit)).
Proof. exact @gen_completion_irr_eq. Qed.
Print Assumptions C09gen_completion_irr.

(* aliasing (a piece of C20 tied to the source): no object of the caller -- instance, rule_params, the initial
   allocation -- is mutated in place through a local name; every mutated object is one the function created *)
Theorem C09gen_inputs_untouched :
  py_inputs_untouched gen_alias_completion_by_rule_combination_res = true /\
  py_inputs_untouched gen_alias_completion_by_rule_combination_irr = true /\
  py_inputs_untouched gen_alias_exhaustion_by_budget_increase_res = true /\
  py_inputs_untouched gen_alias_exhaustion_by_budget_increase_irr = true.
Proof. exact (conj alias_completion_res (conj alias_completion_irr (conj alias_increase_res alias_increase_irr))). Qed.
Print Assumptions C09gen_inputs_untouched.

Theorem C09gen_all_translated : gen_untranslated_exhaustion = [].
Proof. exact ctrl_all_translated. Qed.
Print Assumptions C09gen_all_translated.
