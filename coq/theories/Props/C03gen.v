(* Props/C03gen.v -- property C03, tied to the SOURCE: the state-passing translation of the additive fast path of the
   greedy rule (greedy_utilitarian_scheme_additive, pabutools/rules/greedywelfare/greedywelfare_rule.py; resolute --
   the irresolute call is delegated to the general scheme --, analytics off), regenerated on every run into
   Generated/PyCtrl.v by harness/vharness/pytrans_ctrl.py, EQUALS the hand model [greedy_add_res] of
   Model/GreedyRule.v that Props/C03.v is about (C03_greedy_add_eq_gen connects it to the general scheme).
   Only statements closed by [exact]; proofs in Proofs/PyCtrlGreedyP.v.
   sp p = sat_profile.total_satisfaction_project(p); tb = the key of the tie-breaking rule on the caller's instance and
   profile (tie_breaking.order = the stable sort by it, Props/TieGen.v); init = the initial budget allocation. *)
From Coq Require Import String.
From PB Require Import Model.PyCtrlPrims Model.GreedyRule Generated.PyCtrl Proofs.PyCtrlLib Proofs.PyCtrlGreedyP.
Open Scope Q_scope.

(* the whole function: name-sorted projects minus the initial allocation, reordered once by the tie-breaking, sorted
   once by (-density, position) with density = sp/cost, inf for cost <= 0, 0 for sp <= 0, then one pass taking
   whatever still fits the remaining budget *)
Theorem C03gen_greedy_additive : forall (SC : Type) (I : inst) (prof : py_cprofile SC) (sp : proj -> Q)
    (init : py_alloc) (tb : proj -> Q),
  NoDup init -> incl init (all_projects I) ->
  gen_greedy_utilitarian_scheme_additive I prof sp init tb = Ok (greedy_add_res I sp tb init).
Proof. exact @gen_greedy_add_ok. Qed.
Print Assumptions C03gen_greedy_additive.

(* `projects.remove(p)` for every p of the initial allocation: ValueError exactly when the initial allocation repeats a
   project or contains one that is not in the instance *)
Theorem C03gen_greedy_additive_raises : forall (SC : Type) (I : inst) (prof : py_cprofile SC) (sp : proj -> Q)
    (init : py_alloc) (tb : proj -> Q),
  gen_greedy_utilitarian_scheme_additive I prof sp init tb = Raise "ValueError" <->
  ~ (NoDup init /\ incl init (all_projects I)).
Proof. exact @gen_greedy_add_raises. Qed.
Print Assumptions C03gen_greedy_additive_raises.

(* the sort key of the source: on a duplicate-free list, sorting by the tuple (-k(p), xs.index(p)) -- or by the rank
   dictionary {p: i for i, p in enumerate(xs)} -- is the STABLE sort by decreasing k *)
Theorem C03gen_sort_key_index : forall (k : proj -> Qx) (l : list proj), NoDup l ->
  py_sorted_neg_then k (py_index_of l) l = py_sorted_neg k l /\
  py_sorted_neg_then k (py_last_index_of l) l = py_sorted_neg k l.
Proof. exact sort_key_nodup. Qed.
Print Assumptions C03gen_sort_key_index.

(* aliasing: the caller's initial allocation, instance and profile are not mutated; what is appended to / removed from
   are lists the function created *)
Theorem C03gen_inputs_untouched : py_inputs_untouched gen_alias_greedy_utilitarian_scheme_additive = true.
Proof. exact alias_greedy_add. Qed.
Print Assumptions C03gen_inputs_untouched.

Theorem C03gen_all_translated : gen_untranslated_greedy = [].
Proof. exact greedy_all_translated. Qed.
Print Assumptions C03gen_all_translated.
