(* Props/C12gen.v -- property C12 (priceability analysis is sound and complete), the REGENERATED tie for the validator:
   utils.round_cmp and analysis/priceability.validate_price_system (with and without a relaxation object) are translated
   from the Python source on every run (Generated/PyFuncs.v, harness/vharness/pytrans.py); the theorems say that what
   the source says NOW is [round_cmp] / [validate_ps] / [validate_ps_g] of Model/Priceability.v, i.e. the validator the
   theorems of Props/C12.v and Props/C12relax.v are about.  Exact inputs (int / Fraction / mpq); floats are out of scope.
   The MIP built by priceable() stays with the anchors and the correspondence.
   Only statements closed by exact; proofs in Proofs/PyGenPriceP.v. *)
From Coq Require Import String.
From PB Require Import Model.PyPrims Generated.PyFuncs Proofs.PyGenLib Proofs.PyGenPriceP.
From PB Require Spec.PriceSystem Model.Priceability.
Open Scope Q_scope.

Theorem C12gen_round_cmp_ok :
  forall a b,
  gen_round_cmp a b (inject_Z Anchors.CHECK_ROUND_PRECISION) == Priceability.round_cmp a b.
Proof. exact gen_round_cmp_ok. Qed.
Print Assumptions C12gen_round_cmp_ok.

Theorem C12gen_validate_price_system_ok :
  forall I A W b P stable exh,
  gen_validate_price_system I A W b P stable exh = Priceability.validate_ps I A W b P stable exh.
Proof. exact gen_validate_price_system_ok. Qed.
Print Assumptions C12gen_validate_price_system_ok.

Theorem C12gen_validate_price_system_relax_ok :
  forall I A W b P stable exh R,
  gen_validate_price_system_relax I A W b P stable exh R = Priceability.validate_ps_g I A W b P stable exh (Some R).
Proof. exact gen_validate_price_system_relax_ok. Qed.
Print Assumptions C12gen_validate_price_system_relax_ok.

Theorem C12gen_round_cmp_safe_ok :
  forall a b p, gen_round_cmp_safe a b p = true.
Proof. exact gen_round_cmp_safe_ok. Qed.
Print Assumptions C12gen_round_cmp_safe_ok.

Theorem C12gen_validate_price_system_safe_ok :
  forall I A W b P stable exh,
  gen_validate_price_system_safe I A W b P stable exh = true.
Proof. exact gen_validate_price_system_safe_ok. Qed.
Print Assumptions C12gen_validate_price_system_safe_ok.

Theorem C12gen_price_all_translated :
  gen_untranslated_price = [].
Proof. exact gen_price_all_translated. Qed.
Print Assumptions C12gen_price_all_translated.
