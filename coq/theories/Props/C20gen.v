(* Props/C20gen.v -- property C20 (rules and analyses leave their inputs untouched), theorem half over effect
   summaries that are REGENERATED FROM THE PYTHON SOURCE on every run (Generated/EffectSummaries.v, written by
   harness/vharness/anchors_effects.py; trusted base of the translator: DESIGN.md, C20 translator section).
   For every entry point: the summary passes the verified test writes_only_fresh (Proofs/EffectsGenCheck.v, by
   evaluation), hence (Proofs/EffectsGenP.v wof_frame, the interprocedural strengthening of C20_exec_frame) running
   it leaves the caller view of the whole pre-existing store unchanged.  Internal helpers that are SPECIFIED to
   write into some of their parameters (work parameters, p_work) get the same statement for every view that
   does not contain those parameters.  Only statements closed by exact. *)
From PB Require Import Model.Effects Model.EffectsGen Proofs.EffectsP Proofs.EffectsGenP Generated.EffectSummaries
  Proofs.EffectsGenCheck.

(* soundness of the test, for ANY table of programs: the interprocedural frame theorem *)
Theorem C20gen_wof_frame : forall progs fuel na af p nl,
  wof fuel progs na af p nl = true ->
  forall fuel' n args locals s,
  length args = na -> length locals = nl ->
  work_outside n af args ->
  (forall l, In l locals -> (n <= l)%nat) ->
  (n <= length s)%nat ->
  (length s <= length (exec fuel' progs args p locals s))%nat /\
  caller_view n (exec fuel' progs args p locals s) = caller_view n s.
Proof. exact wof_frame. Qed.
Print Assumptions C20gen_wof_frame.

(* every regenerated summary passes the test *)
Theorem C20gen_all_summaries_checked : forallb (writes_only_fresh gen_progs) gen_summaries = true.
Proof. exact all_summaries_ok. Qed.
Print Assumptions C20gen_all_summaries_checked.

Theorem C20gen_greedy_utilitarian_welfare_pure : forall fuel s args, length args = p_arity summary_greedy_utilitarian_welfare ->
  caller_view (length s) (run_summary fuel gen_progs summary_greedy_utilitarian_welfare s args) = caller_view (length s) s.
Proof. exact (summary_pure gen_progs summary_greedy_utilitarian_welfare ok_greedy_utilitarian_welfare nw_greedy_utilitarian_welfare). Qed.
Print Assumptions C20gen_greedy_utilitarian_welfare_pure.
Theorem C20gen_greedy_utilitarian_scheme_pure : forall fuel s args, length args = p_arity summary_greedy_utilitarian_scheme ->
  caller_view (length s) (run_summary fuel gen_progs summary_greedy_utilitarian_scheme s args) = caller_view (length s) s.
Proof. exact (summary_pure gen_progs summary_greedy_utilitarian_scheme ok_greedy_utilitarian_scheme nw_greedy_utilitarian_scheme). Qed.
Print Assumptions C20gen_greedy_utilitarian_scheme_pure.
Theorem C20gen_greedy_utilitarian_scheme_additive_pure : forall fuel s args, length args = p_arity summary_greedy_utilitarian_scheme_additive ->
  caller_view (length s) (run_summary fuel gen_progs summary_greedy_utilitarian_scheme_additive s args) = caller_view (length s) s.
Proof. exact (summary_pure gen_progs summary_greedy_utilitarian_scheme_additive ok_greedy_utilitarian_scheme_additive nw_greedy_utilitarian_scheme_additive). Qed.
Print Assumptions C20gen_greedy_utilitarian_scheme_additive_pure.
Theorem C20gen_max_additive_utilitarian_welfare_pure : forall fuel s args, length args = p_arity summary_max_additive_utilitarian_welfare ->
  caller_view (length s) (run_summary fuel gen_progs summary_max_additive_utilitarian_welfare s args) = caller_view (length s) s.
Proof. exact (summary_pure gen_progs summary_max_additive_utilitarian_welfare ok_max_additive_utilitarian_welfare nw_max_additive_utilitarian_welfare). Qed.
Print Assumptions C20gen_max_additive_utilitarian_welfare_pure.
Theorem C20gen_max_additive_utilitarian_welfare_ilp_scheme_pure : forall fuel s args, length args = p_arity summary_max_additive_utilitarian_welfare_ilp_scheme ->
  caller_view (length s) (run_summary fuel gen_progs summary_max_additive_utilitarian_welfare_ilp_scheme s args) = caller_view (length s) s.
Proof. exact (summary_pure gen_progs summary_max_additive_utilitarian_welfare_ilp_scheme ok_max_additive_utilitarian_welfare_ilp_scheme nw_max_additive_utilitarian_welfare_ilp_scheme). Qed.
Print Assumptions C20gen_max_additive_utilitarian_welfare_ilp_scheme_pure.
Theorem C20gen_max_additive_utilitarian_welfare_primal_dual_scheme_pure : forall fuel s args, length args = p_arity summary_max_additive_utilitarian_welfare_primal_dual_scheme ->
  caller_view (length s) (run_summary fuel gen_progs summary_max_additive_utilitarian_welfare_primal_dual_scheme s args) = caller_view (length s) s.
Proof. exact (summary_pure gen_progs summary_max_additive_utilitarian_welfare_primal_dual_scheme ok_max_additive_utilitarian_welfare_primal_dual_scheme nw_max_additive_utilitarian_welfare_primal_dual_scheme). Qed.
Print Assumptions C20gen_max_additive_utilitarian_welfare_primal_dual_scheme_pure.
(* work parameters: items *)
Theorem C20gen_primal_dual_branch_frame : forall fuel s args n, length args = p_arity summary_primal_dual_branch ->
  (n <= length s)%nat -> work_outside n (p_work summary_primal_dual_branch) args ->
  caller_view n (run_summary fuel gen_progs summary_primal_dual_branch s args) = caller_view n s.
Proof. exact (summary_frame gen_progs summary_primal_dual_branch ok_primal_dual_branch). Qed.
Print Assumptions C20gen_primal_dual_branch_frame.
(* work parameters: x, lower_bound, a_star, b_star *)
Theorem C20gen_primal_dual_branch_impl_frame : forall fuel s args n, length args = p_arity summary_primal_dual_branch_impl ->
  (n <= length s)%nat -> work_outside n (p_work summary_primal_dual_branch_impl) args ->
  caller_view n (run_summary fuel gen_progs summary_primal_dual_branch_impl s args) = caller_view n s.
Proof. exact (summary_frame gen_progs summary_primal_dual_branch_impl ok_primal_dual_branch_impl). Qed.
Print Assumptions C20gen_primal_dual_branch_impl_frame.
Theorem C20gen_method_of_equal_shares_pure : forall fuel s args, length args = p_arity summary_method_of_equal_shares ->
  caller_view (length s) (run_summary fuel gen_progs summary_method_of_equal_shares s args) = caller_view (length s) s.
Proof. exact (summary_pure gen_progs summary_method_of_equal_shares ok_method_of_equal_shares nw_method_of_equal_shares). Qed.
Print Assumptions C20gen_method_of_equal_shares_pure.
(* work parameters: initial_budget_allocation *)
Theorem C20gen_method_of_equal_shares_scheme_frame : forall fuel s args n, length args = p_arity summary_method_of_equal_shares_scheme ->
  (n <= length s)%nat -> work_outside n (p_work summary_method_of_equal_shares_scheme) args ->
  caller_view n (run_summary fuel gen_progs summary_method_of_equal_shares_scheme s args) = caller_view n s.
Proof. exact (summary_frame gen_progs summary_method_of_equal_shares_scheme ok_method_of_equal_shares_scheme). Qed.
Print Assumptions C20gen_method_of_equal_shares_scheme_frame.
(* work parameters: voters, projects, current_alloc, all_allocs *)
Theorem C20gen_mes_inner_algo_frame : forall fuel s args n, length args = p_arity summary_mes_inner_algo ->
  (n <= length s)%nat -> work_outside n (p_work summary_mes_inner_algo) args ->
  caller_view n (run_summary fuel gen_progs summary_mes_inner_algo s args) = caller_view n s.
Proof. exact (summary_frame gen_progs summary_mes_inner_algo ok_mes_inner_algo). Qed.
Print Assumptions C20gen_mes_inner_algo_frame.
Theorem C20gen_sequential_phragmen_pure : forall fuel s args, length args = p_arity summary_sequential_phragmen ->
  caller_view (length s) (run_summary fuel gen_progs summary_sequential_phragmen s args) = caller_view (length s) s.
Proof. exact (summary_pure gen_progs summary_sequential_phragmen ok_sequential_phragmen nw_sequential_phragmen). Qed.
Print Assumptions C20gen_sequential_phragmen_pure.
Theorem C20gen_completion_by_rule_combination_pure : forall fuel s args, length args = p_arity summary_completion_by_rule_combination ->
  caller_view (length s) (run_summary fuel gen_progs summary_completion_by_rule_combination s args) = caller_view (length s) s.
Proof. exact (summary_pure gen_progs summary_completion_by_rule_combination ok_completion_by_rule_combination nw_completion_by_rule_combination). Qed.
Print Assumptions C20gen_completion_by_rule_combination_pure.
Theorem C20gen_exhaustion_by_budget_increase_pure : forall fuel s args, length args = p_arity summary_exhaustion_by_budget_increase ->
  caller_view (length s) (run_summary fuel gen_progs summary_exhaustion_by_budget_increase s args) = caller_view (length s) s.
Proof. exact (summary_pure gen_progs summary_exhaustion_by_budget_increase ok_exhaustion_by_budget_increase nw_exhaustion_by_budget_increase). Qed.
Print Assumptions C20gen_exhaustion_by_budget_increase_pure.
Theorem C20gen_popularity_comparison_pure : forall fuel s args, length args = p_arity summary_popularity_comparison ->
  caller_view (length s) (run_summary fuel gen_progs summary_popularity_comparison s args) = caller_view (length s) s.
Proof. exact (summary_pure gen_progs summary_popularity_comparison ok_popularity_comparison nw_popularity_comparison). Qed.
Print Assumptions C20gen_popularity_comparison_pure.
Theorem C20gen_social_welfare_comparison_pure : forall fuel s args, length args = p_arity summary_social_welfare_comparison ->
  caller_view (length s) (run_summary fuel gen_progs summary_social_welfare_comparison s args) = caller_view (length s) s.
Proof. exact (summary_pure gen_progs summary_social_welfare_comparison ok_social_welfare_comparison nw_social_welfare_comparison). Qed.
Print Assumptions C20gen_social_welfare_comparison_pure.
Theorem C20gen_calculate_project_loss_pure : forall fuel s args, length args = p_arity summary_calculate_project_loss ->
  caller_view (length s) (run_summary fuel gen_progs summary_calculate_project_loss s args) = caller_view (length s) s.
Proof. exact (summary_pure gen_progs summary_calculate_project_loss ok_calculate_project_loss nw_calculate_project_loss). Qed.
Print Assumptions C20gen_calculate_project_loss_pure.
Theorem C20gen_calculate_effective_support_pure : forall fuel s args, length args = p_arity summary_calculate_effective_support ->
  caller_view (length s) (run_summary fuel gen_progs summary_calculate_effective_support s args) = caller_view (length s) s.
Proof. exact (summary_pure gen_progs summary_calculate_effective_support ok_calculate_effective_support nw_calculate_effective_support). Qed.
Print Assumptions C20gen_calculate_effective_support_pure.
Theorem C20gen_calculate_effective_supports_pure : forall fuel s args, length args = p_arity summary_calculate_effective_supports ->
  caller_view (length s) (run_summary fuel gen_progs summary_calculate_effective_supports s args) = caller_view (length s) s.
Proof. exact (summary_pure gen_progs summary_calculate_effective_supports ok_calculate_effective_supports nw_calculate_effective_supports). Qed.
Print Assumptions C20gen_calculate_effective_supports_pure.

(* the statements the translator is told to leave out are genuine writes to the caller: with them, the test fails *)
Theorem C20gen_exceptions_rejected :
  forallb (fun p => negb (no_work p) || negb (writes_only_fresh gen_progs p)) gen_summaries_full = true.
Proof. exact all_full_summaries_rejected. Qed.
Print Assumptions C20gen_exceptions_rejected.
Theorem C20gen_final_budget_override_rejected :
  writes_only_fresh gen_progs summary_calculate_effective_supports_full = false.
Proof. exact final_budget_override_rejected. Qed.
Print Assumptions C20gen_final_budget_override_rejected.
(* and the test rejects ANY keyed write / append through a parameter that is not a work parameter *)
Theorem C20gen_test_rejects_arg_write : forall fuel progs na af i key v rest nl,
  nth i af false = false -> wof fuel progs na af (SSetKey (Arg i) key v :: rest) nl = false.
Proof. exact wof_rejects_arg_write. Qed.
Print Assumptions C20gen_test_rejects_arg_write.
Theorem C20gen_test_rejects_arg_append : forall fuel progs na af i v rest nl,
  nth i af false = false -> wof fuel progs na af (SAppend (Arg i) v :: rest) nl = false.
Proof. exact wof_rejects_arg_append. Qed.
Print Assumptions C20gen_test_rejects_arg_append.

(* non-vacuity: on a store of nine caller objects the summary of exhaustion_by_budget_increase allocates, writes
   (memo caches of caller objects included) and leaves the caller view as it was; the summary of
   calculate_effective_supports that keeps the final_budget override changes the instance *)
Example C20gen_nonvacuous :
  (let s' := run_summary 6 gen_progs summary_exhaustion_by_budget_increase demo_store (seq 0 9) in
   caller_view 9 s' = caller_view 9 demo_store /\ (9 < length s')%nat /\ firstn 9 s' <> demo_store) /\
  caller_view 5 (run_summary 6 gen_progs summary_calculate_effective_supports_full demo_store (seq 0 5))
  <> caller_view 5 demo_store.
Proof. exact (conj demo_increase demo_override). Qed.
