(* Props/C18.v -- property C18: election and outcome statistics equal their textbook definitions.
   Only statements closed by [exact]; the proofs live in Proofs/StatsP.v.
   Model/Analysis.v = executable mirror of the code, on the (ballot, multiplicity) pairs a profile object
   iterates over;  Spec/Stats.v = the definitions, on the list of voters (expandQ / expandP repeat every
   class by its multiplicity: "each voter counted once"). *)
From PB Require Import Spec.Stats Proofs.StatsP.
Open Scope Q_scope.

(* ---- utils.mean_generator: the incremental mean with multiplicities is sum(v*mul)/sum(mul) ---- *)
Theorem C18_mean_generator_spec : forall l, mean_generator l == wsum l / Qnat (wcount l).
Proof. exact mean_generator_spec. Qed.
Print Assumptions C18_mean_generator_spec.

(* division-free form, and the empty stream (the code returns 0) *)
Theorem C18_mean_generator_times : forall l, mean_generator l * Qnat (wcount l) == wsum l.
Proof. exact mean_generator_times. Qed.
Print Assumptions C18_mean_generator_times.

Theorem C18_mean_generator_empty : forall l, wcount l = 0%nat -> mean_generator l == 0.
Proof. exact mean_generator_empty. Qed.
Print Assumptions C18_mean_generator_empty.

(* classes with multiplicities = the expanded list of voters *)
Theorem C18_mean_mult : forall l, mean_generator l == mean (expandQ l).
Proof. exact mean_mult. Qed.
Print Assumptions C18_mean_mult.

Theorem C18_mean_plain_spec : forall l, mean_plain l == mean l.
Proof. exact mean_plain_spec. Qed.
Print Assumptions C18_mean_plain_spec.

(* ---- utils.gini_coefficient: (n+1 - 2 sum_i (n-i) x_(i) / sum x)/n on the sorted vector equals
        sum_i sum_j |x_i - x_j| / (2 n sum x); 0 (= 0/0 in Coq's Q) on the all-zero vector ---- *)
Theorem C18_gini_spec : forall vals g, gini_coefficient vals = Some g -> g == gini vals.
Proof. exact gini_spec. Qed.
Print Assumptions C18_gini_spec.

Theorem C18_gini_zero_vector : forall vals, (forall v, In v vals -> v == 0) -> gini_coefficient vals = Some 0.
Proof. exact gini_zero_vector. Qed.
Print Assumptions C18_gini_zero_vector.

(* ValueError exactly when some value is negative *)
Theorem C18_gini_domain : forall vals, gini_coefficient vals = None <-> exists v, In v vals /\ v < 0.
Proof. exact gini_domain. Qed.
Print Assumptions C18_gini_domain.

Theorem C18_gini_of_satisfaction_spec : forall (S : sats) inv g,
  gini_of_satisfaction S inv = Some g -> g == (if inv then 1 - gini (expandQ S) else gini (expandQ S)).
Proof. exact gini_of_satisfaction_spec. Qed.
Print Assumptions C18_gini_of_satisfaction_spec.

(* ---- median: the middle of the sorted array (np.median) is the order-statistic median; an order
        statistic is determined by its rank conditions ---- *)
Theorem C18_median_spec : forall l, median l == median_os l.
Proof. exact median_spec. Qed.
Print Assumptions C18_median_spec.

Theorem C18_kth_sorted : forall l k, (k < length l)%nat -> nth k (isort Qleb l) 0 == kth l k.
Proof. exact kth_sorted. Qed.
Print Assumptions C18_kth_sorted.

Theorem C18_is_kth_unique : forall l k x y, is_kth l k x = true -> is_kth l k y = true -> x == y.
Proof. exact is_kth_unique. Qed.
Print Assumptions C18_is_kth_unique.

Theorem C18_median_ballot_length_spec : forall P,
  median_ballot_length P == match expandP P with [] => 0 | _ => median_os (map blen (expandP P)) end.
Proof. exact median_ballot_length_spec. Qed.
Print Assumptions C18_median_ballot_length_spec.

Theorem C18_median_ballot_cost_spec : forall I P,
  median_ballot_cost I P == match expandP P with [] => 0 | _ => median_os (map (bcost I) (expandP P)) end.
Proof. exact median_ballot_cost_spec. Qed.
Print Assumptions C18_median_ballot_cost_spec.

Theorem C18_median_project_cost_spec : forall I, median_project_cost I == median_os (costs I).
Proof. exact median_project_cost_spec. Qed.
Print Assumptions C18_median_project_cost_spec.

Theorem C18_median_approval_score_spec : forall I P, (0 < nproj I)%nat ->
  median_approval_score I P == median_os (map (approval_score P) (all_projects I)).
Proof. exact median_approval_score_spec. Qed.
Print Assumptions C18_median_approval_score_spec.

Theorem C18_median_total_score_spec : forall I P, (0 < nproj I)%nat ->
  median_total_score I P == median_os (map (total_score P) (all_projects I)).
Proof. exact median_total_score_spec. Qed.
Print Assumptions C18_median_total_score_spec.

(* ---- satisfaction histogram: the ceil-based index is the bin whose interval contains the value ---- *)
Theorem C18_hist_bin_ceil : forall k mx s, 0 < mx -> 0 <= s -> s < mx ->
  let j := hist_bin k mx s in
  (j <= pred k)%nat /\ s * Qnat (pred k) <= Qnat j * mx /\ (Qnat j - 1) * mx < s * Qnat (pred k).
Proof. exact hist_bin_ceil. Qed.
Print Assumptions C18_hist_bin_ceil.

Theorem C18_hist_bin_last : forall k mx s, mx <= s -> hist_bin k mx s = pred k.
Proof. exact hist_bin_last. Qed.
Print Assumptions C18_hist_bin_last.

Theorem C18_hist_bin_is_bin_of : forall k mx s, 0 < mx -> 0 <= s -> hist_bin k mx s = bin_of k mx s.
Proof. exact hist_bin_is_bin_of. Qed.
Print Assumptions C18_hist_bin_is_bin_of.

(* k entries; entry j = share of the voters in bin j, a class of m equal ballots counting m times *)
Theorem C18_hist_spec : forall k mx (S : sats), (0 < k)%nat -> 0 < mx -> (forall c, In c S -> 0 <= fst c) ->
  length (satisfaction_histogram k mx S) = k /\
  forall j, (j < k)%nat -> nth j (satisfaction_histogram k mx S) 0 == hist_share k mx (expandQ S) j.
Proof. exact hist_spec. Qed.
Print Assumptions C18_hist_spec.

Theorem C18_hist_sum_one : forall k mx (S : sats), (0 < k)%nat -> 0 < mx -> (forall c, In c S -> 0 <= fst c) ->
  (0 < sat_total S)%nat -> Qsum (satisfaction_histogram k mx S) == 1.
Proof. exact hist_sum_one. Qed.
Print Assumptions C18_hist_sum_one.

Theorem C18_hist_mult : forall k mx (S : sats), (0 < k)%nat -> 0 < mx -> (forall c, In c S -> 0 <= fst c) ->
  forall j, (j < k)%nat ->
  nth j (satisfaction_histogram k mx S) 0 ==
  nth j (satisfaction_histogram k mx (map (fun s => (s, 1%nat)) (expandQ S))) 0.
Proof. exact hist_mult. Qed.
Print Assumptions C18_hist_mult.

(* ---- satisfaction averages and shares ---- *)
Theorem C18_avg_satisfaction_spec : forall S : sats, avg_satisfaction S == mean (expandQ S).
Proof. exact avg_satisfaction_spec. Qed.
Print Assumptions C18_avg_satisfaction_spec.

Theorem C18_percent_positive_spec : forall (S : sats) q,
  percent_positive_satisfaction S = Some q -> q == share_positive (expandQ S).
Proof. exact percent_positive_spec. Qed.
Print Assumptions C18_percent_positive_spec.

Theorem C18_percent_positive_domain : forall S : sats,
  percent_positive_satisfaction S = None <-> sat_total S = 0%nat.
Proof. exact percent_positive_domain. Qed.
Print Assumptions C18_percent_positive_domain.

(* ---- ballot and score statistics ---- *)
Theorem C18_avg_ballot_length_spec : forall P, avg_ballot_length P == mean (map blen (expandP P)).
Proof. exact avg_ballot_length_spec. Qed.
Print Assumptions C18_avg_ballot_length_spec.

Theorem C18_avg_ballot_cost_spec : forall I P, avg_ballot_cost I P == mean (map (bcost I) (expandP P)).
Proof. exact avg_ballot_cost_spec. Qed.
Print Assumptions C18_avg_ballot_cost_spec.

Theorem C18_approval_score_spec : forall P p, approval_score P p == n_containing (expandP P) p.
Proof. exact approval_score_spec. Qed.
Print Assumptions C18_approval_score_spec.

Theorem C18_total_score_spec : forall P p, total_score P p == score_sum (expandP P) p.
Proof. exact total_score_spec. Qed.
Print Assumptions C18_total_score_spec.

Theorem C18_avg_approval_score_spec : forall I P,
  avg_approval_score I P == mean (map (n_containing (expandP P)) (all_projects I)).
Proof. exact avg_approval_score_spec. Qed.
Print Assumptions C18_avg_approval_score_spec.

Theorem C18_avg_total_score_spec : forall I P,
  avg_total_score I P == mean (map (score_sum (expandP P)) (all_projects I)).
Proof. exact avg_total_score_spec. Qed.
Print Assumptions C18_avg_total_score_spec.

(* ---- instance statistics ---- *)
Theorem C18_funding_scarcity_spec : forall I, 0 < budget I -> funding_scarcity I = Some (Qsum (costs I) / budget I).
Proof. exact funding_scarcity_spec. Qed.
Print Assumptions C18_funding_scarcity_spec.

Theorem C18_funding_scarcity_domain : forall I, funding_scarcity I = None <-> budget I <= 0.
Proof. exact funding_scarcity_domain. Qed.
Print Assumptions C18_funding_scarcity_domain.

Theorem C18_avg_project_cost_spec : forall I, costs I <> [] -> avg_project_cost I = Some (mean (costs I)).
Proof. exact avg_project_cost_spec. Qed.
Print Assumptions C18_avg_project_cost_spec.

Theorem C18_var_project_cost_spec : forall I, var_project_cost I = variance (costs I).
Proof. exact var_project_cost_spec. Qed.
Print Assumptions C18_var_project_cost_spec.

(* ---- category proportionality: the exact mean-square difference behind exp(-.) ---- *)
Theorem C18_category_msd_spec : forall I pcats ncat P W t,
  category_msd I pcats ncat P W = CatMsd t -> t == cat_msd I pcats ncat (expandP P) W.
Proof. exact category_msd_spec. Qed.
Print Assumptions C18_category_msd_spec.

(* ---- votes_count_by_project / voter_flow_matrix: RECORDED FINDING (multiplicities are not read).
        The full statements  forall P p, votes_count P p == n_containing (expandP P) p  and
        forall P a b, voter_flow P a b == flow (expandP P) a b  are false of the faithful model: ---- *)
Theorem C18_votes_count_refuted : exists P p, ~ votes_count P p == n_containing (expandP P) p.
Proof. exact votes_count_refuted. Qed.
Print Assumptions C18_votes_count_refuted.

Theorem C18_voter_flow_refuted : exists P a b, ~ voter_flow P a b == flow (expandP P) a b.
Proof. exact voter_flow_refuted. Qed.
Print Assumptions C18_voter_flow_refuted.

(* they hold when every ballot object stands for one voter (a Profile; a MultiProfile without repeated ballots) *)
Theorem C18_votes_count_partial : forall P p, (forall c, In c P -> snd c = 1%nat) ->
  votes_count P p == n_containing (expandP P) p.
Proof. exact votes_count_partial. Qed.
Print Assumptions C18_votes_count_partial.

Theorem C18_voter_flow_partial : forall P a b, (forall c, In c P -> snd c = 1%nat) ->
  voter_flow P a b == flow (expandP P) a b.
Proof. exact voter_flow_partial. Qed.
Print Assumptions C18_voter_flow_partial.

(* non-vacuity: concrete values on a profile with a repeated ballot, a bin edge, an even median *)
Example C18_nonvacuous :
  let P : prof := [([(0%nat, 1); (1%nat, 1)], 1%nat); ([(1%nat, 1)], 3%nat); ([], 1%nat)] in
  let S : sats := [(2, 1%nat); (1, 3%nat); (0, 1%nat)] in
  Qeq_bool (avg_ballot_length P) 1 = true /\
  Qeq_bool (median_ballot_length P) 1 = true /\
  Qeq_bool (approval_score P 1%nat) 4 = true /\
  gini_coefficient (expandQ S) = Some (8 # 25) /\
  Qeq_bool (gini (expandQ S)) (8 # 25) = true /\
  percent_positive_satisfaction S = Some (4 # 5) /\
  hist_bin 5%nat 2 1 = 2%nat /\ hist_bin 5%nat 2 (3 # 4) = 2%nat /\ hist_bin 5%nat 2 2 = 4%nat /\
  map Qred (satisfaction_histogram 5%nat 2 S) = [1 # 5; 0; 3 # 5; 0; 1 # 5] /\
  Qeq_bool (median [1; 4; 2; 3]) (5 # 2) = true /\ Qeq_bool (median_os [1; 4; 2; 3]) (5 # 2) = true.
Proof. vm_compute. repeat split; reflexivity. Qed.
