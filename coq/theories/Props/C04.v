(* Props/C04.v -- property C04: the additive utilitarian welfare maximiser returns an optimum; irresolute
   mode returns all optima.  Only statements closed by [exact]; the proofs live in Proofs/KnapsackP.v
   (primal/dual search), Proofs/MaxWelfareP.v (the scheme around it), Proofs/IlpCutP.v (integer-cut loop
   under the solver-oracle hypothesis) and Proofs/WelfareBFP.v (the brute-force oracle of Oracle/C04.v).
   Vocabulary of the knapsack statements (Proofs/KnapsackP.v): a selection is a predicate on item indices,
   [prof items S]/[wgt items S] its profit/weight; [node_sel a1 b D] is the search node "items < a1 in,
   a1 <= i < b as decided by D, items >= b out" (a1 = Python's a + 1). *)
From PB Require Import Model.MaxWelfare Oracle.C04 Proofs.KnapsackP Proofs.MaxWelfareP Proofs.IlpCutP
                       Proofs.IlpAllocP Proofs.WelfareBFP.
Open Scope Q_scope.

(* ---------------- primal/dual knapsack ---------------- *)

(* M pd_bound_valid: for items sorted by non-increasing efficiency, every completion S of the node
   (inserting items >= b, removing items < a1, core fixed) that fits the capacity has profit at most
   P + (cap - W) * eff_k, for k = b (the test used when W <= cap) and for k = a = a1 - 1 (when W > cap). *)
Theorem C04_pd_bound_valid : forall (items : list kitem) (cap : Q),
  (forall i, (i < length items)%nat -> 0 < kw (item_at items i) /\ 0 <= kp (item_at items i)) ->
  (forall i j, (i <= j)%nat -> (j < length items)%nat -> eff (item_at items j) <= eff (item_at items i)) ->
  forall (a1 b : nat) (D S : nat -> bool) (k : nat),
  (a1 <= Datatypes.S k)%nat -> (k <= b)%nat -> (k < length items)%nat ->
  (forall i, (a1 <= i < b)%nat -> S i = D i) -> wgt items S <= cap ->
  prof items S <= prof items (node_sel a1 b D) + (cap - wgt items (node_sel a1 b D)) * eff (item_at items k).
Proof. exact bound_k. Qed.
Print Assumptions C04_pd_bound_valid.

(* M pd_search_complete + M pd_reconstruct, as one invariant of every call of primal_dual_branch_impl:
   enough fuel => the call returns; lower_bound never decreases; a call that reports "not improved" leaves
   the whole state untouched; a call that reports "improved" leaves (a_star, b_star, x) decoding -- on the
   indices decided in its subtree -- to a selection of profit lower_bound that fits; and afterwards
   lower_bound dominates every fitting completion of the node. *)
Theorem C04_pd_search_complete_reconstruct : forall (items : list kitem) (cap : Q),
  (forall i, (i < length items)%nat -> 0 < kw (item_at items i) /\ 0 <= kp (item_at items i)) ->
  (forall i j, (i <= j)%nat -> (j < length items)%nat -> eff (item_at items j) <= eff (item_at items i)) ->
  forall (fuel a1 b : nat) (P W : Q) (st : pdst) (D : nat -> bool),
  (a1 <= b)%nat -> (b <= length items)%nat -> (a1 + (length items - b) < fuel)%nat ->
  length (xs st) = length items ->
  P == prof items (node_sel a1 b D) -> W == wgt items (node_sel a1 b D) ->
  exists (imp : bool) (st' : pdst),
    pd_impl fuel items cap a1 b P W st = Some (imp, st') /\
    length (xs st') = length items /\
    lb st <= lb st' /\
    (imp = false -> st' = st) /\
    (imp = true -> lb st < lb st' /\ good_state items cap a1 b D st') /\
    (forall S, (forall i, (a1 <= i < b)%nat -> S i = D i) -> wgt items S <= cap -> prof items S <= lb st').
Proof. exact pd_impl_spec. Qed.
Print Assumptions C04_pd_search_complete_reconstruct.

(* top level of primal_dual_branch on a sorted list: the reconstruction loop returns a sub-list whose
   profit is exactly the final lower_bound, which is the maximum over all sub-lists that fit *)
Theorem C04_pd_run : forall (items : list kitem) (cap : Q),
  (forall i, (i < length items)%nat -> 0 < kw (item_at items i) /\ 0 <= kp (item_at items i)) ->
  (forall i j, (i <= j)%nat -> (j < length items)%nat -> eff (item_at items j) <= eff (item_at items i)) ->
  0 <= cap ->
  forall (sidx : nat) (sw sp : Q),
  split_loop items 0 (length items) cap 0 0 0 = (sidx, sw, sp) -> items <> [] ->
  exists (imp : bool) (st : pdst),
    pd_impl (pd_fuel items) items cap sidx sidx sp sw (mkSt 0 0 0 (repeat false (length items))) = Some (imp, st) /\
    kprofit (decode items st) == lb st /\
    kweight (decode items st) <= cap /\
    (forall S, sublist S items -> kweight S <= cap -> kprofit S <= lb st).
Proof. exact pd_run_sorted. Qed.
Print Assumptions C04_pd_run.

(* primal_dual_branch (sort, split item, search, reconstruction) returns an optimal knapsack solution *)
Theorem C04_pd_branch_optimal : forall (items0 : list kitem) (cap : Q),
  Forall (fun it => 0 < kw it /\ 0 <= kp it) items0 -> 0 <= cap ->
  exists sel, pd_branch items0 cap = Some sel /\ sublist sel (sort_items items0) /\
    kweight sel <= cap /\
    (forall S, sublist S (sort_items items0) -> kweight S <= cap -> kprofit S <= kprofit sel).
Proof. exact pd_branch_optimal. Qed.
Print Assumptions C04_pd_branch_optimal.

(* M maxwelfare_pd_optimal, at full strength: the PRIMAL_DUAL rule (zero-cost pre-selection, projects of
   negative total satisfaction left out, knapsack) always returns, and its result is feasible, extends the
   initial allocation and has maximum welfare among ALL feasible allocations extending the initial one -- any
   number of projects, any non-negative rational costs, ANY rational satisfactions (negative and mixed-sign
   included, e.g. cardinal ballots with negative scores), any iteration order of the instance *)
Theorem C04_maxwelfare_pd_optimal_any_scores : forall (I : inst) (score : list Q) (enum init : list proj),
  Forall (fun c => 0 <= c) (costs I) ->
  NoDup enum -> (forall p, In p enum <-> (p < nproj I)%nat) ->
  NoDup init -> incl init enum -> tcost I init <= budget I ->
  exists res, maxwelfare_pd I score enum init = Some res /\
    feasible I res /\ incl init res /\
    (forall W', feasible I W' -> incl init W' -> welfare score W' <= welfare score res).
Proof. exact maxwelfare_pd_optimal_gen. Qed.
Print Assumptions C04_maxwelfare_pd_optimal_any_scores.

(* the same with the (superfluous) hypothesis of non-negative satisfactions -- the signature used by
   Props/C01.v and Proofs/InvarianceKnapsackP.v *)
Theorem C04_maxwelfare_pd_optimal : forall (I : inst) (score : list Q) (enum init : list proj),
  Forall (fun c => 0 <= c) (costs I) -> Forall (fun s => 0 <= s) score ->
  NoDup enum -> (forall p, In p enum <-> (p < nproj I)%nat) ->
  NoDup init -> incl init enum -> tcost I init <= budget I ->
  exists res, maxwelfare_pd I score enum init = Some res /\
    feasible I res /\ incl init res /\
    (forall W', feasible I W' -> incl init W' -> welfare score W' <= welfare score res).
Proof. exact maxwelfare_pd_optimal_lemma. Qed.
Print Assumptions C04_maxwelfare_pd_optimal.

(* the pre-repair bound math.floor((capacity - weight_sum) * efficiency) is NOT valid: costs 3/4, 1/2, 1/3,
   capacity 1, profits = costs -- the floored search returns the item of profit 3/4, the optimum is 5/6 *)
Theorem C04_pd_floor_refuted :
  exists items cap sel S,
    Forall (fun it => 0 < kw it /\ 0 <= kp it) items /\ 0 <= cap /\
    pd_branch_floor items cap = Some sel /\
    sublist S items /\ kweight S <= cap /\ kprofit sel < kprofit S.
Proof. exact pd_floor_refuted_lemma. Qed.
Print Assumptions C04_pd_floor_refuted.

(* ---------------- ILP scheme, under the solver-oracle hypothesis ---------------- *)

(* both integer-cut rows exclude exactly previous_partial_alloc *)
Theorem C04_cut_rows_exclude : forall prev x : list bool, length x = length prev ->
  (row_ok x (cut_ge prev) = true <-> x <> prev) /\ (row_ok x (cut_le prev) = true <-> x <> prev).
Proof. exact (fun prev x H => conj (cut_ge_excludes prev x H) (cut_le_excludes prev x H)). Qed.
Print Assumptions C04_cut_rows_exclude.

(* M ilp_enumeration: if the solver returns an optimal 0/1 point of the rows it is given or reports
   infeasibility (only) when there is none, the irresolute scheme returns every welfare-maximal feasible
   0/1 vector exactly once (termination by finiteness of 2^n) *)
Theorem C04_ilp_enumeration : forall (solve : list Q -> list lrow -> option (list bool)) (n : nat),
  (forall (obj : list Q) (rows : list lrow), length obj = n ->
     match solve obj rows with
     | Some x => length x = n /\ rows_ok rows x = true /\
                 (forall y, length y = n -> rows_ok rows y = true -> dot obj y <= dot obj x)
     | None => forall y, length y = n -> rows_ok rows y = false
     end) ->
  forall (I : inst) (score : list Q) (enum init : list proj) (fuel : nat),
  length (ilp_vars enum init) = n -> (2 ^ n < fuel)%nat ->
  forall x0,
  solve (map (score_of score) (ilp_vars enum init))
        [mkRow (map (cost I) (ilp_vars enum init)) SLe (budget I - tcost I init)] = Some x0 ->
  exists acc,
    ilp_scheme solve fuel I score enum init false =
      Some (map (fun x => select (ilp_vars enum init) x ++ init) acc) /\
    NoDup acc /\
    (forall x, In x acc <->
       length x = n /\
       dot (map (cost I) (ilp_vars enum init)) x <= budget I - tcost I init /\
       (forall y, length y = n ->
          dot (map (cost I) (ilp_vars enum init)) y <= budget I - tcost I init ->
          dot (map (score_of score) (ilp_vars enum init)) y <= dot (map (score_of score) (ilp_vars enum init)) x)).
Proof. exact ilp_enumeration. Qed.
Print Assumptions C04_ilp_enumeration.

(* the same at the level of budget allocations: under the solver hypothesis the irresolute ILP rule returns
   exactly the welfare-maximal feasible allocations extending the initial one -- every returned allocation is
   one (sound), every one is returned up to the order of its projects (complete), none twice, not even as a
   set (exactly once) *)
Theorem C04_ilp_enumeration_allocs : forall (solve : list Q -> list lrow -> option (list bool)) (n : nat),
  (forall (obj : list Q) (rows : list lrow), length obj = n ->
     match solve obj rows with
     | Some x => length x = n /\ rows_ok rows x = true /\
                 (forall y, length y = n -> rows_ok rows y = true -> dot obj y <= dot obj x)
     | None => forall y, length y = n -> rows_ok rows y = false
     end) ->
  forall (I : inst) (score : list Q) (enum init : list proj) (fuel : nat),
  NoDup enum -> (forall p, In p enum <-> (p < nproj I)%nat) -> NoDup init -> incl init enum ->
  length (ilp_vars enum init) = n -> (2 ^ n < fuel)%nat ->
  forall x0,
  solve (map (score_of score) (ilp_vars enum init))
        [mkRow (map (cost I) (ilp_vars enum init)) SLe (budget I - tcost I init)] = Some x0 ->
  exists outs, ilp_scheme solve fuel I score enum init false = Some outs /\
    (forall W, In W outs -> feasible I W /\ incl init W /\
       forall W', feasible I W' -> incl init W' -> welfare score W' <= welfare score W) /\
    (forall W', feasible I W' -> incl init W' ->
       (forall W'', feasible I W'' -> incl init W'' -> welfare score W'' <= welfare score W') ->
       exists W, In W outs /\ Permutation W W') /\
    NoDup outs /\ (forall W1 W2, In W1 outs -> In W2 outs -> Permutation W1 W2 -> W1 = W2).
Proof. exact ilp_enumeration_allocs. Qed.
Print Assumptions C04_ilp_enumeration_allocs.

Theorem C04_ilp_resolute_optimal : forall (solve : list Q -> list lrow -> option (list bool)) (n : nat),
  (forall (obj : list Q) (rows : list lrow), length obj = n ->
     match solve obj rows with
     | Some x => length x = n /\ rows_ok rows x = true /\
                 (forall y, length y = n -> rows_ok rows y = true -> dot obj y <= dot obj x)
     | None => forall y, length y = n -> rows_ok rows y = false
     end) ->
  forall (I : inst) (score : list Q) (enum init : list proj) (fuel : nat),
  length (ilp_vars enum init) = n ->
  forall x0,
  solve (map (score_of score) (ilp_vars enum init))
        [mkRow (map (cost I) (ilp_vars enum init)) SLe (budget I - tcost I init)] = Some x0 ->
  ilp_scheme solve fuel I score enum init true = Some [select (ilp_vars enum init) x0 ++ init] /\
  length x0 = n /\
  dot (map (cost I) (ilp_vars enum init)) x0 <= budget I - tcost I init /\
  (forall y, length y = n ->
     dot (map (cost I) (ilp_vars enum init)) y <= budget I - tcost I init ->
     dot (map (score_of score) (ilp_vars enum init)) y <= dot (map (score_of score) (ilp_vars enum init)) x0).
Proof. exact ilp_resolute_optimal. Qed.
Print Assumptions C04_ilp_resolute_optimal.

(* the solver hypothesis is satisfiable (exhaustive search meets it), so the two theorems are not vacuous *)
Theorem C04_solver_hypothesis_satisfiable : forall (n : nat) (obj : list Q) (rows : list lrow),
  length obj = n ->
  match bf_solve n obj rows with
  | Some x => length x = n /\ rows_ok rows x = true /\
              (forall y, length y = n -> rows_ok rows y = true -> dot obj y <= dot obj x)
  | None => forall y, length y = n -> rows_ok rows y = false
  end.
Proof. exact bf_solve_spec. Qed.
Print Assumptions C04_solver_hypothesis_satisfiable.

(* 0/1 vectors <-> allocations: cost and welfare are the dot products; distinct vectors are distinct sets *)
Theorem C04_select_meaning : forall (I : inst) (score : list Q) (vars : list proj) (x : list bool),
  length x = length vars ->
  tcost I (select vars x) == dot (map (cost I) vars) x /\
  welfare score (select vars x) == dot (map (score_of score) vars) x.
Proof. exact (fun I score vars x H => conj (select_tcost I vars x H) (select_welfare score vars x H)). Qed.
Print Assumptions C04_select_meaning.

Theorem C04_select_inj : forall (vars : list proj) (x y : list bool),
  NoDup vars -> length x = length vars -> length y = length vars ->
  (forall p, In p (select vars x) <-> In p (select vars y)) -> x = y.
Proof. exact select_inj. Qed.
Print Assumptions C04_select_inj.

(* ---------------- the brute-force oracle run on the implementation's answers ---------------- *)

(* bf_max is an upper bound for every feasible allocation extending init, in any order ... *)
Theorem C04_bf_max_upper : forall I score init W m,
  NoDup init -> feasible I W -> incl init W -> bf_max I score init = Some m -> welfare score W <= m.
Proof. exact bf_max_upper. Qed.
Print Assumptions C04_bf_max_upper.

(* ... it is attained by a feasible allocation extending init ... *)
Theorem C04_bf_max_attained : forall I score init m,
  NoDup init -> (forall p, In p init -> (p < nproj I)%nat) -> bf_max I score init = Some m ->
  exists W, feasible I W /\ incl init W /\ welfare score W == m.
Proof.
  exact (fun I score init m Hn Hr Hm =>
    match bf_max_attained I score init m Hm with
    | ex_intro _ W (conj Hin Hw) =>
        ex_intro _ W (conj (proj1 (feas_candidates_sound I init W Hn Hr Hin))
                           (conj (proj2 (feas_candidates_sound I init W Hn Hr Hin)) Hw))
    end).
Qed.
Print Assumptions C04_bf_max_attained.

(* ... and defined whenever the initial allocation is feasible *)
Theorem C04_bf_max_defined : forall I score init,
  NoDup init -> (forall p, In p init -> (p < nproj I)%nat) -> tcost I init <= budget I ->
  exists m, bf_max I score init = Some m.
Proof. exact bf_max_defined. Qed.
Print Assumptions C04_bf_max_defined.

(* bf_optima lists exactly the welfare-maximal feasible allocations extending init: sound, complete up to
   the order of the projects, and each optimum once (also as a set) *)
Theorem C04_bf_optima_sound : forall I score init W0,
  NoDup init -> (forall p, In p init -> (p < nproj I)%nat) -> In W0 (bf_optima I score init) ->
  feasible I W0 /\ incl init W0 /\
  forall W', feasible I W' -> incl init W' -> welfare score W' <= welfare score W0.
Proof. exact bf_optima_sound. Qed.
Print Assumptions C04_bf_optima_sound.

Theorem C04_bf_optima_complete : forall I score init W,
  NoDup init -> feasible I W -> incl init W ->
  (forall W', feasible I W' -> incl init W' -> welfare score W' <= welfare score W) ->
  exists W0, In W0 (bf_optima I score init) /\ Permutation W W0.
Proof. exact bf_optima_complete. Qed.
Print Assumptions C04_bf_optima_complete.

Theorem C04_bf_optima_distinct : forall I score init, NoDup init ->
  NoDup (bf_optima I score init) /\
  forall W1 W2, In W1 (bf_optima I score init) -> In W2 (bf_optima I score init) ->
                Permutation W1 W2 -> W1 = W2.
Proof. exact bf_optima_distinct. Qed.
Print Assumptions C04_bf_optima_distinct.

(* ---------------- non-vacuity ---------------- *)
(* costs 1/2, 1/3, 3/4 (+ a free project with a supporter and a free one without), budget 1, profits =
   costs: the hypotheses of C04_maxwelfare_pd_optimal hold, the rule returns {free, 1/2, 1/3} (the instance
   on which the pre-repair code returned the 3/4 project), the oracle agrees and lists the two tied optima
   (with / without the unsupported free project); the case checker accepts the right answers and rejects a
   sub-optimal one (codes 4, 6) and an incomplete irresolute list (code 5) *)
Example C04_nonvacuous :
  let I := mkInst [(1#2); (1#3); (3#4); 0; 0] 1 in
  let score := [(1#2); (1#3); (3#4); 2; 0] in
  Forall (fun c => 0 <= c) (costs I) /\ Forall (fun s => 0 <= s) score /\
  maxwelfare_pd I score [2; 4; 0; 3; 1]%nat [] = Some [3; 0; 1]%nat /\
  bf_max I score [] = Some (17 # 6) /\
  bf_optima I score [] = [[0; 1; 3]%nat; [0; 1; 3; 4]%nat] /\
  maxwelfare_pd I score [2; 4; 0; 3; 1]%nat [2]%nat = Some [2; 3]%nat /\
  check (mkCase (costs I) 1 score [2; 4; 0; 3; 1]%nat [] 0 [[0; 1; 3]%nat]) = [] /\
  check (mkCase (costs I) 1 score [2; 4; 0; 3; 1]%nat [] 0 [[2; 3]%nat]) = [4; 6]%nat /\
  check (mkCase (costs I) 1 score [2; 4; 0; 3; 1]%nat [] 2 [[3; 1; 0]%nat; [0; 1; 3; 4]%nat]) = [] /\
  check (mkCase (costs I) 1 score [2; 4; 0; 3; 1]%nat [] 2 [[3; 1; 0]%nat]) = [5]%nat /\
  (* negative total satisfaction (costs 1, 1, budget 2, one cardinal ballot {a: -3, b: 3}): only b is taken *)
  maxwelfare_pd (mkInst [1; 1] 2) [-(3); 3] [0; 1]%nat [] = Some [1]%nat /\
  bf_optima (mkInst [1; 1] 2) [-(3); 3] [] = [[1]%nat] /\
  check (mkCase [1; 1] 2 [-(3); 3] [0; 1]%nat [] 0 [[]]) = [4; 6]%nat.
Proof.
  cbv zeta. split; [repeat constructor; discriminate|]. split; [repeat constructor; discriminate|].
  vm_compute. repeat split; reflexivity.
Qed.
