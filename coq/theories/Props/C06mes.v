(* Props/C06mes.v -- property C06, Equal Shares: the model on voter classes with multiplicities and the
   model on the expanded list of single voters (Base/Election.v [expand]) select the same set, for all
   four entry points.  [expanded x] = x with mi_voters := expand (mi_voters x) (Proofs/MesMult.v).
   Only statements closed by [exact]; proofs in Proofs/MesMult.v, Proofs/MesIrrSpec.v,
   Proofs/MesMultIrr.v (route: both runs refine the textbook rule of Spec/MesSpec.v, on which a class
   of k voters and k single voters are the same: [paid], [supp_money] are multiplicity-weighted sums,
   [charge] acts per class). *)
From PB Require Import Model.MesRule Spec.MesSpec Proofs.MesWf Proofs.MesSpecExec Proofs.MesMult
  Proofs.MesIrrSpec Proofs.MesMultIrr.
From PB Require Proofs.MultiP Proofs.InvarianceMesRunP.
Open Scope Q_scope.

(* the textbook rule: a run on classes with budgets b is a run on the expanded voters with budgets
   [expand_buds P b] (each copy holds what its class holds per copy) *)
Theorem C06_spec_run_expand : forall cs P tb b rem W, spec_run cs P tb b rem W ->
  length P = length b -> forall be, beq be (MultiP.expand_buds P b) -> spec_run cs (expand P) tb be rem W.
Proof. exact spec_run_expand. Qed.
Print Assumptions C06_spec_run_expand.

Theorem C06_paid_expand : forall P b rho p, length P = length b ->
  paid (expand P) (MultiP.expand_buds P b) rho p == paid P b rho p.
Proof. exact paid_expand. Qed.
Print Assumptions C06_paid_expand.

Theorem C06_charge_expand : forall P b rho p, length P = length b ->
  MultiP.expand_buds P (charge P b rho p) = charge (expand P) (MultiP.expand_buds P b) rho p.
Proof. exact charge_expand. Qed.
Print Assumptions C06_charge_expand.

(* M mes_mult, resolute (the statement of the UNPROVED block of Props/C06.v, as sets) *)
Theorem C06_mes_mult : forall x o o',
  wf_voters (mi_voters x) -> tcost (mi_inst x) (mi_init x) <= mi_budget x -> NoDup (mi_enum x) ->
  (forall p, In p (mi_enum x) <-> (p < length (mi_costs x))%nat) ->
  mes_resolute x = Some o ->
  mes_resolute (mkIn (mi_costs x) (mi_budget x) (expand (mi_voters x)) (mi_tb x) (mi_enum x) (mi_bin x) (mi_init x)) = Some o' ->
  set_eq (o_alloc o) (o_alloc o').
Proof. exact mes_mult. Qed.
Print Assumptions C06_mes_mult.

(* ... and both calls do return *)
Theorem C06_mes_mult_total : forall x,
  wf_voters (mi_voters x) -> tcost (mi_inst x) (mi_init x) <= mi_budget x -> NoDup (mi_enum x) ->
  (forall p, In p (mi_enum x) <-> (p < length (mi_costs x))%nat) ->
  exists o o', mes_resolute x = Some o /\ mes_resolute (expanded x) = Some o' /\ set_eq (o_alloc o) (o_alloc o').
Proof. exact mes_mult_total. Qed.
Print Assumptions C06_mes_mult_total.

(* every run of the inner algorithm from a common endowment b0 >= 0 *)
Theorem C06_mes_run_mult : forall x b0 o o',
  wf_voters (mi_voters x) -> 0 <= b0 -> NoDup (mi_enum x) ->
  (forall p, In p (mi_enum x) <-> (p < length (mi_costs x))%nat) ->
  run_once_res x b0 = Some o -> run_once_res (expanded x) b0 = Some o' ->
  set_eq (o_alloc o) (o_alloc o').
Proof. exact run_once_mult. Qed.
Print Assumptions C06_mes_run_mult.

(* M mes_mult, irresolute: the same set of (name-sorted) allocations *)
Theorem C06_mes_irresolute_mult : forall x L L',
  wf_voters (mi_voters x) -> tcost (mi_inst x) (mi_init x) <= mi_budget x -> NoDup (mi_enum x) ->
  (forall p, In p (mi_enum x) <-> (p < length (mi_costs x))%nat) ->
  mes_irresolute x = Some L -> mes_irresolute (expanded x) = Some L' ->
  forall X, In X L <-> In X L'.
Proof. exact mes_irr_mult. Qed.
Print Assumptions C06_mes_irresolute_mult.

(* M mes_mult, iterated variants (voter_budget_increment = inc >= 0, any outer fuel): both return
   the same set / set of sets, or both run out of the outer fuel.
   [operm a b] := both Some with Permutation of o_alloc, or both None;
   [oseteq a b] := both Some with the same elements, or both None *)
Theorem C06_mes_iter_mult : forall x,
  wf_voters (mi_voters x) -> NoDup (mi_init x) -> (forall p, In p (mi_init x) -> (p < length (mi_costs x))%nat) ->
  NoDup (mi_enum x) -> (forall p, In p (mi_enum x) <-> (p < length (mi_costs x))%nat) ->
  forall fuel inc, 0 <= inc -> tcost (mi_inst x) (mi_init x) <= mi_budget x ->
  InvarianceMesRunP.operm (mes_iter_resolute fuel x inc) (mes_iter_resolute fuel (expanded x) inc).
Proof. exact mes_iter_mult. Qed.
Print Assumptions C06_mes_iter_mult.

Theorem C06_mes_iter_irresolute_mult : forall x,
  wf_voters (mi_voters x) -> NoDup (mi_enum x) -> (forall p, In p (mi_enum x) <-> (p < length (mi_costs x))%nat) ->
  forall fuel inc, 0 <= inc -> tcost (mi_inst x) (mi_init x) <= mi_budget x ->
  oseteq (mes_iter_irresolute fuel x inc) (mes_iter_irresolute fuel (expanded x) inc).
Proof. exact mes_iter_irr_mult. Qed.
Print Assumptions C06_mes_iter_irresolute_mult.

(* non-vacuity: a class of multiplicity 2 vs two single voters, resolute and irresolute *)
Example C06mes_nonvacuous :
  let P := [mkV [1; 1; 0] 1%nat; mkV [1; 0; 1] 2%nat; mkV [0; 1; 1] 1%nat] in
  let x := mkIn [2; 3; 3] 6 P (key_of_list [0; 2; 1]) [2; 0; 1]%nat false [] in
  length (expand P) = 4%nat /\
  option_map o_alloc (mes_resolute x) = Some [0; 2]%nat /\
  option_map o_alloc (mes_resolute (expanded x)) = Some [0; 2]%nat /\
  mes_irresolute x = mes_irresolute (expanded x).
Proof. vm_compute. repeat split; reflexivity. Qed.
