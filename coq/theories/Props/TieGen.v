(* Props/TieGen.v -- the tie-breaking rules, REGENERATED tie (used by the rule properties C02/C03/C05):
   the keys of the four shipped rules and TieBreakingRule.order / untie are translated from pabutools/tiebreaking.py
   on every run (Generated/PyFuncs.v, harness/vharness/pytrans.py); the theorems say that they are the keys
   (Model/Phragmen.v tb_lexico, tb_app_score, tb_min_cost, tb_max_cost) and the stable order / first element
   (Base/Election.v tie_order, untie) the rule models are run with.  Only statements closed by exact; proofs in
   Proofs/PyGenTieP.v. *)
From Coq Require Import String.
From PB Require Import Model.PyPrims Generated.PyFuncs Proofs.PyGenLib Proofs.PyGenTieP.
From PB Require Model.Phragmen.
Open Scope Q_scope.

Theorem TieGen_lexico_key_ok :
  forall I P p, gen_lexico_tie_breaking_key I P p == Phragmen.tb_lexico p.
Proof. exact gen_lexico_key_ok. Qed.
Print Assumptions TieGen_lexico_key_ok.

Theorem TieGen_app_score_key_ok :
  forall I P p, gen_app_score_tie_breaking_key I P p == Phragmen.tb_app_score P p.
Proof. exact gen_app_score_key_ok. Qed.
Print Assumptions TieGen_app_score_key_ok.

Theorem TieGen_min_cost_key_ok :
  forall I P p, gen_min_cost_tie_breaking_key I P p == Phragmen.tb_min_cost I p.
Proof. exact gen_min_cost_key_ok. Qed.
Print Assumptions TieGen_min_cost_key_ok.

Theorem TieGen_max_cost_key_ok :
  forall I P p, gen_max_cost_tie_breaking_key I P p == Phragmen.tb_max_cost I p.
Proof. exact gen_max_cost_key_ok. Qed.
Print Assumptions TieGen_max_cost_key_ok.

Theorem TieGen_refuse_key_ok :
  forall I P p, gen_refuse_tie_breaking_key I P p = None.
Proof. exact gen_refuse_key_ok. Qed.
Print Assumptions TieGen_refuse_key_ok.

Theorem TieGen_order_ok :
  forall (f : inst -> list aballot -> proj -> Q) I P l,
  gen_TieBreakingRule_order f I P l = tb_order_of_key (f I P) l.
Proof. exact gen_order_ok. Qed.
Print Assumptions TieGen_order_ok.

Theorem TieGen_order_key_ok :
  forall (f : inst -> list aballot -> proj -> Q) I P l k,
  gen_TieBreakingRule_order_key f I P l k = tb_order_of_key (fun x => f I P (k x)) l.
Proof. exact gen_order_key_ok. Qed.
Print Assumptions TieGen_order_key_ok.

Theorem TieGen_untie_ok :
  forall (f : inst -> list aballot -> proj -> Q) I P l,
  gen_TieBreakingRule_untie f I P l = tb_untie_of_key (f I P) l.
Proof. exact gen_untie_ok. Qed.
Print Assumptions TieGen_untie_ok.

Theorem TieGen_untie_key_ok :
  forall (f : inst -> list aballot -> proj -> Q) I P l k,
  gen_TieBreakingRule_untie_key f I P l k = hd_error (tb_order_of_key (fun x => f I P (k x)) l).
Proof. exact gen_untie_key_ok. Qed.
Print Assumptions TieGen_untie_key_ok.

Theorem TieGen_untie_is_first :
  forall (f : inst -> list aballot -> proj -> Q) I P l,
  gen_TieBreakingRule_untie f I P l = hd_error (gen_TieBreakingRule_order f I P l).
Proof. exact gen_untie_is_first. Qed.
Print Assumptions TieGen_untie_is_first.

Theorem TieGen_order_perm :
  forall (f : inst -> list aballot -> proj -> Q) I P l,
  Permutation l (gen_TieBreakingRule_order f I P l).
Proof. exact gen_order_perm. Qed.
Print Assumptions TieGen_order_perm.

Theorem TieGen_order_stable :
  forall (f : inst -> list aballot -> proj -> Q) I P (R : proj -> proj -> Prop) l,
  StronglySorted R l ->
  StronglySorted (fun x y => f I P x <= f I P y /\ (f I P y <= f I P x -> R x y)) (gen_TieBreakingRule_order f I P l).
Proof. exact gen_order_stable. Qed.
Print Assumptions TieGen_order_stable.

Theorem TieGen_lexico_order_ok :
  forall I P l, gen_lexico_tie_breaking_order I P l = tie_order Phragmen.tb_lexico l.
Proof. exact gen_lexico_order_ok. Qed.
Print Assumptions TieGen_lexico_order_ok.

Theorem TieGen_lexico_untie_ok :
  forall I P l, gen_lexico_tie_breaking_untie I P l = untie Phragmen.tb_lexico l.
Proof. exact gen_lexico_untie_ok. Qed.
Print Assumptions TieGen_lexico_untie_ok.

Theorem TieGen_app_score_order_ok :
  forall I P l,
  gen_app_score_tie_breaking_order I P l = tie_order (Phragmen.tb_app_score P) l.
Proof. exact gen_app_score_order_ok. Qed.
Print Assumptions TieGen_app_score_order_ok.

Theorem TieGen_app_score_untie_ok :
  forall I P l,
  gen_app_score_tie_breaking_untie I P l = untie (Phragmen.tb_app_score P) l.
Proof. exact gen_app_score_untie_ok. Qed.
Print Assumptions TieGen_app_score_untie_ok.

Theorem TieGen_min_cost_order_ok :
  forall I P l,
  gen_min_cost_tie_breaking_order I P l = tie_order (Phragmen.tb_min_cost I) l.
Proof. exact gen_min_cost_order_ok. Qed.
Print Assumptions TieGen_min_cost_order_ok.

Theorem TieGen_min_cost_untie_ok :
  forall I P l,
  gen_min_cost_tie_breaking_untie I P l = untie (Phragmen.tb_min_cost I) l.
Proof. exact gen_min_cost_untie_ok. Qed.
Print Assumptions TieGen_min_cost_untie_ok.

Theorem TieGen_max_cost_order_ok :
  forall I P l,
  gen_max_cost_tie_breaking_order I P l = tie_order (Phragmen.tb_max_cost I) l.
Proof. exact gen_max_cost_order_ok. Qed.
Print Assumptions TieGen_max_cost_order_ok.

Theorem TieGen_max_cost_untie_ok :
  forall I P l,
  gen_max_cost_tie_breaking_untie I P l = untie (Phragmen.tb_max_cost I) l.
Proof. exact gen_max_cost_untie_ok. Qed.
Print Assumptions TieGen_max_cost_untie_ok.

Theorem TieGen_tie_rules_ok :
  gen_tie_rules = ["lexico_tie_breaking"; "app_score_tie_breaking"; "min_cost_tie_breaking"; "max_cost_tie_breaking";
                   "refuse_tie_breaking"]%string.
Proof. exact gen_tie_rules_ok. Qed.
Print Assumptions TieGen_tie_rules_ok.

Theorem TieGen_tie_all_translated :
  gen_untranslated_tie = [].
Proof. exact gen_tie_all_translated. Qed.
Print Assumptions TieGen_tie_all_translated.
