(* Props/C08.v -- property C08: with resoluteness switched off, greedy, Equal Shares and sequential Phragmen return,
   without duplicates, exactly the allocations that resolute runs produce when ties are broken by every strict order
   over the projects; the resolute outcome under ANY tie-breaking rule is one of the irresolute outcomes.
   Only statements closed by [exact]; the proofs live in Proofs/ChoiceProcess.v and Proofs/IrresoluteP.v.
   A strict order pi ("earlier in pi wins") is the tie-breaking key [rank_in pi] (Base/RankIn.v), i.e. the rule
   TieBreakingRule(lambda inst, prof, p: position of p in pi). *)
From PB Require Import Base.RankIn Proofs.ChoiceProcess Proofs.IrresoluteP.
From PB Require Import Model.Phragmen Model.GreedyRule Model.MesRule.
From PB Require Oracle.C08.
Notation oracle_ok := PB.Oracle.C08.oracle_ok.
Notation canon := PB.Oracle.Common.canon.
Open Scope Q_scope.

(* ---------- the generic theorem (DESIGN.md A.5) ---------- *)

(* For a process with tied candidates [ties], successor [next], report [out] in which a chosen project never
   re-enters a later tied set (stated through the shrinking pool [avail]): the leaves of the full branching tree are
   exactly the resolute runs under the keys rank_in pi, pi a permutation of the universe of projects. *)
Theorem C08_choice_process_orders :
  forall (S C R : Type) (cid : C -> proj) (ties : S -> list C) (next : S -> C -> S) (out : S -> R)
         (Inv : S -> Prop) (avail : S -> list proj),
    (forall s c, Inv s -> In c (ties s) -> Inv (next s c)) ->
    (forall s c, Inv s -> In c (ties s) -> In (cid c) (avail s)) ->
    (forall s, Inv s -> NoDup (map cid (ties s))) ->
    (forall s c q, Inv s -> In c (ties s) -> In q (avail (next s c)) -> In q (avail s) /\ q <> cid c) ->
    forall univ, NoDup univ ->
    forall tb0 fuel s L, Inv s -> incl (avail s) univ -> branch cid ties next out tb0 fuel s = Some L ->
    forall X, In X L <->
      exists pi, Permutation pi univ /\ run cid ties next out (rank_in pi) fuel s = Some X.
Proof. exact leaves_eq_orders. Qed.
Print Assumptions C08_choice_process_orders.

(* the resolute run under ANY key ends in a leaf of the branching tree built with ANY key (no side condition) *)
Theorem C08_choice_resolute_in_irresolute :
  forall (S C R : Type) (cid : C -> proj) (ties : S -> list C) (next : S -> C -> S) (out : S -> R)
         (tb tb0 : proj -> Q) fuel s X L,
    run cid ties next out tb fuel s = Some X -> branch cid ties next out tb0 fuel s = Some L -> In X L.
Proof. exact run_in_branch. Qed.
Print Assumptions C08_choice_resolute_in_irresolute.

(* enough fuel: the tree is finite and has at least one leaf *)
Theorem C08_choice_total :
  forall (S C R : Type) (cid : C -> proj) (ties : S -> list C) (next : S -> C -> S) (out : S -> R)
         (Inv : S -> Prop) (avail : S -> list proj),
    (forall s c, Inv s -> In c (ties s) -> Inv (next s c)) ->
    (forall s c, Inv s -> In c (ties s) -> In (cid c) (avail s)) ->
    (forall s c q, Inv s -> In c (ties s) -> In q (avail (next s c)) -> In q (avail s) /\ q <> cid c) ->
    (forall s, Inv s -> NoDup (avail s)) ->
    forall tb fuel s, Inv s -> (length (avail s) <= fuel)%nat ->
    exists L, branch cid ties next out tb fuel s = Some L /\ L <> [].
Proof. exact branch_total. Qed.
Print Assumptions C08_choice_total.

(* ---------- sequential Phragmen (Model/Phragmen.v) ---------- *)

Theorem C08_phragmen_irr_eq_orders :
  forall (I : inst) (P : list aballot) (enum : list proj) (loads : list Q) (init : list proj),
    NoDup enum ->
    forall tb0 Ws, phragmen_irr I P tb0 enum loads init = Some Ws ->
    forall X, In X Ws <->
      exists pi, Permutation pi enum /\ phragmen_res I P (rank_in pi) enum loads init = Some X.
Proof. exact phragmen_irr_eq_orders. Qed.
Print Assumptions C08_phragmen_irr_eq_orders.

Theorem C08_phragmen_irr_nodup :
  forall I P enum loads init tb0 Ws, phragmen_irr I P tb0 enum loads init = Some Ws -> NoDup Ws.
Proof. exact phragmen_irr_nodup. Qed.
Print Assumptions C08_phragmen_irr_nodup.

Theorem C08_phragmen_resolute_in_irresolute :
  forall I P enum loads init (tb tb0 : proj -> Q) X Ws,
    phragmen_res I P tb enum loads init = Some X ->
    phragmen_irr I P tb0 enum loads init = Some Ws -> In X Ws.
Proof. exact phragmen_resolute_in_irresolute. Qed.
Print Assumptions C08_phragmen_resolute_in_irresolute.

Theorem C08_phragmen_irr_key_irrelevant :
  forall I P enum loads init, NoDup enum ->
    forall tb0 tb1 Ws0 Ws1,
    phragmen_irr I P tb0 enum loads init = Some Ws0 ->
    phragmen_irr I P tb1 enum loads init = Some Ws1 -> forall X, In X Ws0 <-> In X Ws1.
Proof. exact phragmen_irr_key_irrelevant. Qed.
Print Assumptions C08_phragmen_irr_key_irrelevant.

(* the "= Some" hypotheses above are always satisfiable (the internal fuel suffices), and the list is non-empty *)
Theorem C08_phragmen_total :
  forall I P enum loads init, NoDup enum -> forall tb,
    (exists Ws, phragmen_irr I P tb enum loads init = Some Ws /\ Ws <> []) /\
    (exists X, phragmen_res I P tb enum loads init = Some X).
Proof. exact phragmen_irr_res_total. Qed.
Print Assumptions C08_phragmen_total.

(* ---------- greedy welfare rule (Model/GreedyRule.v) ---------- *)

(* the general scheme, for ANY satisfaction function (additive or not) *)
Theorem C08_greedy_irr_eq_orders :
  forall (I : inst) (sat : list proj -> Q) (init : list proj) tb0 Ws,
    greedy_gen_irr I sat tb0 init = Some Ws ->
    forall X, In X Ws <->
      exists pi W, Permutation pi (all_projects I) /\
                   greedy_gen_res I sat (rank_in pi) init = Some W /\ X = name_sort W.
Proof. exact greedy_gen_irr_eq_orders. Qed.
Print Assumptions C08_greedy_irr_eq_orders.

Theorem C08_greedy_irr_nodup :
  forall I sat init tb0 Ws, greedy_gen_irr I sat tb0 init = Some Ws -> NoDup Ws.
Proof. exact greedy_gen_irr_nodup. Qed.
Print Assumptions C08_greedy_irr_nodup.

Theorem C08_greedy_resolute_in_irresolute :
  forall I sat init (tb tb0 : proj -> Q) W Ws,
    greedy_gen_res I sat tb init = Some W -> greedy_gen_irr I sat tb0 init = Some Ws -> In (name_sort W) Ws.
Proof. exact greedy_gen_resolute_in_irresolute. Qed.
Print Assumptions C08_greedy_resolute_in_irresolute.

Theorem C08_greedy_total :
  forall I sat init tb,
    (exists Ws, greedy_gen_irr I sat tb init = Some Ws /\ Ws <> []) /\
    (exists W, greedy_gen_res I sat tb init = Some W).
Proof. exact greedy_gen_irr_res_total. Qed.
Print Assumptions C08_greedy_total.

(* greedy_utilitarian_welfare with is_sat_additive = True: resolute calls take the sort-once fast path, irresolute
   calls the general scheme; for a satisfaction function that is additive and non-negative the correspondence holds *)
Theorem C08_greedy_additive_irr_eq_orders :
  forall (I : inst) (sat : list proj -> Q) (sp : proj -> Q),
    Forall (fun c => 0 <= c) (costs I) ->
    (forall W, sat W == Qsum (map sp W)) -> (forall p, 0 <= sp p) ->
    forall tb0 init Ws, feasible I init ->
    greedy_welfare_irr I sat tb0 true init = Some Ws ->
    forall X, In X Ws <->
      exists pi W, Permutation pi (all_projects I) /\
                   greedy_welfare_res I sat sp (rank_in pi) true init = Some W /\ X = name_sort W.
Proof. exact greedy_irr_eq_orders_additive. Qed.
Print Assumptions C08_greedy_additive_irr_eq_orders.

Theorem C08_greedy_welfare_resolute_in_irresolute :
  forall (I : inst) (sat : list proj -> Q) (sp : proj -> Q),
    Forall (fun c => 0 <= c) (costs I) ->
    (forall W, sat W == Qsum (map sp W)) -> (forall p, 0 <= sp p) ->
    forall additive (tb tb0 : proj -> Q) init W Ws,
    (additive = true -> feasible I init) ->
    greedy_welfare_res I sat sp tb additive init = Some W ->
    greedy_welfare_irr I sat tb0 additive init = Some Ws -> In (name_sort W) Ws.
Proof. exact greedy_resolute_in_irresolute. Qed.
Print Assumptions C08_greedy_welfare_resolute_in_irresolute.

(* ---------- Method of Equal Shares (Model/MesRule.v) ---------- *)

Theorem C08_mes_irr_eq_orders :
  forall x : mes_in, NoDup (mi_enum x) ->
    forall tb0 Ws, mes_irresolute (with_tb x tb0) = Some Ws ->
    forall X, In X Ws <->
      exists pi o, Permutation pi (mi_enum x) /\ mes_resolute (with_tb x (rank_in pi)) = Some o /\
                   X = sort_alloc (o_alloc o).
Proof. exact mes_irr_eq_orders. Qed.
Print Assumptions C08_mes_irr_eq_orders.

Theorem C08_mes_irr_nodup :
  forall (x : mes_in) tb0 Ws, mes_irresolute (with_tb x tb0) = Some Ws -> NoDup Ws.
Proof. exact mes_irr_nodup. Qed.
Print Assumptions C08_mes_irr_nodup.

Theorem C08_mes_resolute_in_irresolute :
  forall (x : mes_in) (tb tb0 : proj -> Q) o Ws,
    mes_resolute (with_tb x tb) = Some o -> mes_irresolute (with_tb x tb0) = Some Ws ->
    In (sort_alloc (o_alloc o)) Ws.
Proof. exact mes_resolute_in_irresolute. Qed.
Print Assumptions C08_mes_resolute_in_irresolute.

Theorem C08_mes_total :
  forall x : mes_in, NoDup (mi_enum x) -> forall tb,
    (exists Ws, mes_irresolute (with_tb x tb) = Some Ws /\ Ws <> []) /\
    (exists o, mes_resolute (with_tb x tb) = Some o).
Proof. exact mes_irr_res_total. Qed.
Print Assumptions C08_mes_total.

(* ---------- the boolean the oracle evaluates on the implementation's own lists ---------- *)

Theorem C08_oracle_ok_iff :
  forall irr perm : list (list nat),
    oracle_ok irr perm = true <->
    NoDup (map canon irr) /\ forall X, In X (map canon irr) <-> In X (map canon perm).
Proof. exact oracle_ok_iff. Qed.
Print Assumptions C08_oracle_ok_iff.

(* ---------- non-vacuity: one voter approving two unit-cost projects, budget 1 ---------- *)
Example C08_nonvacuous :
  let I := mkInst [1; 1] 1 in
  let P := [mkA [0; 1]%nat 1] in
  let x := fun tb => mkIn [1; 1] 1 [mkV [1; 1] 1] tb [0; 1]%nat true [] in
  let card := fun W : list nat => Qnat (length W) in
  phragmen_irr I P tb_lexico [0; 1]%nat [0] [] = Some [[0]; [1]]%nat /\
  phragmen_res I P (rank_in [0; 1]%nat) [0; 1]%nat [0] [] = Some [0]%nat /\
  phragmen_res I P (rank_in [1; 0]%nat) [0; 1]%nat [0] [] = Some [1]%nat /\
  greedy_gen_irr I card tb_lexico [] = Some [[0]; [1]]%nat /\
  greedy_gen_res I card (rank_in [1; 0]%nat) [] = Some [1]%nat /\
  mes_irresolute (x tb_lexico) = Some [[0]; [1]]%nat /\
  option_map o_alloc (mes_resolute (x (rank_in [1; 0]%nat))) = Some [1]%nat /\
  oracle_ok [[0]; [1]]%nat [[1]; [0]]%nat = true /\ oracle_ok [[0]]%nat [[1]; [0]]%nat = false.
Proof. vm_compute. repeat split; reflexivity. Qed.
