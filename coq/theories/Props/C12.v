(* Props/C12.v -- property C12: the priceability analysis is sound and complete on decidable instances.
   Only statements closed by [exact]; the proofs live in Proofs/PriceabilityP.v.
   Spec: Spec/PriceSystem.v (conditions C0a, C0b, P0, C1..C5, S5).  Model: Model/Priceability.v. *)
From PB Require Import Model.Priceability Proofs.PriceabilityP.
From Coq Require Import Qabs.
Open Scope Q_scope.

(* Python's round(x, 2) on exact rationals: monotone, and never further than half a unit of the last digit *)
Theorem C12_rnd_props :
  (forall x y, x <= y -> rnd x <= rnd y) /\ (forall x, Qabs (rnd x - x) <= 1 # 200).
Proof. exact rnd_props. Qed.
Print Assumptions C12_rnd_props.

(* the validator accepts every pair that meets the conditions exactly ... *)
Theorem C12_validate_complete : forall I A W b P stable exh,
  price_system I A W b (pay_of P) stable exh -> validate_ps I A W b P stable exh = true.
Proof. exact validate_complete. Qed.
Print Assumptions C12_validate_complete.

(* ... and whatever it accepts meets C0a, C0b, C1 exactly and P0, C2..C5/S5 up to 1/100; hence a pair
   that breaks a condition by more than 1/100 (the property asks for 1/10) is rejected *)
Theorem C12_validate_sound_tol : forall I A W b P stable exh,
  validate_ps I A W b P stable exh = true ->
  price_system_tol I A W b (pay_of P) (1 # 100) stable exh.
Proof. exact validate_sound_tol. Qed.
Print Assumptions C12_validate_sound_tol.

Theorem C12_validate_sound_margin : forall I A W b P stable exh,
  ~ price_system_tol I A W b (pay_of P) (1 # 100) stable exh ->
  validate_ps I A W b P stable exh = false.
Proof. exact validate_sound_margin. Qed.
Print Assumptions C12_validate_sound_margin.

(* the checkers evaluated in the case files *)
Theorem C12_witness_checker_sound : forall I A W b P stable exh,
  check_witness I A W b P stable exh = true ->
  feasible I W /\ price_system I A W b (pay_of P) stable exh.
Proof. exact witness_checker_sound. Qed.
Print Assumptions C12_witness_checker_sound.

Theorem C12_witness_checker_complete : forall I A W b P stable exh,
  wf_alloc I W -> price_system I A W b (pay_of P) stable exh ->
  check_witness I A W b P stable exh = true.
Proof. exact witness_checker_complete. Qed.
Print Assumptions C12_witness_checker_complete.

Theorem C12_tolerant_checker_sound : forall eps I A W b P stable exh,
  check_ps_eps eps I A W b P stable exh = true ->
  price_system_tol I A W b (pay_of P) eps stable exh.
Proof. exact check_ps_eps_sound. Qed.
Print Assumptions C12_tolerant_checker_sound.

(* Farkas: multipliers y >= 0 with sum_j y_j row_j = 0 and sum_j y_j rhs_j < 0 refute "rows . x <= rhs";
   generic in the type of variables (any decidable equality) *)
Theorem C12_farkas_checker_sound :
  forall (V : Type) (veqb : V -> V -> bool), (forall u v, veqb u v = true <-> u = v) ->
  forall vars rows ys, check_farkas veqb vars rows ys = true -> forall x, ~ sat x rows.
Proof. exact (fun V veqb H vars rows ys Hc x => @farkas_sound V veqb H vars rows ys Hc x). Qed.
Print Assumptions C12_farkas_checker_sound.

(* every price system solves the linear system ps_rows ... *)
Theorem C12_ps_rows_complete : forall I A W b pay stable exh lb,
  price_system I A W b pay stable exh -> 0 <= b ->
  (lb = true -> budget I <= Qnat (length A) * b) ->
  sat (ps_env I b pay) (ps_rows I A W stable lb).
Proof. exact ps_rows_complete. Qed.
Print Assumptions C12_ps_rows_complete.

(* ... so an accepted certificate means: W has no price system (with "budget <= n b" when lb is set) *)
Theorem C12_no_price_system_certified : forall I A W stable exh lb ys,
  check_no_ps I A W stable exh lb ys = true ->
  ~ exists b pay, price_system I A W b pay stable exh /\ (lb = true -> budget I <= Qnat (length A) * b).
Proof. exact check_no_ps_sound. Qed.
Print Assumptions C12_no_price_system_certified.

(* the MIP built by priceable(): any solution with 0/1 selection variables is a feasible allocation with
   a price system (equal to the given allocation when one is given) *)
Theorem C12_encoding_sound : forall I A alloc stable exh a,
  ps_constraints I A alloc stable exh a = true -> binary I a ->
  feasible I (alloc_of I a)
  /\ price_system I A (alloc_of I a) (a_b a) (pv a) stable exh
  /\ (forall W0, alloc = Some W0 -> forall c, (c < nproj I)%nat -> (In c (alloc_of I a) <-> In c W0))
  /\ (alloc = None -> exh = false -> budget I <= a_b a * Qnat (length A)).
Proof. exact encoding_sound. Qed.
Print Assumptions C12_encoding_sound.

(* conversely a price system extends to a solution of the MIP -- under the hypotheses the proof forces:
   the "+1" of row C0b (integral data), budget >= 1, and n * b within the big-M constant *)
Theorem C12_encoding_complete : forall I A W b pay stable exh alloc,
  Forall (fun c => 0 <= c) (costs I) ->
  wf_alloc I W ->
  price_system I A W b pay stable exh ->
  0 <= b ->
  alloc = None \/ alloc = Some W ->
  (exh = true -> 1 <= budget I /\
      forall c, (c < nproj I)%nat -> ~ In c W -> budget I + 1 <= tcost I W + cost I c) ->
  (alloc = None -> exh = false -> budget I <= b * Qnat (length A)) ->
  Qnat (length A) * b <= bigM I ->
  let a := asg_of I A W b pay stable in
  ps_constraints I A alloc stable exh a = true /\ binary I a
  /\ (forall c, (c < nproj I)%nat -> (In c (alloc_of I a) <-> In c W)).
Proof. exact encoding_complete. Qed.
Print Assumptions C12_encoding_complete.

(* on the instances of the property's quantifier (integral costs and budget >= 1, 1..10 voters) the call
   with a given allocation W has a solution whenever W is (stable-)priceable *)
Theorem C12_encoding_complete_int : forall I A W stable exh,
  Forall (fun c => 0 <= c) (costs I) -> integral (budget I) -> Forall integral (costs I) ->
  1 <= budget I -> (0 < length A <= 10)%nat -> wf_alloc I W ->
  priceable_spec I A W stable exh ->
  exists a, ps_constraints I A (Some W) stable exh a = true /\ binary I a
            /\ (forall c, (c < nproj I)%nat -> (In c (alloc_of I a) <-> In c W)).
Proof. exact encoding_complete_int. Qed.
Print Assumptions C12_encoding_complete_int.

(* the searched call (budget_allocation=None): some allocation with a price system (and budget <= n * b when
   the call is non-exhaustive: the library's "no empty allocation" row) gives a solution selecting it *)
Theorem C12_encoding_complete_search_int : forall I A W stable exh b pay,
  Forall (fun c => 0 <= c) (costs I) -> integral (budget I) -> Forall integral (costs I) ->
  1 <= budget I -> (0 < length A <= 10)%nat -> wf_alloc I W ->
  price_system I A W b pay stable exh ->
  (exh = false -> budget I <= b * Qnat (length A)) ->
  exists a, ps_constraints I A None stable exh a = true /\ binary I a
            /\ (forall c, (c < nproj I)%nat -> (In c (alloc_of I a) <-> In c W)).
Proof. exact encoding_complete_search_int. Qed.
Print Assumptions C12_encoding_complete_search_int.

(* the integrality hypothesis is necessary: costs 1 and 1/2, budget 1, one voter approving the first
   project -- [0] is exhaustive and priceable, yet no assignment satisfies the rows (the "+ 1" of C0b).
   The real call answers INFEASIBLE on this input; fractional costs are outside the property's quantifier. *)
Theorem C12_encoding_complete_needs_integrality :
  let I := mkInst [1; 1 # 2] 1 in
  let A := [[0%nat]] in
  priceable_spec I A [0%nat] false true
  /\ forall a, ps_constraints I A (Some [0%nat]) false true a = false.
Proof. exact fractional_cost_incomplete. Qed.
Print Assumptions C12_encoding_complete_needs_integrality.

(* lowering the voter budget to the largest spending keeps a price system (used for the big-M bound) *)
Theorem C12_ps_shrink : forall I A W b pay stable exh b',
  price_system I A W b pay stable exh -> b' <= b ->
  (forall i, (i < length A)%nat -> spent I pay i <= b') ->
  price_system I A W b' pay stable exh.
Proof. exact ps_shrink. Qed.
Print Assumptions C12_ps_shrink.

(* an allocation that costs more than the budget has no price system, is rejected by the validator
   whatever the payments, and makes the MIP infeasible *)
Theorem C12_infeasible_never_priceable : forall I A W stable exh,
  budget I < tcost I W ->
  (forall b pay, ~ price_system I A W b pay stable exh)
  /\ (forall b P, validate_ps I A W b P stable exh = false)
  /\ (wf_alloc I W -> forall a, binary I a -> ps_constraints I A (Some W) stable exh a = false).
Proof. exact infeasible_never_priceable. Qed.
Print Assumptions C12_infeasible_never_priceable.

(* non-vacuity.  a (cost 2), c (1), d (5), budget 2, ballots {a,d} {c,d}:
   [a] is not priceable (Farkas certificate), although moving 1/2 between the voters through d -- a
   negative payment -- satisfies C0a..C5; the repaired validator rejects that pair.
   Second election: costs 2, 2, budget 2, ballots {0} {0,1}: [0] is priceable and stable-priceable. *)
Example C12_nonvacuous :
  let I := mkInst [2; 1; 5] 2 in
  let A := [[0; 2]; [1; 2]]%nat in
  let cheat := [[2; 0; -(1 # 2)]; [0; 0; 1 # 2]] in
  check_no_ps I A [0%nat] false true false [0; 0; 2; 2; 0; 0; 0; 0; 2; 1; 0; 0; 1; 1; 1; 1; 0] = true
  /\ check_witness I A [0%nat] (3 # 2) cheat false true = false
  /\ validate_ps I A [0%nat] (3 # 2) cheat false true = false
  /\ check_ps_eps (99 # 1000) I A [0%nat] (3 # 2) cheat false true = false
  /\ let J := mkInst [2; 2] 2 in
     let B := [[0]; [0; 1]]%nat in
     check_witness J B [0%nat] 2 [[2; 0]; [0; 0]] false true = true
     /\ validate_ps J B [0%nat] 2 [[2; 0]; [0; 0]] false true = true
     /\ check_witness J B [0%nat] 1 [[1; 0]; [1; 0]] true true = true
     /\ validate_ps J B [0%nat] 1 [[1 + (1 # 200); 0]; [1; 0]] true true = true
     /\ validate_ps J B [0%nat] 1 [[1 + (1 # 10); 0]; [1; 0]] true true = false
     /\ ps_constraints J B (Some [0%nat]) false true (asg_of J B [0%nat] 2 (pay_of [[2; 0]; [0; 0]]) false) = true
     /\ ps_constraints J B None true true (asg_of J B [0%nat] 1 (pay_of [[1; 0]; [1; 0]]) true) = true
     /\ ps_constraints I A (Some [0%nat]) false true (asg_of I A [0%nat] (3 # 2) (pay_of cheat) false) = false.
Proof. vm_compute. repeat split; reflexivity. Qed.

(* the big-M factor of the model is the one the SOURCE uses now (Generated/Anchors.v is re-extracted
   from priceability.py on every run: INF = max(budget, costs) * BIGM_FACTOR) *)
From PB Require Generated.Anchors.
Theorem C12_bigm_factor_is_the_sources : BIGM_FACTOR = inject_Z Anchors.ANCHOR_BIGM_FACTOR.
Proof. reflexivity. Qed.
Print Assumptions C12_bigm_factor_is_the_sources.
