(* Props/C10.v -- property C10: satisfaction measures compute their documented formulas exactly.
   Only statements closed by [exact]; the proofs live in Proofs/SatisfactionP.v.
   Vocabulary: Model/Satisfaction.v ([sat m E W] / [sat_project m E p] for the eleven shipped exact measures,
   E = instance, profile, ballot and -- for the two MIP-normalised measures -- the solver's 0/1 vector),
   Spec/SatSpec.v (the documented closed forms on W ∩ ballot with brute-force optima). *)
From PB Require Import Model.Satisfaction Spec.SatSpec Proofs.InstanceP Proofs.SatisfactionP.
Open Scope Q_scope.

(* ---------- additivity, empty set, dependence on the set only ---------- *)

(* every additive measure: the value of a collection is the sum of the sat_project values *)
Theorem C10_additive_sum : forall m E W,
  additive m = true -> sat m E W == Qsum (map (sat_project m E) W).
Proof. exact additive_sum. Qed.
Print Assumptions C10_additive_sum.

(* ... equivalently the sum of the values of the singletons; and sat_project(p) = sat([p]) for all measures *)
Theorem C10_additive_sum_singletons : forall m E W,
  additive m = true -> sat m E W == Qsum (map (fun p => sat m E [p]) W).
Proof. exact additive_sum_singletons. Qed.
Print Assumptions C10_additive_sum_singletons.

Theorem C10_sat_project_single : forall m E p, sat_project m E p == sat m E [p].
Proof. exact sat_project_single. Qed.
Print Assumptions C10_sat_project_single.

Theorem C10_sat_nil : forall m E, sat m E [] == 0.
Proof. exact sat_nil. Qed.
Print Assumptions C10_sat_nil.

(* order of the query is irrelevant *)
Theorem C10_sat_perm : forall m E W W', Permutation W W' -> sat m E W == sat m E W'.
Proof. exact sat_perm. Qed.
Print Assumptions C10_sat_perm.

(* two duplicate-free collections holding the same set of projects get the same value *)
Theorem C10_sat_set : forall m E W W',
  NoDup W -> NoDup W' -> (forall p, In p W <-> In p W') -> sat m E W == sat m E W'.
Proof. exact sat_set. Qed.
Print Assumptions C10_sat_set.

(* the two Chamberlin-Courant measures ignore repetitions as well *)
Theorem C10_cc_set_eq : forall m E W W',
  additive m = false -> (forall p, In p W <-> In p W') -> sat m E W == sat m E W'.
Proof. exact cc_set_eq. Qed.
Print Assumptions C10_cc_set_eq.

(* ---------- Chamberlin-Courant ---------- *)

(* approval: 1 exactly when a selected project is approved, else 0 *)
Theorem C10_cc_app_spec : forall b W,
  ((exists p, In p W /\ In p (bmem b)) -> cc_app b W = 1) /\
  (~ (exists p, In p W /\ In p (bmem b)) -> cc_app b W = 0).
Proof. exact cc_app_spec_thm. Qed.
Print Assumptions C10_cc_app_spec.

(* cardinal: an upper bound of the scores of the selected projects of the ballot that is 0 or attained *)
Theorem C10_cc_card_spec : forall b W,
  0 <= cc_card b W /\
  (forall p, In p W -> In p (bmem b) -> bget b p <= cc_card b W) /\
  (cc_card b W = 0 \/ exists p, In p W /\ In p (bmem b) /\ cc_card b W = bget b p).
Proof. exact cc_card_spec_thm. Qed.
Print Assumptions C10_cc_card_spec.

(* ---------- closed forms of the solver-free measures ---------- *)

(* Cardinality_Sat = |W ∩ A| *)
Theorem C10_cardinality_spec : forall E W,
  sat Cardinality E W == Qnat (length (filter (inb (eb E)) W)).
Proof. exact cardinality_eq_spec. Qed.
Print Assumptions C10_cardinality_spec.

(* Cost_Sat = c(W ∩ A) *)
Theorem C10_cost_spec : forall E W,
  sat Cost E W == tcost (eI E) (filter (inb (eb E)) W).
Proof. exact cost_eq_spec. Qed.
Print Assumptions C10_cost_spec.

(* Additive_Cardinal_Sat = Σ_{p∈W} score(p); a project outside the ballot scores 0, a listed one its score *)
Theorem C10_add_card_spec : forall E W, sat AddCardinal E W == Qsum (map (bget (eb E)) W).
Proof. exact add_card_eq_spec. Qed.
Print Assumptions C10_add_card_spec.

Theorem C10_score_outside : forall b p, ~ In p (bmem b) -> bget b p = 0.
Proof. exact bget_notin. Qed.
Print Assumptions C10_score_outside.

Theorem C10_score_listed : forall b p s, NoDup (bmem b) -> In (p, s) b -> bget b p = s.
Proof. exact bget_in. Qed.
Print Assumptions C10_score_listed.

(* Additive_Borda_Sat = Σ_{p ∈ W ∩ ballot} number of projects ranked after p; the i-th ranked project
   (from 0) of a ballot of length n gets n - i - 1 *)
Theorem C10_borda_spec : forall E W,
  sat Borda E W ==
  Qsum (map (fun p => Qnat (length (skipn (S (bpos (eb E) p)) (eb E)))) (filter (inb (eb E)) W)).
Proof. exact borda_eq_spec. Qed.
Print Assumptions C10_borda_spec.

Theorem C10_borda_position : forall b i d,
  NoDup (bmem b) -> (i < length b)%nat -> bpos b (nth i (bmem b) d) = i.
Proof. exact bpos_nth. Qed.
Print Assumptions C10_borda_position.

(* ---------- Effort_Sat ---------- *)

(* the denominator the code computes (Σ multiplicities of the ballots containing p) is the number of
   voters whose ballot contains p *)
Theorem C10_effort_denominator : forall P p,
  supporters P p = length (filter (fun b' => inb b' p) (expandP P)).
Proof. exact supporters_voters. Qed.
Print Assumptions C10_effort_denominator.

(* Effort_Sat = Σ_{p ∈ W ∩ A} c(p) / #voters approving p   (0 for a project nobody approves) *)
Theorem C10_effort_spec : forall E W,
  sat Effort E W ==
  Qsum (map (fun p => quot (cost (eI E) p) (Qnat (voters (eP E) p))) (filter (inb (eb E)) W)).
Proof. exact effort_eq_spec. Qed.
Print Assumptions C10_effort_spec.

(* ---------- Relative_Cardinality_Sat: normaliser = maximum cardinality ---------- *)

(* the cheapest-first count is the maximum number of projects of the ballot that fit (exchange argument,
   Proofs/InstanceP.v): attained by a sub-collection and not exceeded by any *)
Theorem C10_max_card_optimal : forall cs B,
  Forall (fun c => 0 <= c) cs -> 0 <= B ->
  (exists S, sublist S cs /\ Qsum S <= B /\ length S = max_card cs B) /\
  (forall S, sublist S cs -> Qsum S <= B -> (length S <= max_card cs B)%nat).
Proof. exact max_card_is_max. Qed.
Print Assumptions C10_max_card_optimal.

(* value = |W ∩ A| / n for THE maximum n (0 when n = 0) *)
Theorem C10_rel_card_spec : forall E W n,
  Forall (fun c => 0 <= c) (costs (eI E)) -> 0 <= budget (eI E) ->
  ((exists S, sublist S (bcosts (eI E) (eb E)) /\ Qsum S <= budget (eI E) /\ length S = n) /\
   (forall S, sublist S (bcosts (eI E) (eb E)) -> Qsum S <= budget (eI E) -> (length S <= n)%nat)) ->
  sat RelCardinality E W == quot (Qnat (length (filter (inb (eb E)) W))) (Qnat n).
Proof. exact rel_card_spec_thm. Qed.
Print Assumptions C10_rel_card_spec.

(* ---------- Relative_Cost_Sat: normaliser = maximum cost, under the solver-optimality hypothesis ---------- *)

(* hypothesis on the external solver, stated on the knapsack it is given: its 0/1 vector x (one entry per
   project of the ballot) is feasible and no feasible vector has a larger objective.  The repaired code
   re-evaluates x exactly (mip_value). *)
Theorem C10_rel_cost_spec : forall E W v,
  (length (ex E) = length (bcosts (eI E) (eb E)) /\
   mip_value (ex E) (bcosts (eI E) (eb E)) <= budget (eI E) /\
   forall y, length y = length (bcosts (eI E) (eb E)) ->
             mip_value y (bcosts (eI E) (eb E)) <= budget (eI E) ->
             mip_value y (bcosts (eI E) (eb E)) <= mip_value (ex E) (bcosts (eI E) (eb E))) ->
  (* v is THE largest cost of a sub-collection of the ballot within the budget *)
  ((exists S, sublist S (bcosts (eI E) (eb E)) /\ Qsum S <= budget (eI E) /\ Qsum S == v) /\
   (forall S, sublist S (bcosts (eI E) (eb E)) -> Qsum S <= budget (eI E) -> Qsum S <= v)) ->
  sat RelCost E W == quot (tcost (eI E) (filter (inb (eb E)) W)) v.
Proof. exact rel_cost_spec_thm. Qed.
Print Assumptions C10_rel_cost_spec.

(* under that hypothesis the exactly re-evaluated answer is the brute-force optimum the check compares with *)
Theorem C10_solver_cost_eq_bf : forall cs B x,
  Forall (fun c => 0 <= c) cs -> 0 <= B ->
  (length x = length cs /\ mip_value x cs <= B /\
   forall y, length y = length cs -> mip_value y cs <= B -> mip_value y cs <= mip_value x cs) ->
  mip_value x cs == max_cost_bf cs B.
Proof. exact solver_cost_eq_bf. Qed.
Print Assumptions C10_solver_cost_eq_bf.

(* Relative_Cost_Approx_Normaliser_Sat = c(W ∩ A) / min(c(A), B)  (0 when that is 0) *)
Theorem C10_rel_cost_approx_spec : forall E W,
  sat RelCostApprox E W ==
  quot (tcost (eI E) (filter (inb (eb E)) W)) (Qmin (tcost (eI E) (bmem (eb E))) (budget (eI E))).
Proof. exact rel_cost_approx_eq_spec. Qed.
Print Assumptions C10_rel_cost_approx_spec.

(* ---------- Additive_Cardinal_Relative_Sat: normaliser = best total score of a feasible set ---------- *)

Theorem C10_card_relative_spec : forall E W v,
  (let items := score_items (eI E) (eb E) in
   length (ex E) = length items /\ wsum (select (ex E) items) <= budget (eI E) /\
   forall y, length y = length items -> wsum (select y items) <= budget (eI E) ->
             psum (select y items) <= psum (select (ex E) items)) ->
  (let items := score_items (eI E) (eb E) in
   (exists S, sublist S items /\ wsum S <= budget (eI E) /\ psum S == v) /\
   (forall S, sublist S items -> wsum S <= budget (eI E) -> psum S <= v)) ->
  sat AddCardinalRel E W == quot (Qsum (map (bget (eb E)) W)) v.
Proof. exact card_relative_spec_thm. Qed.
Print Assumptions C10_card_relative_spec.

(* ---------- the model equals the executable documented formulas the check evaluates ---------- *)

Theorem C10_rel_card_eq_formula : forall E W,
  Forall (fun c => 0 <= c) (costs (eI E)) -> 0 <= budget (eI E) ->
  sat RelCardinality E W == rel_card_spec (eI E) (eb E) W.
Proof. exact rel_card_eq_spec. Qed.
Print Assumptions C10_rel_card_eq_formula.

Theorem C10_rel_cost_eq_formula : forall E W,
  Forall (fun c => 0 <= c) (costs (eI E)) -> 0 <= budget (eI E) ->
  solver_optimal_cost (bcosts (eI E) (eb E)) (budget (eI E)) (ex E) ->
  sat RelCost E W == rel_cost_spec (eI E) (eb E) W.
Proof. exact rel_cost_eq_spec. Qed.
Print Assumptions C10_rel_cost_eq_formula.

Theorem C10_card_relative_eq_formula : forall E W,
  0 <= budget (eI E) ->
  solver_optimal_score (score_items (eI E) (eb E)) (budget (eI E)) (ex E) ->
  sat AddCardinalRel E W == add_card_rel_spec (eI E) (eb E) W.
Proof. exact card_relative_eq_spec. Qed.
Print Assumptions C10_card_relative_eq_formula.

Theorem C10_cc_eq_formula : forall b W,
  cc_app b W = cc_app_spec b W /\ cc_card b W == cc_card_spec b W.
Proof. exact (fun b W => conj (cc_app_eq_spec b W) (cc_card_eq_spec b W)). Qed.
Print Assumptions C10_cc_eq_formula.

(* a feasible subset of the ballot never gets more than 1 from Relative_Cost_Sat *)
Theorem C10_rel_cost_le_one : forall E W v,
  solver_optimal_cost (bcosts (eI E) (eb E)) (budget (eI E)) (ex E) ->
  is_max_cost (bcosts (eI E) (eb E)) (budget (eI E)) v ->
  sublist W (bmem (eb E)) -> tcost (eI E) W <= budget (eI E) -> 0 < v ->
  sat RelCost E W <= 1.
Proof. exact rel_cost_le_one. Qed.
Print Assumptions C10_rel_cost_le_one.

(* ---------- non-vacuity ---------- *)

(* costs 1/3, 1/7, 2, 0; budget 1; approval ballot {0,1,2} cast twice and {2} once (a multiprofile); the
   solver vector [true;true;false] satisfies the optimality hypothesis (checked by enumeration), the
   normaliser is 10/21, and the measures take non-trivial values *)
Example C10_nonvacuous :
  let I := mkInst [1 # 3; 1 # 7; 2; 0] 1 in
  let b : ballot := [(0%nat, 0); (1%nat, 0); (2%nat, 0)] in
  let P : profile := [(b, 2%nat); ([(2%nat, 0)], 1%nat)] in
  let E := mkEnv I P b [true; true; false] in
  forallb (fun y => negb (Qleb (mip_value y (bcosts I b)) 1)
                    || Qleb (mip_value y (bcosts I b)) (mip_value (ex E) (bcosts I b)))
          (map (fun n => [Nat.odd n; Nat.odd (n / 2); Nat.odd (n / 4)]) (seq 0 8)) = true /\
  rel_cost_norm E == 10 # 21 /\
  sat RelCost E [0; 1]%nat == 1 /\ sat RelCost E [2; 3]%nat == 21 # 5 /\
  sat Effort E [2; 0]%nat == (2 # 3) + (1 # 6) /\
  sat RelCardinality E [0; 2; 3]%nat == 1 /\ sat Cardinality E [0; 2; 3]%nat == 2 /\
  sat RelCostApprox E [1]%nat == 1 # 7 /\ sat CCApp E [3]%nat == 0 /\ sat CCApp E [3; 1]%nat == 1 /\
  sat CCCard (mkEnv I [] [(0%nat, 1 # 2); (1%nat, 3); (3%nat, 0)] []) [0; 3; 2]%nat == 1 # 2 /\
  sat Borda (mkEnv I [] [(2%nat, 0); (0%nat, 0); (1%nat, 0)] []) [2; 1; 3]%nat == 2 /\
  sat AddCardinalRel (mkEnv I [] [(0%nat, 1 # 2); (1%nat, 3); (2%nat, 7)] [true; true; false; true]) [1]%nat
    == 6 # 7.
Proof. vm_compute. repeat split; reflexivity. Qed.
