(* Props/C19.v -- property C19: rule comparison returns exactly the best outcomes among the compared rules.
   Only statements closed by [exact]; proofs in Proofs/CompositionP.v (and Base/Argmax.v).
   Model: Model/Composition.v (mirror of pabutools/rules/composition.py).  [outs] = the outputs of the rules in
   sequence order, each with the satisfaction every voter derives from it; [mults] = the voters' multiplicities;
   [consistent outs] = equal allocations carry equal satisfactions (they are functions of the allocation). *)
From PB Require Import Model.Composition Proofs.CompositionP.
Open Scope Q_scope.

(* the argmax-with-ties scan used by both comparisons returns exactly the maximisers, in order of first occurrence,
   without duplicates, and at least one *)
Theorem C19_argmax_all_spec : forall (A : Type) (f : A -> Q) (xs : list A),
  (forall r, In r (argmax_all Qleb f xs) <-> In r xs /\ forall r', In r' xs -> f r' <= f r) /\
  sublist (argmax_all Qleb f xs) xs /\
  (NoDup xs -> NoDup (argmax_all Qleb f xs)) /\
  (xs <> [] -> argmax_all Qleb f xs <> []).
Proof. exact @argmax_all_spec. Qed.
Print Assumptions C19_argmax_all_spec.

(* the distinct outcomes kept by `if res not in results` are exactly the rule outputs, each allocation once *)
Theorem C19_results_spec : forall outs, consistent outs ->
  (forall o, In o (results outs) <-> In o outs) /\ NoDup (map o_alloc (results outs)).
Proof. intros outs Hc. split; [exact (results_In outs Hc)|exact (results_NoDup outs)]. Qed.
Print Assumptions C19_results_spec.

(* total satisfaction = sum over voters of satisfaction x multiplicity *)
Theorem C19_total_spec : forall mults o,
  total mults o == Qsum (map (fun '(s, m) => s * Qnat m) (combine (o_vsat o) mults)).
Proof. exact total_spec. Qed.
Print Assumptions C19_total_spec.

(* social welfare comparison = precisely the (distinct) outcomes of maximal total satisfaction *)
Theorem C19_swc_spec : forall mults outs, consistent outs ->
  (forall o, In o (swc mults outs) <-> In o outs /\ forall o', In o' outs -> total mults o' <= total mults o) /\
  NoDup (map o_alloc (swc mults outs)).
Proof. exact swc_spec. Qed.
Print Assumptions C19_swc_spec.

(* popularity comparison: the support of an outcome is the sum of the multiplicities of the voters for whom it
   attains their maximum over the outcomes (an indifferent voter supports all its top outcomes), and the comparison
   returns precisely the (distinct) outcomes of maximal support *)
Theorem C19_popularity_spec : forall mults outs, consistent outs ->
  let res := results outs in
  (forall o, In o outs -> support res mults o = support_spec res o 0 mults) /\
  (forall o, In o (popularity mults outs) <->
             In o outs /\ forall o', In o' outs -> (support res mults o' <= support res mults o)%nat) /\
  NoDup (map o_alloc (popularity mults outs)).
Proof. exact popularity_spec. Qed.
Print Assumptions C19_popularity_spec.

(* every returned allocation is the unmodified outcome of one of the rules (no hypothesis) *)
Theorem C19_comparison_returns_rule_outputs : forall mults outs,
  (forall o, In o (swc mults outs) -> In o outs) /\ (forall o, In o (popularity mults outs) -> In o outs).
Proof. exact comparison_returns_rule_outputs. Qed.
Print Assumptions C19_comparison_returns_rule_outputs.

(* non-vacuity: three rules, two of them with the same outcome; voters (multiplicities 2,1,1) with satisfactions
   A:(1,0,1) B:(0,2,1): totals tie 3 = 3 -> both returned by the welfare comparison; supports: A 2+1 = 3 (the third
   voter is indifferent and supports both), B 1+1 = 2 -> only A is returned by the popularity comparison *)
Example C19_nonvacuous :
  let A := mkOut [0; 1]%nat [1; 0; 1] in
  let B := mkOut [2]%nat [0; 2; 1] in
  let outs := [A; B; A] in
  let mults := [2; 1; 1]%nat in
  consistent outs /\
  results outs = [A; B] /\
  swc mults outs = [A; B] /\
  map (support (results outs) mults) (results outs) = [3; 2]%nat /\
  popularity mults outs = [A].
Proof.
  cbv zeta. split.
  - intros o o' Ho Ho' E. simpl in Ho, Ho'.
    destruct Ho as [<-|[<-|[<-|[]]]]; destruct Ho' as [<-|[<-|[<-|[]]]]; try reflexivity; discriminate.
  - vm_compute. repeat split; reflexivity.
Qed.
