(* Props/C19gen.v -- property C19, tied to the SOURCE: the state-passing translations of popularity_comparison and
   social_welfare_comparison (pabutools/rules/composition.py), regenerated on every run into Generated/PyCtrl.v by
   harness/vharness/pytrans_ctrl.py, EQUAL the hand model Model/Composition.v that Props/C19.v is about -- for every
   sequence of wrapped rules, every satisfaction profile and every input.  Only statements closed by [exact];
   proofs in Proofs/PyCtrlCompP.v.
   [outs I sp rules ps init] = the outcome records of the model: the output of every rule (called with its own
   keyword dictionary on the caller's instance and the copied initial allocation) together with the satisfaction of
   every element of the satisfaction profile sp; [mults sp] = their multiplicities. *)
From Coq Require Import String.
From PB Require Import Model.PyCtrlPrims Model.Composition Generated.PyCtrl Proofs.PyCtrlLib Proofs.PyCtrlCompP.
Open Scope Q_scope.

(* social_welfare_comparison: ValueError iff rule_params has another length than the rule sequence; None for an empty
   rule sequence; otherwise exactly the model's [swc] *)
Theorem C19gen_social_welfare : forall (X SC : Type) (rules : list (py_rule X py_alloc)) (I : inst)
    (prof : py_cprofile SC) (sc : SC) oparams oinit,
  gen_social_welfare_comparison I prof sc rules oparams oinit =
  if bad_lengths rules oparams then Raise "ValueError"
  else Ok (match rules with
           | [] => None
           | _ => Some (map o_alloc (swc (mults (cp_as_sat prof sc))
                                         (outs I (cp_as_sat prof sc) rules (kws_or_empty rules oparams) (alloc_or_empty oinit))))
           end).
Proof. exact @gen_swc_eq. Qed.
Print Assumptions C19gen_social_welfare.

Theorem C19gen_inputs_untouched :
  py_inputs_untouched gen_alias_popularity_comparison = true /\
  py_inputs_untouched gen_alias_social_welfare_comparison = true.
Proof. exact (conj alias_popularity alias_swc). Qed.
Print Assumptions C19gen_inputs_untouched.

(* popularity_comparison: ValueError iff rule_params has another length than the rule sequence; with an empty rule
   sequence the source raises (max() of an empty sequence for an empty profile, iteration over None otherwise);
   otherwise exactly the model's [popularity] *)
Theorem C19gen_popularity : forall (X SC : Type) (rules : list (py_rule X py_alloc)) (I : inst)
    (prof : py_cprofile SC) (sc : SC) oparams oinit,
  gen_popularity_comparison I prof sc rules oparams oinit =
  if bad_lengths rules oparams then Raise "ValueError"
  else match rules with
       | [] => match cp_as_sat prof sc with [] => Raise "ValueError" | _ => Raise "TypeError" end
       | _ => Ok (map o_alloc (popularity (mults (cp_as_sat prof sc))
                                          (outs I (cp_as_sat prof sc) rules (kws_or_empty rules oparams) (alloc_or_empty oinit))))
       end.
Proof. exact @gen_popularity_eq. Qed.
Print Assumptions C19gen_popularity.

(* the loop the translation uses is the fold_left with a stop flag and a pending result (pytrans style) *)
Theorem C19gen_for_is_fold_left : forall (A S R : Type) (F : S -> A -> py_flow S R) (l : list A) (s : S),
  py_for F l s = match fold_left (py_for_step F) l (false, None, s) with
                 | (_, Some v, _) => inr v
                 | (_, None, s') => inl s'
                 end.
Proof. exact @PyCtrlLib.py_for_fold_left. Qed.
Print Assumptions C19gen_for_is_fold_left.

Theorem C19gen_all_translated : gen_untranslated_composition = [].
Proof. exact composition_all_translated. Qed.
Print Assumptions C19gen_all_translated.
