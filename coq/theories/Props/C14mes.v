(* Props/C14mes.v -- property C14, second sentence (the STRETCH item of Props/C14.v):
     "Outcomes of the Method of Equal Shares with cost satisfaction always pass EJR-up-to-any and with
      cardinality satisfaction EJR-up-to-one, under the same satisfaction measure."
   Only statements closed by [exact]; the proofs live in Proofs/MesEJRCore.v (the price-system argument
   on the declarative rule), Proofs/MesEJRGroup.v (its two instances), Proofs/MesEJR.v (counting, JR
   vocabulary, multiplicities), Proofs/MesEJRRule.v (executable textbook rule, model of the implementation).
   The JR notions are those of Spec/JR.v (weak "up to" form), the rule is Spec/MesSpec.v / Model/MesRule.v.

   Reading guide.
     x : mes_in      the election given to the model of method_of_equal_shares: costs, budget, voter
                     classes (per-project utilities + multiplicity), tie-breaking key, enumeration order of
                     the instance, binary_sat flag, initial allocation -- ALL arbitrary except: the initial
                     allocation is empty, multiplicities are >= 1 (wf_voters), the budget is >= 0, the
                     enumeration lists each project once.
     mes_outcome x o o is what the plain rule returns (mes_resolute) or what the budget-increase variant
                     returns (mes_iter_resolute, any fuel and increment >= 0).
     class_voters P  the profile of the JR definitions: the index of class i listed vmul_i times (one entry
                     per voter).  mi_ut x i p = the utility the rule is run with.
     approves        ANY approval relation such that the utility the rule runs with is the approval measure:
                     ut_approval: u_i(p) == (if approves i p then pv p else 0), pv = cost (Cost_Sat) or 1
                     (Cardinality_Sat) -- "under the same satisfaction measure".
   Cost_Sat needs positive costs on the projects of T (the domain of the module's checker): a project of cost
   0 has satisfaction 0 and is never selected, which turns "up to any" into plain EJR
   (C14_mes_cost_positive_costs_needed).  For Cardinality_Sat the guarantee proved is PLAIN EJR (strict
   "up to one" bound + integrality), which implies EJR up to one. *)
From PB Require Import Spec.JR Model.MesRule Spec.MesSpec Proofs.MesEJRCore Proofs.MesEJRGroup Proofs.MesEJR
  Proofs.MesEJRRule Proofs.MesEJRExamples Model.Cohesive Proofs.MesEJRChecker
  Proofs.MesEJRIrr Proofs.MesEJRAddCore Proofs.MesEJRAdd Proofs.MesEJRAddRule Proofs.MesEJRAddExamples.
Open Scope Q_scope.

(* ---------- headline: the model of the implementation, any multiplicities ---------- *)

(* mes_cost_EJR_any *)
Theorem C14_mes_cost_EJR_any : forall x approves o,
  mi_init x = [] -> wf_voters (mi_voters x) -> 0 <= mi_budget x ->
  NoDup (mi_enum x) -> (forall p, In p (mi_enum x) <-> (p < length (mi_costs x))%nat) ->
  mes_outcome x o ->
  Forall (fun c => 0 < c) (mi_costs x) ->
  ut_approval nat (class_voters (mi_voters x)) approves (mi_ut x) (cost (mi_inst x)) ->
  EJR_app (mi_inst x) nat (class_voters (mi_voters x)) approves (mi_ut x) UpToAny (o_alloc o).
Proof. exact mes_cost_EJR_any. Qed.
Print Assumptions C14_mes_cost_EJR_any.

(* ... with costs >= 0, for the sets T of positive-cost projects *)
Theorem C14_mes_cost_EJR_any_positive_T : forall x approves o,
  mi_init x = [] -> wf_voters (mi_voters x) -> 0 <= mi_budget x ->
  NoDup (mi_enum x) -> (forall p, In p (mi_enum x) <-> (p < length (mi_costs x))%nat) ->
  mes_outcome x o ->
  Forall (fun c => 0 <= c) (mi_costs x) ->
  ut_approval nat (class_voters (mi_voters x)) approves (mi_ut x) (cost (mi_inst x)) ->
  forall S T, cohesive_app (mi_inst x) nat (class_voters (mi_voters x)) approves S T ->
  (forall p, In p T -> 0 < cost (mi_inst x) p) ->
  exists i, In i S /\ sat_upto UpToAny (mi_ut x i) T (o_alloc o)
                               (sat nat (mi_ut x) i (o_alloc o)) (sat nat (mi_ut x) i T).
Proof. exact mes_cost_upto_any_pos. Qed.
Print Assumptions C14_mes_cost_EJR_any_positive_T.

(* mes_card_EJR_one *)
Theorem C14_mes_card_EJR_one : forall x approves o,
  mi_init x = [] -> wf_voters (mi_voters x) -> 0 <= mi_budget x ->
  NoDup (mi_enum x) -> (forall p, In p (mi_enum x) <-> (p < length (mi_costs x))%nat) ->
  mes_outcome x o ->
  Forall (fun c => 0 <= c) (mi_costs x) ->
  ut_approval nat (class_voters (mi_voters x)) approves (mi_ut x) (fun _ => 1) ->
  EJR_app (mi_inst x) nat (class_voters (mi_voters x)) approves (mi_ut x) UpToOne (o_alloc o).
Proof. exact mes_card_EJR_one. Qed.
Print Assumptions C14_mes_card_EJR_one.

(* stronger: plain EJR *)
Theorem C14_mes_card_EJR : forall x approves o,
  mi_init x = [] -> wf_voters (mi_voters x) -> 0 <= mi_budget x ->
  NoDup (mi_enum x) -> (forall p, In p (mi_enum x) <-> (p < length (mi_costs x))%nat) ->
  mes_outcome x o ->
  Forall (fun c => 0 <= c) (mi_costs x) ->
  ut_approval nat (class_voters (mi_voters x)) approves (mi_ut x) (fun _ => 1) ->
  EJR_app (mi_inst x) nat (class_voters (mi_voters x)) approves (mi_ut x) Plain (o_alloc o).
Proof. exact mes_card_EJR. Qed.
Print Assumptions C14_mes_card_EJR.

(* "always pass": the model of the module's checkers (Model/Cohesive.v; is_EJR_any_approval = UpToAny,
   is_EJR_one_approval = UpToOne, is_EJR_approval = Plain; checker = definition: Props/C14.v) answers True *)
Theorem C14_mes_cost_passes_EJR_any : forall x approves o,
  mi_init x = [] -> wf_voters (mi_voters x) -> 0 <= mi_budget x ->
  NoDup (mi_enum x) -> (forall p, In p (mi_enum x) <-> (p < length (mi_costs x))%nat) ->
  mes_outcome x o ->
  Forall (fun c => 0 < c) (mi_costs x) ->
  ut_approval nat (class_voters (mi_voters x)) approves (mi_ut x) (cost (mi_inst x)) ->
  is_EJR_approval (mi_inst x) nat (class_voters (mi_voters x)) approves (mi_ut x) (mi_enum x) UpToAny
                  (o_alloc o) = true.
Proof. exact mes_cost_passes_EJR_any. Qed.
Print Assumptions C14_mes_cost_passes_EJR_any.

Theorem C14_mes_card_passes_EJR_one : forall x approves o,
  mi_init x = [] -> wf_voters (mi_voters x) -> 0 <= mi_budget x ->
  NoDup (mi_enum x) -> (forall p, In p (mi_enum x) <-> (p < length (mi_costs x))%nat) ->
  mes_outcome x o ->
  Forall (fun c => 0 <= c) (mi_costs x) ->
  ut_approval nat (class_voters (mi_voters x)) approves (mi_ut x) (fun _ => 1) ->
  is_EJR_approval (mi_inst x) nat (class_voters (mi_voters x)) approves (mi_ut x) (mi_enum x) UpToOne
                  (o_alloc o) = true /\
  is_EJR_approval (mi_inst x) nat (class_voters (mi_voters x)) approves (mi_ut x) (mi_enum x) Plain
                  (o_alloc o) = true.
Proof. exact mes_card_passes_EJR_one. Qed.
Print Assumptions C14_mes_card_passes_EJR_one.

(* ---------- the same for any profile list [voters] satisfying group_ok, and any single run of the inner
   algorithm from equal endowments b0 >= budget/n ---------- *)

Theorem C14_mes_model_cost_EJR_any : forall x voters approves b0 o,
  mi_init x = [] -> wf_voters (mi_voters x) -> group_ok (mi_voters x) voters -> 0 <= mi_budget x ->
  NoDup (mi_enum x) -> (forall p, In p (mi_enum x) <-> (p < length (mi_costs x))%nat) ->
  share x <= b0 -> run_once_res x b0 = Some o ->
  Forall (fun c => 0 < c) (mi_costs x) ->
  ut_approval nat voters approves (mi_ut x) (cost (mi_inst x)) ->
  EJR_app (mi_inst x) nat voters approves (mi_ut x) UpToAny (o_alloc o).
Proof. exact mes_model_cost_EJR_any. Qed.
Print Assumptions C14_mes_model_cost_EJR_any.

Theorem C14_mes_model_card_EJR : forall x voters approves b0 o,
  mi_init x = [] -> wf_voters (mi_voters x) -> group_ok (mi_voters x) voters -> 0 <= mi_budget x ->
  NoDup (mi_enum x) -> (forall p, In p (mi_enum x) <-> (p < length (mi_costs x))%nat) ->
  share x <= b0 -> run_once_res x b0 = Some o ->
  Forall (fun c => 0 <= c) (mi_costs x) ->
  ut_approval nat voters approves (mi_ut x) (fun _ => 1) ->
  EJR_app (mi_inst x) nat voters approves (mi_ut x) Plain (o_alloc o).
Proof. exact mes_model_card_EJR. Qed.
Print Assumptions C14_mes_model_card_EJR.

(* the two profile lists: single voters (multiplicities 1) are named 0..|P|-1; classes are repeated *)
Theorem C14_voters_single : forall P, unit_mults P -> group_ok P (seq 0 (length P)).
Proof. exact group_ok_unit. Qed.
Print Assumptions C14_voters_single.

Theorem C14_voters_classes : forall P, group_ok P (class_voters P).
Proof. exact group_ok_mult. Qed.
Print Assumptions C14_voters_classes.

(* ---------- the executable textbook rule (what the C02 oracle evaluates) ---------- *)

Theorem C14_mes_spec_cost_EJR_any : forall x voters approves O,
  si_init x = [] -> wf_voters (si_voters x) -> group_ok (si_voters x) voters -> 0 <= si_budget x ->
  mes_spec x = Some O ->
  Forall (fun c => 0 < c) (si_costs x) ->
  ut_approval nat voters approves (ej_ut x) (cost (ej_inst x)) ->
  EJR_app (ej_inst x) nat voters approves (ej_ut x) UpToAny O.
Proof. exact mes_spec_cost_EJR_any. Qed.
Print Assumptions C14_mes_spec_cost_EJR_any.

Theorem C14_mes_spec_card_EJR : forall x voters approves O,
  si_init x = [] -> wf_voters (si_voters x) -> group_ok (si_voters x) voters -> 0 <= si_budget x ->
  mes_spec x = Some O ->
  Forall (fun c => 0 <= c) (si_costs x) ->
  ut_approval nat voters approves (ej_ut x) (fun _ => 1) ->
  EJR_app (ej_inst x) nat voters approves (ej_ut x) Plain O.
Proof. exact mes_spec_card_EJR. Qed.
Print Assumptions C14_mes_spec_card_EJR.

(* ---------- the declarative rule: the strict bounds, for any outcome list O that contains the zero-cost
   supported projects and the purchases W of a run from equal endowments b0 >= budget/n ---------- *)

Theorem C14_mes_run_cost_strict : forall x voters approves b0 W O,
  si_init x = [] -> Forall (fun c => 0 <= c) (si_costs x) -> wf_voters (si_voters x) ->
  group_ok (si_voters x) voters -> si_share x <= b0 -> 0 <= si_budget x ->
  spec_run (si_costs x) (si_voters x) (si_tb x) (repeat b0 (length (si_voters x))) (si_pool x) W ->
  (forall q, In q (si_zeros x) \/ In q W -> In q O) ->
  ut_approval nat voters approves (ej_ut x) (cost (ej_inst x)) ->
  forall S T, cohesive_app (ej_inst x) nat voters approves S T -> (forall p, In p T -> 0 < cost (ej_inst x) p) ->
  exists i, In i S /\
    forall p, In p T -> ~ In p O -> sat nat (ej_ut x) i T < sat nat (ej_ut x) i O + ej_ut x i p.
Proof. exact ej_cost_run. Qed.
Print Assumptions C14_mes_run_cost_strict.

Theorem C14_mes_run_card_strict : forall x voters approves b0 W O,
  si_init x = [] -> Forall (fun c => 0 <= c) (si_costs x) -> wf_voters (si_voters x) ->
  group_ok (si_voters x) voters -> si_share x <= b0 -> 0 <= si_budget x ->
  spec_run (si_costs x) (si_voters x) (si_tb x) (repeat b0 (length (si_voters x))) (si_pool x) W ->
  (forall q, In q (si_zeros x) \/ In q W -> In q O) ->
  NoDup O ->
  ut_approval nat voters approves (ej_ut x) (fun _ => 1) ->
  forall S T, cohesive_app (ej_inst x) nat voters approves S T ->
  exists i, In i S /\ sat nat (ej_ut x) i T < sat nat (ej_ut x) i O + 1.
Proof. exact ej_card_run. Qed.
Print Assumptions C14_mes_run_card_strict.

(* ---------- the price-system core (arbitrary additive utilities, multiplicities) ----------
   S: duplicate-free classes all supporting the candidate pstar, which is never bought; holding theta each
   they cover its cost; w bounds a member's payment for a purchase made while all of S hold theta and that is
   at least as cheap per unit of utility as every price covering pstar.  Then some member has paid more
   than (her endowment - theta). *)
Theorem C14_mes_price_core : forall cs P tb, wf_voters P ->
  forall (S : list nat) pstar theta (w : nat -> proj -> Q),
  NoDup S -> (forall i, In i S -> In i (s_supporters P pstar)) ->
  s_cost cs pstar <= Qsum (map (fun i => s_mul P i * theta) S) ->
  (forall i q, In i S -> 0 <= w i q) ->
  (forall b q r i, wf_buds P b -> (forall j, In j S -> theta <= s_bud b j) ->
     0 < s_cost cs q -> is_rho cs P b q r ->
     (forall r', s_cost cs pstar <= paid P b r' pstar -> r <= r') ->
     In i S -> 0 < s_util P i q -> Qmin (s_bud b i) (r * s_util P i q) <= w i q) ->
  forall b rem W, spec_run cs P tb b rem W -> wf_buds P b -> (forall p, In p rem -> 0 < s_cost cs p) ->
  In pstar rem -> ~ In pstar W -> (forall j, In j S -> theta <= s_bud b j) ->
  exists i, In i S /\ s_bud b i - theta < Qsum (map (w i) W).
Proof. exact ejr_core. Qed.
Print Assumptions C14_mes_price_core.

(* its Cost_Sat and Cardinality_Sat instances (mS = multiplicity-weighted size of the group) *)
Theorem C14_mes_cost_group : forall cs P tb, wf_voters P -> forall S : list nat,
  NoDup S -> S <> [] -> (forall i, In i S -> (i < length P)%nat) ->
  forall b0 rem W pstar,
  (forall i q, In i S -> 0 <= s_util P i q) -> (forall i, In i S -> s_util P i pstar == s_cost cs pstar) ->
  0 <= b0 -> spec_run cs P tb (repeat b0 (length P)) rem W ->
  (forall p, In p rem -> 0 < s_cost cs p) -> In pstar rem -> ~ In pstar W ->
  s_cost cs pstar <= mS P S * b0 ->
  exists i, In i S /\ mS P S * b0 - s_cost cs pstar < Qsum (map (s_util P i) W).
Proof. exact ej_cost_group. Qed.
Print Assumptions C14_mes_cost_group.

Theorem C14_mes_card_group : forall cs P tb, wf_voters P -> forall S : list nat,
  NoDup S -> S <> [] -> (forall i, In i S -> (i < length P)%nat) ->
  forall T b0 rem W pstar,
  (forall i q, In i S -> s_util P i q == 0 \/ s_util P i q == 1) ->
  (forall i p, In i S -> In p T -> s_util P i p == 1) ->
  (forall p, 0 <= s_cost cs p) -> In pstar T ->
  0 <= b0 -> spec_run cs P tb (repeat b0 (length P)) rem W ->
  (forall p, In p rem -> 0 < s_cost cs p) -> In pstar rem -> ~ In pstar W ->
  s_cost cs pstar <= mS P S * b0 ->
  exists i, In i S /\
    mS P S * b0 - s_cost cs pstar < Qsum (map (fun q => ej_wt cs T (s_cost cs pstar) q * s_util P i q) W).
Proof. exact ej_card_group. Qed.
Print Assumptions C14_mes_card_group.

(* ---------- the positive-cost side condition of the Cost_Sat theorem is needed ----------
   one voter approving a (cost 3), b (cost 2) and z (cost 0), budget 3, ties broken in favour of b:
   the outcome is {b}; {voter} is {a,z}-cohesive and z is never selected, so "up to any project" fails *)
Theorem C14_mes_cost_positive_costs_needed : exists x approves o,
  mi_init x = [] /\ wf_voters (mi_voters x) /\ 0 <= mi_budget x /\
  NoDup (mi_enum x) /\ (forall p, In p (mi_enum x) <-> (p < length (mi_costs x))%nat) /\
  mes_outcome x o /\ Forall (fun c => 0 <= c) (mi_costs x) /\
  ut_approval nat (class_voters (mi_voters x)) approves (mi_ut x) (cost (mi_inst x)) /\
  ~ EJR_app (mi_inst x) nat (class_voters (mi_voters x)) approves (mi_ut x) UpToAny (o_alloc o).
Proof. exact mes_cost_needs_positive_costs. Qed.
Print Assumptions C14_mes_cost_positive_costs_needed.

(* Scope.  Covered: the resolute plain rule, the resolute budget-increase variant and every allocation of
   the irresolute plain rule (below), any tie-breaking key, enumeration order, binary_sat flag and
   multiplicities; the STRICT published form "sat(W + p) > sat(T)" is what C14_mes_run_cost_strict /
   C14_mes_run_card_strict state.
   NOT covered (no statement made): the irresolute budget-increase variant; a non-empty initial allocation (the endowment is then (budget - cost(initial))/n, below the
   budget/n the argument needs, while cohesiveness is measured against the whole budget). *)

(* ---------- the irresolute rule: every returned allocation ----------
   (every allocation of mes_irresolute is, sorted, the resolute outcome under some tie-breaking key:
   Props/C08.v C08_mes_irr_eq_orders; the theorems above hold for every key) *)

Theorem C14_mes_irresolute_cost_EJR_any : forall x approves Ws,
  mi_init x = [] -> wf_voters (mi_voters x) -> 0 <= mi_budget x ->
  NoDup (mi_enum x) -> (forall p, In p (mi_enum x) <-> (p < length (mi_costs x))%nat) ->
  mes_irresolute x = Some Ws ->
  forall X, In X Ws ->
  Forall (fun c => 0 < c) (mi_costs x) ->
  ut_approval nat (class_voters (mi_voters x)) approves (mi_ut x) (cost (mi_inst x)) ->
  EJR_app (mi_inst x) nat (class_voters (mi_voters x)) approves (mi_ut x) UpToAny X.
Proof. exact mes_irr_cost_EJR_any. Qed.
Print Assumptions C14_mes_irresolute_cost_EJR_any.

Theorem C14_mes_irresolute_card_EJR : forall x approves Ws,
  mi_init x = [] -> wf_voters (mi_voters x) -> 0 <= mi_budget x ->
  NoDup (mi_enum x) -> (forall p, In p (mi_enum x) <-> (p < length (mi_costs x))%nat) ->
  mes_irresolute x = Some Ws ->
  forall X, In X Ws ->
  Forall (fun c => 0 <= c) (mi_costs x) ->
  ut_approval nat (class_voters (mi_voters x)) approves (mi_ut x) (fun _ => 1) ->
  EJR_app (mi_inst x) nat (class_voters (mi_voters x)) approves (mi_ut x) Plain X.
Proof. exact mes_irr_card_EJR. Qed.
Print Assumptions C14_mes_irresolute_card_EJR.

Theorem C14_mes_irresolute_card_EJR_one : forall x approves Ws,
  mi_init x = [] -> wf_voters (mi_voters x) -> 0 <= mi_budget x ->
  NoDup (mi_enum x) -> (forall p, In p (mi_enum x) <-> (p < length (mi_costs x))%nat) ->
  mes_irresolute x = Some Ws ->
  forall X, In X Ws ->
  Forall (fun c => 0 <= c) (mi_costs x) ->
  ut_approval nat (class_voters (mi_voters x)) approves (mi_ut x) (fun _ => 1) ->
  EJR_app (mi_inst x) nat (class_voters (mi_voters x)) approves (mi_ut x) UpToOne X.
Proof. exact mes_irr_card_EJR_one. Qed.
Print Assumptions C14_mes_irresolute_card_EJR_one.

(* the EJR notions do not depend on the order of the outcome list *)
Theorem C14_EJR_approval_perm : forall I V (P : list V) approves ut r W W',
  Permutation W W' -> EJR_app I V P approves ut r W -> EJR_app I V P approves ut r W'.
Proof. exact EJR_app_perm. Qed.
Print Assumptions C14_EJR_approval_perm.

(* ---------- general additive utilities (Peters-Pierczynski-Skowron 2021: EJR up to one project) ----------
   cardinal ballots, Additive_Cardinal_Sat: the rule runs with the scores (ut_is_score), scores >= 0
   (score_nonneg), costs >= 0; the cardinal notion of Spec/JR.v: S is (alpha,T)-cohesive when every member
   scores every p in T at least alpha p (alpha arbitrary, e.g. the group minimum) *)

Theorem C14_mes_additive_EJR_one : forall x score,
  mi_init x = [] -> wf_voters (mi_voters x) -> 0 <= mi_budget x ->
  NoDup (mi_enum x) -> (forall p, In p (mi_enum x) <-> (p < length (mi_costs x))%nat) ->
  Forall (fun c => 0 <= c) (mi_costs x) ->
  ut_is_score nat (class_voters (mi_voters x)) score (mi_ut x) ->
  score_nonneg nat (class_voters (mi_voters x)) score ->
  forall o, mes_outcome x o ->
  EJR_card (mi_inst x) nat (class_voters (mi_voters x)) score (mi_ut x) UpToOne (o_alloc o).
Proof. exact mes_add_EJR_one. Qed.
Print Assumptions C14_mes_additive_EJR_one.

Theorem C14_mes_irresolute_additive_EJR_one : forall x score,
  mi_init x = [] -> wf_voters (mi_voters x) -> 0 <= mi_budget x ->
  NoDup (mi_enum x) -> (forall p, In p (mi_enum x) <-> (p < length (mi_costs x))%nat) ->
  Forall (fun c => 0 <= c) (mi_costs x) ->
  ut_is_score nat (class_voters (mi_voters x)) score (mi_ut x) ->
  score_nonneg nat (class_voters (mi_voters x)) score ->
  forall Ws X, mes_irresolute x = Some Ws -> In X Ws ->
  EJR_card (mi_inst x) nat (class_voters (mi_voters x)) score (mi_ut x) UpToOne X.
Proof. exact mes_irr_add_EJR_one. Qed.
Print Assumptions C14_mes_irresolute_additive_EJR_one.

(* strict published form, any profile list satisfying group_ok, any single run from endowments >= budget/n:
   some member i has alpha(T) <= sat_i(W), or alpha(T) < sat_i(W) + u_i(p) for a project p of T outside W *)
Theorem C14_mes_model_additive_strict : forall x voters score,
  mi_init x = [] -> wf_voters (mi_voters x) -> group_ok (mi_voters x) voters -> 0 <= mi_budget x ->
  NoDup (mi_enum x) -> (forall p, In p (mi_enum x) <-> (p < length (mi_costs x))%nat) ->
  Forall (fun c => 0 <= c) (mi_costs x) ->
  ut_is_score nat voters score (mi_ut x) -> score_nonneg nat voters score ->
  forall b0 o, share x <= b0 -> run_once_res x b0 = Some o ->
  forall S T alpha, cohesive_card (mi_inst x) nat voters score S T alpha ->
  exists i, In i S /\
    (asum alpha T <= sat nat (mi_ut x) i (o_alloc o) \/
     exists p, In p T /\ ~ In p (o_alloc o) /\ asum alpha T < sat nat (mi_ut x) i (o_alloc o) + mi_ut x i p).
Proof. exact mes_model_add_strict. Qed.
Print Assumptions C14_mes_model_additive_strict.

(* the core with the disjunctive payment bound, and its additive-utility instance
   (kappa = cost(pstar)/alpha(pstar), pstar minimising cost/alpha among the unbought projects of T) *)
Theorem C14_mes_price_core_disjunctive : forall cs P tb, wf_voters P ->
  forall (S : list nat) pstar theta (w : nat -> proj -> Q),
  NoDup S -> (forall i, In i S -> In i (s_supporters P pstar)) ->
  s_cost cs pstar <= Qsum (map (fun i => s_mul P i * theta) S) ->
  (forall i q, In i S -> 0 <= w i q) ->
  (forall b q r, wf_buds P b -> (forall j, In j S -> theta <= s_bud b j) ->
     0 < s_cost cs q -> is_rho cs P b q r ->
     (forall r', s_cost cs pstar <= paid P b r' pstar -> r <= r') ->
     (forall i, In i S -> 0 < s_util P i q -> Qmin (s_bud b i) (r * s_util P i q) <= w i q) \/
     (exists j, In j S /\ 0 < s_util P j q /\ Qmin (s_bud b j) (r * s_util P j q) <= w j q /\
                s_bud b j - Qmin (s_bud b j) (r * s_util P j q) < theta)) ->
  forall b rem W, spec_run cs P tb b rem W -> wf_buds P b -> (forall p, In p rem -> 0 < s_cost cs p) ->
  In pstar rem -> ~ In pstar W -> (forall j, In j S -> theta <= s_bud b j) ->
  exists i, In i S /\ s_bud b i - theta < Qsum (map (w i) W).
Proof. exact ejr_core2. Qed.
Print Assumptions C14_mes_price_core_disjunctive.

Theorem C14_mes_additive_group : forall cs P tb, wf_voters P -> forall S : list nat,
  NoDup S -> S <> [] -> (forall i, In i S -> (i < length P)%nat) ->
  forall T alpha b0 rem W pstar,
  (forall i q, In i S -> 0 <= s_util P i q) ->
  (forall i p, In i S -> In p T -> alpha p <= s_util P i p) ->
  (forall p, 0 <= s_cost cs p) -> In pstar T -> 0 < alpha pstar ->
  0 <= b0 -> spec_run cs P tb (repeat b0 (length P)) rem W ->
  (forall p, In p rem -> 0 < s_cost cs p) -> In pstar rem -> ~ In pstar W ->
  s_cost cs pstar <= mS P S * b0 ->
  exists i, In i S /\
    mS P S * b0 - s_cost cs pstar
    < Qsum (map (ej_awt cs P T alpha (s_cost cs pstar / alpha pstar) i) W).
Proof. exact ej_add_group. Qed.
Print Assumptions C14_mes_additive_group.

(* non-vacuity of the additive-utility hypotheses: scores 3,1,0 / 2,0,1 (multiplicity 2) / 0,2,2, costs 2,3,3,
   budget 6: the rule selects {0,2} (resolute and irresolute); {class 0, class 2} is (1,{1})-cohesive *)
Example C14mes_additive_nonvacuous :
  let Pa := [mkV [3; 1; 0] 1%nat; mkV [2; 0; 1] 2%nat; mkV [0; 2; 2] 1%nat] in
  let xa := mkIn [2; 3; 3] 6 Pa (key_of_list [0; 2; 1]) [2; 0; 1]%nat false [] in
  mi_init xa = [] /\ wf_voters (mi_voters xa) /\ 0 <= mi_budget xa /\ NoDup (mi_enum xa) /\
  (forall p, In p (mi_enum xa) <-> (p < length (mi_costs xa))%nat) /\
  Forall (fun c => 0 <= c) (mi_costs xa) /\
  ut_is_score nat (class_voters Pa) (mi_ut xa) (mi_ut xa) /\
  score_nonneg nat (class_voters Pa) (mi_ut xa) /\
  option_map o_alloc (mes_resolute xa) = Some [0; 2]%nat /\
  mes_irresolute xa = Some [[0; 2]%nat] /\
  cohesive_card (mi_inst xa) nat (class_voters Pa) (mi_ut xa) [0; 2]%nat [1%nat] (fun _ => 1).
Proof. exact mes_add_example. Qed.

(* non-vacuity: two concrete elections with a class of multiplicity 2 (4 voters, budget 6, costs 2,3,3) on
   which every hypothesis of the headline theorems holds, the model selects {0,2}, and the group
   {class 0, class 2} is {1}-cohesive although project 1 is not selected: Cardinality_Sat and Cost_Sat *)
Example C14mes_nonvacuous :
  let Pc := [mkV [1; 1; 0] 1%nat; mkV [1; 0; 1] 2%nat; mkV [0; 1; 1] 1%nat] in
  let xc := mkIn [2; 3; 3] 6 Pc (key_of_list [0; 2; 1]) [2; 0; 1]%nat false [] in
  let Pk := [mkV [2; 3; 0] 1%nat; mkV [2; 0; 3] 2%nat; mkV [0; 3; 3] 1%nat] in
  let xk := mkIn [2; 3; 3] 6 Pk (key_of_list [0; 2; 1]) [2; 0; 1]%nat false [] in
  let app x := fun i p => Qltb 0 (mi_ut x i p) in
  (mi_init xc = [] /\ wf_voters (mi_voters xc) /\ 0 <= mi_budget xc /\ NoDup (mi_enum xc) /\
   (forall p, In p (mi_enum xc) <-> (p < length (mi_costs xc))%nat) /\
   Forall (fun c => 0 < c) (mi_costs xc) /\
   ut_approval nat (class_voters Pc) (app xc) (mi_ut xc) (fun _ => 1) /\
   option_map o_alloc (mes_resolute xc) = Some [0; 2]%nat /\
   cohesive_app (mi_inst xc) nat (class_voters Pc) (app xc) [0; 2]%nat [1%nat]) /\
  (mi_init xk = [] /\ wf_voters (mi_voters xk) /\ 0 <= mi_budget xk /\ NoDup (mi_enum xk) /\
   (forall p, In p (mi_enum xk) <-> (p < length (mi_costs xk))%nat) /\
   Forall (fun c => 0 < c) (mi_costs xk) /\
   ut_approval nat (class_voters Pk) (app xk) (mi_ut xk) (cost (mi_inst xk)) /\
   option_map o_alloc (mes_resolute xk) = Some [0; 2]%nat /\
   option_map o_alloc (mes_iter_resolute 20 xk 1) = Some [0; 2]%nat /\
   cohesive_app (mi_inst xk) nat (class_voters Pk) (app xk) [0; 2]%nat [1%nat]).
Proof. exact mes_ejr_examples. Qed.
