(* Props/C05.v -- property C05: sequential Phragmen (Model/Phragmen.v, the mirror of
   pabutools/rules/phragmen.py) selects exactly what the continuous-money process
   (Spec/PhragmenMoney.v) buys.  Only statements closed by [exact]; proofs in Proofs/PhragmenP.v. *)
From PB Require Import Model.Phragmen Spec.PhragmenMoney Proofs.PhragmenP.
Open Scope Q_scope.

(* ---- M phragmen_refines_money ------------------------------------------------------------- *)
(* abs: balance_i = clock - load_i.  The "new maximum load" of a supported project IS the moment
   at which its supporters together hold its cost ... *)
Theorem C05_new_maxload_is_purchase_time : forall I P p loads st,
  abs loads st -> length P = length loads -> supported P p = true ->
  exists x, new_maxload I P loads p = Fin x /\ x == buy_time I P st p.
Proof. exact new_maxload_buy_time. Qed.
Print Assumptions C05_new_maxload_is_purchase_time.

Theorem C05_purchase_time_is_when_supporters_hold_the_cost : forall I P st p t,
  supported P p = true -> (holdings_at P st p t == cost I p <-> t == buy_time I P st p).
Proof. exact buy_time_holdings. Qed.
Print Assumptions C05_purchase_time_is_when_supporters_hold_the_cost.

(* ... from abs-related states one pass of the code's loop body and one round of the money process
   take the same decision (stop / buy), offer the same tie-ordered list of due projects at the same
   moment, and whichever of them is bought the successor states are abs-related again *)
Theorem C05_phragmen_refines_money_step : forall I P tb loads st projs alloc c,
  abs loads st -> length P = length loads -> c == tcost I alloc -> projs <> [] ->
  match phr_round I P tb loads projs c, money_round I P st projs alloc with
  | RStop, MStop => True
  | RPick tied t, MBuy due t' =>
      tied = tie_order tb (name_sort due) /\ time_rel t t' /\
      forall p, abs (apply_load P loads p t) (after P st p t')
                /\ length P = length (apply_load P loads p t)
                /\ Qred (c + cost I p) == tcost I (alloc ++ [p])
  | _, _ => False
  end.
Proof. exact refines_step. Qed.
Print Assumptions C05_phragmen_refines_money_step.

(* ... hence the whole runs coincide, for every fuel, resolute and irresolute *)
Theorem C05_phragmen_refines_money_run : forall I P tb fuel projs loads st alloc c,
  abs loads st -> length P = length loads -> c == tcost I alloc ->
  phr_res fuel I P tb projs loads alloc c = money_res fuel I P tb st projs alloc /\
  phr_irr fuel I P tb projs loads alloc c = money_irr fuel I P tb st projs alloc.
Proof.
  exact (fun I P tb fuel projs loads st alloc c HA HL Hc =>
           conj (refines_res I P tb fuel projs loads st alloc c HA HL Hc)
                (refines_irr I P tb fuel projs loads st alloc c HA HL Hc)).
Qed.
Print Assumptions C05_phragmen_refines_money_run.

(* end to end, any initial loads (one per ballot class), any tie-breaking key, any enumeration *)
Theorem C05_phragmen_refines_money : forall I P tb enum loads init,
  length P = length loads ->
  phragmen_res I P tb enum loads init
  = option_map name_sort (money_process_res I P tb enum loads init) /\
  phragmen_irr I P tb enum loads init
  = option_map (fun ls => dedup_nl [] (map name_sort ls)) (money_process_irr I P tb enum loads init).
Proof.
  exact (fun I P tb enum loads init HL =>
           conj (phragmen_refines_money_res I P tb enum loads init HL)
                (phragmen_refines_money_irr I P tb enum loads init HL)).
Qed.
Print Assumptions C05_phragmen_refines_money.

(* ---- M phragmen_mult ---------------------------------------------------------------------- *)
(* a ballot class of multiplicity k behaves as k voters (with the class's load each) *)
Theorem C05_phragmen_mult : forall I P tb tb' enum loads init,
  length P = length loads -> (forall p, tb p == tb' p) ->
  phragmen_res I (expand_ballots P) tb' enum (expand_loads P loads) init
  = phragmen_res I P tb enum loads init /\
  phragmen_irr I (expand_ballots P) tb' enum (expand_loads P loads) init
  = phragmen_irr I P tb enum loads init.
Proof.
  exact (fun I P tb tb' enum loads init HL Htb =>
           conj (phragmen_mult_res I P tb tb' enum loads init HL Htb)
                (phragmen_mult_irr I P tb tb' enum loads init HL Htb)).
Qed.
Print Assumptions C05_phragmen_mult.

Theorem C05_app_score_key_mult : forall P p, tb_app_score P p == tb_app_score (expand_ballots P) p.
Proof. exact tb_app_score_expand. Qed.
Print Assumptions C05_app_score_key_mult.

Theorem C05_expand_length : forall P loads, length P = length loads ->
  length (expand_ballots P) = length (expand_loads P loads).
Proof. exact expand_length. Qed.
Print Assumptions C05_expand_length.

(* ---- M stop rule -------------------------------------------------------------------------- *)
Theorem C05_phragmen_stop_rule : forall I P tb loads projs c, projs <> [] ->
  (phr_round I P tb loads projs c = RStop <->
   exists p, In p projs /\
             (forall q, In q projs -> Qx_le (new_maxload I P loads p) (new_maxload I P loads q)) /\
             budget I < c + cost I p).
Proof. exact phragmen_stop_rule. Qed.
Print Assumptions C05_phragmen_stop_rule.

Theorem C05_phragmen_stop_returns : forall I P tb fuel loads projs alloc c,
  phr_round I P tb loads projs c = RStop ->
  phr_res fuel I P tb projs loads alloc c = Some alloc /\
  phr_irr fuel I P tb projs loads alloc c = Some [alloc].
Proof. exact phragmen_stop_returns. Qed.
Print Assumptions C05_phragmen_stop_returns.

(* whoever is bought attains the least new maximum load and NO project attaining it overshoots *)
Theorem C05_phragmen_pick : forall I P tb loads projs c tied t,
  phr_round I P tb loads projs c = RPick tied t ->
  (forall p, In p tied -> In p projs /\ overshoots I c p = false) /\ (projs <> [] -> tied <> []).
Proof. exact phr_round_pick. Qed.
Print Assumptions C05_phragmen_pick.

(* ---- M phragmen_feasible / total ---------------------------------------------------------- *)
Theorem C05_phragmen_feasible : forall I P tb enum loads init W,
  NoDup enum -> (forall p, In p enum -> (p < nproj I)%nat) -> feasible I init ->
  phragmen_res I P tb enum loads init = Some W -> feasible I W /\ incl init W.
Proof. exact phragmen_feasible_res. Qed.
Print Assumptions C05_phragmen_feasible.

Theorem C05_phragmen_feasible_irresolute : forall I P tb enum loads init Ws W,
  NoDup enum -> (forall p, In p enum -> (p < nproj I)%nat) -> feasible I init ->
  phragmen_irr I P tb enum loads init = Some Ws -> In W Ws -> feasible I W /\ incl init W.
Proof. exact phragmen_feasible_irr. Qed.
Print Assumptions C05_phragmen_feasible_irresolute.

Theorem C05_phragmen_total : forall I P tb enum loads init,
  (exists W, phragmen_res I P tb enum loads init = Some W) /\
  (exists Ws, phragmen_irr I P tb enum loads init = Some Ws).
Proof. exact phragmen_total. Qed.
Print Assumptions C05_phragmen_total.

(* ---- the executable money process vs. the transition relation of the spec ------------------- *)
(* every result of the executable process is an outcome of the relation [money_step]/[money_halted]
   (resolute: the bought project is the first due one in tie-breaking order; irresolute: any due
   project) *)
Theorem C05_money_process_is_a_run : forall I P tb fuel st rem alloc,
  (forall W, money_res fuel I P tb st rem alloc = Some W ->
             money_outcome I P (tb_first tb) (st, rem, alloc) W) /\
  (forall Ws W, money_irr fuel I P tb st rem alloc = Some Ws -> In W Ws ->
             money_outcome I P (fun C p => C p) (st, rem, alloc) W).
Proof.
  exact (fun I P tb fuel st rem alloc =>
           conj (money_res_sound I P tb fuel st rem alloc)
                (money_irr_sound I P tb fuel st rem alloc)).
Qed.
Print Assumptions C05_money_process_is_a_run.

(* ---- the clock: forward from regular states ------------------------------------------------- *)
Theorem C05_buy_time_future : forall I P st rem p,
  regular I P st rem -> In p rem -> supported P p = true -> now st <= buy_time I P st p.
Proof. exact buy_time_future. Qed.
Print Assumptions C05_buy_time_future.

Theorem C05_regular_step : forall I P st rem t p,
  regular I P st rem -> earliest_due I P st rem t -> due_at I P st rem t p ->
  now st <= t /\ regular I P (pay P st p t) (drop p rem).
Proof. exact regular_step. Qed.
Print Assumptions C05_regular_step.

Theorem C05_regular_equal_loads : forall I P rem loads c,
  Forall (fun x => 0 <= x) (costs I) -> Forall (fun l => l == c) loads ->
  let st := mkM c (repeat 0 (length loads)) in
  abs loads st /\ regular I P st rem.
Proof. exact regular_equal_loads. Qed.
Print Assumptions C05_regular_equal_loads.

(* NOT PROVED (stretch goals, none of them an M theorem of DESIGN.md C05):
   - completeness of the irresolute run w.r.t. the relation (every [money_outcome] with the free
     choice discipline is listed by [money_irr]) and determinism of the resolute relation; both need
     a setoid on states ([pay] stores [Qred t], the relation fixes t only up to ==);
   - enumeration-order independence of the model (belongs to C13). *)

(* ---- non-vacuity -------------------------------------------------------------------------- *)
(* three projects; two copies of {0,1} and one voter {2} with a prior load; project 0 and 1 fall
   due together, 2 later; the budget stops the process after two purchases *)
Example C05_nonvacuous :
  let I := mkInst [1; 1; 2] 2 in
  let P := [mkA [0; 1]%nat 2; mkA [2]%nat 1] in
  feasible I [] /\ abs [0; 1 # 2] (money_start [0; 1 # 2]) /\
  phragmen_res I P tb_lexico [0; 1; 2]%nat [0; 1 # 2] [] = Some [0; 1]%nat /\
  money_process_res I (expand_ballots P) tb_lexico [0; 1; 2]%nat (expand_loads P [0; 1 # 2]) []
    = Some [0; 1]%nat /\
  phr_round I P tb_lexico [0; 0] [0; 1; 2]%nat 0 = RPick [0; 1]%nat (Fin (1 # 2)) /\
  phr_round I P tb_lexico [1; 0] [2]%nat 2 = RStop.
Proof.
  split; [repeat split; [constructor|intros p []|vm_compute; discriminate]|].
  split; [apply abs_start|]. vm_compute. repeat split; reflexivity.
Qed.

(* the stop rule under ties (corpus case): 0 and 1 fall due together, only 1 overshoots, the
   tie-breaking rule would take 0 -- the process stops all the same *)
Example C05_stop_under_ties :
  let I := mkInst [1; 2; 1] (5 # 2) in
  let P := [mkA [0]%nat 1; mkA [1]%nat 1; mkA [1]%nat 1] in
  phr_round I P tb_lexico [0; 0; 0] [0; 1]%nat 1 = RStop /\
  phragmen_res I P tb_lexico [0; 1; 2]%nat [0; 0; 0] [2]%nat = Some [2]%nat /\
  phragmen_irr I P tb_lexico [0; 1; 2]%nat [0; 0; 0] [2]%nat = Some [[2]%nat].
Proof. vm_compute. repeat split; reflexivity. Qed.

(* unequal initial loads: voter 0 starts with load 10; project 0 ({0,1}, cost 2) is bought at
   clock 6, which resets voter 0's debt; project 1 ({0,2}, cost 3) is then over-funded and is
   bought at the EARLIER virtual moment 9/2 -- the state after the first purchase is not regular *)
Example C05_clock_can_go_backwards_with_debts :
  let I := mkInst [2; 3] 5 in
  let P := [mkA [0; 1]%nat 1; mkA [0]%nat 1; mkA [1]%nat 1] in
  phr_round I P tb_lexico [10; 0; 0] [0; 1]%nat 0 = RPick [0]%nat (Fin 6) /\
  phr_round I P tb_lexico [6; 6; 0] [1]%nat 2 = RPick [1]%nat (Fin (9 # 2)) /\
  phragmen_res I P tb_lexico [0; 1]%nat [10; 0; 0] [] = Some [0; 1]%nat.
Proof. vm_compute. repeat split; reflexivity. Qed.
