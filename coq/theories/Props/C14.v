(* Props/C14.v -- property C14: the proportionality checkers (pabutools/analysis/justifiedrepresentation.py,
   cohesiveness.py) answer exactly as the published definitions do; the implication lattice.
   Only statements closed by [exact]; the proofs live in Proofs/JRP.v, the definitions in Spec/JR.v
   (written from the literature, weak "up to" form), the mirror of the code in Model/Cohesive.v.

   Reading guide.  I: instance; P: the profile (list of voters of an arbitrary type V); approves / score:
   the ballots; ut i p: satisfaction of voter i with project p under the measure in use; pv p: value of p
   under the approval measure; enum: iteration order of the instance object (a Python set); r: Plain /
   UpToAny / UpToOne (up_to_func None / min / max); W: ANY list of projects (feasibility is not needed).
   Side conditions are explicit hypotheses: utilities are non-negative; for the cardinal "up to" notions
   the measure is Additive_Cardinal_Sat (ut = score), which is the only one the named variants use. *)
From PB Require Import Spec.JR Model.Cohesive Oracle.C14 Proofs.JRP.
Open Scope Q_scope.

(* ---- checker = definition: the model of the code ---- *)

Theorem C14_checker_core_iff_def : forall I V P ut enum r W,
  enum_ok I enum -> ut_nonneg V P ut ->
  (is_in_core I V P ut enum r W = true <-> core I V P ut r W).
Proof. exact is_in_core_iff. Qed.
Print Assumptions C14_checker_core_iff_def.

Theorem C14_checker_strong_EJR_approval_iff_def : forall I V P approves ut enum W,
  enum_ok I enum ->
  (is_strong_EJR_approval I V P approves ut enum W = true <-> strong_EJR_app I V P approves ut W).
Proof. exact is_strong_EJR_approval_iff. Qed.
Print Assumptions C14_checker_strong_EJR_approval_iff_def.

(* r = Plain: is_EJR_approval; UpToAny: is_EJR_any_approval; UpToOne: is_EJR_one_approval *)
Theorem C14_checker_EJR_approval_iff_def : forall I V P approves ut enum r W,
  enum_ok I enum -> ut_nonneg V P ut ->
  (is_EJR_approval I V P approves ut enum r W = true <-> EJR_app I V P approves ut r W).
Proof. exact is_EJR_approval_iff. Qed.
Print Assumptions C14_checker_EJR_approval_iff_def.

Theorem C14_checker_PJR_approval_iff_def : forall I V P approves pv enum r W,
  enum_ok I enum -> pv_nonneg pv ->
  (is_PJR_approval I V P approves pv enum r W = true <-> PJR_app I V P approves pv r W).
Proof. exact is_PJR_approval_iff. Qed.
Print Assumptions C14_checker_PJR_approval_iff_def.

Theorem C14_checker_strong_EJR_cardinal_iff_def : forall I V P score ut enum W,
  enum_ok I enum ->
  (is_strong_EJR_cardinal I V P score ut enum W = true <-> strong_EJR_card I V P score ut W).
Proof. exact is_strong_EJR_cardinal_iff. Qed.
Print Assumptions C14_checker_strong_EJR_cardinal_iff_def.

Theorem C14_checker_EJR_cardinal_iff_def : forall I V P score ut enum r W,
  enum_ok I enum -> ut_nonneg V P ut -> ut_is_score V P score ut ->
  (is_EJR_cardinal I V P score ut enum r W = true <-> EJR_card I V P score ut r W).
Proof. exact is_EJR_cardinal_iff. Qed.
Print Assumptions C14_checker_EJR_cardinal_iff_def.

Theorem C14_checker_PJR_cardinal_iff_def : forall I V P score enum r W,
  enum_ok I enum -> score_nonneg V P score ->
  (is_PJR_cardinal I V P score enum r W = true <-> PJR_card I V P score r W).
Proof. exact is_PJR_cardinal_iff. Qed.
Print Assumptions C14_checker_PJR_cardinal_iff_def.

(* ---- the brute-force oracle run on the implementation's answers decides the same definitions ---- *)

Theorem C14_oracle_core_iff_def : forall I V P ut r W,
  bf_core I V P ut r W = true <-> core I V P ut r W.
Proof. exact bf_core_iff. Qed.
Print Assumptions C14_oracle_core_iff_def.

Theorem C14_oracle_strong_EJR_approval_iff_def : forall I V P approves ut W,
  bf_strong_EJR_app I V P approves ut W = true <-> strong_EJR_app I V P approves ut W.
Proof. exact bf_strong_EJR_app_iff. Qed.
Print Assumptions C14_oracle_strong_EJR_approval_iff_def.

Theorem C14_oracle_EJR_approval_iff_def : forall I V P approves ut r W,
  bf_EJR_app I V P approves ut r W = true <-> EJR_app I V P approves ut r W.
Proof. exact bf_EJR_app_iff. Qed.
Print Assumptions C14_oracle_EJR_approval_iff_def.

Theorem C14_oracle_PJR_approval_iff_def : forall I V P approves pv r W,
  bf_PJR_app I V P approves pv r W = true <-> PJR_app I V P approves pv r W.
Proof. exact bf_PJR_app_iff. Qed.
Print Assumptions C14_oracle_PJR_approval_iff_def.

Theorem C14_oracle_strong_EJR_cardinal_iff_def : forall I V P score ut W,
  bf_strong_EJR_card I V P score ut W = true <-> strong_EJR_card I V P score ut W.
Proof. exact bf_strong_EJR_card_iff. Qed.
Print Assumptions C14_oracle_strong_EJR_cardinal_iff_def.

Theorem C14_oracle_EJR_cardinal_iff_def : forall I V P score ut r W,
  bf_EJR_card I V P score ut r W = true <-> EJR_card I V P score ut r W.
Proof. exact bf_EJR_card_iff. Qed.
Print Assumptions C14_oracle_EJR_cardinal_iff_def.

Theorem C14_oracle_PJR_cardinal_iff_def : forall I V P score r W,
  bf_PJR_card I V P score r W = true <-> PJR_card I V P score r W.
Proof. exact bf_PJR_card_iff. Qed.
Print Assumptions C14_oracle_PJR_cardinal_iff_def.

(* the case-file hypotheses check (failure code 70) establishes the side conditions above *)
Theorem C14_case_hypotheses : forall c m, hyp_ok c m = true ->
  enum_ok (I_of c) (c_enum c) /\ ut_nonneg nat (voters c) (ut_of m) /\
  score_nonneg nat (voters c) (score_of c) /\ pv_nonneg (pv_of m) /\
  (c_cardinal c = true -> ut_is_score nat (voters c) (score_of c) (ut_of m)) /\
  (c_cardinal c = false -> ut_approval nat (voters c) (app_of c) (ut_of m) (pv_of m)).
Proof. exact hyp_ok_sound. Qed.
Print Assumptions C14_case_hypotheses.

(* ---- the plain core in its textbook (negative) form ---- *)
Theorem C14_core_no_blocking : forall I V P ut W,
  core I V P ut Plain W <->
  ~ exists S T, is_group V P S /\ is_pset I T /\ large_enough I V P S T /\
                forall i, In i S -> sat V ut i W < sat V ut i T.
Proof. exact core_no_blocking. Qed.
Print Assumptions C14_core_no_blocking.

(* ---- the implication lattice, on the definitions ---- *)

(* core => EJR, same measure, same relaxation *)
Theorem C14_core_implies_EJR_approval : forall I V P approves ut r W,
  core I V P ut r W -> EJR_app I V P approves ut r W.
Proof. exact core_EJR_app. Qed.
Print Assumptions C14_core_implies_EJR_approval.

Theorem C14_core_implies_EJR_cardinal : forall I V P score ut r W,
  ut_is_score V P score ut -> core I V P ut r W -> EJR_card I V P score ut r W.
Proof. exact core_EJR_card. Qed.
Print Assumptions C14_core_implies_EJR_cardinal.

(* EJR => PJR: for an approval measure (Cost_Sat: pv = cost, Cardinality_Sat: pv = 1) with non-negative
   project values, and for Additive_Cardinal_Sat *)
Theorem C14_EJR_implies_PJR_approval : forall I V P approves ut pv r W,
  ut_approval V P approves ut pv -> pv_nonneg pv ->
  EJR_app I V P approves ut r W -> PJR_app I V P approves pv r W.
Proof. exact EJR_PJR_app. Qed.
Print Assumptions C14_EJR_implies_PJR_approval.

Theorem C14_EJR_implies_PJR_cardinal : forall I V P score ut r W,
  ut_is_score V P score ut -> EJR_card I V P score ut r W -> PJR_card I V P score r W.
Proof. exact EJR_PJR_card. Qed.
Print Assumptions C14_EJR_implies_PJR_cardinal.

(* strong => plain *)
Theorem C14_strong_EJR_implies_EJR_approval : forall I V P approves ut W,
  strong_EJR_app I V P approves ut W -> EJR_app I V P approves ut Plain W.
Proof. exact strong_EJR_app_EJR. Qed.
Print Assumptions C14_strong_EJR_implies_EJR_approval.

Theorem C14_strong_EJR_implies_EJR_cardinal : forall I V P score ut W,
  strong_EJR_card I V P score ut W -> EJR_card I V P score ut Plain W.
Proof. exact strong_EJR_card_EJR. Qed.
Print Assumptions C14_strong_EJR_implies_EJR_cardinal.

(* plain => up-to-any => up-to-one  (relax_le: Plain <= UpToAny <= UpToOne) *)
Theorem C14_core_relax : forall I V P ut r r' W,
  ut_nonneg V P ut -> relax_le r r' -> core I V P ut r W -> core I V P ut r' W.
Proof. exact core_weaken. Qed.
Print Assumptions C14_core_relax.

Theorem C14_EJR_approval_relax : forall I V P approves ut r r' W,
  ut_nonneg V P ut -> relax_le r r' -> EJR_app I V P approves ut r W -> EJR_app I V P approves ut r' W.
Proof. exact EJR_app_weaken. Qed.
Print Assumptions C14_EJR_approval_relax.

Theorem C14_PJR_approval_relax : forall I V P approves pv r r' W,
  pv_nonneg pv -> relax_le r r' -> PJR_app I V P approves pv r W -> PJR_app I V P approves pv r' W.
Proof. exact PJR_app_weaken. Qed.
Print Assumptions C14_PJR_approval_relax.

Theorem C14_EJR_cardinal_relax : forall I V P score ut r r' W,
  ut_nonneg V P ut -> ut_is_score V P score ut -> relax_le r r' ->
  EJR_card I V P score ut r W -> EJR_card I V P score ut r' W.
Proof. exact EJR_card_weaken. Qed.
Print Assumptions C14_EJR_cardinal_relax.

Theorem C14_PJR_cardinal_relax : forall I V P score r r' W,
  score_nonneg V P score -> relax_le r r' -> PJR_card I V P score r W -> PJR_card I V P score r' W.
Proof. exact PJR_card_weaken. Qed.
Print Assumptions C14_PJR_cardinal_relax.

(* The Equal Shares link of the property (S in DESIGN.md section 4, C14) is PROVED in Props/C14mes.v:
   mes_cost_EJR_any (Cost_Sat: EJR up to any project, positive costs), mes_card_EJR / mes_card_EJR_one
   (Cardinality_Sat: plain EJR, hence up to one), for the model's resolute and iterated entry points, any
   multiplicities, tie-breaking key and enumeration order, empty initial allocation; and the module's own
   checker model returns true on those outcomes. *)

(* on a case that passes the hypotheses check the model's answers ARE the oracle's answers *)
Theorem C14_model_eq_oracle_on_cases : forall c m W,
  hyp_ok c m = true -> model_answers c m W = oracle_answers c m W.
Proof. exact model_answers_eq_oracle. Qed.
Print Assumptions C14_model_eq_oracle_on_cases.

(* non-vacuity: concrete elections satisfying every side condition on which the checkers take both
   values and the relaxations / the strong variant genuinely differ.  Answer order: core, core-any,
   core-one, strong-EJR, EJR, EJR-any, EJR-one, PJR, PJR-any, PJR-one. *)
Example C14_nonvacuous :
  (* Cost_Sat, costs 1,1,2, budget 2, ballots {0,1},{0,1},{2} *)
  let m1 := mkM 0 [[1;1;0];[1;1;0];[0;0;2]] [1;1;2] [] None in
  let c1 := mkCase [1;1;2] 2 [2;0;1]%nat false [[0;1];[0;1];[2]]%nat [] [m1] in
  (* Cost_Sat, costs 1,3,2, budget 4, one voter approving everything: up-to-any fails, up-to-one holds *)
  let m3 := mkM 0 [[1;3;2]] [1;3;2] [] None in
  let c3 := mkCase [1;3;2] 4 [0;1;2]%nat false [[0;1;2]]%nat [] [m3] in
  (* Cardinality_Sat, costs 1,1, budget 1, ballots {0,1},{0}: EJR holds, strong EJR fails *)
  let m4 := mkM 1 [[1;1];[1;0]] [1;1] [] None in
  let c4 := mkCase [1;1] 1 [0;1]%nat false [[0;1];[0]]%nat [] [m4] in
  (* Additive_Cardinal_Sat, scores (2,1,0),(1,1,0),(0,0,3) *)
  let m2 := mkM 2 [[2;1;0];[1;1;0];[0;0;3]] [] [] None in
  let c2 := mkCase [1;1;2] 2 [1;2;0]%nat true [] [[2;1;0];[1;1;0];[0;0;3]] [m2] in
  hyp_ok c1 m1 = true /\ hyp_ok c3 m3 = true /\ hyp_ok c4 m4 = true /\ hyp_ok c2 m2 = true /\
  model_answers c1 m1 [2]%nat = [false; true; true; false; false; true; true; false; true; true] /\
  model_answers c1 m1 [0; 1]%nat = [true; true; true; true; true; true; true; true; true; true] /\
  model_answers c3 m3 [2]%nat = [false; false; true; false; false; false; true; false; false; true] /\
  model_answers c4 m4 [1]%nat = [true; true; true; false; true; true; true; true; true; true] /\
  model_answers c2 m2 [2]%nat = [false; true; true; false; false; true; true; false; true; true] /\
  oracle_answers c2 m2 [0; 1]%nat = [true; true; true; true; true; true; true; true; true; true] /\
  check c1 = [] /\ check c2 = [].
Proof. vm_compute. repeat split; reflexivity. Qed.
