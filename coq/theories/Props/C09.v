(* Props/C09.v -- property C09: exhaustion wrappers stay feasible, extend their base rule and stop
   correctly.  Only statements closed by [exact]; the proofs live in Proofs/ExhaustionP.v.
   The wrapped rule is ANY function (budget -> outcome); its contract appears as explicit hypotheses.
   Vocabulary: [try_budget B s k] = B + k*s; [ntries B s bound] = number of k with B + k*s <= bound;
   [prevo R s B init j] = init when j = 0 and R(B + (j-1)*s) otherwise;
   [infeasible1 I W] / [exh1 I stop (all_projects I) W] are the two tests of the loop, both against the
   ORIGINAL instance I (meaning: C09_infeasible_test, C09_exhaustive_test). *)
From PB Require Import Model.Exhaustion Proofs.ExhaustionP.
Open Scope Q_scope.

(* ---- meaning of the loop's tests ---- *)
Theorem C09_infeasible_test : forall I W, infeasible1 I W = true <-> ~ tcost I W <= budget I.
Proof. exact infeasible1_true_iff. Qed.
Print Assumptions C09_infeasible_test.

Theorem C09_exhaustive_test : forall I stop W,
  exh1 I stop (all_projects I) W = true <-> stop = true /\ exhaustive I W.
Proof. exact exh1_iff. Qed.
Print Assumptions C09_exhaustive_test.

Theorem C09_infeasible_test_irresolute : forall I Ws,
  infeasible_any I Ws = false <-> forall W, In W Ws -> tcost I W <= budget I.
Proof. exact infeasible_any_false_iff. Qed.
Print Assumptions C09_infeasible_test_irresolute.

Theorem C09_exhaustive_test_irresolute : forall I stop Ws,
  exh_any I stop (all_projects I) Ws = true <-> stop = true /\ exists W, In W Ws /\ exhaustive I W.
Proof. exact exh_any_iff. Qed.
Print Assumptions C09_exhaustive_test_irresolute.

(* the tries allowed by `while budget <= bound` are exactly k = 0 .. ntries-1 *)
Theorem C09_ntries_spec : forall b0 step bound, 0 < step ->
  forall k, (k < ntries b0 step bound)%nat <-> try_budget b0 step k <= bound.
Proof. exact ntries_spec. Qed.
Print Assumptions C09_ntries_spec.

(* ---- increase_spec (DESIGN M): exhaustion_by_budget_increase, resolute ----
   with step > 0 the result is R(B + j*step) for the least j whose outcome is exhaustive (and the
   exhaustive stop is on) provided all earlier outcomes are feasible for I; otherwise R(B + (j-1)*step)
   (the initial allocation when j = 0) for the least j whose outcome is infeasible for I; when the budget
   bound ends the tries, the last outcome tried.  k = number of calls of the base rule. *)
Theorem C09_increase_spec : forall I (R : Q -> alloc) init stop step bound fuel,
  (forall b b', b == b' -> R b = R b') -> 0 < step ->
  let n := ntries (budget I) step bound in
  let out := fun k => R (try_budget (budget I) step k) in
  let bad := infeasible1 I in
  let exh := exh1 I stop (all_projects I) in
  (fuel > n)%nat ->
  exists k W, increase_res I R init stop step bound fuel = Some (k, W) /\
    ((exists j, (j < n)%nat /\ k = S j /\
        (forall i, (i < j)%nat -> bad (out i) = false /\ exh (out i) = false) /\
        ((bad (out j) = true /\ W = prevo R step (budget I) init j) \/
         (bad (out j) = false /\ exh (out j) = true /\ W = out j)))
     \/ (k = n /\ (forall i, (i < n)%nat -> bad (out i) = false /\ exh (out i) = false) /\
         W = prevo R step (budget I) init n)).
Proof.
  exact (fun I R init stop step bound fuel =>
    bounded_retry_spec alloc R (infeasible1 I) (exh1 I stop (all_projects I)) (budget I) step bound init fuel).
Qed.
Print Assumptions C09_increase_spec.

(* irresolute: previous_outcome starts as [init]; any(infeasible) / any(exhaustive) *)
Theorem C09_increase_spec_irresolute : forall I (R : Q -> list alloc) init stop step bound fuel,
  (forall b b', b == b' -> R b = R b') -> 0 < step ->
  let n := ntries (budget I) step bound in
  let out := fun k => R (try_budget (budget I) step k) in
  let bad := infeasible_any I in
  let exh := exh_any I stop (all_projects I) in
  (fuel > n)%nat ->
  exists k Ws, increase_irr I R init stop step bound fuel = Some (k, Ws) /\
    ((exists j, (j < n)%nat /\ k = S j /\
        (forall i, (i < j)%nat -> bad (out i) = false /\ exh (out i) = false) /\
        ((bad (out j) = true /\ Ws = prevo R step (budget I) [init] j) \/
         (bad (out j) = false /\ exh (out j) = true /\ Ws = out j)))
     \/ (k = n /\ (forall i, (i < n)%nat -> bad (out i) = false /\ exh (out i) = false) /\
         Ws = prevo R step (budget I) [init] n)).
Proof.
  exact (fun I R init stop step bound fuel =>
    bounded_retry_spec (list alloc) R (infeasible_any I) (exh_any I stop (all_projects I)) (budget I) step
      bound [init] fuel).
Qed.
Print Assumptions C09_increase_spec_irresolute.

(* the non-loop restatement used by the oracle (retry_ref on the outcomes of the allowed tries) is what
   the loop returns, for any outcome type and any tests *)
Theorem C09_loop_eq_reference : forall (T : Type) (R : Q -> T) (bad exh : T -> bool) b0 step bound init fuel,
  (forall b b', b == b' -> R b = R b') -> 0 < step ->
  (fuel > ntries b0 step bound)%nat ->
  retry R bad exh step (fun b => Qleb b bound) fuel 0 b0 init =
    Some (retry_ref bad exh init (map (fun k => R (try_budget b0 step k)) (seq 0 (ntries b0 step bound)))).
Proof. exact bounded_retry_eq_ref. Qed.
Print Assumptions C09_loop_eq_reference.

(* ---- increase_feasible (DESIGN M): the result is feasible for the ORIGINAL instance and contains the
   initial allocation, for every base rule that returns duplicate-free sets of instance projects within
   the budget it is given and extends its initial allocation ---- *)
(* NOTE (found while composing the wrappers with the concrete rule models, Props/C09rules.v): the contract
   hypothesis below quantifies over EVERY budget b, which no rule can meet on an instance with non-negative
   costs (take b < 0: C09rules_contract_all_budgets_unsatisfiable), so this statement and its irresolute and
   iterated twins are true but VACUOUS.  The usable statements, with the contract asked only for budgets
   >= the original one, are C09rules_increase_feasible_from_budget(_irresolute),
   C09rules_mes_iterated_feasible(_irresolute), and their instances for Equal Shares, greedy and Phragmen. *)
Theorem C09_increase_feasible : forall I init, feasible I init ->
  forall R : Q -> alloc,
  (forall b, feasible (mkInst (costs I) b) (R b)) ->      (* R_feasible_for_its_budget *)
  (forall b, incl init (R b)) ->                          (* R_extends_init *)
  forall stop step bound fuel k W,
  increase_res I R init stop step bound fuel = Some (k, W) -> feasible I W /\ incl init W.
Proof. exact increase_res_feasible. Qed.
Print Assumptions C09_increase_feasible.

Theorem C09_increase_feasible_irresolute : forall I init, feasible I init ->
  forall R : Q -> list alloc,
  (forall b W, In W (R b) -> feasible (mkInst (costs I) b) W) ->
  (forall b W, In W (R b) -> incl init W) ->
  forall stop step bound fuel k Ws,
  increase_irr I R init stop step bound fuel = Some (k, Ws) ->
  forall W, In W Ws -> feasible I W /\ incl init W.
Proof. exact increase_irr_feasible. Qed.
Print Assumptions C09_increase_feasible_irresolute.

(* ---- mes_iterated_spec (DESIGN M): the `while True` loop of the iterated Equal Shares; b0 = budget per
   voter, inc = voter_budget_increment, "exhaustive" judged over avail = the supported positive-cost
   projects; the loop returns at the least stopping try, and does not return when no try stops ---- *)
Theorem C09_mes_iterated_spec : forall I (R : Q -> alloc) avail prev0 b0 inc,
  (forall b b', b == b' -> R b = R b') ->
  let out := fun k => R (try_budget b0 inc k) in
  let bad := infeasible1 I in
  let exh := exh1 I true avail in
  (forall j fuel,
     (forall i, (i < j)%nat -> bad (out i) = false /\ exh (out i) = false) ->
     bad (out j) || exh (out j) = true ->
     (fuel > j)%nat ->
     mes_iter_res I R avail prev0 b0 inc fuel =
       Some (S j, if bad (out j) then prevo R inc b0 prev0 j else out j))
  /\ ((forall i, bad (out i) = false /\ exh (out i) = false) ->
      forall fuel, mes_iter_res I R avail prev0 b0 inc fuel = None).
Proof.
  exact (fun I R avail prev0 b0 inc =>
    unbounded_retry_spec alloc R (infeasible1 I) (exh1 I true avail) b0 inc prev0).
Qed.
Print Assumptions C09_mes_iterated_spec.

Theorem C09_mes_iterated_spec_irresolute : forall I (R : Q -> list alloc) avail prev0 b0 inc,
  (forall b b', b == b' -> R b = R b') ->
  let out := fun k => R (try_budget b0 inc k) in
  let bad := infeasible_any I in
  let exh := exh_any I true avail in
  (forall j fuel,
     (forall i, (i < j)%nat -> bad (out i) = false /\ exh (out i) = false) ->
     bad (out j) || exh (out j) = true ->
     (fuel > j)%nat ->
     mes_iter_irr I R avail prev0 b0 inc fuel =
       Some (S j, if bad (out j) then prevo R inc b0 [prev0] j else out j))
  /\ ((forall i, bad (out i) = false /\ exh (out i) = false) ->
      forall fuel, mes_iter_irr I R avail prev0 b0 inc fuel = None).
Proof.
  exact (fun I R avail prev0 b0 inc =>
    unbounded_retry_spec (list alloc) R (infeasible_any I) (exh_any I true avail) b0 inc [prev0]).
Qed.
Print Assumptions C09_mes_iterated_spec_irresolute.

Theorem C09_mes_iterated_feasible : forall I init (R : Q -> alloc),
  (forall b, feasible (mkInst (costs I) b) (R b)) ->
  (forall b, incl init (R b)) ->
  forall avail prev0 b0 inc fuel k W,
  feasible I prev0 -> incl init prev0 ->
  mes_iter_res I R avail prev0 b0 inc fuel = Some (k, W) -> feasible I W /\ incl init W.
Proof. exact mes_iter_res_feasible. Qed.
Print Assumptions C09_mes_iterated_feasible.

Theorem C09_mes_iterated_feasible_irresolute : forall I init (R : Q -> list alloc),
  (forall b W, In W (R b) -> feasible (mkInst (costs I) b) W) ->
  (forall b W, In W (R b) -> incl init W) ->
  forall avail prev0 b0 inc fuel k Ws,
  feasible I prev0 -> incl init prev0 ->
  mes_iter_irr I R avail prev0 b0 inc fuel = Some (k, Ws) ->
  forall W, In W Ws -> feasible I W /\ incl init W.
Proof. exact mes_iter_irr_feasible. Qed.
Print Assumptions C09_mes_iterated_feasible_irresolute.

(* ---- completion_spec (DESIGN M): completion_by_rule_combination ----
   contract of every wrapped rule: it extends the allocation it starts from and returns feasible
   allocations when started from a feasible one. *)
Theorem C09_completion_spec_resolute : forall I (rules : list (alloc -> alloc)),
  (forall r a, In r rules -> incl a (r a)) ->
  (forall r a, In r rules -> feasible I a -> feasible I (r a)) ->
  forall init, feasible I init ->
  let W := complete_res I rules init in
  incl init W /\ feasible I W /\
  match rules with [] => W = init | r1 :: _ => incl (r1 init) W end /\
  (exh_all I W = true \/ W = fold_left (fun a r => r a) rules init).
Proof. exact complete_res_spec. Qed.
Print Assumptions C09_completion_spec_resolute.

Theorem C09_completion_exhaustive_resolute : forall I (pre : list (alloc -> alloc)) (rl : alloc -> alloc),
  (forall a, exh_all I (rl a) = true) ->
  forall init, exh_all I (complete_res I (pre ++ [rl]) init) = true.
Proof. exact complete_res_exhaustive. Qed.
Print Assumptions C09_completion_exhaustive_resolute.

(* irresolute: every returned allocation contains the initial allocation and an outcome of the first
   rule and is feasible; and NO outcome of the first rule is dropped *)
Theorem C09_completion_spec_irresolute : forall I (r1 : alloc -> list alloc) (rest : list (alloc -> list alloc)) init,
  (forall r a W, In r (r1 :: rest) -> In W (r a) -> incl a W) ->
  (forall r a W, In r (r1 :: rest) -> feasible I a -> In W (r a) -> feasible I W) ->
  (forall r a, In r rest -> r a <> []) ->
  feasible I init ->
  let out := completion_irr I (r1 :: rest) init in
  (forall W, In W out -> incl init W /\ feasible I W /\ exists a, In a (r1 init) /\ incl a W) /\
  (forall a, In a (r1 init) -> exists W, In W out /\ incl a W).
Proof. exact completion_irr_spec. Qed.
Print Assumptions C09_completion_spec_irresolute.

Theorem C09_completion_exhaustive_irresolute : forall I (pre : list (alloc -> list alloc)) (rl : alloc -> list alloc) init,
  (forall a W, In W (rl a) -> exh_all I W = true) ->
  forall W, In W (completion_irr I (pre ++ [rl]) init) -> exh_all I W = true.
Proof. exact completion_irr_exhaustive. Qed.
Print Assumptions C09_completion_exhaustive_irresolute.

(* ---- non-vacuity: a table rule on which the loop needs three tries and stops on infeasibility, one on
   which it stops on exhaustiveness, one ended by the bound; an irresolute completion with two partial
   outcomes that are completed separately ---- *)
Example C09_nonvacuous :
  let I := mkInst [2; 2; 3] 4 in
  let R := tab_rule [(4, [0%nat]); (5, [0; 1]%nat); (6, [0; 1; 2]%nat)] [] in
  increase_res I R [] true 1 10 20 = Some (2%nat, [0; 1]%nat) /\
  increase_res I R [] false 1 10 20 = Some (3%nat, [0; 1]%nat) /\
  increase_res I R [] false 1 (9 # 2) 20 = Some (1%nat, [0]%nat) /\
  ntries 4 1 (9 # 2) = 1%nat /\
  mes_iter_res I R [0; 1]%nat [] 4 1 20 = Some (2%nat, [0; 1]%nat) /\
  let r1 := fun _ : alloc => [[0]; [2]]%nat in
  let r2 := fun a : alloc => match a with [0%nat] => [[0; 1]%nat] | _ => [[2]%nat] end in
  completion_irr (mkInst [2; 2; 3] 4) [r1; r2] [] = [[2]; [0; 1]]%nat.
Proof. vm_compute. repeat split; reflexivity. Qed.

(* the default step and bound of the model are the ones the SOURCE uses now (Generated/Anchors.v is
   re-extracted from exhaustion.py on every run) *)
From PB Require Generated.Anchors.
Theorem C09_defaults_are_the_sources : forall I n,
  default_step I = budget I * (Anchors.INCREASE_STEP_NUM # Anchors.INCREASE_STEP_DEN) /\
  default_bound I n = budget I * (Qofnat n + inject_Z Anchors.INCREASE_BOUND_PLUS).
Proof. intros I n. split; reflexivity. Qed.
Print Assumptions C09_defaults_are_the_sources.
