(* Props/C12relax.v -- property C12, relaxations of stable priceability (priceability_relaxation.py:
   MinMul, MinAdd, MinAddVector, MinAddVectorPositive, MinAddOffset).
   Only statements closed by [exact]; proofs in Proofs/PriceabilityP.v (general forms, rel : option relax)
   and Proofs/PriceabilityRelaxP.v.  A value R : relax is a relaxation class together with its beta(s);
   relaxed_price_system I A W b pay R exh = price system whose stability condition S5 is measured against
   relaxed_cost I R (cost*beta, cost+beta, cost+beta_c, cost+beta_g+beta_c). *)
From PB Require Import Model.Priceability Proofs.PriceabilityP Proofs.PriceabilityRelaxP.
From PB Require Generated.Anchors.
Open Scope Q_scope.

(* ---- the validator with relaxation=R (only S5 is relaxed; same rounding tolerance) ---- *)
Theorem C12_validate_relaxed_complete : forall I A W b P R exh,
  relaxed_price_system I A W b (pay_of P) R exh ->
  validate_ps_g I A W b P true exh (Some R) = true.
Proof. exact validate_relaxed_complete. Qed.
Print Assumptions C12_validate_relaxed_complete.

Theorem C12_validate_relaxed_sound_tol : forall I A W b P R exh,
  validate_ps_g I A W b P true exh (Some R) = true ->
  price_system_g_tol I A W b (pay_of P) (relaxed_cost I R) (1 # 100) true exh.
Proof. exact validate_relaxed_sound_tol. Qed.
Print Assumptions C12_validate_relaxed_sound_tol.

Theorem C12_validate_relaxed_sound_margin : forall I A W b P R exh,
  ~ price_system_g_tol I A W b (pay_of P) (relaxed_cost I R) (1 # 100) true exh ->
  validate_ps_g I A W b P true exh (Some R) = false.
Proof. exact validate_relaxed_sound_margin. Qed.
Print Assumptions C12_validate_relaxed_sound_margin.

(* with stable=False the relaxation is ignored by the validator *)
Theorem C12_validate_plain_ignores_relaxation : forall I A W b P exh rel,
  validate_ps_g I A W b P false exh rel = validate_ps I A W b P false exh.
Proof. exact validate_plain_ignores_relaxation. Qed.
Print Assumptions C12_validate_plain_ignores_relaxation.

(* the general forms specialise to the unrelaxed functions *)
Theorem C12_general_forms_at_None : forall I A W b P stable exh alloc a,
  validate_ps_g I A W b P stable exh None = validate_ps I A W b P stable exh
  /\ ps_constraints_g I A alloc stable exh None a = ps_constraints I A alloc stable exh a
  /\ check_witness_g I A W b P stable exh None = check_witness I A W b P stable exh.
Proof. exact (fun I A W b P stable exh alloc a => conj eq_refl (conj eq_refl eq_refl)). Qed.
Print Assumptions C12_general_forms_at_None.

(* ---- beta = 1 (MinMul) / beta = 0 (the additive classes) is exactly stable priceability ---- *)
Theorem C12_relax_neutral_iff : forall I A W b pay k exh,
  relaxed_price_system I A W b pay (relax_neutral k) exh <-> price_system I A W b pay true exh.
Proof. exact relax_neutral_iff. Qed.
Print Assumptions C12_relax_neutral_iff.

(* ---- monotonicity: the feasible parameters are upward closed, so "the minimum beta" is meaningful ---- *)
Theorem C12_relax_monotone : forall I A W b pay R R' exh,
  Forall (fun c => 0 <= c) (costs I) -> relax_le R R' ->
  relaxed_price_system I A W b pay R exh -> relaxed_price_system I A W b pay R' exh.
Proof. exact relax_monotone. Qed.
Print Assumptions C12_relax_monotone.

Theorem C12_stable_is_relaxed : forall I A W b pay R exh,
  Forall (fun c => 0 <= c) (costs I) -> relax_le (relax_neutral (kind_of R)) R ->
  price_system I A W b pay true exh -> relaxed_price_system I A W b pay R exh.
Proof. exact stable_is_relaxed. Qed.
Print Assumptions C12_stable_is_relaxed.

(* ---- checkers used in the case files ---- *)
Theorem C12_relaxed_witness_checker_sound : forall I A W b P R exh,
  check_witness_g I A W b P true exh (Some R) = true ->
  feasible I W /\ relaxed_price_system I A W b (pay_of P) R exh.
Proof. exact relaxed_witness_checker_sound. Qed.
Print Assumptions C12_relaxed_witness_checker_sound.

Theorem C12_relaxed_witness_checker_complete : forall I A W b P R exh,
  wf_alloc I W -> relaxed_price_system I A W b (pay_of P) R exh ->
  check_witness_g I A W b P true exh (Some R) = true.
Proof. exact relaxed_witness_checker_complete. Qed.
Print Assumptions C12_relaxed_witness_checker_complete.

(* no relaxed price system of class k whatever the parameters *)
Theorem C12_no_relaxed_price_system_certified : forall I A W exh lb k ys,
  check_no_relaxed_ps I A W exh lb k ys = true ->
  ~ exists b pay R, kind_of R = k /\ relaxed_price_system I A W b pay R exh
                    /\ (lb = true -> budget I <= Qnat (length A) * b).
Proof. exact check_no_relaxed_ps_sound. Qed.
Print Assumptions C12_no_relaxed_price_system_certified.

(* within the ranges that the rows of the MIP impose, no relaxed price system has objective <= t *)
Theorem C12_objective_lower_bound_certified : forall I A W exh lb k t ys,
  check_objective_lower I A W exh lb k t ys = true ->
  ~ exists b pay R, kind_of R = k /\ relaxed_price_system I A W b pay R exh
                    /\ (lb = true -> budget I <= Qnat (length A) * b)
                    /\ relax_range I A W b pay R /\ relax_objective I R <= t.
Proof. exact check_objective_lower_sound. Qed.
Print Assumptions C12_objective_lower_bound_certified.

(* ---- the MIP with a relaxation: rows of add_beta / add_stability_constraint ---- *)
(* soundness: a solution with 0/1 selection variables is a feasible allocation with a relaxed price system
   for the parameter values of the solution, and those values lie in relax_range *)
Theorem C12_encoding_relaxed_sound : forall I A alloc exh R a,
  ps_constraints_g I A alloc true exh (Some R) a = true -> binary I a ->
  feasible I (alloc_of I a)
  /\ relaxed_price_system I A (alloc_of I a) (a_b a) (pv a) R exh
  /\ (forall W0, alloc = Some W0 -> forall c, (c < nproj I)%nat -> (In c (alloc_of I a) <-> In c W0))
  /\ (alloc = None -> exh = false -> budget I <= a_b a * Qnat (length A))
  /\ relax_range I A (alloc_of I a) (a_b a) (pv a) R.
Proof. exact encoding_relaxed_sound. Qed.
Print Assumptions C12_encoding_relaxed_sound.

(* ... which the relaxed validator accepts (exact arithmetic) *)
Theorem C12_relaxed_solution_validates : forall I A alloc exh R a,
  ps_constraints_g I A alloc true exh (Some R) a = true -> binary I a ->
  validate_ps_g I A (alloc_of I a) (a_b a) (a_p a) true exh (Some R) = true.
Proof. exact relaxed_solution_validates. Qed.
Print Assumptions C12_relaxed_solution_validates.

(* completeness: integral data, budget >= 1 (the side conditions of the unrelaxed theorem) and parameters
   within relax_range: beta >= 0 / >= -INF, |beta_c| <= cap (0 on selected projects), sum beta_c <=
   fraction * budget, and the stability rows of the SELECTED projects, which carry the slack INF = 10 budgets *)
Theorem C12_encoding_relaxed_complete : forall I A W b pay R exh alloc,
  Forall (fun c => 0 <= c) (costs I) -> integral (budget I) -> Forall integral (costs I) ->
  1 <= budget I -> (0 < length A)%nat -> wf_alloc I W ->
  relaxed_price_system I A W b pay R exh ->
  relax_range I A W b pay R ->
  alloc = None \/ alloc = Some W ->
  (alloc = None -> exh = false -> budget I <= b * Qnat (length A)) ->
  let a := asg_of I A W b pay true in
  ps_constraints_g I A alloc true exh (Some R) a = true /\ binary I a
  /\ (forall c, (c < nproj I)%nat -> (In c (alloc_of I a) <-> In c W)).
Proof. exact encoding_relaxed_complete. Qed.
Print Assumptions C12_encoding_relaxed_complete.

(* what the selected-project rows cut off: nothing as long as n * b <= relaxed cost + INF *)
Theorem C12_selected_rows_slack : forall I A W b pay R exh,
  relaxed_price_system I A W b pay R exh -> 0 <= b ->
  (forall c, In c W -> Qnat (length A) * b <= relaxed_cost I R c + relax_INF I) ->
  forall c, In c W ->
    Qsum (map (stable_claim I b pay) (supporters A c)) <= relaxed_cost I R c + relax_INF I.
Proof. exact selected_rows_slack. Qed.
Print Assumptions C12_selected_rows_slack.

(* MinAdd: only betas below (n - 10) budgets (and below -10 budgets) are cut off *)
Theorem C12_minadd_range : forall I A W b pay g exh,
  Forall (fun c => 0 <= c) (costs I) ->
  relaxed_price_system I A W b pay (RAdd g) exh -> 0 <= b -> b <= budget I ->
  (Qnat (length A) - RELAX_INF_FACTOR) * budget I <= g -> - relax_INF I <= g ->
  relax_range I A W b pay (RAdd g).
Proof. exact minadd_range. Qed.
Print Assumptions C12_minadd_range.

Theorem C12_relaxed_ps_shrink : forall I A W b pay R exh b',
  relaxed_price_system I A W b pay R exh -> b' <= b ->
  (forall i, (i < length A)%nat -> spent I pay i <= b') ->
  relaxed_price_system I A W b' pay R exh.
Proof. exact relaxed_ps_shrink. Qed.
Print Assumptions C12_relaxed_ps_shrink.

(* ---- minimality of the reported beta: accepted certificates bound the objective of EVERY solution of the
   model's MIP from below (given allocation / searched: one certificate per subset) ---- *)
Theorem C12_mip_objective_lower_bound_given : forall I A W exh R t ys a,
  canonical I W ->
  check_objective_lower I A W exh false (kind_of R) t ys = true ->
  ps_constraints_g I A (Some W) true exh (Some R) a = true -> binary I a ->
  t < relax_objective I R.
Proof. exact mip_objective_lower_bound_given. Qed.
Print Assumptions C12_mip_objective_lower_bound_given.

Theorem C12_mip_objective_lower_bound_searched : forall I A exh R t a,
  (forall W, In W (powerset (all_projects I)) ->
     exists ys, check_objective_lower I A W exh (negb exh) (kind_of R) t ys = true) ->
  ps_constraints_g I A None true exh (Some R) a = true -> binary I a ->
  t < relax_objective I R.
Proof. exact mip_objective_lower_bound_searched. Qed.
Print Assumptions C12_mip_objective_lower_bound_searched.

(* the constants of the model are the ones the SOURCE uses now (Generated/Anchors.v is re-extracted from
   priceability_relaxation.py on every run) *)
Theorem C12_relax_constants_are_the_sources :
  RELAX_INF_FACTOR = inject_Z Anchors.ANCHOR_RELAX_INF_FACTOR
  /\ RELAX_FRACTION = Anchors.ANCHOR_RELAX_FRACTION_NUM # Anchors.ANCHOR_RELAX_FRACTION_DEN
  /\ RELAX_VEC_CAP_FACTOR = inject_Z Anchors.ANCHOR_RELAX_VEC_CAP_FACTOR.
Proof. exact (conj eq_refl (conj eq_refl eq_refl)). Qed.
Print Assumptions C12_relax_constants_are_the_sources.

(* non-vacuity.  a (cost 1), c (cost 1), budget 1, ballots {a} {c} {c} {c}, W = [a]: not stable-priceable;
   relaxed-priceable with MinAdd beta = 2 but not with beta = 19/10; the MIP rows hold at beta = 2;
   MinAddVector needs beta[c] = 2 > budget (the repaired cap is 10 budgets); neutral parameters = stable. *)
Example C12_relax_nonvacuous :
  let I := mkInst [1; 1] 1 in
  let A := [[0]; [1]; [1]; [1]]%nat in
  let P := [[1; 0]; [0; 0]; [0; 0]; [0; 0]] in
  check_witness I A [0%nat] 1 P true true = false
  /\ check_witness_g I A [0%nat] 1 P true true (Some (RAdd 2)) = true
  /\ check_witness_g I A [0%nat] 1 P true true (Some (RAdd (19 # 10))) = false
  /\ validate_ps_g I A [0%nat] 1 P true true (Some (RAdd 2)) = true
  /\ validate_ps_g I A [0%nat] 1 P true true (Some (RAdd (19 # 10))) = false
  /\ validate_ps_g I A [0%nat] 1 P true true (Some (RMul 3)) = true
  /\ validate_ps_g I A [0%nat] 1 P true true (Some (RMul (29 # 10))) = false
  /\ ps_constraints_g I A (Some [0%nat]) true true (Some (RAdd 2)) (asg_of I A [0%nat] 1 (pay_of P) true) = true
  /\ ps_constraints_g I A (Some [0%nat]) true true (Some (RVec [0; 2])) (asg_of I A [0%nat] 1 (pay_of P) true) = true
  /\ ps_constraints_g I A (Some [0%nat]) true true (Some (RVec [1; 2])) (asg_of I A [0%nat] 1 (pay_of P) true) = false
  /\ ps_constraints_g I A (Some [0%nat]) true true (Some (ROff 2 [0; 1 # 20])) (asg_of I A [0%nat] 1 (pay_of P) true) = false
  /\ ps_constraints_g I A (Some [0%nat]) true true (Some (ROff 2 [0; 1 # 40])) (asg_of I A [0%nat] 1 (pay_of P) true) = true
  /\ relax_objective I (RVec [0; 2]) == 2.
Proof. vm_compute. repeat split; reflexivity. Qed.
