(* Props/C15gen.v -- property C15 (instance predicates agree with brute force over subsets), the REGENERATED tie:
   total_cost, Instance.is_feasible / is_exhaustive (with and without available_projects) / is_trivial /
   budget_allocations, max_budget_allocation_cardinality and utils.powerset are translated from the Python source of
   pabutools/election/instance.py and pabutools/utils.py on every run (Generated/PyFuncs.v, harness/vharness/pytrans.py;
   trusted base in DESIGN.md, section C10gen/TieGen and its C15gen/C18gen addendum); the theorems say that what the source
   says NOW is the hand-written model of Model/InstanceM.v (Base/ListExt.v for powerset) that the theorems of
   Props/C15.v are about.  max_budget_allocation_cost builds a MIP model: it stays an oracle (not translated).
   Only statements closed by exact; proofs in Proofs/PyGenInstP.v. *)
From Coq Require Import String.
From PB Require Import Model.PyPrims Generated.PyFuncs Proofs.PyGenLib Proofs.PyGenInstP.
Open Scope Q_scope.

Theorem C15gen_total_cost_ok :
  forall I l, gen_total_cost I l == py_total_cost I l.
Proof. exact gen_total_cost_ok. Qed.
Print Assumptions C15gen_total_cost_ok.

Theorem C15gen_total_cost_is_tcost :
  forall I l, gen_total_cost I l == tcost I l.
Proof. exact gen_total_cost_is_tcost. Qed.
Print Assumptions C15gen_total_cost_is_tcost.

Theorem C15gen_is_feasible_ok :
  forall I W, gen_Instance_is_feasible I W = is_feasible I W.
Proof. exact gen_is_feasible_ok. Qed.
Print Assumptions C15gen_is_feasible_ok.

Theorem C15gen_is_exhaustive_avail_ok :
  forall I W avail,
  gen_Instance_is_exhaustive_avail I W avail = is_exhaustive I W avail.
Proof. exact gen_is_exhaustive_avail_ok. Qed.
Print Assumptions C15gen_is_exhaustive_avail_ok.

Theorem C15gen_is_exhaustive_ok :
  forall I W, gen_Instance_is_exhaustive I W = is_exhaustive I W (all_projects I).
Proof. exact gen_is_exhaustive_ok. Qed.
Print Assumptions C15gen_is_exhaustive_ok.

Theorem C15gen_is_trivial_ok :
  forall I,
  is_trivial I = if gen_Instance_is_trivial_safe I then Some (gen_Instance_is_trivial I) else None.
Proof. exact gen_is_trivial_ok. Qed.
Print Assumptions C15gen_is_trivial_ok.

Theorem C15gen_max_budget_allocation_cardinality_ok :
  forall I l B,
  gen_max_budget_allocation_cardinality I l B == py_max_budget_allocation_cardinality I l B.
Proof. exact gen_max_budget_allocation_cardinality_ok. Qed.
Print Assumptions C15gen_max_budget_allocation_cardinality_ok.

Theorem C15gen_max_budget_allocation_cardinality_is_max_card :
  forall I l B,
  gen_max_budget_allocation_cardinality I l B == Qnat (max_card (map (cost I) l) B).
Proof. exact gen_max_budget_allocation_cardinality_is_max_card. Qed.
Print Assumptions C15gen_max_budget_allocation_cardinality_is_max_card.

Theorem C15gen_powerset_ok :
  forall l, gen_powerset l = powerset l.
Proof. exact gen_powerset_ok. Qed.
Print Assumptions C15gen_powerset_ok.

Theorem C15gen_budget_allocations_ok :
  forall I,
  gen_Instance_budget_allocations I = budget_allocations I (all_projects I).
Proof. exact gen_budget_allocations_ok. Qed.
Print Assumptions C15gen_budget_allocations_ok.

Theorem C15gen_total_cost_safe_ok :
  forall I l, gen_total_cost_safe I l = true.
Proof. exact gen_total_cost_safe_ok. Qed.
Print Assumptions C15gen_total_cost_safe_ok.

Theorem C15gen_max_budget_allocation_cardinality_safe_ok :
  forall I l B, gen_max_budget_allocation_cardinality_safe I l B = true.
Proof. exact gen_max_budget_allocation_cardinality_safe_ok. Qed.
Print Assumptions C15gen_max_budget_allocation_cardinality_safe_ok.

Theorem C15gen_powerset_safe_ok :
  forall l, gen_powerset_safe l = true.
Proof. exact gen_powerset_safe_ok. Qed.
Print Assumptions C15gen_powerset_safe_ok.

Theorem C15gen_is_feasible_safe_ok :
  forall I W, gen_Instance_is_feasible_safe I W = true.
Proof. exact gen_is_feasible_safe_ok. Qed.
Print Assumptions C15gen_is_feasible_safe_ok.

Theorem C15gen_is_exhaustive_safe_ok :
  forall I W, gen_Instance_is_exhaustive_safe I W = true.
Proof. exact gen_is_exhaustive_safe_ok. Qed.
Print Assumptions C15gen_is_exhaustive_safe_ok.

Theorem C15gen_is_exhaustive_avail_safe_ok :
  forall I W a, gen_Instance_is_exhaustive_avail_safe I W a = true.
Proof. exact gen_is_exhaustive_avail_safe_ok. Qed.
Print Assumptions C15gen_is_exhaustive_avail_safe_ok.

Theorem C15gen_budget_allocations_safe_ok :
  forall I, gen_Instance_budget_allocations_safe I = true.
Proof. exact gen_budget_allocations_safe_ok. Qed.
Print Assumptions C15gen_budget_allocations_safe_ok.

Theorem C15gen_inst_all_translated :
  gen_untranslated_inst = [].
Proof. exact gen_inst_all_translated. Qed.
Print Assumptions C15gen_inst_all_translated.
