"""Mutation regression for the C20 effect translator: applies source edits to a scratch copy of /repo/pabutools,
regenerates Generated/EffectSummaries.v into a scratch copy of the Coq tree and reports whether the C20gen check
breaks (expected for M*), the translator fails closed (F*), or everything still passes (N*).
usage: /venv/bin/python tools/c20gen_mutations.py [label-prefix ...]   (SRC_COQ=/work/<name>/coq to use a private tree)"""
import subprocess, shutil, os, sys, re
MUTS = [
 ("M1 budget-increase: no dict copy","pabutools/rules/exhaustion.py","        rule_params = dict(rule_params)","        pass"),
 ("M2 budget-increase: no deepcopy","pabutools/rules/exhaustion.py","current_instance = deepcopy(instance)","current_instance = instance"),
 ("M3 mes: no copy of initial allocation","pabutools/rules/mes/mes_rule.py","        budget_allocation = BudgetAllocation(initial_budget_allocation)","        budget_allocation = initial_budget_allocation"),
 ("M4 eff_support: no dict copy","pabutools/analysis/mesanalytics.py","        mes_params = dict(mes_params)","        pass"),
 ("M5 greedy scheme: no copy","pabutools/rules/greedywelfare/greedywelfare_rule.py","    initial_budget_allocation = BudgetAllocation(budget_allocation)","    initial_budget_allocation = budget_allocation"),
 ("M6 phragmen: no copy","pabutools/rules/phragmen.py","        initial_budget_allocation = BudgetAllocation(initial_budget_allocation)","        pass"),
 ("M8 completion: write into caller's dict","pabutools/rules/exhaustion.py","        new_budget_allocations = BudgetAllocation()","        new_budget_allocations = BudgetAllocation(); rule_params[index]['resoluteness'] = resoluteness"),
 ("M9 maxwelfare pd scheme: no copy","pabutools/rules/maxwelfare.py","    budget_allocation = BudgetAllocation(initial_budget_allocation)\n\n    items = []","    budget_allocation = initial_budget_allocation\n\n    items = []"),
 ("M10 mes: revert the details repair","pabutools/rules/mes/mes_rule.py","        if analytics:\n            budget_allocation.details.skipped_project_eff_support = 0","        budget_allocation.details.skipped_project_eff_support = 0"),
 ("M11 phragmen: ballots sorted in place","pabutools/rules/phragmen.py","    if tie_breaking is None:","    instance.meta.update({})\n    if tie_breaking is None:"),
 ("M12 shallow copy instead of deepcopy","pabutools/rules/exhaustion.py","current_instance = deepcopy(instance)","current_instance = copy(instance); current_instance.meta['x'] = 1"),
 ("M13 popularity: reverse the caller's rule list","pabutools/rules/composition.py","    results = []\n    for index, rule in enumerate(rule_sequence):","    results = []\n    rule_sequence.reverse()\n    for index, rule in enumerate(rule_sequence):"),
 ("F1 unknown callee setattr","pabutools/rules/greedywelfare/greedywelfare_rule.py","    if tie_breaking is None:\n        tie_breaking = lexico_tie_breaking\n    if initial_budget_allocation is not None:\n        budget_allocation = BudgetAllocation(initial_budget_allocation)","    setattr(instance, 'x', 1)\n    if tie_breaking is None:\n        tie_breaking = lexico_tie_breaking\n    if initial_budget_allocation is not None:\n        budget_allocation = BudgetAllocation(initial_budget_allocation)"),
 ("F2 unknown method","pabutools/rules/phragmen.py","    if tie_breaking is None:","    profile.renormalise()\n    if tie_breaking is None:"),
 ("F3 with statement","pabutools/rules/phragmen.py","    if tie_breaking is None:","    with open('/dev/null') as f:\n        pass\n    if tie_breaking is None:"),
 ("F4 final_budget override statement renamed","pabutools/analysis/mesanalytics.py","        instance.budget_limit = final_budget","        instance.budget_limit = frac(final_budget)"),
 ("N1 harmless rewrite: list() copy instead of BudgetAllocation","pabutools/rules/composition.py","        budget_allocation = BudgetAllocation(initial_budget_allocation)\n    results = []","        budget_allocation = list(initial_budget_allocation)\n    results = []"),
]
only = sys.argv[1:]
for label, f, old, new in MUTS:
    if only and not any(label.startswith(o) for o in only): continue
    shutil.rmtree('/tmp/mutE/pabutools', ignore_errors=True); shutil.copytree('/repo/pabutools','/tmp/mutE/pabutools')
    p='/tmp/mutE/'+f; s=open(p).read(); assert s.count(old)>=1,(label,); open(p,'w').write(s.replace(old,new,1))
    subprocess.run("rm -rf /tmp/mutE/coq && mkdir -p /tmp/mutE/coq && rsync -a --exclude .buildlock %s/ /tmp/mutE/coq/" % os.environ.get("SRC_COQ", "/verif/coq") + "", shell=True, cwd='/tmp')
    subprocess.run(["/verif/tools/regen_effects.sh","/tmp/mutE","/tmp/mutE/coq"], cwd='/tmp')
    head=open('/tmp/mutE/coq/theories/Generated/EffectSummaries.v').read(400)
    if 'TRANSLATOR FAILED' in head:
        print("%-55s TRANSLATOR FAILS CLOSED: %s" % (label, head.split('\n')[1].strip()[:150])); continue
    r=subprocess.run("coqc -q -Q theories PB theories/Generated/EffectSummaries.v && coqc -q -Q theories PB theories/Proofs/EffectsGenCheck.v", shell=True, cwd='/tmp/mutE/coq', capture_output=True, text=True)
    out=r.stdout+r.stderr
    m=re.search(r'line (\d+)', out)
    if r.returncode==0: print("%-55s passes (summaries still write-free)" % label)
    else:
        ln=int(m.group(1)); lem=open('/tmp/mutE/coq/theories/Proofs/EffectsGenCheck.v').read().split('\n')[ln-2]
        print("%-55s THEOREM BREAKS at %s" % (label, lem.split(':')[0]))
